# What MANIFEST.json claims per property (tools/mkmanifest.py writes the manifest from this).
TECH = "Lean 4 theorems over a model regenerated/tied to the source (rfl tie lemmas + differential correspondence); search on the implementation when a tie breaks"
NOTE_BASE = ("Trusted: Lean 4.33 kernel; axioms propext/Classical.choice/Quot.sound only (audited on every run); translator tools/rscp2lean; "
             "the correspondence harness and its generators; ")

CLAIMS = {
    "C01": dict(
        text="Machine-checked proof (Lean 4) that, in the model of writer.go/reader.go, encoding any well-formed message list (all 18 types, any nesting, empty values, value-less items, unknown tags, both checksum settings) and decoding it returns the same list, for single frames (roundtrip_plain) and for every frame of a stream on one pair of chained CBC states (roundtrip_stream, for any block cipher with D(E(b))=b). The model's tables, constants and leaf expressions are regenerated from /repo on every run; its hand-written control skeleton is tied by rfl-checked source fingerprints and by differential execution of Write/Read against the model (plaintext captured inside the cipher call), including every payload size around the block and 16-bit limits.",
        note=NOTE_BASE + "Rijndael-256 is a parameter (D∘E=id assumed); hash/crc32, encoding/binary and time.Time conversions are modelled and validated by the correspondence stream `rt`; Go int is unbounded in the model.",
        technique=TECH),
    "C02": dict(
        text="Machine-checked proof that no panic site and no fuel exhaustion of the decoder model is reachable: for every state Read itself can produce and every data slice of any length/content (read_never_panics), hence for every sequence of pieces (stream_never_panics). Totality of the structurally recursive Lean definitions with fuel = input length + 2 is the termination argument. The panic-capable operations of reader.go are explicit .panic outcomes of the model; the model is tied to the source by regenerated tables/leaves, rfl fingerprints of read/readMessage/Read/readHeader/truncatePadding, and by differential execution on valid frames, every structural mutation and random bytes under recover() with a watchdog.",
        note=NOTE_BASE + "wall-clock promptness is observed (20 s watchdog per case), not proved; the Go runtime's slice/nil checks are modelled by hand at the sites the fingerprints cover.",
        technique=TECH),
    "C03": dict(
        text="Machine-checked proof that the decoder model accepts a block-aligned plaintext exactly when an independently written frame grammar (Spec/Frame.lean: magic, reserved bits, version, covered length, defined types with agreeing lengths, containers and frame consumed exactly, zero padding, CRC) accepts it, with the same messages (accept_iff_wf); that everything else is an error, never a partial result or panic (reject_is_error); and that block-aligned piecewise delivery answers 'incomplete' until the frame is covered and then exactly the one-shot verdict (chunking). Tied to reader.go by regenerated leaves/tables, rfl fingerprints and differential execution; additionally rscp.Read is compared directly with the executable grammar on every generated case.",
        note=NOTE_BASE + "hash/crc32 modelled by Rscp.Crc.crc32 (validated on CRC-bearing frames in every run); the grammar itself (Spec/Frame.lean, ~130 lines) is the reading of 'well-formed RSCP' and is trusted as specification.",
        technique=TECH),
}

NOT_CLAIMED = {
    "C04": "check under construction in this session (CRC theorems proved, frame-level corollaries in progress)",
    "C05": "check under construction in this session",
    "C06": "check under construction in this session",
    "C07": "check under construction in this session",
    "C08": "check under construction in this session",
    "C09": "check under construction in this session",
    "C10": "check under construction in this session",
    "C11": "check under construction in this session",
    "C12": "check under construction in this session",
    "C13": "check under construction in this session",
    "C14": "check under construction in this session",
    "C15": "check under construction in this session",
    "C16": "check under construction in this session",
    "C17": "check under construction in this session",
    "C18": "check under construction in this session",
}
