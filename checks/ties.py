# Which regenerated facts each tie module freezes. Keys are Lean module names under Rscp/Tie.
TIES = {
    "Reader": dict(
        doc="Functions of the decoding path that Model/Codec.lean follows by hand.",
        shapes=["rscp_readHeader", "rscp_truncatePadding", "rscp_read", "rscp_readMessage", "rscp_Read",
                "rscp_DataType_length", "rscp_DataType_newEmpty", "rscp_DataType_IsADataType", "rscp_dereferencePtr"],
        leaves=["readHeader_badMagic", "readHeader_badCtrl", "readHeader_badVersion", "readHeader_crcFlag",
                "readHeader_frameSize", "readMessage_tooLong", "readMessage_lenMismatch", "truncatePadding_loop",
                "truncatePadding_trailing", "Read_badChunk", "Read_complete", "Read_badCrc"]),
    "Writer": dict(
        doc="Functions of the encoding path that Model/Codec.lean follows by hand.",
        shapes=["rscp_write", "rscp_writeMessage", "rscp_writeFrame", "rscp_Write", "rscp_Message_valueSize",
                "rscp_messagesSize", "rscp_DataType_length", "rscp_dereferencePtr"],
        leaves=["writeFrame_ctrlBase", "writeFrame_ctrlCrcOn", "writeFrame_ctrlCrcOff", "Write_needsPadding",
                "valueSize_isVariable"]),
    "Validate": dict(
        doc="Request validation as Model/Codec.lean follows it.",
        shapes=["rscp_Message_validate", "rscp_Message_size", "rscp_messagesWideSize", "rscp_validateRequest",
                "rscp_validateRequests", "rscp_DataType_isValidValue", "rscp_DataType_length", "rscp_Tag_isRequest"],
        leaves=["validate_tooLong", "validateRequests_tooLong", "size_isVariable", "isRequest"]),
}
