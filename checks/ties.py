# Which regenerated facts each tie module freezes. Keys are Lean module names under Rscp/Tie.
TIES = {
    "Reader": dict(
        doc="Functions of the decoding path that Model/Codec.lean follows by hand.",
        shapes=["rscp_readHeader", "rscp_truncatePadding", "rscp_read", "rscp_readMessage", "rscp_Read",
                "rscp_DataType_length", "rscp_DataType_newEmpty", "rscp_DataType_IsADataType", "rscp_dereferencePtr", "rscp_var_newEmptyMap"],
        leaves=["readHeader_badMagic", "readHeader_badCtrl", "readHeader_badVersion", "readHeader_crcFlag",
                "readHeader_frameSize", "readMessage_tooLong", "readMessage_lenMismatch", "truncatePadding_loop",
                "truncatePadding_trailing", "Read_badChunk", "Read_complete", "Read_badCrc"]),
    "Writer": dict(
        doc="Functions of the encoding path that Model/Codec.lean follows by hand.",
        shapes=["rscp_write", "rscp_writeMessage", "rscp_writeFrame", "rscp_Write", "rscp_Message_valueSize",
                "rscp_messagesSize", "rscp_DataType_length", "rscp_dereferencePtr"],
        leaves=["writeFrame_ctrlBase", "writeFrame_ctrlCrcOn", "writeFrame_ctrlCrcOff", "Write_needsPadding",
                "valueSize_isVariable"]),
    "Validate": dict(
        doc="Request validation as Model/Codec.lean follows it.",
        shapes=["rscp_Message_validate", "rscp_Message_size", "rscp_messagesWideSize", "rscp_validateRequest",
                "rscp_validateRequests", "rscp_DataType_isValidValue", "rscp_DataType_length", "rscp_Tag_isRequest", "rscp_var_validateMap"],
        leaves=["validate_tooLong", "validateRequests_tooLong", "size_isVariable", "isRequest"]),
    "Client": dict(
        doc="The client state machine (client.go) as Model/Client.lean, Model/Receive.lean and Model/Session.lean follow it.",
        shapes=["rscp_NewClient", "rscp_Client_resetCipher", "rscp_Client_send", "rscp_Client_receive", "rscp_Client_connect",
                "rscp_Client_authenticate", "rscp_Client_Disconnect", "rscp_Client_Send", "rscp_Client_SendMultiple",
                "rscp_CreateRequest", "rscp_readRequestSlice", "rscp_readRequestSliceReader"],
        leaves=["authenticate_hideLog"]),
    "Crypt": dict(
        doc="Key and IV construction (crypt.go) as Model/Crypt.lean follows it.",
        shapes=["rscp_createAESKey", "rscp_newIV"]),
    "Config": dict(
        doc="ClientConfig.check (client_config.go) as Model/Config.lean follows it.",
        shapes=["rscp_ClientConfig_check", "rscp_NewClient"],
        leaves=["check_noAddress", "check_noUsername", "check_noPassword", "check_noKey", "check_anyMissing", "check_heartbeatUnset",
                "check_portUnset", "check_connTimeoutUnset", "check_sendTimeoutUnset", "check_recvTimeoutUnset", "check_bufBlocksUnset"]),
    "Builder": dict(
        doc="The request builder (request.go, read_request_slice.go) as Model/Builder.lean follows it.",
        shapes=["rscp_CreateRequest", "rscp_CreateRequests", "rscp_readRequestSlice", "rscp_readRequestSliceReader", "rscp_NewMessage", "rscp_Tag_DataType"]),
    "Vocab": dict(
        doc="Vocabulary functions as Model/Vocab.lean follows them.",
        shapes=["rscp_Tag_String", "rscp_TagString", "rscp_TagValues", "rscp_Tag_IsATag", "rscp_Tag_DataType", "rscp_Tag_MarshalJSON",
                "rscp_Tag_UnmarshalJSON", "rscp_Tag_isRequest", "rscp_Tag_isResponse", "rscp_DataType_String", "rscp_DataTypeString",
                "rscp_DataType_IsADataType", "rscp_DataType_MarshalJSON", "rscp_DataType_UnmarshalJSON", "rscp_DataType_length",
                "rscp_DataType_newEmpty", "rscp_DataType_new", "rscp_DataType_isValidValue", "rscp_var_newEmptyMap", "rscp_var_newMap", "rscp_var_validateMap",
                "rscp_Message_UnmarshalJSON", "rscp_Message_UnmarshalJSONValue"],
        leaves=["isRequest", "isResponse"]),
    "Log": dict(
        doc="Every Log call of package rscp (function:method:format,args) and the rendering of messages.",
        shapes=["rscp_Message_String", "rscp_Tag_isSecret", "rscp_Write", "rscp_Read", "rscp_Client_authenticate"],
        leaves=["authenticate_hideLog"],
        lists=["rscpLogSites"]),
    "Globals": dict(
        doc="Package-level variables of package rscp and the (empty) list of functions writing them.",
        lists=["rscpGlobals", "rscpGlobalWrites"]),
    "JsonOut": dict(
        doc="The output formats of the e3dc command as Model/JsonOut.lean follows them.",
        shapes=["e3dc_NewJSONMergedMessages", "e3dc_NewJSONSimpleMessage", "e3dc_NewJSONSimpleMessages", "e3dc_JSONMessage_MarshalJSON",
                "e3dc_run", "rscp_Tag_MarshalJSON", "rscp_RscpError_MarshalJSON", "rscp_RscpError_String", "rscp_DataType_MarshalJSON"]),
    "JsonIn": dict(
        doc="The request notations of the e3dc command as Model/JsonIn.lean follows them.",
        shapes=["e3dc_unmarshalJSONRequests", "e3dc_unmarshalJSONRequest", "e3dc_unmarshalJSONValue", "e3dc_isJSONEmpty", "e3dc_isJSONArray",
                "e3dc_isJSONString", "e3dc_isJSONNumber", "e3dc_isJSONDataType", "rscp_Message_UnmarshalJSON", "rscp_Message_UnmarshalJSONValue",
                "rscp_DataType_newNumber", "rscp_DataType_new", "rscp_var_newMap", "rscp_Tag_UnmarshalJSON", "rscp_DataType_UnmarshalJSON", "rscp_Message_validate"]),
    "Cli": dict(
        doc="main/run/flag handling of the e3dc command as Model/Cli.lean follows them.",
        shapes=["e3dc_main", "e3dc_run", "e3dc_parseFlags", "e3dc_checkFlags", "e3dc_printUsage", "e3dc_printVersion"]),
}
