# Per-property configuration of ./check: which Lean modules carry the obligations, which
# correspondence streams run (case counts per tier), which operations are specification oracles.

CODEC_TB = ["hash/crc32 is modelled by Rscp.Crc.crc32 (validated on every run by the streams' CRC-bearing frames)",
            "encoding/binary little-endian fixed-width codecs, bytes.Reader/io.ReadFull short-read behaviour (modelled, validated by correspondence)",
            "Go `int` modelled as unbounded"]

PROPS = {
    "C01": dict(
        lean=["Rscp.Props.C01", "Rscp.Tie.Reader", "Rscp.Tie.Writer", "Rscp.Tie.Validate"],
        streams=[dict(name="rt", quick=400, thorough=6000, thorough_seeds=3)],
        trusted_base=CODEC_TB + ["block cipher: parameter with hypothesis D(E(b)) = b (Rijndael-256 itself is not modelled)",
                                 "time.Time ↔ (Unix(), Nanosecond()) conversion of the Go runtime"],
        assumptions=["the wall clock returns a time whose Unix seconds fit int64"],
    ),
    "C02": dict(
        lean=["Rscp.Props.C02", "Rscp.Tie.Reader"],
        streams=[dict(name="any", quick=120, thorough=3000, thorough_seeds=3)],
        trusted_base=CODEC_TB,
        assumptions=["'promptly' is shown as: the model's recursion stays within fuel = input length + 2; wall-clock per case is bounded by a 20 s watchdog in the harness"],
    ),
    "C03": dict(
        lean=["Rscp.Props.C03", "Rscp.Tie.Reader"],
        streams=[dict(name="any", quick=120, thorough=3000, thorough_seeds=3, oracle_ops=["spec "])],
        trusted_base=CODEC_TB,
    ),
    "C04": dict(
        lean=["Rscp.Props.C04", "Rscp.Tie.Reader", "Rscp.Tie.Writer"],
        streams=[dict(name="bits", quick=60, thorough=600, thorough_seeds=2, oracle_ops=["spec "])],
        trusted_base=CODEC_TB + ["Mathlib (Nat.Prime facts) in Rscp/Lemmas/CrcOrder.lean only"],
    ),
    "C05": dict(
        lean=["Rscp.Props.C05", "Rscp.Tie.Validate", "Rscp.Tie.Writer"],
        streams=[dict(name="val", quick=1500, thorough=20000, thorough_seeds=2)],
        trusted_base=CODEC_TB,
    ),
}
