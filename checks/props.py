# Per-property configuration of ./check: which Lean modules carry the obligations, which
# correspondence streams run (case counts per tier), which operations are specification oracles.

CODEC_TB = ["hash/crc32 is modelled by Rscp.Crc.crc32 (validated on every run by the streams' CRC-bearing frames)",
            "encoding/binary little-endian fixed-width codecs, bytes.Reader/io.ReadFull short-read behaviour (modelled, validated by correspondence)",
            "Go `int` modelled as unbounded"]

PROPS = {
    "C01": dict(
        lean=["Rscp.Props.C01", "Rscp.Props.C01a", "Rscp.Props.C01b", "Rscp.Tie.Reader", "Rscp.Tie.Writer", "Rscp.Tie.Validate"],
        streams=[dict(name="rt", quick=400, thorough=6000, thorough_seeds=3)],
        trusted_base=CODEC_TB + ["block cipher: parameter with hypothesis D(E(b)) = b (Rijndael-256 itself is not modelled)",
                                 "time.Time ↔ (Unix(), Nanosecond()) conversion of the Go runtime"],
        assumptions=["the wall clock returns a time whose Unix seconds fit int64"],
    ),
    "C02": dict(
        lean=["Rscp.Props.C02", "Rscp.Props.C09", "Rscp.Tie.Reader", "Rscp.Tie.Client"],
        streams=[dict(name="any", quick=120, thorough=3000, thorough_seeds=3),
                 dict(name="hist", quick=150, thorough=3000, thorough_seeds=2),
                 dict(name="stall", quick=1, thorough=1, thorough_seeds=1)],
        trusted_base=CODEC_TB,
        assumptions=["'promptly' is shown as: the model's recursion stays within fuel = input length + 2; wall-clock per case is bounded by a 20 s watchdog in the harness"],
    ),
    "C03": dict(
        lean=["Rscp.Props.C03", "Rscp.Tie.Reader"],
        streams=[dict(name="any", quick=120, thorough=3000, thorough_seeds=3, oracle_ops=["spec "])],
        trusted_base=CODEC_TB,
    ),
    "C04": dict(
        lean=["Rscp.Props.C04", "Rscp.Tie.Reader", "Rscp.Tie.Writer"],
        audit_extra=["Rscp.Crc.burst_detected", "Rscp.Crc.one_two_bits_detected", "Rscp.Crc.period_exact"],
        streams=[dict(name="bits", quick=60, thorough=600, thorough_seeds=2, oracle_ops=["spec "])],
        trusted_base=CODEC_TB + ["Mathlib (Nat.Prime facts) in Rscp/Lemmas/CrcOrder.lean only"],
    ),
    "C05": dict(
        lean=["Rscp.Props.C05", "Rscp.Tie.Validate", "Rscp.Tie.Writer", "Rscp.Tie.Client"],
        streams=[dict(name="val", quick=600, thorough=20000, thorough_seeds=2),
                 dict(name="send", quick=250, thorough=5000, thorough_seeds=2)],
        trusted_base=CODEC_TB + ["the socket layer: Client.send's conn.Write is observed through an in-memory net.Conn attached by the verif hook"],
    ),
    "C06": dict(
        lean=["Rscp.Props.C06", "Rscp.Tie.Crypt", "Rscp.Tie.Client"],
        streams=[dict(name="cfg", quick=100, thorough=3000, thorough_seeds=2),
                 dict(name="tcp", quick=128, thorough=1500, thorough_seeds=3)],
        trusted_base=["Rijndael-256 (github.com/azihsoyn/rijndael256) and crypto/cipher's CBC: parameters; the theorems hold for every block cipher with D(E(b)) = b",
                      "the independent peer of the harness (own key padding, IV, chaining, frame parser) decides decryptability on real loopback TCP"],
    ),
    "C07": dict(
        lean=["Rscp.Props.C07", "Rscp.Props.C07b", "Rscp.Tie.Client", "Rscp.Tie.Reader", "Rscp.Tie.Crypt"],
        streams=[dict(name="seg", quick=35, thorough=600, thorough_seeds=2)],
        trusted_base=CODEC_TB + ["conn.Read semantics: returns 1..len(buf) bytes of what was delivered (scripted net.Conn attached by the verif hook)",
                                 "CBC decryption commutes with block-aligned cutting (C06.cbc_chunking), so the loop is modelled on the plaintext stream"],
    ),
    "C08": dict(
        lean=["Rscp.Props.C08", "Rscp.Props.C08b", "Rscp.Tie.Client", "Rscp.Tie.Reader"],
        streams=[dict(name="hist", quick=250, thorough=5000, thorough_seeds=3),
                 dict(name="tcp", quick=24, thorough=600, thorough_seeds=2)],
        trusted_base=["token-level abstraction of the byte stream: one well-formed reply frame = one token (justified by C03 chunking and C07)",
                      "peer assumption of the property: the peer answers each request it receives once and in order"],
    ),
    "C09": dict(
        lean=["Rscp.Props.C09", "Rscp.Tie.Client"],
        streams=[dict(name="hist", quick=250, thorough=5000, thorough_seeds=3),
                 dict(name="auth", quick=1, thorough=1),
                 dict(name="tcp", quick=24, thorough=600, thorough_seeds=2)],
        trusted_base=["token-level abstraction of the byte stream (as C08)"],
    ),
    "C16": dict(
        lean=["Rscp.Props.C16", "Rscp.Tie.Config", "Rscp.Tie.Crypt"],
        streams=[dict(name="cfg", quick=300, thorough=20000, thorough_seeds=2)],
        trusted_base=["Go type assertion on the UseChecksum interface value modelled as a three-way case (nil / bool / other type)"],
    ),
    "C14": dict(
        lean=["Rscp.Props.C14", "Rscp.Props.C14b", "Rscp.Tie.Vocab", "Rscp.Tie.Reader", "Rscp.Tie.Writer", "Rscp.Tie.Validate"],
        streams=[dict(name="vocab", quick=300, thorough=20000, thorough_seeds=2)],
        trusted_base=["names are handled as Nat codes (base-256 number of the bytes behind a leading 1; injectivity proved: nameCode_injective); that the generated code tables are the codes of the generated string tables is checked by the driver on every run (op `codes`), not by the kernel (the kernel needs 30 ms per string comparison)",
                      "Rscp/Snapshot/Vocab.lean is the frozen vocabulary of the pinned commit"],
    ),
    "C18": dict(
        lean=["Rscp.Props.C18", "Rscp.Tie.Builder"],
        streams=[dict(name="builder", quick=400, thorough=20000, thorough_seeds=2)],
        trusted_base=["go-slicereader's Read/Len (modelled as list head/length)", "Go type switch `case Tag, DataType` modelled by the three argument classes tag / data-type constant / other value"],
    ),
    "C10": dict(
        lean=["Rscp.Props.C10", "Rscp.Tie.Client", "Rscp.Tie.Config"],
        streams=[dict(name="deadline", quick=300, thorough=5000, thorough_seeds=2),
                 dict(name="stall", quick=1, thorough=1, thorough_seeds=1)],
        trusted_base=["RUNTIME ASSUMPTION (not proved): net.Conn honours deadlines — every blocking Dial/Write/Read returns no later than its deadline; goroutine scheduling latency is 'slack'",
                      "time is logical in the model; the stream `stall` measures wall-clock on loopback TCP with 1.2 s slack"],
        assumptions=["partial by nature: the theorem bounds the number and budgets of blocking operations; wall-clock behaviour is observed, not proved"],
    ),
    "C11": dict(
        lean=["Rscp.Props.C11", "Rscp.Tie.Log", "Rscp.Tie.Client"],
        streams=[dict(name="log", quick=300, thorough=3000, thorough_seeds=2),
                 dict(name="clilog", quick=1, thorough=1, thorough_seeds=1)],
        trusted_base=["fmt's %v/%s/%+v/%#v rendering and logrus level filtering are modelled only as far as the theorems need (which records are emitted at a level; that []Message renders through Message.String) and validated by the stream `log`",
                      "classification of the package's log call sites by payload (Model/Log.lean siteClass) is by hand; the site list itself is regenerated and frozen by Tie/Log"],
    ),
    "C17": dict(
        lean=["Rscp.Props.C17", "Rscp.Tie.Globals"],
        streams=[dict(name="conc", quick=6, thorough=120, thorough_seeds=3, race=True)],
        trusted_base=["NOT PROVED: the Go memory model, the scheduler, and shared state inside logrus, rijndael256, go-conv — monitored by the race detector in the stream `conc`",
                      "the interference theorem is about agents whose step function receives only its own component; that the code has this shape is tied by the regenerated (empty) list of package-level write sites and the frozen list of package-level variables"],
        assumptions=["partial by nature: schedules are sampled by the Go scheduler, not enumerated"],
    ),
    "C13": dict(
        lean=["Rscp.Props.C13", "Rscp.Tie.JsonOut"],
        streams=[dict(name="jsonout", quick=120, thorough=3000, thorough_seeds=2)],
        trusted_base=["encoding/json's printing of leaves: modelled only as far as 'can it be printed' (NaN/Inf, year range) and 'integral float below 1e21 prints as an integer'; the digits of non-integral floats and of time stamps are abstracted (tokens F, T) on both sides",
                      "Go's Time.Year() over the whole int64 range is modelled (goYear) and validated by the stream's time-edge cases",
                      "the response reaches the formatter through the verif loop of the e3dc binary (overlay), which decodes a plaintext frame with rscp.Read"],
    ),
    "C12": dict(
        lean=["Rscp.Props.C12", "Rscp.Tie.JsonIn", "Rscp.Tie.Vocab", "Rscp.Tie.Validate"],
        streams=[dict(name="jsonin", quick=300, thorough=6000, thorough_seeds=2)],
        trusted_base=["encoding/json: how a JSON text becomes a tree, how a tree is stored into interface{} / uint32 / a struct with case-insensitive field names (modelled, validated by the stream); the model works on JSON trees, malformed TEXT is judged by the Go-side oracle only",
                      "strconv.ParseFloat, RFC 3339 parsing, go-conv number→bool/string coercions: parameters of the model (JsonLib), universally quantified in the theorems; the driver instantiates them with a correctly rounded conversion and an RFC 3339 parser of its own, validated against Go on every run",
                      "the real functions are reached through the verif loop of the e3dc binary (overlay in package main)"],
    ),
    "C15": dict(
        lean=["Rscp.Props.C15", "Rscp.Tie.Cli", "Rscp.Tie.JsonIn", "Rscp.Tie.JsonOut", "Rscp.Tie.Client"],
        streams=[dict(name="cli", quick=60, thorough=1500, thorough_seeds=2)],
        trusted_base=["jnovack/flag and checkFlags: their outcome class (help / version / unusable / ok) is an INPUT of the model; the stream runs the real binary for every class",
                      "os-level behaviour (exit status, stdout/stderr of a child process) is observed, not modelled",
                      "the fake device is the harness's independent peer on loopback TCP"],
    ),
}
