#!/bin/sh
# run every claimed check (quick tier unless $1 = thorough) on the current tree and validate the evidence files
cd "$(dirname "$0")/.."
TIER=${1:-quick}
rc=0
for p in $(python3 -c "import json;print(' '.join(c['property_id'] for c in json.load(open('MANIFEST.json'))['checks']))"); do
  ./check $p --tier $TIER | tail -3 || rc=1
done
python3-vt - <<'PY'
import json, jsonschema, glob
schema = json.load(open('/root/.vp/EVIDENCE.schema.json'))
m = json.load(open('MANIFEST.json'))
for c in m['checks']:
    p = c['evidence_file']
    try:
        e = json.load(open(p))
        jsonschema.validate(e, schema)
        cov = e['coverage']
        assert cov['obligations'] == cov['discharged'] and cov['discharged'] >= 1, (cov['obligations'], cov['discharged'])
        assert e['violations'] == 0, 'violations'
    except Exception as ex:
        print('EVIDENCE PROBLEM', p, str(ex)[:200])
print('evidence validated')
PY
exit $rc
