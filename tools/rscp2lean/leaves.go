package main

import (
	"fmt"
	"go/ast"
	"go/token"
	"go/types"
	"strings"
)

// A leaf is one expression of the Go source, translated to a Lean definition with Go's typed
// fixed-width arithmetic made explicit. Unsigned sub-expressions are `Nat` with `uwrap w`,
// signed ones `Int` with `swrap w` (`int` is treated as unbounded, see DESIGN.md §7), booleans `Bool`.
// Sub-expressions that are not arithmetic (calls, index/slice expressions, field selectors, type
// assertions) become parameters of the definition; their source text is recorded so that the
// hand-written model can be checked to pass the right thing (`<leaf>_args`).

type leafSpec struct {
	fn   string // function in package rscp
	kind string // assign | ifret | ifassign | return | for | ifnth
	key  string
	lean string
	// parameter order the model expects: source texts of variables / opaque sub-expressions
	params []string
}

var leafSpecs = []leafSpec{
	{"readHeader", "ifret", "ErrRscpInvalidMagic", "readHeader_badMagic", []string{"binary.LittleEndian.Uint16(data[RSCP_FRAME_MAGIC_POS:])"}},
	{"readHeader", "ifret", "ErrRscpInvalidControl", "readHeader_badCtrl", []string{"c"}},
	{"readHeader", "ifret", "ErrRscpProtVersionMismatch", "readHeader_badVersion", []string{"c"}},
	{"readHeader", "assign", "crcFlag", "readHeader_crcFlag", []string{"c"}},
	{"readHeader", "assign", "frameSize", "readHeader_frameSize", []string{"dataSize", "c"}},
	{"readMessage", "ifret", "ErrRscpDataLimitExceeded", "readMessage_tooLong", []string{"l"}},
	{"readMessage", "ifhas", "m.DataType.length() != l", "readMessage_lenMismatch", []string{"m.DataType.length()", "m.DataType", "l"}},
	{"truncatePadding", "for", "0", "truncatePadding_loop", []string{"i", "frameSize", "(*data)[i-1]"}},
	{"truncatePadding", "ifret", "ErrRscpInvalidFrameLength", "truncatePadding_trailing", []string{"len(*data)", "frameSize"}},
	{"Read", "ifret", "ErrRscpInvalidFrameLength", "Read_badChunk", []string{"len(data)"}},
	{"Read", "ifhas", ">= int(*frameSize)", "Read_complete", []string{"len(*buf)", "*frameSize"}},
	{"Read", "ifret", "ErrRscpInvalidCrc", "Read_badCrc", []string{"crc", "crc32.ChecksumIEEE((*buf)[:*frameSize-uint32(RSCP_FRAME_CRC_SIZE)])"}},
	{"Write", "ifhas", "len(d)%", "Write_needsPadding", []string{"len(d)"}},
	{"writeFrame", "assign", "ctrl", "writeFrame_ctrlBase", []string{}},
	{"writeFrame", "assign2", "ctrl", "writeFrame_ctrlCrcOn", []string{"ctrl"}},
	{"writeFrame", "assign3", "ctrl", "writeFrame_ctrlCrcOff", []string{"ctrl"}},
	{"Tag.isRequest", "return", "", "isRequest", []string{"t"}},
	{"Tag.isResponse", "return", "", "isResponse", []string{"t"}},
	{"Message.validate", "ifret", "ErrRscpDataLimitExceeded", "validate_tooLong", []string{"m.size()"}},
	{"validateRequests", "ifret", "ErrRscpDataLimitExceeded", "validateRequests_tooLong", []string{"messagesWideSize(messages)"}},
	{"Message.valueSize", "ifhas", "length() == 0", "valueSize_isVariable", []string{"m.DataType.length()", "m.DataType"}},
	{"Message.size", "ifhas", "length() == 0", "size_isVariable", []string{"m.DataType.length()", "m.DataType"}},
	{"ClientConfig.check", "ifhas", "len(c.Address) == 0", "check_noAddress", []string{"len(c.Address)"}},
	{"ClientConfig.check", "ifhas", "len(c.Username) == 0", "check_noUsername", []string{"len(c.Username)"}},
	{"ClientConfig.check", "ifhas", "len(c.Password) == 0", "check_noPassword", []string{"len(c.Password)"}},
	{"ClientConfig.check", "ifhas", "len(c.Key) == 0", "check_noKey", []string{"len(c.Key)"}},
	{"ClientConfig.check", "ifhas", "len(missing) > 0", "check_anyMissing", []string{"len(missing)"}},
	{"ClientConfig.check", "ifassign", "HeartbeatInterval", "check_heartbeatUnset", []string{"c.HeartbeatInterval"}},
	{"ClientConfig.check", "ifassign", "Port", "check_portUnset", []string{"c.Port"}},
	{"ClientConfig.check", "ifassign", "ConnectionTimeout", "check_connTimeoutUnset", []string{"c.ConnectionTimeout"}},
	{"ClientConfig.check", "ifassign", "SendTimeout", "check_sendTimeoutUnset", []string{"c.SendTimeout"}},
	{"ClientConfig.check", "ifassign", "ReceiveTimeout", "check_recvTimeoutUnset", []string{"c.ReceiveTimeout"}},
	{"ClientConfig.check", "ifassign", "ReceiveBufferBlockSize", "check_bufBlocksUnset", []string{"c.ReceiveBufferBlockSize"}},
	{"Client.authenticate", "ifhas", "orgLogLevel < RequiredAuthLogLevel", "authenticate_hideLog", []string{"orgLogLevel"}},
}

type tr struct {
	p      *pkgInfo
	params []string          // source text, in order of first occurrence
	ptypes map[string]string // source text → Lean type
	pnames map[string]string
	failed string
}

func (t *tr) param(src string, typ types.Type) string {
	src = strings.Join(strings.Fields(src), " ")
	if n, ok := t.pnames[src]; ok {
		return n
	}
	n := fmt.Sprintf("x%d", len(t.params))
	t.params = append(t.params, src)
	t.pnames[src] = n
	t.ptypes[src] = leanType(typ)
	return n
}

func leanType(typ types.Type) string {
	if b, ok := typ.Underlying().(*types.Basic); ok {
		switch {
		case b.Info()&types.IsBoolean != 0:
			return "Bool"
		case b.Info()&types.IsUnsigned != 0:
			return "Nat"
		case b.Info()&types.IsInteger != 0:
			return "Int"
		}
	}
	return "Nat"
}

func intBits(typ types.Type) (bits int, signed bool, ok bool) {
	b, isB := typ.Underlying().(*types.Basic)
	if !isB || b.Info()&types.IsInteger == 0 {
		return 0, false, false
	}
	switch b.Kind() {
	case types.Int8:
		return 8, true, true
	case types.Int16:
		return 16, true, true
	case types.Int32:
		return 32, true, true
	case types.Int64:
		return 64, true, true
	case types.Int, types.UntypedInt:
		return 0, true, true // unbounded
	case types.Uint8:
		return 8, false, true
	case types.Uint16:
		return 16, false, true
	case types.Uint32:
		return 32, false, true
	case types.Uint64, types.Uint, types.Uintptr:
		return 64, false, true
	}
	return 0, false, false
}

func wrapAs(typ types.Type, s string) string {
	bits, signed, ok := intBits(typ)
	if !ok || bits == 0 {
		return s
	}
	if signed {
		return fmt.Sprintf("(swrap %d %s)", bits, s)
	}
	return fmt.Sprintf("(uwrap %d %s)", bits, s)
}

// cast converts Lean term s of Go type from to Go type to
func cast(from, to types.Type, s string) string {
	_, fs, fok := intBits(from)
	tb, ts, tok := intBits(to)
	if !fok || !tok {
		return s
	}
	switch {
	case fs && !ts: // signed → unsigned
		return fmt.Sprintf("(Int.toNat (%s %% %s))", s, pow2(tb))
	case !fs && ts:
		return wrapAs(to, fmt.Sprintf("(Int.ofNat %s)", s))
	default:
		return wrapAs(to, s)
	}
}

func pow2(b int) string {
	if b == 0 {
		b = 64
	}
	return fmt.Sprintf("(2^%d : Int)", b)
}

func (t *tr) expr(e ast.Expr) string {
	p := t.p
	tv, hasTV := p.info.Types[e]
	if hasTV && tv.Value != nil {
		// constant: inline the value
		switch leanType(tv.Type) {
		case "Bool":
			return strings.ToLower(tv.Value.String())
		case "Int":
			s := tv.Value.ExactString()
			if strings.HasPrefix(s, "-") {
				return "(" + s + " : Int)"
			}
			return "(" + s + " : Int)"
		default:
			s := tv.Value.ExactString()
			if strings.HasPrefix(s, "-") {
				t.failed = "negative constant of unsigned type"
			}
			return "(" + s + " : Nat)"
		}
	}
	switch x := e.(type) {
	case *ast.ParenExpr:
		return t.expr(x.X)
	case *ast.Ident:
		if hasTV {
			return t.param(x.Name, tv.Type)
		}
	case *ast.UnaryExpr:
		switch x.Op {
		case token.NOT:
			return "(!" + t.expr(x.X) + ")"
		}
	case *ast.BinaryExpr:
		lt := p.info.Types[x.X].Type
		a, b := t.expr(x.X), t.expr(x.Y)
		rt := tv.Type
		isInt := leanType(lt) != "Bool"
		switch x.Op {
		case token.LAND:
			return "(" + a + " && " + b + ")"
		case token.LOR:
			return "(" + a + " || " + b + ")"
		case token.EQL:
			return "(" + a + " == " + b + ")"
		case token.NEQ:
			return "(" + a + " != " + b + ")"
		case token.LSS:
			return "(decide (" + a + " < " + b + "))"
		case token.LEQ:
			return "(decide (" + a + " ≤ " + b + "))"
		case token.GTR:
			return "(decide (" + a + " > " + b + "))"
		case token.GEQ:
			return "(decide (" + a + " ≥ " + b + "))"
		}
		if isInt {
			bits, signed, _ := intBits(rt)
			switch x.Op {
			case token.ADD:
				return wrapAs(rt, "("+a+" + "+b+")")
			case token.MUL:
				return wrapAs(rt, "("+a+" * "+b+")")
			case token.SUB:
				if signed {
					return wrapAs(rt, "("+a+" - "+b+")")
				}
				if bits == 0 {
					bits = 64
				}
				return fmt.Sprintf("(uwrap %d (%s + 2^%d - %s))", bits, a, bits, b)
			case token.QUO:
				if !signed {
					return "(" + a + " / " + b + ")"
				}
				return "(Int.tdiv " + a + " " + b + ")"
			case token.REM:
				if !signed {
					return "(" + a + " % " + b + ")"
				}
				return "(Int.tmod " + a + " " + b + ")"
			case token.AND:
				if !signed {
					return "(" + a + " &&& " + b + ")"
				}
			case token.OR:
				if !signed {
					return "(" + a + " ||| " + b + ")"
				}
			case token.XOR:
				if !signed {
					return "(" + a + " ^^^ " + b + ")"
				}
			case token.SHL:
				if !signed {
					sh := b
					if leanType(p.info.Types[x.Y].Type) == "Int" {
						sh = "(Int.toNat " + b + ")"
					}
					return wrapAs(rt, "("+a+" <<< "+sh+")")
				}
			case token.SHR:
				if !signed {
					sh := b
					if leanType(p.info.Types[x.Y].Type) == "Int" {
						sh = "(Int.toNat " + b + ")"
					}
					return "(" + a + " >>> " + sh + ")"
				}
			}
		}
	case *ast.CallExpr:
		// conversion T(x)
		if hasTV && len(x.Args) == 1 {
			if ftv, ok := p.info.Types[x.Fun]; ok && ftv.IsType() {
				from := p.info.Types[x.Args[0]].Type
				if _, _, ok1 := intBits(from); ok1 {
					if _, _, ok2 := intBits(tv.Type); ok2 {
						return cast(from, tv.Type, t.expr(x.Args[0]))
					}
				}
			}
		}
	}
	// opaque: becomes a parameter
	if hasTV {
		return t.param(exprString(p.fset, e), tv.Type)
	}
	t.failed = "untyped expression " + exprString(p.fset, e)
	return "0"
}

func mentions(n ast.Node, name string) bool {
	found := false
	ast.Inspect(n, func(m ast.Node) bool {
		if id, ok := m.(*ast.Ident); ok && id.Name == name {
			found = true
		}
		return !found
	})
	return found
}

func findLeaf(p *pkgInfo, s leafSpec) ast.Expr {
	fd := p.funcs[s.fn]
	if fd == nil || fd.Body == nil {
		return nil
	}
	var res ast.Expr
	nth := 0
	ast.Inspect(fd.Body, func(n ast.Node) bool {
		if res != nil {
			return false
		}
		switch s.kind {
		case "assign", "assign2", "assign3":
			if as, ok := n.(*ast.AssignStmt); ok && len(as.Lhs) == 1 && len(as.Rhs) == 1 {
				if exprString(p.fset, as.Lhs[0]) == s.key {
					nth++
					if (s.kind == "assign" && nth == 1) || (s.kind == "assign2" && nth == 2) || (s.kind == "assign3" && nth == 3) {
						res = as.Rhs[0]
						if as.Tok == token.OR_ASSIGN {
							res = &ast.BinaryExpr{X: as.Lhs[0], Op: token.OR, Y: as.Rhs[0]}
							p.info.Types[res] = p.info.Types[as.Lhs[0]]
						}
					}
				}
			}
		case "ifret":
			if is, ok := n.(*ast.IfStmt); ok && is.Init == nil {
				// the if's own body (not nested ifs) must return something mentioning the sentinel
				for _, st := range is.Body.List {
					if r, ok := st.(*ast.ReturnStmt); ok && mentions(r, s.key) {
						res = is.Cond
					}
				}
			}
		case "ifassign":
			if is, ok := n.(*ast.IfStmt); ok && is.Init == nil {
				for _, st := range is.Body.List {
					if as, ok := st.(*ast.AssignStmt); ok && len(as.Lhs) == 1 {
						if se, ok := as.Lhs[0].(*ast.SelectorExpr); ok && se.Sel.Name == s.key {
							res = is.Cond
						}
					}
				}
			}
		case "ifhas":
			if is, ok := n.(*ast.IfStmt); ok {
				if strings.Contains(strings.Join(strings.Fields(exprString(p.fset, is.Cond)), " "), s.key) {
					res = is.Cond
				}
			}
		case "ifnth":
			if is, ok := n.(*ast.IfStmt); ok {
				if fmt.Sprint(nth) == s.key {
					res = is.Cond
				}
				nth++
			}
		case "for":
			if fs, ok := n.(*ast.ForStmt); ok {
				if fmt.Sprint(nth) == s.key {
					res = fs.Cond
				}
				nth++
			}
		case "return":
			if r, ok := n.(*ast.ReturnStmt); ok && len(r.Results) == 1 {
				res = r.Results[0]
			}
		}
		return true
	})
	return res
}

func genLeaves(o *out, p *pkgInfo) {
	b := o.file("Leaves.lean")
	fmt.Fprintf(b, "-- GENERATED by rscp2lean from /repo/rscp; do not edit.\nimport Rscp.Base\nnamespace Rscp.Gen.Leaf\nopen Rscp\n\n")
	for _, s := range leafSpecs {
		e := findLeaf(p, s)
		if e == nil {
			fmt.Fprintf(b, "/-- ANCHOR NOT FOUND: %s %s %s -/\ndef %s_src : String := \"<anchor not found>\"\n\n", s.fn, s.kind, s.key, s.lean)
			continue
		}
		t := &tr{p: p, ptypes: map[string]string{}, pnames: map[string]string{}}
		// fix the parameter order the model expects
		body := t.expr(e)
		src := strings.Join(strings.Fields(exprString(p.fset, e)), " ")
		// reorder params to the spec order where they agree as sets; otherwise keep discovery order (tie will fail)
		order := t.params
		if sameSet(order, s.params) {
			order = s.params
		}
		var sig []string
		for _, ps := range order {
			sig = append(sig, fmt.Sprintf("(%s : %s)", t.pnames[ps], t.ptypes[ps]))
		}
		rtyp := leanType(p.info.Types[e].Type)
		fmt.Fprintf(b, "/-- `%s` in `%s` -/\ndef %s %s : %s :=\n  %s\n", strings.ReplaceAll(src, "-/", "- /"), s.fn, s.lean, strings.Join(sig, " "), rtyp, body)
		fmt.Fprintf(b, "def %s_src : String := %s\n", s.lean, leanStr(src))
		var qs []string
		for _, ps := range order {
			qs = append(qs, leanStr(ps))
		}
		fmt.Fprintf(b, "def %s_args : List String := [%s]\n", s.lean, strings.Join(qs, ", "))
		if t.failed != "" {
			fmt.Fprintf(b, "-- translation incomplete: %s\n", t.failed)
		}
		b.WriteString("\n")
	}
	fmt.Fprintf(b, "end Rscp.Gen.Leaf\n")
}

func sameSet(a, b []string) bool {
	if len(a) != len(b) {
		return false
	}
	m := map[string]int{}
	for _, x := range a {
		m[x]++
	}
	for _, x := range b {
		m[x]--
	}
	for _, v := range m {
		if v != 0 {
			return false
		}
	}
	return true
}
