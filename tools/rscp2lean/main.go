// rscp2lean regenerates the Lean sources under lean/Rscp/Gen from the current working tree of
// spali/go-rscp: constants, tables, selected leaf expressions with Go's typed arithmetic made
// explicit, and shape fingerprints of the functions the hand-written model covers.
//
// Standard library only (go/parser, go/types with the source importer).
package main

import (
	"bytes"
	"crypto/sha256"
	"encoding/hex"
	"fmt"
	"go/ast"
	"go/constant"
	"go/importer"
	"go/parser"
	"go/printer"
	"go/token"
	"go/types"
	"math/big"
	"os"
	"path/filepath"
	"sort"
	"strconv"
	"strings"
)

type pkgInfo struct {
	fset  *token.FileSet
	files []*ast.File
	pkg   *types.Package
	info  *types.Info
	funcs map[string]*ast.FuncDecl // "Recv.Name" or "Name"
	vars  map[string]ast.Expr      // package-level var initialisers
	src   map[string][]byte
}

func load(dir string, pkgPath string) *pkgInfo {
	fset := token.NewFileSet()
	filter := func(fi os.FileInfo) bool { return !strings.HasSuffix(fi.Name(), "_test.go") }
	pkgs, err := parser.ParseDir(fset, dir, filter, parser.ParseComments)
	if err != nil {
		die("parse %s: %v", dir, err)
	}
	var files []*ast.File
	var names []string
	for _, p := range pkgs {
		for n := range p.Files {
			names = append(names, n)
		}
	}
	sort.Strings(names)
	for _, p := range pkgs {
		_ = p
	}
	for _, n := range names {
		for _, p := range pkgs {
			if f, ok := p.Files[n]; ok {
				// skip files excluded by build constraints we care about (verif tag is off for translation)
				if hasVerifTag(f) {
					continue
				}
				files = append(files, f)
			}
		}
	}
	info := &types.Info{
		Types: map[ast.Expr]types.TypeAndValue{},
		Defs:  map[*ast.Ident]types.Object{},
		Uses:  map[*ast.Ident]types.Object{},
	}
	conf := types.Config{Importer: importer.ForCompiler(fset, "source", nil), Error: func(err error) {}}
	pkg, err := conf.Check(pkgPath, fset, files, info)
	if err != nil && pkg == nil {
		die("typecheck %s: %v", dir, err)
	}
	pi := &pkgInfo{fset: fset, files: files, pkg: pkg, info: info, funcs: map[string]*ast.FuncDecl{}, vars: map[string]ast.Expr{}}
	for _, f := range files {
		for _, d := range f.Decls {
			switch d := d.(type) {
			case *ast.FuncDecl:
				name := d.Name.Name
				if d.Recv != nil && len(d.Recv.List) == 1 {
					name = recvName(d.Recv.List[0].Type) + "." + name
				}
				pi.funcs[name] = d
			case *ast.GenDecl:
				if d.Tok == token.VAR {
					for _, s := range d.Specs {
						vs := s.(*ast.ValueSpec)
						for i, n := range vs.Names {
							if i < len(vs.Values) {
								pi.vars[n.Name] = vs.Values[i]
							}
						}
					}
				}
			}
		}
	}
	return pi
}

func hasVerifTag(f *ast.File) bool {
	for _, cg := range f.Comments {
		if cg.Pos() > f.Package {
			break
		}
		for _, c := range cg.List {
			if strings.HasPrefix(c.Text, "//go:build") && strings.Contains(c.Text, "verif") {
				return true
			}
		}
	}
	return false
}

func recvName(e ast.Expr) string {
	switch e := e.(type) {
	case *ast.StarExpr:
		return recvName(e.X)
	case *ast.Ident:
		return e.Name
	}
	return "?"
}

func die(f string, a ...interface{}) {
	fmt.Fprintf(os.Stderr, "rscp2lean: "+f+"\n", a...)
	os.Exit(2)
}

// ---------------------------------------------------------------------------------------------
// output helpers

type out struct {
	dir   string
	files map[string]*bytes.Buffer
	order []string
}

func (o *out) file(name string) *bytes.Buffer {
	if b, ok := o.files[name]; ok {
		return b
	}
	b := &bytes.Buffer{}
	o.files[name] = b
	o.order = append(o.order, name)
	return b
}

func (o *out) flush() {
	for _, n := range o.order {
		p := filepath.Join(o.dir, n)
		nb := o.files[n].Bytes()
		if ob, err := os.ReadFile(p); err == nil && bytes.Equal(ob, nb) {
			continue
		}
		if err := os.WriteFile(p, nb, 0o644); err != nil {
			die("write %s: %v", p, err)
		}
	}
}

func leanStr(s string) string {
	var b strings.Builder
	b.WriteByte('"')
	for _, r := range s {
		switch {
		case r == '"':
			b.WriteString("\\\"")
		case r == '\\':
			b.WriteString("\\\\")
		case r == '\n':
			b.WriteString("\\n")
		case r == '\t':
			b.WriteString("\\t")
		case r < 32 || r == 127:
			fmt.Fprintf(&b, "\\x%02x", r)
		default:
			b.WriteRune(r)
		}
	}
	b.WriteByte('"')
	return b.String()
}

func constNat(v constant.Value) (string, bool) {
	if v == nil || v.Kind() != constant.Int {
		return "", false
	}
	return v.ExactString(), true
}

// ---------------------------------------------------------------------------------------------
// kinds: the Go dynamic types the tables talk about

func kindOfType(t string) string {
	switch t {
	case "nil":
		return ".nil"
	case "bool":
		return ".bool"
	case "int8":
		return ".i8"
	case "uint8", "byte":
		return ".u8"
	case "int16":
		return ".i16"
	case "uint16":
		return ".u16"
	case "int32":
		return ".i32"
	case "uint32":
		return ".u32"
	case "int64":
		return ".i64"
	case "uint64":
		return ".u64"
	case "float32":
		return ".f32"
	case "float64":
		return ".f64"
	case "string":
		return ".str"
	case "[]byte", "[]uint8":
		return ".bytes"
	case "time.Time":
		return ".time"
	case "RscpError":
		return ".rerr"
	case "[]Message":
		return ".msgs"
	}
	return ".other"
}

func exprString(fset *token.FileSet, e ast.Node) string {
	var b bytes.Buffer
	cfg := printer.Config{Mode: printer.RawFormat}
	_ = cfg.Fprint(&b, fset, e)
	return b.String()
}

var snapshotPath string

func main() {
	if len(os.Args) < 3 {
		die("usage: rscp2lean <repo> <outdir> [-snapshot file]")
	}
	repo, outdir := os.Args[1], os.Args[2]
	if len(os.Args) == 5 && os.Args[3] == "-snapshot" {
		snapshotPath = os.Args[4]
	}
	if err := os.Chdir(repo); err != nil {
		die("%v", err)
	}
	if err := os.MkdirAll(outdir, 0o755); err != nil {
		die("%v", err)
	}
	o := &out{dir: outdir, files: map[string]*bytes.Buffer{}}
	rs := load(filepath.Join(repo, "rscp"), "github.com/spali/go-rscp/rscp")
	genConsts(o, rs)
	genDataTypes(o, rs)
	genTags(o, rs)
	genMisc(o, rs)
	genLeaves(o, rs)
	cli := load(filepath.Join(repo, "cmd", "e3dc"), "main")
	genShapes(o, rs, cli)
	o.flush()
	// remove stale files
	ents, _ := os.ReadDir(outdir)
	for _, e := range ents {
		if _, ok := o.files[e.Name()]; !ok && strings.HasSuffix(e.Name(), ".lean") {
			os.Remove(filepath.Join(outdir, e.Name()))
		}
	}
}

// ---------------------------------------------------------------------------------------------
// constants

func genConsts(o *out, p *pkgInfo) {
	b := o.file("Consts.lean")
	fmt.Fprintf(b, "-- GENERATED by rscp2lean from /repo/rscp; do not edit.\nnamespace Rscp.Gen.C\n\n")
	scope := p.pkg.Scope()
	names := scope.Names()
	for _, n := range names {
		c, ok := scope.Lookup(n).(*types.Const)
		if !ok {
			continue
		}
		tn := c.Type().String()
		if strings.HasSuffix(tn, ".Tag") && !strings.HasPrefix(n, "_") {
			continue // tags go to Tags.lean
		}
		if strings.HasPrefix(n, "_") {
			continue
		}
		v := c.Val()
		switch v.Kind() {
		case constant.Int:
			s := v.ExactString()
			if strings.HasPrefix(s, "-") {
				fmt.Fprintf(b, "def %s : Int := %s\n", n, s)
			} else {
				fmt.Fprintf(b, "def %s : Nat := %s\n", n, s)
			}
		case constant.String:
			fmt.Fprintf(b, "def %s : String := %s\n", n, leanStr(constant.StringVal(v)))
		}
	}
	// constants local to functions that the model relies on
	if fd := p.funcs["Message.UnmarshalJSON"]; fd != nil {
		ast.Inspect(fd, func(n ast.Node) bool {
			if vs, ok := n.(*ast.ValueSpec); ok {
				for i, id := range vs.Names {
					if i < len(vs.Values) {
						if tv, ok := p.info.Types[vs.Values[i]]; ok && tv.Value != nil {
							if s, ok := constNat(tv.Value); ok {
								fmt.Fprintf(b, "def UnmarshalJSON_%s : Nat := %s\n", id.Name, s)
							}
						}
					}
				}
			}
			return true
		})
	}
	fmt.Fprintf(b, "\nend Rscp.Gen.C\n")
}

// ---------------------------------------------------------------------------------------------
// data-type tables

func mapLit(p *pkgInfo, name string) *ast.CompositeLit {
	e, ok := p.vars[name]
	if !ok {
		return nil
	}
	cl, _ := e.(*ast.CompositeLit)
	return cl
}

func constOf(p *pkgInfo, e ast.Expr) (string, bool) {
	if tv, ok := p.info.Types[e]; ok && tv.Value != nil {
		return constNat(tv.Value)
	}
	return "", false
}

// funcFacts extracts, from a func literal of one of the per-type tables, the Go type it talks about:
// an asserted type (v.(T)), an allocated type (new(T) / make([]T, …)), `v == nil`, `return nil`,
// or a conversion function conv.X.
func funcFacts(p *pkgInfo, fl *ast.FuncLit) (asserted, allocated, convfn string, nilcmp bool) {
	ast.Inspect(fl.Body, func(n ast.Node) bool {
		switch n := n.(type) {
		case *ast.TypeAssertExpr:
			if n.Type != nil {
				asserted = exprString(p.fset, n.Type)
			}
		case *ast.CallExpr:
			if id, ok := n.Fun.(*ast.Ident); ok && (id.Name == "new" || id.Name == "make") && len(n.Args) > 0 {
				allocated = exprString(p.fset, n.Args[0])
			}
			if se, ok := n.Fun.(*ast.SelectorExpr); ok {
				if x, ok := se.X.(*ast.Ident); ok && x.Name == "conv" {
					convfn = se.Sel.Name
				}
			}
		case *ast.BinaryExpr:
			if n.Op == token.EQL {
				if id, ok := n.Y.(*ast.Ident); ok && id.Name == "nil" {
					nilcmp = true
				}
			}
		case *ast.ReturnStmt:
			if len(n.Results) >= 1 {
				if id, ok := n.Results[0].(*ast.Ident); ok && id.Name == "nil" && allocated == "" && asserted == "" && convfn == "" {
					allocated = "nil"
				}
			}
		}
		return true
	})
	return
}

func convResultKind(fn string) string {
	switch fn {
	case "Bool":
		return ".bool"
	case "Int8":
		return ".i8"
	case "Uint8":
		return ".u8"
	case "Int16":
		return ".i16"
	case "Uint16":
		return ".u16"
	case "Int32":
		return ".i32"
	case "Uint32":
		return ".u32"
	case "Int64":
		return ".i64"
	case "Uint64":
		return ".u64"
	case "Float32":
		return ".f32"
	case "Float64":
		return ".f64"
	case "String":
		return ".str"
	case "Time":
		return ".time"
	}
	return ".other"
}

func genDataTypes(o *out, p *pkgInfo) {
	b := o.file("DataTypes.lean")
	fmt.Fprintf(b, "-- GENERATED by rscp2lean from /repo/rscp; do not edit.\nimport Rscp.Base\nnamespace Rscp.Gen\nopen Rscp\n\n")
	// _DataTypeValues
	fmt.Fprintf(b, "/-- `_DataTypeValues` (datatype_enumer.go): the defined data-type codes -/\ndef dataTypeValues : List Nat := [")
	if cl := mapLit(p, "_DataTypeValues"); cl != nil {
		for i, e := range cl.Elts {
			s, _ := constOf(p, e)
			if i > 0 {
				b.WriteString(", ")
			}
			b.WriteString(s)
		}
	}
	b.WriteString("]\n\n")
	// names: _DataTypeNameToValueMap
	fmt.Fprintf(b, "/-- `_DataTypeNameToValueMap` -/\ndef dataTypeNameToValue : List (String × Nat) := [")
	if cl := mapLit(p, "_DataTypeNameToValueMap"); cl != nil {
		for i, e := range cl.Elts {
			kv := e.(*ast.KeyValueExpr)
			k := evalStringExpr(p, kv.Key)
			v, _ := constOf(p, kv.Value)
			if i > 0 {
				b.WriteString(", ")
			}
			fmt.Fprintf(b, "(%s, %s)", leanStr(k), v)
		}
	}
	b.WriteString("]\n\n")
	// String(): evaluate for every defined value through the name map reversed is not faithful; String() uses
	// _DataTypeName_k/_DataTypeIndex_k; emit names by constant identifiers instead (enumer guarantees they agree,
	// the vocab correspondence stream checks it against the running code).
	fmt.Fprintf(b, "/-- data-type constants by name (datatype.go) -/\ndef dataTypeConsts : List (String × Nat) := [")
	first := true
	for _, n := range p.pkg.Scope().Names() {
		if c, ok := p.pkg.Scope().Lookup(n).(*types.Const); ok && strings.HasSuffix(c.Type().String(), ".DataType") {
			s, _ := constNat(c.Val())
			if !first {
				b.WriteString(", ")
			}
			first = false
			fmt.Fprintf(b, "(%s, %s)", leanStr(n), s)
		}
	}
	b.WriteString("]\n\n")

	// lengthMap
	fmt.Fprintf(b, "/-- `lengthMap` (datatype_length.go) -/\ndef lengthMap : List (Nat × Nat) := [")
	if cl := mapLit(p, "lengthMap"); cl != nil {
		for i, e := range cl.Elts {
			kv := e.(*ast.KeyValueExpr)
			k, _ := constOf(p, kv.Key)
			v, _ := constOf(p, kv.Value)
			if i > 0 {
				b.WriteString(", ")
			}
			fmt.Fprintf(b, "(%s, %s)", k, v)
		}
	}
	b.WriteString("]\n\n")

	table := func(varname, leanname, doc string, pick func(asserted, allocated, convfn string, nilcmp bool, fl *ast.FuncLit) string) {
		fmt.Fprintf(b, "/-- %s -/\ndef %s : List (Nat × Kind) := [", doc, leanname)
		if cl := mapLit(p, varname); cl != nil {
			for i, e := range cl.Elts {
				kv := e.(*ast.KeyValueExpr)
				k, _ := constOf(p, kv.Key)
				fl, _ := kv.Value.(*ast.FuncLit)
				kind := ".other"
				if fl != nil {
					a, al, cf, nc := funcFacts(p, fl)
					kind = pick(a, al, cf, nc, fl)
				}
				if i > 0 {
					b.WriteString(", ")
				}
				fmt.Fprintf(b, "(%s, %s)", k, kind)
			}
		}
		b.WriteString("]\n\n")
	}
	table("newEmptyMap", "newEmptyKind", "`newEmptyMap` (datatype_new.go): Go type of the value the decoder allocates", func(a, al, cf string, nc bool, fl *ast.FuncLit) string {
		return kindOfType(al)
	})
	table("validateMap", "validateKind", "`validateMap` (datatype_validate.go): Go type the validator accepts", func(a, al, cf string, nc bool, fl *ast.FuncLit) string {
		if nc {
			return ".nil"
		}
		return kindOfType(a)
	})
	table("newMap", "newConvKind", "`newMap` (datatype_new.go): Go type the value constructor returns", func(a, al, cf string, nc bool, fl *ast.FuncLit) string {
		if cf != "" {
			// ByteArray: []byte(conv.String(v))
			if strings.Contains(exprString(p.fset, fl.Body), "[]byte(") {
				return ".bytes"
			}
			return convResultKind(cf)
		}
		if a != "" {
			return kindOfType(a)
		}
		return kindOfType(al)
	})
	// the raw conv function names
	fmt.Fprintf(b, "/-- `newMap`: the go-conv function each constructor calls (\"\" = none) -/\ndef newConvFn : List (Nat × String) := [")
	if cl := mapLit(p, "newMap"); cl != nil {
		for i, e := range cl.Elts {
			kv := e.(*ast.KeyValueExpr)
			k, _ := constOf(p, kv.Key)
			cf := ""
			if fl, ok := kv.Value.(*ast.FuncLit); ok {
				_, _, cf, _ = funcFacts(p, fl)
			}
			if i > 0 {
				b.WriteString(", ")
			}
			fmt.Fprintf(b, "(%s, %s)", k, leanStr(cf))
		}
	}
	b.WriteString("]\n\nend Rscp.Gen\n")
}

func evalStringExpr(p *pkgInfo, e ast.Expr) string {
	if tv, ok := p.info.Types[e]; ok && tv.Value != nil && tv.Value.Kind() == constant.String {
		return constant.StringVal(tv.Value)
	}
	if se, ok := e.(*ast.SliceExpr); ok {
		base := evalStringExpr(p, se.X)
		lo, hi := 0, len(base)
		if se.Low != nil {
			if s, ok := constOf(p, se.Low); ok {
				lo, _ = strconv.Atoi(s)
			}
		}
		if se.High != nil {
			if s, ok := constOf(p, se.High); ok {
				hi, _ = strconv.Atoi(s)
			}
		}
		if lo <= hi && hi <= len(base) {
			return base[lo:hi]
		}
	}
	return "?"
}

// ---------------------------------------------------------------------------------------------
// tags

func chunked(b *bytes.Buffer, name, typ string, items []string) {
	const n = 150
	var parts []string
	for i := 0; i < len(items); i += n {
		j := i + n
		if j > len(items) {
			j = len(items)
		}
		pn := fmt.Sprintf("%s_%d", name, i/n)
		fmt.Fprintf(b, "def %s : List (%s) := [\n  %s]\n", pn, typ, strings.Join(items[i:j], ",\n  "))
		parts = append(parts, pn)
	}
	if len(parts) == 0 {
		fmt.Fprintf(b, "def %s : List (%s) := []\n\n", name, typ)
		return
	}
	fmt.Fprintf(b, "def %s : List (%s) := %s\n\n", name, typ, strings.Join(parts, " ++ "))
}

func genTags(o *out, p *pkgInfo) {
	b := o.file("Tags.lean")
	fmt.Fprintf(b, "-- GENERATED by rscp2lean from /repo/rscp; do not edit.\nnamespace Rscp.Gen\n\n")
	var items []string
	if cl := mapLit(p, "_TagMap"); cl != nil {
		for _, e := range cl.Elts {
			kv := e.(*ast.KeyValueExpr)
			k, _ := constOf(p, kv.Key)
			items = append(items, fmt.Sprintf("(%s, %s)", k, leanStr(evalStringExpr(p, kv.Value))))
		}
	}
	fmt.Fprintf(b, "/-- `_TagMap` (tag_enumer.go): number → name, in source order -/\n")
	chunked(b, "tagMap", "Nat × String", items)
	items = nil
	if cl := mapLit(p, "_TagNameToValueMap"); cl != nil {
		for _, e := range cl.Elts {
			kv := e.(*ast.KeyValueExpr)
			v, _ := constOf(p, kv.Value)
			items = append(items, fmt.Sprintf("(%s, %s)", leanStr(evalStringExpr(p, kv.Key)), v))
		}
	}
	fmt.Fprintf(b, "/-- `_TagNameToValueMap` (tag_enumer.go): name → number, in source order -/\n")
	chunked(b, "tagNameToValue", "String × Nat", items)
	items = nil
	if cl := mapLit(p, "_TagValues"); cl != nil {
		for _, e := range cl.Elts {
			v, _ := constOf(p, e)
			items = append(items, v)
		}
	}
	fmt.Fprintf(b, "/-- `_TagValues` -/\n")
	chunked(b, "tagValues", "Nat", items)
	// tag constants of tag.go: name → number (what the source declares)
	items = nil
	type tc struct {
		n string
		v string
		u uint64
	}
	var tcs []tc
	for _, n := range p.pkg.Scope().Names() {
		if c, ok := p.pkg.Scope().Lookup(n).(*types.Const); ok && strings.HasSuffix(c.Type().String(), ".Tag") && !strings.HasPrefix(n, "_") {
			s, _ := constNat(c.Val())
			u, _ := strconv.ParseUint(s, 10, 64)
			tcs = append(tcs, tc{n, s, u})
		}
	}
	sort.SliceStable(tcs, func(i, j int) bool { return tcs[i].u < tcs[j].u })
	for _, t := range tcs {
		items = append(items, fmt.Sprintf("(%s, %s)", leanStr(t.n), t.v))
	}
	fmt.Fprintf(b, "/-- tag constants declared in tag.go, sorted by number -/\n")
	chunked(b, "tagConsts", "String × Nat", items)
	items = nil
	if cl := mapLit(p, "dataTypeMap"); cl != nil {
		for _, e := range cl.Elts {
			kv := e.(*ast.KeyValueExpr)
			k, _ := constOf(p, kv.Key)
			v, _ := constOf(p, kv.Value)
			items = append(items, fmt.Sprintf("(%s, %s)", k, v))
		}
	}
	fmt.Fprintf(b, "/-- `dataTypeMap` (tag_datatype.go): tag → declared data type, in source order -/\n")
	chunked(b, "dataTypeMap", "Nat × Nat", items)
	items = nil
	if cl := mapLit(p, "secretTags"); cl != nil {
		for _, e := range cl.Elts {
			v, _ := constOf(p, e)
			items = append(items, v)
		}
	}
	// Names as numbers: code(s) = the base-256 number of the bytes of s behind a leading 1 (injective).
	// The kernel compares Nat literals in microseconds but takes ~30 ms per string comparison, so all
	// table-wide theorems of C14 are stated on the codes; `Model.nameCode` is the same function in Lean.
	{
		dt := map[string]string{}
		if cl := mapLit(p, "dataTypeMap"); cl != nil {
			for _, e := range cl.Elts {
				kv := e.(*ast.KeyValueExpr)
				k, _ := constOf(p, kv.Key)
				v, _ := constOf(p, kv.Value)
				dt[k] = v
			}
		}
		var voc, mapC, n2vC, snap, snapTSV []string
		if cl := mapLit(p, "_TagMap"); cl != nil {
			for _, e := range cl.Elts {
				kv := e.(*ast.KeyValueExpr)
				k, _ := constOf(p, kv.Key)
				d, ok := dt[k]
				if !ok {
					d = "0"
				}
				name := evalStringExpr(p, kv.Value)
				voc = append(voc, fmt.Sprintf("(%s, %s, %s)", k, nameCode(name), d))
				snap = append(snap, fmt.Sprintf("(%s, %s, %s) /- %s -/", k, nameCode(name), d, name))
				snapTSV = append(snapTSV, fmt.Sprintf("%s\t%s\t%s", k, name, d))
				mapC = append(mapC, fmt.Sprintf("(%s, %s)", k, nameCode(name)))
			}
		}
		if cl := mapLit(p, "_TagNameToValueMap"); cl != nil {
			for _, e := range cl.Elts {
				kv := e.(*ast.KeyValueExpr)
				v, _ := constOf(p, kv.Value)
				n2vC = append(n2vC, fmt.Sprintf("(%s, %s)", nameCode(evalStringExpr(p, kv.Key)), v))
			}
		}
		fmt.Fprintf(b, "/-- `_TagMap` with names as codes: (number, code of the name) -/\n")
		chunked(b, "tagMapC", "Nat × Nat", mapC)
		fmt.Fprintf(b, "/-- `_TagNameToValueMap` with names as codes: (code of the name, number) -/\n")
		chunked(b, "tagNameToValueC", "Nat × Nat", n2vC)
		fmt.Fprintf(b, "/-- the vocabulary: (number, code of the name, declared data type), in `_TagMap` order -/\n")
		chunked(b, "vocabC", "Nat × Nat × Nat", voc)
		if snapshotPath != "" {
			var sb bytes.Buffer
			fmt.Fprintf(&sb, "-- Frozen vocabulary of go-rscp at the pinned commit (written once by `rscp2lean -snapshot`, committed):\n-- (number, code of the name, declared data type). C14 `vocab_stable` proves that the current vocabulary\n-- still contains every entry.\nnamespace Rscp.Snapshot\n\n")
			chunked(&sb, "vocabC", "Nat × Nat × Nat", snap)
			fmt.Fprintf(&sb, "end Rscp.Snapshot\n")
			os.WriteFile(snapshotPath, sb.Bytes(), 0o644)
			os.WriteFile(strings.TrimSuffix(snapshotPath, ".lean")+".tsv", []byte(strings.Join(snapTSV, "\n")+"\n"), 0o644)
		}
	}
	fmt.Fprintf(b, "/-- `secretTags` (tag_issecret.go) -/\ndef secretTags : List Nat := [%s]\n\n", strings.Join(items, ", "))
	fmt.Fprintf(b, "end Rscp.Gen\n")
}

// ---------------------------------------------------------------------------------------------
// misc tables: default client config, RscpError / AuthLevel values

func genMisc(o *out, p *pkgInfo) {
	b := o.file("Misc.lean")
	fmt.Fprintf(b, "-- GENERATED by rscp2lean from /repo/rscp; do not edit.\nnamespace Rscp.Gen\n\n")
	fmt.Fprintf(b, "/-- `defaultClientConfig` (client_config.go): field → value (durations in nanoseconds, bools as 0/1) -/\ndef defaultClientConfig : List (String × Int) := [")
	if cl := mapLit(p, "defaultClientConfig"); cl != nil {
		for i, e := range cl.Elts {
			kv := e.(*ast.KeyValueExpr)
			k := exprString(p.fset, kv.Key)
			v := "0"
			if tv, ok := p.info.Types[kv.Value]; ok && tv.Value != nil {
				switch tv.Value.Kind() {
				case constant.Int:
					v = tv.Value.ExactString()
				case constant.Bool:
					if constant.BoolVal(tv.Value) {
						v = "1"
					}
				}
			}
			if i > 0 {
				b.WriteString(", ")
			}
			fmt.Fprintf(b, "(%s, %s)", leanStr(k), v)
		}
	}
	b.WriteString("]\n\n")
	for _, en := range []string{"RscpError", "AuthLevel"} {
		fmt.Fprintf(b, "def %sValues : List (String × Nat) := [", strings.ToLower(en[:1])+en[1:])
		first := true
		for _, n := range p.pkg.Scope().Names() {
			if c, ok := p.pkg.Scope().Lookup(n).(*types.Const); ok && strings.HasSuffix(c.Type().String(), "."+en) {
				s, _ := constNat(c.Val())
				if !first {
					b.WriteString(", ")
				}
				first = false
				fmt.Fprintf(b, "(%s, %s)", leanStr(n), s)
			}
		}
		b.WriteString("]\n")
	}
	fmt.Fprintf(b, "\nend Rscp.Gen\n")
}

// ---------------------------------------------------------------------------------------------
// shapes

type shapeSpec struct {
	pkg  string // "rscp" or "e3dc"
	fn   string
	lean string
}

func sortedExprKeys(m map[string]ast.Expr) []string {
	var ks []string
	for k := range m {
		ks = append(ks, k)
	}
	sort.Strings(ks)
	return ks
}

// normNode: normFunc for an arbitrary expression (initialiser of a package-level variable)
func normNode(p *pkgInfo, root ast.Node) string {
	type saved struct {
		id   *ast.Ident
		name string
	}
	var undo []saved
	names := map[types.Object]string{}
	ast.Inspect(root, func(n ast.Node) bool {
		id, ok := n.(*ast.Ident)
		if !ok || id.Name == "_" {
			return true
		}
		obj := p.info.Defs[id]
		if obj == nil {
			obj = p.info.Uses[id]
		}
		if obj == nil {
			return true
		}
		switch obj.(type) {
		case *types.Var, *types.Const, *types.Label:
		default:
			return true
		}
		if v, isVar := obj.(*types.Var); isVar && v.IsField() {
			return true
		}
		if obj.Pos() < root.Pos() || obj.Pos() >= root.End() {
			return true
		}
		nm, seen := names[obj]
		if !seen {
			nm = fmt.Sprintf("_v%d", len(names))
			names[obj] = nm
		}
		undo = append(undo, saved{id, id.Name})
		id.Name = nm
		return true
	})
	defer func() {
		for _, u := range undo {
			u.id.Name = u.name
		}
	}()
	var b bytes.Buffer
	cfg := printer.Config{Mode: printer.RawFormat}
	_ = cfg.Fprint(&b, token.NewFileSet(), root)
	return strings.Join(strings.Fields(b.String()), " ")
}

func normFunc(p *pkgInfo, fd *ast.FuncDecl) string {
	// alpha-normalise: every identifier that denotes an object declared inside this function (receiver, parameters,
	// results, local variables and constants, labels) is printed as _v<k>, k = order of first appearance. Renaming
	// a local therefore leaves the fingerprint alone; using a different variable does not. Package-level names,
	// fields, methods, types and imported names are printed as they are.
	type saved struct {
		id   *ast.Ident
		name string
	}
	var undo []saved
	names := map[types.Object]string{}
	ast.Inspect(fd, func(n ast.Node) bool {
		id, ok := n.(*ast.Ident)
		if !ok || id.Name == "_" {
			return true
		}
		obj := p.info.Defs[id]
		if obj == nil {
			obj = p.info.Uses[id]
		}
		if obj == nil {
			return true
		}
		switch obj.(type) {
		case *types.Var, *types.Const, *types.Label:
		default:
			return true
		}
		if v, isVar := obj.(*types.Var); isVar && v.IsField() {
			return true
		}
		if obj.Pos() < fd.Pos() || obj.Pos() >= fd.End() {
			return true // declared outside this function
		}
		nm, seen := names[obj]
		if !seen {
			nm = fmt.Sprintf("_v%d", len(names))
			names[obj] = nm
		}
		undo = append(undo, saved{id, id.Name})
		id.Name = nm
		return true
	})
	defer func() {
		for _, u := range undo {
			u.id.Name = u.name
		}
	}()
	// print without comments: printing the bare node (not a CommentedNode) drops them
	cp := *fd
	cp.Doc = nil
	var b bytes.Buffer
	cfg := printer.Config{Mode: printer.RawFormat}
	_ = cfg.Fprint(&b, token.NewFileSet(), &cp)
	// collapse whitespace
	return strings.Join(strings.Fields(b.String()), " ")
}

func genShapes(o *out, rs, cli *pkgInfo) {
	b := o.file("Shapes.lean")
	fmt.Fprintf(b, "-- GENERATED by rscp2lean; do not edit.\n-- sha256 of the comment-free, whitespace-normalised source of every function the hand-written model covers.\nnamespace Rscp.Gen.Shape\n\n")
	emit := func(prefix string, p *pkgInfo) {
		var names []string
		for n := range p.funcs {
			names = append(names, n)
		}
		sort.Strings(names)
		for _, n := range names {
			fd := p.funcs[n]
			if fd.Body == nil {
				continue
			}
			txt := normFunc(p, fd)
			h := sha256.Sum256([]byte(txt))
			ln := prefix + strings.ReplaceAll(n, ".", "_")
			fmt.Fprintf(b, "/- %s -/\ndef %s : String := %s\n", strings.ReplaceAll(txt, "-/", "- /"), ln, leanStr(hex.EncodeToString(h[:16])))
		}
	}
	emit("rscp_", rs)
	emit("e3dc_", cli)
	// initialisers of package-level variables that hold behaviour (function tables and the like): same normalisation,
	// hash only. The big generated vocabulary tables are regenerated as data instead (Gen/Tags.lean, Gen/DataTypes.lean).
	emitVars := func(prefix string, p *pkgInfo) {
		for _, n := range sortedExprKeys(p.vars) {
			e := p.vars[n]
			hasFunc := false
			ast.Inspect(e, func(x ast.Node) bool {
				if _, ok := x.(*ast.FuncLit); ok {
					hasFunc = true
				}
				return !hasFunc
			})
			if !hasFunc {
				continue
			}
			txt := normNode(p, e)
			h := sha256.Sum256([]byte(txt))
			fmt.Fprintf(b, "def %svar_%s : String := %s\n", prefix, n, leanStr(hex.EncodeToString(h[:16])))
		}
	}
	emitVars("rscp_", rs)
	emitVars("e3dc_", cli)
	// package-level variables of rscp and every write site outside initialisers
	fmt.Fprintf(b, "\n/-- package-level variables of package rscp -/\ndef rscpGlobals : List String := [")
	var gl []string
	for _, n := range rs.pkg.Scope().Names() {
		if _, ok := rs.pkg.Scope().Lookup(n).(*types.Var); ok {
			gl = append(gl, leanStr(n))
		}
	}
	b.WriteString(strings.Join(gl, ", "))
	b.WriteString("]\n")
	fmt.Fprintf(b, "/-- statements in package rscp that write a package-level variable (assign, inc/dec, map store, address taken), as func:target -/\ndef rscpGlobalWrites : List String := [")
	var ws []string
	for _, n := range sortedKeys(rs.funcs) {
		fd := rs.funcs[n]
		if fd.Body == nil {
			continue
		}
		isGlobal := func(e ast.Expr) (string, bool) {
			for {
				switch x := e.(type) {
				case *ast.IndexExpr:
					e = x.X
					continue
				case *ast.SelectorExpr:
					e = x.X
					continue
				case *ast.ParenExpr:
					e = x.X
					continue
				case *ast.StarExpr:
					e = x.X
					continue
				case *ast.Ident:
					if obj := rs.info.Uses[x]; obj != nil {
						if v, ok := obj.(*types.Var); ok && v.Parent() == rs.pkg.Scope() {
							return x.Name, true
						}
					}
				}
				return "", false
			}
		}
		ast.Inspect(fd.Body, func(nd ast.Node) bool {
			switch s := nd.(type) {
			case *ast.AssignStmt:
				for _, l := range s.Lhs {
					if g, ok := isGlobal(l); ok {
						ws = append(ws, leanStr(n+":"+g))
					}
				}
			case *ast.IncDecStmt:
				if g, ok := isGlobal(s.X); ok {
					ws = append(ws, leanStr(n+":"+g))
				}
			case *ast.UnaryExpr:
				if s.Op == token.AND {
					if g, ok := isGlobal(s.X); ok {
						ws = append(ws, leanStr(n+":&"+g))
					}
				}
			}
			return true
		})
	}
	b.WriteString(strings.Join(ws, ", "))
	b.WriteString("]\n")
	// log call sites: func:Level:format
	fmt.Fprintf(b, "/-- every Log.<Level>… call in package rscp as func:method:first-argument -/\ndef rscpLogSites : List String := [")
	var ls []string
	for _, n := range sortedKeys(rs.funcs) {
		fd := rs.funcs[n]
		if fd.Body == nil {
			continue
		}
		ast.Inspect(fd.Body, func(nd ast.Node) bool {
			if ce, ok := nd.(*ast.CallExpr); ok {
				if se, ok := ce.Fun.(*ast.SelectorExpr); ok {
					if x, ok := se.X.(*ast.Ident); ok && x.Name == "Log" {
						arg := ""
						if len(ce.Args) > 0 {
							arg = exprString(rs.fset, ce.Args[0])
							if len(arg) > 60 {
								arg = arg[:60]
							}
						}
						rest := ""
						for _, a := range ce.Args[min(1, len(ce.Args)):] {
							rest += "," + strings.Join(strings.Fields(exprString(rs.fset, a)), " ")
						}
						ls = append(ls, leanStr(n+":"+se.Sel.Name+":"+arg+rest))
					}
				}
			}
			return true
		})
	}
	b.WriteString(strings.Join(ls, ",\n  "))
	b.WriteString("]\n")
	fmt.Fprintf(b, "\nend Rscp.Gen.Shape\n")
}

// nameCode: the bytes of s as a base-256 number behind a leading 1
func nameCode(s string) string {
	n := new(big.Int).SetInt64(1)
	for i := 0; i < len(s); i++ {
		n.Mul(n, big.NewInt(256))
		n.Add(n, big.NewInt(int64(s[i])))
	}
	return n.String()
}

func sortedKeys(m map[string]*ast.FuncDecl) []string {
	var ks []string
	for k := range m {
		ks = append(ks, k)
	}
	sort.Strings(ks)
	return ks
}
