module rscp2lean

go 1.23
