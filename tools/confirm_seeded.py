#!/usr/bin/env python3
"""
confirm_seeded.py <src-dir> <id>...   e.g. confirm_seeded.py /root/mutout C03a C03b

For each candidate change (patch.diff + demonstration + notes.md written by an independent sub-agent that
saw only the property text): confirm in a scratch worktree that (1) it applies, builds and the existing suite
passes with it, (2) the demonstration fails with it and (3) passes without it; then apply it to /repo, run the
property's check (quick tier) and undo it. Writes /verif/seeded/<id>/{patch.diff, demo, notes.md, meta.json}.
"""
import glob, json, os, re, shutil, subprocess, sys, time
ROOT = os.path.dirname(os.path.dirname(os.path.abspath(__file__)))
ENV = dict(os.environ, GOFLAGS="-mod=mod", GOPROXY="off")
ENV.pop("GOSUMDB", None)

def sh(cmd, cwd=None, timeout=1800):
    p = subprocess.run(cmd, cwd=cwd, env=ENV, stdout=subprocess.PIPE, stderr=subprocess.STDOUT, text=True, timeout=timeout, shell=isinstance(cmd, str))
    return p.returncode, p.stdout

def main():
    src = sys.argv[1]
    for mid in sys.argv[2:]:
        prop, var = mid[:3], mid[3:]
        d = os.path.join(src, prop, var)
        patch = os.path.join(d, "patch.diff")
        demos = [f for f in glob.glob(os.path.join(d, "*.go"))]
        meta = {"id": mid, "property": prop, "source": "independent sub-agent given only the property text and a scratch worktree", "confirmed": False}
        wt = f"/tmp/confirm_{mid}"
        sh(f"git -C /repo worktree remove --force {wt}")
        rc, out = sh(f"git -C /repo worktree add -q --detach {wt} HEAD")
        try:
            rc, out = sh(["git", "apply", patch], cwd=wt)
            meta["applies"] = rc == 0
            if rc != 0:
                meta["note"] = "patch does not apply to the current tree: " + out[-300:]
                raise RuntimeError
            rc1, o1 = sh("go build ./... && go vet ./...", cwd=wt)
            rc2, o2 = sh("go test -count=1 ./...", cwd=wt)
            meta["builds_and_vets"] = rc1 == 0
            meta["suite_passes_with_change"] = rc2 == 0
            # place the demo(s)
            placed = []
            for dm in demos:
                txt = open(dm).read()
                pkg = re.search(r"^package (\w+)", txt, re.M).group(1)
                sub = "rscp" if pkg.startswith("rscp") else os.path.join("cmd", "e3dc")
                dst = os.path.join(wt, sub, "zz_seeded_" + os.path.basename(dm).replace("_test.go", "") + "_test.go")
                shutil.copy(dm, dst)
                placed.append((sub, dst))
            pkgs = sorted({"./" + s for s, _ in placed})
            test_cmd = ["go", "test", "-count=1"] + pkgs
            if os.path.exists(os.path.join(d, "run.txt")):
                # the author's demonstration needs its own command (e.g. `-race -run TestX`, run on its own)
                test_cmd = open(os.path.join(d, "run.txt")).read().split()
                meta["demo_command"] = " ".join(test_cmd)
            rc3, o3 = sh(test_cmd, cwd=wt, timeout=900)
            meta["demo_fails_with_change"] = rc3 != 0
            meta["demo_output_with_change"] = o3[-600:]
            sh(["git", "apply", "-R", patch], cwd=wt)
            rc4, o4 = sh(test_cmd, cwd=wt, timeout=900)
            meta["demo_passes_without_change"] = rc4 == 0
            if rc4 != 0:
                meta["demo_output_without_change"] = o4[-600:]
            meta["confirmed"] = bool(meta["suite_passes_with_change"] and meta["builds_and_vets"] and meta["demo_fails_with_change"] and meta["demo_passes_without_change"])
        except RuntimeError:
            pass
        finally:
            sh(f"git -C /repo worktree remove --force {wt}")
        # run the property's check against the change
        if meta.get("applies"):
            rc, out = sh(["git", "-C", "/repo", "apply", patch])
            t0 = time.time()
            rc, out = sh(["./check", prop, "--tier", "quick"], cwd=ROOT, timeout=3600)
            sh("git -C /repo checkout -- . && git -C /repo clean -fdq")
            vio = [l for l in out.split("\n") if l.startswith("VIOLATION")]
            meta["check"] = {"cmd": f"./check {prop} --tier quick", "exit": rc, "wall_s": round(time.time() - t0, 1),
                             "violation_line": vio[0] if vio else None,
                             "failing_input_found": bool(vio) and "no-failing-input-found" not in vio[0],
                             "output_tail": [l[:300] for l in out.strip().split("\n")[-8:]]}
            meta["caught"] = rc == 1 and bool(vio)
        out_dir = os.path.join(ROOT, "seeded", mid)
        os.makedirs(out_dir, exist_ok=True)
        shutil.copy(patch, os.path.join(out_dir, "patch.diff"))
        for dm in demos:
            shutil.copy(dm, os.path.join(out_dir, os.path.basename(dm)))
        notes = os.path.join(d, "notes.md")
        if os.path.exists(notes):
            shutil.copy(notes, os.path.join(out_dir, "notes.md"))
            txt = open(notes).read()
            meta["needs_to_manifest"] = " ".join(txt.split())[:600]
        json.dump(meta, open(os.path.join(out_dir, "meta.json"), "w"), indent=1)
        print(mid, "confirmed" if meta["confirmed"] else "NOT-CONFIRMED", "caught" if meta.get("caught") else "MISSED",
              "with-input" if meta.get("check", {}).get("failing_input_found") else "no-input", flush=True)

main()
