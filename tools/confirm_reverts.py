#!/usr/bin/env python3
"""
confirm_reverts.py — for every `fix:` commit of /repo: revert it alone on top of HEAD (reverse patch), check that the
tree still builds and the existing suite passes (the defects were all invisible to it), run the checks of the
properties the fix belongs to (known_findings.json `fixed` entries), undo. Writes /verif/seeded/revert-<commit>/.
"""
import json, os, re, subprocess, sys, time
ROOT = os.path.dirname(os.path.dirname(os.path.abspath(__file__)))
ENV = dict(os.environ, GOFLAGS="-mod=mod", GOPROXY="off"); ENV.pop("GOSUMDB", None)

def sh(cmd, cwd=None, timeout=3600):
    p = subprocess.run(cmd, cwd=cwd, env=ENV, stdout=subprocess.PIPE, stderr=subprocess.STDOUT, text=True, timeout=timeout, shell=isinstance(cmd, str))
    return p.returncode, p.stdout

fixed = json.load(open(os.path.join(ROOT, "known_findings.json")))["fixed"]
by_commit = {}
for f in fixed:
    m = re.match(r"fixed: property=(\S+) (\S+) (.*)", f)
    by_commit.setdefault(m.group(2), {"props": [], "what": m.group(3)})["props"].append(m.group(1))
only = sys.argv[1:]
for c, info in by_commit.items():
    if only and c not in only:
        continue
    out_dir = os.path.join(ROOT, "seeded", "revert-" + c)
    os.makedirs(out_dir, exist_ok=True)
    rc, patch = sh(["git", "-C", "/repo", "diff", c, c + "^"])
    open(os.path.join(out_dir, "patch.diff"), "w").write(patch)
    meta = {"id": "revert-" + c, "properties": info["props"], "what_the_fix_repaired": info["what"],
            "source": "reverse patch of the fix: commit " + c, "checks": []}
    rc, o = sh(["git", "-C", "/repo", "apply", os.path.join(out_dir, "patch.diff")])
    meta["applies"] = rc == 0
    if rc != 0:
        meta["note"] = "does not apply on top of the later fixes: " + o[-200:]
    else:
        rc1, o1 = sh("go build ./... && go test -count=1 ./...", cwd="/repo")
        meta["suite_passes_with_revert"] = rc1 == 0
        for p in info["props"]:
            t0 = time.time()
            rc2, o2 = sh(["./check", p, "--tier", "quick"], cwd=ROOT)
            vio = [l for l in o2.split("\n") if l.startswith("VIOLATION")]
            meta["checks"].append({"property": p, "exit": rc2, "violation_line": vio[0] if vio else None,
                                   "failing_input_found": bool(vio) and "no-failing-input-found" not in vio[0],
                                   "wall_s": round(time.time() - t0, 1), "output_tail": [l[:260] for l in o2.strip().split("\n")[-6:]]})
        sh("git -C /repo checkout -- . && git -C /repo clean -fdq")
    json.dump(meta, open(os.path.join(out_dir, "meta.json"), "w"), indent=1)
    print(c, info["props"], "applies" if meta["applies"] else "NO-APPLY",
          " ".join(f"{x['property']}:{'caught' if x['exit']==1 else 'MISSED'}{'+input' if x['failing_input_found'] else ''}" for x in meta["checks"]), flush=True)
