#!/usr/bin/env python3
"""
bless_ties.py — (re)write lean/Rscp/Tie/*.lean from the CURRENT generated shapes and leaf
sources. Run by hand, after reviewing that the hand-written model matches the code it was
written against; the resulting files are committed. At check time the tie theorems compare the
freshly regenerated `Rscp.Gen.*` with these frozen expectations by `rfl`.
"""
import os, re, subprocess, sys
ROOT = os.path.dirname(os.path.dirname(os.path.abspath(__file__)))
# always bless against a fresh translation of /repo's CLEAN tree
assert subprocess.run(["git", "-C", "/repo", "status", "--short"], capture_output=True, text=True).stdout.strip() == "", "refusing to bless: /repo has local changes"
env = dict(os.environ, GOFLAGS="-mod=mod", GOPROXY="off"); env.pop("GOSUMDB", None)
os.makedirs(os.path.join(ROOT, ".build"), exist_ok=True)
subprocess.run(["go", "build", "-o", os.path.join(ROOT, ".build", "rscp2lean"), "."], cwd=os.path.join(ROOT, "tools", "rscp2lean"), env=env, check=True)
subprocess.run([os.path.join(ROOT, ".build", "rscp2lean"), "/repo", os.path.join(ROOT, "lean", "Rscp", "Gen")], env=env, check=True)
GEN = os.path.join(ROOT, "lean", "Rscp", "Gen")
TIE = os.path.join(ROOT, "lean", "Rscp", "Tie")
sys.path.insert(0, os.path.join(ROOT, "checks"))
from ties import TIES  # name -> dict(shapes=[...], leaves=[...], lists=[...])

shapes = dict(re.findall(r'^def (\S+) : String := ("(?:[^"\\]|\\.)*")$', open(os.path.join(GEN, "Shapes.lean")).read(), re.M))
leaves_txt = open(os.path.join(GEN, "Leaves.lean")).read()
leaf_src = dict(re.findall(r'^def (\S+)_src : String := ("(?:[^"\\]|\\.)*")$', leaves_txt, re.M))
leaf_args = dict(re.findall(r'^def (\S+)_args : List String := (\[.*\])$', leaves_txt, re.M))
lists = {}
for m in re.finditer(r'^def (\S+) : List String := (\[.*?\])$', open(os.path.join(GEN, "Shapes.lean")).read(), re.M | re.S):
    lists[m.group(1)] = m.group(2)

os.makedirs(TIE, exist_ok=True)
for name, t in TIES.items():
    out = [f"/-\nTie `{name}`: the regenerated facts about /repo's current source equal the ones the hand-written\nmodel was written against. Frozen by tools/bless_ties.py; compared by `rfl` on every run.\n{t.get('doc','')}\n-/",
           "import Rscp.Gen.Shapes", "import Rscp.Gen.Leaves", f"namespace Rscp.Tie.{name}", ""]
    for s in t.get("shapes", []):
        if s not in shapes:
            print("missing shape", s); sys.exit(1)
        out.append(f"/-- source of `{s}` is unchanged -/\ntheorem shape_{s} : Rscp.Gen.Shape.{s} = {shapes[s]} := rfl")
    for l in t.get("leaves", []):
        if l not in leaf_src:
            print("missing leaf", l); sys.exit(1)
        out.append(f"/-- leaf `{l}`: source text and argument list are unchanged -/\ntheorem leaf_{l}_src : Rscp.Gen.Leaf.{l}_src = {leaf_src[l]} := rfl")
        out.append(f"theorem leaf_{l}_args : Rscp.Gen.Leaf.{l}_args = {leaf_args[l]} := rfl")
    for l in t.get("lists", []):
        if l not in lists:
            print("missing list", l); sys.exit(1)
        out.append(f"/-- `{l}` is unchanged -/\ntheorem list_{l} : Rscp.Gen.Shape.{l} = {lists[l]} := rfl")
    out += ["", f"end Rscp.Tie.{name}", ""]
    open(os.path.join(TIE, name + ".lean"), "w").write("\n".join(out))
    print("wrote", name)
