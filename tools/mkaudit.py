#!/usr/bin/env python3
"""Write lean/Rscp/Audit/<id>.lean: `#print axioms` for every theorem of the property's Props and Tie modules."""
import os, re, sys
ROOT = os.path.dirname(os.path.dirname(os.path.abspath(__file__)))
LEAN = os.path.join(ROOT, "lean")
sys.path.insert(0, os.path.join(ROOT, "checks"))
from props import PROPS

for pid, cfg in sorted(PROPS.items()):
    names, imports = [], []
    ok = True
    for mod in cfg["lean"]:
        path = os.path.join(LEAN, *mod.split(".")) + ".lean"
        if not os.path.exists(path):
            ok = False
            break
        s = open(path).read()
        imports.append("import " + mod)
        # theorems of this module and, for Props modules that only re-export, of nothing else
        ns = None
        for line in s.split("\n"):
            m = re.match(r"namespace (\S+)", line)
            if m:
                ns = m.group(1)
            m = re.match(r"(?:private\s+)?theorem (\S+)", line)
            if m and ns:
                names.append(ns + "." + m.group(1))
    if not ok:
        continue
    for extra in cfg.get("audit_extra", []):
        names.append(extra)
    out = "\n".join(imports) + "\n\n" + "\n".join("#print axioms " + n for n in names) + "\n"
    open(os.path.join(LEAN, "Rscp", "Audit", pid + ".lean"), "w").write(out)
    print(pid, len(names))
