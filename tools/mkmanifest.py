#!/usr/bin/env python3
"""Write MANIFEST.json from checks/props.py and checks/claims.py."""
import json, os, sys
ROOT = os.path.dirname(os.path.dirname(os.path.abspath(__file__)))
sys.path.insert(0, os.path.join(ROOT, "checks"))
from props import PROPS
from claims import CLAIMS, NOT_CLAIMED

m = {
    "version": 1,
    "setup_cmd": "./setup.sh",
    "hooks": {
        "guard": "verif",
        "enable": "go build -tags verif -overlay .build/overlay.json (the overlay adds harness/overlay/zz_verif_hook.go and zz_verif_sentinel_{present,absent}.go, zz_verif_state_{present,absent}.go to package rscp and harness/overlay/zz_verif_main.go to cmd/e3dc at build time; nothing is committed to /repo for hooks)",
        "baseline_off_cmd": "cd /repo && go test -vet=off -count=1 ./...",
        "source_commits": [],
        "add_only": True,
    },
    "engines": [
        {"name": "lean-proofs", "path": "lean/", "serves_properties": sorted(CLAIMS),
         "kind_free_text": "Lean 4.33 project: model (Rscp/Model), specification (Rscp/Spec), lemmas, property theorems (Rscp/Props), tie lemmas (Rscp/Tie), axiom audits (Rscp/Audit), line-protocol driver (Driver/)"},
        {"name": "rscp2lean", "path": "tools/rscp2lean/", "serves_properties": sorted(CLAIMS),
         "kind_free_text": "translator (go/parser + go/types): regenerates lean/Rscp/Gen (constants, tables, leaf expressions, shape fingerprints) from /repo on every run"},
        {"name": "verifharness", "path": "harness/", "serves_properties": sorted(CLAIMS),
         "kind_free_text": "Go correspondence harness: runs the real code (built from /repo's working tree with the verif overlay) on generated cases, with an independent RSCP peer and Go-side property oracles"},
    ],
    "checks": [],
    "notes": "Every check regenerates the Lean model's generated part from /repo's working tree, re-checks the property's theorems and tie lemmas with lake, audits axioms, and runs the correspondence streams; see DESIGN.md.",
    "not_applicable": [{"property_id": p, "reason": r} for p, r in sorted(NOT_CLAIMED.items())],
}
for pid in sorted(CLAIMS):
    c = CLAIMS[pid]
    m["checks"].append({
        "property_id": pid,
        "quick_cmd": f"./check {pid} --tier quick",
        "thorough_cmd": f"./check {pid} --tier thorough",
        "evidence_file": f"/verif/evidence/{pid}.json",
        "replay_cmd_template": f"./check {pid} --replay {{path}}",
        "engine": "lean-proofs",
        "level_claimed": {"category": "proof", "text": c["text"], "design_ref": c.get("design_ref", "DESIGN.md §5 " + pid)},
        "level_note": c["note"],
        "technique": c["technique"],
    })
json.dump(m, open(os.path.join(ROOT, "MANIFEST.json"), "w"), indent=1)
print("claimed:", sorted(CLAIMS), "not claimed:", sorted(NOT_CLAIMED))
