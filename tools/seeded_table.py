#!/usr/bin/env python3
"""print the markdown table of DESIGN.md §8 from seeded/*/meta.json"""
import glob, json, os
ROOT = os.path.dirname(os.path.dirname(os.path.abspath(__file__)))
rows = []
for p in sorted(glob.glob(os.path.join(ROOT, "seeded", "*", "meta.json"))):
    m = json.load(open(p))
    c = m.get("check", {})
    first = ""
    if os.path.exists(os.path.join(os.path.dirname(p), "notes.md")):
        for line in open(os.path.join(os.path.dirname(p), "notes.md")):
            line = line.strip().lstrip("#").strip()
            if line:
                first = line[:110]
                break
    how = "—"
    if m.get("caught"):
        how = "failing input" if c.get("failing_input_found") else "broken tie/correspondence, no-failing-input-found"
    rows.append(f"| {m['id']} | {first} | {'yes' if m.get('confirmed') else 'NO'} | {'caught: ' + how if m.get('caught') else ('MISSED' if m.get('applies') else 'does not apply')} | {c.get('wall_s','')} |")
print("| id | change (first line of the author's notes) | confirmed | `./check <property>` quick | s |")
print("|---|---|---|---|---|")
print("\n".join(rows))
