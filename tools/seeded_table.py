#!/usr/bin/env python3
"""Markdown tables of DESIGN.md §8 from seeded/*/meta.json; `--update` rewrites the block between the
`<!-- seeded-table:begin -->` / `<!-- seeded-table:end -->` markers of DESIGN.md."""
import glob, json, os, sys
ROOT = os.path.dirname(os.path.dirname(os.path.abspath(__file__)))
rows, rev = [], []
for p in sorted(glob.glob(os.path.join(ROOT, "seeded", "*", "meta.json"))):
    m = json.load(open(p))
    if m["id"].startswith("revert-"):
        res = ", ".join(f"{c['property']}: " + ("failing input" if c["failing_input_found"] else ("no-failing-input-found" if c["exit"] == 1 else "MISSED"))
                        for c in m.get("checks", []))
        rev.append(f"| {m['id'][7:]} | {m['what_the_fix_repaired']} | {'yes' if m.get('suite_passes_with_revert') else 'no'} | {res} |")
        continue
    c = m.get("check", {})
    first = ""
    if os.path.exists(os.path.join(os.path.dirname(p), "notes.md")):
        for line in open(os.path.join(os.path.dirname(p), "notes.md")):
            line = line.strip().lstrip("#").strip()
            if line:
                first = line[:110].replace("|", "/")
                break
    how = "—"
    if m.get("caught"):
        how = "failing input" if c.get("failing_input_found") else "broken tie/correspondence, no-failing-input-found"
    rows.append(f"| {m['id']} | {first} | {'yes' if m.get('confirmed') else 'NO'} | {'caught: ' + how if m.get('caught') else ('MISSED' if m.get('applies') else 'does not apply')} | {c.get('wall_s','')} |")
out = ["| id | change (first line of the author's notes) | confirmed | `./check <property>` quick | s |", "|---|---|---|---|---|"] + rows
out += ["", "Reverts of the `fix:` commits (reverse patch of one commit on top of all later ones; each run against the checks of the properties",
        "the defect belongs to; `no-failing-input-found` = reported through a broken tie/correspondence only):", "",
        "| commit | what the fix repaired | suite passes with the revert | result per property |", "|---|---|---|---|"] + rev
text = "\n".join(out)
if "--update" in sys.argv:
    p = os.path.join(ROOT, "DESIGN.md")
    s = open(p).read()
    b, e = "<!-- seeded-table:begin -->", "<!-- seeded-table:end -->"
    if b in s:
        s = s[:s.index(b) + len(b)] + "\n" + text + "\n" + s[s.index(e):]
    else:
        s = s.replace("@@TABLE@@", b + "\n" + text + "\n" + e)
    open(p, "w").write(s)
else:
    print(text)
