import Rscp.Base
import Rscp.Gen.Consts
import Rscp.Gen.DataTypes
import Rscp.Gen.Tags
import Rscp.Gen.Misc
import Rscp.Gen.Leaves
import Rscp.Gen.Shapes
