import Rscp.Props.C10
import Rscp.Tie.Client
import Rscp.Tie.Config

#print axioms Rscp.Props.C10.io_is_sendMultiple
#print axioms Rscp.Props.C10.io_shape
#print axioms Rscp.Props.C10.call_bounded
#print axioms Rscp.Props.C10.receive_deadline_absolute
#print axioms Rscp.Props.C10.rearming_is_unbounded
#print axioms Rscp.Props.C10.timeouts_defaulted
#print axioms Rscp.Tie.Client.shape_rscp_NewClient
#print axioms Rscp.Tie.Client.shape_rscp_Client_resetCipher
#print axioms Rscp.Tie.Client.shape_rscp_Client_send
#print axioms Rscp.Tie.Client.shape_rscp_Client_receive
#print axioms Rscp.Tie.Client.shape_rscp_Client_connect
#print axioms Rscp.Tie.Client.shape_rscp_Client_authenticate
#print axioms Rscp.Tie.Client.shape_rscp_Client_Disconnect
#print axioms Rscp.Tie.Client.shape_rscp_Client_Send
#print axioms Rscp.Tie.Client.shape_rscp_Client_SendMultiple
#print axioms Rscp.Tie.Client.shape_rscp_CreateRequest
#print axioms Rscp.Tie.Client.shape_rscp_readRequestSlice
#print axioms Rscp.Tie.Client.shape_rscp_readRequestSliceReader
#print axioms Rscp.Tie.Client.leaf_authenticate_hideLog_src
#print axioms Rscp.Tie.Client.leaf_authenticate_hideLog_args
#print axioms Rscp.Tie.Config.shape_rscp_ClientConfig_check
#print axioms Rscp.Tie.Config.shape_rscp_NewClient
#print axioms Rscp.Tie.Config.leaf_check_noAddress_src
#print axioms Rscp.Tie.Config.leaf_check_noAddress_args
#print axioms Rscp.Tie.Config.leaf_check_noUsername_src
#print axioms Rscp.Tie.Config.leaf_check_noUsername_args
#print axioms Rscp.Tie.Config.leaf_check_noPassword_src
#print axioms Rscp.Tie.Config.leaf_check_noPassword_args
#print axioms Rscp.Tie.Config.leaf_check_noKey_src
#print axioms Rscp.Tie.Config.leaf_check_noKey_args
#print axioms Rscp.Tie.Config.leaf_check_anyMissing_src
#print axioms Rscp.Tie.Config.leaf_check_anyMissing_args
#print axioms Rscp.Tie.Config.leaf_check_heartbeatUnset_src
#print axioms Rscp.Tie.Config.leaf_check_heartbeatUnset_args
#print axioms Rscp.Tie.Config.leaf_check_portUnset_src
#print axioms Rscp.Tie.Config.leaf_check_portUnset_args
#print axioms Rscp.Tie.Config.leaf_check_connTimeoutUnset_src
#print axioms Rscp.Tie.Config.leaf_check_connTimeoutUnset_args
#print axioms Rscp.Tie.Config.leaf_check_sendTimeoutUnset_src
#print axioms Rscp.Tie.Config.leaf_check_sendTimeoutUnset_args
#print axioms Rscp.Tie.Config.leaf_check_recvTimeoutUnset_src
#print axioms Rscp.Tie.Config.leaf_check_recvTimeoutUnset_args
#print axioms Rscp.Tie.Config.leaf_check_bufBlocksUnset_src
#print axioms Rscp.Tie.Config.leaf_check_bufBlocksUnset_args
