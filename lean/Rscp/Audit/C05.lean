import Rscp.Props.C05
import Rscp.Tie.Validate
import Rscp.Tie.Writer
import Rscp.Tie.Client

#print axioms Rscp.Props.C05.send_no_panic
#print axioms Rscp.Props.C05.send_refuses_iff
#print axioms Rscp.Props.C05.send_frame_wf
#print axioms Rscp.Props.C05.send_error_classes
#print axioms Rscp.Tie.Validate.shape_rscp_Message_validate
#print axioms Rscp.Tie.Validate.shape_rscp_Message_size
#print axioms Rscp.Tie.Validate.shape_rscp_messagesWideSize
#print axioms Rscp.Tie.Validate.shape_rscp_validateRequest
#print axioms Rscp.Tie.Validate.shape_rscp_validateRequests
#print axioms Rscp.Tie.Validate.shape_rscp_DataType_isValidValue
#print axioms Rscp.Tie.Validate.shape_rscp_DataType_length
#print axioms Rscp.Tie.Validate.shape_rscp_Tag_isRequest
#print axioms Rscp.Tie.Validate.shape_rscp_var_validateMap
#print axioms Rscp.Tie.Validate.leaf_validate_tooLong_src
#print axioms Rscp.Tie.Validate.leaf_validate_tooLong_args
#print axioms Rscp.Tie.Validate.leaf_validateRequests_tooLong_src
#print axioms Rscp.Tie.Validate.leaf_validateRequests_tooLong_args
#print axioms Rscp.Tie.Validate.leaf_size_isVariable_src
#print axioms Rscp.Tie.Validate.leaf_size_isVariable_args
#print axioms Rscp.Tie.Validate.leaf_isRequest_src
#print axioms Rscp.Tie.Validate.leaf_isRequest_args
#print axioms Rscp.Tie.Writer.shape_rscp_write
#print axioms Rscp.Tie.Writer.shape_rscp_writeMessage
#print axioms Rscp.Tie.Writer.shape_rscp_writeFrame
#print axioms Rscp.Tie.Writer.shape_rscp_Write
#print axioms Rscp.Tie.Writer.shape_rscp_Message_valueSize
#print axioms Rscp.Tie.Writer.shape_rscp_messagesSize
#print axioms Rscp.Tie.Writer.shape_rscp_DataType_length
#print axioms Rscp.Tie.Writer.shape_rscp_dereferencePtr
#print axioms Rscp.Tie.Writer.leaf_writeFrame_ctrlBase_src
#print axioms Rscp.Tie.Writer.leaf_writeFrame_ctrlBase_args
#print axioms Rscp.Tie.Writer.leaf_writeFrame_ctrlCrcOn_src
#print axioms Rscp.Tie.Writer.leaf_writeFrame_ctrlCrcOn_args
#print axioms Rscp.Tie.Writer.leaf_writeFrame_ctrlCrcOff_src
#print axioms Rscp.Tie.Writer.leaf_writeFrame_ctrlCrcOff_args
#print axioms Rscp.Tie.Writer.leaf_Write_needsPadding_src
#print axioms Rscp.Tie.Writer.leaf_Write_needsPadding_args
#print axioms Rscp.Tie.Writer.leaf_valueSize_isVariable_src
#print axioms Rscp.Tie.Writer.leaf_valueSize_isVariable_args
#print axioms Rscp.Tie.Client.shape_rscp_NewClient
#print axioms Rscp.Tie.Client.shape_rscp_Client_resetCipher
#print axioms Rscp.Tie.Client.shape_rscp_Client_send
#print axioms Rscp.Tie.Client.shape_rscp_Client_receive
#print axioms Rscp.Tie.Client.shape_rscp_Client_connect
#print axioms Rscp.Tie.Client.shape_rscp_Client_authenticate
#print axioms Rscp.Tie.Client.shape_rscp_Client_Disconnect
#print axioms Rscp.Tie.Client.shape_rscp_Client_Send
#print axioms Rscp.Tie.Client.shape_rscp_Client_SendMultiple
#print axioms Rscp.Tie.Client.shape_rscp_CreateRequest
#print axioms Rscp.Tie.Client.shape_rscp_readRequestSlice
#print axioms Rscp.Tie.Client.shape_rscp_readRequestSliceReader
#print axioms Rscp.Tie.Client.leaf_authenticate_hideLog_src
#print axioms Rscp.Tie.Client.leaf_authenticate_hideLog_args
