import Rscp.Props.C17
import Rscp.Tie.Globals

#print axioms Rscp.Props.C17.interleaving_invariant
#print axioms Rscp.Props.C17.steps_commute
#print axioms Rscp.Props.C17.no_package_writes
#print axioms Rscp.Tie.Globals.list_rscpGlobals
#print axioms Rscp.Tie.Globals.list_rscpGlobalWrites
