import Rscp.Props.C11
import Rscp.Tie.Log
import Rscp.Tie.Client
import Rscp.Tie.Cli

#print axioms Rscp.Props.C11.render_masks
#print axioms Rscp.Props.C11.render_secret_independent
#print axioms Rscp.Props.C11.secret_tags
#print axioms Rscp.Props.C11.auth_window_quiet
#print axioms Rscp.Props.C11.auth_frame_not_logged
#print axioms Rscp.Props.C11.request_data_sites
#print axioms Rscp.Props.C11.known_finding_received_dump_is_logged
#print axioms Rscp.Tie.Log.shape_rscp_Message_String
#print axioms Rscp.Tie.Log.shape_rscp_Tag_isSecret
#print axioms Rscp.Tie.Log.shape_rscp_Write
#print axioms Rscp.Tie.Log.shape_rscp_Read
#print axioms Rscp.Tie.Log.shape_rscp_Client_authenticate
#print axioms Rscp.Tie.Log.leaf_authenticate_hideLog_src
#print axioms Rscp.Tie.Log.leaf_authenticate_hideLog_args
#print axioms Rscp.Tie.Log.list_rscpLogSites
#print axioms Rscp.Tie.Client.shape_rscp_NewClient
#print axioms Rscp.Tie.Client.shape_rscp_Client_resetCipher
#print axioms Rscp.Tie.Client.shape_rscp_Client_send
#print axioms Rscp.Tie.Client.shape_rscp_Client_receive
#print axioms Rscp.Tie.Client.shape_rscp_Client_connect
#print axioms Rscp.Tie.Client.shape_rscp_Client_authenticate
#print axioms Rscp.Tie.Client.shape_rscp_Client_Disconnect
#print axioms Rscp.Tie.Client.shape_rscp_Client_Send
#print axioms Rscp.Tie.Client.shape_rscp_Client_SendMultiple
#print axioms Rscp.Tie.Client.shape_rscp_CreateRequest
#print axioms Rscp.Tie.Client.shape_rscp_readRequestSlice
#print axioms Rscp.Tie.Client.shape_rscp_readRequestSliceReader
#print axioms Rscp.Tie.Client.leaf_authenticate_hideLog_src
#print axioms Rscp.Tie.Client.leaf_authenticate_hideLog_args
#print axioms Rscp.Tie.Cli.shape_e3dc_main
#print axioms Rscp.Tie.Cli.shape_e3dc_run
#print axioms Rscp.Tie.Cli.shape_e3dc_parseFlags
#print axioms Rscp.Tie.Cli.shape_e3dc_checkFlags
#print axioms Rscp.Tie.Cli.shape_e3dc_printUsage
#print axioms Rscp.Tie.Cli.shape_e3dc_printVersion
