import Rscp.Props.C15
import Rscp.Tie.Cli
import Rscp.Tie.JsonIn
import Rscp.Tie.JsonOut
import Rscp.Tie.Client

#print axioms Rscp.Props.C15.help_version
#print axioms Rscp.Props.C15.process_contract
#print axioms Rscp.Props.C15.no_panic_trace
#print axioms Rscp.Props.C15.early_failures_send_nothing
#print axioms Rscp.Props.C15.split_sends_one_frame_each
#print axioms Rscp.Props.C15.split_equals_unsplit
#print axioms Rscp.Tie.Cli.shape_e3dc_main
#print axioms Rscp.Tie.Cli.shape_e3dc_run
#print axioms Rscp.Tie.Cli.shape_e3dc_parseFlags
#print axioms Rscp.Tie.Cli.shape_e3dc_checkFlags
#print axioms Rscp.Tie.Cli.shape_e3dc_printUsage
#print axioms Rscp.Tie.Cli.shape_e3dc_printVersion
#print axioms Rscp.Tie.JsonIn.shape_e3dc_unmarshalJSONRequests
#print axioms Rscp.Tie.JsonIn.shape_e3dc_unmarshalJSONRequest
#print axioms Rscp.Tie.JsonIn.shape_e3dc_unmarshalJSONValue
#print axioms Rscp.Tie.JsonIn.shape_e3dc_isJSONEmpty
#print axioms Rscp.Tie.JsonIn.shape_e3dc_isJSONArray
#print axioms Rscp.Tie.JsonIn.shape_e3dc_isJSONString
#print axioms Rscp.Tie.JsonIn.shape_e3dc_isJSONNumber
#print axioms Rscp.Tie.JsonIn.shape_e3dc_isJSONDataType
#print axioms Rscp.Tie.JsonIn.shape_rscp_Message_UnmarshalJSON
#print axioms Rscp.Tie.JsonIn.shape_rscp_Message_UnmarshalJSONValue
#print axioms Rscp.Tie.JsonIn.shape_rscp_DataType_newNumber
#print axioms Rscp.Tie.JsonIn.shape_rscp_DataType_new
#print axioms Rscp.Tie.JsonIn.shape_rscp_var_newMap
#print axioms Rscp.Tie.JsonIn.shape_rscp_Tag_UnmarshalJSON
#print axioms Rscp.Tie.JsonIn.shape_rscp_DataType_UnmarshalJSON
#print axioms Rscp.Tie.JsonIn.shape_rscp_Message_validate
#print axioms Rscp.Tie.JsonOut.shape_e3dc_NewJSONMergedMessages
#print axioms Rscp.Tie.JsonOut.shape_e3dc_NewJSONSimpleMessage
#print axioms Rscp.Tie.JsonOut.shape_e3dc_NewJSONSimpleMessages
#print axioms Rscp.Tie.JsonOut.shape_e3dc_JSONMessage_MarshalJSON
#print axioms Rscp.Tie.JsonOut.shape_e3dc_run
#print axioms Rscp.Tie.JsonOut.shape_rscp_Tag_MarshalJSON
#print axioms Rscp.Tie.JsonOut.shape_rscp_RscpError_MarshalJSON
#print axioms Rscp.Tie.JsonOut.shape_rscp_RscpError_String
#print axioms Rscp.Tie.JsonOut.shape_rscp_DataType_MarshalJSON
#print axioms Rscp.Tie.Client.shape_rscp_NewClient
#print axioms Rscp.Tie.Client.shape_rscp_Client_resetCipher
#print axioms Rscp.Tie.Client.shape_rscp_Client_send
#print axioms Rscp.Tie.Client.shape_rscp_Client_receive
#print axioms Rscp.Tie.Client.shape_rscp_Client_connect
#print axioms Rscp.Tie.Client.shape_rscp_Client_authenticate
#print axioms Rscp.Tie.Client.shape_rscp_Client_Disconnect
#print axioms Rscp.Tie.Client.shape_rscp_Client_Send
#print axioms Rscp.Tie.Client.shape_rscp_Client_SendMultiple
#print axioms Rscp.Tie.Client.shape_rscp_CreateRequest
#print axioms Rscp.Tie.Client.shape_rscp_readRequestSlice
#print axioms Rscp.Tie.Client.shape_rscp_readRequestSliceReader
#print axioms Rscp.Tie.Client.leaf_authenticate_hideLog_src
#print axioms Rscp.Tie.Client.leaf_authenticate_hideLog_args
