import Rscp.Props.C18
import Rscp.Tie.Builder

#print axioms Rscp.Props.C18.build_matches_grammar
#print axioms Rscp.Props.C18.build_total
#print axioms Rscp.Props.C18.err_empty
#print axioms Rscp.Props.C18.err_not_a_tag_dt
#print axioms Rscp.Props.C18.err_not_a_tag_val
#print axioms Rscp.Props.C18.err_missing_value
#print axioms Rscp.Props.C18.err_tag_as_value
#print axioms Rscp.Props.C18.err_datatype_as_value
#print axioms Rscp.Props.C18.errors_are_documented
#print axioms Rscp.Props.C18.multi_is_map
#print axioms Rscp.Props.C18.multi_no_arguments
#print axioms Rscp.Props.C18.multi_first_error
#print axioms Rscp.Tie.Builder.shape_rscp_CreateRequest
#print axioms Rscp.Tie.Builder.shape_rscp_CreateRequests
#print axioms Rscp.Tie.Builder.shape_rscp_readRequestSlice
#print axioms Rscp.Tie.Builder.shape_rscp_readRequestSliceReader
#print axioms Rscp.Tie.Builder.shape_rscp_NewMessage
#print axioms Rscp.Tie.Builder.shape_rscp_Tag_DataType
