import Rscp.Props.C01
import Rscp.Props.C01a
import Rscp.Props.C01b
import Rscp.Props.C01c
import Rscp.Tie.Reader
import Rscp.Tie.Writer
import Rscp.Tie.Validate

#print axioms Rscp.Props.C01.roundtrip_plain
#print axioms Rscp.Props.C01.cbc_stream
#print axioms Rscp.Props.C01.roundtrip_stream
#print axioms Rscp.Props.C01.spec_roundtrip
#print axioms Rscp.Props.C01.encode_injective
#print axioms Rscp.Props.C01.decode_independent_of_envelope
#print axioms Rscp.Props.C01.emptied_buffer_is_fresh
#print axioms Rscp.Props.C01.empty_buffers_answer_alike
#print axioms Rscp.Props.C01.frame_after_abandoned
#print axioms Rscp.Tie.Reader.shape_rscp_readHeader
#print axioms Rscp.Tie.Reader.shape_rscp_truncatePadding
#print axioms Rscp.Tie.Reader.shape_rscp_read
#print axioms Rscp.Tie.Reader.shape_rscp_readMessage
#print axioms Rscp.Tie.Reader.shape_rscp_Read
#print axioms Rscp.Tie.Reader.shape_rscp_DataType_length
#print axioms Rscp.Tie.Reader.shape_rscp_DataType_newEmpty
#print axioms Rscp.Tie.Reader.shape_rscp_DataType_IsADataType
#print axioms Rscp.Tie.Reader.shape_rscp_dereferencePtr
#print axioms Rscp.Tie.Reader.shape_rscp_var_newEmptyMap
#print axioms Rscp.Tie.Reader.leaf_readHeader_badMagic_src
#print axioms Rscp.Tie.Reader.leaf_readHeader_badMagic_args
#print axioms Rscp.Tie.Reader.leaf_readHeader_badCtrl_src
#print axioms Rscp.Tie.Reader.leaf_readHeader_badCtrl_args
#print axioms Rscp.Tie.Reader.leaf_readHeader_badVersion_src
#print axioms Rscp.Tie.Reader.leaf_readHeader_badVersion_args
#print axioms Rscp.Tie.Reader.leaf_readHeader_crcFlag_src
#print axioms Rscp.Tie.Reader.leaf_readHeader_crcFlag_args
#print axioms Rscp.Tie.Reader.leaf_readHeader_frameSize_src
#print axioms Rscp.Tie.Reader.leaf_readHeader_frameSize_args
#print axioms Rscp.Tie.Reader.leaf_readMessage_tooLong_src
#print axioms Rscp.Tie.Reader.leaf_readMessage_tooLong_args
#print axioms Rscp.Tie.Reader.leaf_readMessage_lenMismatch_src
#print axioms Rscp.Tie.Reader.leaf_readMessage_lenMismatch_args
#print axioms Rscp.Tie.Reader.leaf_truncatePadding_loop_src
#print axioms Rscp.Tie.Reader.leaf_truncatePadding_loop_args
#print axioms Rscp.Tie.Reader.leaf_truncatePadding_trailing_src
#print axioms Rscp.Tie.Reader.leaf_truncatePadding_trailing_args
#print axioms Rscp.Tie.Reader.leaf_Read_badChunk_src
#print axioms Rscp.Tie.Reader.leaf_Read_badChunk_args
#print axioms Rscp.Tie.Reader.leaf_Read_complete_src
#print axioms Rscp.Tie.Reader.leaf_Read_complete_args
#print axioms Rscp.Tie.Reader.leaf_Read_badCrc_src
#print axioms Rscp.Tie.Reader.leaf_Read_badCrc_args
#print axioms Rscp.Tie.Writer.shape_rscp_write
#print axioms Rscp.Tie.Writer.shape_rscp_writeMessage
#print axioms Rscp.Tie.Writer.shape_rscp_writeFrame
#print axioms Rscp.Tie.Writer.shape_rscp_Write
#print axioms Rscp.Tie.Writer.shape_rscp_Message_valueSize
#print axioms Rscp.Tie.Writer.shape_rscp_messagesSize
#print axioms Rscp.Tie.Writer.shape_rscp_DataType_length
#print axioms Rscp.Tie.Writer.shape_rscp_dereferencePtr
#print axioms Rscp.Tie.Writer.leaf_writeFrame_ctrlBase_src
#print axioms Rscp.Tie.Writer.leaf_writeFrame_ctrlBase_args
#print axioms Rscp.Tie.Writer.leaf_writeFrame_ctrlCrcOn_src
#print axioms Rscp.Tie.Writer.leaf_writeFrame_ctrlCrcOn_args
#print axioms Rscp.Tie.Writer.leaf_writeFrame_ctrlCrcOff_src
#print axioms Rscp.Tie.Writer.leaf_writeFrame_ctrlCrcOff_args
#print axioms Rscp.Tie.Writer.leaf_Write_needsPadding_src
#print axioms Rscp.Tie.Writer.leaf_Write_needsPadding_args
#print axioms Rscp.Tie.Writer.leaf_valueSize_isVariable_src
#print axioms Rscp.Tie.Writer.leaf_valueSize_isVariable_args
#print axioms Rscp.Tie.Validate.shape_rscp_Message_validate
#print axioms Rscp.Tie.Validate.shape_rscp_Message_size
#print axioms Rscp.Tie.Validate.shape_rscp_messagesWideSize
#print axioms Rscp.Tie.Validate.shape_rscp_validateRequest
#print axioms Rscp.Tie.Validate.shape_rscp_validateRequests
#print axioms Rscp.Tie.Validate.shape_rscp_DataType_isValidValue
#print axioms Rscp.Tie.Validate.shape_rscp_DataType_length
#print axioms Rscp.Tie.Validate.shape_rscp_Tag_isRequest
#print axioms Rscp.Tie.Validate.shape_rscp_var_validateMap
#print axioms Rscp.Tie.Validate.leaf_validate_tooLong_src
#print axioms Rscp.Tie.Validate.leaf_validate_tooLong_args
#print axioms Rscp.Tie.Validate.leaf_validateRequests_tooLong_src
#print axioms Rscp.Tie.Validate.leaf_validateRequests_tooLong_args
#print axioms Rscp.Tie.Validate.leaf_size_isVariable_src
#print axioms Rscp.Tie.Validate.leaf_size_isVariable_args
#print axioms Rscp.Tie.Validate.leaf_isRequest_src
#print axioms Rscp.Tie.Validate.leaf_isRequest_args
