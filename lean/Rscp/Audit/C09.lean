import Rscp.Props.C09
import Rscp.Tie.Client

#print axioms Rscp.Props.C09.first_frame_is_auth
#print axioms Rscp.Props.C09.user_after_grant
#print axioms Rscp.Props.C09.grant_iff
#print axioms Rscp.Props.C09.auth_reply_total
#print axioms Rscp.Props.C09.receive_nonempty
#print axioms Rscp.Props.C09.no_panic
#print axioms Rscp.Tie.Client.shape_rscp_NewClient
#print axioms Rscp.Tie.Client.shape_rscp_Client_resetCipher
#print axioms Rscp.Tie.Client.shape_rscp_Client_send
#print axioms Rscp.Tie.Client.shape_rscp_Client_receive
#print axioms Rscp.Tie.Client.shape_rscp_Client_connect
#print axioms Rscp.Tie.Client.shape_rscp_Client_authenticate
#print axioms Rscp.Tie.Client.shape_rscp_Client_Disconnect
#print axioms Rscp.Tie.Client.shape_rscp_Client_Send
#print axioms Rscp.Tie.Client.shape_rscp_Client_SendMultiple
#print axioms Rscp.Tie.Client.shape_rscp_CreateRequest
#print axioms Rscp.Tie.Client.shape_rscp_readRequestSlice
#print axioms Rscp.Tie.Client.shape_rscp_readRequestSliceReader
#print axioms Rscp.Tie.Client.leaf_authenticate_hideLog_src
#print axioms Rscp.Tie.Client.leaf_authenticate_hideLog_args
