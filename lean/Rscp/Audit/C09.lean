import Rscp.Props.C09

#print axioms Rscp.Props.C09.first_frame_is_auth
#print axioms Rscp.Props.C09.user_after_grant
#print axioms Rscp.Props.C09.grant_iff
#print axioms Rscp.Props.C09.auth_reply_total
#print axioms Rscp.Props.C09.receive_nonempty
#print axioms Rscp.Props.C09.no_panic
