import Rscp.Props.C13
import Rscp.Tie.JsonOut

#print axioms Rscp.Props.C13.merged_key_owns_its_data
#print axioms Rscp.Props.C13.merged_keys
#print axioms Rscp.Props.C13.merged_keys_sorted
#print axioms Rscp.Props.C13.simple_shape
#print axioms Rscp.Props.C13.json_shape
#print axioms Rscp.Props.C13.output_is_one_document_partial
#print axioms Rscp.Props.C13.nan_fails
#print axioms Rscp.Props.C13.year_10000_fails
#print axioms Rscp.Props.C13.negative_year_fails_in_json
#print axioms Rscp.Props.C13.scalars_reported_exactly
#print axioms Rscp.Props.C13.negative_year_rewritten_in_map_formats
#print axioms Rscp.Tie.JsonOut.shape_e3dc_NewJSONMergedMessages
#print axioms Rscp.Tie.JsonOut.shape_e3dc_NewJSONSimpleMessage
#print axioms Rscp.Tie.JsonOut.shape_e3dc_NewJSONSimpleMessages
#print axioms Rscp.Tie.JsonOut.shape_e3dc_JSONMessage_MarshalJSON
#print axioms Rscp.Tie.JsonOut.shape_e3dc_run
#print axioms Rscp.Tie.JsonOut.shape_rscp_Tag_MarshalJSON
#print axioms Rscp.Tie.JsonOut.shape_rscp_RscpError_MarshalJSON
#print axioms Rscp.Tie.JsonOut.shape_rscp_RscpError_String
#print axioms Rscp.Tie.JsonOut.shape_rscp_DataType_MarshalJSON
