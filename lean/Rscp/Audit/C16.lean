import Rscp.Props.C16
import Rscp.Tie.Config
import Rscp.Tie.Crypt

#print axioms Rscp.Props.C16.newClient_ok_iff
#print axioms Rscp.Props.C16.newClient_total
#print axioms Rscp.Props.C16.missing_names
#print axioms Rscp.Props.C16.defaults
#print axioms Rscp.Props.C16.effective_config_sane
#print axioms Rscp.Props.C16.key_block
#print axioms Rscp.Tie.Config.shape_rscp_ClientConfig_check
#print axioms Rscp.Tie.Config.shape_rscp_NewClient
#print axioms Rscp.Tie.Config.leaf_check_noAddress_src
#print axioms Rscp.Tie.Config.leaf_check_noAddress_args
#print axioms Rscp.Tie.Config.leaf_check_noUsername_src
#print axioms Rscp.Tie.Config.leaf_check_noUsername_args
#print axioms Rscp.Tie.Config.leaf_check_noPassword_src
#print axioms Rscp.Tie.Config.leaf_check_noPassword_args
#print axioms Rscp.Tie.Config.leaf_check_noKey_src
#print axioms Rscp.Tie.Config.leaf_check_noKey_args
#print axioms Rscp.Tie.Config.leaf_check_anyMissing_src
#print axioms Rscp.Tie.Config.leaf_check_anyMissing_args
#print axioms Rscp.Tie.Config.leaf_check_heartbeatUnset_src
#print axioms Rscp.Tie.Config.leaf_check_heartbeatUnset_args
#print axioms Rscp.Tie.Config.leaf_check_portUnset_src
#print axioms Rscp.Tie.Config.leaf_check_portUnset_args
#print axioms Rscp.Tie.Config.leaf_check_connTimeoutUnset_src
#print axioms Rscp.Tie.Config.leaf_check_connTimeoutUnset_args
#print axioms Rscp.Tie.Config.leaf_check_sendTimeoutUnset_src
#print axioms Rscp.Tie.Config.leaf_check_sendTimeoutUnset_args
#print axioms Rscp.Tie.Config.leaf_check_recvTimeoutUnset_src
#print axioms Rscp.Tie.Config.leaf_check_recvTimeoutUnset_args
#print axioms Rscp.Tie.Config.leaf_check_bufBlocksUnset_src
#print axioms Rscp.Tie.Config.leaf_check_bufBlocksUnset_args
#print axioms Rscp.Tie.Crypt.shape_rscp_createAESKey
#print axioms Rscp.Tie.Crypt.shape_rscp_newIV
