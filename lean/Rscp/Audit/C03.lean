import Rscp.Props.C03
import Rscp.Props.C03b
import Rscp.Tie.Reader

#print axioms Rscp.Props.C03.accept_iff_wf
#print axioms Rscp.Props.C03.reject_is_error
#print axioms Rscp.Props.C03.decode_total
#print axioms Rscp.Props.C03.chunking
#print axioms Rscp.Props.C03.wellformed_piece_answer
#print axioms Rscp.Props.C03.wellformed_in_pieces
#print axioms Rscp.Props.C03.wellformed_last_piece
#print axioms Rscp.Props.C03.wellformed_delivered
#print axioms Rscp.Tie.Reader.shape_rscp_readHeader
#print axioms Rscp.Tie.Reader.shape_rscp_truncatePadding
#print axioms Rscp.Tie.Reader.shape_rscp_read
#print axioms Rscp.Tie.Reader.shape_rscp_readMessage
#print axioms Rscp.Tie.Reader.shape_rscp_Read
#print axioms Rscp.Tie.Reader.shape_rscp_DataType_length
#print axioms Rscp.Tie.Reader.shape_rscp_DataType_newEmpty
#print axioms Rscp.Tie.Reader.shape_rscp_DataType_IsADataType
#print axioms Rscp.Tie.Reader.shape_rscp_dereferencePtr
#print axioms Rscp.Tie.Reader.shape_rscp_var_newEmptyMap
#print axioms Rscp.Tie.Reader.leaf_readHeader_badMagic_src
#print axioms Rscp.Tie.Reader.leaf_readHeader_badMagic_args
#print axioms Rscp.Tie.Reader.leaf_readHeader_badCtrl_src
#print axioms Rscp.Tie.Reader.leaf_readHeader_badCtrl_args
#print axioms Rscp.Tie.Reader.leaf_readHeader_badVersion_src
#print axioms Rscp.Tie.Reader.leaf_readHeader_badVersion_args
#print axioms Rscp.Tie.Reader.leaf_readHeader_crcFlag_src
#print axioms Rscp.Tie.Reader.leaf_readHeader_crcFlag_args
#print axioms Rscp.Tie.Reader.leaf_readHeader_frameSize_src
#print axioms Rscp.Tie.Reader.leaf_readHeader_frameSize_args
#print axioms Rscp.Tie.Reader.leaf_readMessage_tooLong_src
#print axioms Rscp.Tie.Reader.leaf_readMessage_tooLong_args
#print axioms Rscp.Tie.Reader.leaf_readMessage_lenMismatch_src
#print axioms Rscp.Tie.Reader.leaf_readMessage_lenMismatch_args
#print axioms Rscp.Tie.Reader.leaf_truncatePadding_loop_src
#print axioms Rscp.Tie.Reader.leaf_truncatePadding_loop_args
#print axioms Rscp.Tie.Reader.leaf_truncatePadding_trailing_src
#print axioms Rscp.Tie.Reader.leaf_truncatePadding_trailing_args
#print axioms Rscp.Tie.Reader.leaf_Read_badChunk_src
#print axioms Rscp.Tie.Reader.leaf_Read_badChunk_args
#print axioms Rscp.Tie.Reader.leaf_Read_complete_src
#print axioms Rscp.Tie.Reader.leaf_Read_complete_args
#print axioms Rscp.Tie.Reader.leaf_Read_badCrc_src
#print axioms Rscp.Tie.Reader.leaf_Read_badCrc_args
