import Rscp.Props.C07
import Rscp.Props.C07b
import Rscp.Tie.Client
import Rscp.Tie.Reader
import Rscp.Tie.Crypt

#print axioms Rscp.Props.C07.fed_is_prefix
#print axioms Rscp.Props.C07.segmentation_invariant
#print axioms Rscp.Props.C07.one_piece
#print axioms Rscp.Props.C07.complete_reply_returned
#print axioms Rscp.Props.C07.receive_no_panic
#print axioms Rscp.Props.C07.cipher_transparent
#print axioms Rscp.Props.C07.encrypted_reply_returned
#print axioms Rscp.Props.C07.receive_enc_no_panic
#print axioms Rscp.Props.C07.fed_enc_is_prefix
#print axioms Rscp.Tie.Client.shape_rscp_NewClient
#print axioms Rscp.Tie.Client.shape_rscp_Client_resetCipher
#print axioms Rscp.Tie.Client.shape_rscp_Client_send
#print axioms Rscp.Tie.Client.shape_rscp_Client_receive
#print axioms Rscp.Tie.Client.shape_rscp_Client_connect
#print axioms Rscp.Tie.Client.shape_rscp_Client_authenticate
#print axioms Rscp.Tie.Client.shape_rscp_Client_Disconnect
#print axioms Rscp.Tie.Client.shape_rscp_Client_Send
#print axioms Rscp.Tie.Client.shape_rscp_Client_SendMultiple
#print axioms Rscp.Tie.Client.shape_rscp_CreateRequest
#print axioms Rscp.Tie.Client.shape_rscp_readRequestSlice
#print axioms Rscp.Tie.Client.shape_rscp_readRequestSliceReader
#print axioms Rscp.Tie.Client.leaf_authenticate_hideLog_src
#print axioms Rscp.Tie.Client.leaf_authenticate_hideLog_args
#print axioms Rscp.Tie.Reader.shape_rscp_readHeader
#print axioms Rscp.Tie.Reader.shape_rscp_truncatePadding
#print axioms Rscp.Tie.Reader.shape_rscp_read
#print axioms Rscp.Tie.Reader.shape_rscp_readMessage
#print axioms Rscp.Tie.Reader.shape_rscp_Read
#print axioms Rscp.Tie.Reader.shape_rscp_DataType_length
#print axioms Rscp.Tie.Reader.shape_rscp_DataType_newEmpty
#print axioms Rscp.Tie.Reader.shape_rscp_DataType_IsADataType
#print axioms Rscp.Tie.Reader.shape_rscp_dereferencePtr
#print axioms Rscp.Tie.Reader.shape_rscp_var_newEmptyMap
#print axioms Rscp.Tie.Reader.leaf_readHeader_badMagic_src
#print axioms Rscp.Tie.Reader.leaf_readHeader_badMagic_args
#print axioms Rscp.Tie.Reader.leaf_readHeader_badCtrl_src
#print axioms Rscp.Tie.Reader.leaf_readHeader_badCtrl_args
#print axioms Rscp.Tie.Reader.leaf_readHeader_badVersion_src
#print axioms Rscp.Tie.Reader.leaf_readHeader_badVersion_args
#print axioms Rscp.Tie.Reader.leaf_readHeader_crcFlag_src
#print axioms Rscp.Tie.Reader.leaf_readHeader_crcFlag_args
#print axioms Rscp.Tie.Reader.leaf_readHeader_frameSize_src
#print axioms Rscp.Tie.Reader.leaf_readHeader_frameSize_args
#print axioms Rscp.Tie.Reader.leaf_readMessage_tooLong_src
#print axioms Rscp.Tie.Reader.leaf_readMessage_tooLong_args
#print axioms Rscp.Tie.Reader.leaf_readMessage_lenMismatch_src
#print axioms Rscp.Tie.Reader.leaf_readMessage_lenMismatch_args
#print axioms Rscp.Tie.Reader.leaf_truncatePadding_loop_src
#print axioms Rscp.Tie.Reader.leaf_truncatePadding_loop_args
#print axioms Rscp.Tie.Reader.leaf_truncatePadding_trailing_src
#print axioms Rscp.Tie.Reader.leaf_truncatePadding_trailing_args
#print axioms Rscp.Tie.Reader.leaf_Read_badChunk_src
#print axioms Rscp.Tie.Reader.leaf_Read_badChunk_args
#print axioms Rscp.Tie.Reader.leaf_Read_complete_src
#print axioms Rscp.Tie.Reader.leaf_Read_complete_args
#print axioms Rscp.Tie.Reader.leaf_Read_badCrc_src
#print axioms Rscp.Tie.Reader.leaf_Read_badCrc_args
#print axioms Rscp.Tie.Crypt.shape_rscp_createAESKey
#print axioms Rscp.Tie.Crypt.shape_rscp_newIV
