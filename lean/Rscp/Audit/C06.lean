import Rscp.Props.C06
import Rscp.Tie.Crypt
import Rscp.Tie.Client

#print axioms Rscp.Props.C06.key_padding
#print axioms Rscp.Props.C06.key_long
#print axioms Rscp.Props.C06.key_is_a_block
#print axioms Rscp.Props.C06.iv_is_ff
#print axioms Rscp.Props.C06.peer_decrypts_all
#print axioms Rscp.Props.C06.peer_decrypts_all_from_new
#print axioms Rscp.Props.C06.cbc_chunking
#print axioms Rscp.Tie.Crypt.shape_rscp_createAESKey
#print axioms Rscp.Tie.Crypt.shape_rscp_newIV
#print axioms Rscp.Tie.Client.shape_rscp_NewClient
#print axioms Rscp.Tie.Client.shape_rscp_Client_resetCipher
#print axioms Rscp.Tie.Client.shape_rscp_Client_send
#print axioms Rscp.Tie.Client.shape_rscp_Client_receive
#print axioms Rscp.Tie.Client.shape_rscp_Client_connect
#print axioms Rscp.Tie.Client.shape_rscp_Client_authenticate
#print axioms Rscp.Tie.Client.shape_rscp_Client_Disconnect
#print axioms Rscp.Tie.Client.shape_rscp_Client_Send
#print axioms Rscp.Tie.Client.shape_rscp_Client_SendMultiple
#print axioms Rscp.Tie.Client.shape_rscp_CreateRequest
#print axioms Rscp.Tie.Client.shape_rscp_readRequestSlice
#print axioms Rscp.Tie.Client.shape_rscp_readRequestSliceReader
#print axioms Rscp.Tie.Client.leaf_authenticate_hideLog_src
#print axioms Rscp.Tie.Client.leaf_authenticate_hideLog_args
