import Rscp.Props.C08

#print axioms Rscp.Props.C08.clean_init
#print axioms Rscp.Props.C08.clean_step
#print axioms Rscp.Props.C08.clean_reachable
#print axioms Rscp.Props.C08.pairing
#print axioms Rscp.Props.C08.sent_once_in_order
#print axioms Rscp.Props.C08.failure_disconnects
#print axioms Rscp.Props.C08.disconnect_resets
#print axioms Rscp.Props.C08.recovery
