import Rscp.Props.C08
import Rscp.Props.C08b
import Rscp.Props.C08c
import Rscp.Tie.Client
import Rscp.Tie.Reader

#print axioms Rscp.Props.C08.clean_init
#print axioms Rscp.Props.C08.clean_step
#print axioms Rscp.Props.C08.clean_reachable
#print axioms Rscp.Props.C08.pairing
#print axioms Rscp.Props.C08.sent_once_in_order
#print axioms Rscp.Props.C08.failure_disconnects
#print axioms Rscp.Props.C08.disconnect_resets
#print axioms Rscp.Props.C08.recovery
#print axioms Rscp.Props.C08.receive_is_tokObs
#print axioms Rscp.Props.C08.layers_agree
#print axioms Rscp.Props.C08.healthy_connection_end_to_end
#print axioms Rscp.Tie.Client.shape_rscp_NewClient
#print axioms Rscp.Tie.Client.shape_rscp_Client_resetCipher
#print axioms Rscp.Tie.Client.shape_rscp_Client_send
#print axioms Rscp.Tie.Client.shape_rscp_Client_receive
#print axioms Rscp.Tie.Client.shape_rscp_Client_connect
#print axioms Rscp.Tie.Client.shape_rscp_Client_authenticate
#print axioms Rscp.Tie.Client.shape_rscp_Client_Disconnect
#print axioms Rscp.Tie.Client.shape_rscp_Client_Send
#print axioms Rscp.Tie.Client.shape_rscp_Client_SendMultiple
#print axioms Rscp.Tie.Client.shape_rscp_CreateRequest
#print axioms Rscp.Tie.Client.shape_rscp_readRequestSlice
#print axioms Rscp.Tie.Client.shape_rscp_readRequestSliceReader
#print axioms Rscp.Tie.Client.leaf_authenticate_hideLog_src
#print axioms Rscp.Tie.Client.leaf_authenticate_hideLog_args
#print axioms Rscp.Tie.Reader.shape_rscp_readHeader
#print axioms Rscp.Tie.Reader.shape_rscp_truncatePadding
#print axioms Rscp.Tie.Reader.shape_rscp_read
#print axioms Rscp.Tie.Reader.shape_rscp_readMessage
#print axioms Rscp.Tie.Reader.shape_rscp_Read
#print axioms Rscp.Tie.Reader.shape_rscp_DataType_length
#print axioms Rscp.Tie.Reader.shape_rscp_DataType_newEmpty
#print axioms Rscp.Tie.Reader.shape_rscp_DataType_IsADataType
#print axioms Rscp.Tie.Reader.shape_rscp_dereferencePtr
#print axioms Rscp.Tie.Reader.shape_rscp_var_newEmptyMap
#print axioms Rscp.Tie.Reader.leaf_readHeader_badMagic_src
#print axioms Rscp.Tie.Reader.leaf_readHeader_badMagic_args
#print axioms Rscp.Tie.Reader.leaf_readHeader_badCtrl_src
#print axioms Rscp.Tie.Reader.leaf_readHeader_badCtrl_args
#print axioms Rscp.Tie.Reader.leaf_readHeader_badVersion_src
#print axioms Rscp.Tie.Reader.leaf_readHeader_badVersion_args
#print axioms Rscp.Tie.Reader.leaf_readHeader_crcFlag_src
#print axioms Rscp.Tie.Reader.leaf_readHeader_crcFlag_args
#print axioms Rscp.Tie.Reader.leaf_readHeader_frameSize_src
#print axioms Rscp.Tie.Reader.leaf_readHeader_frameSize_args
#print axioms Rscp.Tie.Reader.leaf_readMessage_tooLong_src
#print axioms Rscp.Tie.Reader.leaf_readMessage_tooLong_args
#print axioms Rscp.Tie.Reader.leaf_readMessage_lenMismatch_src
#print axioms Rscp.Tie.Reader.leaf_readMessage_lenMismatch_args
#print axioms Rscp.Tie.Reader.leaf_truncatePadding_loop_src
#print axioms Rscp.Tie.Reader.leaf_truncatePadding_loop_args
#print axioms Rscp.Tie.Reader.leaf_truncatePadding_trailing_src
#print axioms Rscp.Tie.Reader.leaf_truncatePadding_trailing_args
#print axioms Rscp.Tie.Reader.leaf_Read_badChunk_src
#print axioms Rscp.Tie.Reader.leaf_Read_badChunk_args
#print axioms Rscp.Tie.Reader.leaf_Read_complete_src
#print axioms Rscp.Tie.Reader.leaf_Read_complete_args
#print axioms Rscp.Tie.Reader.leaf_Read_badCrc_src
#print axioms Rscp.Tie.Reader.leaf_Read_badCrc_args
