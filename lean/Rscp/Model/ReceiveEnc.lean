/-
Ciphertext-level model of `Client.receive` (rscp/client.go): the same loop as `Model/Receive.lean`, but on
the bytes that actually arrive — ciphertext — with the CBC decrypter state the client keeps per connection.
`Read` decrypts the whole blocks it is handed with the chained state and decodes the plaintext.

`Props/C07.cipher_transparent` shows that this loop is the plaintext loop of `Model/Receive.lean` run on the
decrypted stream, for every block cipher: the modelling step "the cipher is taken out" of Receive.lean is a
theorem, not an assumption.
-/
import Rscp.Model.Receive
import Rscp.Model.Crypt
namespace Rscp.Model
open Rscp

/-- `decrypter.CryptBlocks(data, data)` on whole blocks: plaintext and new chaining state -/
def decryptBlocks (c : BlockCipher) (iv : List Byte) (ct : List Byte) : List Byte × List Byte :=
  let (pt, s) := cbcDec c iv (toBlocks ct)
  (pt.flatten, s)

/-- the loop over the results of `conn.Read` (ciphertext pieces); `iv` is the decrypter's chaining state -/
def recvLoopEnc (c : BlockCipher) (iv : List Byte) (st : RState) (pending fed : List Byte) : List (List Byte) → RecvOut
  | [] => { result := .err .io, disconnected := true, fed := fed }
  | piece :: rest =>
    if piece.isEmpty then { result := .err .invalidFrameLength, disconnected := true, fed := fed } else
    let pend := pending ++ piece
    let n := pend.length - pend.length % Gen.C.RSCP_CRYPT_BLOCK_SIZE
    if n = 0 then recvLoopEnc c iv st pend fed rest else
    let (plain, iv') := decryptBlocks c iv (pend.take n)
    let (st', r) := readPlain st plain
    let fed' := fed ++ plain
    match r with
    | .err .invalidFrameLength => recvLoopEnc c iv' st' (pend.drop n) fed' rest
    | .err e => { result := .err e, disconnected := true, fed := fed' }
    | .panic => { result := .panic, disconnected := false, fed := fed' }
    | .ok [] => recvLoopEnc c iv' st' (pend.drop n) fed' rest
    | .ok (m :: ms) => { result := .ok (m :: ms), disconnected := false, fed := fed' }

/-- `receive()` on a connection whose decrypter is in state `iv` (`iv0` right after `connect`) -/
def receiveBytesEnc (c : BlockCipher) (iv : List Byte) (bufBlocks : Nat) (segs : List (List Byte)) : RecvOut :=
  recvLoopEnc c iv {} [] [] (reads (uwrap 32 (Gen.C.RSCP_CRYPT_BLOCK_SIZE * bufBlocks)) segs)

/-- cut `P` into pieces of the same lengths as `segs` -/
def cutLike : List (List Byte) → List Byte → List (List Byte)
  | [], _ => []
  | s :: r, P => P.take s.length :: cutLike r (P.drop s.length)

/-- what the decrypter makes of a ciphertext stream from state `iv`: the whole blocks decrypted; the bytes of
    a trailing partial block are never decrypted (they stay in `pending`), they are kept as they are -/
def plainOf (c : BlockCipher) (iv : List Byte) (C : List Byte) : List Byte :=
  let n := C.length - C.length % 32
  (decryptBlocks c iv (C.take n)).1 ++ C.drop n

end Rscp.Model
