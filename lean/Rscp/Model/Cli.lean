/-
Model of the e3dc command (cmd/e3dc/e3dc.go `main`/`run`, e3dc_help.go `parseFlags`/`checkFlags`):
the process contract — exit status, what goes to standard output, whether anything goes to standard error —
as the composition of the request parser (`Model/JsonIn`), the client state machine (`Model/Client`) and the
output formats (`Model/JsonOut`).

What the flag library and `checkFlags` decide (help, version, unusable flags/configuration/request argument) is
an input of the model (`FlagOutcome`); the correspondence stream `cli` runs the real binary for every class.
-/
import Rscp.Model.JsonIn
import Rscp.Model.JsonOut
import Rscp.Model.Client
namespace Rscp.Model
open Rscp

inductive FlagOutcome where
  | help            -- -help / -h: usage on stderr, status 0
  | version         -- -version: version on stderr, status 0
  | flagError       -- unknown flag, bad value, missing host/user/password/key/request, unreadable config or request file
  | ok
  deriving DecidableEq, Repr

structure CliEnv where
  flags : FlagOutcome
  /-- value of -output -/
  format : String
  split : Bool
  /-- the request text as a JSON tree; `none` = the text is not JSON at all -/
  request : Option J
  cred : Cred
  /-- how the device answers the authentication and then the successive request frames -/
  authReply : Reply
  replies : List Reply
  /-- the device accepts the TCP connection -/
  dialOk : Bool := true

structure CliOut where
  status : Nat
  stdout : Option JO
  stderrNonEmpty : Bool
  panicked : Bool
  /-- the frames that reached the device, in order -/
  frames : List (List Msg)

def cliFail (frames : List (List Msg)) : CliOut := { status := 1, stdout := none, stderrNonEmpty := true, panicked := false, frames := frames }
def cliPanic (frames : List (List Msg)) : CliOut := { status := 2, stdout := none, stderrNonEmpty := true, panicked := true, frames := frames }

def cliSentFrames (evs : List Ev) : List (List Msg) :=
  evs.filterMap fun e => match e with | .sent _ ms => some ms | _ => none

/-- the `-splitrequests` loop: one `Send` per top-level request, first response message of each -/
def splitLoop (cred : Cred) (auth : Reply) (dialOk : Bool) : CState → List Msg → List Reply → List Msg → List (List Msg) → Res (List Msg) × List (List Msg)
  | _, [], _, acc, fr => (.ok acc, fr)
  | st, m :: ms, replies, acc, fr =>
    let sc : Script := { dialOk := dialOk, auth := auth, user := replies.headD .ioFail }
    match send cred st m sc with
    | (st', .ok r, ev) => splitLoop cred auth dialOk st' ms replies.tail (acc ++ [r]) (fr ++ cliSentFrames ev)
    | (_, .err e, ev) => (.err e, fr ++ cliSentFrames ev)
    | (_, .panic, ev) => (.panic, fr ++ cliSentFrames ev)

/-- `run()` and the end of `main()` -/
def cliRun (lib : JsonLib) (env : CliEnv) : CliOut :=
  match env.request with
  | none => cliFail []
  | some j =>
    match requestsOfJ lib (4 * j.size + 4) j with
    | .err _ => cliFail []
    | .panic => cliPanic []
    | .ok ms =>
      let (res, frames) : Res (List Msg) × List (List Msg) :=
        if env.split then splitLoop env.cred env.authReply env.dialOk {} ms env.replies [] []
        else
          let sc : Script := { dialOk := env.dialOk, auth := env.authReply, user := env.replies.headD .ioFail }
          match sendMultiple env.cred {} ms sc with
          | (_, r, ev) => (r, cliSentFrames ev)
      match res with
      | .err _ => cliFail frames
      | .panic => cliPanic frames
      | .ok rs =>
        let doc : Option (Option JO) :=
          if env.format = "json" then some (fmtJson rs)
          else if env.format = "jsonsimple" then some (fmtSimple rs)
          else if env.format = "jsonmerged" then some (fmtMerged rs)
          else none
        match doc with
        | none => cliFail frames                                   -- output format not supported
        | some none => cliFail frames                              -- json.Marshal fails (known finding C13)
        | some (some d) => { status := 0, stdout := some d, stderrNonEmpty := false, panicked := false, frames := frames }

/-- `main()` -/
def cliMain (lib : JsonLib) (env : CliEnv) : CliOut :=
  match env.flags with
  | .help => { status := 0, stdout := none, stderrNonEmpty := true, panicked := false, frames := [] }
  | .version => { status := 0, stdout := none, stderrNonEmpty := true, panicked := false, frames := [] }
  | .flagError => cliFail []
  | .ok => cliRun lib env

end Rscp.Model
