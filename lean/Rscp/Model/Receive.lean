/-
Byte-level model of `Client.receive` (rscp/client.go): the loop that reads from the connection
into a buffer of `bufBlocks` cipher blocks, carries partial blocks over, hands whole blocks to
`Read`, and stops at the first result that is not "incomplete".

The cipher is taken out: CBC decryption of a block-aligned stream does not depend on how the
stream is cut into block-aligned pieces (`Props.C06.cbc_chunking`), so the loop is modelled on the
plaintext stream and `Read` is `Model.readPlain`.
-/
import Rscp.Model.Codec
namespace Rscp.Model
open Rscp

/-- what the loop of `receive` did -/
structure RecvOut where
  result : Res (List Msg)
  /-- the client called `Disconnect` -/
  disconnected : Bool
  /-- every byte handed to `Read`, in order -/
  fed : List Byte


/-- the pieces `conn.Read` returns for one delivered segment when the buffer holds `cap` bytes -/
def splitSeg (cap : Nat) : Nat → List Byte → List (List Byte)
  | 0, _ => []
  | f+1, seg => if seg.isEmpty then [] else if cap = 0 then [] else seg.take cap :: splitSeg cap f (seg.drop cap)

/-- all `conn.Read` results for a segmentation of the stream -/
def reads (cap : Nat) (segs : List (List Byte)) : List (List Byte) :=
  (segs.map fun s => splitSeg cap (s.length + 1) s).flatten

/-- the loop over the results of `conn.Read`; when they are used up the next `Read` fails (deadline or
    closed connection). A zero-length read (`i == 0`) ends the call as well. -/
def recvLoop (st : RState) (pending fed : List Byte) : List (List Byte) → RecvOut
  | [] => { result := .err .io, disconnected := true, fed := fed }
  | piece :: rest =>
    if piece.isEmpty then { result := .err .invalidFrameLength, disconnected := true, fed := fed } else
    let pend := pending ++ piece
    let n := pend.length - pend.length % Gen.C.RSCP_CRYPT_BLOCK_SIZE
    if n = 0 then recvLoop st pend fed rest else
    let blocks := pend.take n
    let (st', r) := readPlain st blocks
    let fed' := fed ++ blocks
    match r with
    | .err .invalidFrameLength => recvLoop st' (pend.drop n) fed' rest
    | .err e => { result := .err e, disconnected := true, fed := fed' }
    | .panic => { result := .panic, disconnected := false, fed := fed' }
    | .ok [] => recvLoop st' (pend.drop n) fed' rest        -- `m == nil`: no case of the switch matches
    | .ok (m :: ms) => { result := .ok (m :: ms), disconnected := false, fed := fed' }

/-- `receive()` for a configured buffer of `bufBlocks` blocks against a delivery `segs` of the reply stream -/
def receiveBytes (bufBlocks : Nat) (segs : List (List Byte)) : RecvOut :=
  recvLoop {} [] [] (reads (uwrap 32 (Gen.C.RSCP_CRYPT_BLOCK_SIZE * bufBlocks)) segs)

end Rscp.Model
