/-
Model of what go-rscp writes to its log (rscp/message.go `Message.String`, the log calls of
client.go / writer.go / reader.go, and the log-level juggling of `authenticate`).

`render` is `Message.String()`: `{ <tag> <data type> <value> }` with `********` for secret tags; a
container's value is rendered by `%v` of the `[]Message`, i.e. `[` + the children's `String()`
separated by blanks + `]`. How a *leaf* value prints (`%v` of an int, float, string, time, …) is a
parameter: masking must hold whatever it is.
-/
import Rscp.Base
import Rscp.Gen.Consts
import Rscp.Gen.Tags
import Rscp.Gen.Shapes
namespace Rscp.Model
open Rscp

/-- `Tag.isSecret()` -/
def isSecret (t : Nat) : Bool := Gen.secretTags.contains t

mutual
/-- `Message.String()`; `tagS`/`dtS` print tag and data type, `leaf` prints a non-container value -/
def render (tagS dtS : Nat → String) (leaf : Val → String) : Msg → String
  | .mk t d v =>
    if isSecret t then "{ " ++ tagS t ++ " " ++ dtS d ++ " " ++ Gen.C.secretReplaceString ++ " }"
    else "{ " ++ tagS t ++ " " ++ dtS d ++ " " ++ renderVal tagS dtS leaf v ++ " }"
def renderVal (tagS dtS : Nat → String) (leaf : Val → String) : Val → String
  | .msgs ms => "[" ++ renderList tagS dtS leaf ms ++ "]"
  | .nil => leaf .nil
  | .bool b => leaf (.bool b)
  | .num k n => leaf (.num k n)
  | .str bs => leaf (.str bs)
  | .bytes bs => leaf (.bytes bs)
  | .time s ns => leaf (.time s ns)
  | .other k => leaf (.other k)
def renderList (tagS dtS : Nat → String) (leaf : Val → String) : List Msg → String
  | [] => ""
  | [m] => render tagS dtS leaf m
  | m :: m' :: ms => render tagS dtS leaf m ++ " " ++ renderList tagS dtS leaf (m' :: ms)
end

mutual
/-- replace the value of every secret-tagged message, at every depth, by `nil` -/
def maskSecrets : Msg → Msg
  | .mk t d v => if isSecret t then .mk t d .nil else .mk t d (maskVal v)
def maskVal : Val → Val
  | .msgs ms => .msgs (maskList ms)
  | v => v
def maskList : List Msg → List Msg
  | [] => []
  | m :: ms => maskSecrets m :: maskList ms
end

/-- logrus levels -/
def lvlPanic : Nat := 0
def lvlInfo : Nat := 4
def lvlDebug : Nat := 5
def lvlTrace : Nat := 6

/-- a record is emitted iff its level is at most the logger's level -/
def emitted (loggerLevel recordLevel : Nat) : Bool := recordLevel ≤ loggerLevel

/-- the logger level while `authenticate` builds and sends the authentication frame:
    `Log.SetLevel(min(orgLogLevel, InfoLevel))` when `orgLogLevel < RequiredAuthLogLevel` -/
def authWindowLevel (orgLevel : Nat) : Nat :=
  if orgLevel < Gen.C.RequiredAuthLogLevel then min orgLevel lvlInfo else orgLevel

/-- what a log record shows -/
inductive Payload where
  | none            -- no message data (connection notices, hints)
  | rendered        -- messages as text through `Message.String` (secret tags masked)
  | plainDump       -- `%#v` of the plaintext frame bytes
  | cipherDump      -- `%#v` of the ciphertext
  | replyValue      -- a value of the peer's reply (`%+v` of a received message / level)
  deriving DecidableEq, Repr

/-- the log calls that execute while a frame is written (`Write` in writer.go), with level and payload -/
def writeSites : List (Nat × Payload) := [(lvlDebug, .rendered), (lvlTrace, .plainDump), (lvlTrace, .cipherDump)]

/-- every `Log.…` call of package rscp as the translator lists them (function:method:format…), classified by
    hand; `Tie/Log.lean` freezes the generated list, so a new or changed log call breaks the tie -/
def siteClass : List (String × Nat × Payload) := [
  ("Client.Disconnect:Info", lvlInfo, .none),
  ("Client.authenticate:Infof:hiding", lvlInfo, .none),
  ("Client.authenticate:Warnf:Hint", 3, .none),
  ("Client.authenticate:Infof:successfully authenticated", lvlInfo, .replyValue),
  ("Client.connect:Infof:Connecting", lvlInfo, .none),
  ("Client.connect:Infof:successfully connected", lvlInfo, .none),
  ("Read:Tracef:read plain", lvlTrace, .plainDump),
  ("Read:Tracef:read %s", lvlTrace, .rendered),
  ("Write:Debugf:write %s", lvlDebug, .rendered),
  ("Write:Tracef:write plain", lvlTrace, .plainDump),
  ("Write:Tracef:write crypt", lvlTrace, .cipherDump),
  ("readMessage:Warnf:unknown tag", 3, .none),
  ("readMessage:DebugFn", lvlDebug, .replyValue)]

end Rscp.Model
