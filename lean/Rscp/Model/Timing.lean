/-
Blocking operations of a client call and their time budgets (rscp/client.go): `connect` dials with
`ConnectionTimeout`; `send` sets ONE write deadline `now + SendTimeout` and writes once; `receive`
sets ONE read deadline `now + ReceiveTimeout` before its loop and never re-arms it.

`sendMultipleIO` is `Model.sendMultiple` with a log of the blocking operations it performs
(`sendMultipleIO_fst` proves it is the same machine). Time is logical: the runtime assumption —
recorded in the trusted base — is that every blocking operation returns no later than its deadline.
-/
import Rscp.Model.Client
import Rscp.Model.Config
namespace Rscp.Model
open Rscp

/-- a blocking operation -/
inductive Blk where
  | dial | write | recv
  deriving DecidableEq, Repr, Inhabited

def sendFrameIO (st : CState) (ms : List Msg) (writeOk : Bool) (reply : Reply) : (CState × Res Unit × List Ev) × List Blk :=
  (sendFrame st ms writeOk reply,
   match st.conn, validateRequests ms with
   | some _, .ok () => [.write]
   | _, _ => [])

def receiveIO (st : CState) : (CState × Res (List Msg) × List Ev) × List Blk :=
  (receive st, match st.conn with | some _ => [.recv] | none => [])

def authenticateIO (cred : Cred) (st : CState) (sc : Script) : (CState × Res Unit × List Ev) × List Blk :=
  match sendFrameIO st (authRequest cred.user cred.password) sc.writeOk sc.auth with
  | ((st1, .ok (), _), io1) => (authenticate cred st sc, io1 ++ (receiveIO st1).2)
  | (_, io1) => (authenticate cred st sc, io1)

/-- the blocking operations of one `SendMultiple` call, in order -/
def sendMultipleIO (cred : Cred) (st : CState) (reqs : List Msg) (sc : Script) : (CState × Res (List Msg) × List Ev) × List Blk :=
  let r := sendMultiple cred st reqs sc
  let dialIO : List Blk := match st.conn with | some _ => [] | none => [.dial]
  if st.conn.isNone && !sc.dialOk then (r, dialIO) else
  let st0 : CState := match st.conn with
    | some _ => st
    | none => { st with conn := some (st.conns, []), conns := st.conns + 1 }
  let (a, aio) := if st0.authed then ((st0, Res.ok (), ([] : List Ev)), ([] : List Blk)) else authenticateIO cred st0 sc
  match a with
  | (st1, .ok (), _) =>
    match sendFrameIO st1 reqs sc.writeOk sc.user with
    | ((st2, .ok (), _), io2) => (r, dialIO ++ aio ++ io2 ++ (receiveIO st2).2)
    | (_, io2) => (r, dialIO ++ aio ++ io2)
  | _ => (r, dialIO ++ aio)

/-- the budget the code gives each operation (nanoseconds, from the effective configuration) -/
def budget (c : Config) : Blk → Int
  | .dial => c.connTimeout
  | .write => c.sendTimeout
  | .recv => c.recvTimeout

/-- One `receive` under a single absolute deadline `t0 + R`: the adversary proposes completion times for the
    successive reads; a read completes at its proposed time if that is before the deadline, otherwise it fails
    at the deadline and the loop ends. Returns the time `receive` returns. `frameDoneAfter` = number of reads
    after which a frame is complete (if ever). -/
def recvReturnsAt (R t0 : Int) : List Int → Nat → Int
  | [], _ => t0 + R                      -- nothing more arrives: the pending read fails at the deadline
  | a :: rest, k =>
    if a ≥ t0 + R then t0 + R            -- this read runs into the deadline
    else match k with
      | 0 => a                            -- the frame is complete with this read
      | k+1 => recvReturnsAt R t0 rest k

/-- the same loop if the deadline were re-armed before every read (what the code must NOT do) -/
def recvReturnsAtRearmed (R : Int) : Int → List Int → Nat → Int
  | t, [], _ => t + R
  | t, a :: rest, k =>
    if a ≥ t + R then t + R
    else match k with
      | 0 => a
      | k+1 => recvReturnsAtRearmed R a rest k

end Rscp.Model
