/-
Model of the RSCP codec of go-rscp as the code is written (rscp/writer.go, reader.go,
message.go, message_helpers.go, datatype_*.go): the TLV item writer and reader, the frame
writer, and `Read` as a state machine over plaintext chunks.

Tables, constants and the leaf conditions/arithmetic come from the regenerated `Rscp.Gen.*`;
the control skeleton is hand-written and tied to the source by shape fingerprints
(`Rscp.Tie.*`) and by differential execution (harness stream `codec`).

Every Go operation that can panic is an explicit `.panic` outcome. Running out of fuel is
mapped to `.panic` as well, so "never panics" also says the recursion terminates within the
fuel handed in (input length + 2).
-/
import Rscp.Base
import Rscp.Gen.Consts
import Rscp.Gen.DataTypes
import Rscp.Gen.Leaves
import Rscp.Model.Crc

namespace Rscp.Model
open Rscp

/-! ## table access, as Go map lookups behave -/

/-- `DataType.length()`: a missing key yields the zero value -/
def dtLength (dt : Nat) : Nat := (lookup dt Gen.lengthMap).getD 0

/-- `DataType.IsADataType()` -/
def isADataType (dt : Nat) : Bool := Gen.dataTypeValues.contains dt

/-- `DataType.newEmpty`: the Go type of the freshly allocated value; `none` = no table entry
    (after the fix: returns nil, like `None`) -/
def newEmptyKind (dt : Nat) : Kind := (lookup dt Gen.newEmptyKind).getD .nil

/-- `DataType.isValidValue` -/
def isValidValue (dt : Nat) (v : Val) : Bool :=
  match lookup dt Gen.validateKind with
  | none => false
  | some k => v.kind == k

/-! ## sizes -/

mutual
/-- `Message.valueSize()` — uint16, truncating, panics on a value it does not know -/
def valueSize16 (dt : Nat) : Val → Res Nat
  | .nil => if Gen.Leaf.valueSize_isVariable (dtLength dt) dt then .ok 0 else .ok (dtLength dt)
  | .str bs => if Gen.Leaf.valueSize_isVariable (dtLength dt) dt then .ok (uwrap 16 bs.length) else .ok (dtLength dt)
  | .bytes bs => if Gen.Leaf.valueSize_isVariable (dtLength dt) dt then .ok (uwrap 16 bs.length) else .ok (dtLength dt)
  | .msgs ms => if Gen.Leaf.valueSize_isVariable (dtLength dt) dt then msgsSize16 ms else .ok (dtLength dt)
  | .bool _ => if Gen.Leaf.valueSize_isVariable (dtLength dt) dt then .panic else .ok (dtLength dt)
  | .num _ _ => if Gen.Leaf.valueSize_isVariable (dtLength dt) dt then .panic else .ok (dtLength dt)
  | .time _ _ => if Gen.Leaf.valueSize_isVariable (dtLength dt) dt then .panic else .ok (dtLength dt)
  | .other _ => if Gen.Leaf.valueSize_isVariable (dtLength dt) dt then .panic else .ok (dtLength dt)
/-- `messagesSize` — accumulates in uint16 -/
def msgsSize16 : List Msg → Res Nat
  | [] => .ok 0
  | m :: ms =>
    match msgSize16 m with
    | .ok a => match msgsSize16 ms with
      | .ok b => .ok (uwrap 16 (a + b))
      | .err e => .err e
      | .panic => .panic
    | .err e => .err e
    | .panic => .panic
def msgSize16 : Msg → Res Nat
  | .mk _ dt v =>
    match valueSize16 dt v with
    | .ok s => .ok (uwrap 16 (Gen.C.RSCP_DATA_HEADER_SIZE + s))
    | .err e => .err e
    | .panic => .panic
end

mutual
/-- `Message.size()` — the untruncated size, total -/
def valueSizeWide (dt : Nat) : Val → Nat
  | .str bs => if Gen.Leaf.size_isVariable (dtLength dt) dt then bs.length else dtLength dt
  | .bytes bs => if Gen.Leaf.size_isVariable (dtLength dt) dt then bs.length else dtLength dt
  | .msgs ms => if Gen.Leaf.size_isVariable (dtLength dt) dt then msgsSizeWide ms else dtLength dt
  | .nil => if Gen.Leaf.size_isVariable (dtLength dt) dt then 0 else dtLength dt
  | .bool _ => if Gen.Leaf.size_isVariable (dtLength dt) dt then 0 else dtLength dt
  | .num _ _ => if Gen.Leaf.size_isVariable (dtLength dt) dt then 0 else dtLength dt
  | .time _ _ => if Gen.Leaf.size_isVariable (dtLength dt) dt then 0 else dtLength dt
  | .other _ => if Gen.Leaf.size_isVariable (dtLength dt) dt then 0 else dtLength dt
/-- `messagesWideSize` -/
def msgsSizeWide : List Msg → Nat
  | [] => 0
  | m :: ms => msgSizeWide m + msgsSizeWide ms
def msgSizeWide : Msg → Nat
  | .mk _ dt v => Gen.C.RSCP_DATA_HEADER_SIZE + valueSizeWide dt v
end

/-! ## validation (message.go, request.go) -/

mutual
/-- `Message.validate()` -/
def validateMsg : Msg → Res Unit
  | .mk _ dt (.msgs ms) =>
    if !isValidValue dt (.msgs ms) then .err .typeMismatch
    else if Gen.Leaf.validate_tooLong (valueSizeWide dt (.msgs ms)) then .err .dataLimit
    else if dt = Gen.C.Container then validateMsgs ms
    else .ok ()
  | .mk _ dt v =>
    if !isValidValue dt v then .err .typeMismatch
    else if Gen.Leaf.validate_tooLong (valueSizeWide dt v) then .err .dataLimit
    else if dt = Gen.C.Container then .panic    -- `m.Value.([]Message)` unchecked assertion
    else .ok ()
def validateMsgs : List Msg → Res Unit
  | [] => .ok ()
  | m :: ms =>
    match validateMsg m with
    | .ok () => validateMsgs ms
    | .err e => .err e
    | .panic => .panic
end

/-- `validateRequest` for each message, then the total size check — `validateRequests` -/
def validateRequests (ms : List Msg) : Res Unit :=
  let rec go : List Msg → Res Unit
    | [] => .ok ()
    | m :: r =>
      if !Gen.Leaf.isRequest m.tag then .err .notARequest
      else match validateMsg m with
        | .ok () => go r
        | .err e => .err e
        | .panic => .panic
  match go ms with
  | .ok () => if Gen.Leaf.validateRequests_tooLong (msgsSizeWide ms) then .err .dataLimit else .ok ()
  | r => r

/-! ## writer -/

mutual
/-- `write(buf, v)` for a message value -/
def encVal : Val → Res (List Byte)
  | .nil => .ok []
  | .bool b => .ok [if b then 1 else 0]
  | .num k n =>
    match k.width with
    | some w => .ok (leBytes w (toUnsigned w n))
    | none => .err .other
  | .str bs => .ok bs
  | .bytes bs => .ok bs
  | .time s ns => .ok (leBytes 8 (toUnsigned 8 s) ++ leBytes 4 (toUnsigned 4 ns))
  | .msgs ms => encMsgs ms
  | .other _ => .err .other
/-- `writeMessage` -/
def encMsg : Msg → Res (List Byte)
  | .mk tag dt v =>
    match valueSize16 dt v with
    | .ok l =>
      match encVal v with
      | .ok body => .ok (leBytes 4 tag ++ leBytes 1 dt ++ leBytes 2 l ++ body)
      | .err e => .err e
      | .panic => .panic
    | .err e => .err e
    | .panic => .panic
def encMsgs : List Msg → Res (List Byte)
  | [] => .ok []
  | m :: ms =>
    match encMsg m with
    | .ok a => match encMsgs ms with
      | .ok b => .ok (a ++ b)
      | .err e => .err e
      | .panic => .panic
    | .err e => .err e
    | .panic => .panic
end

/-- the control word `writeFrame` assembles -/
def ctrlWord (useCrc : Bool) : Nat :=
  if useCrc then Gen.Leaf.writeFrame_ctrlCrcOn Gen.Leaf.writeFrame_ctrlBase
  else Gen.Leaf.writeFrame_ctrlCrcOff Gen.Leaf.writeFrame_ctrlBase

/-- `writeFrame` at wall-clock time `(sec, nsec)` -/
def writeFrame (ms : List Msg) (useCrc : Bool) (sec nsec : Int) : Res (List Byte) :=
  match msgsSize16 ms with
  | .ok l =>
    match encMsgs ms with
    | .ok body =>
      let pre := leBytes 2 Gen.C.RSCP_MAGIC ++ leBytes 2 (ctrlWord useCrc) ++
        leBytes 8 (toUnsigned 8 sec) ++ leBytes 4 (toUnsigned 4 nsec) ++ leBytes 2 l ++ body
      .ok (if useCrc then pre ++ leBytes 4 (Crc.crc32 pre) else pre)
    | .err e => .err e
    | .panic => .panic
  | .err e => .err e
  | .panic => .panic

/-- zero padding to the cipher block size, as `Write` does before encrypting -/
def pad (d : List Byte) : List Byte :=
  if Gen.Leaf.Write_needsPadding d.length then
    d ++ List.replicate (Gen.C.RSCP_CRYPT_BLOCK_SIZE - d.length % Gen.C.RSCP_CRYPT_BLOCK_SIZE) 0
  else d

/-- the plaintext `Write` hands to the cipher -/
def writePlain (ms : List Msg) (useCrc : Bool) (sec nsec : Int) : Res (List Byte) :=
  match writeFrame ms useCrc sec nsec with
  | .ok d => .ok (pad d)
  | .err e => .err e
  | .panic => .panic

/-! ## reader -/

/-- `time.Unix(sec, nsec)` followed by `.Unix()` / `.Nanosecond()`: the normalisation of the
    nanosecond field, in wrapping int64 arithmetic -/
def normTime (sec nsec : Int) : Int × Int :=
  if nsec < 0 ∨ nsec ≥ 1000000000 then
    let n := Int.tdiv nsec 1000000000
    let sec1 := swrap 64 (sec + n)
    let nsec1 := nsec - n * 1000000000
    if nsec1 < 0 then (swrap 64 (sec1 - 1), nsec1 + 1000000000) else (sec1, nsec1)
  else (sec, nsec)

/-- value of a fixed-width kind from exactly `width` bytes -/
def decNum (k : Kind) (w : Nat) (bs : List Byte) : Val :=
  .num k (if k.signed then toSigned w (leNat bs) else (leNat bs : Int))

/-- split off `n` bytes or fail like `io.ReadFull` on a short reader -/
def takeN (n : Nat) (bs : List Byte) : Res (List Byte × List Byte) :=
  if bs.length < n then .err .eof else .ok (bs.take n, bs.drop n)

mutual
/-- `readMessage(buf)` on the remaining bytes `bs`; returns the message and the rest -/
def readMsg : Nat → List Byte → Res (Msg × List Byte)
  | 0, _ => .panic
  | f+1, bs =>
    match takeN Gen.C.RSCP_DATA_TAG_SIZE bs with
    | .ok (tb, r1) =>
      match takeN Gen.C.RSCP_DATA_DATATYPE_SIZE r1 with
      | .ok (db, r2) =>
        let tag := leNat tb
        let dt := leNat db
        if !isADataType dt then .err .invalidDataType else
        match takeN Gen.C.RSCP_DATA_LENGTH_SIZE r2 with
        | .ok (lb, r3) =>
          let l := leNat lb
          if Gen.Leaf.readMessage_tooLong l then .err .dataLimit
          else if Gen.Leaf.readMessage_lenMismatch (dtLength dt) dt l then .err .dataLimit
          else
            match newEmptyKind dt with
            | .nil => .ok (.mk tag dt .nil, r3)
            | .bool =>
              match takeN 1 r3 with
              | .ok (vb, r4) => .ok (.mk tag dt (.bool (leNat vb != 0)), r4)
              | .err e => .err e
              | .panic => .panic
            | .str =>
              match takeN l r3 with
              | .ok (vb, r4) => .ok (.mk tag dt (.str vb), r4)
              | .err e => .err e
              | .panic => .panic
            | .bytes =>
              match takeN l r3 with
              | .ok (vb, r4) => .ok (.mk tag dt (.bytes vb), r4)
              | .err e => .err e
              | .panic => .panic
            | .time =>
              match takeN 8 r3 with
              | .ok (sb, r4) =>
                match takeN 4 r4 with
                | .ok (nb, r5) =>
                  let (s, ns) := normTime (toSigned 8 (leNat sb)) (toSigned 4 (leNat nb))
                  .ok (.mk tag dt (.time s ns), r5)
                | .err e => .err e
                | .panic => .panic
              | .err e => .err e
              | .panic => .panic
            | .msgs =>
              match readMsgs f r3 ((r3.length : Int) - (l : Int)) [] with
              | .ok (ms, r4) => .ok (.mk tag dt (.msgs ms), r4)
              | .err e => .err e
              | .panic => .panic
            | .other => .panic
            | k =>
              match k.width with
              | some w =>
                match takeN w r3 with
                | .ok (vb, r4) => .ok (.mk tag dt (decNum k w vb), r4)
                | .err e => .err e
                | .panic => .panic
              | none => .panic
        | .err e => .err e
        | .panic => .panic
      | .err e => .err e
      | .panic => .panic
    | .err e => .err e
    | .panic => .panic
/-- the `*[]Message` case of `read`: `for buf.Len() > s { readMessage }` and the position check
    after the loop; `s` is the reader length at which the container ends -/
def readMsgs : Nat → List Byte → Int → List Msg → Res (List Msg × List Byte)
  | 0, _, _, _ => .panic
  | f+1, bs, s, acc =>
    if (bs.length : Int) > s then
      match readMsg f bs with
      | .ok (m, r) => readMsgs f r s (acc ++ [m])
      | .err e => .err e
      | .panic => .panic
    else if (bs.length : Int) ≠ s then .err .dataLimit
    else .ok (acc, bs)
end

/-- the variables `Read` threads through its calls -/
structure RState where
  buf : List Byte := []
  crcFlag : Bool := false
  frameSize : Nat := 0
  dataSize : Nat := 0
  deriving Repr, DecidableEq

/-- `readHeader(data)`; `data` holds at least the 18 header bytes whenever `Read` calls it -/
def readHeader (data : List Byte) : Res (Bool × Nat × Nat) :=
  if data.length < Gen.C.RSCP_FRAME_HEADER_SIZE then .panic else
  let magic := leNat ((data.drop Gen.C.RSCP_FRAME_MAGIC_POS).take 2)
  if Gen.Leaf.readHeader_badMagic magic then .err .invalidMagic else
  let c := leNat ((data.drop Gen.C.RSCP_FRAME_CTRL_POS).take 2)
  if Gen.Leaf.readHeader_badCtrl c then .err .invalidControl else
  if Gen.Leaf.readHeader_badVersion c then .err .versionMismatch else
  let dataSize := leNat ((data.drop Gen.C.RSCP_FRAME_LENGTH_POS).take 2)
  .ok (Gen.Leaf.readHeader_crcFlag c, Gen.Leaf.readHeader_frameSize dataSize c, dataSize)

/-- the loop of `truncatePadding` on the reversed buffer: `i` is the current length -/
def stripRev : List Byte → Nat → Nat → List Byte
  | [], _, _ => []
  | b :: r, i, fs =>
    if Gen.Leaf.truncatePadding_loop i fs b.toNat then stripRev r (i - 1) fs else b :: r

/-- `truncatePadding`: the buffer it leaves behind and whether it reports trailing data -/
def truncatePadding (buf : List Byte) (fs : Nat) : List Byte × Bool :=
  let r := (stripRev buf.reverse buf.length fs).reverse
  (r, Gen.Leaf.truncatePadding_trailing r.length fs)

/-- the part of `Read` that runs once the buffer covers the frame -/
def decodeComplete (buf : List Byte) (crcFlag : Bool) (frameSize dataSize : Nat) : Res (List Msg) :=
  let r := buf.drop Gen.C.RSCP_FRAME_HEADER_SIZE
  match readMsgs (r.length + 2) r ((r.length : Int) - (dataSize : Int)) [] with
  | .ok (ms, rest) =>
    if crcFlag then
      let crc := match takeN Gen.C.RSCP_FRAME_CRC_SIZE rest with
        | .ok (cb, _) => leNat cb
        | _ => 0      -- the error of this read is ignored; crc keeps its zero value
      if frameSize < Gen.C.RSCP_FRAME_CRC_SIZE ∨ buf.length < frameSize - Gen.C.RSCP_FRAME_CRC_SIZE then .panic  -- slice bounds
      else if Gen.Leaf.Read_badCrc crc (Crc.crc32 (buf.take (frameSize - Gen.C.RSCP_FRAME_CRC_SIZE))) then .err .invalidCrc
      else .ok ms
    else .ok ms
  | .err e => .err e
  | .panic => .panic

/-- `Read` on one already decrypted chunk -/
def readPlain (st : RState) (data : List Byte) : RState × Res (List Msg) :=
  if Gen.Leaf.Read_badChunk data.length then (st, .err .invalidFrameLength) else
  let hdr : RState × Option ErrClass × Bool :=
    if st.buf.isEmpty then
      match readHeader data with
      | .ok (cf, fs, ds) => ({ buf := [], crcFlag := cf, frameSize := fs, dataSize := ds }, none, false)
      | .err e => ({ buf := st.buf, crcFlag := false, frameSize := 0, dataSize := 0 }, some e, false)
      | .panic => (st, none, true)
    else (st, none, false)
  match hdr with
  | (st1, _, true) => (st1, .panic)
  | (st1, some e, false) => (st1, .err e)
  | (st1, none, false) =>
    let buf := st1.buf ++ data
    if Gen.Leaf.Read_complete buf.length st1.frameSize then
      let (buf', trailing) := truncatePadding buf st1.frameSize
      let st2 := { st1 with buf := buf' }
      if trailing then (st2, .err .invalidFrameLength)
      else (st2, decodeComplete buf' st1.crcFlag st1.frameSize st1.dataSize)
    else ({ st1 with buf := buf }, .err .invalidFrameLength)

/-- one-shot decoding of a complete plaintext: what `Read` returns on a fresh state -/
def decodeFrame (plain : List Byte) : Res (List Msg) := (readPlain {} plain).2

/-- feed a sequence of plaintext chunks; the results of all calls -/
def readChunks : RState → List (List Byte) → List (Res (List Msg))
  | _, [] => []
  | st, c :: cs => let (st', r) := readPlain st c; r :: readChunks st' cs

/-- `readChunks` with abandoned frames: `none` stands for "the caller gives the frame in progress up and
    empties its buffer" - it keeps its other decoder variables, which is all the decoder asks of it -/
def readChunksAbandon : RState → List (Option (List Byte)) → List (Res (List Msg))
  | _, [] => []
  | st, none :: cs => readChunksAbandon { st with buf := [] } cs
  | st, some c :: cs => let (st', r) := readPlain st c; r :: readChunksAbandon st' cs

end Rscp.Model
