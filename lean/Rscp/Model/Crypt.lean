/-
Model of the crypto glue (rscp/crypt.go) and of CBC chaining as `crypto/cipher` performs it
around an abstract block cipher. Rijndael-256 itself is a parameter: a pair of functions on
32-byte blocks with the recorded assumption `D (E b) = b` (`BlockCipher.OK`).
-/
import Rscp.Base
import Rscp.Gen.Consts
namespace Rscp.Model
open Rscp

/-- `createAESKey(key)`: `n := copy(aesKey[:], key)` copies at most 32 bytes, the rest is padding -/
def mkKey (key : List Byte) : List Byte :=
  let n := min Gen.C.keySize key.length
  key.take n ++ List.replicate (Gen.C.keySize - n) (UInt8.ofNat Gen.C.RSCP_CRYPT_KEY_PADDING)

/-- `newIV()` -/
def iv0 : List Byte := List.replicate Gen.C.RSCP_CRYPT_BLOCK_SIZE (UInt8.ofNat Gen.C.RSCP_CRYPT_IV_PADDING)

/-- an abstract block cipher under one fixed key -/
structure BlockCipher where
  E : List Byte → List Byte
  D : List Byte → List Byte

/-- the assumption about the cipher: blocks stay blocks, decryption inverts encryption -/
def BlockCipher.OK (c : BlockCipher) : Prop :=
  ∀ b : List Byte, b.length = 32 → (c.E b).length = 32 ∧ c.D (c.E b) = b

def xorBlock (a b : List Byte) : List Byte := List.zipWith (· ^^^ ·) a b

/-- CBC encryption of a list of blocks from chaining state `iv`: ciphertext blocks and the new state -/
def cbcEnc (c : BlockCipher) : List Byte → List (List Byte) → List (List Byte) × List Byte
  | iv, [] => ([], iv)
  | iv, b :: bs =>
    let x := c.E (xorBlock b iv)
    let (r, s) := cbcEnc c x bs
    (x :: r, s)

/-- CBC decryption -/
def cbcDec (c : BlockCipher) : List Byte → List (List Byte) → List (List Byte) × List Byte
  | iv, [] => ([], iv)
  | iv, x :: xs =>
    let p := xorBlock (c.D x) iv
    let (r, s) := cbcDec c x xs
    (p :: r, s)

/-- a whole stream of frames (each a list of blocks) through one encrypter -/
def encFrames (c : BlockCipher) : List Byte → List (List (List Byte)) → List (List (List Byte)) × List Byte
  | iv, [] => ([], iv)
  | iv, f :: fs =>
    let (x, s) := cbcEnc c iv f
    let (r, s') := encFrames c s fs
    (x :: r, s')

def decFrames (c : BlockCipher) : List Byte → List (List (List Byte)) → List (List (List Byte)) × List Byte
  | iv, [] => ([], iv)
  | iv, f :: fs =>
    let (x, s) := cbcDec c iv f
    let (r, s') := decFrames c s fs
    (x :: r, s')

/-- cut a byte string into 32-byte blocks (the last one may be short) -/
def blocksOf : Nat → List Byte → List (List Byte)
  | 0, _ => []
  | f+1, bs => if bs.isEmpty then [] else bs.take 32 :: blocksOf f (bs.drop 32)

def toBlocks (bs : List Byte) : List (List Byte) := blocksOf (bs.length + 1) bs

end Rscp.Model
