/-
Model of `ClientConfig.check()` and `NewClient` (rscp/client_config.go, client.go): required
fields, defaults, the type of the checksum option. Conditions and default values come from the
regenerated leaves and `Gen.defaultClientConfig`.
-/
import Rscp.Base
import Rscp.Gen.Consts
import Rscp.Gen.Misc
import Rscp.Gen.Leaves
import Rscp.Model.Crypt
namespace Rscp.Model
open Rscp

/-- the `UseChecksum interface{}` option -/
inductive CsOpt where
  | unset              -- nil
  | bool (b : Bool)
  | otherType          -- any other Go type
  deriving DecidableEq, Repr

/-- `ClientConfig`; durations in nanoseconds -/
structure Config where
  address : List Byte
  port : Nat
  username : List Byte
  password : List Byte
  key : List Byte
  heartbeat : Int
  connTimeout : Int
  sendTimeout : Int
  recvTimeout : Int
  useChecksum : CsOpt
  bufBlocks : Nat
  deriving DecidableEq, Repr

inductive CheckRes where
  | ok (c : Config)
  | missing (fields : List String)    -- "missing config values: …"
  | badChecksumType
  deriving DecidableEq, Repr

def dflt (name : String) : Int := (lookupStr name Gen.defaultClientConfig).getD 0

/-- `ClientConfig.check()` -/
def checkConfig (c : Config) : CheckRes :=
  let missing :=
    (if Gen.Leaf.check_noAddress c.address.length then ["address"] else []) ++
    (if Gen.Leaf.check_noUsername c.username.length then ["username"] else []) ++
    (if Gen.Leaf.check_noPassword c.password.length then ["password"] else []) ++
    (if Gen.Leaf.check_noKey c.key.length then ["key"] else [])
  if Gen.Leaf.check_anyMissing missing.length then .missing missing else
  let c := if Gen.Leaf.check_portUnset c.port then { c with port := (dflt "Port").toNat } else c
  let c := if Gen.Leaf.check_heartbeatUnset c.heartbeat then { c with heartbeat := dflt "HeartbeatInterval" } else c
  let c := if Gen.Leaf.check_connTimeoutUnset c.connTimeout then { c with connTimeout := dflt "ConnectionTimeout" } else c
  let c := if Gen.Leaf.check_sendTimeoutUnset c.sendTimeout then { c with sendTimeout := dflt "SendTimeout" } else c
  let c := if Gen.Leaf.check_recvTimeoutUnset c.recvTimeout then { c with recvTimeout := dflt "ReceiveTimeout" } else c
  let c := if Gen.Leaf.check_bufBlocksUnset c.bufBlocks then { c with bufBlocks := (dflt "ReceiveBufferBlockSize").toNat } else c
  match c.useChecksum with
  | .otherType => .badChecksumType
  | .unset => .ok { c with useChecksum := .bool (dflt "UseChecksum" != 0) }
  | .bool _ => .ok c

/-- `NewClient(config)`: the effective configuration and the cipher key, or the error of `check` -/
def newClient (c : Config) : Res (Config × List Byte) :=
  match checkConfig c with
  | .ok c' => .ok (c', mkKey c'.key)
  | .missing _ => .err .other
  | .badChecksumType => .err .other

end Rscp.Model
