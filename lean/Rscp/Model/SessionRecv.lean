/-
The inbound direction of one connection over its lifetime, at ciphertext level: the client keeps ONE CBC
decrypter per connection (`resetCipher` in `connect`), `Read` advances it by every block it decrypts, and
`receive()` is called once per exchange. This file extends `Model/ReceiveEnc.lean` with the decrypter state a
call of `receive()` leaves behind, and runs a sequence of calls on it.
-/
import Rscp.Model.ReceiveEnc
namespace Rscp.Model
open Rscp

/-- `recvLoopEnc` that also returns the decrypter's chaining state when the call ends -/
def recvLoopEncSt (c : BlockCipher) (iv : List Byte) (st : RState) (pending fed : List Byte) :
    List (List Byte) → RecvOut × List Byte
  | [] => ({ result := .err .io, disconnected := true, fed := fed }, iv)
  | piece :: rest =>
    if piece.isEmpty then ({ result := .err .invalidFrameLength, disconnected := true, fed := fed }, iv) else
    let pend := pending ++ piece
    let n := pend.length - pend.length % Gen.C.RSCP_CRYPT_BLOCK_SIZE
    if n = 0 then recvLoopEncSt c iv st pend fed rest else
    let (plain, iv') := decryptBlocks c iv (pend.take n)
    let (st', r) := readPlain st plain
    let fed' := fed ++ plain
    match r with
    | .err .invalidFrameLength => recvLoopEncSt c iv' st' (pend.drop n) fed' rest
    | .err e => ({ result := .err e, disconnected := true, fed := fed' }, iv')
    | .panic => ({ result := .panic, disconnected := false, fed := fed' }, iv')
    | .ok [] => recvLoopEncSt c iv' st' (pend.drop n) fed' rest
    | .ok (m :: ms) => ({ result := .ok (m :: ms), disconnected := false, fed := fed' }, iv')

/-- one call of `receive()` on a connection whose decrypter is in state `iv`: what the caller sees and the state
    the decrypter is left in -/
def receiveEncSt (c : BlockCipher) (iv : List Byte) (bufBlocks : Nat) (segs : List (List Byte)) : RecvOut × List Byte :=
  recvLoopEncSt c iv {} [] [] (reads (uwrap 32 (Gen.C.RSCP_CRYPT_BLOCK_SIZE * bufBlocks)) segs)

/-- successive calls of `receive()` on one connection: call `k` gets the delivery `deliveries[k]` (what arrives
    between its start and its end); the decrypter state is carried from call to call. The run stops at the
    first call after which the client has disconnected (a new connection starts from a fresh decrypter). -/
def receiveCalls (c : BlockCipher) (bufBlocks : Nat) : List Byte → List (List (List Byte)) → List RecvOut
  | _, [] => []
  | iv, segs :: rest =>
    let (o, iv') := receiveEncSt c iv bufBlocks segs
    if o.disconnected then [o] else o :: receiveCalls c bufBlocks iv' rest

/-- the peer's side of the same direction: frames (plaintext, whole blocks) written one after the other on ONE
    CBC encrypter; returns the ciphertext of each frame -/
def peerWrites (c : BlockCipher) : List Byte → List (List Byte) → List (List Byte)
  | _, [] => []
  | iv, p :: rest =>
    let (ct, iv') := cbcEnc c iv (toBlocks p)
    ct.flatten :: peerWrites c iv' rest

end Rscp.Model
