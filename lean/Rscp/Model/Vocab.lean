/-
Model of the vocabulary functions: the enumer-generated lookups of `Tag` and `DataType`
(tag_enumer.go, datatype_enumer.go), `Tag.DataType()` and the JSON (un)marshalling of both
(tag_functions.go, datatype_enumer.go). All tables are the regenerated `Rscp.Gen.*`.
-/
import Rscp.Base
import Rscp.Gen.Consts
import Rscp.Gen.Tags
import Rscp.Gen.DataTypes
import Rscp.Gen.Leaves
namespace Rscp.Model
open Rscp

/-- Names as numbers: the bytes of the name as a base-256 number behind a leading 1. Injective; the
    translator computes the same code for every name of the generated tables. -/
def nameCode (s : String) : Nat := s.toUTF8.toList.foldl (fun a b => a * 256 + b.toNat) 1

/-- `_TagMap` lookup: the (code of the) name of a known tag -/
def tagName? (t : Nat) : Option Nat := lookup t Gen.tagMapC
/-- `Tag.IsATag()` -/
def isATag (t : Nat) : Bool := (tagName? t).isSome
/-- `TagString(s)` on the code of `s` -/
def tagStringC? (c : Nat) : Option Nat := lookup c Gen.tagNameToValueC
/-- `TagString(s)` -/
def tagString? (s : String) : Option Nat := tagStringC? (nameCode s)

/-- `strconv.ParseUint(s, 10, bits)`: decimal digits only, non-empty, value below `2^bits` -/
def parseDec (bits : Nat) (s : String) : Option Nat :=
  let cs := s.toList
  if cs.isEmpty || !cs.all Char.isDigit then none else
  let n := cs.foldl (fun a c => 10 * a + (c.toNat - 48)) 0
  if n < 2 ^ bits then some n else none

/-- the JSON string `Tag.MarshalJSON` writes, as a code: the name of a known tag, else the decimal number -/
def tagMarshalC (t : Nat) : Nat :=
  match tagName? t with
  | some c => c
  | none => nameCode (toString t)

/-- `Tag.UnmarshalJSON` on a JSON string `s`: a known name, else a decimal number below 2^32 -/
def tagUnmarshalStr (s : String) : Option Nat :=
  match tagString? s with
  | some n => some n
  | none => parseDec 32 s

/-- `Tag.UnmarshalJSON` on a JSON number (`json.Unmarshal` into a uint32) -/
def tagUnmarshalNum (n : Nat) : Option Nat := if n < 2 ^ 32 then some n else none

/-- `DataType.String()` for a defined data type -/
def dataTypeName? (d : Nat) : Option String :=
  (Gen.dataTypeNameToValue.find? (fun p => p.2 == d)).map (·.1)
/-- `DataTypeString(s)` -/
def dataTypeString? (s : String) : Option Nat := lookupStr s Gen.dataTypeNameToValue
/-- `DataType.IsADataType()` -/
def isDataType (d : Nat) : Bool := Gen.dataTypeValues.contains d

end Rscp.Model
