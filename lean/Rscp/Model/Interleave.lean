/-
Interference model for C17: a system of agents (clients with their peers, codec loops with their cipher
states). An agent's step is a function of ITS OWN component (and of the read-only tables, which are
constants of the model) — that is what "no shared package state is written" means, and it is what the
regenerated list `Gen.Shape.rscpGlobalWrites = []` ties to the source.
-/
import Rscp.Base
namespace Rscp.Model

/-- one agent: local state `σ`, actions `α`, outputs `ω` -/
structure Agent (σ α ω : Type) where
  step : σ → α → σ × ω

/-- run an agent alone -/
def Agent.solo {σ α ω} (a : Agent σ α ω) : σ → List α → List ω
  | _, [] => []
  | s, x :: xs => let (s', o) := a.step s x; o :: a.solo s' xs

/-- run a schedule of (agent id, action) pairs over the family of components; every step reads and writes the
    component of its agent only -/
def Agent.global {σ α ω} (a : Agent σ α ω) : (Nat → σ) → List (Nat × α) → List (Nat × ω)
  | _, [] => []
  | g, (i, x) :: rest =>
    let (s', o) := a.step (g i) x
    (i, o) :: a.global (fun j => if j = i then s' else g j) rest

end Rscp.Model
