/-
Model of the JSON output of the e3dc command (cmd/e3dc/json_output.go, e3dc.go `run`): the three
formats `json`, `jsonsimple`, `jsonmerged`.

The merging logic (which key gets what) is modelled completely, on a structured value (`MObj`);
serialisation turns it into an abstract JSON tree `JO` in which the text of a non-integral float and
of a time stamp is not modelled (`flt`, `tim`) — only whether `encoding/json` can print them at all
(NaN/±Inf and years outside 0…9999 make it fail).
-/
import Rscp.Model.Codec
import Rscp.Model.Vocab
import Rscp.Gen.Misc
namespace Rscp.Model
open Rscp

/-! ## the merged structure (`JSONMessage = map[rscp.Tag]interface{}`) -/

mutual
/-- what a key of a `JSONMessage` holds -/
inductive MVal where
  | scalar (v : Val)            -- a non-container value as received
  | one (o : MObj)              -- the merged object of a single container
  | many (os : List MObj)       -- the merged objects of all containers that arrived under this tag, in order
/-- a `JSONMessage`: keys are tag numbers; held as an association list with unique keys -/
inductive MObj where
  | mk (entries : List (Nat × MVal))
end

instance : Inhabited MVal := ⟨.scalar .nil⟩
instance : Inhabited MObj := ⟨.mk []⟩

def MObj.entries : MObj → List (Nat × MVal) | .mk es => es

/-- `jm[tag]` -/
def mget (t : Nat) : List (Nat × MVal) → Option MVal
  | [] => none
  | (k, v) :: r => if k = t then some v else mget t r

/-- `jm[tag] = v` -/
def mset (t : Nat) (v : MVal) : List (Nat × MVal) → List (Nat × MVal)
  | [] => [(t, v)]
  | (k, w) :: r => if k = t then (k, v) :: r else (k, w) :: mset t v r

mutual
/-- `NewJSONMergedMessages` -/
def mergedOf : List Msg → List (Nat × MVal) → List (Nat × MVal)
  | [], jm => jm
  | .mk t _ (.msgs children) :: rest, jm =>
    let merged := MObj.mk (mergedOf children [])
    match mget t jm with
    | some (.one previous) => mergedOf rest (mset t (.many [previous, merged]) jm)
    | some (.many os) => mergedOf rest (mset t (.many (os ++ [merged])) jm)
    | _ => mergedOf rest (mset t (.one merged) jm)
  | .mk t _ v :: rest, jm =>
    match mget t jm with
    | some (.one _) => mergedOf rest jm              -- keep the containers already collected for this tag
    | some (.many _) => mergedOf rest jm
    | _ => mergedOf rest (mset t (.scalar v) jm)
end

def merged (ms : List Msg) : MObj := .mk (mergedOf ms [])

/-! ## abstract JSON output -/

inductive JO where
  | null
  | bool (b : Bool)
  | int (n : Int)
  | flt                                   -- a number that is not written as an integer
  | str (s : List Byte)
  | tim (sec nsec : Int)                  -- an RFC 3339 time stamp denoting this instant (its text is not modelled)
  | arr (xs : List JO)
  | obj (kvs : List (String × JO))
  deriving Inhabited

/-! ### leaves -/

/-- value of an IEEE bit pattern as a classification: `none` = NaN/Inf, `some (some n)` = the integer it denotes
    when `encoding/json` prints it without fraction/exponent (|v| < 1e21), `some none` = anything else -/
def floatClass (ebits mbits : Nat) (bits : Nat) : Option (Option Int) :=
  let sign := bits / 2 ^ (ebits + mbits) % 2
  let e := bits / 2 ^ mbits % 2 ^ ebits
  let m := bits % 2 ^ mbits
  if e = 2 ^ ebits - 1 then none else
  let bias := 2 ^ (ebits - 1) - 1
  -- value = mant · 2^(ex) with
  let (mant, ex) : Nat × Int := if e = 0 then (m, (1 : Int) - bias - mbits) else (m + 2 ^ mbits, (e : Int) - bias - mbits)
  if mant = 0 then some (some 0) else
  let intVal : Option Nat :=
    if ex ≥ 0 then some (mant * 2 ^ ex.toNat)
    else if mant % 2 ^ (-ex).toNat = 0 then some (mant / 2 ^ (-ex).toNat) else none
  match intVal with
  | some n => if n < 10 ^ 21 then some (some (if sign = 1 then -(n : Int) else n)) else some none
  | none => some none

/-- `Time.Year()` of `time.Unix(sec, _)` as the Go runtime computes it (seconds wrap into the absolute epoch) -/
def goYear (sec : Int) : Int :=
  let eraDays : Int := 730692556 * 146097
  let abs : Int := (sec + (eraDays + 719468) * 86400) % (2 ^ 64 : Int)
  let z : Int := abs / 86400 - eraDays            -- days since 0000-03-01
  let era := z / 146097
  let doe := z - era * 146097
  let yoe := (doe - doe / 1460 + doe / 36524 - doe / 146096) / 365
  let y := yoe + era * 400
  let doy := doe - (365 * yoe + yoe / 4 - yoe / 100)
  let mp := (5 * doy + 2) / 153
  if mp < 10 then y else y + 1

def rscpErrorName (n : Nat) : String :=
  match Gen.rscpErrorValues.find? (fun p => p.2 == n) with
  | some p => p.1
  | none => s!"RscpError({n})"

def base64Chars : List Char :=
  "ABCDEFGHIJKLMNOPQRSTUVWXYZabcdefghijklmnopqrstuvwxyz0123456789+/".toList

def base64 : List Byte → List Char
  | a :: b :: c :: r =>
    let n := a.toNat * 65536 + b.toNat * 256 + c.toNat
    base64Chars.getD (n / 262144) 'A' :: base64Chars.getD (n / 4096 % 64) 'A' :: base64Chars.getD (n / 64 % 64) 'A' ::
      base64Chars.getD (n % 64) 'A' :: base64 r
  | [a, b] =>
    let n := a.toNat * 65536 + b.toNat * 256
    [base64Chars.getD (n / 262144) 'A', base64Chars.getD (n / 4096 % 64) 'A', base64Chars.getD (n / 64 % 64) 'A', '=']
  | [a] =>
    let n := a.toNat * 65536
    [base64Chars.getD (n / 262144) 'A', base64Chars.getD (n / 4096 % 64) 'A', '=', '=']
  | [] => []

/-- a scalar as `encoding/json` prints it; `inMap` = inside `JSONMessage.MarshalJSON` (negative years become 1970,
    byte slices become number arrays), otherwise plain struct marshalling (byte slices are base64 strings) -/
def leafJO (inMap : Bool) : Val → Option JO
  | .nil => some .null
  | .bool b => some (.bool b)
  | .num .f32 bits => (floatClass 8 23 bits.toNat).map fun c => match c with | some n => .int n | none => .flt
  | .num .f64 bits => (floatClass 11 52 bits.toNat).map fun c => match c with | some n => .int n | none => .flt
  | .num .rerr n => some (.str (rscpErrorName n.toNat).toUTF8.toList)
  | .num _ n => some (.int n)
  | .str s => some (.str s)
  | .bytes bs => if inMap then some (.arr (bs.map fun b => .int b.toNat)) else some (.str (String.ofList (base64 bs)).toUTF8.toList)
  | .time s ns =>
    let y := goYear s
    if inMap ∧ y < 0 then some (.tim 0 0)                 -- rewritten to 1970-01-01T00:00:00Z
    else if y < 0 ∨ y > 9999 then none else some (.tim s ns)
  | .msgs _ => none                                        -- containers are handled by the formats
  | .other _ => none

/-- the key `Tag.MarshalJSON` writes -/
def tagKey (t : Nat) : String :=
  match lookup t Gen.tagMap with
  | some s => s
  | none => toString t

def dataTypeKey (d : Nat) : String :=
  match Gen.dataTypeNameToValue.find? (fun p => p.2 == d) with
  | some p => p.1
  | none => s!"DataType({d})"

/-- insertion into a list sorted by key (`slices.Sort(keys)`) -/
def insertSorted (k : Nat) (v : JO) : List (Nat × JO) → List (Nat × JO)
  | [] => [(k, v)]
  | (a, w) :: r => if k ≤ a then (k, v) :: (a, w) :: r else (a, w) :: insertSorted k v r

def optAll {α} : List (Option α) → Option (List α)
  | [] => some []
  | some a :: r => (optAll r).map (a :: ·)
  | none :: _ => none

mutual
/-- `json.Marshal` of a `JSONMessage` (keys in tag order); `none` = marshalling fails -/
def marshalMObj : MObj → Option JO
  | .mk es => (marshalEntries es).map fun kvs => .obj (kvs.map fun p => (tagKey p.1, p.2))
def marshalEntries : List (Nat × MVal) → Option (List (Nat × JO))
  | [] => some []
  | (t, v) :: r =>
    match marshalMVal v, marshalEntries r with
    | some j, some rest => some (insertSorted t j rest)
    | _, _ => none
def marshalMVal : MVal → Option JO
  | .scalar v => leafJO true v
  | .one o => marshalMObj o
  | .many os => (marshalMObjs os).map .arr
def marshalMObjs : List MObj → Option (List JO)
  | [] => some []
  | o :: r => match marshalMObj o, marshalMObjs r with
    | some j, some rest => some (j :: rest)
    | _, _ => none
end

/-- format `jsonmerged` -/
def fmtMerged (ms : List Msg) : Option JO := marshalMObj (merged ms)

mutual
/-- format `jsonsimple`: the ordered list of one-key objects, nested likewise -/
def fmtSimpleMsg : Msg → Option JO
  | .mk t _ (.msgs children) => (fmtSimpleList children).map fun xs => .obj [(tagKey t, .arr xs)]
  | .mk t _ v => (leafJO true v).map fun j => .obj [(tagKey t, j)]
def fmtSimpleList : List Msg → Option (List JO)
  | [] => some []
  | m :: r => match fmtSimpleMsg m, fmtSimpleList r with
    | some j, some rest => some (j :: rest)
    | _, _ => none
end
def fmtSimple (ms : List Msg) : Option JO := (fmtSimpleList ms).map .arr

mutual
/-- format `json`: every message with tag, type and value -/
def fmtJsonMsg : Msg → Option JO
  | .mk t d (.msgs children) =>
    (fmtJsonList children).map fun xs =>
      .obj [("Tag", .str (tagKey t).toUTF8.toList), ("DataType", .str (dataTypeKey d).toUTF8.toList),
            ("Value", if children.isEmpty then .null else .arr xs)]
  | .mk t d v =>
    (leafJO false v).map fun j =>
      .obj [("Tag", .str (tagKey t).toUTF8.toList), ("DataType", .str (dataTypeKey d).toUTF8.toList), ("Value", j)]
def fmtJsonList : List Msg → Option (List JO)
  | [] => some []
  | m :: r => match fmtJsonMsg m, fmtJsonList r with
    | some j, some rest => some (j :: rest)
    | _, _ => none
end
def fmtJson (ms : List Msg) : Option JO := (fmtJsonList ms).map .arr

end Rscp.Model
