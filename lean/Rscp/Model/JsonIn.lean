/-
Model of the JSON request input of the e3dc command (cmd/e3dc/json_input.go, json_helper.go,
rscp/message_json.go, rscp/datatype_new.go `newNumber`, rscp/tag_functions.go): the three request
notations — bare tag, `[tag, type?, value?]` tuple, `{Tag, DataType, Value}` object — freely
mixed and nested.

The model works on JSON *trees* (`J`); numbers keep their literal as an exact decimal. Library
behaviour the code relies on is modelled only as far as the code depends on it and is validated
by the correspondence stream `jsonin`: how `encoding/json` stores a tree into an `interface{}`,
a `uint32`, a struct with case-insensitive field names; `strconv.ParseFloat` (parameter
`toFloat`), RFC 3339 parsing (parameter `parseTime`), go-conv's number→bool/string coercions
(parameter `coerce`).
-/
import Rscp.Model.Codec
import Rscp.Model.Vocab
import Rscp.Model.Builder
namespace Rscp.Model
open Rscp

/-- an exact decimal number literal: `m · 10^e`; `plain` = written as `-?digits` only (what
    `encoding/json` accepts for an integer target) -/
structure Dec where
  m : Int
  e : Int
  plain : Bool
  deriving DecidableEq, Repr, Inhabited

/-- JSON trees -/
inductive J where
  | null
  | bool (b : Bool)
  | num (d : Dec)
  | str (s : List Byte)
  | arr (xs : List J)
  | obj (kvs : List (List Byte × J))
  deriving Inhabited

/-- library behaviour that is a parameter of the model -/
structure JsonLib where
  /-- `strconv.ParseFloat(literal, bits)`: the IEEE bit pattern, `none` on overflow -/
  toFloat : Nat → Dec → Option Nat
  /-- `time.Time.UnmarshalJSON` on the content of a JSON string: seconds and nanoseconds -/
  parseTime : List Byte → Option (Int × Int)
  /-- go-conv's `Bool`/`String` of the float64 value of a number, for non-numeric data types -/
  coerce : Kind → Dec → Option Val

/-- the integer a decimal denotes, if it denotes one -/
def Dec.toInt? (d : Dec) : Option Int :=
  if d.e ≥ 0 then some (d.m * 10 ^ d.e.toNat)
  else if d.m % (10 ^ (-d.e).toNat : Int) = 0 then some (d.m / (10 ^ (-d.e).toNat : Int)) else none

/-- `json.Unmarshal(data, &tag)` — `Tag.UnmarshalJSON` -/
def tagOfJ : J → Option Nat
  | .str s => match String.fromUTF8? (ByteArray.mk s.toArray) with
    | some str => tagUnmarshalStr str
    | none => none
  | .null => none            -- unmarshals as the empty string, which is no tag
  | .num d => if d.plain ∧ 0 ≤ d.m ∧ d.e = 0 ∧ d.m < 2 ^ 32 then some d.m.toNat else none
  | _ => none

/-- `isJSONDataType`: a JSON string naming a defined data type -/
def dataTypeOfJ : J → Option Nat
  | .str s => match String.fromUTF8? (ByteArray.mk s.toArray) with
    | some str => match dataTypeString? str with
      | some d => if isDataType d then some d else none
      | none => none
    | none => none
  | _ => none

/-- `DataType.newNumber`: the number as the Go type of the data type -/
def newNumber (lib : JsonLib) (dt : Nat) (d : Dec) : Option Val :=
  match newEmptyKind dt with
  | .f32 => (lib.toFloat 32 d).map fun b => .num .f32 b
  | .f64 => (lib.toFloat 64 d).map fun b => .num .f64 b
  | .bool => lib.coerce .bool d
  | .str => lib.coerce .str d
  | .bytes => lib.coerce .bytes d
  | .nil | .time | .msgs | .other => none
  | k => match d.toInt? with
    | some n => if k.inRange n then some (.num k n) else none
    | none => none

/-- a JSON tree stored into an `interface{}` by `encoding/json` (UseNumber), seen as a message value:
    only the shapes the validator can accept are kept, everything else is "some other Go value" -/
def genericVal : J → Val
  | .null => .nil
  | .bool b => .bool b
  | .str s => .str s
  | _ => .other 99

/-- the elements of a ByteArray value -/
def byteArrayOfJ : List J → Option (List Byte)
  | [] => some []
  | .num d :: rest =>
    match d.toInt? with
    | some n => if 0 ≤ n ∧ n < 256 then (byteArrayOfJ rest).map (UInt8.ofNat n.toNat :: ·) else none
    | none => none
  | _ => none

/-- `Message.UnmarshalJSONValue` for a non-container data type; `none` = error -/
def leafValueOfJ (lib : JsonLib) (dt : Nat) (j : J) : Option Val :=
  if dt = Gen.C.None then some .nil else                 -- the value is ignored
  if dt = Gen.C.Timestamp then
    match j with
    | .str s => (lib.parseTime s).map fun (s, ns) => .time s ns
    | _ => none
  else if dt = Gen.C.ByteArray then
    match j with
    | .arr xs => (byteArrayOfJ xs).map .bytes
    | _ => none
  else
    match j with
    | .num d => newNumber lib dt d
    | j => some (genericVal j)

/-- field lookup as `encoding/json` does it for struct fields: exact name first … in effect case-insensitive;
    the last occurrence wins -/
def lowerByte (b : Byte) : Byte := if 65 ≤ b.toNat ∧ b.toNat ≤ 90 then b + 32 else b
def fieldOf (name : List Byte) (kvs : List (List Byte × J)) : Option J :=
  (kvs.reverse.find? fun kv => kv.1.map lowerByte = name.map lowerByte).map (·.2)

def outcomeOfOpt {α} : Option α → Res α
  | some a => .ok a
  | none => .err .jsonUnmarshal

mutual
/-- `Message.UnmarshalJSON`: the object notation (used by rscp for nested containers of objects too) -/
def msgOfObject (lib : JsonLib) : Nat → J → Res Msg
  | 0, _ => .panic
  | f+1, j =>
    match j with
    | .obj kvs =>
      match fieldOf "tag".toUTF8.toList kvs with
      | none => .err .jsonUnmarshal
      | some .null => .err .jsonUnmarshal                  -- pointer field: null leaves it nil
      | some tj =>
        match tagOfJ tj with
        | none => .err .jsonUnmarshal
        | some tag =>
          let dtR : Res Nat := match fieldOf "datatype".toUTF8.toList kvs with
            | none => .ok (tagDataType tag)
            | some dj => match dj with
              | .str s => match String.fromUTF8? (ByteArray.mk s.toArray) with
                | some str => outcomeOfOpt (dataTypeString? str)
                | none => .err .jsonUnmarshal
              | _ => .err .jsonUnmarshal
          match dtR with
          | .err e => .err e
          | .panic => .panic
          | .ok dt =>
            let vj := fieldOf "value".toUTF8.toList kvs
            let vR : Res Val :=
              if dt = Gen.C.Container then
                match vj with
                | none => .err .jsonUnmarshal               -- json.Unmarshal(nil, …)
                | some .null => .ok (.msgs [])
                | some (.arr xs) => match msgsOfObjects lib f xs with
                  | .ok ms => .ok (.msgs ms)
                  | .err e => .err e
                  | .panic => .panic
                | some _ => .err .jsonUnmarshal
              else match vj with
                | none => .ok .nil
                | some v => outcomeOfOpt (leafValueOfJ lib dt v)
            match vR with
            | .err e => .err e
            | .panic => .panic
            | .ok v =>
              match validateMsg (.mk tag dt v) with
              | .ok () => .ok (.mk tag dt v)
              | .err _ => .err .jsonUnmarshal
              | .panic => .panic
    | _ => .err .jsonUnmarshal
def msgsOfObjects (lib : JsonLib) : Nat → List J → Res (List Msg)
  | 0, _ => .panic
  | _+1, [] => .ok []
  | f+1, j :: js =>
    match msgOfObject lib f j with
    | .ok m => match msgsOfObjects lib f js with
      | .ok ms => .ok (m :: ms)
      | .err e => .err e
      | .panic => .panic
    | .err e => .err e
    | .panic => .panic
end

mutual
/-- `unmarshalJSONValue` of the command: containers take a list of requests in any notation -/
def valueOfJ (lib : JsonLib) : Nat → Nat → J → Res Val
  | 0, _, _ => .panic
  | f+1, dt, j =>
    if dt = Gen.C.Container then
      match requestsOfJ lib f j with
      | .ok ms => .ok (.msgs ms)
      | .err e => .err e
      | .panic => .panic
    else outcomeOfOpt (leafValueOfJ lib dt j)
/-- `unmarshalJSONRequest` -/
def requestOfJ (lib : JsonLib) : Nat → J → Res Msg
  | 0, _ => .panic
  | f+1, j =>
    match j with
    | .arr t =>
      match t with
      | [] => .err .other                                   -- ErrInputInvalidTuple
      | [tj] => match tagOfJ tj with
        | some tag => .ok (.mk tag (tagDataType tag) .nil)
        | none => .err .jsonUnmarshal
      | [tj, x] => match tagOfJ tj with
        | none => .err .jsonUnmarshal
        | some tag =>
          match dataTypeOfJ x with
          | some dt => .ok (.mk tag dt .nil)
          | none => match valueOfJ lib f (tagDataType tag) x with
            | .ok v => .ok (.mk tag (tagDataType tag) v)
            | .err e => .err e
            | .panic => .panic
      | [tj, x, y] => match tagOfJ tj with
        | none => .err .jsonUnmarshal
        | some tag =>
          match dataTypeOfJ x with
          | some dt => match valueOfJ lib f dt y with
            | .ok v => .ok (.mk tag dt v)
            | .err e => .err e
            | .panic => .panic
          | none => .err .other                               -- the second element has to name a data type
      | _ => .err .other
    | .str s => match tagOfJ (.str s) with
      | some tag => .ok (.mk tag (tagDataType tag) .nil)
      | none => .err .jsonUnmarshal
    | .num d =>
      if d.m < 0 then .err .jsonUnmarshal                   -- '-' is not a digit: falls through to the object path
      else match tagOfJ (.num d) with
        | some tag => .ok (.mk tag (tagDataType tag) .nil)
        | none => .err .jsonUnmarshal
    | j => msgOfObject lib f j
/-- `unmarshalJSONRequests` -/
def requestsOfJ (lib : JsonLib) : Nat → J → Res (List Msg)
  | 0, _ => .panic
  | f+1, j =>
    match j with
    | .arr xs => requestListOfJ lib f xs
    | _ => .err .other                                      -- ErrInputNotAnArray
def requestListOfJ (lib : JsonLib) : Nat → List J → Res (List Msg)
  | 0, _ => .panic
  | _+1, [] => .ok []
  | f+1, j :: js =>
    match requestOfJ lib f j with
    | .ok m => match requestListOfJ lib f js with
      | .ok ms => .ok (m :: ms)
      | .err e => .err e
      | .panic => .panic
    | .err e => .err e
    | .panic => .panic
end

mutual
/-- size of a JSON tree (fuel for the parsers) -/
def J.size : J → Nat
  | .arr xs => 1 + J.sizeList xs
  | .obj kvs => 1 + J.sizeFields kvs
  | _ => 1
def J.sizeList : List J → Nat
  | [] => 0
  | x :: xs => x.size + J.sizeList xs
def J.sizeFields : List (List Byte × J) → Nat
  | [] => 0
  | (_, v) :: r => v.size + J.sizeFields r
end

/-- what `run()` does with the request text: parse all notations, then the client validates before sending.
    `.ok ms` = these messages are transmitted; `.err _` = nothing is transmitted. -/
def requestOutcome (lib : JsonLib) (j : J) : Res (List Msg) :=
  match requestsOfJ lib (4 * j.size + 4) j with
  | .ok ms => match validateRequests ms with
    | .ok () => .ok ms
    | .err e => .err e
    | .panic => .panic
  | .err e => .err e
  | .panic => .panic

end Rscp.Model
