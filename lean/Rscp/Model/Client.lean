/-
Token-level model of `rscp.Client` (rscp/client.go): lazy connect → authenticate → send →
receive, and `Disconnect`. Frames are tokens; what the peer does in one exchange is a `Reply`
token. Every connection carries the queue of reply tokens the peer has written and the client
has not consumed yet, so "a call reads a stale reply" is expressible (and excluded by theorem
`Props.C08`). The byte-level behaviour of one `receive` (segmentation, chunked decoding) is
modelled in `Model/Receive.lean` and related to these tokens there.

The control skeleton is hand-written from client.go and tied to it by the shape fingerprints of
`Tie/Client.lean` and by the differential history stream `hist`.
-/
import Rscp.Base
import Rscp.Gen.Consts
import Rscp.Gen.Tags
import Rscp.Model.Codec
namespace Rscp.Model
open Rscp

/-- tag numbers the client uses, looked up in the regenerated tag table by name -/
def tagNamed (n : String) : Nat := (lookupStr n Gen.tagNameToValue).getD 0

def tagReqAuth : Nat := tagNamed "RSCP_REQ_AUTHENTICATION"
def tagAuthUser : Nat := tagNamed "RSCP_AUTHENTICATION_USER"
def tagAuthPassword : Nat := tagNamed "RSCP_AUTHENTICATION_PASSWORD"
def tagAuth : Nat := tagNamed "RSCP_AUTHENTICATION"

/-- what the peer writes in answer to one request frame -/
inductive Reply where
  /-- a well-formed frame that decodes to these messages -/
  | frame (ms : List Msg)
  /-- bytes the decoder rejects with this (non-"incomplete") error, followed by `extra` further reply tokens
      that were written behind it (e.g. a garbled block followed by the real reply) -/
  | protoErr (e : ErrClass) (extra : List (List Msg))
  /-- nothing usable: silence until the time-out, or the connection is closed before/inside the reply -/
  | ioFail
  deriving Inhabited

/-- the environment of one call: does dialing work, does writing work, and how the peer answers the
    authentication request and the user request if they reach it -/
structure Script where
  dialOk : Bool := true
  writeOk : Bool := true
  auth : Reply := .frame []
  user : Reply := .frame []

/-- what sits in a connection's inbound queue: a decodable frame or bytes the decoder rejects -/
inductive Tok where
  | frame (ms : List Msg)
  | junk (e : ErrClass)
  deriving Inhabited

/-- observable events, in order -/
inductive Ev where
  | dial (ok : Bool)
  | sent (conn : Nat) (ms : List Msg)     -- one frame written on connection `conn`
  | closed (conn : Nat)
  | granted (conn : Nat)                   -- the client accepted the authentication reply on `conn` (not observable on the wire)
  deriving Inhabited

/-- client state: the open connection (its number and the reply tokens pending on it), the
    authenticated flag, the number of connections opened so far -/
structure CState where
  conn : Option (Nat × List Tok) := none
  authed : Bool := false
  conns : Nat := 0
  deriving Inhabited

/-- `Disconnect()` -/
def disconnect (st : CState) : CState × List Ev :=
  match st.conn with
  | some (n, _) => ({ st with conn := none, authed := false }, [.closed n])
  | none => ({ st with authed := false }, [])

/-- the tokens a reply puts on the wire behind whatever is pending -/
def Reply.tokens : Reply → List Tok
  | .frame ms => [.frame ms]
  | .protoErr e extra => .junk e :: extra.map .frame
  | .ioFail => []

/-- one `send` + the peer's reaction: the frame is validated, written (or the write fails and the client
    disconnects), and the peer appends its reply tokens to the connection's queue -/
def sendFrame (st : CState) (ms : List Msg) (writeOk : Bool) (reply : Reply) : CState × Res Unit × List Ev :=
  match st.conn with
  | none => (st, .panic, [])                       -- c.conn is nil: nil dereference
  | some (n, q) =>
    match validateRequests ms with
    | .ok () =>
      if writeOk then
        ({ st with conn := some (n, q ++ reply.tokens) }, .ok (), [.sent n ms])
      else
        let (st', ev) := disconnect st
        (st', .err .io, ev)
    | .err e => (st, .err e, [])
    | .panic => (st, .panic, [])

/-- one `receive`: consumes the head of the connection's inbound queue -/
def receive (st : CState) : CState × Res (List Msg) × List Ev :=
  match st.conn with
  | none => (st, .panic, [])
  | some (n, q) =>
    match q with
    | .frame (m :: ms) :: rest => ({ st with conn := some (n, rest) }, .ok (m :: ms), [])
    | .frame [] :: _ =>
      -- a frame without items: `m == nil`, the loop keeps reading; whatever follows is "trailing data",
      -- so the call ends at the deadline
      let (st', ev) := disconnect st
      (st', .err .io, ev)
    | .junk e :: _ =>
      let (st', ev) := disconnect st
      (st', .err e, ev)
    | [] =>
      let (st', ev) := disconnect st
      (st', .err .io, ev)

/-- the decision `authenticate` takes on the reply to the authentication request -/
inductive AuthVerdict where
  | grant | refuse
  deriving DecidableEq, Repr

def authVerdict (reply : List Msg) : Res AuthVerdict :=
  match reply with
  | [] => .panic                                    -- messages[0] on an empty slice
  | m :: _ =>
    if m.tag ≠ tagAuth then .ok .refuse else
    match m.val with
    | .num .i32 v => if v = Gen.C.AUTH_LEVEL_NO_AUTH then .ok .refuse else .ok .grant
    | .num .u8 v => if v = Gen.C.AUTH_LEVEL_NO_AUTH then .ok .refuse else .ok .grant
    | _ => .ok .refuse

/-- the authentication request `authenticate` builds -/
def authRequest (user password : List Byte) : List Msg :=
  [.mk tagReqAuth Gen.C.Container (.msgs [.mk tagAuthUser Gen.C.CString (.str user),
                                           .mk tagAuthPassword Gen.C.CString (.str password)])]

structure Cred where
  user : List Byte
  password : List Byte

/-- `authenticate()` -/
def authenticate (cred : Cred) (st : CState) (sc : Script) : CState × Res Unit × List Ev :=
  match sendFrame st (authRequest cred.user cred.password) sc.writeOk sc.auth with
  | (st1, .ok (), ev1) =>
    match receive st1 with
    | (st2, .ok reply, ev2) =>
      match authVerdict reply with
      | .ok .grant => ({ st2 with authed := true }, .ok (), ev1 ++ ev2 ++ (match st2.conn with | some (n, _) => [Ev.granted n] | none => []))
      | .ok .refuse => ({ st2 with authed := false }, .err .auth, ev1 ++ ev2)
      | .err e => (st2, .err e, ev1 ++ ev2)
      | .panic => (st2, .panic, ev1 ++ ev2)
    | (st2, .err e, ev2) => (st2, .err e, ev1 ++ ev2)
    | (st2, .panic, ev2) => (st2, .panic, ev1 ++ ev2)
  | (st1, .err e, ev1) => (st1, .err e, ev1)
  | (st1, .panic, ev1) => (st1, .panic, ev1)

/-- `SendMultiple(requests)` -/
def sendMultiple (cred : Cred) (st : CState) (reqs : List Msg) (sc : Script) : CState × Res (List Msg) × List Ev :=
  -- connect
  let (st0, ev0, dialFailed) :=
    match st.conn with
    | some _ => (st, ([] : List Ev), false)
    | none =>
      if sc.dialOk then ({ st with conn := some (st.conns, []), conns := st.conns + 1 }, [Ev.dial true], false)
      else (st, [Ev.dial false], true)
  if dialFailed then (st0, .err .io, ev0) else
  -- authenticate
  let (st1, r1, ev1) := if st0.authed then (st0, Res.ok (), []) else authenticate cred st0 sc
  match r1 with
  | .err e => (st1, .err e, ev0 ++ ev1)
  | .panic => (st1, .panic, ev0 ++ ev1)
  | .ok () =>
    match sendFrame st1 reqs sc.writeOk sc.user with
    | (st2, .ok (), ev2) =>
      let (st3, r3, ev3) := receive st2
      (st3, r3, ev0 ++ ev1 ++ ev2 ++ ev3)
    | (st2, .err e, ev2) => (st2, .err e, ev0 ++ ev1 ++ ev2)
    | (st2, .panic, ev2) => (st2, .panic, ev0 ++ ev1 ++ ev2)

/-- `Send(request)`: `SendMultiple` with one request, first response -/
def send (cred : Cred) (st : CState) (req : Msg) (sc : Script) : CState × Res Msg × List Ev :=
  match sendMultiple cred st [req] sc with
  | (st', .ok (m :: _), ev) => (st', .ok m, ev)
  | (st', .ok [], ev) => (st', .panic, ev)           -- responses[0] on an empty slice
  | (st', .err e, ev) => (st', .err e, ev)
  | (st', .panic, ev) => (st', .panic, ev)

/-- calls a user of the client can make -/
inductive Call where
  | sendMultiple (reqs : List Msg) (sc : Script)
  | send (req : Msg) (sc : Script)
  | disconnect

/-- result of a call, uniformly -/
def step (cred : Cred) (st : CState) : Call → CState × Res (List Msg) × List Ev
  | .sendMultiple reqs sc => sendMultiple cred st reqs sc
  | .send req sc =>
    match send cred st req sc with
    | (st', .ok m, ev) => (st', .ok [m], ev)
    | (st', .err e, ev) => (st', .err e, ev)
    | (st', .panic, ev) => (st', .panic, ev)
  | .disconnect => let (st', ev) := disconnect st; (st', .ok [], ev)

/-- run a history of calls from a state; collects the result and the events of every call -/
def runCalls (cred : Cred) : CState → List Call → List (Res (List Msg) × List Ev)
  | _, [] => []
  | st, c :: cs => let (st', r, ev) := step cred st c; (r, ev) :: runCalls cred st' cs

end Rscp.Model
