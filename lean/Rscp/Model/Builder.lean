/-
Model of the request builder (rscp/request.go, rscp/read_request_slice.go): `CreateRequest`
reads one request message from a flat argument list by recursive descent over a slice reader.
-/
import Rscp.Base
import Rscp.Gen.Consts
import Rscp.Gen.Tags
namespace Rscp.Model
open Rscp

/-- one element of the argument list: a `Tag`, a `DataType` constant, or any other Go value
    (`nil` included) -/
inductive Arg where
  | tag (t : Nat)
  | dtConst (d : Nat)
  | val (v : Val)
  deriving Inhabited

/-- `Tag.DataType()`: the declared data type, `None` for a tag the table does not list -/
def tagDataType (t : Nat) : Nat := (lookup t Gen.dataTypeMap).getD 0

mutual
/-- `readRequestSliceReader`: the message and the arguments left in the reader -/
def build : Nat → List Arg → Res (Msg × List Arg)
  | 0, _ => .panic
  | _+1, [] => .err .eos
  | f+1, a :: rest =>
    match a with
    | .tag t =>
      let dt := tagDataType t
      if dt = Gen.C.None then .ok (.mk t dt .nil, rest)
      else if dt = Gen.C.Container then
        match buildAll f rest [] with
        | .ok ms => .ok (.mk t dt (.msgs ms), [])
        | .err e => .err e
        | .panic => .panic
      else
        match rest with
        | [] => .err .missingValue
        | .tag _ :: _ => .err .typeMismatch
        | .dtConst _ :: _ => .err .typeMismatch
        | .val v :: rest' => .ok (.mk t dt v, rest')
    | _ => .err .validTag
/-- the container loop: `for sr.Len() > 0 { readRequestSliceReader }` -/
def buildAll : Nat → List Arg → List Msg → Res (List Msg)
  | 0, _, _ => .panic
  | _+1, [], acc => .ok acc
  | f+1, a :: rest, acc =>
    match build f (a :: rest) with
    | .ok (m, r) => buildAll f r (acc ++ [m])
    | .err e => .err e
    | .panic => .panic
end

/-- `CreateRequest(values...)` -/
def createRequest (args : List Arg) : Res Msg :=
  match build (2 * args.length + 1) args with
  | .ok (m, _) => .ok m
  | .err e => .err e
  | .panic => .panic

/-- `CreateRequests(values...)` -/
def createRequests (lists : List (List Arg)) : Res (List Msg) :=
  if lists.isEmpty then .err .noArguments else
  let rec go : List (List Arg) → Res (List Msg)
    | [] => .ok []
    | l :: ls =>
      match createRequest l with
      | .ok m => match go ls with
        | .ok ms => .ok (m :: ms)
        | .err e => .err e
        | .panic => .panic
      | .err e => .err e
      | .panic => .panic
  go lists

end Rscp.Model
