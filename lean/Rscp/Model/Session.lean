/-
The CBC discipline of a session, as both ends follow it: a model of what the client does with
its two cipher states over the connections of its lifetime (`NewClient`, `connect`,
`resetCipher`, `Write`, `Read` in rscp/client.go) next to an independent peer that "implements
just that scheme": fresh all-0xFF IV in both directions on every connection, chaining with the
last ciphertext block thereafter.
-/
import Rscp.Model.Crypt
namespace Rscp.Model
open Rscp

/-- the two chaining states of one end -/
structure Chains where
  enc : List Byte
  dec : List Byte

/-- what happens on the wire, in order -/
inductive WireOp where
  | connect                                   -- a new TCP connection is opened
  | toPeer (plain : List (List Byte))         -- the client writes a frame (plaintext blocks)
  | toClient (plain : List (List Byte))       -- the peer writes a frame
  deriving Inhabited

/-- what the receiving end obtained for a frame -/
structure Delivery where
  sent : List (List Byte)
  received : List (List Byte)

/-- the client: `NewClient` starts both states at the IV, `connect()` resets them (resetCipher) -/
def clientInit : Chains := { enc := iv0, dec := iv0 }
/-- the peer before any connection (its state is replaced at every connect) -/
def peerInit : Chains := { enc := iv0, dec := iv0 }

/-- one wire operation: new states of client and peer, and the delivery if a frame travelled -/
def wireStep (c : BlockCipher) (cl pe : Chains) : WireOp → Chains × Chains × Option Delivery
  | .connect => ({ enc := iv0, dec := iv0 }, { enc := iv0, dec := iv0 }, none)
  | .toPeer plain =>
    let (ct, s) := cbcEnc c cl.enc plain
    let (pt, s') := cbcDec c pe.dec ct
    ({ cl with enc := s }, { pe with dec := s' }, some { sent := plain, received := pt })
  | .toClient plain =>
    let (ct, s) := cbcEnc c pe.enc plain
    let (pt, s') := cbcDec c cl.dec ct
    ({ cl with dec := s' }, { pe with enc := s }, some { sent := plain, received := pt })

/-- a whole history of wire operations; the deliveries in order -/
def wireRun (c : BlockCipher) : Chains → Chains → List WireOp → List Delivery
  | _, _, [] => []
  | cl, pe, op :: ops =>
    let (cl', pe', d) := wireStep c cl pe op
    match d with
    | some x => x :: wireRun c cl' pe' ops
    | none => wireRun c cl' pe' ops

end Rscp.Model
