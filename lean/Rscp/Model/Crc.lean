/-
CRC-32 (IEEE 802.3, reflected, polynomial 0xEDB88320, init and final xor 0xFFFFFFFF) as
`hash/crc32.ChecksumIEEE` computes it, defined bit-serially on a 32-bit register.
Core Lean only. The correspondence stream `crc` runs this definition against the Go
function; `Props/C04` proves the error-detection theorems about it.
-/
import Rscp.Base
namespace Rscp.Crc

abbrev W := BitVec 32

/-- reflected CRC-32 polynomial -/
def P : W := 0xEDB88320#32

/-- zero-input register step (multiplication by x) -/
def S (c : W) : W := (c >>> 1) ^^^ (if c.getLsbD 0 then P else 0#32)

/-- `n`-fold zero-input step -/
def Spow : Nat → W → W
  | 0, w => w
  | n+1, w => Spow n (S w)

/-- feed one data bit (least-significant-bit-first wire order) -/
def feedBit (c : W) (d : Bool) : W := S (c ^^^ (if d then 1#32 else 0#32))

/-- the bits of a byte in wire order (least significant first) -/
def byteBits (b : Byte) : List Bool := (List.range 8).map fun i => b.toNat.testBit i

/-- the bits of a byte string in wire order -/
def bitsOf : List Byte → List Bool
  | [] => []
  | b :: r => byteBits b ++ bitsOf r

/-- register after feeding a bit string -/
def feedBits (c : W) (ds : List Bool) : W := ds.foldl feedBit c

/-- feed one byte: the table-free form of the usual `c = tab[(c ^ b) & 0xff] ^ (c >> 8)` -/
def feedByte (c : W) (b : Byte) : W := Spow 8 (c ^^^ BitVec.ofNat 32 b.toNat)

/-- raw register after a byte string -/
def reg (c : W) (bs : List Byte) : W := bs.foldl feedByte c

/-- `crc32.ChecksumIEEE` -/
def crc32 (bs : List Byte) : Nat := (~~~ (reg 0xFFFFFFFF#32 bs)).toNat

end Rscp.Crc
