/-
Base vocabulary shared by the generated files, the model and the specification.
Core Lean only (no Mathlib), so that the driver links as an executable.
-/
namespace Rscp

abbrev Byte := UInt8

/-- The Go dynamic types the per-data-type tables of go-rscp talk about. `other` is any Go
    type the tables do not know (an `int`, a struct, …). -/
inductive Kind where
  | nil | bool | i8 | u8 | i16 | u16 | i32 | u32 | i64 | u64 | f32 | f64
  | str | bytes | time | rerr | msgs | other
  deriving DecidableEq, Repr, Inhabited

/-- Error classes: the sentinel errors of go-rscp as `errors.Is` distinguishes them. -/
inductive ErrClass where
  | invalidMagic | invalidControl | versionMismatch | invalidFrameLength | invalidCrc
  | dataLimit | invalidDataType | eof | typeMismatch | notARequest | notAResponse
  | validTag | missingValue | eos | noArguments | jsonUnmarshal | io | auth | other
  deriving DecidableEq, Repr, Inhabited

/-- Outcome of a modelled Go function: a value, an error class, or a run-time panic. -/
inductive Res (α : Type) where
  | ok (a : α)
  | err (e : ErrClass)
  | panic
  deriving Repr

instance {α} [DecidableEq α] : DecidableEq (Res α) := by
  intro a b
  cases a <;> cases b <;> simp <;> infer_instance

namespace Res
def bind {α β} (r : Res α) (f : α → Res β) : Res β :=
  match r with
  | ok a => f a
  | err e => err e
  | panic => panic
instance : Monad Res where
  pure := ok
  bind := bind
def isOk {α} : Res α → Bool
  | ok _ => true
  | _ => false
def isPanic {α} : Res α → Bool
  | panic => true
  | _ => false
end Res

/-- Go's unsigned fixed-width wrap-around. -/
def uwrap (w : Nat) (n : Nat) : Nat := n % 2 ^ w

/-- Go's signed fixed-width wrap-around (two's complement). -/
def swrap (w : Nat) (n : Int) : Int :=
  let m := n % (2 ^ w : Int)
  if m < (2 ^ (w - 1) : Int) then m else m - (2 ^ w : Int)

/-- association-list lookup as Go map lookup: `none` is the missing key -/
def lookup {β} (k : Nat) : List (Nat × β) → Option β
  | [] => none
  | (a, b) :: r => if a = k then some b else lookup k r

def lookupStr {β} (k : String) : List (String × β) → Option β
  | [] => none
  | (a, b) :: r => if a = k then some b else lookupStr k r

mutual
/-- A Go value as the codec distinguishes it. Fixed-width numbers (all integer kinds, floats as
    IEEE bit patterns, `RscpError`) are `num kind value`. -/
inductive Val where
  | nil
  | bool (b : Bool)
  | num (k : Kind) (n : Int)
  | str (bs : List Byte)
  | bytes (bs : List Byte)
  | time (sec : Int) (nsec : Int)
  | msgs (ms : List Msg)
  | other (k : Nat)
/-- `rscp.Message` -/
inductive Msg where
  | mk (tag : Nat) (dt : Nat) (v : Val)
end

instance : Inhabited Val := ⟨.nil⟩
instance : Inhabited Msg := ⟨.mk 0 0 .nil⟩

def Msg.tag : Msg → Nat | .mk t _ _ => t
def Msg.dt : Msg → Nat | .mk _ d _ => d
def Msg.val : Msg → Val | .mk _ _ v => v

/-- the Go dynamic type of a value -/
def Val.kind : Val → Kind
  | .nil => .nil
  | .bool _ => .bool
  | .num k _ => k
  | .str _ => .str
  | .bytes _ => .bytes
  | .time _ _ => .time
  | .msgs _ => .msgs
  | .other _ => .other

/-- byte width of the fixed-width numeric kinds -/
def Kind.width : Kind → Option Nat
  | .i8 | .u8 => some 1
  | .i16 | .u16 => some 2
  | .i32 | .u32 | .f32 | .rerr => some 4
  | .i64 | .u64 | .f64 => some 8
  | _ => none

def Kind.signed : Kind → Bool
  | .i8 | .i16 | .i32 | .i64 => true
  | _ => false

/-- little-endian encoding of the low `n` bytes of a natural number -/
def leBytes : Nat → Nat → List Byte
  | 0, _ => []
  | n+1, x => UInt8.ofNat (x % 256) :: leBytes n (x / 256)

/-- little-endian decoding -/
def leNat : List Byte → Nat
  | [] => 0
  | b :: r => b.toNat + 256 * leNat r

/-- two's complement: the unsigned image of an integer in `w` bytes -/
def toUnsigned (w : Nat) (n : Int) : Nat := (n % (2 ^ (8 * w) : Int)).toNat

/-- two's complement: the signed reading of an unsigned `w`-byte number -/
def toSigned (w : Nat) (u : Nat) : Int :=
  if u < 2 ^ (8 * w - 1) then (u : Int) else (u : Int) - (2 ^ (8 * w) : Int)

/-- the range of values a numeric kind can hold -/
def Kind.inRange (k : Kind) (n : Int) : Prop :=
  match k.width with
  | none => False
  | some w => if k.signed then -(2 ^ (8 * w - 1) : Int) ≤ n ∧ n < (2 ^ (8 * w - 1) : Int)
              else 0 ≤ n ∧ n < (2 ^ (8 * w) : Int)

instance (k : Kind) (n : Int) : Decidable (k.inRange n) := by
  unfold Kind.inRange; split <;> try split
  all_goals infer_instance

end Rscp
