/-
Canonical text form of values, messages and results shared by the Go harness and the Lean
driver (one operation per line, tokens separated by single blanks). Core Lean only.
-/
import Rscp.Base
namespace Rscp.Wire
open Rscp

def hexDigit (n : Nat) : Char :=
  if n < 10 then Char.ofNat (48 + n) else Char.ofNat (87 + n)

def hexOfBytes (bs : List Byte) : String :=
  if bs.isEmpty then "-" else
  String.ofList (bs.foldr (fun b acc => hexDigit (b.toNat / 16) :: hexDigit (b.toNat % 16) :: acc) [])

def hexVal (c : Char) : Option Nat :=
  if '0' ≤ c ∧ c ≤ '9' then some (c.toNat - 48)
  else if 'a' ≤ c ∧ c ≤ 'f' then some (c.toNat - 87)
  else if 'A' ≤ c ∧ c ≤ 'F' then some (c.toNat - 55)
  else none

def bytesOfHexChars : List Char → Option (List Byte)
  | [] => some []
  | a :: b :: r => do
    let x ← hexVal a
    let y ← hexVal b
    let rest ← bytesOfHexChars r
    pure (UInt8.ofNat (16 * x + y) :: rest)
  | _ => none

def bytesOfHex (s : String) : Option (List Byte) :=
  if s = "-" then some [] else bytesOfHexChars s.toList

def kindName : Kind → String
  | .nil => "nil" | .bool => "bool" | .i8 => "i8" | .u8 => "u8" | .i16 => "i16" | .u16 => "u16"
  | .i32 => "i32" | .u32 => "u32" | .i64 => "i64" | .u64 => "u64" | .f32 => "f32" | .f64 => "f64"
  | .str => "str" | .bytes => "bytes" | .time => "time" | .rerr => "rerr" | .msgs => "msgs" | .other => "other"

def kindOfName : String → Option Kind
  | "nil" => some .nil | "bool" => some .bool | "i8" => some .i8 | "u8" => some .u8
  | "i16" => some .i16 | "u16" => some .u16 | "i32" => some .i32 | "u32" => some .u32
  | "i64" => some .i64 | "u64" => some .u64 | "f32" => some .f32 | "f64" => some .f64
  | "str" => some .str | "bytes" => some .bytes | "time" => some .time | "rerr" => some .rerr
  | "msgs" => some .msgs | "other" => some .other
  | _ => none

def errName : ErrClass → String
  | .invalidMagic => "invalidMagic" | .invalidControl => "invalidControl"
  | .versionMismatch => "versionMismatch" | .invalidFrameLength => "invalidFrameLength"
  | .invalidCrc => "invalidCrc" | .dataLimit => "dataLimit" | .invalidDataType => "invalidDataType"
  | .eof => "eof" | .typeMismatch => "typeMismatch" | .notARequest => "notARequest"
  | .notAResponse => "notAResponse" | .validTag => "validTag" | .missingValue => "missingValue"
  | .eos => "eos" | .noArguments => "noArguments" | .jsonUnmarshal => "jsonUnmarshal"
  | .io => "io" | .auth => "auth" | .other => "other"

mutual
def showVal : Val → List String
  | .nil => ["nil"]
  | .bool b => [if b then "true" else "false"]
  | .num k n => ["n", kindName k, toString n]
  | .str bs => ["s", hexOfBytes bs]
  | .bytes bs => ["b", hexOfBytes bs]
  | .time s ns => ["t", toString s, toString ns]
  | .msgs ms => "c" :: showMsgs ms
  | .other k => ["o", toString k]
def showMsg : Msg → List String
  | .mk tag dt v => "M" :: toString tag :: toString dt :: showVal v
def showMsgsAux : List Msg → List String
  | [] => ["]"]
  | m :: ms => showMsg m ++ showMsgsAux ms
def showMsgs : List Msg → List String
  | ms => "[" :: showMsgsAux ms
end

def msgsToString (ms : List Msg) : String := " ".intercalate (showMsgs ms)

def resToString {α} (f : α → String) : Res α → String
  | .ok a => "ok " ++ f a
  | .err e => "err " ++ errName e
  | .panic => "panic"

-- parser over a token list, with fuel
mutual
def parseVal : Nat → List String → Option (Val × List String)
  | 0, _ => none
  | f+1, toks =>
    match toks with
    | "nil" :: r => some (.nil, r)
    | "true" :: r => some (.bool true, r)
    | "false" :: r => some (.bool false, r)
    | "n" :: k :: n :: r => do
      let kk ← kindOfName k
      let nn ← n.toInt?
      pure (.num kk nn, r)
    | "s" :: h :: r => do pure (.str (← bytesOfHex h), r)
    | "b" :: h :: r => do pure (.bytes (← bytesOfHex h), r)
    | "t" :: s :: ns :: r => do pure (.time (← s.toInt?) (← ns.toInt?), r)
    | "c" :: r => do
      let (ms, r') ← parseMsgs f r
      pure (.msgs ms, r')
    | "o" :: k :: r => do pure (.other (← k.toNat?), r)
    | _ => none
def parseMsgs : Nat → List String → Option (List Msg × List String)
  | 0, _ => none
  | f+1, toks =>
    match toks with
    | "[" :: r => parseMsgsTail f r
    | _ => none
def parseMsgsTail : Nat → List String → Option (List Msg × List String)
  | 0, _ => none
  | f+1, toks =>
    match toks with
    | "]" :: r => some ([], r)
    | "M" :: tag :: dt :: r => do
      let t ← tag.toNat?
      let d ← dt.toNat?
      let (v, r1) ← parseVal f r
      let (ms, r2) ← parseMsgsTail f r1
      pure (.mk t d v :: ms, r2)
    | _ => none
end

def parseMsgsAll (toks : List String) : Option (List Msg × List String) := parseMsgs (toks.length + 1) toks

end Rscp.Wire
