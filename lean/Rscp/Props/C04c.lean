/-
C04 (continued) — the client-level statement: an altered checksummed reply never surfaces as messages from
the client's receive loop (`Model/Receive.lean`), whatever way the transport segments it and whatever the
configured receive-buffer size. Corollaries of `burst_rejected` / `one_or_two_bits_rejected` (C04) on every
block-aligned prefix the loop can hand to `Read`. Helper lemmas: `Lemmas/CrcClient.lean`.
-/
import Rscp.Props.C04
import Rscp.Lemmas.CrcPieces
import Rscp.Lemmas.CrcClient
namespace Rscp.Props.C04
open Rscp Rscp.Model Rscp.Crc

/-- the client's receive loop never returns messages for an altered checksummed reply, however the transport
    delivers it and whatever the configured buffer size -/
theorem burst_never_returned_by_client (p e : List Byte) (hlen : 32 ≤ p.length) (hmod : p.length % 32 = 0) (ms : List Msg)
    (h : decodeFrame p = .ok ms) (hc : hasCrc p) (ht : TouchesOnlyTimePayloadCrc p e)
    (hb : IsBurst (bitsOf (e.take (18 + frameLen p + 4))))
    (bufBlocks : Nat) (segs : List (List Byte)) (hflat : segs.flatten = xorBytes p e) :
    ∀ ms', (receiveBytes bufBlocks segs).result ≠ .ok ms' := by
  refine Lemmas.CrcClient.receive_not_ok _
    (Lemmas.CrcClient.altered_noPrefixOk p e hc ht fun n h32 hnmod hnp hs => ?_) bufBlocks segs hflat
  obtain ⟨eN, hd, hc', eL, ht', eT⟩ := Lemmas.CrcPieces.long_prefix_hyps p e hlen hmod ms h hc ht n h32 hnmod hnp hs
  exact burst_rejected (p.take n) (e.take n) (by rw [eN]; exact h32) (by rw [eN]; exact hnmod) ms hd hc' ht'
    (by rw [eL, eT]; exact hb)

/-- The same for one or two flipped bits anywhere in time stamp, payload or CRC field. -/
theorem one_or_two_bits_never_returned_by_client (p e : List Byte) (hlen : 32 ≤ p.length) (hmod : p.length % 32 = 0)
    (ms : List Msg) (h : decodeFrame p = .ok ms) (hc : hasCrc p) (ht : TouchesOnlyTimePayloadCrc p e)
    (hw : weight (bitsOf (e.take (18 + frameLen p + 4))) = 1 ∨ weight (bitsOf (e.take (18 + frameLen p + 4))) = 2)
    (bufBlocks : Nat) (segs : List (List Byte)) (hflat : segs.flatten = xorBytes p e) :
    ∀ ms', (receiveBytes bufBlocks segs).result ≠ .ok ms' := by
  refine Lemmas.CrcClient.receive_not_ok _
    (Lemmas.CrcClient.altered_noPrefixOk p e hc ht fun n h32 hnmod hnp hs => ?_) bufBlocks segs hflat
  obtain ⟨eN, hd, hc', eL, ht', eT⟩ := Lemmas.CrcPieces.long_prefix_hyps p e hlen hmod ms h hc ht n h32 hnmod hnp hs
  exact one_or_two_bits_rejected (p.take n) (e.take n) (by rw [eN]; exact h32) (by rw [eN]; exact hnmod) ms hd hc' ht'
    (by rw [eL, eT]; exact hw)

#print axioms burst_never_returned_by_client
#print axioms one_or_two_bits_never_returned_by_client
end Rscp.Props.C04
