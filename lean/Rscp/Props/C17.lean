/-
C17 — independent clients and codec calls do not interfere (partial by nature: the Go memory model,
the scheduler and third-party internals are monitored with the race detector, not proved).
-/
import Rscp.Lemmas.Interleave
namespace Rscp.Props.C17
open Rscp Rscp.Model

/-- For every interleaving the scheduler may produce, what agent `i` observes is exactly what it observes
    running alone on its own sequence of actions. -/
theorem interleaving_invariant {σ α ω : Type} (a : Agent σ α ω) (g : Nat → σ) (sched : List (Nat × α)) (i : Nat) :
    ((a.global g sched).filter (fun p => p.1 == i)).map (·.2) =
      a.solo (g i) ((sched.filter (fun p => p.1 == i)).map (·.2)) := by
  exact Agent.global_filter_eq_solo a sched i g

/-- steps of different agents commute -/
theorem steps_commute {σ α ω : Type} (a : Agent σ α ω) (g : Nat → σ) (i j : Nat) (x y : α) (h : i ≠ j)
    (rest : List (Nat × α)) (k : Nat) :
    ((a.global g ((i, x) :: (j, y) :: rest)).filter (fun p => p.1 == k)).map (·.2) =
    ((a.global g ((j, y) :: (i, x) :: rest)).filter (fun p => p.1 == k)).map (·.2) := by
  rw [Agent.global_filter_eq_solo, Agent.global_filter_eq_solo]
  congr 1
  by_cases hi : i = k <;> by_cases hj : j = k <;> simp_all

/-- no function of package rscp writes a package-level variable (the regenerated list of write sites is empty) -/
theorem no_package_writes : Gen.Shape.rscpGlobalWrites = [] := by
  rfl

end Rscp.Props.C17

#print axioms Rscp.Props.C17.interleaving_invariant
#print axioms Rscp.Props.C17.steps_commute
#print axioms Rscp.Props.C17.no_package_writes
