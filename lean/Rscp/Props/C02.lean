/-
C02 — decoding arbitrary bytes never panics or hangs.

The model's functions are total, structurally recursive Lean definitions whose fuel is the
input length + 2; running out of fuel is mapped to `.panic`. So "the result is never `.panic`"
says both that no Go panic site is reachable and that the recursion ends within that fuel.
-/
import Rscp.Props.C03
namespace Rscp.Props.C02
open Rscp Rscp.Model

/-- one `Read` call, in any state `Read` itself can have produced, on any data of any length -/
theorem read_never_panics (st : RState) (hst : Reachable st) (data : List Byte) :
    (readPlain st data).2 ≠ .panic :=
  C03.decode_total st hst data

/-- one-shot decoding of any byte string whatsoever -/
theorem decode_never_panics (plain : List Byte) : decodeFrame plain ≠ .panic :=
  C03.decode_total ({} : RState) Reachable.init plain

/-- any sequence of pieces (block-aligned or not, of any content), fed call after call from a reachable state -/
theorem stream_never_panics_from (chunks : List (List Byte)) :
    ∀ (st : RState), Reachable st → ∀ r ∈ readChunks st chunks, r ≠ .panic := by
  induction chunks with
  | nil =>
    intro st _ r hr
    unfold readChunks at hr
    exact absurd hr List.not_mem_nil
  | cons c cs ih =>
    intro st hst r hr
    unfold readChunks at hr
    rcases List.mem_cons.mp hr with h | h
    · rw [h]; exact C03.decode_total st hst c
    · exact ih _ (Reachable.step c hst) r h

/-- … in particular from the fresh state every `receive` starts with -/
theorem stream_never_panics (chunks : List (List Byte)) (r : Res (List Msg))
    (hr : r ∈ readChunks ({} : RState) chunks) : r ≠ .panic :=
  stream_never_panics_from chunks ({} : RState) Reachable.init r hr

/-- every outcome is a list of messages or an error -/
theorem outcome_is_messages_or_error (plain : List Byte) :
    (∃ ms, decodeFrame plain = .ok ms) ∨ (∃ e, decodeFrame plain = .err e) := by
  have := decode_never_panics plain
  cases h : decodeFrame plain with
  | ok ms => exact .inl ⟨ms, rfl⟩
  | err e => exact .inr ⟨e, rfl⟩
  | panic => exact absurd h this

end Rscp.Props.C02
