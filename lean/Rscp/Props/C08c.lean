/-
C08 / C06 — a healthy connection, end to end at byte level: both directions of one connection over its whole
lifetime. The two directions use independent CBC states, so the statement is the conjunction of
`C06.every_request_understood` (outbound) and `C06.every_reply_understood` (inbound); it is spelled out because it
is the byte-level content of "replies are paired with their requests" for a peer that answers every request
with one well-formed reply: exchange `k` carries request `k` to the peer and reply `k` back to the caller.
-/
import Rscp.Props.C06b
import Rscp.Props.C06c
namespace Rscp.Props.C08
open Rscp Rscp.Model

theorem healthy_connection_end_to_end (c : BlockCipher) (hok : c.OK) (hc : C07.BlockSized c)
    (iv : List Byte) (hiv : iv.length = 32) (b : Nat) (hb : 0 < b ∧ b ≤ 2049)
    -- outbound: the requests of the exchanges
    (reqs : List C06.Request) (hreq : ∀ r ∈ reqs, r.OK)
    -- inbound: the replies of the exchanges, their frames, and how the transport delivers each
    (replies : List C06.Reply) (hrep : ∀ r ∈ replies, r.OK)
    (frames : List (List Byte)) (hlen : replies.length = frames.length)
    (hf : ∀ p ∈ replies.zip frames, writePlain p.1.ms p.1.crc p.1.sec p.1.nsec = .ok p.2)
    (deliveries : List (List (List Byte))) (hd : C06.Delivers (peerWrites c iv frames) deliveries) :
    (∃ sent : List (List Byte),
        sent.length = reqs.length ∧
        (∀ p ∈ reqs.zip sent, C05.clientSend p.1.crc p.1.sec p.1.nsec p.1.ms = .ok p.2) ∧
        C06.peerReads c iv (peerWrites c iv sent) = reqs.map (fun r => Res.ok r.ms)) ∧
    (receiveCalls c b iv deliveries).map (fun o => (o.result, o.disconnected)) =
      replies.map (fun r => (Res.ok r.ms, false)) :=
  ⟨C06.every_request_understood c hok iv hiv reqs hreq,
   C06.every_reply_understood c hok hc iv hiv b hb replies hrep frames hlen hf deliveries hd⟩

end Rscp.Props.C08

#print axioms Rscp.Props.C08.healthy_connection_end_to_end
