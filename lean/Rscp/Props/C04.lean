/-
C04 — a checksummed frame that was altered is rejected.
Frame-level corollaries of the decoder ⇔ grammar equivalence (C03) and the CRC-32 theorems
(`Lemmas/Crc.lean`, `Lemmas/CrcOrder.lean`). Helper lemmas: `Lemmas/CrcFrame.lean`.
-/
import Rscp.Lemmas.CrcFrame
namespace Rscp.Props.C04
open Rscp Rscp.Model Rscp.Crc

/-- the declared data length of a plaintext frame -/
def frameLen (p : List Byte) : Nat := leNat ((p.drop 16).take 2)
/-- the frame announces a checksum (bit 12 of the control word) -/
def hasCrc (p : List Byte) : Prop := (leNat ((p.drop 2).take 2) >>> 12) &&& 1 = 1
/-- the error pattern leaves magic, control word, length field and everything behind the CRC alone:
    it touches time stamp, payload and CRC field only -/
def TouchesOnlyTimePayloadCrc (p e : List Byte) : Prop :=
  e.length = p.length ∧
  ∀ i, (i < 4 ∨ i = 16 ∨ i = 17 ∨ 18 + frameLen p + 4 ≤ i) → e.getD i 0 = 0

/-- an accepted frame that announces a checksum carries, behind its data, the CRC-32 of everything before it -/
theorem crc_gate (p : List Byte) (hlen : 32 ≤ p.length) (hmod : p.length % 32 = 0) (ms : List Msg)
    (h : decodeFrame p = .ok ms) (hc : hasCrc p) :
    Valid (p.take (18 + frameLen p)) ((p.drop (18 + frameLen p)).take 4) := by
  exact (Lemmas.CrcFrame.crc_gate p hlen hmod ms h hc).2

/-- any alteration of time stamp, payload or CRC field whose changed bits lie within 32 consecutive bit
    positions (wire order) turns an accepted checksummed frame into one that is reported as an error -/
theorem burst_rejected (p e : List Byte) (hlen : 32 ≤ p.length) (hmod : p.length % 32 = 0) (ms : List Msg)
    (h : decodeFrame p = .ok ms) (hc : hasCrc p) (ht : TouchesOnlyTimePayloadCrc p e)
    (hb : IsBurst (bitsOf (e.take (18 + frameLen p + 4)))) :
    ∃ err, decodeFrame (xorBytes p e) = .err err := by
  have hfs := (Lemmas.CrcFrame.crc_gate p hlen hmod ms h hc).1
  refine Lemmas.CrcFrame.altered_rejected p e hlen hmod ms h hc ht.1 ht.2 fun hv => burst_detected _ _ _ hv ?_ hb
  have := ht.1
  rw [List.length_take, List.length_take]; omega

/-- the same for one or two flipped bits anywhere in those fields, for every frame length the format allows -/
theorem one_or_two_bits_rejected (p e : List Byte) (hlen : 32 ≤ p.length) (hmod : p.length % 32 = 0) (ms : List Msg)
    (h : decodeFrame p = .ok ms) (hc : hasCrc p) (ht : TouchesOnlyTimePayloadCrc p e)
    (hw : weight (bitsOf (e.take (18 + frameLen p + 4))) = 1 ∨ weight (bitsOf (e.take (18 + frameLen p + 4))) = 2) :
    ∃ err, decodeFrame (xorBytes p e) = .err err := by
  have hfs := (Lemmas.CrcFrame.crc_gate p hlen hmod ms h hc).1
  have hL : leNat ((p.drop 16).take 2) < 256 ^ 2 := Lemmas.Decode.leNat_lt_of_length (by
    rw [List.length_take, List.length_drop]; omega)
  have hel := ht.1
  simp only [frameLen] at hfs hw
  refine Lemmas.CrcFrame.altered_rejected p e hlen hmod ms h hc ht.1 ht.2 fun hv =>
    one_two_bits_detected _ _ _ hv ?_ hw ?_
  · rw [List.length_take, List.length_take]; omega
  · rw [List.length_take]; omega

/-- byte-aligned corollary: any change confined to 4 consecutive bytes of those fields -/
theorem four_bytes_rejected (p e : List Byte) (hlen : 32 ≤ p.length) (hmod : p.length % 32 = 0) (ms : List Msg)
    (h : decodeFrame p = .ok ms) (hc : hasCrc p) (ht : TouchesOnlyTimePayloadCrc p e)
    (k : Nat) (hk : ∀ i, (i < k ∨ k + 4 ≤ i) → e.getD i 0 = 0) (hne : ∃ i, e.getD i 0 ≠ 0) :
    ∃ err, decodeFrame (xorBytes p e) = .err err := by
  exact burst_rejected p e hlen hmod ms h hc ht
    (Lemmas.CrcFrame.bytes_burst_take e _ k (fun i hi => ht.2 i (Or.inr (Or.inr (Or.inr hi)))) hk hne)

/-- the model's CRC is the published CRC-32: check value of "123456789" -/
example : crc32 [0x31, 0x32, 0x33, 0x34, 0x35, 0x36, 0x37, 0x38, 0x39] = 0xCBF43926 := by decide +kernel

#print axioms crc_gate
#print axioms burst_rejected
#print axioms one_or_two_bits_rejected
#print axioms four_bytes_rejected
end Rscp.Props.C04
