/-
C05 / C06 — the outbound direction of a connection over its whole lifetime: the client writes request frame after
request frame on ONE CBC encrypter (`resetCipher` in `connect`, advanced by every `Write`); an independent peer that
starts its decrypter from the same IV and chains with the last ciphertext block decodes every frame to exactly
the request list the caller passed — whatever was sent before on the connection.
-/
import Rscp.Model.SessionRecv
import Rscp.Props.C05
import Rscp.Props.C06
import Rscp.Lemmas.SessionSend
namespace Rscp.Props.C06
open Rscp Rscp.Model

/-- one transmitted request: the caller's list and the frame parameters the client used (checksum option, clock) -/
structure Request where
  ms : List Msg
  crc : Bool
  sec : Int
  nsec : Int

/-- what `Client.send` accepts: Go-representable values, sendable per the specification, clock in range -/
def Request.OK (r : Request) : Prop :=
  Spec.MsgsOK r.ms ∧ Spec.Sendable r.ms ∧ (-(2^63 : Int) ≤ r.sec ∧ r.sec < (2^63 : Int)) ∧ (0 ≤ r.nsec ∧ r.nsec < 1000000000)

/-- the peer's side: ciphertext frames decrypted one after the other on ONE CBC decrypter and decoded -/
def peerReads (c : BlockCipher) : List Byte → List (List Byte) → List (Res (List Msg))
  | _, [] => []
  | iv, ct :: rest =>
    let (pt, iv') := cbcDec c iv (toBlocks ct)
    decodeFrame pt.flatten :: peerReads c iv' rest

theorem peerWrites_step (c : BlockCipher) (iv p : List Byte) (rest : List (List Byte)) :
    peerWrites c iv (p :: rest) =
      (cbcEnc c iv (toBlocks p)).1.flatten :: peerWrites c (cbcEnc c iv (toBlocks p)).2 rest := rfl

theorem peerReads_nil (c : BlockCipher) (iv : List Byte) : peerReads c iv [] = [] := rfl

theorem peerReads_cons (c : BlockCipher) (iv ct : List Byte) (rest : List (List Byte)) :
    peerReads c iv (ct :: rest) =
      decodeFrame (cbcDec c iv (toBlocks ct)).1.flatten :: peerReads c (cbcDec c iv (toBlocks ct)).2 rest := rfl

/-- an accepted request is transmitted: `clientSend` hands over a frame -/
theorem Request.OK.sent {r : Request} (h : r.OK) : ∃ p, C05.clientSend r.crc r.sec r.nsec r.ms = .ok p := by
  obtain ⟨hgo, hsend, -, -⟩ := h
  cases hcs : C05.clientSend r.crc r.sec r.nsec r.ms with
  | ok p => exact ⟨p, rfl⟩
  | err e => exact absurd hsend ((C05.send_refuses_iff r.crc r.sec r.nsec r.ms hgo).mp ⟨e, hcs⟩)
  | panic => exact absurd hcs (C05.send_no_panic r.crc r.sec r.nsec r.ms hgo)

/-- one frame written by the client and read by the peer, both in the same chaining state: the peer decodes the
    request list, and both are left in the same state (a block) -/
theorem peer_step (c : BlockCipher) (hok : c.OK) (iv : List Byte) (hiv : iv.length = 32) (r : Request) (h : r.OK)
    (p : List Byte) (hp : C05.clientSend r.crc r.sec r.nsec r.ms = .ok p) (rest : List (List Byte)) :
    peerReads c iv (peerWrites c iv (p :: rest)) =
      Res.ok r.ms :: peerReads c (cbcEnc c iv (toBlocks p)).2 (peerWrites c (cbcEnc c iv (toBlocks p)).2 rest) ∧
    (cbcEnc c iv (toBlocks p)).2.length = 32 := by
  obtain ⟨hgo, -, hs, hn⟩ := h
  obtain ⟨-, hmod, -, hdec, -, -⟩ := C05.send_frame_wf r.crc r.sec r.nsec r.ms hgo hs hn p hp
  obtain ⟨h1, h2, h3⟩ := Lemmas.SessionSend.cbcDec_cbcEnc c hok iv hiv p hmod
  refine ⟨?_, h3⟩
  rw [peerWrites_step, peerReads_cons, h1, h2, hdec]

/-- **Every request of a connection is understood by the peer.** For every sequence of accepted requests the client
    produces frames (`clientSend` succeeds for each), and a peer that follows the scheme decodes frame `k` to
    request list `k`. For every block cipher with D∘E = id. -/
theorem every_request_understood (c : BlockCipher) (hok : c.OK) (iv : List Byte) (hiv : iv.length = 32)
    (reqs : List Request) (hr : ∀ r ∈ reqs, r.OK) :
    ∃ frames : List (List Byte),
      frames.length = reqs.length ∧
      (∀ p ∈ reqs.zip frames, C05.clientSend p.1.crc p.1.sec p.1.nsec p.1.ms = .ok p.2) ∧
      peerReads c iv (peerWrites c iv frames) = reqs.map (fun r => Res.ok r.ms) := by
  induction reqs generalizing iv with
  | nil => exact ⟨[], rfl, (fun p hp => by cases hp), rfl⟩
  | cons r rs ih =>
    have hrok : r.OK := hr r (List.mem_cons_self ..)
    obtain ⟨p, hp⟩ := hrok.sent
    have hst := (peer_step c hok iv hiv r hrok p hp []).2
    obtain ⟨fs, hlen, hsend, hread⟩ := ih (cbcEnc c iv (toBlocks p)).2 hst (fun x hx => hr x (List.mem_cons_of_mem _ hx))
    refine ⟨p :: fs, ?_, ?_, ?_⟩
    · rw [List.length_cons, List.length_cons, hlen]
    · intro q hq
      rw [List.zip_cons_cons] at hq
      rcases List.mem_cons.mp hq with rfl | hq
      · exact hp
      · exact hsend q hq
    · rw [(peer_step c hok iv hiv r hrok p hp fs).1, hread, List.map_cons]

/-- non-vacuity -/
example : Request.OK ⟨[.mk 0x00000001 Gen.C.None .nil], true, 1, 2⟩ := by
  refine ⟨?_, ?_, ⟨by decide, by decide⟩, ⟨by decide, by decide⟩⟩
  · simp [Spec.MsgsOK, Spec.MsgOK, Spec.ValOK, Gen.C.None]
  · refine ⟨?_, ?_, by decide⟩
    · intro m hm
      rcases List.mem_singleton.mp hm with rfl
      decide
    · simp [Spec.ItemsOK, Spec.ItemOK, Spec.typeRow, Spec.typeTable, lookup, Val.kind, Spec.wireValSize,
        Spec.maxItemData, Gen.C.None]

#print axioms Rscp.Props.C06.every_request_understood

end Rscp.Props.C06
