/-
Definitions of C05's statements (executable, core only, so that the driver can run them).
-/
import Rscp.Model.Codec
namespace Rscp.Props.C05
open Rscp Rscp.Model

/-- what `Client.send` hands to the cipher for transmission, or the error it returns instead -/
def clientSend (useCrc : Bool) (sec nsec : Int) (reqs : List Msg) : Res (List Byte) :=
  match validateRequests reqs with
  | .ok () => writePlain reqs useCrc sec nsec
  | .err e => .err e
  | .panic => .panic

/-- the time stamp a plaintext frame carries -/
def frameTime (p : List Byte) : Int × Int :=
  (toSigned 8 (leNat ((p.drop 4).take 8)), toSigned 4 (leNat ((p.drop 12).take 4)))

end Rscp.Props.C05
