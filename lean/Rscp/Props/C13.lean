/-
C13 — the JSON output reports exactly what the device answered.
Statements over `Model/JsonOut.lean`. Helper lemmas: `Lemmas/JsonOut.lean`.

KNOWN FINDING (known_findings.json, C13): `encoding/json` cannot print NaN/±Inf floats nor time stamps
outside the years 0…9999 (format `json`: nor negative years), so "one document for every response" holds
only for responses without such leaves: `output_is_one_document_partial`. The failing witnesses are
proved below (`nan_fails`, `year_10000_fails`, `negative_year_fails_in_json`).
-/
import Rscp.Lemmas.JsonOut
namespace Rscp.Props.C13
open Rscp Rscp.Model

/-- the containers that arrived under tag `t` on this level, in order -/
def containersOf (t : Nat) : List Msg → List (List Msg)
  | [] => []
  | .mk t' _ (.msgs c) :: r => if t' = t then c :: containersOf t r else containersOf t r
  | _ :: r => containersOf t r

/-- the scalar values that arrived under tag `t` on this level, in order -/
def scalarsOf (t : Nat) : List Msg → List Val
  | [] => []
  | .mk _ _ (.msgs _) :: r => scalarsOf t r
  | .mk t' _ v :: r => if t' = t then v :: scalarsOf t r else scalarsOf t r

/-- no leaf that `encoding/json` cannot print (see the known finding) -/
def Printable (inMap : Bool) : Val → Prop
  | .msgs _ => True
  | v => (leafJO inMap v).isSome

mutual
def AllPrintable (inMap : Bool) : List Msg → Prop
  | [] => True
  | m :: ms => MsgPrintable inMap m ∧ AllPrintable inMap ms
def MsgPrintable (inMap : Bool) : Msg → Prop
  | .mk _ _ (.msgs c) => AllPrintable inMap c
  | .mk _ _ v => Printable inMap v
end

/-- jsonmerged: a tag's key holds exactly what arrived under that tag on this level —
    nothing if nothing arrived; the merged object of its single container; the array of the merged objects of all
    its containers, in order, if it repeats; the last scalar only if no container arrived under it.
    In particular a key never holds data that arrived under another tag and no container occurrence is lost. -/
theorem merged_key_owns_its_data (ms : List Msg) (t : Nat) :
    mget t (merged ms).entries =
      match containersOf t ms, (scalarsOf t ms).getLast? with
      | [], none => none
      | [], some v => some (.scalar v)
      | [c], _ => some (.one (merged c))
      | cs, _ => some (.many (cs.map merged)) := by
  have hc : ∀ ms, containersOf t ms = Lemmas.JsonOut.containers t ms := by
    intro ms
    induction ms with
    | nil => rfl
    | cons m r ih =>
      obtain ⟨t', d, v⟩ := m
      cases v <;> simp [containersOf, Lemmas.JsonOut.containers, ih]
  have hs : ∀ ms, scalarsOf t ms = Lemmas.JsonOut.scalars t ms := by
    intro ms
    induction ms with
    | nil => rfl
    | cons m r ih =>
      obtain ⟨t', d, v⟩ := m
      cases v <;> simp [scalarsOf, Lemmas.JsonOut.scalars, ih]
  rw [hc, hs]
  exact Lemmas.JsonOut.mget_merged ms t

/-- every key of the merged object is the tag of a message of this level, and each occurs once -/
theorem merged_keys (ms : List Msg) :
    ((merged ms).entries.map (·.1)).Nodup ∧ ∀ t, t ∈ (merged ms).entries.map (·.1) ↔ ∃ m ∈ ms, m.tag = t := by
  exact Lemmas.JsonOut.keys_merged ms

/-- deterministic output: the keys of every printed object are in ascending tag order -/
theorem merged_keys_sorted (es : List (Nat × MVal)) (kvs : List (Nat × JO)) (h : marshalEntries es = some kvs) :
    (kvs.map (·.1)).Pairwise (· ≤ ·) := by
  exact Lemmas.JsonOut.sorted_marshalEntries es kvs h

/-- jsonsimple is the ordered list of one-key objects, nested likewise -/
theorem simple_shape (ms : List Msg) (xs : List JO) (h : fmtSimpleList ms = some xs) :
    xs.length = ms.length ∧ ∀ i (hi : i < ms.length) (hx : i < xs.length),
      ∃ j, xs[i] = .obj [(tagKey (ms[i]).tag, j)] ∧
        (∀ c, (ms[i]).val = .msgs c → ∃ ys, j = .arr ys ∧ fmtSimpleList c = some ys) := by
  exact Lemmas.JsonOut.simple_shape ms xs h

/-- json lists every message with tag, type and value, nested likewise -/
theorem json_shape (ms : List Msg) (xs : List JO) (h : fmtJsonList ms = some xs) :
    xs.length = ms.length ∧ ∀ i (hi : i < ms.length) (hx : i < xs.length),
      ∃ j, xs[i] = .obj [("Tag", .str (tagKey (ms[i]).tag).toUTF8.toList),
                          ("DataType", .str (dataTypeKey (ms[i]).dt).toUTF8.toList), ("Value", j)] := by
  exact Lemmas.JsonOut.json_shape ms xs h

/-- PARTIAL (see the known finding): every response without an unprintable leaf gives one document in every format;
    scalar/container collisions, repeated and interleaved tags, unknown tags, any nesting never make it fail -/
theorem output_is_one_document_partial (ms : List Msg) :
    (AllPrintable true ms → (fmtMerged ms).isSome ∧ (fmtSimple ms).isSome) ∧
    (AllPrintable false ms → (fmtJson ms).isSome) := by
  have hP : ∀ b, Lemmas.JsonOut.PrintableForest b (AllPrintable b) := by
    intro b
    constructor
    · intro t d c r h
      simpa [AllPrintable, MsgPrintable] using h
    · intro t d v r hv h
      cases v <;> first | exact absurd rfl (hv _) | simpa [AllPrintable, MsgPrintable, Printable] using h
  exact ⟨Lemmas.JsonOut.one_document_map (hP true) ms, Lemmas.JsonOut.one_document_json (hP false) ms⟩

/-- the witnesses of the known finding, in the model -/
theorem nan_fails : fmtJson [.mk 8388609 11 (.num .f64 9221120237041090560)] = none ∧
    fmtSimple [.mk 8388609 11 (.num .f64 9221120237041090560)] = none ∧
    fmtMerged [.mk 8388609 11 (.num .f64 9221120237041090560)] = none := by
  refine ⟨?_, ?_, ?_⟩
  · simp [fmtJson, fmtJsonList, fmtJsonMsg, Lemmas.JsonOut.leaf_nan]
  · simp [fmtSimple, fmtSimpleList, fmtSimpleMsg, Lemmas.JsonOut.leaf_nan]
  · simp [fmtMerged, merged, mergedOf, mget, mset, marshalMObj, marshalEntries, marshalMVal, Lemmas.JsonOut.leaf_nan]
theorem year_10000_fails : fmtMerged [.mk 167772175 15 (.time 253402300800 0)] = none := by
  simp [fmtMerged, merged, mergedOf, mget, mset, marshalMObj, marshalEntries, marshalMVal, Lemmas.JsonOut.leaf_year_10000]
theorem negative_year_fails_in_json : fmtJson [.mk 167772175 15 (.time (-62167219201) 0)] = none ∧
    (fmtMerged [.mk 167772175 15 (.time (-62167219201) 0)]).isSome := by
  constructor
  · simp [fmtJson, fmtJsonList, fmtJsonMsg, Lemmas.JsonOut.leaf_year_neg_struct]
  · simp [fmtMerged, merged, mergedOf, mget, mset, marshalMObj, marshalEntries, marshalMVal, Lemmas.JsonOut.leaf_year_neg_map]

/-- scalar values are reported exactly: integers as the same integer, strings as the same bytes, booleans and null
    as themselves, a time stamp whose year is 0…9999 as the same instant — in every format -/
theorem scalars_reported_exactly (inMap : Bool) :
    (∀ k n, k ≠ .f32 → k ≠ .f64 → k ≠ .rerr → leafJO inMap (.num k n) = some (.int n)) ∧
    (∀ s, leafJO inMap (.str s) = some (.str s)) ∧
    (∀ b, leafJO inMap (.bool b) = some (.bool b)) ∧
    leafJO inMap .nil = some .null ∧
    (∀ s ns, 0 ≤ goYear s → goYear s ≤ 9999 → leafJO inMap (.time s ns) = some (.tim s ns)) := by
  refine ⟨?_, fun _ => rfl, fun _ => rfl, rfl, ?_⟩
  · intro k n h1 h2 h3
    cases k <;> first | rfl | exact absurd rfl h1 | exact absurd rfl h2 | exact absurd rfl h3
  · intro s ns h0 h1
    unfold leafJO
    have hn : ¬ (goYear s < 0) := by omega
    have hg : ¬ (goYear s > 9999) := by omega
    simp only [hn, hg, and_false, or_self, if_false]

/-- the one documented rewrite: in the map formats (jsonsimple, jsonmerged) a time stamp before year 0 is printed
    as 1970-01-01T00:00:00Z -/
theorem negative_year_rewritten_in_map_formats (s ns : Int) (h : goYear s < 0) :
    leafJO true (.time s ns) = some (.tim 0 0) := by
  unfold leafJO
  simp only [h, and_self, if_true]

#print axioms scalars_reported_exactly
#print axioms negative_year_rewritten_in_map_formats
#print axioms merged_key_owns_its_data
#print axioms merged_keys
#print axioms merged_keys_sorted
#print axioms simple_shape
#print axioms json_shape
#print axioms output_is_one_document_partial
#print axioms nan_fails
#print axioms year_10000_fails
#print axioms negative_year_fails_in_json

end Rscp.Props.C13
