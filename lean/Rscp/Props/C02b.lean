/-
C02 (continued) — pieces and abandoned frames in any order never make the decoder panic, and after an
abandoned frame the decoder answers like a fresh one.

`Model.readChunksAbandon` (the function the driver's `decsa` operation runs) feeds pieces call after call;
`none` stands for a caller that gives the frame in progress up: it empties its buffer and keeps its other
variables. A state `{ st with buf := [] }` is in general NOT `Model.Reachable` (the only states with an empty
buffer that calls alone leave behind have all other variables at their zero values), so the no-panic theorem
does not go through `Reachable` but through the invariant behind it, `Lemmas.Decode.StateOK` ("a CRC is only
expected in a frame that has room for it"): it speaks of the checksum flag and the frame size only, hence
emptying the buffer keeps it, every call keeps it (`readPlain_stateOK`) and no call from a state that has it
panics (`readPlain_ne_panic`).
-/
import Rscp.Props.C02
import Rscp.Props.C01c
namespace Rscp.Props.C02
open Rscp Rscp.Model Rscp.Lemmas.Decode Rscp.Lemmas.Pieces

theorem readChunksAbandon_none (st : RState) (ops : List (Option (List Byte))) :
    readChunksAbandon st (none :: ops) = readChunksAbandon { st with buf := [] } ops := by
  rfl

theorem readChunksAbandon_some (st : RState) (c : List Byte) (ops : List (Option (List Byte))) :
    readChunksAbandon st (some c :: ops) =
      (readPlain st c).2 :: readChunksAbandon (readPlain st c).1 ops := by
  rfl

/-- without abandoned frames this is `readChunks` -/
theorem readChunksAbandon_map_some : ∀ (chunks : List (List Byte)) (st : RState),
    readChunksAbandon st (chunks.map some) = readChunks st chunks
  | [], _ => rfl
  | c :: cs, st => by
    rw [List.map_cons, readChunksAbandon_some, readChunks_cons, readChunksAbandon_map_some cs]

/-- giving a frame up keeps the invariant that rules the panic out (in place of reachability, which it
    does not keep) -/
theorem abandon_keeps_invariant (st : RState) (h : StateOK st) : StateOK { st with buf := [] } := h

/-- pieces and abandoned frames in any order, from any state with the invariant -/
theorem stream_with_abandon_never_panics_of_invariant (ops : List (Option (List Byte))) :
    ∀ (st : RState), StateOK st → ∀ r ∈ readChunksAbandon st ops, r ≠ .panic := by
  induction ops with
  | nil =>
    intro st _ r hr
    exact absurd hr List.not_mem_nil
  | cons o os ih =>
    intro st hst r hr
    cases o with
    | none =>
      rw [readChunksAbandon_none] at hr
      exact ih _ (abandon_keeps_invariant st hst) r hr
    | some c =>
      rw [readChunksAbandon_some] at hr
      rcases List.mem_cons.mp hr with h | h
      · rw [h]; exact readPlain_ne_panic st c hst
      · exact ih _ (readPlain_stateOK st c hst) r h

/-- pieces and abandoned frames in any order, from any state a sequence of calls could have left behind -/
theorem stream_with_abandon_never_panics_from (st : RState) (hst : Reachable st)
    (ops : List (Option (List Byte))) (r : Res (List Msg))
    (hr : r ∈ readChunksAbandon st ops) : r ≠ .panic :=
  stream_with_abandon_never_panics_of_invariant ops st (stateOK_of_reachable hst) r hr

/-- pieces and abandoned frames in any order, from the fresh state: no call ever panics -/
theorem stream_with_abandon_never_panics (ops : List (Option (List Byte))) (r : Res (List Msg))
    (hr : r ∈ Model.readChunksAbandon {} ops) : r ≠ .panic :=
  stream_with_abandon_never_panics_from {} Reachable.init ops r hr

/-- two decoders that are the same or both have an empty buffer answer alike, also across abandoned frames -/
theorem readChunksAbandon_alike : ∀ (ops : List (Option (List Byte))) (s t : RState), Alike s t →
    readChunksAbandon s ops = readChunksAbandon t ops
  | [], _, _, _ => rfl
  | none :: os, s, t, _ => by
    rw [readChunksAbandon_none, readChunksAbandon_none]
    exact readChunksAbandon_alike os _ _ (Or.inr ⟨rfl, rfl⟩)
  | some c :: os, s, t, h => by
    obtain ⟨h1, h2⟩ := readPlain_alike s t h c
    rw [readChunksAbandon_some, readChunksAbandon_some, h1, readChunksAbandon_alike os _ _ h2]

/-- after an abandoned frame the answers are those of a fresh decoder -/
theorem abandon_then_fresh (st : Model.RState) (ops : List (Option (List Byte))) :
    Model.readChunksAbandon { st with buf := [] } ops = Model.readChunksAbandon {} ops :=
  readChunksAbandon_alike ops _ _ (Or.inr ⟨rfl, rfl⟩)

/-- … so whatever came before an abandoned frame (pieces, other abandoned frames) does not show in the
    answers after it -/
theorem answers_after_abandon (st : RState) (before after : List (Option (List Byte))) :
    ∃ pre, readChunksAbandon st (before ++ none :: after) = pre ++ readChunksAbandon {} after := by
  induction before generalizing st with
  | nil => exact ⟨[], by rw [List.nil_append, readChunksAbandon_none, abandon_then_fresh, List.nil_append]⟩
  | cons o os ih =>
    cases o with
    | none =>
      obtain ⟨pre, h⟩ := ih { st with buf := [] }
      exact ⟨pre, by rw [List.cons_append, readChunksAbandon_none, h]⟩
    | some c =>
      obtain ⟨pre, h⟩ := ih (readPlain st c).1
      exact ⟨(readPlain st c).2 :: pre, by rw [List.cons_append, readChunksAbandon_some, h, List.cons_append]⟩

#print axioms abandon_keeps_invariant
#print axioms stream_with_abandon_never_panics_of_invariant
#print axioms stream_with_abandon_never_panics_from
#print axioms stream_with_abandon_never_panics
#print axioms readChunksAbandon_map_some
#print axioms abandon_then_fresh
#print axioms answers_after_abandon
end Rscp.Props.C02
