/-
C03 (continued) — a well-formed frame delivered in block-aligned pieces: no piece draws an error other than
"incomplete" (ErrRscpInvalidFrameLength), the piece that completes the frame returns its messages, and such
a piece exists. Corollaries of `chunking` (C03) and of one-shot decoding on the block-aligned prefixes of an
accepted frame. Helper lemmas: `Lemmas/Pieces.lean`.
-/
import Rscp.Props.C03
import Rscp.Lemmas.Pieces
namespace Rscp.Props.C03
open Rscp

/-- the size of the frame proper that the header of `p` announces: header, data, and the checksum if bit 12
    of the control word is set (the `frameSize` of the frame grammar) -/
def announcedSize (p : List Byte) : Nat :=
  18 + leNat ((p.drop 16).take 2) + (if (leNat ((p.drop 2).take 2) >>> 12) &&& 1 = 1 then 4 else 0)

/-- The exact answer of the `j`-th call, as long as every earlier call answered "incomplete": "incomplete"
    while the pieces so far do not cover the announced frame size, the messages as soon as they do. -/
theorem wellformed_piece_answer (p : List Byte) (hlen : 32 ≤ p.length) (hmod : p.length % 32 = 0) (ms : List Msg)
    (h : Model.decodeFrame p = .ok ms)
    (chunks : List (List Byte)) (hch : ∀ c ∈ chunks, 32 ≤ c.length ∧ c.length % 32 = 0)
    (hflat : chunks.flatten = p)
    (j : Nat) (hj : j < chunks.length)
    (hprev : ∀ i, i < j → (Model.readChunks {} chunks)[i]? = some (.err .invalidFrameLength)) :
    (Model.readChunks {} chunks)[j]? =
      some (if (chunks.take (j+1)).flatten.length < announcedSize p then .err .invalidFrameLength else .ok ms) := by
  obtain ⟨cf, fs, ds, hh, hans⟩ := Lemmas.Pieces.piece_answer p ⟨hlen, hmod⟩ ms h chunks hch hflat j hj hprev
  rw [hans, Lemmas.Pieces.readHeader_ok_size (by omega) hh]
  rfl

/-- The pieces of a well-formed frame never draw an error other than "incomplete": up to and including the
    first call that answers anything else, the answer is "incomplete" or the messages of the frame. -/
theorem wellformed_in_pieces (p : List Byte) (hlen : 32 ≤ p.length) (hmod : p.length % 32 = 0) (ms : List Msg)
    (h : Model.decodeFrame p = .ok ms)
    (chunks : List (List Byte)) (hch : ∀ c ∈ chunks, 32 ≤ c.length ∧ c.length % 32 = 0)
    (hflat : chunks.flatten = p)
    (j : Nat) (hj : j < chunks.length)
    (hprev : ∀ i, i < j → (Model.readChunks {} chunks)[i]? = some (.err .invalidFrameLength)) :
    (Model.readChunks {} chunks)[j]? = some (.err .invalidFrameLength) ∨ (Model.readChunks {} chunks)[j]? = some (.ok ms) := by
  rw [wellformed_piece_answer p hlen hmod ms h chunks hch hflat j hj hprev]
  split
  · exact Or.inl rfl
  · exact Or.inr rfl

/-- Completeness: if every piece before the last answered "incomplete", the last piece returns the messages. -/
theorem wellformed_last_piece (p : List Byte) (ms : List Msg)
    (h : Model.decodeFrame p = .ok ms)
    (chunks : List (List Byte)) (hch : ∀ c ∈ chunks, 32 ≤ c.length ∧ c.length % 32 = 0)
    (hflat : chunks.flatten = p) (hne : chunks ≠ [])
    (hprev : ∀ i, i < chunks.length - 1 → (Model.readChunks {} chunks)[i]? = some (.err .invalidFrameLength)) :
    (Model.readChunks {} chunks)[chunks.length - 1]? = some (.ok ms) :=
  Lemmas.Pieces.last_piece p ms h chunks hch hflat hne hprev

/-- Delivery, without a hypothesis on the earlier answers: some piece returns the messages, and every piece
    before it answers "incomplete". -/
theorem wellformed_delivered (p : List Byte) (hlen : 32 ≤ p.length) (hmod : p.length % 32 = 0) (ms : List Msg)
    (h : Model.decodeFrame p = .ok ms)
    (chunks : List (List Byte)) (hch : ∀ c ∈ chunks, 32 ≤ c.length ∧ c.length % 32 = 0)
    (hflat : chunks.flatten = p) :
    ∃ j, j < chunks.length ∧
      (∀ i, i < j → (Model.readChunks {} chunks)[i]? = some (.err .invalidFrameLength)) ∧
      (Model.readChunks {} chunks)[j]? = some (.ok ms) := by
  have hne : chunks ≠ [] := by
    intro h0
    rw [h0] at hflat
    rw [← hflat] at hlen
    simp at hlen
  have hpos : 0 < chunks.length := List.length_pos_iff.mpr hne
  rcases Lemmas.Pieces.first_answer p ⟨hlen, hmod⟩ ms h chunks hch hflat (chunks.length - 1) (by omega) with
    hall | ⟨j, hj, hpre, hok⟩
  · exact ⟨chunks.length - 1, by omega, hall, wellformed_last_piece p ms h chunks hch hflat hne hall⟩
  · exact ⟨j, by omega, hpre, hok⟩

/-! ### the hypotheses can be met: a 64-byte frame (one 31-byte ByteArray item, checksum; announced size 60)
    delivered as two 32-byte pieces — first answer "incomplete", second answer the messages -/
section NonVacuity
private def exP : List Byte :=
  [0xE3, 0xDC, 0x00, 0x11] ++ List.replicate 12 0 ++ [38, 0] ++ [1, 0, 0, 0, 0x10, 31, 0] ++ List.replicate 31 7 ++
    [0x32, 0xBC, 0xA4, 0x0D] ++ List.replicate 4 0
private def exChunks : List (List Byte) := [exP.take 32, exP.drop 32]
private def isOk {α : Type} : Res α → Bool | .ok _ => true | _ => false

example : ∃ ms, Model.decodeFrame exP = .ok ms ∧
    (Model.readChunks {} exChunks)[0]? = some (.err .invalidFrameLength) ∧
    (Model.readChunks {} exChunks)[1]? = some (.ok ms) := by
  have hok : isOk (Model.decodeFrame exP) = true := by decide +kernel
  cases hd : Model.decodeFrame exP with
  | err _ => rw [hd] at hok; cases hok
  | panic => rw [hd] at hok; cases hok
  | ok ms =>
    have hch : ∀ c ∈ exChunks, 32 ≤ c.length ∧ c.length % 32 = 0 := by decide +kernel
    have hflat : exChunks.flatten = exP := by decide +kernel
    have h0 : (Model.readChunks {} exChunks)[0]? = some (.err .invalidFrameLength) := by
      rw [wellformed_piece_answer exP (by decide) (by decide) ms hd exChunks hch hflat 0 (by decide)
        (fun i hi => absurd hi (Nat.not_lt_zero i))]
      have : (exChunks.take (0+1)).flatten.length < announcedSize exP := by decide +kernel
      rw [if_pos this]
    refine ⟨ms, rfl, h0, ?_⟩
    refine wellformed_last_piece exP ms hd exChunks hch hflat (by decide) ?_
    intro i hi
    have : i = 0 := by
      have : exChunks.length = 2 := rfl
      omega
    subst this; exact h0
end NonVacuity

#print axioms wellformed_piece_answer
#print axioms wellformed_in_pieces
#print axioms wellformed_last_piece
#print axioms wellformed_delivered
end Rscp.Props.C03
