/-
Property C03: the decoder model accepts exactly the well-formed frames, rejects everything else
with an error, never panics, and gives the same answers when a frame arrives in pieces.
Only the property theorems live here; the proofs are in `Rscp.Lemmas.Decode`.
-/
import Rscp.Lemmas.Decode
namespace Rscp.Props.C03
open Rscp

/-- A block-aligned plaintext is accepted by the decoder model exactly when the frame grammar accepts it, with the same messages. -/
theorem accept_iff_wf (plain : List Byte) (hlen : 32 ≤ plain.length) (hmod : plain.length % 32 = 0) (ms : List Msg) :
    Model.decodeFrame plain = .ok ms ↔ Spec.specDecode plain = some ms :=
  (Lemmas.Decode.decodeFrame_agree plain ⟨hlen, hmod⟩).ok_iff ms

/-- What the grammar rejects is reported as an error: never a panic (nor out of fuel), never a partial result. -/
theorem reject_is_error (plain : List Byte) (hlen : 32 ≤ plain.length) (hmod : plain.length % 32 = 0)
    (h : Spec.specDecode plain = none) : ∃ e, Model.decodeFrame plain = .err e :=
  Lemmas.Decode.Agree.err_of_none (h ▸ Lemmas.Decode.decodeFrame_agree plain ⟨hlen, hmod⟩)

/-- Decoding never panics and never runs out of fuel, on any input at all, in any state `Read` can be in:
    the initial state and every state a sequence of calls on arbitrary data leaves behind (C02). -/
theorem decode_total (st : Model.RState) (hst : Model.Reachable st) (data : List Byte) :
    (Model.readPlain st data).2 ≠ .panic :=
  Lemmas.Decode.readPlain_ne_panic st data (Lemmas.Decode.stateOK_of_reachable hst)

/-- Block-aligned pieces: as long as every earlier call answered "incomplete" (ErrRscpInvalidFrameLength), the j-th call answers exactly what one-shot decoding of the concatenation of the first j+1 pieces answers. -/
theorem chunking (chunks : List (List Byte)) (hc : ∀ c ∈ chunks, 32 ≤ c.length ∧ c.length % 32 = 0)
    (j : Nat) (hj : j < chunks.length)
    (hprev : ∀ i, i < j → (Model.readChunks {} chunks)[i]? = some (.err .invalidFrameLength)) :
    (Model.readChunks {} chunks)[j]? = some (Model.decodeFrame (chunks.take (j+1)).flatten) :=
  Lemmas.Decode.chunking_aux chunks hc j hj hprev

#print axioms accept_iff_wf
#print axioms reject_is_error
#print axioms decode_total
#print axioms chunking
end Rscp.Props.C03
