/-
C10 — every call returns within the configured timeouts (partial by nature: logical time).
What is proved: which blocking operations a call performs and under which deadline; what is assumed
(trusted base): each blocking operation of the Go runtime returns no later than its deadline.
Helper lemmas: `Lemmas/Timing.lean`.
-/
import Rscp.Lemmas.Timing
namespace Rscp.Props.C10
open Rscp Rscp.Model

/-- the instrumented machine is the client machine -/
theorem io_is_sendMultiple (cred : Cred) (st : CState) (reqs : List Msg) (sc : Script) :
    (sendMultipleIO cred st reqs sc).1 = sendMultiple cred st reqs sc := by
  exact sendMultipleIO_fst cred st reqs sc

/-- a call performs at most: one dial, then write+receive for the authentication, then write+receive for the
    request — in that order -/
theorem io_shape (cred : Cred) (st : CState) (reqs : List Msg) (sc : Script) :
    List.Sublist (sendMultipleIO cred st reqs sc).2 [.dial, .write, .recv, .write, .recv] := by
  exact sendMultipleIO_sublist cred st reqs sc

/-- hence, if every blocking operation returns within the budget the code gives it (the runtime assumption),
    a call returns within connection + 2·send + 2·receive timeouts; `dur` is the time each operation took -/
theorem call_bounded (cfg : Config) (cred : Cred) (st : CState) (reqs : List Msg) (sc : Script)
    (hpos : 0 ≤ cfg.connTimeout ∧ 0 ≤ cfg.sendTimeout ∧ 0 ≤ cfg.recvTimeout)
    (dur : List Int) (hlen : dur.length = (sendMultipleIO cred st reqs sc).2.length)
    (hdur : ∀ i (h : i < dur.length), dur[i] ≤ budget cfg ((sendMultipleIO cred st reqs sc).2[i]'(hlen ▸ h))) :
    dur.sum ≤ cfg.connTimeout + 2 * cfg.sendTimeout + 2 * cfg.recvTimeout := by
  have h1 := sum_le_map_sum (budget cfg) dur (sendMultipleIO cred st reqs sc).2 hlen hdur
  have h2 := map_sum_le_of_sublist (budget cfg) (budget_nonneg cfg hpos) (sendMultipleIO_sublist cred st reqs sc)
  rw [full_budget] at h2
  omega

/-- one `receive` under one absolute deadline returns by that deadline, whatever the peer does: however many
    reads succeed, however late or never a frame completes (trickle, endless data, silence) -/
theorem receive_deadline_absolute (R t0 : Int) (arrivals : List Int) (k : Nat) (hR : 0 ≤ R) :
    recvReturnsAt R t0 arrivals k ≤ t0 + R := by
  have _ := hR  -- not needed: the bound holds for every R
  exact recvReturnsAt_le R t0 arrivals k

/-- whereas re-arming the deadline before every read would let a trickling peer hold the call for any time B -/
theorem rearming_is_unbounded (R t0 B : Int) (hR : 2 ≤ R) :
    ∃ arrivals k, recvReturnsAtRearmed R t0 arrivals k > t0 + B := by
  refine ⟨trickle t0 (B.toNat + 1), B.toNat, ?_⟩
  rw [rearmed_trickle R hR]
  omega

/-- zero or negative timeouts fall back to 3 s, so every budget is positive (from C16) -/
theorem timeouts_defaulted (c c' : Config) (h : checkConfig c = .ok c') :
    0 < budget c' .dial ∧ 0 < budget c' .write ∧ 0 < budget c' .recv ∧
    (c.connTimeout ≤ 0 → budget c' .dial = 3000000000) ∧ (c.sendTimeout ≤ 0 → budget c' .write = 3000000000) ∧
    (c.recvTimeout ≤ 0 → budget c' .recv = 3000000000) := by
  obtain ⟨s1, s2, s3, _⟩ := C16.effective_config_sane c c' h
  obtain ⟨_, d1, d2, d3, _⟩ := C16.defaults c c' h
  refine ⟨s1, s2, s3, ?_, ?_, ?_⟩
  · intro hc; show c'.connTimeout = 3000000000; rw [d1, if_pos hc]
  · intro hc; show c'.sendTimeout = 3000000000; rw [d2, if_pos hc]
  · intro hc; show c'.recvTimeout = 3000000000; rw [d3, if_pos hc]

end Rscp.Props.C10

#print axioms Rscp.Props.C10.io_is_sendMultiple
#print axioms Rscp.Props.C10.io_shape
#print axioms Rscp.Props.C10.call_bounded
#print axioms Rscp.Props.C10.receive_deadline_absolute
#print axioms Rscp.Props.C10.rearming_is_unbounded
#print axioms Rscp.Props.C10.timeouts_defaulted
