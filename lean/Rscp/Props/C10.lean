/-
C10 — every call returns within the configured timeouts (partial by nature: logical time).
What is proved: which blocking operations a call performs and under which deadline; what is assumed
(trusted base): each blocking operation of the Go runtime returns no later than its deadline.
Helper lemmas: `Lemmas/Timing.lean`.
-/
import Rscp.Lemmas.Timing
namespace Rscp.Props.C10
open Rscp Rscp.Model

/-- the instrumented machine is the client machine -/
theorem io_is_sendMultiple (cred : Cred) (st : CState) (reqs : List Msg) (sc : Script) :
    (sendMultipleIO cred st reqs sc).1 = sendMultiple cred st reqs sc := by
  sorry

/-- a call performs at most: one dial, then write+receive for the authentication, then write+receive for the
    request — in that order -/
theorem io_shape (cred : Cred) (st : CState) (reqs : List Msg) (sc : Script) :
    List.Sublist (sendMultipleIO cred st reqs sc).2 [.dial, .write, .recv, .write, .recv] := by
  sorry

/-- hence, if every blocking operation returns within the budget the code gives it (the runtime assumption),
    a call returns within connection + 2·send + 2·receive timeouts; `dur` is the time each operation took -/
theorem call_bounded (cfg : Config) (cred : Cred) (st : CState) (reqs : List Msg) (sc : Script)
    (hpos : 0 ≤ cfg.connTimeout ∧ 0 ≤ cfg.sendTimeout ∧ 0 ≤ cfg.recvTimeout)
    (dur : List Int) (hlen : dur.length = (sendMultipleIO cred st reqs sc).2.length)
    (hdur : ∀ i (h : i < dur.length), dur[i] ≤ budget cfg ((sendMultipleIO cred st reqs sc).2[i]'(hlen ▸ h))) :
    dur.sum ≤ cfg.connTimeout + 2 * cfg.sendTimeout + 2 * cfg.recvTimeout := by
  sorry

/-- one `receive` under one absolute deadline returns by that deadline, whatever the peer does: however many
    reads succeed, however late or never a frame completes (trickle, endless data, silence) -/
theorem receive_deadline_absolute (R t0 : Int) (arrivals : List Int) (k : Nat) (hR : 0 ≤ R) :
    recvReturnsAt R t0 arrivals k ≤ t0 + R := by
  sorry

/-- whereas re-arming the deadline before every read would let a trickling peer hold the call for any time B -/
theorem rearming_is_unbounded (R t0 B : Int) (hR : 2 ≤ R) :
    ∃ arrivals k, recvReturnsAtRearmed R t0 arrivals k > t0 + B := by
  sorry

/-- zero or negative timeouts fall back to 3 s, so every budget is positive (from C16) -/
theorem timeouts_defaulted (c c' : Config) (h : checkConfig c = .ok c') :
    0 < budget c' .dial ∧ 0 < budget c' .write ∧ 0 < budget c' .recv ∧
    (c.connTimeout ≤ 0 → budget c' .dial = 3000000000) ∧ (c.sendTimeout ≤ 0 → budget c' .write = 3000000000) ∧
    (c.recvTimeout ≤ 0 → budget c' .recv = 3000000000) := by
  sorry

end Rscp.Props.C10
