/-
C14 — tag and data-type vocabularies are coherent. All statements are about the REGENERATED
tables (`Rscp.Gen.*`), so they are re-checked against what the source says on every run.
Helper definitions and lemmas live in `Lemmas/Vocab.lean`.
-/
import Rscp.Lemmas.Vocab
namespace Rscp.Props.C14
open Rscp Rscp.Model Rscp.Lemmas.Vocab

/-- tag numbers are strictly increasing in `_TagValues`, hence unique -/
theorem tag_numbers_unique : Gen.tagValues.Nodup := by
  exact tagValues_nodup

/-- `_TagMap`, `_TagValues`, `_TagNameToValueMap` list the same tags in the same order -/
theorem tag_tables_aligned :
    Gen.tagMapC.map (·.1) = Gen.tagValues ∧ Gen.tagNameToValueC.map (fun p => (p.2, p.1)) = Gen.tagMapC ∧
      Gen.tagMap.map (·.1) = Gen.tagValues ∧ Gen.tagNameToValue.map (·.2) = Gen.tagValues := by
  exact ⟨tagMapC_keys, nameToValueC_swap, tagMap_keys, tagNameToValue_vals⟩

/-- every known tag has a unique name -/
theorem tag_names_unique : (Gen.tagMapC.map (·.2)).Nodup := by
  exact codes_nodup

/-- a tag's name parses back to the same number, and a name's number prints as that name -/
theorem name_roundtrip (t c : Nat) (h : tagName? t = some c) : tagStringC? c = some t := by
  exact Lemmas.Vocab.name_roundtrip t c h
theorem number_roundtrip (t c : Nat) (h : tagStringC? c = some t) : tagName? t = some c := by
  exact Lemmas.Vocab.number_roundtrip t c h

/-- names, numbers and declared data types of the published tags (the frozen snapshot of the pinned commit)
    are all still present, unchanged -/
theorem vocab_stable : ∀ e ∈ Snapshot.vocabC, e ∈ Gen.vocabC := by
  exact subseq_sound _ _ snapshot_subseq

/-- the vocabulary list is the tag table joined with the declared data types (`None` when not declared) -/
theorem vocab_consistent :
    Gen.vocabC.map (fun e => (e.1, e.2.1)) = Gen.tagMapC ∧ ∀ e ∈ Gen.vocabC, tagDataType e.1 = e.2.2 := by
  exact ⟨vocab_tagMapC, vocab_types⟩

/-- every declared data type is a defined data type, and every tag with a declaration is a known tag -/
theorem declared_types_defined : ∀ p ∈ Gen.dataTypeMap, isDataType p.2 = true ∧ isATag p.1 = true := by
  exact declared

/-- for each defined data type the validator, the decoder's allocation, the value constructor and the wire
    length agree on one representation — the one the protocol specification lists -/
theorem tables_agree (d : Nat) (h : isDataType d = true) :
    ∃ k fixed, Spec.typeRow d = some (k, fixed) ∧ lookup d Gen.validateKind = some k ∧
      lookup d Gen.newEmptyKind = some k ∧ lookup d Gen.newConvKind = some k ∧
      lookup d Gen.lengthMap = some (fixed.getD 0) := by
  exact Lemmas.Vocab.tables_agree d h

/-- and the tables have no entries beyond the defined data types -/
theorem tables_only_defined (d : Nat) :
    ((lookup d Gen.validateKind).isSome ∨ (lookup d Gen.newEmptyKind).isSome ∨ (lookup d Gen.newConvKind).isSome ∨
      (lookup d Gen.lengthMap).isSome ∨ (Spec.typeRow d).isSome) → isDataType d = true := by
  exact Lemmas.Vocab.tables_only_defined d

/-- a tag written to JSON reads back as itself: known tags by name, unknown ones as a decimal string -/
theorem json_tag_roundtrip_known (t c : Nat) (h : tagName? t = some c) (s : String) (hs : nameCode s = c) :
    tagUnmarshalStr s = some t := by
  unfold tagUnmarshalStr tagString?
  rw [hs, Lemmas.Vocab.name_roundtrip t c h]
theorem json_tag_roundtrip_unknown (t : Nat) (h : t < 2 ^ 32) (hu : tagName? t = none) :
    tagUnmarshalStr (toString t) = some t := by
  -- `hu` is not needed: no tag name is a decimal numeral, whether or not `t` is a known tag
  exact (fun _ => Lemmas.Vocab.json_tag_roundtrip_unknown t h) hu
/-- the code is injective, so "the name with this code" is well defined -/
theorem nameCode_injective (s₁ s₂ : String) (h : nameCode s₁ = nameCode s₂) : s₁ = s₂ := by
  exact Lemmas.Vocab.nameCode_injective s₁ s₂ h
theorem json_tag_number (t : Nat) (h : t < 2 ^ 32) : tagUnmarshalNum t = some t := by
  simp [tagUnmarshalNum, h]

/-- a data type written to JSON (its name) reads back as itself -/
theorem json_dt_roundtrip (d : Nat) (h : isDataType d = true) :
    ∃ s, dataTypeName? d = some s ∧ dataTypeString? s = some d ∧ ∀ s', dataTypeString? s' = some d → s' = s := by
  exact Lemmas.Vocab.json_dt_roundtrip d h

/-- request/response classification is bit 23 of the tag number alone -/
theorem request_bit (t : Nat) : Gen.Leaf.isRequest t = !t.testBit 23 ∧ Gen.Leaf.isResponse t = t.testBit 23 := by
  exact Lemmas.Vocab.request_bit t

end Rscp.Props.C14

#print axioms Rscp.Props.C14.tag_numbers_unique
#print axioms Rscp.Props.C14.tag_tables_aligned
#print axioms Rscp.Props.C14.tag_names_unique
#print axioms Rscp.Props.C14.name_roundtrip
#print axioms Rscp.Props.C14.number_roundtrip
#print axioms Rscp.Props.C14.vocab_stable
#print axioms Rscp.Props.C14.vocab_consistent
#print axioms Rscp.Props.C14.declared_types_defined
#print axioms Rscp.Props.C14.tables_agree
#print axioms Rscp.Props.C14.tables_only_defined
#print axioms Rscp.Props.C14.json_tag_roundtrip_known
#print axioms Rscp.Props.C14.json_tag_roundtrip_unknown
#print axioms Rscp.Props.C14.nameCode_injective
#print axioms Rscp.Props.C14.json_tag_number
#print axioms Rscp.Props.C14.json_dt_roundtrip
#print axioms Rscp.Props.C14.request_bit

