/-
C01 — corollaries of the round trip: the encoder is injective on well-formed lists (two different message
lists never share a frame, whatever the checksum setting and the time stamps), and decoding is a left inverse
that does not depend on the checksum setting.
-/
import Rscp.Props.C01
namespace Rscp.Props.C01
open Rscp Rscp.Model

/-- two well-formed message lists with the same frame are the same list -/
theorem encode_injective (ms ms' : List Msg) (crc crc' : Bool) (sec sec' nsec nsec' : Int)
    (h : Spec.WFList ms) (h' : Spec.WFList ms')
    (hs : -(2^63 : Int) ≤ sec ∧ sec < (2^63 : Int)) (hn : 0 ≤ nsec ∧ nsec < 1000000000)
    (hs' : -(2^63 : Int) ≤ sec' ∧ sec' < (2^63 : Int)) (hn' : 0 ≤ nsec' ∧ nsec' < 1000000000)
    (p : List Byte) (hp : writePlain ms crc sec nsec = .ok p) (hp' : writePlain ms' crc' sec' nsec' = .ok p) :
    ms = ms' := by
  obtain ⟨p1, hp1, _, hd1⟩ := roundtrip_plain ms crc sec nsec h hs hn
  obtain ⟨p2, hp2, _, hd2⟩ := roundtrip_plain ms' crc' sec' nsec' h' hs' hn'
  rw [hp] at hp1
  rw [hp'] at hp2
  have e1 : p = p1 := by injection hp1
  have e2 : p = p2 := by injection hp2
  subst e1
  subst e2
  rw [hd1] at hd2
  injection hd2

/-- the decoded messages do not depend on the checksum setting or the time stamp of the frame -/
theorem decode_independent_of_envelope (ms : List Msg) (crc crc' : Bool) (sec sec' nsec nsec' : Int)
    (h : Spec.WFList ms)
    (hs : -(2^63 : Int) ≤ sec ∧ sec < (2^63 : Int)) (hn : 0 ≤ nsec ∧ nsec < 1000000000)
    (hs' : -(2^63 : Int) ≤ sec' ∧ sec' < (2^63 : Int)) (hn' : 0 ≤ nsec' ∧ nsec' < 1000000000) :
    ∃ p p', writePlain ms crc sec nsec = .ok p ∧ writePlain ms crc' sec' nsec' = .ok p' ∧
      decodeFrame p = decodeFrame p' := by
  obtain ⟨p1, hp1, _, hd1⟩ := roundtrip_plain ms crc sec nsec h hs hn
  obtain ⟨p2, hp2, _, hd2⟩ := roundtrip_plain ms crc' sec' nsec' h hs' hn'
  exact ⟨p1, p2, hp1, hp2, by rw [hd1, hd2]⟩

end Rscp.Props.C01
