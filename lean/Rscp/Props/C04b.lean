/-
C04 (continued) — an altered checksummed frame never surfaces as messages when it is delivered block by
block either. Corollaries of `burst_rejected` / `one_or_two_bits_rejected` (C04) and `chunking` (C03).
Helper lemmas: `Lemmas/CrcPieces.lean`.
-/
import Rscp.Props.C04
import Rscp.Props.C03
import Rscp.Lemmas.CrcPieces
namespace Rscp.Props.C04
open Rscp Rscp.Model Rscp.Crc

/-- The altered frame delivered in block-aligned pieces: up to and including the first call that answers anything
    but "incomplete", no call returns messages. -/
theorem burst_rejected_in_pieces (p e : List Byte) (hlen : 32 ≤ p.length) (hmod : p.length % 32 = 0) (ms : List Msg)
    (h : decodeFrame p = .ok ms) (hc : hasCrc p) (ht : TouchesOnlyTimePayloadCrc p e)
    (hb : IsBurst (bitsOf (e.take (18 + frameLen p + 4))))
    (chunks : List (List Byte)) (hch : ∀ c ∈ chunks, 32 ≤ c.length ∧ c.length % 32 = 0)
    (hflat : chunks.flatten = xorBytes p e)
    (j : Nat) (hj : j < chunks.length)
    (hprev : ∀ i, i < j → (Model.readChunks {} chunks)[i]? = some (.err .invalidFrameLength)) :
    ∀ ms', (Model.readChunks {} chunks)[j]? ≠ some (.ok ms') := by
  refine Lemmas.CrcPieces.rejected_in_pieces p e hc ht (fun n h32 hnmod hnp hs => ?_) chunks hch hflat j hj hprev
  obtain ⟨eN, hd, hc', eL, ht', eT⟩ := Lemmas.CrcPieces.long_prefix_hyps p e hlen hmod ms h hc ht n h32 hnmod hnp hs
  exact burst_rejected (p.take n) (e.take n) (by rw [eN]; exact h32) (by rw [eN]; exact hnmod) ms hd hc' ht'
    (by rw [eL, eT]; exact hb)

/-- The same for one or two flipped bits anywhere in time stamp, payload or CRC field. -/
theorem one_or_two_bits_rejected_in_pieces (p e : List Byte) (hlen : 32 ≤ p.length) (hmod : p.length % 32 = 0)
    (ms : List Msg) (h : decodeFrame p = .ok ms) (hc : hasCrc p) (ht : TouchesOnlyTimePayloadCrc p e)
    (hw : weight (bitsOf (e.take (18 + frameLen p + 4))) = 1 ∨ weight (bitsOf (e.take (18 + frameLen p + 4))) = 2)
    (chunks : List (List Byte)) (hch : ∀ c ∈ chunks, 32 ≤ c.length ∧ c.length % 32 = 0)
    (hflat : chunks.flatten = xorBytes p e)
    (j : Nat) (hj : j < chunks.length)
    (hprev : ∀ i, i < j → (Model.readChunks {} chunks)[i]? = some (.err .invalidFrameLength)) :
    ∀ ms', (Model.readChunks {} chunks)[j]? ≠ some (.ok ms') := by
  refine Lemmas.CrcPieces.rejected_in_pieces p e hc ht (fun n h32 hnmod hnp hs => ?_) chunks hch hflat j hj hprev
  obtain ⟨eN, hd, hc', eL, ht', eT⟩ := Lemmas.CrcPieces.long_prefix_hyps p e hlen hmod ms h hc ht n h32 hnmod hnp hs
  exact one_or_two_bits_rejected (p.take n) (e.take n) (by rw [eN]; exact h32) (by rw [eN]; exact hnmod) ms hd hc' ht'
    (by rw [eL, eT]; exact hw)

/-! ### the hypotheses can be met: a 64-byte frame (one 31-byte ByteArray item, checksum), one payload bit
    flipped, delivered as two 32-byte pieces — first answer "incomplete", second answer not messages -/
section NonVacuity
private def exP : List Byte :=
  [0xE3, 0xDC, 0x00, 0x11] ++ List.replicate 12 0 ++ [38, 0] ++ [1, 0, 0, 0, 0x10, 31, 0] ++ List.replicate 31 7 ++
    [0x32, 0xBC, 0xA4, 0x0D] ++ List.replicate 4 0
private def exE : List Byte := List.replicate 40 0 ++ [1] ++ List.replicate 23 0
private def exChunks : List (List Byte) := [(xorBytes exP exE).take 32, (xorBytes exP exE).drop 32]
private def isOk {α : Type} : Res α → Bool | .ok _ => true | _ => false
private def isIncomplete {α : Type} : Res α → Bool | .err .invalidFrameLength => true | _ => false

example : (Model.readChunks {} exChunks)[0]? = some (.err .invalidFrameLength) ∧
    ∀ ms', (Model.readChunks {} exChunks)[1]? ≠ some (.ok ms') := by
  have h0 : (Model.readChunks {} exChunks)[0]? = some (.err .invalidFrameLength) := by
    have hb : ((Model.readChunks {} exChunks)[0]?.map isIncomplete) = some true := by decide +kernel
    cases hr : (Model.readChunks {} exChunks)[0]? with
    | none => rw [hr] at hb; cases hb
    | some r =>
      rw [hr] at hb
      cases r with
      | err x => cases x <;> first | rfl | cases hb
      | ok _ => cases hb
      | panic => cases hb
  refine ⟨h0, ?_⟩
  have hok : isOk (decodeFrame exP) = true := by decide +kernel
  cases hd : decodeFrame exP with
  | err _ => rw [hd] at hok; cases hok
  | panic => rw [hd] at hok; cases hok
  | ok ms =>
    have hfl : frameLen exP = 38 := by decide +kernel
    refine burst_rejected_in_pieces exP exE (by decide) (by decide) ms hd (by unfold hasCrc; decide +kernel) ⟨by decide, ?_⟩
      ?_ exChunks (by decide +kernel) (by decide +kernel) 1 (by decide) ?_
    · intro i hi
      rw [hfl] at hi
      by_cases h64 : i < 64
      · have : ∀ k, k < 64 → (k < 4 ∨ k = 16 ∨ k = 17 ∨ 18 + 38 + 4 ≤ k) → exE.getD k 0 = 0 := by decide +kernel
        exact this i h64 hi
      · rw [List.getD_eq_getElem?_getD, List.getElem?_eq_none (by
          have : exE.length = 64 := by decide
          omega)]
        rfl
    · rw [hfl]
      exact ⟨320, [true], 159, by decide +kernel, by decide, by decide⟩
    · intro i hi
      have : i = 0 := by omega
      subst this; exact h0
end NonVacuity

#print axioms burst_rejected_in_pieces
#print axioms one_or_two_bits_rejected_in_pieces
end Rscp.Props.C04
