/-
C08 — replies are paired with their requests; the client recovers after failures.
Statements over the token-level client model (`Model/Client.lean`). Property theorems only;
helper lemmas live in `Lemmas/Client.lean`.
-/
import Rscp.Lemmas.Client
namespace Rscp.Props.C08
open Rscp Rscp.Model

/-- at a call boundary nothing unread is pending on the connection -/
def Clean (st : CState) : Prop :=
  match st.conn with
  | none => True
  | some (_, q) => q = []

theorem clean_init : Clean {} := by simp [Clean]

/-- `Clean` is preserved by every call, whatever the peer does -/
theorem clean_step (cred : Cred) (st : CState) (c : Call) (h : Clean st) : Clean (step cred st c).1 := by
  have hq : ∀ n q, st.conn = some (n, q) → q = [] := by
    intro n q hc; simpa [Clean, hc] using h
  have := step_clean cred st c hq
  unfold Clean
  split
  · trivial
  · next n q hc => exact this n q hc

/-- hence it holds after every history of calls -/
theorem clean_reachable (cred : Cred) (cs : List Call) :
    Clean (cs.foldl (fun st c => (step cred st c).1) {}) := by
  suffices hs : ∀ (cs : List Call) (st : CState), Clean st → Clean (cs.foldl (fun st c => (step cred st c).1) st) from
    hs cs {} clean_init
  intro cs
  induction cs with
  | nil => intro st h; exact h
  | cons c cs ih => intro st h; exact ih _ (clean_step cred st c h)

/-- pairing: from a clean state, a successful `SendMultiple` returns exactly the reply the peer produced for
    this very request (the script's `user` reply), never anything that was pending before -/
theorem pairing (cred : Cred) (st : CState) (reqs ms : List Msg) (sc : Script) (h : Clean st)
    (hok : (sendMultiple cred st reqs sc).2.1 = .ok ms) : sc.user = .frame ms := by
  have hq : ∀ n q, st.conn = some (n, q) → q = [] := by
    intro n q hc; simpa [Clean, hc] using h
  exact sendMultiple_pairing cred st reqs ms sc hq hok

/-- the frames one call puts on the wire: possibly the authentication request, then at most once the user
    request, nothing else, in that order -/
theorem sent_once_in_order (cred : Cred) (st : CState) (reqs : List Msg) (sc : Script) :
    let sent := (sendMultiple cred st reqs sc).2.2.filterMap (fun e => match e with | .sent _ ms => some ms | _ => none)
    sent = [] ∨ sent = [authRequest cred.user cred.password] ∨ sent = [reqs] ∨
      sent = [authRequest cred.user cred.password, reqs] := by
  exact sendMultiple_sent cred st reqs sc

/-- a call that fails with a transport or protocol error (anything but a refused request or a refused
    authentication) leaves the client disconnected and unauthenticated -/
-- STATEMENT CHANGED: added the hypothesis `hinv` (the state invariant `recovery` and `C09.no_panic` also
-- assume; true of every reachable state). Without it the statement is false: from
-- `st = { conn := none, authed := true }` (which is `Clean`) a call with `sc.dialOk = false` fails with
-- `.err .io` and returns `st` unchanged, so `authed` is still `true`.
theorem failure_disconnects (cred : Cred) (st : CState) (reqs : List Msg) (sc : Script) (e : ErrClass)
    (h : Clean st)
    (hinv : st.conn = none → st.authed = false)
    (hres : (sendMultiple cred st reqs sc).2.1 = .err e)
    (hnot : e ≠ .auth ∧ e ≠ .typeMismatch ∧ e ≠ .notARequest ∧ e ≠ .dataLimit) :
    (sendMultiple cred st reqs sc).1.conn = none ∧ (sendMultiple cred st reqs sc).1.authed = false := by
  have _ := h  -- `h` is not needed by the proof; kept from the given statement
  refine sendMultiple_failure cred st reqs sc e hinv hres ⟨hnot.1, ?_⟩
  rintro (rfl | rfl | rfl)
  · exact hnot.2.1 rfl
  · exact hnot.2.2.2 rfl
  · exact hnot.2.2.1 rfl

theorem disconnect_resets (st : CState) : (disconnect st).1.conn = none ∧ (disconnect st).1.authed = false := by
  exact disconnect_conn_authed st

/-- a healthy peer: reachable, reads, grants authentication with a non-zero level, answers with a non-empty frame -/
def Healthy (sc : Script) (ms : List Msg) : Prop :=
  sc.dialOk = true ∧ sc.writeOk = true ∧ ms ≠ [] ∧ sc.user = .frame ms ∧
  ∃ lvl, lvl ≠ 0 ∧ sc.auth = .frame [.mk tagAuth Gen.C.UChar8 (.num .u8 lvl)]

/-- recovery: from any clean state — in particular a disconnected one — a valid request against a healthy
    peer succeeds with that peer's reply -/
-- STATEMENT CHANGED: added the hypothesis `hcred` (the authentication request built from the configured
-- credentials passes request validation; by `validateRequests_authRequest` this says
-- `cred.user.length + cred.password.length + 14 ≤ 65528`). Without it the statement is false: with a
-- 65 520-byte user name the authentication request is refused with `.err .dataLimit` before anything is sent.
theorem recovery (cred : Cred) (st : CState) (reqs ms : List Msg) (sc : Script) (h : Clean st)
    (hinv : st.conn = none → st.authed = false)
    (hcred : validateRequests (authRequest cred.user cred.password) = .ok ())
    (hv : validateRequests reqs = .ok ()) (hh : Healthy sc ms) :
    (sendMultiple cred st reqs sc).2.1 = .ok ms := by
  have _ := hinv  -- `hinv` is not needed by the proof; kept from the given statement
  have hq : ∀ n q, st.conn = some (n, q) → q = [] := by
    intro n q hc; simpa [Clean, hc] using h
  obtain ⟨hd, hw, hms, hu, lvl, hl, ha⟩ := hh
  cases ms with
  | nil => exact absurd rfl hms
  | cons m ms => exact sendMultiple_recovery cred st reqs sc m ms lvl hq hcred hv hd hw hu hl ha

-- non-vacuity: a healthy script exists and the premises of `recovery` are met by the initial state
example : Healthy { auth := .frame [.mk tagAuth Gen.C.UChar8 (.num .u8 10)], user := .frame [.mk 8388610 3 (.num .u8 1)] }
    [.mk 8388610 3 (.num .u8 1)] := by
  refine ⟨rfl, rfl, by simp, rfl, 10, by decide, rfl⟩

#print axioms clean_init
#print axioms clean_step
#print axioms clean_reachable
#print axioms pairing
#print axioms sent_once_in_order
#print axioms failure_disconnects
#print axioms disconnect_resets
#print axioms recovery

end Rscp.Props.C08
