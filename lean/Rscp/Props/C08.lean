/-
C08 — replies are paired with their requests; the client recovers after failures.
Statements over the token-level client model (`Model/Client.lean`). Property theorems only;
helper lemmas live in `Lemmas/Client.lean`.
-/
import Rscp.Lemmas.Client
namespace Rscp.Props.C08
open Rscp Rscp.Model

/-- at a call boundary nothing unread is pending on the connection -/
def Clean (st : CState) : Prop :=
  match st.conn with
  | none => True
  | some (_, q) => q = []

theorem clean_init : Clean {} := by simp [Clean]

/-- `Clean` is preserved by every call, whatever the peer does -/
theorem clean_step (cred : Cred) (st : CState) (c : Call) (h : Clean st) : Clean (step cred st c).1 := by
  sorry

/-- hence it holds after every history of calls -/
theorem clean_reachable (cred : Cred) (cs : List Call) :
    Clean (cs.foldl (fun st c => (step cred st c).1) {}) := by
  sorry

/-- pairing: from a clean state, a successful `SendMultiple` returns exactly the reply the peer produced for
    this very request (the script's `user` reply), never anything that was pending before -/
theorem pairing (cred : Cred) (st : CState) (reqs ms : List Msg) (sc : Script) (h : Clean st)
    (hok : (sendMultiple cred st reqs sc).2.1 = .ok ms) : sc.user = .frame ms := by
  sorry

/-- the frames one call puts on the wire: possibly the authentication request, then at most once the user
    request, nothing else, in that order -/
theorem sent_once_in_order (cred : Cred) (st : CState) (reqs : List Msg) (sc : Script) :
    let sent := (sendMultiple cred st reqs sc).2.2.filterMap (fun e => match e with | .sent _ ms => some ms | _ => none)
    sent = [] ∨ sent = [authRequest cred.user cred.password] ∨ sent = [reqs] ∨
      sent = [authRequest cred.user cred.password, reqs] := by
  sorry

/-- a call that fails with a transport or protocol error (anything but a refused request or a refused
    authentication) leaves the client disconnected and unauthenticated -/
theorem failure_disconnects (cred : Cred) (st : CState) (reqs : List Msg) (sc : Script) (e : ErrClass)
    (h : Clean st)
    (hres : (sendMultiple cred st reqs sc).2.1 = .err e)
    (hnot : e ≠ .auth ∧ e ≠ .typeMismatch ∧ e ≠ .notARequest ∧ e ≠ .dataLimit) :
    (sendMultiple cred st reqs sc).1.conn = none ∧ (sendMultiple cred st reqs sc).1.authed = false := by
  sorry

theorem disconnect_resets (st : CState) : (disconnect st).1.conn = none ∧ (disconnect st).1.authed = false := by
  sorry

/-- a healthy peer: reachable, reads, grants authentication with a non-zero level, answers with a non-empty frame -/
def Healthy (sc : Script) (ms : List Msg) : Prop :=
  sc.dialOk = true ∧ sc.writeOk = true ∧ ms ≠ [] ∧ sc.user = .frame ms ∧
  ∃ lvl, lvl ≠ 0 ∧ sc.auth = .frame [.mk tagAuth Gen.C.UChar8 (.num .u8 lvl)]

/-- recovery: from any clean state — in particular a disconnected one — a valid request against a healthy
    peer succeeds with that peer's reply -/
theorem recovery (cred : Cred) (st : CState) (reqs ms : List Msg) (sc : Script) (h : Clean st)
    (hinv : st.conn = none → st.authed = false)
    (hv : validateRequests reqs = .ok ()) (hh : Healthy sc ms) :
    (sendMultiple cred st reqs sc).2.1 = .ok ms := by
  sorry

-- non-vacuity: a healthy script exists and the premises of `recovery` are met by the initial state
example : Healthy { auth := .frame [.mk tagAuth Gen.C.UChar8 (.num .u8 10)], user := .frame [.mk 8388610 3 (.num .u8 1)] }
    [.mk 8388610 3 (.num .u8 1)] := by
  refine ⟨rfl, rfl, by simp, rfl, 10, by decide, rfl⟩

end Rscp.Props.C08
