import Rscp.Lemmas.Encode
namespace Rscp.Props.C01
open Rscp

/-- Encoding a well-formed message list (either checksum setting, any wall-clock time within int64 seconds / canonical nanoseconds) succeeds, yields a block-aligned plaintext, and the frame grammar reads back exactly the same messages. -/
theorem spec_roundtrip (ms : List Msg) (crc : Bool) (sec nsec : Int) (h : Spec.WFList ms)
    (hs : -(2^63 : Int) ≤ sec ∧ sec < (2^63 : Int)) (hn : 0 ≤ nsec ∧ nsec < 1000000000) :
    ∃ p, Model.writePlain ms crc sec nsec = .ok p ∧ 32 ≤ p.length ∧ p.length % 32 = 0 ∧
      Spec.specDecode p = some ms := by
  -- the grammar does not interpret the frame's time stamp, so the bounds on it are not needed
  have _ := hs; have _ := hn
  exact Lemmas.writePlain_spec ms crc sec nsec h

#print axioms spec_roundtrip
end Rscp.Props.C01
