/-
C08 — the token-level client model (`Model/Client.lean`) is sound for the byte-level behaviour of
`Client.receive` (`Model/Receive.lean`): what the token model's `receive` does with the head of a
connection's inbound queue is what the byte-level loop does with every delivery of every byte string that
token stands for. The pairing / recovery theorems of `Props/C08.lean`, stated over tokens, are therefore
statements about byte streams.
-/
import Rscp.Props.C07
import Rscp.Props.C08
import Rscp.Lemmas.Layers
namespace Rscp.Props.C08
open Rscp Rscp.Model

/-- what the caller of `receive` observes: the result and whether the client disconnected -/
abbrev Obs := Res (List Msg) × Bool

/-- what the token-level `receive` does, by the head of the inbound queue -/
def tokObs : Option Tok → Obs
  | some (.frame (m :: ms)) => (.ok (m :: ms), false)
  | some (.frame []) => (.err .io, true)
  | some (.junk e) => (.err e, true)
  | none => (.err .io, true)

/-- `tokObs` is what `Model.receive` does -/
theorem receive_is_tokObs (st : CState) (n : Nat) (q : List Tok) (h : st.conn = some (n, q)) :
    ((receive st).2.1, decide ((receive st).1.conn = none)) = tokObs q.head? := by
  obtain ⟨conn, authed, conns⟩ := st
  simp only at h
  subst h
  cases q with
  | nil => rfl
  | cons t rest =>
    cases t with
    | frame ms => cases ms <;> rfl
    | junk e => rfl

/-- The byte strings a token (or the absence of one) stands for: `S` is everything the peer writes (as
    plaintext, i.e. after the client's decrypter) before the client's deadline expires or the connection is
    closed. -/
inductive Renders : Option Tok → List Byte → Prop
  /-- a frame: whole blocks that the decoder accepts as these messages -/
  | frame (ms : List Msg) (S : List Byte) (hlen : 32 ≤ S.length) (hmod : S.length % 32 = 0)
      (hdec : decodeFrame S = .ok ms) : Renders (some (.frame ms)) S
  /-- junk: whole blocks that the decoder rejects with an error other than "incomplete" -/
  | junk (e : ErrClass) (S : List Byte) (hlen : 32 ≤ S.length) (hmod : S.length % 32 = 0)
      (he : e ≠ .invalidFrameLength) (hdec : decodeFrame S = .err e) (hclean : C07.CleanTail S) :
      Renders (some (.junk e)) S
  /-- nothing at all (silence, or closed before the reply) -/
  | silence : Renders none []
  /-- closed inside the reply: a valid header, but fewer whole blocks than the frame needs -/
  | cutOff (S : List Byte) (cf : Bool) (fs ds : Nat) (hlen : 32 ≤ S.length)
      (hh : readHeader (S.take 32) = .ok (cf, fs, ds)) (hshort : S.length - S.length % 32 < fs) :
      Renders none S
  /-- closed inside the first block -/
  | cutOffEarly (S : List Byte) (hlen : S.length < 32) : Renders none S

/-- **Layer soundness.** For every byte string a token stands for, every delivery of it and every buffer size,
    the byte-level loop shows the caller what the token-level `receive` shows. -/
theorem layers_agree (tok : Option Tok) (S : List Byte) (hr : Renders tok S) (b : Nat) (hb : 0 < b ∧ b ≤ 2049)
    (segs : List (List Byte)) (hne : ∀ s ∈ segs, s ≠ []) (hcat : segs.flatten = S) :
    ((receiveBytes b segs).result, (receiveBytes b segs).disconnected) = tokObs tok := by
  open Lemmas.Receive Lemmas.Layers in
  -- the observation is `out`; it is `outcome S` as soon as the whole blocks of `S` end in padding
  suffices h : (∀ cf fs ds, readHeader (S.take 32) = .ok (cf, fs, ds) →
      ((S.take (whole S)).drop fs).all (· == 0) = true) ∧ outcome S = tokObs tok by
    subst hcat
    exact (receive_outcome_whole b hb segs h.1).trans h.2
  cases hr with
  | frame ms S hlen hmod hdec =>
    cases ms with
    | nil =>
      obtain ⟨hc, ho⟩ := outcome_final S ⟨hlen, hmod⟩ _ hdec (by intro h; cases h)
      exact ⟨fun cf fs ds h => all_zero_take _ _ _ (hc cf fs ds h), ho⟩
    | cons m ms =>
      obtain ⟨hc, ho⟩ := complete_outcome S ⟨hlen, hmod⟩ m ms hdec
      exact ⟨fun cf fs ds h => all_zero_take _ _ _ (hc cf fs ds h), ho⟩
  | junk e S hlen hmod he hdec hclean =>
    obtain ⟨hc, ho⟩ := outcome_final S ⟨hlen, hmod⟩ _ hdec (by intro h; cases h; exact he rfl)
    refine ⟨fun cf fs ds h => all_zero_take _ _ _ (hc cf fs ds h), ?_⟩
    rw [ho]
    unfold classify
    rw [cont_err_false he, if_neg (by intro h; cases h)]
    rfl
  | silence => exact ⟨fun _ _ _ _ => by rw [List.take_nil, List.drop_nil]; rfl, rfl⟩
  | cutOff S cf fs ds hlen hh hshort =>
    refine ⟨fun cf' fs' ds' h => ?_, outcome_cut_off S cf fs ds hlen hh hshort⟩
    rw [hh] at h
    cases h
    rw [List.drop_of_length_le (by rw [length_take_whole]; unfold whole; omega)]
    rfl
  | cutOffEarly S hlen =>
    constructor
    · intro cf fs ds _
      have h0 : whole S = 0 := by unfold whole; omega
      rw [h0, List.take_zero, List.drop_nil]; rfl
    · unfold outcome
      rw [if_pos hlen]; rfl

/-- non-vacuity: every constructor of `Renders` is inhabited by a concrete byte string -/
example : Renders none [1, 2, 3] := .cutOffEarly _ (by decide)
example : ∃ S, Renders (some (.junk .invalidMagic)) S :=
  ⟨List.replicate 32 0, .junk _ _ (by decide) (by decide) (by intro h; cases h) rfl
    (fun cf fs ds h => by
      have e : readHeader ((List.replicate 32 (0 : Byte)).take 32) = .err .invalidMagic := rfl
      rw [e] at h; cases h)⟩
example : Renders none [] := .silence
example : Renders (some (.frame [.mk 0x00800001 Gen.C.Bool (.bool true)]))
    [227, 220, 0, 1, 0, 0, 0, 0, 0, 0, 0, 0, 0, 0, 0, 0, 8, 0, 1, 0, 128, 0, 1, 1, 0, 1, 0, 0, 0, 0, 0, 0] :=
  .frame _ _ (by decide) (by decide) rfl
example : Renders (some (.frame [])) ([227, 220, 0, 1] ++ List.replicate 28 0) :=
  .frame _ _ (by decide) (by decide) rfl
/-- a header announcing a 40-byte frame, 50 bytes delivered, the last of them not zero: one whole block only -/
example : Renders none ([227, 220, 0, 1, 0, 0, 0, 0, 0, 0, 0, 0, 0, 0, 0, 0, 22, 0] ++ List.replicate 31 0 ++ [7]) :=
  .cutOff _ false 40 22 (by decide) rfl (by decide)

#print axioms receive_is_tokObs
#print axioms layers_agree
end Rscp.Props.C08
