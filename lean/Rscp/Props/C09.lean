/-
C09 — user requests travel only over an authenticated connection.
Statements over the token-level client model; helper lemmas live in `Lemmas/Client.lean`.
-/
import Rscp.Lemmas.Client
namespace Rscp.Props.C09
open Rscp Rscp.Model

/-- all events of a history of calls from the initial state, in order -/
def trace (cred : Cred) (cs : List Call) : List Ev :=
  ((runCalls cred {} cs).map (·.2)).flatten

/-- the first frame on every connection is the authentication request carrying exactly the configured
    user name and password -/
theorem first_frame_is_auth (cred : Cred) (cs : List Call) (n : Nat) (ms : List Msg) (pre post : List Ev)
    (h : trace cred cs = pre ++ .sent n ms :: post)
    (hfirst : ∀ e ∈ pre, ∀ ms', e ≠ .sent n ms') :
    ms = authRequest cred.user cred.password := by
  have hg := runCalls_trace cred cs {} [] (authInv_init _)
  unfold trace at h
  rw [h] at hg
  rcases goodFrom_at hg with hms | ⟨hmem, _⟩
  · exact hms
  · exact absurd rfl (hfirst _ hmem _)

/-- a frame other than the authentication request is sent on a connection only after the client accepted
    an authentication reply on that connection -/
theorem user_after_grant (cred : Cred) (cs : List Call) (n : Nat) (ms : List Msg) (pre post : List Ev)
    (h : trace cred cs = pre ++ .sent n ms :: post)
    (hne : ms ≠ authRequest cred.user cred.password) :
    Ev.granted n ∈ pre := by
  have hg := runCalls_trace cred cs {} [] (authInv_init _)
  unfold trace at h
  rw [h] at hg
  rcases goodFrom_at hg with hms | ⟨_, hmem⟩
  · exact absurd hms hne
  · exact hmem

/-- the client accepts an authentication reply exactly when its first message carries the tag
    RSCP_AUTHENTICATION and a non-zero level of Go type uint8 or int32 -/
theorem grant_iff (m : Msg) (rest : List Msg) :
    authVerdict (m :: rest) = .ok .grant ↔
      m.tag = tagAuth ∧ ∃ v, v ≠ 0 ∧ (m.val = .num .u8 v ∨ m.val = .num .i32 v) := by
  exact authVerdict_grant_iff m rest

/-- every conceivable non-empty reply is either accepted or refused: never a panic, never another error -/
theorem auth_reply_total (m : Msg) (rest : List Msg) :
    authVerdict (m :: rest) = .ok .grant ∨ authVerdict (m :: rest) = .ok .refuse := by
  exact authVerdict_total m rest

/-- `receive` never hands an empty reply to `authenticate` -/
theorem receive_nonempty (st : CState) (ms : List Msg) (h : (receive st).2.1 = .ok ms) : ms ≠ [] := by
  exact receive_ok_ne_nil st ms h

/-- no call panics, from any state in which `authed` implies a connection (true of every reachable state) -/
-- STATEMENT CHANGED: added the hypothesis `hgo : c.GoVals` (`Call.GoVals`, `GoMsgs`, `GoVal` in
-- `Lemmas/Client.lean`): in the requests of the call every `Val.num k _` carries a fixed-width numeric kind
-- (`k.width ≠ none`), as `Base.lean` intends and as `Spec.ValOK` implies (`goMsgs_of_ok`). Without it the
-- statement is false: `Val.num .msgs 0` is a junk term of the model (no Go value corresponds to it) whose
-- `kind` is `.msgs`, so `.mk 1 14 (.num .msgs 0)` passes `isValidValue` for `Container` and reaches the
-- unchecked type assertion: `validateRequests [.mk 1 14 (.num .msgs 0)] = .panic`, and
-- `step cred {} (.sendMultiple [.mk 1 14 (.num .msgs 0)] sc)` panics for a healthy `sc`.
theorem no_panic (cred : Cred) (st : CState) (c : Call) (hinv : st.conn = none → st.authed = false)
    (hgo : c.GoVals) :
    (step cred st c).2.1 ≠ .panic := by
  have _ := hinv  -- `hinv` is not needed by the proof; kept from the given statement
  exact step_ne_panic cred st c hgo

#print axioms first_frame_is_auth
#print axioms user_after_grant
#print axioms grant_iff
#print axioms auth_reply_total
#print axioms receive_nonempty
#print axioms no_panic

end Rscp.Props.C09
