/-
C09 — user requests travel only over an authenticated connection.
Statements over the token-level client model; helper lemmas live in `Lemmas/Client.lean`.
-/
import Rscp.Lemmas.Client
namespace Rscp.Props.C09
open Rscp Rscp.Model

/-- all events of a history of calls from the initial state, in order -/
def trace (cred : Cred) (cs : List Call) : List Ev :=
  ((runCalls cred {} cs).map (·.2)).flatten

/-- the first frame on every connection is the authentication request carrying exactly the configured
    user name and password -/
theorem first_frame_is_auth (cred : Cred) (cs : List Call) (n : Nat) (ms : List Msg) (pre post : List Ev)
    (h : trace cred cs = pre ++ .sent n ms :: post)
    (hfirst : ∀ e ∈ pre, ∀ ms', e ≠ .sent n ms') :
    ms = authRequest cred.user cred.password := by
  sorry

/-- a frame other than the authentication request is sent on a connection only after the client accepted
    an authentication reply on that connection -/
theorem user_after_grant (cred : Cred) (cs : List Call) (n : Nat) (ms : List Msg) (pre post : List Ev)
    (h : trace cred cs = pre ++ .sent n ms :: post)
    (hne : ms ≠ authRequest cred.user cred.password) :
    Ev.granted n ∈ pre := by
  sorry

/-- the client accepts an authentication reply exactly when its first message carries the tag
    RSCP_AUTHENTICATION and a non-zero level of Go type uint8 or int32 -/
theorem grant_iff (m : Msg) (rest : List Msg) :
    authVerdict (m :: rest) = .ok .grant ↔
      m.tag = tagAuth ∧ ∃ v, v ≠ 0 ∧ (m.val = .num .u8 v ∨ m.val = .num .i32 v) := by
  sorry

/-- every conceivable non-empty reply is either accepted or refused: never a panic, never another error -/
theorem auth_reply_total (m : Msg) (rest : List Msg) :
    authVerdict (m :: rest) = .ok .grant ∨ authVerdict (m :: rest) = .ok .refuse := by
  sorry

/-- `receive` never hands an empty reply to `authenticate` -/
theorem receive_nonempty (st : CState) (ms : List Msg) (h : (receive st).2.1 = .ok ms) : ms ≠ [] := by
  sorry

/-- no call panics, from any state in which `authed` implies a connection (true of every reachable state) -/
theorem no_panic (cred : Cred) (st : CState) (c : Call) (hinv : st.conn = none → st.authed = false) :
    (step cred st c).2.1 ≠ .panic := by
  sorry

end Rscp.Props.C09
