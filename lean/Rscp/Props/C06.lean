/-
C06 — every connection is encrypted the way an RSCP peer expects.
Helper lemmas: `Lemmas/Crypt.lean`, `Lemmas/Session.lean`.
-/
import Rscp.Lemmas.Session
namespace Rscp.Props.C06
open Rscp Rscp.Model

/-- the key is the key string padded with 0xFF to 32 bytes -/
theorem key_padding (k : List Byte) (h : k.length ≤ 32) :
    mkKey k = k ++ List.replicate (32 - k.length) 0xFF := by
  have h1 : min 32 k.length = k.length := Nat.min_eq_right h
  show k.take (min 32 k.length) ++ List.replicate (32 - min 32 k.length) 0xFF = _
  rw [h1, List.take_length]

/-- a longer key is used by its first 32 bytes (never a crash: `mkKey` is total) -/
theorem key_long (k : List Byte) (h : 32 < k.length) : mkKey k = k.take 32 := by
  have h1 : min 32 k.length = 32 := Nat.min_eq_left (Nat.le_of_lt h)
  show k.take (min 32 k.length) ++ List.replicate (32 - min 32 k.length) 0xFF = _
  rw [h1, Nat.sub_self, List.replicate_zero, List.append_nil]

theorem key_is_a_block (k : List Byte) : (mkKey k).length = 32 := by
  exact Lemmas.Crypt.mkKey_length k

/-- the initial chaining value is 32 bytes of 0xFF -/
theorem iv_is_ff : iv0 = List.replicate 32 0xFF := by
  exact Lemmas.Session.iv0_eq

/-- In every history that begins with a connection — any number of frames of any size in either direction,
    any number of reconnects at any point — every frame is received as it was sent: the independent peer
    decrypts every frame of every connection, the client decrypts every reply. For any block cipher with
    `D (E b) = b`. -/
theorem peer_decrypts_all (c : BlockCipher) (hc : c.OK) (cl pe : Chains) (ops : List WireOp)
    (hblocks : ∀ op ∈ ops, ∀ f, (op = .toPeer f ∨ op = .toClient f) → ∀ b ∈ f, b.length = 32) :
    ∀ d ∈ wireRun c cl pe (.connect :: ops), d.received = d.sent := by
  intro d hd
  simp only [wireRun, wireStep] at hd
  exact Lemmas.Session.wireRun_inStep c hc ops _ _ Lemmas.Session.inStep_init hblocks d hd

/-- without the initial connect the same holds from the states `NewClient` creates -/
theorem peer_decrypts_all_from_new (c : BlockCipher) (hc : c.OK) (ops : List WireOp)
    (hblocks : ∀ op ∈ ops, ∀ f, (op = .toPeer f ∨ op = .toClient f) → ∀ b ∈ f, b.length = 32) :
    ∀ d ∈ wireRun c clientInit peerInit ops, d.received = d.sent := by
  exact Lemmas.Session.wireRun_inStep c hc ops _ _ Lemmas.Session.inStep_init hblocks

/-- decrypting a block-aligned ciphertext stream piece by piece (as `receive` does) gives the same plaintext as
    decrypting it at once -/
theorem cbc_chunking (c : BlockCipher) (iv : List Byte) (a b : List (List Byte)) :
    (cbcDec c iv (a ++ b)).1 = (cbcDec c iv a).1 ++ (cbcDec c (cbcDec c iv a).2 b).1 := by
  rw [Lemmas.Crypt.cbcDec_append]

#print axioms key_padding
#print axioms key_long
#print axioms key_is_a_block
#print axioms iv_is_ff
#print axioms peer_decrypts_all
#print axioms peer_decrypts_all_from_new
#print axioms cbc_chunking
end Rscp.Props.C06
