/-
C14 (last clause) — "a value built for a data type is always accepted, encoded in the declared number of
bytes and decoded to an equal value": corollaries of C01's round trip for a single message, over the
regenerated tables.
-/
import Rscp.Props.C01
import Rscp.Lemmas.Encode
namespace Rscp.Props.C14
open Rscp Rscp.Model

/-- any single message that validates (value of the Go type its data type requires, representable, within the
    size limit) is encoded and decoded back to itself, with and without checksum -/
theorem built_value_roundtrips (tag dt : Nat) (v : Val) (crc : Bool) (h : Spec.WFList [.mk tag dt v]) :
    ∃ p, writePlain [.mk tag dt v] crc 0 0 = .ok p ∧ decodeFrame p = .ok [.mk tag dt v] := by
  obtain ⟨p, hp, _, hd⟩ := C01.roundtrip_plain [.mk tag dt v] crc 0 0 h (by decide) (by decide)
  exact ⟨p, hp, hd⟩

/-- and it is encoded in exactly the number of bytes the validator's size function announces — for the
    fixed-width data types that is the declared wire length -/
theorem encoded_in_declared_length (tag dt : Nat) (v : Val) (hok : Spec.MsgOK (.mk tag dt v))
    (hv : validateMsg (.mk tag dt v) = .ok ()) :
    ∃ bytes, encVal v = .ok bytes ∧ bytes.length = valueSizeWide dt v :=
  Lemmas.encVal_ok tag dt v hok hv

end Rscp.Props.C14
