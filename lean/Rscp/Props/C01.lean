/-
C01 — encode then decode returns the same messages.
Property theorems only; the work is in `Lemmas/Encode.lean` (encoder ⇒ frame grammar),
`Lemmas/Decode.lean` (decoder ⇔ frame grammar) and `Lemmas/Crypt.lean` (CBC chaining).
-/
import Rscp.Props.C01a
import Rscp.Props.C03
import Rscp.Lemmas.Crypt
namespace Rscp.Props.C01
open Rscp Rscp.Model

/-- Encoding a well-formed message list — any of the 18 data types, any nesting, empty values,
    value-less messages, unknown tags, either checksum setting, any wall-clock time — and decoding the
    resulting plaintext returns exactly that list. -/
theorem roundtrip_plain (ms : List Msg) (crc : Bool) (sec nsec : Int) (h : Spec.WFList ms)
    (hs : -(2^63 : Int) ≤ sec ∧ sec < (2^63 : Int)) (hn : 0 ≤ nsec ∧ nsec < 1000000000) :
    ∃ p, writePlain ms crc sec nsec = .ok p ∧ p.length % 32 = 0 ∧ decodeFrame p = .ok ms := by
  obtain ⟨p, hp, hlen, hmod, hspec⟩ := spec_roundtrip ms crc sec nsec h hs hn
  exact ⟨p, hp, hmod, (C03.accept_iff_wf p hlen hmod ms).mpr hspec⟩

/-- The frames of a stream, encrypted one after the other on one CBC encrypter and decrypted on a CBC
    decrypter that started from the same state, come out as the same plaintext blocks, frame by frame;
    both sides end in the same chaining state. (For any block cipher with `D (E b) = b`.) -/
theorem cbc_stream (c : BlockCipher) (hc : c.OK) (iv : List Byte) (hiv : iv.length = 32)
    (frames : List (List Byte)) (hal : ∀ f ∈ frames, f.length % 32 = 0) :
    decFrames c iv (encFrames c iv (frames.map toBlocks)).1 =
      (frames.map toBlocks, (encFrames c iv (frames.map toBlocks)).2) := by
  apply Lemmas.Crypt.stream_roundtrip c hc iv hiv
  intro f hf b hb
  obtain ⟨g, hg, rfl⟩ := List.mem_map.mp hf
  exact (Lemmas.Crypt.toBlocks_spec g (hal g hg)).2 b hb

/-- Every frame of a multi-frame stream written and read on one pair of chained cipher states decodes to
    the messages that were encoded into it. -/
theorem roundtrip_stream (c : BlockCipher) (hc : c.OK) (iv : List Byte) (hiv : iv.length = 32)
    (stream : List (List Msg × Bool × Int × Int))
    (hwf : ∀ x ∈ stream, Spec.WFList x.1 ∧ (-(2^63 : Int) ≤ x.2.2.1 ∧ x.2.2.1 < (2^63 : Int)) ∧
      (0 ≤ x.2.2.2 ∧ x.2.2.2 < 1000000000)) :
    ∃ plains : List (List Byte),
      stream.map (fun x => writePlain x.1 x.2.1 x.2.2.1 x.2.2.2) = plains.map .ok ∧
      (decFrames c iv (encFrames c iv (plains.map toBlocks)).1).1.map (fun bl => decodeFrame bl.flatten) =
        stream.map (fun x => .ok x.1) := by
  induction stream with
  | nil => exact ⟨[], rfl, by simp [encFrames, decFrames]⟩
  | cons x xs ih =>
    obtain ⟨plains, hp, _⟩ := ih (fun y hy => hwf y (by simp [hy]))
    obtain ⟨hx1, hx2, hx3⟩ := hwf x (by simp)
    obtain ⟨p, hpw, hmod, hdec⟩ := roundtrip_plain x.1 x.2.1 x.2.2.1 x.2.2.2 hx1 hx2 hx3
    refine ⟨p :: plains, by simp [hpw, hp], ?_⟩
    -- all plaintexts are block aligned, so CBC returns them
    have hal : ∀ f ∈ p :: plains, f.length % 32 = 0 := by
      intro f hf
      rcases List.mem_cons.mp hf with rfl | hf
      · exact hmod
      · -- f is the plaintext of some element of xs
        have : (.ok f : Res (List Byte)) ∈ plains.map .ok := List.mem_map.mpr ⟨f, hf, rfl⟩
        rw [← hp] at this
        obtain ⟨y, hy, hyf⟩ := List.mem_map.mp this
        obtain ⟨hy1, hy2, hy3⟩ := hwf y (by simp [hy])
        obtain ⟨q, hq, hqm, _⟩ := roundtrip_plain y.1 y.2.1 y.2.2.1 y.2.2.2 hy1 hy2 hy3
        rw [hq] at hyf
        cases hyf
        exact hqm
    rw [cbc_stream c hc iv hiv (p :: plains) hal]
    simp only [List.map_map]
    -- now: map (decodeFrame ∘ flatten ∘ toBlocks) (p :: plains) = map ok-messages
    have hflat : ∀ f ∈ p :: plains, (toBlocks f).flatten = f := fun f hf => (Lemmas.Crypt.toBlocks_spec f (hal f hf)).1
    have hdecall : (p :: plains).map (fun f => decodeFrame f) = (x :: xs).map (fun y => Res.ok y.1) := by
      -- from hp/hpw and roundtrip_plain for each
      have key : ∀ (ys : List (List Msg × Bool × Int × Int)) (ps : List (List Byte)),
          (∀ y ∈ ys, Spec.WFList y.1 ∧ (-(2^63 : Int) ≤ y.2.2.1 ∧ y.2.2.1 < (2^63 : Int)) ∧ (0 ≤ y.2.2.2 ∧ y.2.2.2 < 1000000000)) →
          ys.map (fun y => writePlain y.1 y.2.1 y.2.2.1 y.2.2.2) = ps.map .ok →
          ps.map (fun f => decodeFrame f) = ys.map (fun y => Res.ok y.1) := by
        intro ys
        induction ys with
        | nil => intro ps _ h; cases ps <;> simp_all
        | cons y ys ihy =>
          intro ps hw h
          cases ps with
          | nil => simp at h
          | cons q qs =>
            simp only [List.map_cons, List.cons.injEq] at h ⊢
            obtain ⟨hy1, hy2, hy3⟩ := hw y (by simp)
            obtain ⟨q', hq', _, hd'⟩ := roundtrip_plain y.1 y.2.1 y.2.2.1 y.2.2.2 hy1 hy2 hy3
            rw [hq'] at h
            have : q' = q := by cases h.1; rfl
            subst this
            exact ⟨hd', ihy qs (fun z hz => hw z (by simp [hz])) h.2⟩
      exact key (x :: xs) (p :: plains) hwf (by simp [hpw, hp])
    rw [← hdecall]
    apply List.map_congr_left
    intro f hf
    simp [hflat f hf]

-- non-vacuity: a nested tree with a value-less message, an empty string, an unknown tag and a time stamp is well-formed
example : Spec.WFList [.mk 1 14 (.msgs [.mk 16777217 0 .nil, .mk 2 13 (.str []), .mk 4294967295 3 (.num .u8 255)]),
                       .mk 167772175 15 (.time (-5) 999999999)] := by
  refine ⟨by simp [Spec.MsgsOK, Spec.MsgOK, Spec.ValOK, Kind.inRange, Kind.width, Kind.signed], by rfl, by decide⟩

end Rscp.Props.C01
