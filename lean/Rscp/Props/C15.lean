/-
C15 — the e3dc command keeps its process contract.
Statements over `Model/Cli.lean` (composition of request parser, client machine and output formats).
Helper lemmas: `Lemmas/Cli.lean`.
-/
import Rscp.Lemmas.Cli
namespace Rscp.Props.C15
open Rscp Rscp.Model

/-- the library's number→bool/string coercion returns plain Go values -/
def CoerceOK (lib : JsonLib) : Prop :=
  ∀ k d v, lib.coerce k d = some v → (∃ b, v = .bool b) ∨ (∃ s, v = .str s) ∨ (∃ s, v = .bytes s)

/-- -help and -version: text on standard error, status 0, nothing on standard output -/
theorem help_version (lib : JsonLib) (env : CliEnv) (h : env.flags = .help ∨ env.flags = .version) :
    (cliMain lib env).status = 0 ∧ (cliMain lib env).stdout = none ∧ (cliMain lib env).stderrNonEmpty = true ∧
    (cliMain lib env).frames = [] := by
  rcases h with h | h <;> simp [cliMain, h]

/-- every other run ends in exactly one of two ways: status 0 with one JSON document on standard output, or a
    non-zero status with a diagnostic on standard error and nothing on standard output -/
theorem process_contract (lib : JsonLib) (env : CliEnv) (h : env.flags ≠ .help ∧ env.flags ≠ .version) :
    ((cliMain lib env).status = 0 ∧ (cliMain lib env).stdout.isSome ∧ (cliMain lib env).panicked = false) ∨
    ((cliMain lib env).status ≠ 0 ∧ (cliMain lib env).stdout = none ∧ (cliMain lib env).stderrNonEmpty = true) := by
  obtain ⟨h1, h2⟩ := h
  cases hf : env.flags with
  | help => exact absurd hf h1
  | version => exact absurd hf h2
  | flagError => right; simp [cliMain, hf, cliFail]
  | ok =>
    simp only [cliMain, hf]
    rw [cliRun_eq]
    cases env.request with
    | none => right; simp [cliFail]
    | some j =>
      simp only []
      cases requestsOfJ lib (4 * j.size + 4) j with
      | err e => right; simp [cliFail]
      | panic => right; simp [cliPanic]
      | ok ms => exact cliFinish_contract _ _ _

/-- never a Go panic trace -/
theorem no_panic_trace (lib : JsonLib) (hc : CoerceOK lib) (env : CliEnv) : (cliMain lib env).panicked = false := by
  cases hf : env.flags with
  | help => simp [cliMain, hf]
  | version => simp [cliMain, hf]
  | flagError => simp [cliMain, hf, cliFail]
  | ok =>
    simp only [cliMain, hf]
    rw [cliRun_eq]
    cases env.request with
    | none => simp [cliFail]
    | some j =>
      simp only []
      cases hp : requestsOfJ lib (4 * j.size + 4) j with
      | err e => simp [cliFail]
      | panic => exact absurd hp (fun h => requestsOfJ_total hc j h)
      | ok ms => exact cliFinish_panicked _ _ _ (cliExec_ne_panic env ms (requestsOfJ_go hc hp))

/-- unusable flags/configuration and bad request text fail before anything is sent -/
theorem early_failures_send_nothing (lib : JsonLib) (env : CliEnv)
    (h : env.flags = .flagError ∨ env.request = none ∨
         (∃ j, env.request = some j ∧ ∃ e, requestsOfJ lib (4 * j.size + 4) j = .err e)) (hf : env.flags ≠ .help ∧ env.flags ≠ .version) :
    (cliMain lib env).frames = [] ∧ (cliMain lib env).status ≠ 0 := by
  obtain ⟨h1, h2⟩ := hf
  cases hfl : env.flags with
  | help => exact absurd hfl h1
  | version => exact absurd hfl h2
  | flagError => simp [cliMain, hfl, cliFail]
  | ok =>
    simp only [cliMain, hfl]
    rw [cliRun_eq]
    rcases h with h | h | ⟨j, hj, e, he⟩
    · rw [hfl] at h; cases h
    · simp [h, cliFail]
    · simp [hj, he, cliFail]

/-- with -splitrequests a successful run has sent the authentication request and then each top-level request in
    its own frame, in order -/
theorem split_sends_one_frame_each (lib : JsonLib) (env : CliEnv) (j : J) (ms : List Msg)
    (hflags : env.flags = .ok) (hs : env.split = true) (hj : env.request = some j)
    (hp : requestsOfJ lib (4 * j.size + 4) j = .ok ms) (hne : ms ≠ [])
    (hok : (cliMain lib env).status = 0) :
    (cliMain lib env).frames = authRequest env.cred.user env.cred.password :: ms.map (fun m => [m]) := by
  simp only [cliMain, hflags] at hok ⊢
  rw [cliRun_parsed lib env j ms hj hp] at hok ⊢
  obtain ⟨out, ho⟩ := cliFinish_status _ _ _ hok
  rw [cliFinish_frames]
  exact (cliExec_split_ok env ms out hs hne ho).1

/-- against a device that answers every request with one message, the split run prints what the unsplit run
    prints (the unsplit run receives the same answers in one frame) -/
theorem split_equals_unsplit (lib : JsonLib) (envS envU : CliEnv) (j : J) (ms rs : List Msg)
    (hS : envS.flags = .ok ∧ envS.split = true ∧ envS.request = some j)
    (hU : envU.flags = .ok ∧ envU.split = false ∧ envU.request = some j ∧ envU.format = envS.format ∧ envU.cred = envS.cred ∧
          envU.authReply = envS.authReply ∧ envU.dialOk = envS.dialOk)
    (hp : requestsOfJ lib (4 * j.size + 4) j = .ok ms) (hne : ms ≠ []) (hlen : rs.length = ms.length)
    (hrS : envS.replies = rs.map (fun r => .frame [r])) (hrU : envU.replies = [.frame rs])
    (hokS : (cliMain lib envS).status = 0) (hokU : (cliMain lib envU).status = 0) :
    (cliMain lib envS).stdout = (cliMain lib envU).stdout := by
  obtain ⟨hSf, hSs, hSj⟩ := hS
  obtain ⟨hUf, hUs, hUj, hUfmt, _, _, _⟩ := hU
  simp only [cliMain, hSf] at hokS ⊢
  simp only [cliMain, hUf] at hokU ⊢
  rw [cliRun_parsed lib envS j ms hSj hp] at hokS ⊢
  rw [cliRun_parsed lib envU j ms hUj hp] at hokU ⊢
  obtain ⟨outS, hoS⟩ := cliFinish_status _ _ _ hokS
  obtain ⟨outU, hoU⟩ := cliFinish_status _ _ _ hokU
  have eS : outS = rs := (cliExec_split_ok envS ms outS hSs hne hoS).2 rs hrS hlen
  have eU : outU = rs := cliExec_unsplit_ok envU ms outU rs hUs hrU hoU
  rw [hoS, hoU, eS, eU, hUfmt]
  exact cliFinish_stdout _ _ _ _

#print axioms help_version
#print axioms process_contract
#print axioms no_panic_trace
#print axioms early_failures_send_nothing
#print axioms split_sends_one_frame_each
#print axioms split_equals_unsplit

end Rscp.Props.C15
