/-
C15 — the e3dc command keeps its process contract.
Statements over `Model/Cli.lean` (composition of request parser, client machine and output formats).
Helper lemmas: `Lemmas/Cli.lean`.
-/
import Rscp.Lemmas.Cli
namespace Rscp.Props.C15
open Rscp Rscp.Model

/-- the library's number→bool/string coercion returns plain Go values -/
def CoerceOK (lib : JsonLib) : Prop :=
  ∀ k d v, lib.coerce k d = some v → (∃ b, v = .bool b) ∨ (∃ s, v = .str s) ∨ (∃ s, v = .bytes s)

/-- -help and -version: text on standard error, status 0, nothing on standard output -/
theorem help_version (lib : JsonLib) (env : CliEnv) (h : env.flags = .help ∨ env.flags = .version) :
    (cliMain lib env).status = 0 ∧ (cliMain lib env).stdout = none ∧ (cliMain lib env).stderrNonEmpty = true ∧
    (cliMain lib env).frames = [] := by
  sorry

/-- every other run ends in exactly one of two ways: status 0 with one JSON document on standard output, or a
    non-zero status with a diagnostic on standard error and nothing on standard output -/
theorem process_contract (lib : JsonLib) (env : CliEnv) (h : env.flags ≠ .help ∧ env.flags ≠ .version) :
    ((cliMain lib env).status = 0 ∧ (cliMain lib env).stdout.isSome ∧ (cliMain lib env).panicked = false) ∨
    ((cliMain lib env).status ≠ 0 ∧ (cliMain lib env).stdout = none ∧ (cliMain lib env).stderrNonEmpty = true) := by
  sorry

/-- never a Go panic trace -/
theorem no_panic_trace (lib : JsonLib) (hc : CoerceOK lib) (env : CliEnv) : (cliMain lib env).panicked = false := by
  sorry

/-- unusable flags/configuration and bad request text fail before anything is sent -/
theorem early_failures_send_nothing (lib : JsonLib) (env : CliEnv)
    (h : env.flags = .flagError ∨ env.request = none ∨
         (∃ j, env.request = some j ∧ ∃ e, requestsOfJ lib (4 * j.size + 4) j = .err e)) (hf : env.flags ≠ .help ∧ env.flags ≠ .version) :
    (cliMain lib env).frames = [] ∧ (cliMain lib env).status ≠ 0 := by
  sorry

/-- with -splitrequests a successful run has sent the authentication request and then each top-level request in
    its own frame, in order -/
theorem split_sends_one_frame_each (lib : JsonLib) (env : CliEnv) (j : J) (ms : List Msg)
    (hflags : env.flags = .ok) (hs : env.split = true) (hj : env.request = some j)
    (hp : requestsOfJ lib (4 * j.size + 4) j = .ok ms) (hne : ms ≠ [])
    (hok : (cliMain lib env).status = 0) :
    (cliMain lib env).frames = authRequest env.cred.user env.cred.password :: ms.map (fun m => [m]) := by
  sorry

/-- against a device that answers every request with one message, the split run prints what the unsplit run
    prints (the unsplit run receives the same answers in one frame) -/
theorem split_equals_unsplit (lib : JsonLib) (envS envU : CliEnv) (j : J) (ms rs : List Msg)
    (hS : envS.flags = .ok ∧ envS.split = true ∧ envS.request = some j)
    (hU : envU.flags = .ok ∧ envU.split = false ∧ envU.request = some j ∧ envU.format = envS.format ∧ envU.cred = envS.cred ∧
          envU.authReply = envS.authReply ∧ envU.dialOk = envS.dialOk)
    (hp : requestsOfJ lib (4 * j.size + 4) j = .ok ms) (hne : ms ≠ []) (hlen : rs.length = ms.length)
    (hrS : envS.replies = rs.map (fun r => .frame [r])) (hrU : envU.replies = [.frame rs])
    (hokS : (cliMain lib envS).status = 0) (hokU : (cliMain lib envU).status = 0) :
    (cliMain lib envS).stdout = (cliMain lib envU).stdout := by
  sorry

end Rscp.Props.C15
