/-
C07 — replies are reassembled whatever way the stream is segmented.
Statements over the byte-level model of `Client.receive` (`Model/Receive.lean`), which runs on the
plaintext stream (C06 `cbc_chunking` shows that CBC decryption commutes with block-aligned cutting).
Helper lemmas: `Lemmas/Receive.lean`.
-/
import Rscp.Lemmas.Receive
namespace Rscp.Props.C07
open Rscp Rscp.Model

/-- The reply stream of a peer that answers once: whatever follows the frame the header announces is zero
    (padding). If the first block is no valid header, or the stream ends before the frame is complete, there is
    nothing to require. -/
def CleanTail (stream : List Byte) : Prop :=
  ∀ cf fs ds, readHeader (stream.take 32) = .ok (cf, fs, ds) → ∀ i, fs ≤ i → stream.getD i 0 = 0

/-- no byte is dropped, duplicated or reordered: what the loop hands to the decoder is a prefix of the stream,
    made of whole cipher blocks -/
theorem fed_is_prefix (bufBlocks : Nat) (segs : List (List Byte)) :
    ∃ k, (receiveBytes bufBlocks segs).fed = segs.flatten.take (32 * k) := by
  unfold receiveBytes
  by_cases hcap : 0 < uwrap 32 (Gen.C.RSCP_CRYPT_BLOCK_SIZE * bufBlocks)
  · obtain ⟨h1, h2⟩ := Lemmas.Receive.reads_spec _ hcap segs
    obtain ⟨k, hk⟩ := Lemmas.Receive.recvLoop_fed _ ({} : RState) [] [] h2 rfl
    exact ⟨k, by rw [hk, h1]; rfl⟩
  · have h0 : uwrap 32 (Gen.C.RSCP_CRYPT_BLOCK_SIZE * bufBlocks) = 0 := Nat.eq_zero_of_not_pos hcap
    rw [h0, Lemmas.Receive.reads_zero]
    exact ⟨0, rfl⟩

/-- For every way the transport delivers the bytes of a reply and every receive-buffer size, the client returns
    what it returns when the reply arrives in one piece. -/
theorem segmentation_invariant (b₁ b₂ : Nat) (hb₁ : 0 < b₁ ∧ b₁ ≤ 2049) (hb₂ : 0 < b₂ ∧ b₂ ≤ 2049)
    (segs₁ segs₂ : List (List Byte)) (hne₁ : ∀ s ∈ segs₁, s ≠ []) (hne₂ : ∀ s ∈ segs₂, s ≠ [])
    (hcat : segs₁.flatten = segs₂.flatten) (hclean : CleanTail segs₁.flatten) :
    (receiveBytes b₁ segs₁).result = (receiveBytes b₂ segs₂).result ∧
    (receiveBytes b₁ segs₁).disconnected = (receiveBytes b₂ segs₂).disconnected := by
  have hc₁ : ∀ cf fs ds, readHeader (segs₁.flatten.take 32) = .ok (cf, fs, ds) →
      (segs₁.flatten.drop fs).all (· == 0) = true :=
    fun cf fs ds h => Lemmas.Receive.all_zero_of_getD _ _ (hclean cf fs ds h)
  have h₁ := Lemmas.Receive.receive_outcome b₁ hb₁ segs₁ hc₁
  have h₂ := Lemmas.Receive.receive_outcome b₂ hb₂ segs₂ (hcat ▸ hc₁)
  rw [← hcat, ← h₁] at h₂
  exact ⟨(congrArg Prod.fst h₂).symm, (congrArg Prod.snd h₂).symm⟩

/-- in particular: the result is that of the whole stream delivered at once into a buffer that holds it -/
theorem one_piece (b : Nat) (hb : 0 < b ∧ b ≤ 2049) (segs : List (List Byte)) (hne : ∀ s ∈ segs, s ≠ [])
    (hnonempty : segs.flatten ≠ []) (hclean : CleanTail segs.flatten) :
    (receiveBytes b segs).result = (receiveBytes 2049 [segs.flatten]).result := by
  have hc : ∀ cf fs ds, readHeader (segs.flatten.take 32) = .ok (cf, fs, ds) →
      (segs.flatten.drop fs).all (· == 0) = true :=
    fun cf fs ds h => Lemmas.Receive.all_zero_of_getD _ _ (hclean cf fs ds h)
  have e : [segs.flatten].flatten = segs.flatten := by rw [List.flatten_cons, List.flatten_nil, List.append_nil]
  have h₁ := Lemmas.Receive.receive_outcome b hb segs hc
  have h₂ := Lemmas.Receive.receive_outcome 2049 ⟨by omega, Nat.le_refl _⟩ [segs.flatten] (e.symm ▸ hc)
  rw [e, ← h₁] at h₂
  exact (congrArg Prod.fst h₂).symm

/-- a complete well-formed reply is returned however it is cut: if the stream is a frame the decoder accepts
    with a non-empty message list, every delivery yields exactly those messages -/
theorem complete_reply_returned (b : Nat) (hb : 0 < b ∧ b ≤ 2049) (segs : List (List Byte)) (hne : ∀ s ∈ segs, s ≠ [])
    (m : Msg) (ms : List Msg) (hlen : 32 ≤ segs.flatten.length) (hmod : segs.flatten.length % 32 = 0)
    (hdec : decodeFrame segs.flatten = .ok (m :: ms)) :
    (receiveBytes b segs).result = .ok (m :: ms) ∧ (receiveBytes b segs).disconnected = false := by
  obtain ⟨hc, ho⟩ := Lemmas.Receive.complete_outcome segs.flatten ⟨hlen, hmod⟩ m ms hdec
  have h := Lemmas.Receive.receive_outcome b hb segs hc
  rw [ho] at h
  exact ⟨congrArg Prod.fst h, congrArg Prod.snd h⟩

/-- the loop never panics -/
theorem receive_no_panic (bufBlocks : Nat) (segs : List (List Byte)) : (receiveBytes bufBlocks segs).result ≠ .panic := by
  unfold receiveBytes
  by_cases hcap : 0 < uwrap 32 (Gen.C.RSCP_CRYPT_BLOCK_SIZE * bufBlocks)
  · exact Lemmas.Receive.recvLoop_no_panic _ ({} : RState) [] [] (Lemmas.Receive.reads_spec _ hcap segs).2
      Model.Reachable.init
  · have h0 : uwrap 32 (Gen.C.RSCP_CRYPT_BLOCK_SIZE * bufBlocks) = 0 := Nat.eq_zero_of_not_pos hcap
    rw [h0, Lemmas.Receive.reads_zero]
    intro h; cases h

#print axioms fed_is_prefix
#print axioms segmentation_invariant
#print axioms one_piece
#print axioms complete_reply_returned
#print axioms receive_no_panic
end Rscp.Props.C07
