/-
C07 — replies are reassembled whatever way the stream is segmented.
Statements over the byte-level model of `Client.receive` (`Model/Receive.lean`), which runs on the
plaintext stream (C06 `cbc_chunking` shows that CBC decryption commutes with block-aligned cutting).
Helper lemmas: `Lemmas/Receive.lean`.
-/
import Rscp.Lemmas.Receive
namespace Rscp.Props.C07
open Rscp Rscp.Model

/-- The reply stream of a peer that answers once: whatever follows the frame the header announces is zero
    (padding). If the first block is no valid header, or the stream ends before the frame is complete, there is
    nothing to require. -/
def CleanTail (stream : List Byte) : Prop :=
  ∀ cf fs ds, readHeader (stream.take 32) = .ok (cf, fs, ds) → ∀ i, fs ≤ i → stream.getD i 0 = 0

/-- no byte is dropped, duplicated or reordered: what the loop hands to the decoder is a prefix of the stream,
    made of whole cipher blocks -/
theorem fed_is_prefix (bufBlocks : Nat) (segs : List (List Byte)) :
    ∃ k, (receiveBytes bufBlocks segs).fed = segs.flatten.take (32 * k) := by
  sorry

/-- For every way the transport delivers the bytes of a reply and every receive-buffer size, the client returns
    what it returns when the reply arrives in one piece. -/
theorem segmentation_invariant (b₁ b₂ : Nat) (hb₁ : 0 < b₁ ∧ b₁ ≤ 2049) (hb₂ : 0 < b₂ ∧ b₂ ≤ 2049)
    (segs₁ segs₂ : List (List Byte)) (hne₁ : ∀ s ∈ segs₁, s ≠ []) (hne₂ : ∀ s ∈ segs₂, s ≠ [])
    (hcat : segs₁.flatten = segs₂.flatten) (hclean : CleanTail segs₁.flatten) :
    (receiveBytes b₁ segs₁).result = (receiveBytes b₂ segs₂).result ∧
    (receiveBytes b₁ segs₁).disconnected = (receiveBytes b₂ segs₂).disconnected := by
  sorry

/-- in particular: the result is that of the whole stream delivered at once into a buffer that holds it -/
theorem one_piece (b : Nat) (hb : 0 < b ∧ b ≤ 2049) (segs : List (List Byte)) (hne : ∀ s ∈ segs, s ≠ [])
    (hnonempty : segs.flatten ≠ []) (hclean : CleanTail segs.flatten) :
    (receiveBytes b segs).result = (receiveBytes 2049 [segs.flatten]).result := by
  sorry

/-- a complete well-formed reply is returned however it is cut: if the stream is a frame the decoder accepts
    with a non-empty message list, every delivery yields exactly those messages -/
theorem complete_reply_returned (b : Nat) (hb : 0 < b ∧ b ≤ 2049) (segs : List (List Byte)) (hne : ∀ s ∈ segs, s ≠ [])
    (m : Msg) (ms : List Msg) (hlen : 32 ≤ segs.flatten.length) (hmod : segs.flatten.length % 32 = 0)
    (hdec : decodeFrame segs.flatten = .ok (m :: ms)) :
    (receiveBytes b segs).result = .ok (m :: ms) ∧ (receiveBytes b segs).disconnected = false := by
  sorry

/-- the loop never panics -/
theorem receive_no_panic (bufBlocks : Nat) (segs : List (List Byte)) : (receiveBytes bufBlocks segs).result ≠ .panic := by
  sorry

end Rscp.Props.C07
