/-
C07 / C06 — the cipher is transparent to reassembly: the receive loop on ciphertext (Model/ReceiveEnc.lean) is
the plaintext loop (Model/Receive.lean) on the decrypted stream, for every block cipher whose decryption maps
blocks to blocks; and, end to end, a reply written by a peer that follows the CBC scheme is returned however
the ciphertext is segmented.
-/
import Rscp.Model.ReceiveEnc
import Rscp.Lemmas.ReceiveEnc
import Rscp.Props.C01
import Rscp.Props.C06
import Rscp.Props.C07
namespace Rscp.Props.C07
open Rscp Rscp.Model

/-- Decryption maps blocks to blocks (all that is needed of the cipher for arbitrary ciphertext). -/
def BlockSized (c : BlockCipher) : Prop := ∀ x : List Byte, x.length = 32 → (c.D x).length = 32

/-- For every block cipher, chaining state, buffer size and delivery of the ciphertext: the client's loop does
    exactly what the plaintext loop does on the decrypted stream cut at the same places — same result, same
    disconnect decision, same bytes handed to the decoder. -/
theorem cipher_transparent (c : BlockCipher) (hc : BlockSized c) (iv : List Byte) (hiv : iv.length = 32)
    (b : Nat) (segs : List (List Byte)) :
    receiveBytesEnc c iv b segs = receiveBytes b (cutLike segs (plainOf c iv segs.flatten)) := by
  exact Lemmas.ReceiveEnc.receiveBytesEnc_eq c hc iv hiv b segs

/-- End to end: a peer that follows the scheme encrypts the frame `p` of a non-empty reply with the chaining
    state the client's decrypter is in; however the ciphertext is delivered, the client returns the reply. -/
theorem encrypted_reply_returned (c : BlockCipher) (hok : c.OK) (hc : BlockSized c) (iv : List Byte) (hiv : iv.length = 32)
    (b : Nat) (hb : 0 < b ∧ b ≤ 2049) (m : Msg) (ms : List Msg) (crc : Bool) (sec nsec : Int)
    (hwf : Spec.WFList (m :: ms)) (hs : -(2^63 : Int) ≤ sec ∧ sec < (2^63 : Int)) (hn : 0 ≤ nsec ∧ nsec < 1000000000)
    (p : List Byte) (hp : writePlain (m :: ms) crc sec nsec = .ok p)
    (segs : List (List Byte)) (hne : ∀ s ∈ segs, s ≠ [])
    (hsegs : segs.flatten = (cbcEnc c iv (toBlocks p)).1.flatten) :
    (receiveBytesEnc c iv b segs).result = .ok (m :: ms) ∧ (receiveBytesEnc c iv b segs).disconnected = false := by
  -- the plaintext: at least one block, block aligned, decodes to the reply
  obtain ⟨p', hp', hmod, hdec⟩ := C01.roundtrip_plain (m :: ms) crc sec nsec hwf hs hn
  obtain ⟨p'', hp'', hlen, _, _⟩ := C01.spec_roundtrip (m :: ms) crc sec nsec hwf hs hn
  rw [hp] at hp' hp''
  cases hp'; cases hp''
  -- what the client's decrypter makes of the ciphertext is that plaintext
  have hplain : plainOf c iv segs.flatten = p := by
    rw [hsegs]; exact Lemmas.ReceiveEnc.plainOf_cbcEnc c hok iv hiv p hmod
  have hl : p.length = segs.flatten.length := by
    rw [← hplain]; exact Lemmas.ReceiveEnc.plainOf_length c hc iv hiv segs.flatten
  have hflat : (cutLike segs p).flatten = p := Lemmas.ReceiveEnc.cutLike_flatten segs p hl
  rw [cipher_transparent c hc iv hiv b segs, hplain]
  exact complete_reply_returned b hb (cutLike segs p) (Lemmas.ReceiveEnc.cutLike_ne segs p hl hne) m ms
    (by rw [hflat]; exact hlen) (by rw [hflat]; exact hmod) (by rw [hflat]; exact hdec)

/-- hence the loop on ciphertext never panics either, whatever arrives and whatever the cipher does with it -/
theorem receive_enc_no_panic (c : BlockCipher) (hc : BlockSized c) (iv : List Byte) (hiv : iv.length = 32)
    (b : Nat) (segs : List (List Byte)) : (receiveBytesEnc c iv b segs).result ≠ .panic := by
  rw [cipher_transparent c hc iv hiv b segs]
  exact receive_no_panic _ _

/-- and what it hands to the decoder is the decryption of a whole-block prefix of what arrived -/
theorem fed_enc_is_prefix (c : BlockCipher) (hc : BlockSized c) (iv : List Byte) (hiv : iv.length = 32)
    (b : Nat) (segs : List (List Byte)) :
    ∃ k, (receiveBytesEnc c iv b segs).fed = (cutLike segs (plainOf c iv segs.flatten)).flatten.take (32 * k) := by
  rw [cipher_transparent c hc iv hiv b segs]
  exact fed_is_prefix _ _

/-- non-vacuity: the identity "cipher" is block sized and OK -/
example : BlockSized ⟨id, id⟩ ∧ (⟨id, id⟩ : BlockCipher).OK := by
  exact ⟨fun _ h => h, fun _ h => ⟨h, rfl⟩⟩

#print axioms cipher_transparent
#print axioms encrypted_reply_returned

end Rscp.Props.C07
#print axioms Rscp.Props.C07.receive_enc_no_panic
#print axioms Rscp.Props.C07.fed_enc_is_prefix
