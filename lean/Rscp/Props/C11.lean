/-
C11 — the account password never reaches the log.
Helper lemmas: `Lemmas/Log.lean`. The list of log call sites is regenerated from the source and frozen
by `Tie/Log.lean`.
-/
import Rscp.Lemmas.Log
namespace Rscp.Props.C11
open Rscp Rscp.Model

/-- Non-interference: the text of a message does not depend on the value of any secret-tagged message inside
    it, at any nesting depth, whatever the leaf formatting is. -/
theorem render_masks (tagS dtS : Nat → String) (leaf : Val → String) (m : Msg) :
    render tagS dtS leaf m = render tagS dtS leaf (maskSecrets m) := by
  exact render_maskSecrets tagS dtS leaf m

/-- two messages that differ only in values under secret tags render identically -/
theorem render_secret_independent (tagS dtS : Nat → String) (leaf : Val → String) (m m' : Msg)
    (h : maskSecrets m = maskSecrets m') : render tagS dtS leaf m = render tagS dtS leaf m' := by
  rw [render_maskSecrets tagS dtS leaf m, render_maskSecrets tagS dtS leaf m', h]

/-- the password and the passphrase tags are secret -/
theorem secret_tags : isSecret (tagNamedL "RSCP_AUTHENTICATION_PASSWORD") = true ∧
    isSecret (tagNamedL "RSCP_REQ_SET_ENCRYPTION_PASSPHRASE") = true := by
  constructor <;> decide +kernel

/-- while the authentication frame is built and sent, at every configured level below 99 the logger level is at
    most Info -/
theorem auth_window_quiet (L : Nat) (h : L < 99) : authWindowLevel L ≤ lvlInfo := by
  unfold authWindowLevel
  have h99 : Gen.C.RequiredAuthLogLevel = 99 := rfl
  rw [h99, if_pos h]
  exact Nat.min_le_right _ _

/-- hence none of the log calls that run while a frame is written (rendered messages at Debug, plaintext and
    ciphertext dumps at Trace) is emitted for the authentication frame -/
theorem auth_frame_not_logged (L : Nat) (h : L < 99) :
    ∀ s ∈ writeSites, emitted (authWindowLevel L) s.1 = false := by
  have hq : authWindowLevel L ≤ lvlInfo := auth_window_quiet L h
  intro s hs
  simp only [writeSites, List.mem_cons, List.mem_nil_iff, or_false] at hs
  simp only [lvlInfo] at hq
  rcases hs with rfl | rfl | rfl <;> exact decide_eq_false (by simp only [lvlDebug, lvlTrace]; omega)

/-- every log call of the package that shows request data (rendered or dumped) is one of the `Write` sites or a
    `Read` site (which shows replies, never the request), and rendered data goes through `Message.String` -/
theorem request_data_sites :
    ∀ s ∈ siteClass, (s.2.2 = .plainDump ∨ s.2.2 = .cipherDump ∨ s.2.2 = .rendered) →
      (s.1.startsWith "Write:" ∨ s.1.startsWith "Read:") ∧ lvlDebug ≤ s.2.1 := by
  decide +kernel

/-- Known finding F23, witnessed in the model: *received* frames are dumped whenever the caller's level is Trace or
    higher — the authentication window does not cover the reply — so bytes a peer sends back (for instance an echo
    of the authentication request) appear in the log at levels 6…98. The stream `log` replays this on the real
    client (scenario 4) and the check reports it as KNOWN-FINDING `password-reflected-by-peer`. -/
theorem known_finding_received_dump_is_logged (L : Nat) (h : lvlTrace ≤ L) :
    ("Read:Tracef:read plain", lvlTrace, Payload.plainDump) ∈ siteClass ∧ emitted L lvlTrace = true := by
  refine ⟨by decide +kernel, ?_⟩
  simp only [emitted, lvlTrace] at *
  exact decide_eq_true h

/-- at the documented override the window is not lowered (the statement is about levels below 99 only) -/
example : authWindowLevel 99 = 99 := by decide

end Rscp.Props.C11

#print axioms Rscp.Props.C11.render_masks
#print axioms Rscp.Props.C11.render_secret_independent
#print axioms Rscp.Props.C11.secret_tags
#print axioms Rscp.Props.C11.auth_window_quiet
#print axioms Rscp.Props.C11.auth_frame_not_logged
#print axioms Rscp.Props.C11.request_data_sites
#print axioms Rscp.Props.C11.known_finding_received_dump_is_logged
