/-
C06 / C08 — the inbound direction of a connection over its whole lifetime: a peer that follows the scheme (one
CBC encrypter per connection, started from the IV the client's decrypter starts from, every reply a well-formed
non-empty frame) is understood reply after reply, whatever way each reply's ciphertext is segmented: every call
of `receive()` returns exactly the reply written for it and the client never disconnects.
-/
import Rscp.Model.SessionRecv
import Rscp.Props.C07b
import Rscp.Lemmas.SessionRecv
namespace Rscp.Props.C06
open Rscp Rscp.Model

/-- the state-returning loop shows the caller what `receiveBytesEnc` shows -/
theorem receiveEncSt_fst (c : BlockCipher) (iv : List Byte) (b : Nat) (segs : List (List Byte)) :
    (receiveEncSt c iv b segs).1 = receiveBytesEnc c iv b segs := by
  exact Lemmas.SessionRecv.receiveEncSt_fst' c iv b segs

/-- a reply as the peer produces it: messages and the frame parameters -/
structure Reply where
  ms : List Msg
  crc : Bool
  sec : Int
  nsec : Int

/-- what makes a reply acceptable: non-empty, well-formed, time stamp in range -/
def Reply.OK (r : Reply) : Prop :=
  r.ms ≠ [] ∧ Spec.WFList r.ms ∧ (-(2^63 : Int) ≤ r.sec ∧ r.sec < (2^63 : Int)) ∧ (0 ≤ r.nsec ∧ r.nsec < 1000000000)

/-- `deliveries` is a segmentation of the ciphertext frames, reply by reply, into non-empty pieces -/
def Delivers (cts : List (List Byte)) (deliveries : List (List (List Byte))) : Prop :=
  cts.length = deliveries.length ∧ ∀ p ∈ cts.zip deliveries, p.2.flatten = p.1 ∧ ∀ s ∈ p.2, s ≠ []

theorem peerWrites_cons (c : BlockCipher) (iv p : List Byte) (rest : List (List Byte)) :
    peerWrites c iv (p :: rest) =
      (cbcEnc c iv (toBlocks p)).1.flatten :: peerWrites c (cbcEnc c iv (toBlocks p)).2 rest := rfl

theorem receiveCalls_cons (c : BlockCipher) (b : Nat) (iv : List Byte) (segs : List (List Byte))
    (rest : List (List (List Byte))) :
    receiveCalls c b iv (segs :: rest) =
      if (receiveEncSt c iv b segs).1.disconnected then [(receiveEncSt c iv b segs).1]
      else (receiveEncSt c iv b segs).1 :: receiveCalls c b (receiveEncSt c iv b segs).2 rest := rfl

/-- **Every reply of a connection is understood.** Peer and client start from the same chaining state `iv` (the
    all-0xFF IV on a new connection); the peer writes the frames of `replies` on one encrypter; reply `k` is
    delivered to the `k`-th call of `receive()` in any segmentation. Then call `k` returns reply `k`, no call
    disconnects. For every block cipher with D∘E = id whose decryption maps blocks to blocks, every buffer size. -/
theorem every_reply_understood (c : BlockCipher) (hok : c.OK) (hc : C07.BlockSized c) (iv : List Byte) (hiv : iv.length = 32)
    (b : Nat) (hb : 0 < b ∧ b ≤ 2049) (replies : List Reply) (hr : ∀ r ∈ replies, r.OK)
    (frames : List (List Byte)) (hlen : replies.length = frames.length)
    (hf : ∀ p ∈ replies.zip frames, writePlain p.1.ms p.1.crc p.1.sec p.1.nsec = .ok p.2)
    (deliveries : List (List (List Byte))) (hd : Delivers (peerWrites c iv frames) deliveries) :
    (receiveCalls c b iv deliveries).map (fun o => (o.result, o.disconnected)) =
      replies.map (fun r => (Res.ok r.ms, false)) := by
  induction replies generalizing iv frames deliveries with
  | nil =>
    cases frames with
    | cons p ps => cases hlen
    | nil =>
      cases deliveries with
      | cons d ds => cases hd.1
      | nil => rfl
  | cons r rs ih =>
    cases frames with
    | nil => cases hlen
    | cons p ps =>
      rw [peerWrites_cons] at hd
      cases deliveries with
      | nil => cases hd.1
      | cons segs ds =>
        obtain ⟨hdl, hdz⟩ := hd
        obtain ⟨hflat, hne⟩ := hdz (_, segs) (by rw [List.zip_cons_cons]; exact List.mem_cons_self ..)
        have hwp := hf (r, p) (by rw [List.zip_cons_cons]; exact List.mem_cons_self ..)
        obtain ⟨hne0, hwf, hs, hn⟩ := hr r (List.mem_cons_self ..)
        obtain ⟨rms, rcrc, rsec, rnsec⟩ := r
        cases rms with
        | nil => exact absurd rfl hne0
        | cons m ms =>
          obtain ⟨h1, h2, h3, h4⟩ := Lemmas.SessionRecv.receiveEncSt_reply c hok hc iv hiv b hb m ms rcrc rsec rnsec
            hwf hs hn p hwp segs hne hflat
          have ih' := ih (cbcEnc c iv (toBlocks p)).2 h4 (fun x hx => hr x (List.mem_cons_of_mem _ hx)) ps
            (by simpa using hlen)
            (fun x hx => hf x (by rw [List.zip_cons_cons]; exact List.mem_cons_of_mem _ hx)) ds
            ⟨by simpa using hdl, fun x hx => hdz x (by rw [List.zip_cons_cons]; exact List.mem_cons_of_mem _ hx)⟩
          rw [receiveCalls_cons, h2, h3]
          simp only [Bool.false_eq_true, if_false, List.map_cons]
          rw [ih', h1, h2]

/-- non-vacuity: two replies with the identity cipher, the second delivered byte by byte (checked by evaluation
    of the model) -/
example : Reply.OK ⟨[.mk 0x00800001 Gen.C.Bool (.bool true)], true, 1, 2⟩ := by
  refine ⟨(by intro h; cases h), ?_, ⟨by decide, by decide⟩, ⟨by decide, by decide⟩⟩
  refine ⟨by simp [Spec.MsgsOK, Spec.MsgOK, Spec.ValOK, Gen.C.Bool], by rfl, by decide⟩

#print axioms receiveEncSt_fst
#print axioms every_reply_understood

end Rscp.Props.C06
