/-
C05 — what the client transmits is one well-formed frame, or nothing.
`clientSend` is the part of `Client.send` before the socket: `validateRequests`, then `Write`
(model: `writePlain`, the plaintext handed to the cipher). Helper lemmas: `Lemmas/Send.lean`.
-/
import Rscp.Lemmas.Send
import Rscp.Props.C05Defs
namespace Rscp.Props.C05
open Rscp Rscp.Model

/-- never a panic — for values a Go program can hold -/
theorem send_no_panic (useCrc : Bool) (sec nsec : Int) (reqs : List Msg) (hgo : Spec.MsgsOK reqs) :
    clientSend useCrc sec nsec reqs ≠ .panic := by
  unfold clientSend
  cases hv : validateRequests reqs with
  | panic => exact absurd hv (validateRequests_ne_panic (goMsgs_of_ok reqs hgo))
  | err e => intro h; cases h
  | ok u =>
    cases u
    obtain ⟨p, hp, -⟩ := Lemmas.writePlain_spec reqs useCrc sec nsec (Lemmas.Send.wf_of_validated reqs hgo hv)
    intro h
    rw [hp] at h
    cases h

/-- the client refuses exactly the lists that are not sendable -/
theorem send_refuses_iff (useCrc : Bool) (sec nsec : Int) (reqs : List Msg) (hgo : Spec.MsgsOK reqs) :
    (∃ e, clientSend useCrc sec nsec reqs = .err e) ↔ ¬ Spec.Sendable reqs := by
  rw [← Lemmas.Send.validateRequests_iff_sendable reqs hgo]
  unfold clientSend
  cases hv : validateRequests reqs with
  | panic => exact absurd hv (validateRequests_ne_panic (goMsgs_of_ok reqs hgo))
  | err e => exact ⟨fun _ h => (by cases h), fun _ => ⟨e, rfl⟩⟩
  | ok u =>
    cases u
    obtain ⟨p, hp, -⟩ := Lemmas.writePlain_spec reqs useCrc sec nsec (Lemmas.Send.wf_of_validated reqs hgo hv)
    constructor
    · rintro ⟨e, he⟩
      rw [hp] at he
      cases he
    · intro h; exact absurd rfl h

/-- and otherwise hands over exactly one block-aligned, zero-padded frame whose length fields agree with its
    content (the frame grammar accepts it), that decodes to exactly those requests, carries the current time,
    and announces and carries a correct CRC when checksums are enabled -/
theorem send_frame_wf (useCrc : Bool) (sec nsec : Int) (reqs : List Msg) (hgo : Spec.MsgsOK reqs)
    (hs : -(2^63 : Int) ≤ sec ∧ sec < (2^63 : Int)) (hn : 0 ≤ nsec ∧ nsec < 1000000000)
    (p : List Byte) (h : clientSend useCrc sec nsec reqs = .ok p) :
    32 ≤ p.length ∧ p.length % 32 = 0 ∧ Spec.specDecode p = some reqs ∧ decodeFrame p = .ok reqs ∧
      frameTime p = (sec, nsec) ∧ ((leNat ((p.drop 2).take 2) >>> 12) &&& 1 = 1 ↔ useCrc = true) := by
  unfold clientSend at h
  cases hv : validateRequests reqs with
  | panic => rw [hv] at h; cases h
  | err e => rw [hv] at h; cases h
  | ok u =>
    cases u
    rw [hv] at h
    obtain ⟨q, hq, h1, h2, h3, h4, h5, h6, h7⟩ := Lemmas.Send.send_frame useCrc sec nsec reqs hgo hs hn hv
    have hqp : q = p := by
      have := hq.symm.trans h
      injection this
    subst hqp
    exact ⟨h1, h2, h3, h4, by simp only [frameTime, h5, h6], h7⟩

/-- the errors are the documented ones -/
theorem send_error_classes (useCrc : Bool) (sec nsec : Int) (reqs : List Msg) (hgo : Spec.MsgsOK reqs) (e : ErrClass)
    (h : clientSend useCrc sec nsec reqs = .err e) : e = .notARequest ∨ e = .typeMismatch ∨ e = .dataLimit := by
  unfold clientSend at h
  cases hv : validateRequests reqs with
  | panic => rw [hv] at h; cases h
  | err e' =>
    rw [hv] at h
    injection h with h
    subst h
    rcases validateRequests_err hv with h | h | h
    · exact Or.inr (Or.inl h)
    · exact Or.inr (Or.inr h)
    · exact Or.inl h
  | ok u =>
    cases u
    rw [hv] at h
    obtain ⟨p, hp, -⟩ := Lemmas.writePlain_spec reqs useCrc sec nsec (Lemmas.Send.wf_of_validated reqs hgo hv)
    rw [hp] at h
    cases h

-- non-vacuity
example : Spec.Sendable [.mk 1 14 (.msgs [.mk 2 13 (.str [0x61]), .mk 3 13 (.str [])])] := by
  refine ⟨by simp [Msg.tag, Nat.testBit], ?_, by decide⟩
  simp [Spec.ItemsOK, Spec.ItemOK, Spec.typeRow, Spec.typeTable, lookup, Val.kind, Spec.wireValSize, Spec.wireSize,
    Spec.maxItemData]

#print axioms send_no_panic
#print axioms send_refuses_iff
#print axioms send_frame_wf
#print axioms send_error_classes
end Rscp.Props.C05
