/-
C05 — what the client transmits is one well-formed frame, or nothing.
`clientSend` is the part of `Client.send` before the socket: `validateRequests`, then `Write`
(model: `writePlain`, the plaintext handed to the cipher). Helper lemmas: `Lemmas/Send.lean`.
-/
import Rscp.Lemmas.Send
namespace Rscp.Props.C05
open Rscp Rscp.Model

/-- what `Client.send` hands to the cipher for transmission, or the error it returns instead -/
def clientSend (useCrc : Bool) (sec nsec : Int) (reqs : List Msg) : Res (List Byte) :=
  match validateRequests reqs with
  | .ok () => writePlain reqs useCrc sec nsec
  | .err e => .err e
  | .panic => .panic

/-- the time stamp a plaintext frame carries -/
def frameTime (p : List Byte) : Int × Int :=
  (toSigned 8 (leNat ((p.drop 4).take 8)), toSigned 4 (leNat ((p.drop 12).take 4)))

/-- never a panic — for values a Go program can hold -/
theorem send_no_panic (useCrc : Bool) (sec nsec : Int) (reqs : List Msg) (hgo : Spec.MsgsOK reqs) :
    clientSend useCrc sec nsec reqs ≠ .panic := by
  sorry

/-- the client refuses exactly the lists that are not sendable -/
theorem send_refuses_iff (useCrc : Bool) (sec nsec : Int) (reqs : List Msg) (hgo : Spec.MsgsOK reqs) :
    (∃ e, clientSend useCrc sec nsec reqs = .err e) ↔ ¬ Spec.Sendable reqs := by
  sorry

/-- and otherwise hands over exactly one block-aligned, zero-padded frame whose length fields agree with its
    content (the frame grammar accepts it), that decodes to exactly those requests, carries the current time,
    and announces and carries a correct CRC when checksums are enabled -/
theorem send_frame_wf (useCrc : Bool) (sec nsec : Int) (reqs : List Msg) (hgo : Spec.MsgsOK reqs)
    (hs : -(2^63 : Int) ≤ sec ∧ sec < (2^63 : Int)) (hn : 0 ≤ nsec ∧ nsec < 1000000000)
    (p : List Byte) (h : clientSend useCrc sec nsec reqs = .ok p) :
    32 ≤ p.length ∧ p.length % 32 = 0 ∧ Spec.specDecode p = some reqs ∧ decodeFrame p = .ok reqs ∧
      frameTime p = (sec, nsec) ∧ ((leNat ((p.drop 2).take 2) >>> 12) &&& 1 = 1 ↔ useCrc = true) := by
  sorry

/-- the errors are the documented ones -/
theorem send_error_classes (useCrc : Bool) (sec nsec : Int) (reqs : List Msg) (hgo : Spec.MsgsOK reqs) (e : ErrClass)
    (h : clientSend useCrc sec nsec reqs = .err e) : e = .notARequest ∨ e = .typeMismatch ∨ e = .dataLimit := by
  sorry

-- non-vacuity
example : Spec.Sendable [.mk 1 14 (.msgs [.mk 2 13 (.str [0x61]), .mk 3 13 (.str [])])] := by
  sorry

end Rscp.Props.C05
