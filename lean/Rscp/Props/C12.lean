/-
C12 — a JSON request is transmitted exactly as written, in every notation.
Statements over `Model/JsonIn.lean` and the writing relation `Spec/JsonReq.lean`. Library behaviour that is a
parameter of the model (`JsonLib`: float conversion, RFC 3339 parsing, number→bool/string coercion) is universally
quantified: the theorems hold for every such library. Helper lemmas: `Lemmas/JsonIn.lean`.
-/
import Rscp.Lemmas.JsonIn
namespace Rscp.Props.C12
open Rscp Rscp.Model Rscp.Lemmas.JsonIn

/-- Every way of writing a (valid) request — bare tag, tuple, object, with the data type inferred from the tag or
    given explicitly, names or numbers for tags, any spelling of a number — is read back as exactly that request:
    same tag, data type and value at every depth. Hence any two writings of the same tree are transmitted as the
    same messages. -/
theorem written_is_read (lib : JsonLib) (o : Bool) (m : Msg) (j : J) (h : Spec.Writes lib o m j)
    (hv : validateMsg m = .ok ()) (f : Nat) (hf : 4 * j.size + 4 ≤ f) :
    requestOfJ lib f j = .ok m := by
  exact (request_read lib f).1 o m j h hv (by omega)

theorem notations_agree (lib : JsonLib) (ms : List Msg) (js₁ js₂ : List J)
    (h₁ : Spec.WritesList lib false ms js₁) (h₂ : Spec.WritesList lib false ms js₂)
    (hv : validateMsgs ms = .ok ()) :
    requestsOfJ lib (4 * (J.arr js₁).size + 4) (.arr js₁) = .ok ms ∧
    requestsOfJ lib (4 * (J.arr js₂).size + 4) (.arr js₂) = .ok ms := by
  constructor
  · rw [requestsOfJ]
    exact (request_read lib _).2 false ms js₁ h₁ hv (by simp only [J.size]; omega)
  · rw [requestsOfJ]
    exact (request_read lib _).2 false ms js₂ h₂ hv (by simp only [J.size]; omega)

/-- an integer that the data type cannot represent, or a number with a fractional part for an integer type, is
    refused — never saturated, truncated or wrapped -/
theorem integer_out_of_range_rejected (lib : JsonLib) (dt : Nat) (k : Kind) (d : Dec)
    (hk : newEmptyKind dt = k) (hw : k.width.isSome) (hf : k ≠ .f32 ∧ k ≠ .f64)
    (hbad : ∀ n, d.toInt? = some n → ¬ k.inRange n) :
    newNumber lib dt d = none := by
  rw [newNumber_int lib dt k d hk hw hf]
  cases h : d.toInt? with
  | none => rfl
  | some n => simp only [hbad n h, if_false]

/-- an integer the data type can represent is carried exactly, however it is spelled -/
theorem integer_carried_exactly (lib : JsonLib) (dt : Nat) (k : Kind) (d : Dec) (n : Int)
    (hk : newEmptyKind dt = k) (hw : k.width.isSome) (hf : k ≠ .f32 ∧ k ≠ .f64)
    (hd : d.toInt? = some n) (hr : k.inRange n) :
    newNumber lib dt d = some (.num k n) := by
  rw [newNumber_int lib dt k d hk hw hf, hd]
  simp only [hr, if_true]

/-- byte-array elements outside 0…255 or with a fraction are refused -/
theorem byte_out_of_range_rejected (pre post : List J) (d : Dec)
    (hbad : ∀ n, d.toInt? = some n → ¬ (0 ≤ n ∧ n < 256)) :
    byteArrayOfJ (pre ++ .num d :: post) = none := by
  induction pre with
  | nil =>
    simp only [List.nil_append, byteArrayOfJ]
    cases h : d.toInt? with
    | none => rfl
    | some n => simp only [hbad n h, if_false]
  | cons x pre ih =>
    cases x with
    | num e =>
      simp only [List.cons_append, byteArrayOfJ, ih]
      cases e.toInt? with
      | none => rfl
      | some n => simp only []; split <;> rfl
    | _ => rfl

/-- an unknown tag name, or a tag number outside 32 bits, is refused in every notation -/
theorem unknown_tag_rejected (lib : JsonLib) (tj : J) (h : tagOfJ tj = none) (rest : List J) (f : Nat) :
    (∃ e, requestOfJ lib (f + 1) (.arr (tj :: rest)) = .err e) ∧
    (∀ s, tj = .str s → ∃ e, requestOfJ lib (f + 1) tj = .err e) := by
  constructor
  · match rest with
    | [] => exact ⟨_, by rw [requestOfJ]; simp only [h]; rfl⟩
    | [x] => exact ⟨_, by rw [requestOfJ]; simp only [h]; rfl⟩
    | [x, y] => exact ⟨_, by rw [requestOfJ]; simp only [h]; rfl⟩
    | x :: y :: z :: r => exact ⟨_, by simp only [requestOfJ]; rfl⟩
  · intro s hs
    subst hs
    exact ⟨_, by rw [requestOfJ]; simp only [h]; rfl⟩

/-- a tuple must have one to three elements, and in a three-element tuple the second must name a data type -/
theorem bad_tuple_rejected (lib : JsonLib) (f : Nat) :
    (∃ e, requestOfJ lib (f + 1) (.arr []) = .err e) ∧
    (∀ a b c d r, ∃ e, requestOfJ lib (f + 1) (.arr (a :: b :: c :: d :: r)) = .err e) ∧
    (∀ a b c, dataTypeOfJ b = none → ∃ e, requestOfJ lib (f + 1) (.arr [a, b, c]) = .err e) := by
  refine ⟨⟨_, by simp only [requestOfJ]; rfl⟩, fun a b c d r => ⟨_, by simp only [requestOfJ]; rfl⟩, fun a b c h => ?_⟩
  cases ht : tagOfJ a with
  | none => exact ⟨_, by rw [requestOfJ]; simp only [ht]; rfl⟩
  | some t => exact ⟨_, by rw [requestOfJ]; simp only [ht, h]; rfl⟩

/-- the request text must be an array -/
theorem not_an_array_rejected (lib : JsonLib) (j : J) (f : Nat) (h : ∀ xs, j ≠ .arr xs) :
    ∃ e, requestsOfJ lib (f + 1) j = .err e := by
  cases j with
  | arr xs => exact absurd rfl (h xs)
  | _ => exact ⟨_, by simp only [requestsOfJ]; rfl⟩

/-- the parsers never panic and never run out of fuel -/
theorem parse_total (lib : JsonLib) (j : J) : requestsOfJ lib (4 * j.size + 4) j ≠ .panic := by
  exact requests_total lib j _ (by omega)

/-- nothing is transmitted unless parsing and the client's validation both succeed -/
theorem transmitted_iff (lib : JsonLib) (j : J) (ms : List Msg) :
    requestOutcome lib j = .ok ms ↔
      requestsOfJ lib (4 * j.size + 4) j = .ok ms ∧ validateRequests ms = .ok () := by
  unfold requestOutcome
  cases h1 : requestsOfJ lib (4 * j.size + 4) j with
  | ok ms' =>
    simp only []
    cases h2 : validateRequests ms' with
    | ok u =>
      simp only []
      constructor
      · intro h; cases h; exact ⟨rfl, h2⟩
      · intro h; cases h.1; rfl
    | err e =>
      simp only []
      constructor
      · intro h; cases h
      · intro h; cases h.1; rw [h2] at h; cases h.2
    | panic =>
      simp only []
      constructor
      · intro h; cases h
      · intro h; cases h.1; rw [h2] at h; cases h.2
  | err e => simp only []; exact ⟨fun h => (by cases h), fun h => (by cases h.1)⟩
  | panic => simp only []; exact ⟨fun h => (by cases h), fun h => (by cases h.1)⟩

end Rscp.Props.C12

#print axioms Rscp.Props.C12.written_is_read
#print axioms Rscp.Props.C12.notations_agree
#print axioms Rscp.Props.C12.integer_out_of_range_rejected
#print axioms Rscp.Props.C12.integer_carried_exactly
#print axioms Rscp.Props.C12.byte_out_of_range_rejected
#print axioms Rscp.Props.C12.unknown_tag_rejected
#print axioms Rscp.Props.C12.bad_tuple_rejected
#print axioms Rscp.Props.C12.not_an_array_rejected
#print axioms Rscp.Props.C12.parse_total
#print axioms Rscp.Props.C12.transmitted_iff
