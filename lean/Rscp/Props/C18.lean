/-
C18 — the request builder follows its documented grammar.
-/
import Rscp.Lemmas.Builder
namespace Rscp.Props.C18
open Rscp Rscp.Model

/-- the builder succeeds exactly on the lists the documented grammar derives, with that tree -/
theorem build_matches_grammar (args : List Arg) (m : Msg) :
    createRequest args = .ok m ↔ ∃ rest, Spec.Builds args m rest := by
  sorry

/-- no argument list makes the builder panic (nor run out of fuel) -/
theorem build_total (args : List Arg) : createRequest args ≠ .panic := by
  sorry

/-- the documented errors, at the top level -/
theorem err_empty : createRequest [] = .err .eos := by
  sorry
theorem err_not_a_tag_dt (d : Nat) (rest : List Arg) : createRequest (.dtConst d :: rest) = .err .validTag := by
  sorry
theorem err_not_a_tag_val (v : Val) (rest : List Arg) : createRequest (.val v :: rest) = .err .validTag := by
  sorry
theorem err_missing_value (t : Nat) (h0 : tagDataType t ≠ 0) (h14 : tagDataType t ≠ 14) :
    createRequest [.tag t] = .err .missingValue := by
  sorry
theorem err_tag_as_value (t t' : Nat) (rest : List Arg) (h0 : tagDataType t ≠ 0) (h14 : tagDataType t ≠ 14) :
    createRequest (.tag t :: .tag t' :: rest) = .err .typeMismatch := by
  sorry
theorem err_datatype_as_value (t d : Nat) (rest : List Arg) (h0 : tagDataType t ≠ 0) (h14 : tagDataType t ≠ 14) :
    createRequest (.tag t :: .dtConst d :: rest) = .err .typeMismatch := by
  sorry

/-- every failure is one of the documented errors -/
theorem errors_are_documented (args : List Arg) (e : ErrClass) (h : createRequest args = .err e) :
    e = .eos ∨ e = .validTag ∨ e = .missingValue ∨ e = .typeMismatch := by
  sorry

/-- the multi-request form is the single form applied to each list in turn -/
theorem multi_is_map (lists : List (List Arg)) (h : lists ≠ []) (ms : List Msg) :
    createRequests lists = .ok ms ↔ lists.map createRequest = ms.map .ok := by
  sorry
theorem multi_no_arguments : createRequests [] = .err .noArguments := by
  sorry
theorem multi_first_error (lists : List (List Arg)) (e : ErrClass) (h : createRequests lists = .err e) (hne : lists ≠ []) :
    ∃ pre l post, lists = pre ++ l :: post ∧ createRequest l = .err e ∧ ∀ x ∈ pre, ∃ m, createRequest x = .ok m := by
  sorry

-- non-vacuity: the documentation's third example (BAT_REQ_DATA, BAT_INDEX, uint16(0), BAT_REQ_DEVICE_STATE, …)
example : ∃ m, createRequest [.tag 50593792, .tag 50593793, .val (.num .u16 0), .tag 50724864] = .ok m := by
  sorry

end Rscp.Props.C18
