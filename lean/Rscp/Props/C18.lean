/-
C18 — the request builder follows its documented grammar.
-/
import Rscp.Lemmas.Builder
namespace Rscp.Props.C18
open Rscp Rscp.Model Rscp.Lemmas.Builder

/-- the builder succeeds exactly on the lists the documented grammar derives, with that tree -/
theorem build_matches_grammar (args : List Arg) (m : Msg) :
    createRequest args = .ok m ↔ ∃ rest, Spec.Builds args m rest := by
  unfold createRequest
  constructor
  · intro h
    cases hB : build (2 * args.length + 1) args with
    | ok p =>
      obtain ⟨m', r⟩ := p
      rw [hB] at h
      cases h
      exact ⟨r, build_sound hB⟩
    | err e => rw [hB] at h; cases h
    | panic => rw [hB] at h; cases h
  · rintro ⟨rest, h⟩
    rw [build_complete h (by omega)]

/-- no argument list makes the builder panic (nor run out of fuel) -/
theorem build_total (args : List Arg) : createRequest args ≠ .panic := by
  unfold createRequest
  have h := (nopanic (2 * args.length + 1)).1 args (by omega) (by omega)
  cases hB : build (2 * args.length + 1) args with
  | ok p => intro h'; cases h'
  | err e => intro h'; cases h'
  | panic => exact absurd hB h

/-- the documented errors, at the top level -/
theorem err_empty : createRequest [] = .err .eos := by
  rfl
theorem err_not_a_tag_dt (d : Nat) (rest : List Arg) : createRequest (.dtConst d :: rest) = .err .validTag := by
  rfl
theorem err_not_a_tag_val (v : Val) (rest : List Arg) : createRequest (.val v :: rest) = .err .validTag := by
  rfl
theorem err_missing_value (t : Nat) (h0 : tagDataType t ≠ 0) (h14 : tagDataType t ≠ 14) :
    createRequest [.tag t] = .err .missingValue := by
  unfold createRequest
  rw [show 2 * [Arg.tag t].length + 1 = 2 + 1 from rfl, build_leaf_nil _ t h0 h14]
theorem err_tag_as_value (t t' : Nat) (rest : List Arg) (h0 : tagDataType t ≠ 0) (h14 : tagDataType t ≠ 14) :
    createRequest (.tag t :: .tag t' :: rest) = .err .typeMismatch := by
  unfold createRequest
  rw [build_leaf_tag _ t t' rest h0 h14]
theorem err_datatype_as_value (t d : Nat) (rest : List Arg) (h0 : tagDataType t ≠ 0) (h14 : tagDataType t ≠ 14) :
    createRequest (.tag t :: .dtConst d :: rest) = .err .typeMismatch := by
  unfold createRequest
  rw [build_leaf_dt _ t d rest h0 h14]

/-- every failure is one of the documented errors -/
theorem errors_are_documented (args : List Arg) (e : ErrClass) (h : createRequest args = .err e) :
    e = .eos ∨ e = .validTag ∨ e = .missingValue ∨ e = .typeMismatch := by
  unfold createRequest at h
  cases hB : build (2 * args.length + 1) args with
  | ok p => rw [hB] at h; cases h
  | err e' =>
    rw [hB] at h
    cases h
    exact (errors _).1 args _ hB
  | panic => rw [hB] at h; cases h

/-- the multi-request form is the single form applied to each list in turn -/
theorem multi_is_map (lists : List (List Arg)) (h : lists ≠ []) (ms : List Msg) :
    createRequests lists = .ok ms ↔ lists.map createRequest = ms.map .ok := by
  unfold createRequests
  cases lists with
  | nil => exact absurd rfl h
  | cons l ls => exact go_ok (l :: ls) ms
theorem multi_no_arguments : createRequests [] = .err .noArguments := by
  rfl
theorem multi_first_error (lists : List (List Arg)) (e : ErrClass) (h : createRequests lists = .err e) (hne : lists ≠ []) :
    ∃ pre l post, lists = pre ++ l :: post ∧ createRequest l = .err e ∧ ∀ x ∈ pre, ∃ m, createRequest x = .ok m := by
  unfold createRequests at h
  cases lists with
  | nil => exact absurd rfl hne
  | cons l ls => exact go_err (l :: ls) e h

-- non-vacuity: the documentation's third example (BAT_REQ_DATA, BAT_INDEX, uint16(0), BAT_REQ_DEVICE_STATE, …)
example : ∃ m, createRequest [.tag 50593792, .tag 50593793, .val (.num .u16 0), .tag 50724864] = .ok m := by
  have h1 : tagDataType 50593792 = 14 := by decide +kernel
  have h2 : tagDataType 50593793 ≠ 0 ∧ tagDataType 50593793 ≠ 14 := by decide +kernel
  have h3 : tagDataType 50724864 = 0 := by decide +kernel
  have hb : Spec.Builds [.tag 50593792, .tag 50593793, .val (.num .u16 0), .tag 50724864]
      (.mk 50593792 14 (.msgs [.mk 50593793 (tagDataType 50593793) (.num .u16 0), .mk 50724864 0 .nil])) [] :=
    Spec.Builds.container _ _ _ h1
      (Spec.BuildsAll.cons _ _ _ _ (Spec.Builds.leaf _ _ _ h2.1 h2.2)
        (Spec.BuildsAll.cons _ _ _ _ (Spec.Builds.none _ _ h3) Spec.BuildsAll.nil))
  exact ⟨_, (build_matches_grammar _ _).2 ⟨_, hb⟩⟩

end Rscp.Props.C18

#print axioms Rscp.Props.C18.build_matches_grammar
#print axioms Rscp.Props.C18.build_total
#print axioms Rscp.Props.C18.err_empty
#print axioms Rscp.Props.C18.err_not_a_tag_dt
#print axioms Rscp.Props.C18.err_not_a_tag_val
#print axioms Rscp.Props.C18.err_missing_value
#print axioms Rscp.Props.C18.err_tag_as_value
#print axioms Rscp.Props.C18.err_datatype_as_value
#print axioms Rscp.Props.C18.errors_are_documented
#print axioms Rscp.Props.C18.multi_is_map
#print axioms Rscp.Props.C18.multi_no_arguments
#print axioms Rscp.Props.C18.multi_first_error

