/-
C01 (continued) — a frame that follows a frame given up while incomplete is decoded as if it came first:
`Read` looks at its other variables (checksum flag, frame size, data size) only while its buffer is
non-empty, so a caller that empties the buffer has a fresh decoder, whatever the abandoned frame left in the
other variables. No hypothesis on the pieces is needed: the statement holds for data `Read` refuses
(not whole blocks) and even for data too short for a header, because every branch of `readPlain` that runs
with an empty buffer either overwrites all other variables or leaves the buffer empty.
Helper lemmas: `Lemmas/Pieces.lean`.
-/
import Rscp.Lemmas.Pieces
namespace Rscp.Props.C01
open Rscp

/-- with an emptied buffer the other variables of the caller are irrelevant: the answers to any sequence of
    pieces are those of a fresh decoder -/
theorem emptied_buffer_is_fresh (st : Model.RState) (chunks : List (List Byte)) :
    Model.readChunks { st with buf := [] } chunks = Model.readChunks {} chunks :=
  Lemmas.Pieces.readChunks_alike chunks _ _ (Or.inr ⟨rfl, rfl⟩)

/-- the same for any two decoders with empty buffers -/
theorem empty_buffers_answer_alike (s t : Model.RState) (hs : s.buf = []) (ht : t.buf = [])
    (chunks : List (List Byte)) : Model.readChunks s chunks = Model.readChunks t chunks :=
  Lemmas.Pieces.readChunks_alike chunks s t (Or.inr ⟨hs, ht⟩)

/-- One call after giving up: in whatever state the abandoned frame left the decoder (any state at all,
    reachable or not), once the buffer is emptied the next plaintext is answered exactly as one-shot decoding
    answers it. -/
theorem frame_after_abandoned (st : Model.RState) (plain : List Byte) :
    (Model.readPlain { st with buf := [] } plain).2 = Model.decodeFrame plain :=
  (Lemmas.Pieces.readPlain_emptied { st with buf := [] } {} rfl rfl plain).1

#print axioms emptied_buffer_is_fresh
#print axioms empty_buffers_answer_alike
#print axioms frame_after_abandoned
end Rscp.Props.C01
