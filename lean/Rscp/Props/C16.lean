/-
C16 — creating a client is total and validates its configuration.
-/
import Rscp.Lemmas.Config
namespace Rscp.Props.C16
open Rscp Rscp.Model

/-- creation succeeds exactly for configurations that name an address, user, password and key and whose
    checksum option is unset or a boolean -/
theorem newClient_ok_iff (c : Config) :
    (∃ r, newClient c = .ok r) ↔
      (c.address ≠ [] ∧ c.username ≠ [] ∧ c.password ≠ [] ∧ c.key ≠ [] ∧ c.useChecksum ≠ .otherType) := by
  unfold newClient
  rcases Lemmas.Config.checkConfig_cases c with ⟨hm, h⟩ | ⟨hm, hu, h⟩ | ⟨hm, hu, h⟩ | ⟨hm, ⟨b, hu⟩, h⟩ <;> rw [h]
  · constructor
    · rintro ⟨r, hr⟩; cases hr
    · rintro ⟨h1, h2, h3, h4, _⟩
      exact absurd ((Lemmas.Config.missingOf_eq_nil c).2 ⟨h1, h2, h3, h4⟩) hm
  · constructor
    · rintro ⟨r, hr⟩; cases hr
    · rintro ⟨_, _, _, _, h5⟩; exact absurd hu h5
  · obtain ⟨h1, h2, h3, h4⟩ := (Lemmas.Config.missingOf_eq_nil c).1 hm
    exact ⟨fun _ => ⟨h1, h2, h3, h4, by rw [hu]; intro hh; cases hh⟩, fun _ => ⟨_, rfl⟩⟩
  · obtain ⟨h1, h2, h3, h4⟩ := (Lemmas.Config.missingOf_eq_nil c).1 hm
    exact ⟨fun _ => ⟨h1, h2, h3, h4, by rw [hu]; intro hh; cases hh⟩, fun _ => ⟨_, rfl⟩⟩

/-- no configuration panics -/
theorem newClient_total (c : Config) : newClient c ≠ .panic := by
  unfold newClient
  rcases Lemmas.Config.checkConfig_cases c with ⟨hm, h⟩ | ⟨hm, hu, h⟩ | ⟨hm, hu, h⟩ | ⟨hm, ⟨b, hu⟩, h⟩ <;> rw [h] <;>
    intro hh <;> cases hh

/-- the error names exactly the missing fields, in the documented order -/
theorem missing_names (c : Config) (fields : List String) (h : checkConfig c = .missing fields) :
    fields = (if c.address = [] then ["address"] else []) ++ (if c.username = [] then ["username"] else []) ++
             (if c.password = [] then ["password"] else []) ++ (if c.key = [] then ["key"] else []) ∧ fields ≠ [] := by
  rcases Lemmas.Config.checkConfig_cases c with ⟨hm, h'⟩ | ⟨hm, hu, h'⟩ | ⟨hm, hu, h'⟩ | ⟨hm, ⟨b, hu⟩, h'⟩ <;>
    rw [h'] at h <;> cases h
  exact ⟨rfl, hm⟩

/-- the documented defaults: port 5033, 3-second timeouts rather than none, a one-block receive buffer,
    checksums on; values in range are kept -/
theorem defaults (c c' : Config) (h : checkConfig c = .ok c') :
    c'.port = (if c.port = 0 then 5033 else c.port) ∧
    c'.connTimeout = (if c.connTimeout ≤ 0 then 3000000000 else c.connTimeout) ∧
    c'.sendTimeout = (if c.sendTimeout ≤ 0 then 3000000000 else c.sendTimeout) ∧
    c'.recvTimeout = (if c.recvTimeout ≤ 0 then 3000000000 else c.recvTimeout) ∧
    c'.bufBlocks = (if c.bufBlocks = 0 ∨ c.bufBlocks > 2049 then 1 else c.bufBlocks) ∧
    c'.useChecksum = (match c.useChecksum with | .unset => .bool true | x => x) ∧
    c'.address = c.address ∧ c'.username = c.username ∧ c'.password = c.password ∧ c'.key = c.key := by
  rcases Lemmas.Config.checkConfig_cases c with ⟨hm, h'⟩ | ⟨hm, hu, h'⟩ | ⟨hm, hu, h'⟩ | ⟨hm, ⟨b, hu⟩, h'⟩ <;>
    rw [h'] at h <;> cases h
  · exact ⟨rfl, rfl, rfl, rfl, rfl, by rw [hu], rfl, rfl, rfl, rfl⟩
  · exact ⟨rfl, rfl, rfl, rfl, rfl, by rw [hu]; exact hu, rfl, rfl, rfl, rfl⟩

/-- every effective timeout is positive and the effective buffer is between 1 and 2049 blocks: no call can be
    configured to wait for ever or to read into an empty buffer (port < 65536 ⇒ stays a uint16) -/
theorem effective_config_sane (c c' : Config) (h : checkConfig c = .ok c') :
    0 < c'.connTimeout ∧ 0 < c'.sendTimeout ∧ 0 < c'.recvTimeout ∧ 1 ≤ c'.bufBlocks ∧ c'.bufBlocks ≤ 2049 ∧
    (∃ b, c'.useChecksum = .bool b) := by
  have hsane : ∀ c : Config, 0 < (Lemmas.Config.eff c).connTimeout ∧ 0 < (Lemmas.Config.eff c).sendTimeout ∧
      0 < (Lemmas.Config.eff c).recvTimeout ∧ 1 ≤ (Lemmas.Config.eff c).bufBlocks ∧
      (Lemmas.Config.eff c).bufBlocks ≤ 2049 := by
    intro c
    simp only [Lemmas.Config.eff]
    refine ⟨?_, ?_, ?_, ?_, ?_⟩ <;> split <;> omega
  obtain ⟨s1, s2, s3, s4, s5⟩ := hsane c
  rcases Lemmas.Config.checkConfig_cases c with ⟨hm, h'⟩ | ⟨hm, hu, h'⟩ | ⟨hm, hu, h'⟩ | ⟨hm, ⟨b, hu⟩, h'⟩ <;>
    rw [h'] at h <;> cases h
  · exact ⟨s1, s2, s3, s4, s5, true, rfl⟩
  · exact ⟨s1, s2, s3, s4, s5, b, hu⟩

/-- the key handed to the cipher is always one 32-byte block -/
theorem key_block (c c' : Config) (k : List Byte) (h : newClient c = .ok (c', k)) : k.length = 32 ∧ k = mkKey c.key := by
  unfold newClient at h
  rcases Lemmas.Config.checkConfig_cases c with ⟨hm, h'⟩ | ⟨hm, hu, h'⟩ | ⟨hm, hu, h'⟩ | ⟨hm, ⟨b, hu⟩, h'⟩ <;>
    rw [h'] at h <;> cases h
  · exact ⟨Lemmas.Crypt.mkKey_length _, rfl⟩
  · exact ⟨Lemmas.Crypt.mkKey_length _, rfl⟩

#print axioms newClient_ok_iff
#print axioms newClient_total
#print axioms missing_names
#print axioms defaults
#print axioms effective_config_sane
#print axioms key_block
end Rscp.Props.C16
