/-
Tie `Reader`: the regenerated facts about /repo's current source equal the ones the hand-written
model was written against. Frozen by tools/bless_ties.py; compared by `rfl` on every run.
Functions of the decoding path that Model/Codec.lean follows by hand.
-/
import Rscp.Gen.Shapes
import Rscp.Gen.Leaves
namespace Rscp.Tie.Reader

/-- source of `rscp_readHeader` is unchanged -/
theorem shape_rscp_readHeader : Rscp.Gen.Shape.rscp_readHeader = "815b35ee25fc6a8eac6c2624e5614c5b" := rfl
/-- source of `rscp_truncatePadding` is unchanged -/
theorem shape_rscp_truncatePadding : Rscp.Gen.Shape.rscp_truncatePadding = "a38cff138fbeda04567e899cee03063c" := rfl
/-- source of `rscp_read` is unchanged -/
theorem shape_rscp_read : Rscp.Gen.Shape.rscp_read = "e097a74fb814a049ebf374ead43fea6b" := rfl
/-- source of `rscp_readMessage` is unchanged -/
theorem shape_rscp_readMessage : Rscp.Gen.Shape.rscp_readMessage = "7416cad382e425fc1847daa7318b2bb5" := rfl
/-- source of `rscp_Read` is unchanged -/
theorem shape_rscp_Read : Rscp.Gen.Shape.rscp_Read = "98c84a9dd5aa2648bc5ba118ef2ae9dc" := rfl
/-- source of `rscp_DataType_length` is unchanged -/
theorem shape_rscp_DataType_length : Rscp.Gen.Shape.rscp_DataType_length = "255ffd13f6a735b6a90e61662336bcc6" := rfl
/-- source of `rscp_DataType_newEmpty` is unchanged -/
theorem shape_rscp_DataType_newEmpty : Rscp.Gen.Shape.rscp_DataType_newEmpty = "8ac13e848385a7d997cf4c18bbfb95ec" := rfl
/-- source of `rscp_DataType_IsADataType` is unchanged -/
theorem shape_rscp_DataType_IsADataType : Rscp.Gen.Shape.rscp_DataType_IsADataType = "9027af7f816cb7df6542e7423ddd0962" := rfl
/-- source of `rscp_dereferencePtr` is unchanged -/
theorem shape_rscp_dereferencePtr : Rscp.Gen.Shape.rscp_dereferencePtr = "b3c077c508d678a12ca89c9c0ab3b549" := rfl
/-- leaf `readHeader_badMagic`: source text and argument list are unchanged -/
theorem leaf_readHeader_badMagic_src : Rscp.Gen.Leaf.readHeader_badMagic_src = "binary.LittleEndian.Uint16(data[RSCP_FRAME_MAGIC_POS:]) != RSCP_MAGIC" := rfl
theorem leaf_readHeader_badMagic_args : Rscp.Gen.Leaf.readHeader_badMagic_args = ["binary.LittleEndian.Uint16(data[RSCP_FRAME_MAGIC_POS:])"] := rfl
/-- leaf `readHeader_badCtrl`: source text and argument list are unchanged -/
theorem leaf_readHeader_badCtrl_src : Rscp.Gen.Leaf.readHeader_badCtrl_src = "(c | RSCP_CTRL_BIT_MASK) != RSCP_CTRL_BIT_MASK" := rfl
theorem leaf_readHeader_badCtrl_args : Rscp.Gen.Leaf.readHeader_badCtrl_args = ["c"] := rfl
/-- leaf `readHeader_badVersion`: source text and argument list are unchanged -/
theorem leaf_readHeader_badVersion_src : Rscp.Gen.Leaf.readHeader_badVersion_src = "(c & RSCP_CTRL_BIT_MASK_VERSION) != (uint16(RSCP_VERSION_1_0) << RSCP_FLAG_BIT_VERSION)" := rfl
theorem leaf_readHeader_badVersion_args : Rscp.Gen.Leaf.readHeader_badVersion_args = ["c"] := rfl
/-- leaf `readHeader_crcFlag`: source text and argument list are unchanged -/
theorem leaf_readHeader_crcFlag_src : Rscp.Gen.Leaf.readHeader_crcFlag_src = "(c & RSCP_CTRL_BIT_MASK_CRC) == (uint16(RSCP_CRC_ENABLED) << RSCP_FLAG_BIT_CRC)" := rfl
theorem leaf_readHeader_crcFlag_args : Rscp.Gen.Leaf.readHeader_crcFlag_args = ["c"] := rfl
/-- leaf `readHeader_frameSize`: source text and argument list are unchanged -/
theorem leaf_readHeader_frameSize_src : Rscp.Gen.Leaf.readHeader_frameSize_src = "uint32(dataSize) + uint32(RSCP_FRAME_HEADER_SIZE) + uint32(((c&RSCP_CTRL_BIT_MASK_CRC)>>RSCP_FLAG_BIT_CRC)*RSCP_FRAME_CRC_SIZE)" := rfl
theorem leaf_readHeader_frameSize_args : Rscp.Gen.Leaf.readHeader_frameSize_args = ["dataSize", "c"] := rfl
/-- leaf `readMessage_tooLong`: source text and argument list are unchanged -/
theorem leaf_readMessage_tooLong_src : Rscp.Gen.Leaf.readMessage_tooLong_src = "l > RSCP_DATA_MAX_DATA_SIZE" := rfl
theorem leaf_readMessage_tooLong_args : Rscp.Gen.Leaf.readMessage_tooLong_args = ["l"] := rfl
/-- leaf `readMessage_lenMismatch`: source text and argument list are unchanged -/
theorem leaf_readMessage_lenMismatch_src : Rscp.Gen.Leaf.readMessage_lenMismatch_src = "(m.DataType.length() != 0 || m.DataType == None) && m.DataType.length() != l" := rfl
theorem leaf_readMessage_lenMismatch_args : Rscp.Gen.Leaf.readMessage_lenMismatch_args = ["m.DataType.length()", "m.DataType", "l"] := rfl
/-- leaf `truncatePadding_loop`: source text and argument list are unchanged -/
theorem leaf_truncatePadding_loop_src : Rscp.Gen.Leaf.truncatePadding_loop_src = "i > int(frameSize) && (*data)[i-1] == RSCP_CRYPT_BLOCK_PADDING" := rfl
theorem leaf_truncatePadding_loop_args : Rscp.Gen.Leaf.truncatePadding_loop_args = ["i", "frameSize", "(*data)[i-1]"] := rfl
/-- leaf `truncatePadding_trailing`: source text and argument list are unchanged -/
theorem leaf_truncatePadding_trailing_src : Rscp.Gen.Leaf.truncatePadding_trailing_src = "len(*data) > int(frameSize)" := rfl
theorem leaf_truncatePadding_trailing_args : Rscp.Gen.Leaf.truncatePadding_trailing_args = ["len(*data)", "frameSize"] := rfl
/-- leaf `Read_badChunk`: source text and argument list are unchanged -/
theorem leaf_Read_badChunk_src : Rscp.Gen.Leaf.Read_badChunk_src = "len(data) < int(RSCP_CRYPT_BLOCK_SIZE) || len(data)%int(RSCP_CRYPT_BLOCK_SIZE) != 0" := rfl
theorem leaf_Read_badChunk_args : Rscp.Gen.Leaf.Read_badChunk_args = ["len(data)"] := rfl
/-- leaf `Read_complete`: source text and argument list are unchanged -/
theorem leaf_Read_complete_src : Rscp.Gen.Leaf.Read_complete_src = "len(*buf) >= int(*frameSize)" := rfl
theorem leaf_Read_complete_args : Rscp.Gen.Leaf.Read_complete_args = ["len(*buf)", "*frameSize"] := rfl
/-- leaf `Read_badCrc`: source text and argument list are unchanged -/
theorem leaf_Read_badCrc_src : Rscp.Gen.Leaf.Read_badCrc_src = "crc != crc32.ChecksumIEEE((*buf)[:*frameSize-uint32(RSCP_FRAME_CRC_SIZE)])" := rfl
theorem leaf_Read_badCrc_args : Rscp.Gen.Leaf.Read_badCrc_args = ["crc", "crc32.ChecksumIEEE((*buf)[:*frameSize-uint32(RSCP_FRAME_CRC_SIZE)])"] := rfl

end Rscp.Tie.Reader
