/-
Tie `Reader`: the regenerated facts about /repo's current source equal the ones the hand-written
model was written against. Frozen by tools/bless_ties.py; compared by `rfl` on every run.
Functions of the decoding path that Model/Codec.lean follows by hand.
-/
import Rscp.Gen.Shapes
import Rscp.Gen.Leaves
namespace Rscp.Tie.Reader

/-- source of `rscp_readHeader` is unchanged -/
theorem shape_rscp_readHeader : Rscp.Gen.Shape.rscp_readHeader = "34272ee25953c1f44341563818583e2b" := rfl
/-- source of `rscp_truncatePadding` is unchanged -/
theorem shape_rscp_truncatePadding : Rscp.Gen.Shape.rscp_truncatePadding = "09c56ca0ecc9992a651b85e95d5ac930" := rfl
/-- source of `rscp_read` is unchanged -/
theorem shape_rscp_read : Rscp.Gen.Shape.rscp_read = "42ed7a7727b7ca5489e85250f680725d" := rfl
/-- source of `rscp_readMessage` is unchanged -/
theorem shape_rscp_readMessage : Rscp.Gen.Shape.rscp_readMessage = "53872c066ca6150ea91425d99c699d7a" := rfl
/-- source of `rscp_Read` is unchanged -/
theorem shape_rscp_Read : Rscp.Gen.Shape.rscp_Read = "0d7f035768ca703abf75c70a850908aa" := rfl
/-- source of `rscp_DataType_length` is unchanged -/
theorem shape_rscp_DataType_length : Rscp.Gen.Shape.rscp_DataType_length = "e95e4ea52c548bbb6c125bd79826b973" := rfl
/-- source of `rscp_DataType_newEmpty` is unchanged -/
theorem shape_rscp_DataType_newEmpty : Rscp.Gen.Shape.rscp_DataType_newEmpty = "3c2f91aa8df3ed22a4afe344207e46af" := rfl
/-- source of `rscp_DataType_IsADataType` is unchanged -/
theorem shape_rscp_DataType_IsADataType : Rscp.Gen.Shape.rscp_DataType_IsADataType = "0a309425ac445f3485bff5f6343eadf9" := rfl
/-- source of `rscp_dereferencePtr` is unchanged -/
theorem shape_rscp_dereferencePtr : Rscp.Gen.Shape.rscp_dereferencePtr = "847bfdd6f0940554db61860ee0180dac" := rfl
/-- source of `rscp_var_newEmptyMap` is unchanged -/
theorem shape_rscp_var_newEmptyMap : Rscp.Gen.Shape.rscp_var_newEmptyMap = "d059d0ec1f24e287db3c677f0e5c6c39" := rfl
/-- leaf `readHeader_badMagic`: source text and argument list are unchanged -/
theorem leaf_readHeader_badMagic_src : Rscp.Gen.Leaf.readHeader_badMagic_src = "binary.LittleEndian.Uint16(data[RSCP_FRAME_MAGIC_POS:]) != RSCP_MAGIC" := rfl
theorem leaf_readHeader_badMagic_args : Rscp.Gen.Leaf.readHeader_badMagic_args = ["binary.LittleEndian.Uint16(data[RSCP_FRAME_MAGIC_POS:])"] := rfl
/-- leaf `readHeader_badCtrl`: source text and argument list are unchanged -/
theorem leaf_readHeader_badCtrl_src : Rscp.Gen.Leaf.readHeader_badCtrl_src = "(c | RSCP_CTRL_BIT_MASK) != RSCP_CTRL_BIT_MASK" := rfl
theorem leaf_readHeader_badCtrl_args : Rscp.Gen.Leaf.readHeader_badCtrl_args = ["c"] := rfl
/-- leaf `readHeader_badVersion`: source text and argument list are unchanged -/
theorem leaf_readHeader_badVersion_src : Rscp.Gen.Leaf.readHeader_badVersion_src = "(c & RSCP_CTRL_BIT_MASK_VERSION) != (uint16(RSCP_VERSION_1_0) << RSCP_FLAG_BIT_VERSION)" := rfl
theorem leaf_readHeader_badVersion_args : Rscp.Gen.Leaf.readHeader_badVersion_args = ["c"] := rfl
/-- leaf `readHeader_crcFlag`: source text and argument list are unchanged -/
theorem leaf_readHeader_crcFlag_src : Rscp.Gen.Leaf.readHeader_crcFlag_src = "(c & RSCP_CTRL_BIT_MASK_CRC) == (uint16(RSCP_CRC_ENABLED) << RSCP_FLAG_BIT_CRC)" := rfl
theorem leaf_readHeader_crcFlag_args : Rscp.Gen.Leaf.readHeader_crcFlag_args = ["c"] := rfl
/-- leaf `readHeader_frameSize`: source text and argument list are unchanged -/
theorem leaf_readHeader_frameSize_src : Rscp.Gen.Leaf.readHeader_frameSize_src = "uint32(dataSize) + uint32(RSCP_FRAME_HEADER_SIZE) + uint32(((c&RSCP_CTRL_BIT_MASK_CRC)>>RSCP_FLAG_BIT_CRC)*RSCP_FRAME_CRC_SIZE)" := rfl
theorem leaf_readHeader_frameSize_args : Rscp.Gen.Leaf.readHeader_frameSize_args = ["dataSize", "c"] := rfl
/-- leaf `readMessage_tooLong`: source text and argument list are unchanged -/
theorem leaf_readMessage_tooLong_src : Rscp.Gen.Leaf.readMessage_tooLong_src = "l > RSCP_DATA_MAX_DATA_SIZE" := rfl
theorem leaf_readMessage_tooLong_args : Rscp.Gen.Leaf.readMessage_tooLong_args = ["l"] := rfl
/-- leaf `readMessage_lenMismatch`: source text and argument list are unchanged -/
theorem leaf_readMessage_lenMismatch_src : Rscp.Gen.Leaf.readMessage_lenMismatch_src = "(m.DataType.length() != 0 || m.DataType == None) && m.DataType.length() != l" := rfl
theorem leaf_readMessage_lenMismatch_args : Rscp.Gen.Leaf.readMessage_lenMismatch_args = ["m.DataType.length()", "m.DataType", "l"] := rfl
/-- leaf `truncatePadding_loop`: source text and argument list are unchanged -/
theorem leaf_truncatePadding_loop_src : Rscp.Gen.Leaf.truncatePadding_loop_src = "i > int(frameSize) && (*data)[i-1] == RSCP_CRYPT_BLOCK_PADDING" := rfl
theorem leaf_truncatePadding_loop_args : Rscp.Gen.Leaf.truncatePadding_loop_args = ["i", "frameSize", "(*data)[i-1]"] := rfl
/-- leaf `truncatePadding_trailing`: source text and argument list are unchanged -/
theorem leaf_truncatePadding_trailing_src : Rscp.Gen.Leaf.truncatePadding_trailing_src = "len(*data) > int(frameSize)" := rfl
theorem leaf_truncatePadding_trailing_args : Rscp.Gen.Leaf.truncatePadding_trailing_args = ["len(*data)", "frameSize"] := rfl
/-- leaf `Read_badChunk`: source text and argument list are unchanged -/
theorem leaf_Read_badChunk_src : Rscp.Gen.Leaf.Read_badChunk_src = "len(data) < int(RSCP_CRYPT_BLOCK_SIZE) || len(data)%int(RSCP_CRYPT_BLOCK_SIZE) != 0" := rfl
theorem leaf_Read_badChunk_args : Rscp.Gen.Leaf.Read_badChunk_args = ["len(data)"] := rfl
/-- leaf `Read_complete`: source text and argument list are unchanged -/
theorem leaf_Read_complete_src : Rscp.Gen.Leaf.Read_complete_src = "len(*buf) >= int(*frameSize)" := rfl
theorem leaf_Read_complete_args : Rscp.Gen.Leaf.Read_complete_args = ["len(*buf)", "*frameSize"] := rfl
/-- leaf `Read_badCrc`: source text and argument list are unchanged -/
theorem leaf_Read_badCrc_src : Rscp.Gen.Leaf.Read_badCrc_src = "crc != crc32.ChecksumIEEE((*buf)[:*frameSize-uint32(RSCP_FRAME_CRC_SIZE)])" := rfl
theorem leaf_Read_badCrc_args : Rscp.Gen.Leaf.Read_badCrc_args = ["crc", "crc32.ChecksumIEEE((*buf)[:*frameSize-uint32(RSCP_FRAME_CRC_SIZE)])"] := rfl

end Rscp.Tie.Reader
