/-
Tie `JsonIn`: the regenerated facts about /repo's current source equal the ones the hand-written
model was written against. Frozen by tools/bless_ties.py; compared by `rfl` on every run.
The request notations of the e3dc command as Model/JsonIn.lean follows them.
-/
import Rscp.Gen.Shapes
import Rscp.Gen.Leaves
namespace Rscp.Tie.JsonIn

/-- source of `e3dc_unmarshalJSONRequests` is unchanged -/
theorem shape_e3dc_unmarshalJSONRequests : Rscp.Gen.Shape.e3dc_unmarshalJSONRequests = "081be99298eb8c6d26911f68b31605d9" := rfl
/-- source of `e3dc_unmarshalJSONRequest` is unchanged -/
theorem shape_e3dc_unmarshalJSONRequest : Rscp.Gen.Shape.e3dc_unmarshalJSONRequest = "a9553775d8f1b8d9a301ae20973f8615" := rfl
/-- source of `e3dc_unmarshalJSONValue` is unchanged -/
theorem shape_e3dc_unmarshalJSONValue : Rscp.Gen.Shape.e3dc_unmarshalJSONValue = "1daa8bb0bd399fde374375fd713efe10" := rfl
/-- source of `e3dc_isJSONEmpty` is unchanged -/
theorem shape_e3dc_isJSONEmpty : Rscp.Gen.Shape.e3dc_isJSONEmpty = "9081ddc99d05b9db72bde67b6c8e562c" := rfl
/-- source of `e3dc_isJSONArray` is unchanged -/
theorem shape_e3dc_isJSONArray : Rscp.Gen.Shape.e3dc_isJSONArray = "5c3c38c38d9e9043c360e47cf606e854" := rfl
/-- source of `e3dc_isJSONString` is unchanged -/
theorem shape_e3dc_isJSONString : Rscp.Gen.Shape.e3dc_isJSONString = "ac04d4d2079d76fa78a03d01cf089fda" := rfl
/-- source of `e3dc_isJSONNumber` is unchanged -/
theorem shape_e3dc_isJSONNumber : Rscp.Gen.Shape.e3dc_isJSONNumber = "7922934d8ceaf69e17f1c639e0e50391" := rfl
/-- source of `e3dc_isJSONDataType` is unchanged -/
theorem shape_e3dc_isJSONDataType : Rscp.Gen.Shape.e3dc_isJSONDataType = "2a380eb70291db4e122ed8e08888ecee" := rfl
/-- source of `rscp_Message_UnmarshalJSON` is unchanged -/
theorem shape_rscp_Message_UnmarshalJSON : Rscp.Gen.Shape.rscp_Message_UnmarshalJSON = "21a6632906368e488a7c00609cffb181" := rfl
/-- source of `rscp_Message_UnmarshalJSONValue` is unchanged -/
theorem shape_rscp_Message_UnmarshalJSONValue : Rscp.Gen.Shape.rscp_Message_UnmarshalJSONValue = "ad7855267bd9e86963b2b498e811a176" := rfl
/-- source of `rscp_DataType_newNumber` is unchanged -/
theorem shape_rscp_DataType_newNumber : Rscp.Gen.Shape.rscp_DataType_newNumber = "70766ac6ae6f3aaabe24d36cfcfc6fc2" := rfl
/-- source of `rscp_DataType_new` is unchanged -/
theorem shape_rscp_DataType_new : Rscp.Gen.Shape.rscp_DataType_new = "eb2df129ec7f54798a108eba99caf8eb" := rfl
/-- source of `rscp_var_newMap` is unchanged -/
theorem shape_rscp_var_newMap : Rscp.Gen.Shape.rscp_var_newMap = "63ae8b8dc37c650c9a7757a308782f7d" := rfl
/-- source of `rscp_Tag_UnmarshalJSON` is unchanged -/
theorem shape_rscp_Tag_UnmarshalJSON : Rscp.Gen.Shape.rscp_Tag_UnmarshalJSON = "7440c5022249bfc1511cd14aa2fc30f8" := rfl
/-- source of `rscp_DataType_UnmarshalJSON` is unchanged -/
theorem shape_rscp_DataType_UnmarshalJSON : Rscp.Gen.Shape.rscp_DataType_UnmarshalJSON = "f90a6f5ae6516957b621ca70397364ee" := rfl
/-- source of `rscp_Message_validate` is unchanged -/
theorem shape_rscp_Message_validate : Rscp.Gen.Shape.rscp_Message_validate = "7de991ab726689a28f00bf09180f434f" := rfl

end Rscp.Tie.JsonIn
