/-
Tie `JsonIn`: the regenerated facts about /repo's current source equal the ones the hand-written
model was written against. Frozen by tools/bless_ties.py; compared by `rfl` on every run.
The request notations of the e3dc command as Model/JsonIn.lean follows them.
-/
import Rscp.Gen.Shapes
import Rscp.Gen.Leaves
namespace Rscp.Tie.JsonIn

/-- source of `e3dc_unmarshalJSONRequests` is unchanged -/
theorem shape_e3dc_unmarshalJSONRequests : Rscp.Gen.Shape.e3dc_unmarshalJSONRequests = "5e23dabee6ba23e7a84cd29fe72394ea" := rfl
/-- source of `e3dc_unmarshalJSONRequest` is unchanged -/
theorem shape_e3dc_unmarshalJSONRequest : Rscp.Gen.Shape.e3dc_unmarshalJSONRequest = "37691bfabac06033a34cec0c8ccc1dae" := rfl
/-- source of `e3dc_unmarshalJSONValue` is unchanged -/
theorem shape_e3dc_unmarshalJSONValue : Rscp.Gen.Shape.e3dc_unmarshalJSONValue = "1d65ecad1d5cb8b80b0a26af1209ee5d" := rfl
/-- source of `e3dc_isJSONEmpty` is unchanged -/
theorem shape_e3dc_isJSONEmpty : Rscp.Gen.Shape.e3dc_isJSONEmpty = "e804c5bc31b3382cae6f3f679f2a0d06" := rfl
/-- source of `e3dc_isJSONArray` is unchanged -/
theorem shape_e3dc_isJSONArray : Rscp.Gen.Shape.e3dc_isJSONArray = "481a583905fd52c2846505f4f1cdb930" := rfl
/-- source of `e3dc_isJSONString` is unchanged -/
theorem shape_e3dc_isJSONString : Rscp.Gen.Shape.e3dc_isJSONString = "eb01740010f3d8c69fb60d6b3622382b" := rfl
/-- source of `e3dc_isJSONNumber` is unchanged -/
theorem shape_e3dc_isJSONNumber : Rscp.Gen.Shape.e3dc_isJSONNumber = "9daae78b37d587c33f483617876b544e" := rfl
/-- source of `e3dc_isJSONDataType` is unchanged -/
theorem shape_e3dc_isJSONDataType : Rscp.Gen.Shape.e3dc_isJSONDataType = "5d5d27814dada12bdcce6f9989c90fe3" := rfl
/-- source of `rscp_Message_UnmarshalJSON` is unchanged -/
theorem shape_rscp_Message_UnmarshalJSON : Rscp.Gen.Shape.rscp_Message_UnmarshalJSON = "8943254b38aa55b3dea6ac1ab5f2c4f7" := rfl
/-- source of `rscp_Message_UnmarshalJSONValue` is unchanged -/
theorem shape_rscp_Message_UnmarshalJSONValue : Rscp.Gen.Shape.rscp_Message_UnmarshalJSONValue = "a5cb3e4daec3e8cf556dcdf8de33148e" := rfl
/-- source of `rscp_DataType_newNumber` is unchanged -/
theorem shape_rscp_DataType_newNumber : Rscp.Gen.Shape.rscp_DataType_newNumber = "13e3a8561239aaa2b5f09d9ac40bbee0" := rfl
/-- source of `rscp_DataType_new` is unchanged -/
theorem shape_rscp_DataType_new : Rscp.Gen.Shape.rscp_DataType_new = "8d807aa65c3f75dab708caaead55aff3" := rfl
/-- source of `rscp_Tag_UnmarshalJSON` is unchanged -/
theorem shape_rscp_Tag_UnmarshalJSON : Rscp.Gen.Shape.rscp_Tag_UnmarshalJSON = "01ec57412b2cacd5e5edcdf2cec6d836" := rfl
/-- source of `rscp_DataType_UnmarshalJSON` is unchanged -/
theorem shape_rscp_DataType_UnmarshalJSON : Rscp.Gen.Shape.rscp_DataType_UnmarshalJSON = "3aa85fd6a1677ef70d5b30598c1c15a5" := rfl
/-- source of `rscp_Message_validate` is unchanged -/
theorem shape_rscp_Message_validate : Rscp.Gen.Shape.rscp_Message_validate = "964b537f93a2a756c396615db16ae150" := rfl

end Rscp.Tie.JsonIn
