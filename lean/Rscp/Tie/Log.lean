/-
Tie `Log`: the regenerated facts about /repo's current source equal the ones the hand-written
model was written against. Frozen by tools/bless_ties.py; compared by `rfl` on every run.
Every Log call of package rscp (function:method:format,args) and the rendering of messages.
-/
import Rscp.Gen.Shapes
import Rscp.Gen.Leaves
namespace Rscp.Tie.Log

/-- source of `rscp_Message_String` is unchanged -/
theorem shape_rscp_Message_String : Rscp.Gen.Shape.rscp_Message_String = "4ecf51dda3c59f35d5b653478a663c65" := rfl
/-- source of `rscp_Tag_isSecret` is unchanged -/
theorem shape_rscp_Tag_isSecret : Rscp.Gen.Shape.rscp_Tag_isSecret = "c9e4878fd82caa0087f0db71b2c003e3" := rfl
/-- source of `rscp_Write` is unchanged -/
theorem shape_rscp_Write : Rscp.Gen.Shape.rscp_Write = "05a2264437ccca411034c7f364ec58eb" := rfl
/-- source of `rscp_Read` is unchanged -/
theorem shape_rscp_Read : Rscp.Gen.Shape.rscp_Read = "0d7f035768ca703abf75c70a850908aa" := rfl
/-- source of `rscp_Client_authenticate` is unchanged -/
theorem shape_rscp_Client_authenticate : Rscp.Gen.Shape.rscp_Client_authenticate = "bee8cebd6d22ae0088f498c6cf2dbf0c" := rfl
/-- leaf `authenticate_hideLog`: source text and argument list are unchanged -/
theorem leaf_authenticate_hideLog_src : Rscp.Gen.Leaf.authenticate_hideLog_src = "orgLogLevel < RequiredAuthLogLevel" := rfl
theorem leaf_authenticate_hideLog_args : Rscp.Gen.Leaf.authenticate_hideLog_args = ["orgLogLevel"] := rfl
/-- `rscpLogSites` is unchanged -/
theorem list_rscpLogSites : Rscp.Gen.Shape.rscpLogSites = ["Client.Disconnect:Info:\"disconnected\"",
  "Client.authenticate:GetLevel:",
  "Client.authenticate:Infof:\"hiding auth request for security, use debug >= %d to debug ,RequiredAuthLogLevel",
  "Client.authenticate:SetLevel:logrus.Level((math.Min(float64(orgLogLevel), float64(logrus.",
  "Client.authenticate:SetLevel:orgLogLevel",
  "Client.authenticate:SetLevel:orgLogLevel",
  "Client.authenticate:SetLevel:orgLogLevel",
  "Client.authenticate:Warnf:\"Hint: EOF during authentification usually is due a wrong rs",
  "Client.authenticate:Infof:\"successfully authenticated (level: %s)\",level",
  "Client.connect:Infof:\"Connecting to %s\",c.connectionString",
  "Client.connect:Infof:\"successfully connected to %s\",conn.RemoteAddr()",
  "Read:Tracef:\"read plain %#v\",*buf",
  "Read:Tracef:\"read %s\",m",
  "Write:Debugf:\"write %s\",messages",
  "Write:Tracef:\"write plain %#v\",d",
  "Write:Tracef:\"write crypt %#v\",d",
  "readMessage:Warnf:\"unknown tag 0x%08x received\",big.NewInt(int64(m.Tag))",
  "readMessage:DebugFn:func() []interface{} {\n\tb := make([]byte, l)\n\t_ = read(buf, "] := rfl

end Rscp.Tie.Log
