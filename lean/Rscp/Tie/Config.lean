/-
Tie `Config`: the regenerated facts about /repo's current source equal the ones the hand-written
model was written against. Frozen by tools/bless_ties.py; compared by `rfl` on every run.
ClientConfig.check (client_config.go) as Model/Config.lean follows it.
-/
import Rscp.Gen.Shapes
import Rscp.Gen.Leaves
namespace Rscp.Tie.Config

/-- source of `rscp_ClientConfig_check` is unchanged -/
theorem shape_rscp_ClientConfig_check : Rscp.Gen.Shape.rscp_ClientConfig_check = "c43abdfa0313afb8329056985c93c189" := rfl
/-- source of `rscp_NewClient` is unchanged -/
theorem shape_rscp_NewClient : Rscp.Gen.Shape.rscp_NewClient = "a7f797eb98c9132e8f47d5f5d5d8a0b0" := rfl
/-- leaf `check_noAddress`: source text and argument list are unchanged -/
theorem leaf_check_noAddress_src : Rscp.Gen.Leaf.check_noAddress_src = "len(c.Address) == 0" := rfl
theorem leaf_check_noAddress_args : Rscp.Gen.Leaf.check_noAddress_args = ["len(c.Address)"] := rfl
/-- leaf `check_noUsername`: source text and argument list are unchanged -/
theorem leaf_check_noUsername_src : Rscp.Gen.Leaf.check_noUsername_src = "len(c.Username) == 0" := rfl
theorem leaf_check_noUsername_args : Rscp.Gen.Leaf.check_noUsername_args = ["len(c.Username)"] := rfl
/-- leaf `check_noPassword`: source text and argument list are unchanged -/
theorem leaf_check_noPassword_src : Rscp.Gen.Leaf.check_noPassword_src = "len(c.Password) == 0" := rfl
theorem leaf_check_noPassword_args : Rscp.Gen.Leaf.check_noPassword_args = ["len(c.Password)"] := rfl
/-- leaf `check_noKey`: source text and argument list are unchanged -/
theorem leaf_check_noKey_src : Rscp.Gen.Leaf.check_noKey_src = "len(c.Key) == 0" := rfl
theorem leaf_check_noKey_args : Rscp.Gen.Leaf.check_noKey_args = ["len(c.Key)"] := rfl
/-- leaf `check_anyMissing`: source text and argument list are unchanged -/
theorem leaf_check_anyMissing_src : Rscp.Gen.Leaf.check_anyMissing_src = "len(missing) > 0" := rfl
theorem leaf_check_anyMissing_args : Rscp.Gen.Leaf.check_anyMissing_args = ["len(missing)"] := rfl
/-- leaf `check_heartbeatUnset`: source text and argument list are unchanged -/
theorem leaf_check_heartbeatUnset_src : Rscp.Gen.Leaf.check_heartbeatUnset_src = "c.HeartbeatInterval <= time.Second" := rfl
theorem leaf_check_heartbeatUnset_args : Rscp.Gen.Leaf.check_heartbeatUnset_args = ["c.HeartbeatInterval"] := rfl
/-- leaf `check_portUnset`: source text and argument list are unchanged -/
theorem leaf_check_portUnset_src : Rscp.Gen.Leaf.check_portUnset_src = "c.Port == 0" := rfl
theorem leaf_check_portUnset_args : Rscp.Gen.Leaf.check_portUnset_args = ["c.Port"] := rfl
/-- leaf `check_connTimeoutUnset`: source text and argument list are unchanged -/
theorem leaf_check_connTimeoutUnset_src : Rscp.Gen.Leaf.check_connTimeoutUnset_src = "c.ConnectionTimeout <= 0" := rfl
theorem leaf_check_connTimeoutUnset_args : Rscp.Gen.Leaf.check_connTimeoutUnset_args = ["c.ConnectionTimeout"] := rfl
/-- leaf `check_sendTimeoutUnset`: source text and argument list are unchanged -/
theorem leaf_check_sendTimeoutUnset_src : Rscp.Gen.Leaf.check_sendTimeoutUnset_src = "c.SendTimeout <= 0" := rfl
theorem leaf_check_sendTimeoutUnset_args : Rscp.Gen.Leaf.check_sendTimeoutUnset_args = ["c.SendTimeout"] := rfl
/-- leaf `check_recvTimeoutUnset`: source text and argument list are unchanged -/
theorem leaf_check_recvTimeoutUnset_src : Rscp.Gen.Leaf.check_recvTimeoutUnset_src = "c.ReceiveTimeout <= 0" := rfl
theorem leaf_check_recvTimeoutUnset_args : Rscp.Gen.Leaf.check_recvTimeoutUnset_args = ["c.ReceiveTimeout"] := rfl
/-- leaf `check_bufBlocksUnset`: source text and argument list are unchanged -/
theorem leaf_check_bufBlocksUnset_src : Rscp.Gen.Leaf.check_bufBlocksUnset_src = "c.ReceiveBufferBlockSize == 0 || c.ReceiveBufferBlockSize > RSCP_FRAME_MAX_BLOCK_SIZE" := rfl
theorem leaf_check_bufBlocksUnset_args : Rscp.Gen.Leaf.check_bufBlocksUnset_args = ["c.ReceiveBufferBlockSize"] := rfl

end Rscp.Tie.Config
