/-
Tie `Client`: the regenerated facts about /repo's current source equal the ones the hand-written
model was written against. Frozen by tools/bless_ties.py; compared by `rfl` on every run.
The client state machine (client.go) as Model/Client.lean, Model/Receive.lean and Model/Session.lean follow it.
-/
import Rscp.Gen.Shapes
import Rscp.Gen.Leaves
namespace Rscp.Tie.Client

/-- source of `rscp_NewClient` is unchanged -/
theorem shape_rscp_NewClient : Rscp.Gen.Shape.rscp_NewClient = "a7f797eb98c9132e8f47d5f5d5d8a0b0" := rfl
/-- source of `rscp_Client_resetCipher` is unchanged -/
theorem shape_rscp_Client_resetCipher : Rscp.Gen.Shape.rscp_Client_resetCipher = "4753f9ac70821545abf2453b756a2429" := rfl
/-- source of `rscp_Client_send` is unchanged -/
theorem shape_rscp_Client_send : Rscp.Gen.Shape.rscp_Client_send = "1166e7b512e4aeb758a45d61d2d6dc87" := rfl
/-- source of `rscp_Client_receive` is unchanged -/
theorem shape_rscp_Client_receive : Rscp.Gen.Shape.rscp_Client_receive = "8194701b5c7ea5c7f7c5d83b7df5ad3d" := rfl
/-- source of `rscp_Client_connect` is unchanged -/
theorem shape_rscp_Client_connect : Rscp.Gen.Shape.rscp_Client_connect = "c1781895d34cff8a0d97942041a1a20c" := rfl
/-- source of `rscp_Client_authenticate` is unchanged -/
theorem shape_rscp_Client_authenticate : Rscp.Gen.Shape.rscp_Client_authenticate = "bee8cebd6d22ae0088f498c6cf2dbf0c" := rfl
/-- source of `rscp_Client_Disconnect` is unchanged -/
theorem shape_rscp_Client_Disconnect : Rscp.Gen.Shape.rscp_Client_Disconnect = "1332ed556c12fab2721b6f5e30892970" := rfl
/-- source of `rscp_Client_Send` is unchanged -/
theorem shape_rscp_Client_Send : Rscp.Gen.Shape.rscp_Client_Send = "e24530821a6f1f84ee3965b6e2b37e64" := rfl
/-- source of `rscp_Client_SendMultiple` is unchanged -/
theorem shape_rscp_Client_SendMultiple : Rscp.Gen.Shape.rscp_Client_SendMultiple = "668e3f152b86d0d7388b91feb8072cb2" := rfl
/-- source of `rscp_CreateRequest` is unchanged -/
theorem shape_rscp_CreateRequest : Rscp.Gen.Shape.rscp_CreateRequest = "d77448aee0166481fee9e932a858d09b" := rfl
/-- source of `rscp_readRequestSlice` is unchanged -/
theorem shape_rscp_readRequestSlice : Rscp.Gen.Shape.rscp_readRequestSlice = "885218cdd62e065e7485abbfb5c92c05" := rfl
/-- source of `rscp_readRequestSliceReader` is unchanged -/
theorem shape_rscp_readRequestSliceReader : Rscp.Gen.Shape.rscp_readRequestSliceReader = "27fb82cc7eb89ab39ea12cf4b8c026c1" := rfl
/-- leaf `authenticate_hideLog`: source text and argument list are unchanged -/
theorem leaf_authenticate_hideLog_src : Rscp.Gen.Leaf.authenticate_hideLog_src = "orgLogLevel < RequiredAuthLogLevel" := rfl
theorem leaf_authenticate_hideLog_args : Rscp.Gen.Leaf.authenticate_hideLog_args = ["orgLogLevel"] := rfl

end Rscp.Tie.Client
