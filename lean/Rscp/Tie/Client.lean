/-
Tie `Client`: the regenerated facts about /repo's current source equal the ones the hand-written
model was written against. Frozen by tools/bless_ties.py; compared by `rfl` on every run.
The client state machine (client.go) as Model/Client.lean, Model/Receive.lean and Model/Session.lean follow it.
-/
import Rscp.Gen.Shapes
import Rscp.Gen.Leaves
namespace Rscp.Tie.Client

/-- source of `rscp_NewClient` is unchanged -/
theorem shape_rscp_NewClient : Rscp.Gen.Shape.rscp_NewClient = "d83d81ea5ff246ebda7275443d2c3e3a" := rfl
/-- source of `rscp_Client_resetCipher` is unchanged -/
theorem shape_rscp_Client_resetCipher : Rscp.Gen.Shape.rscp_Client_resetCipher = "beaeac7b6c83a8e30a0fbf41613ff033" := rfl
/-- source of `rscp_Client_send` is unchanged -/
theorem shape_rscp_Client_send : Rscp.Gen.Shape.rscp_Client_send = "058804ab80431d29cfd22b4fa588ec11" := rfl
/-- source of `rscp_Client_receive` is unchanged -/
theorem shape_rscp_Client_receive : Rscp.Gen.Shape.rscp_Client_receive = "08f5a8d37db46bd97cb5c88a65db2e10" := rfl
/-- source of `rscp_Client_connect` is unchanged -/
theorem shape_rscp_Client_connect : Rscp.Gen.Shape.rscp_Client_connect = "4036e2cae9ca2f3cefe54fc438620596" := rfl
/-- source of `rscp_Client_authenticate` is unchanged -/
theorem shape_rscp_Client_authenticate : Rscp.Gen.Shape.rscp_Client_authenticate = "d806479c92d1a010fb848cd1e3a7f447" := rfl
/-- source of `rscp_Client_Disconnect` is unchanged -/
theorem shape_rscp_Client_Disconnect : Rscp.Gen.Shape.rscp_Client_Disconnect = "c62ca3e8c6ab471653297b8c36dff39e" := rfl
/-- source of `rscp_Client_Send` is unchanged -/
theorem shape_rscp_Client_Send : Rscp.Gen.Shape.rscp_Client_Send = "2b3e90fc533d604ae261032680598b9e" := rfl
/-- source of `rscp_Client_SendMultiple` is unchanged -/
theorem shape_rscp_Client_SendMultiple : Rscp.Gen.Shape.rscp_Client_SendMultiple = "d527ae3d91c985606a688f7785543d18" := rfl
/-- source of `rscp_CreateRequest` is unchanged -/
theorem shape_rscp_CreateRequest : Rscp.Gen.Shape.rscp_CreateRequest = "6bd367e36d531b4dec42d11f018c36bc" := rfl
/-- source of `rscp_readRequestSlice` is unchanged -/
theorem shape_rscp_readRequestSlice : Rscp.Gen.Shape.rscp_readRequestSlice = "7a1d051474a563bb58410d901a5d4ee1" := rfl
/-- source of `rscp_readRequestSliceReader` is unchanged -/
theorem shape_rscp_readRequestSliceReader : Rscp.Gen.Shape.rscp_readRequestSliceReader = "0123d312a66c68376ae2bc8d168720a4" := rfl
/-- leaf `authenticate_hideLog`: source text and argument list are unchanged -/
theorem leaf_authenticate_hideLog_src : Rscp.Gen.Leaf.authenticate_hideLog_src = "orgLogLevel < RequiredAuthLogLevel" := rfl
theorem leaf_authenticate_hideLog_args : Rscp.Gen.Leaf.authenticate_hideLog_args = ["orgLogLevel"] := rfl

end Rscp.Tie.Client
