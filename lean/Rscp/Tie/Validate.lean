/-
Tie `Validate`: the regenerated facts about /repo's current source equal the ones the hand-written
model was written against. Frozen by tools/bless_ties.py; compared by `rfl` on every run.
Request validation as Model/Codec.lean follows it.
-/
import Rscp.Gen.Shapes
import Rscp.Gen.Leaves
namespace Rscp.Tie.Validate

/-- source of `rscp_Message_validate` is unchanged -/
theorem shape_rscp_Message_validate : Rscp.Gen.Shape.rscp_Message_validate = "964b537f93a2a756c396615db16ae150" := rfl
/-- source of `rscp_Message_size` is unchanged -/
theorem shape_rscp_Message_size : Rscp.Gen.Shape.rscp_Message_size = "4ae33763fef3d7fccbf130e6b7d9641f" := rfl
/-- source of `rscp_messagesWideSize` is unchanged -/
theorem shape_rscp_messagesWideSize : Rscp.Gen.Shape.rscp_messagesWideSize = "221d20266f0ffe3f282f0b5a1f5b7891" := rfl
/-- source of `rscp_validateRequest` is unchanged -/
theorem shape_rscp_validateRequest : Rscp.Gen.Shape.rscp_validateRequest = "017eb7b0e4d54e69ebe76370aec21915" := rfl
/-- source of `rscp_validateRequests` is unchanged -/
theorem shape_rscp_validateRequests : Rscp.Gen.Shape.rscp_validateRequests = "3c2557152ec1d84ad3b63ecb1c82d4ae" := rfl
/-- source of `rscp_DataType_isValidValue` is unchanged -/
theorem shape_rscp_DataType_isValidValue : Rscp.Gen.Shape.rscp_DataType_isValidValue = "ab535fee51bad3079543523fd1f569e1" := rfl
/-- source of `rscp_DataType_length` is unchanged -/
theorem shape_rscp_DataType_length : Rscp.Gen.Shape.rscp_DataType_length = "255ffd13f6a735b6a90e61662336bcc6" := rfl
/-- source of `rscp_Tag_isRequest` is unchanged -/
theorem shape_rscp_Tag_isRequest : Rscp.Gen.Shape.rscp_Tag_isRequest = "8ae75144e9c1c8a6fbc4b71d4091e1c5" := rfl
/-- leaf `validate_tooLong`: source text and argument list are unchanged -/
theorem leaf_validate_tooLong_src : Rscp.Gen.Leaf.validate_tooLong_src = "m.size() > uint64(RSCP_DATA_MAX_DATA_SIZE)" := rfl
theorem leaf_validate_tooLong_args : Rscp.Gen.Leaf.validate_tooLong_args = ["m.size()"] := rfl
/-- leaf `validateRequests_tooLong`: source text and argument list are unchanged -/
theorem leaf_validateRequests_tooLong_src : Rscp.Gen.Leaf.validateRequests_tooLong_src = "messagesWideSize(messages) > uint64(RSCP_FRAME_MAX_DATA_SIZE)" := rfl
theorem leaf_validateRequests_tooLong_args : Rscp.Gen.Leaf.validateRequests_tooLong_args = ["messagesWideSize(messages)"] := rfl
/-- leaf `size_isVariable`: source text and argument list are unchanged -/
theorem leaf_size_isVariable_src : Rscp.Gen.Leaf.size_isVariable_src = "m.DataType.length() == 0 && m.DataType != None" := rfl
theorem leaf_size_isVariable_args : Rscp.Gen.Leaf.size_isVariable_args = ["m.DataType.length()", "m.DataType"] := rfl
/-- leaf `isRequest`: source text and argument list are unchanged -/
theorem leaf_isRequest_src : Rscp.Gen.Leaf.isRequest_src = "((t >> TypeFlagBit) & 1) == 0" := rfl
theorem leaf_isRequest_args : Rscp.Gen.Leaf.isRequest_args = ["t"] := rfl

end Rscp.Tie.Validate
