/-
Tie `Validate`: the regenerated facts about /repo's current source equal the ones the hand-written
model was written against. Frozen by tools/bless_ties.py; compared by `rfl` on every run.
Request validation as Model/Codec.lean follows it.
-/
import Rscp.Gen.Shapes
import Rscp.Gen.Leaves
namespace Rscp.Tie.Validate

/-- source of `rscp_Message_validate` is unchanged -/
theorem shape_rscp_Message_validate : Rscp.Gen.Shape.rscp_Message_validate = "7de991ab726689a28f00bf09180f434f" := rfl
/-- source of `rscp_Message_size` is unchanged -/
theorem shape_rscp_Message_size : Rscp.Gen.Shape.rscp_Message_size = "3105a16452c9d1fb6782e6d5de356ed6" := rfl
/-- source of `rscp_messagesWideSize` is unchanged -/
theorem shape_rscp_messagesWideSize : Rscp.Gen.Shape.rscp_messagesWideSize = "877aa9bc040b97712ecce7e5bf2c567b" := rfl
/-- source of `rscp_validateRequest` is unchanged -/
theorem shape_rscp_validateRequest : Rscp.Gen.Shape.rscp_validateRequest = "9d6a7d1f97f4cbf5d05a7cc9782c2f7c" := rfl
/-- source of `rscp_validateRequests` is unchanged -/
theorem shape_rscp_validateRequests : Rscp.Gen.Shape.rscp_validateRequests = "cbf93e4999eae814cf59fb74f46af680" := rfl
/-- source of `rscp_DataType_isValidValue` is unchanged -/
theorem shape_rscp_DataType_isValidValue : Rscp.Gen.Shape.rscp_DataType_isValidValue = "eab3b926fbb998b730e5a0f5bfe62a71" := rfl
/-- source of `rscp_DataType_length` is unchanged -/
theorem shape_rscp_DataType_length : Rscp.Gen.Shape.rscp_DataType_length = "e95e4ea52c548bbb6c125bd79826b973" := rfl
/-- source of `rscp_Tag_isRequest` is unchanged -/
theorem shape_rscp_Tag_isRequest : Rscp.Gen.Shape.rscp_Tag_isRequest = "16789c2226ddf747e88c908bc1454da6" := rfl
/-- source of `rscp_var_validateMap` is unchanged -/
theorem shape_rscp_var_validateMap : Rscp.Gen.Shape.rscp_var_validateMap = "de4e7a33108b1c417fc133040a368714" := rfl
/-- leaf `validate_tooLong`: source text and argument list are unchanged -/
theorem leaf_validate_tooLong_src : Rscp.Gen.Leaf.validate_tooLong_src = "m.size() > uint64(RSCP_DATA_MAX_DATA_SIZE)" := rfl
theorem leaf_validate_tooLong_args : Rscp.Gen.Leaf.validate_tooLong_args = ["m.size()"] := rfl
/-- leaf `validateRequests_tooLong`: source text and argument list are unchanged -/
theorem leaf_validateRequests_tooLong_src : Rscp.Gen.Leaf.validateRequests_tooLong_src = "messagesWideSize(messages) > uint64(RSCP_FRAME_MAX_DATA_SIZE)" := rfl
theorem leaf_validateRequests_tooLong_args : Rscp.Gen.Leaf.validateRequests_tooLong_args = ["messagesWideSize(messages)"] := rfl
/-- leaf `size_isVariable`: source text and argument list are unchanged -/
theorem leaf_size_isVariable_src : Rscp.Gen.Leaf.size_isVariable_src = "m.DataType.length() == 0 && m.DataType != None" := rfl
theorem leaf_size_isVariable_args : Rscp.Gen.Leaf.size_isVariable_args = ["m.DataType.length()", "m.DataType"] := rfl
/-- leaf `isRequest`: source text and argument list are unchanged -/
theorem leaf_isRequest_src : Rscp.Gen.Leaf.isRequest_src = "((t >> TypeFlagBit) & 1) == 0" := rfl
theorem leaf_isRequest_args : Rscp.Gen.Leaf.isRequest_args = ["t"] := rfl

end Rscp.Tie.Validate
