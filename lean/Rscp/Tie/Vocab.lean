/-
Tie `Vocab`: the regenerated facts about /repo's current source equal the ones the hand-written
model was written against. Frozen by tools/bless_ties.py; compared by `rfl` on every run.
Vocabulary functions as Model/Vocab.lean follows them.
-/
import Rscp.Gen.Shapes
import Rscp.Gen.Leaves
namespace Rscp.Tie.Vocab

/-- source of `rscp_Tag_String` is unchanged -/
theorem shape_rscp_Tag_String : Rscp.Gen.Shape.rscp_Tag_String = "4c66401edf66dffe42f8fb48b57d79d9" := rfl
/-- source of `rscp_TagString` is unchanged -/
theorem shape_rscp_TagString : Rscp.Gen.Shape.rscp_TagString = "a3e638a15ee36a324ff76b6faf65a512" := rfl
/-- source of `rscp_TagValues` is unchanged -/
theorem shape_rscp_TagValues : Rscp.Gen.Shape.rscp_TagValues = "6f394383159a8710da0f03ee41fb0a18" := rfl
/-- source of `rscp_Tag_IsATag` is unchanged -/
theorem shape_rscp_Tag_IsATag : Rscp.Gen.Shape.rscp_Tag_IsATag = "9eecee4cca9ffce2118305907622f362" := rfl
/-- source of `rscp_Tag_DataType` is unchanged -/
theorem shape_rscp_Tag_DataType : Rscp.Gen.Shape.rscp_Tag_DataType = "7f89d9391dd38f68a30d9a2d55766b01" := rfl
/-- source of `rscp_Tag_MarshalJSON` is unchanged -/
theorem shape_rscp_Tag_MarshalJSON : Rscp.Gen.Shape.rscp_Tag_MarshalJSON = "0489f29658b023dafa3829e6877f0a11" := rfl
/-- source of `rscp_Tag_UnmarshalJSON` is unchanged -/
theorem shape_rscp_Tag_UnmarshalJSON : Rscp.Gen.Shape.rscp_Tag_UnmarshalJSON = "7440c5022249bfc1511cd14aa2fc30f8" := rfl
/-- source of `rscp_Tag_isRequest` is unchanged -/
theorem shape_rscp_Tag_isRequest : Rscp.Gen.Shape.rscp_Tag_isRequest = "16789c2226ddf747e88c908bc1454da6" := rfl
/-- source of `rscp_Tag_isResponse` is unchanged -/
theorem shape_rscp_Tag_isResponse : Rscp.Gen.Shape.rscp_Tag_isResponse = "df15c5d44655ff0331fffa2855604198" := rfl
/-- source of `rscp_DataType_String` is unchanged -/
theorem shape_rscp_DataType_String : Rscp.Gen.Shape.rscp_DataType_String = "baafec6edc54d213880a5072d48e1952" := rfl
/-- source of `rscp_DataTypeString` is unchanged -/
theorem shape_rscp_DataTypeString : Rscp.Gen.Shape.rscp_DataTypeString = "b6f64574292aef24c9b10c27917f4012" := rfl
/-- source of `rscp_DataType_IsADataType` is unchanged -/
theorem shape_rscp_DataType_IsADataType : Rscp.Gen.Shape.rscp_DataType_IsADataType = "0a309425ac445f3485bff5f6343eadf9" := rfl
/-- source of `rscp_DataType_MarshalJSON` is unchanged -/
theorem shape_rscp_DataType_MarshalJSON : Rscp.Gen.Shape.rscp_DataType_MarshalJSON = "90162ebd7939b429956331026ec913df" := rfl
/-- source of `rscp_DataType_UnmarshalJSON` is unchanged -/
theorem shape_rscp_DataType_UnmarshalJSON : Rscp.Gen.Shape.rscp_DataType_UnmarshalJSON = "f90a6f5ae6516957b621ca70397364ee" := rfl
/-- source of `rscp_DataType_length` is unchanged -/
theorem shape_rscp_DataType_length : Rscp.Gen.Shape.rscp_DataType_length = "e95e4ea52c548bbb6c125bd79826b973" := rfl
/-- source of `rscp_DataType_newEmpty` is unchanged -/
theorem shape_rscp_DataType_newEmpty : Rscp.Gen.Shape.rscp_DataType_newEmpty = "3c2f91aa8df3ed22a4afe344207e46af" := rfl
/-- source of `rscp_DataType_new` is unchanged -/
theorem shape_rscp_DataType_new : Rscp.Gen.Shape.rscp_DataType_new = "eb2df129ec7f54798a108eba99caf8eb" := rfl
/-- source of `rscp_DataType_isValidValue` is unchanged -/
theorem shape_rscp_DataType_isValidValue : Rscp.Gen.Shape.rscp_DataType_isValidValue = "eab3b926fbb998b730e5a0f5bfe62a71" := rfl
/-- source of `rscp_var_newEmptyMap` is unchanged -/
theorem shape_rscp_var_newEmptyMap : Rscp.Gen.Shape.rscp_var_newEmptyMap = "d059d0ec1f24e287db3c677f0e5c6c39" := rfl
/-- source of `rscp_var_newMap` is unchanged -/
theorem shape_rscp_var_newMap : Rscp.Gen.Shape.rscp_var_newMap = "63ae8b8dc37c650c9a7757a308782f7d" := rfl
/-- source of `rscp_var_validateMap` is unchanged -/
theorem shape_rscp_var_validateMap : Rscp.Gen.Shape.rscp_var_validateMap = "de4e7a33108b1c417fc133040a368714" := rfl
/-- source of `rscp_Message_UnmarshalJSON` is unchanged -/
theorem shape_rscp_Message_UnmarshalJSON : Rscp.Gen.Shape.rscp_Message_UnmarshalJSON = "21a6632906368e488a7c00609cffb181" := rfl
/-- source of `rscp_Message_UnmarshalJSONValue` is unchanged -/
theorem shape_rscp_Message_UnmarshalJSONValue : Rscp.Gen.Shape.rscp_Message_UnmarshalJSONValue = "ad7855267bd9e86963b2b498e811a176" := rfl
/-- leaf `isRequest`: source text and argument list are unchanged -/
theorem leaf_isRequest_src : Rscp.Gen.Leaf.isRequest_src = "((t >> TypeFlagBit) & 1) == 0" := rfl
theorem leaf_isRequest_args : Rscp.Gen.Leaf.isRequest_args = ["t"] := rfl
/-- leaf `isResponse`: source text and argument list are unchanged -/
theorem leaf_isResponse_src : Rscp.Gen.Leaf.isResponse_src = "((t >> TypeFlagBit) & 1) == 1" := rfl
theorem leaf_isResponse_args : Rscp.Gen.Leaf.isResponse_args = ["t"] := rfl

end Rscp.Tie.Vocab
