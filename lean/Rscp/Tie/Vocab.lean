/-
Tie `Vocab`: the regenerated facts about /repo's current source equal the ones the hand-written
model was written against. Frozen by tools/bless_ties.py; compared by `rfl` on every run.
Vocabulary functions as Model/Vocab.lean follows them.
-/
import Rscp.Gen.Shapes
import Rscp.Gen.Leaves
namespace Rscp.Tie.Vocab

/-- source of `rscp_Tag_String` is unchanged -/
theorem shape_rscp_Tag_String : Rscp.Gen.Shape.rscp_Tag_String = "e98fbc5904a919a40ab77358b57c1aa4" := rfl
/-- source of `rscp_TagString` is unchanged -/
theorem shape_rscp_TagString : Rscp.Gen.Shape.rscp_TagString = "adcb1c86f835c439cda70becc8d8525f" := rfl
/-- source of `rscp_TagValues` is unchanged -/
theorem shape_rscp_TagValues : Rscp.Gen.Shape.rscp_TagValues = "6f394383159a8710da0f03ee41fb0a18" := rfl
/-- source of `rscp_Tag_IsATag` is unchanged -/
theorem shape_rscp_Tag_IsATag : Rscp.Gen.Shape.rscp_Tag_IsATag = "866f24d5200dd0830515e578620d53f7" := rfl
/-- source of `rscp_Tag_DataType` is unchanged -/
theorem shape_rscp_Tag_DataType : Rscp.Gen.Shape.rscp_Tag_DataType = "e9dd0f02a82651b50e077d35aafbaba0" := rfl
/-- source of `rscp_Tag_MarshalJSON` is unchanged -/
theorem shape_rscp_Tag_MarshalJSON : Rscp.Gen.Shape.rscp_Tag_MarshalJSON = "93c6c583baf3a627191b6aad23870223" := rfl
/-- source of `rscp_Tag_UnmarshalJSON` is unchanged -/
theorem shape_rscp_Tag_UnmarshalJSON : Rscp.Gen.Shape.rscp_Tag_UnmarshalJSON = "01ec57412b2cacd5e5edcdf2cec6d836" := rfl
/-- source of `rscp_Tag_isRequest` is unchanged -/
theorem shape_rscp_Tag_isRequest : Rscp.Gen.Shape.rscp_Tag_isRequest = "8ae75144e9c1c8a6fbc4b71d4091e1c5" := rfl
/-- source of `rscp_Tag_isResponse` is unchanged -/
theorem shape_rscp_Tag_isResponse : Rscp.Gen.Shape.rscp_Tag_isResponse = "f5577bf14718d059412c74bd8fc34768" := rfl
/-- source of `rscp_DataType_String` is unchanged -/
theorem shape_rscp_DataType_String : Rscp.Gen.Shape.rscp_DataType_String = "a157112dd4e8e94e1879f539df7f103d" := rfl
/-- source of `rscp_DataTypeString` is unchanged -/
theorem shape_rscp_DataTypeString : Rscp.Gen.Shape.rscp_DataTypeString = "1667a1e9ebfdb7ca683eadd755730cc3" := rfl
/-- source of `rscp_DataType_IsADataType` is unchanged -/
theorem shape_rscp_DataType_IsADataType : Rscp.Gen.Shape.rscp_DataType_IsADataType = "9027af7f816cb7df6542e7423ddd0962" := rfl
/-- source of `rscp_DataType_MarshalJSON` is unchanged -/
theorem shape_rscp_DataType_MarshalJSON : Rscp.Gen.Shape.rscp_DataType_MarshalJSON = "caf4c4d08414da1212caec7aeaf621d6" := rfl
/-- source of `rscp_DataType_UnmarshalJSON` is unchanged -/
theorem shape_rscp_DataType_UnmarshalJSON : Rscp.Gen.Shape.rscp_DataType_UnmarshalJSON = "3aa85fd6a1677ef70d5b30598c1c15a5" := rfl
/-- source of `rscp_DataType_length` is unchanged -/
theorem shape_rscp_DataType_length : Rscp.Gen.Shape.rscp_DataType_length = "255ffd13f6a735b6a90e61662336bcc6" := rfl
/-- source of `rscp_DataType_newEmpty` is unchanged -/
theorem shape_rscp_DataType_newEmpty : Rscp.Gen.Shape.rscp_DataType_newEmpty = "8ac13e848385a7d997cf4c18bbfb95ec" := rfl
/-- source of `rscp_DataType_new` is unchanged -/
theorem shape_rscp_DataType_new : Rscp.Gen.Shape.rscp_DataType_new = "8d807aa65c3f75dab708caaead55aff3" := rfl
/-- source of `rscp_DataType_isValidValue` is unchanged -/
theorem shape_rscp_DataType_isValidValue : Rscp.Gen.Shape.rscp_DataType_isValidValue = "ab535fee51bad3079543523fd1f569e1" := rfl
/-- leaf `isRequest`: source text and argument list are unchanged -/
theorem leaf_isRequest_src : Rscp.Gen.Leaf.isRequest_src = "((t >> TypeFlagBit) & 1) == 0" := rfl
theorem leaf_isRequest_args : Rscp.Gen.Leaf.isRequest_args = ["t"] := rfl
/-- leaf `isResponse`: source text and argument list are unchanged -/
theorem leaf_isResponse_src : Rscp.Gen.Leaf.isResponse_src = "((t >> TypeFlagBit) & 1) == 1" := rfl
theorem leaf_isResponse_args : Rscp.Gen.Leaf.isResponse_args = ["t"] := rfl

end Rscp.Tie.Vocab
