/-
Tie `Builder`: the regenerated facts about /repo's current source equal the ones the hand-written
model was written against. Frozen by tools/bless_ties.py; compared by `rfl` on every run.
The request builder (request.go, read_request_slice.go) as Model/Builder.lean follows it.
-/
import Rscp.Gen.Shapes
import Rscp.Gen.Leaves
namespace Rscp.Tie.Builder

/-- source of `rscp_CreateRequest` is unchanged -/
theorem shape_rscp_CreateRequest : Rscp.Gen.Shape.rscp_CreateRequest = "6bd367e36d531b4dec42d11f018c36bc" := rfl
/-- source of `rscp_CreateRequests` is unchanged -/
theorem shape_rscp_CreateRequests : Rscp.Gen.Shape.rscp_CreateRequests = "686e57bffdd5b773d0b4117709cfd970" := rfl
/-- source of `rscp_readRequestSlice` is unchanged -/
theorem shape_rscp_readRequestSlice : Rscp.Gen.Shape.rscp_readRequestSlice = "7a1d051474a563bb58410d901a5d4ee1" := rfl
/-- source of `rscp_readRequestSliceReader` is unchanged -/
theorem shape_rscp_readRequestSliceReader : Rscp.Gen.Shape.rscp_readRequestSliceReader = "0123d312a66c68376ae2bc8d168720a4" := rfl
/-- source of `rscp_NewMessage` is unchanged -/
theorem shape_rscp_NewMessage : Rscp.Gen.Shape.rscp_NewMessage = "7a161364dad537c98e072f42057544a8" := rfl
/-- source of `rscp_Tag_DataType` is unchanged -/
theorem shape_rscp_Tag_DataType : Rscp.Gen.Shape.rscp_Tag_DataType = "e9dd0f02a82651b50e077d35aafbaba0" := rfl

end Rscp.Tie.Builder
