/-
Tie `Builder`: the regenerated facts about /repo's current source equal the ones the hand-written
model was written against. Frozen by tools/bless_ties.py; compared by `rfl` on every run.
The request builder (request.go, read_request_slice.go) as Model/Builder.lean follows it.
-/
import Rscp.Gen.Shapes
import Rscp.Gen.Leaves
namespace Rscp.Tie.Builder

/-- source of `rscp_CreateRequest` is unchanged -/
theorem shape_rscp_CreateRequest : Rscp.Gen.Shape.rscp_CreateRequest = "d77448aee0166481fee9e932a858d09b" := rfl
/-- source of `rscp_CreateRequests` is unchanged -/
theorem shape_rscp_CreateRequests : Rscp.Gen.Shape.rscp_CreateRequests = "e32bf5a72fdc8e711984491f241dfc6f" := rfl
/-- source of `rscp_readRequestSlice` is unchanged -/
theorem shape_rscp_readRequestSlice : Rscp.Gen.Shape.rscp_readRequestSlice = "885218cdd62e065e7485abbfb5c92c05" := rfl
/-- source of `rscp_readRequestSliceReader` is unchanged -/
theorem shape_rscp_readRequestSliceReader : Rscp.Gen.Shape.rscp_readRequestSliceReader = "27fb82cc7eb89ab39ea12cf4b8c026c1" := rfl
/-- source of `rscp_NewMessage` is unchanged -/
theorem shape_rscp_NewMessage : Rscp.Gen.Shape.rscp_NewMessage = "097f4556681a4fde5d0340653d39e121" := rfl
/-- source of `rscp_Tag_DataType` is unchanged -/
theorem shape_rscp_Tag_DataType : Rscp.Gen.Shape.rscp_Tag_DataType = "7f89d9391dd38f68a30d9a2d55766b01" := rfl

end Rscp.Tie.Builder
