/-
Tie `Writer`: the regenerated facts about /repo's current source equal the ones the hand-written
model was written against. Frozen by tools/bless_ties.py; compared by `rfl` on every run.
Functions of the encoding path that Model/Codec.lean follows by hand.
-/
import Rscp.Gen.Shapes
import Rscp.Gen.Leaves
namespace Rscp.Tie.Writer

/-- source of `rscp_write` is unchanged -/
theorem shape_rscp_write : Rscp.Gen.Shape.rscp_write = "9d3603e9842ee19bc99348f1cc9aa329" := rfl
/-- source of `rscp_writeMessage` is unchanged -/
theorem shape_rscp_writeMessage : Rscp.Gen.Shape.rscp_writeMessage = "8fc46ba134c05ce9e2675bb9e295f694" := rfl
/-- source of `rscp_writeFrame` is unchanged -/
theorem shape_rscp_writeFrame : Rscp.Gen.Shape.rscp_writeFrame = "d90a8976a533d757dddfb3274af6ddad" := rfl
/-- source of `rscp_Write` is unchanged -/
theorem shape_rscp_Write : Rscp.Gen.Shape.rscp_Write = "05a2264437ccca411034c7f364ec58eb" := rfl
/-- source of `rscp_Message_valueSize` is unchanged -/
theorem shape_rscp_Message_valueSize : Rscp.Gen.Shape.rscp_Message_valueSize = "aa82e83ba76fbe98ed848c85bad3d0ac" := rfl
/-- source of `rscp_messagesSize` is unchanged -/
theorem shape_rscp_messagesSize : Rscp.Gen.Shape.rscp_messagesSize = "c2b308447ce80f7c76901844f1f75113" := rfl
/-- source of `rscp_DataType_length` is unchanged -/
theorem shape_rscp_DataType_length : Rscp.Gen.Shape.rscp_DataType_length = "e95e4ea52c548bbb6c125bd79826b973" := rfl
/-- source of `rscp_dereferencePtr` is unchanged -/
theorem shape_rscp_dereferencePtr : Rscp.Gen.Shape.rscp_dereferencePtr = "847bfdd6f0940554db61860ee0180dac" := rfl
/-- leaf `writeFrame_ctrlBase`: source text and argument list are unchanged -/
theorem leaf_writeFrame_ctrlBase_src : Rscp.Gen.Leaf.writeFrame_ctrlBase_src = "(RSCP_CTRL_BIT_MASK_VERSION & (uint16(RSCP_VERSION_1_0) << RSCP_FLAG_BIT_VERSION))" := rfl
theorem leaf_writeFrame_ctrlBase_args : Rscp.Gen.Leaf.writeFrame_ctrlBase_args = [] := rfl
/-- leaf `writeFrame_ctrlCrcOn`: source text and argument list are unchanged -/
theorem leaf_writeFrame_ctrlCrcOn_src : Rscp.Gen.Leaf.writeFrame_ctrlCrcOn_src = "ctrl | (RSCP_CTRL_BIT_MASK_CRC & (uint16(RSCP_CRC_ENABLED) << RSCP_FLAG_BIT_CRC))" := rfl
theorem leaf_writeFrame_ctrlCrcOn_args : Rscp.Gen.Leaf.writeFrame_ctrlCrcOn_args = ["ctrl"] := rfl
/-- leaf `writeFrame_ctrlCrcOff`: source text and argument list are unchanged -/
theorem leaf_writeFrame_ctrlCrcOff_src : Rscp.Gen.Leaf.writeFrame_ctrlCrcOff_src = "ctrl | (RSCP_CTRL_BIT_MASK_CRC & (uint16(RSCP_CRC_DISABLED) << RSCP_FLAG_BIT_CRC))" := rfl
theorem leaf_writeFrame_ctrlCrcOff_args : Rscp.Gen.Leaf.writeFrame_ctrlCrcOff_args = ["ctrl"] := rfl
/-- leaf `Write_needsPadding`: source text and argument list are unchanged -/
theorem leaf_Write_needsPadding_src : Rscp.Gen.Leaf.Write_needsPadding_src = "len(d)%int(RSCP_CRYPT_BLOCK_SIZE) != 0" := rfl
theorem leaf_Write_needsPadding_args : Rscp.Gen.Leaf.Write_needsPadding_args = ["len(d)"] := rfl
/-- leaf `valueSize_isVariable`: source text and argument list are unchanged -/
theorem leaf_valueSize_isVariable_src : Rscp.Gen.Leaf.valueSize_isVariable_src = "m.DataType.length() == 0 && m.DataType != None" := rfl
theorem leaf_valueSize_isVariable_args : Rscp.Gen.Leaf.valueSize_isVariable_args = ["m.DataType.length()", "m.DataType"] := rfl

end Rscp.Tie.Writer
