/-
Tie `Writer`: the regenerated facts about /repo's current source equal the ones the hand-written
model was written against. Frozen by tools/bless_ties.py; compared by `rfl` on every run.
Functions of the encoding path that Model/Codec.lean follows by hand.
-/
import Rscp.Gen.Shapes
import Rscp.Gen.Leaves
namespace Rscp.Tie.Writer

/-- source of `rscp_write` is unchanged -/
theorem shape_rscp_write : Rscp.Gen.Shape.rscp_write = "72e9633c18dcdde7569c0457e012a349" := rfl
/-- source of `rscp_writeMessage` is unchanged -/
theorem shape_rscp_writeMessage : Rscp.Gen.Shape.rscp_writeMessage = "5a897f91aaa51b5935bca483f4ace79d" := rfl
/-- source of `rscp_writeFrame` is unchanged -/
theorem shape_rscp_writeFrame : Rscp.Gen.Shape.rscp_writeFrame = "f89d6df9e9359839d6132c58522dde2d" := rfl
/-- source of `rscp_Write` is unchanged -/
theorem shape_rscp_Write : Rscp.Gen.Shape.rscp_Write = "1a5c27a8dc377d03446d72105346f5e2" := rfl
/-- source of `rscp_Message_valueSize` is unchanged -/
theorem shape_rscp_Message_valueSize : Rscp.Gen.Shape.rscp_Message_valueSize = "310a697c2a0b85ff65fac075a454d8d7" := rfl
/-- source of `rscp_messagesSize` is unchanged -/
theorem shape_rscp_messagesSize : Rscp.Gen.Shape.rscp_messagesSize = "48bff8cf80205650148ebcfe81ff5625" := rfl
/-- source of `rscp_DataType_length` is unchanged -/
theorem shape_rscp_DataType_length : Rscp.Gen.Shape.rscp_DataType_length = "255ffd13f6a735b6a90e61662336bcc6" := rfl
/-- source of `rscp_dereferencePtr` is unchanged -/
theorem shape_rscp_dereferencePtr : Rscp.Gen.Shape.rscp_dereferencePtr = "b3c077c508d678a12ca89c9c0ab3b549" := rfl
/-- leaf `writeFrame_ctrlBase`: source text and argument list are unchanged -/
theorem leaf_writeFrame_ctrlBase_src : Rscp.Gen.Leaf.writeFrame_ctrlBase_src = "(RSCP_CTRL_BIT_MASK_VERSION & (uint16(RSCP_VERSION_1_0) << RSCP_FLAG_BIT_VERSION))" := rfl
theorem leaf_writeFrame_ctrlBase_args : Rscp.Gen.Leaf.writeFrame_ctrlBase_args = [] := rfl
/-- leaf `writeFrame_ctrlCrcOn`: source text and argument list are unchanged -/
theorem leaf_writeFrame_ctrlCrcOn_src : Rscp.Gen.Leaf.writeFrame_ctrlCrcOn_src = "ctrl | (RSCP_CTRL_BIT_MASK_CRC & (uint16(RSCP_CRC_ENABLED) << RSCP_FLAG_BIT_CRC))" := rfl
theorem leaf_writeFrame_ctrlCrcOn_args : Rscp.Gen.Leaf.writeFrame_ctrlCrcOn_args = ["ctrl"] := rfl
/-- leaf `writeFrame_ctrlCrcOff`: source text and argument list are unchanged -/
theorem leaf_writeFrame_ctrlCrcOff_src : Rscp.Gen.Leaf.writeFrame_ctrlCrcOff_src = "ctrl | (RSCP_CTRL_BIT_MASK_CRC & (uint16(RSCP_CRC_DISABLED) << RSCP_FLAG_BIT_CRC))" := rfl
theorem leaf_writeFrame_ctrlCrcOff_args : Rscp.Gen.Leaf.writeFrame_ctrlCrcOff_args = ["ctrl"] := rfl
/-- leaf `Write_needsPadding`: source text and argument list are unchanged -/
theorem leaf_Write_needsPadding_src : Rscp.Gen.Leaf.Write_needsPadding_src = "len(d)%int(RSCP_CRYPT_BLOCK_SIZE) != 0" := rfl
theorem leaf_Write_needsPadding_args : Rscp.Gen.Leaf.Write_needsPadding_args = ["len(d)"] := rfl
/-- leaf `valueSize_isVariable`: source text and argument list are unchanged -/
theorem leaf_valueSize_isVariable_src : Rscp.Gen.Leaf.valueSize_isVariable_src = "m.DataType.length() == 0 && m.DataType != None" := rfl
theorem leaf_valueSize_isVariable_args : Rscp.Gen.Leaf.valueSize_isVariable_args = ["m.DataType.length()", "m.DataType"] := rfl

end Rscp.Tie.Writer
