/-
Tie `JsonOut`: the regenerated facts about /repo's current source equal the ones the hand-written
model was written against. Frozen by tools/bless_ties.py; compared by `rfl` on every run.
The output formats of the e3dc command as Model/JsonOut.lean follows them.
-/
import Rscp.Gen.Shapes
import Rscp.Gen.Leaves
namespace Rscp.Tie.JsonOut

/-- source of `e3dc_NewJSONMergedMessages` is unchanged -/
theorem shape_e3dc_NewJSONMergedMessages : Rscp.Gen.Shape.e3dc_NewJSONMergedMessages = "87e1308d87e720be8c6415d536c36d23" := rfl
/-- source of `e3dc_NewJSONSimpleMessage` is unchanged -/
theorem shape_e3dc_NewJSONSimpleMessage : Rscp.Gen.Shape.e3dc_NewJSONSimpleMessage = "dca7820bdedb72153396814720c78f2a" := rfl
/-- source of `e3dc_NewJSONSimpleMessages` is unchanged -/
theorem shape_e3dc_NewJSONSimpleMessages : Rscp.Gen.Shape.e3dc_NewJSONSimpleMessages = "5d7667d82349b5935725e52b8b0195ff" := rfl
/-- source of `e3dc_JSONMessage_MarshalJSON` is unchanged -/
theorem shape_e3dc_JSONMessage_MarshalJSON : Rscp.Gen.Shape.e3dc_JSONMessage_MarshalJSON = "30abebd09a68f0f261fcd524e5008fda" := rfl
/-- source of `e3dc_run` is unchanged -/
theorem shape_e3dc_run : Rscp.Gen.Shape.e3dc_run = "a56d86821e515d633d17f85d10f33332" := rfl
/-- source of `rscp_Tag_MarshalJSON` is unchanged -/
theorem shape_rscp_Tag_MarshalJSON : Rscp.Gen.Shape.rscp_Tag_MarshalJSON = "93c6c583baf3a627191b6aad23870223" := rfl
/-- source of `rscp_RscpError_MarshalJSON` is unchanged -/
theorem shape_rscp_RscpError_MarshalJSON : Rscp.Gen.Shape.rscp_RscpError_MarshalJSON = "de7b0864d856bc2f4af30b146ab5d62a" := rfl
/-- source of `rscp_RscpError_String` is unchanged -/
theorem shape_rscp_RscpError_String : Rscp.Gen.Shape.rscp_RscpError_String = "feed00c034fbcc364f80bdfd93e13067" := rfl
/-- source of `rscp_DataType_MarshalJSON` is unchanged -/
theorem shape_rscp_DataType_MarshalJSON : Rscp.Gen.Shape.rscp_DataType_MarshalJSON = "caf4c4d08414da1212caec7aeaf621d6" := rfl

end Rscp.Tie.JsonOut
