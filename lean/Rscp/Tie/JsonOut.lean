/-
Tie `JsonOut`: the regenerated facts about /repo's current source equal the ones the hand-written
model was written against. Frozen by tools/bless_ties.py; compared by `rfl` on every run.
The output formats of the e3dc command as Model/JsonOut.lean follows them.
-/
import Rscp.Gen.Shapes
import Rscp.Gen.Leaves
namespace Rscp.Tie.JsonOut

/-- source of `e3dc_NewJSONMergedMessages` is unchanged -/
theorem shape_e3dc_NewJSONMergedMessages : Rscp.Gen.Shape.e3dc_NewJSONMergedMessages = "f00dd54778a2ddd5ad16cd1fa853743c" := rfl
/-- source of `e3dc_NewJSONSimpleMessage` is unchanged -/
theorem shape_e3dc_NewJSONSimpleMessage : Rscp.Gen.Shape.e3dc_NewJSONSimpleMessage = "991b477ae1afa8a2575bcf05a3f8d3c0" := rfl
/-- source of `e3dc_NewJSONSimpleMessages` is unchanged -/
theorem shape_e3dc_NewJSONSimpleMessages : Rscp.Gen.Shape.e3dc_NewJSONSimpleMessages = "5129c97ad2a5bc6fa0c358039a9277eb" := rfl
/-- source of `e3dc_JSONMessage_MarshalJSON` is unchanged -/
theorem shape_e3dc_JSONMessage_MarshalJSON : Rscp.Gen.Shape.e3dc_JSONMessage_MarshalJSON = "6335d95d4d1de5885fd32679b32d7be4" := rfl
/-- source of `e3dc_run` is unchanged -/
theorem shape_e3dc_run : Rscp.Gen.Shape.e3dc_run = "3744fb6a0dae46009e2819eabdb9c53f" := rfl
/-- source of `rscp_Tag_MarshalJSON` is unchanged -/
theorem shape_rscp_Tag_MarshalJSON : Rscp.Gen.Shape.rscp_Tag_MarshalJSON = "0489f29658b023dafa3829e6877f0a11" := rfl
/-- source of `rscp_RscpError_MarshalJSON` is unchanged -/
theorem shape_rscp_RscpError_MarshalJSON : Rscp.Gen.Shape.rscp_RscpError_MarshalJSON = "1177294f160c25901f9e502d185ad353" := rfl
/-- source of `rscp_RscpError_String` is unchanged -/
theorem shape_rscp_RscpError_String : Rscp.Gen.Shape.rscp_RscpError_String = "b33109c0258cb04f394f4047b5d27a85" := rfl
/-- source of `rscp_DataType_MarshalJSON` is unchanged -/
theorem shape_rscp_DataType_MarshalJSON : Rscp.Gen.Shape.rscp_DataType_MarshalJSON = "90162ebd7939b429956331026ec913df" := rfl

end Rscp.Tie.JsonOut
