/-
Tie `Crypt`: the regenerated facts about /repo's current source equal the ones the hand-written
model was written against. Frozen by tools/bless_ties.py; compared by `rfl` on every run.
Key and IV construction (crypt.go) as Model/Crypt.lean follows it.
-/
import Rscp.Gen.Shapes
import Rscp.Gen.Leaves
namespace Rscp.Tie.Crypt

/-- source of `rscp_createAESKey` is unchanged -/
theorem shape_rscp_createAESKey : Rscp.Gen.Shape.rscp_createAESKey = "02d5daa10ff4f156ce37c04bfff42524" := rfl
/-- source of `rscp_newIV` is unchanged -/
theorem shape_rscp_newIV : Rscp.Gen.Shape.rscp_newIV = "ececed804a884743df647e2aaab0031f" := rfl

end Rscp.Tie.Crypt
