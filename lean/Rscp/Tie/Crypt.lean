/-
Tie `Crypt`: the regenerated facts about /repo's current source equal the ones the hand-written
model was written against. Frozen by tools/bless_ties.py; compared by `rfl` on every run.
Key and IV construction (crypt.go) as Model/Crypt.lean follows it.
-/
import Rscp.Gen.Shapes
import Rscp.Gen.Leaves
namespace Rscp.Tie.Crypt

/-- source of `rscp_createAESKey` is unchanged -/
theorem shape_rscp_createAESKey : Rscp.Gen.Shape.rscp_createAESKey = "2e879a0fcecf60b4e080a42df2a5d00b" := rfl
/-- source of `rscp_newIV` is unchanged -/
theorem shape_rscp_newIV : Rscp.Gen.Shape.rscp_newIV = "490acf9f3263b32a940d304d02e68b55" := rfl

end Rscp.Tie.Crypt
