/-
Tie `Cli`: the regenerated facts about /repo's current source equal the ones the hand-written
model was written against. Frozen by tools/bless_ties.py; compared by `rfl` on every run.
main/run/flag handling of the e3dc command as Model/Cli.lean follows them.
-/
import Rscp.Gen.Shapes
import Rscp.Gen.Leaves
namespace Rscp.Tie.Cli

/-- source of `e3dc_main` is unchanged -/
theorem shape_e3dc_main : Rscp.Gen.Shape.e3dc_main = "85a2e9b4f43cb9af5110828fbdd4cfbf" := rfl
/-- source of `e3dc_run` is unchanged -/
theorem shape_e3dc_run : Rscp.Gen.Shape.e3dc_run = "a56d86821e515d633d17f85d10f33332" := rfl
/-- source of `e3dc_parseFlags` is unchanged -/
theorem shape_e3dc_parseFlags : Rscp.Gen.Shape.e3dc_parseFlags = "3b739cca18a1039abe79a0448aeebce2" := rfl
/-- source of `e3dc_checkFlags` is unchanged -/
theorem shape_e3dc_checkFlags : Rscp.Gen.Shape.e3dc_checkFlags = "47709626c4ab6b18ce0c26bb5afcc226" := rfl
/-- source of `e3dc_printUsage` is unchanged -/
theorem shape_e3dc_printUsage : Rscp.Gen.Shape.e3dc_printUsage = "cced0c083e3d2abdd713c590e8aeb146" := rfl
/-- source of `e3dc_printVersion` is unchanged -/
theorem shape_e3dc_printVersion : Rscp.Gen.Shape.e3dc_printVersion = "18f44c62d671703f66af26d155540835" := rfl

end Rscp.Tie.Cli
