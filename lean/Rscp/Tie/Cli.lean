/-
Tie `Cli`: the regenerated facts about /repo's current source equal the ones the hand-written
model was written against. Frozen by tools/bless_ties.py; compared by `rfl` on every run.
main/run/flag handling of the e3dc command as Model/Cli.lean follows them.
-/
import Rscp.Gen.Shapes
import Rscp.Gen.Leaves
namespace Rscp.Tie.Cli

/-- source of `e3dc_main` is unchanged -/
theorem shape_e3dc_main : Rscp.Gen.Shape.e3dc_main = "e025603d2db3fb2c065061d8f47e501d" := rfl
/-- source of `e3dc_run` is unchanged -/
theorem shape_e3dc_run : Rscp.Gen.Shape.e3dc_run = "3744fb6a0dae46009e2819eabdb9c53f" := rfl
/-- source of `e3dc_parseFlags` is unchanged -/
theorem shape_e3dc_parseFlags : Rscp.Gen.Shape.e3dc_parseFlags = "6ee064d4c1abf1046b6ba6c050e6ef4b" := rfl
/-- source of `e3dc_checkFlags` is unchanged -/
theorem shape_e3dc_checkFlags : Rscp.Gen.Shape.e3dc_checkFlags = "a81cd1d63e929cec1d1a3d80ebaf39ce" := rfl
/-- source of `e3dc_printUsage` is unchanged -/
theorem shape_e3dc_printUsage : Rscp.Gen.Shape.e3dc_printUsage = "8ab9195104714ccbd36880c1297db274" := rfl
/-- source of `e3dc_printVersion` is unchanged -/
theorem shape_e3dc_printVersion : Rscp.Gen.Shape.e3dc_printVersion = "18f44c62d671703f66af26d155540835" := rfl

end Rscp.Tie.Cli
