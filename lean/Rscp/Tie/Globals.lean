/-
Tie `Globals`: the regenerated facts about /repo's current source equal the ones the hand-written
model was written against. Frozen by tools/bless_ties.py; compared by `rfl` on every run.
Package-level variables of package rscp and the (empty) list of functions writing them.
-/
import Rscp.Gen.Shapes
import Rscp.Gen.Leaves
namespace Rscp.Tie.Globals

/-- `rscpGlobals` is unchanged -/
theorem list_rscpGlobals : Rscp.Gen.Shape.rscpGlobals = ["ErrDataTypeValueMismatch", "ErrJSONUnmarshal", "ErrMissingValue", "ErrNoArguments", "ErrNotARequestTag", "ErrNotAResponseTag", "ErrRscpDataLimitExceeded", "ErrRscpInvalidControl", "ErrRscpInvalidCrc", "ErrRscpInvalidDataType", "ErrRscpInvalidFrameLength", "ErrRscpInvalidMagic", "ErrRscpProtVersionMismatch", "ErrTagDataTypeMismatch", "ErrValidTag", "Log", "Now", "_AuthLevelIndex_0", "_AuthLevelIndex_1", "_AuthLevelIndex_2", "_AuthLevelIndex_3", "_AuthLevelIndex_4", "_AuthLevelIndex_5", "_AuthLevelIndex_6", "_AuthLevelNameToValueMap", "_AuthLevelValues", "_DataTypeIndex_0", "_DataTypeIndex_1", "_DataTypeNameToValueMap", "_DataTypeValues", "_RscpErrorIndex_0", "_RscpErrorIndex_1", "_RscpErrorNameToValueMap", "_RscpErrorValues", "_TagMap", "_TagNameToValueMap", "_TagValues", "dataTypeMap", "defaultClientConfig", "lengthMap", "newEmptyMap", "newMap", "secretTags", "statusMeta", "validateMap"] := rfl
/-- `rscpGlobalWrites` is unchanged -/
theorem list_rscpGlobalWrites : Rscp.Gen.Shape.rscpGlobalWrites = [] := rfl

end Rscp.Tie.Globals
