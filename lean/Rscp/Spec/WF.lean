/-
Well-formedness of message trees as property C01 quantifies over them: every value has the Go
type its data type requires at every depth (that is `validate`), numbers are within the range
of their Go type and time stamps are canonical (always true of Go values; the model's `Int`
must be told), and the encoding fits the 16-bit length fields.
-/
import Rscp.Model.Codec
namespace Rscp.Spec
open Rscp

mutual
/-- the value is one a Go program can hold: numbers in the range of their kind, `0 ≤ nsec < 10⁹`,
    seconds within int64 -/
def ValOK : Val → Prop
  | .num k n => k.inRange n
  | .time s ns => -(2 ^ 63 : Int) ≤ s ∧ s < (2 ^ 63 : Int) ∧ 0 ≤ ns ∧ ns < 1000000000
  | .msgs ms => MsgsOK ms
  | _ => True
def MsgOK : Msg → Prop
  | .mk tag dt v => tag < 2 ^ 32 ∧ dt < 256 ∧ ValOK v
def MsgsOK : List Msg → Prop
  | [] => True
  | m :: ms => MsgOK m ∧ MsgsOK ms
end

/-- the message lists C01 talks about -/
def WFList (ms : List Msg) : Prop :=
  MsgsOK ms ∧ Model.validateMsgs ms = .ok () ∧ Model.msgsSizeWide ms ≤ 65535

end Rscp.Spec
