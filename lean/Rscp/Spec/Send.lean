/-
Specification side of C05: which request lists a client may transmit, stated from the property text
and the protocol tables of `Spec/Frame.lean`, independently of rscp/message.go.
-/
import Rscp.Spec.Frame
import Rscp.Spec.WF
namespace Rscp.Spec
open Rscp

mutual
/-- size of the value on the wire -/
def wireValSize : Val → Nat
  | .nil => 0
  | .bool _ => 1
  | .num k _ => k.width.getD 0
  | .str bs => bs.length
  | .bytes bs => bs.length
  | .time _ _ => 12
  | .msgs ms => wireSize ms
  | .other _ => 0
/-- size of a list of items on the wire: 7 header bytes per item plus the value -/
def wireSize : List Msg → Nat
  | [] => 0
  | .mk _ _ v :: ms => 7 + wireValSize v + wireSize ms
end

mutual
/-- the item can be encoded: defined data type, value of the representation that type requires (at every
    depth), value size within what an item's 16-bit length field may carry -/
def ItemOK : Msg → Prop
  | .mk _ dt v => (∃ k fixed, typeRow dt = some (k, fixed) ∧ v.kind = k) ∧ wireValSize v ≤ maxItemData ∧
      (match v with | .msgs ms => ItemsOK ms | _ => True)
def ItemsOK : List Msg → Prop
  | [] => True
  | m :: ms => ItemOK m ∧ ItemsOK ms
end

/-- a request list the client may transmit: request tags (bit 23 clear) at the top level, encodable items,
    total size within the frame's 16-bit length field -/
def Sendable (reqs : List Msg) : Prop :=
  (∀ m ∈ reqs, m.tag.testBit 23 = false) ∧ ItemsOK reqs ∧ wireSize reqs ≤ 65535

end Rscp.Spec
