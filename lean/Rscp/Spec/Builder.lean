/-
The documented grammar of `CreateRequest` (doc comment in rscp/request.go and property C18),
as an inductive relation — written without looking at read_request_slice.go:

  * a tag whose data type is `None` takes no value;
  * any other non-container tag takes exactly the next argument as its value, and that argument
    must not be a tag or a data-type constant;
  * a container tag takes all following items as its children, recursively.
-/
import Rscp.Model.Builder
namespace Rscp.Spec
open Rscp Rscp.Model

mutual
/-- `Builds args m rest`: reading one request from `args` yields `m` and leaves `rest` -/
inductive Builds : List Arg → Msg → List Arg → Prop where
  | none (t : Nat) (rest : List Arg) (h : tagDataType t = 0) :
      Builds (.tag t :: rest) (.mk t 0 .nil) rest
  | leaf (t : Nat) (v : Val) (rest : List Arg) (h0 : tagDataType t ≠ 0) (h14 : tagDataType t ≠ 14) :
      Builds (.tag t :: .val v :: rest) (.mk t (tagDataType t) v) rest
  | container (t : Nat) (rest : List Arg) (ms : List Msg) (h : tagDataType t = 14) (hc : BuildsAll rest ms) :
      Builds (.tag t :: rest) (.mk t 14 (.msgs ms)) []
/-- `BuildsAll args ms`: `args` is consumed completely by the requests `ms` -/
inductive BuildsAll : List Arg → List Msg → Prop where
  | nil : BuildsAll [] []
  | cons (args rest : List Arg) (m : Msg) (ms : List Msg) (h : Builds args m rest) (ht : BuildsAll rest ms) :
      BuildsAll args (m :: ms)
end

end Rscp.Spec
