/-
The three request notations of the e3dc command as a *writing* relation: `Writes lib m j` says that the JSON
tree `j` is a way to write the request message `m` — as a bare tag, a `[tag, type?, value?]` tuple or a
`{Tag, DataType, Value}` object, freely mixed and nested. Written from README / property C12, independently of
cmd/e3dc/json_input.go.
-/
import Rscp.Model.JsonIn
namespace Rscp.Spec
open Rscp Rscp.Model

def strBytes (s : String) : List Byte := s.toUTF8.toList

/-- a tag is written as its name, as its number, or (unknown tags) as the decimal string of its number -/
inductive WritesTag : Nat → J → Prop where
  | name (t : Nat) (s : String) (h : tagString? s = some t) : WritesTag t (.str (strBytes s))
  | number (t : Nat) (h : t < 2 ^ 32) : WritesTag t (.num { m := t, e := 0, plain := true })
  | decimal (t : Nat) (h : t < 2 ^ 32) (hu : tagString? (toString t) = none) : WritesTag t (.str (strBytes (toString t)))

/-- a data type is written as its name -/
def WritesType (d : Nat) (j : J) : Prop := ∃ s, dataTypeString? s = some d ∧ isDataType d = true ∧ j = .str (strBytes s)

/-- a number literal denoting the integer `n` (any of `5`, `5.0`, `50e-1`, …) -/
def DenotesInt (d : Dec) (n : Int) : Prop := d.toInt? = some n

/-- a leaf value of data type `dt` written in JSON -/
inductive WritesLeaf (lib : JsonLib) : Nat → Val → J → Prop where
  | bool (dt : Nat) (b : Bool) (h : newEmptyKind dt = .bool) : WritesLeaf lib dt (.bool b) (.bool b)
  | int (dt : Nat) (k : Kind) (n : Int) (d : Dec) (hk : newEmptyKind dt = k) (hw : k.width.isSome) (hf : k ≠ .f32 ∧ k ≠ .f64)
      (hr : k.inRange n) (hd : DenotesInt d n) : WritesLeaf lib dt (.num k n) (.num d)
  | f32 (dt : Nat) (d : Dec) (bits : Nat) (hk : newEmptyKind dt = .f32) (h : lib.toFloat 32 d = some bits) :
      WritesLeaf lib dt (.num .f32 bits) (.num d)
  | f64 (dt : Nat) (d : Dec) (bits : Nat) (hk : newEmptyKind dt = .f64) (h : lib.toFloat 64 d = some bits) :
      WritesLeaf lib dt (.num .f64 bits) (.num d)
  | str (dt : Nat) (s : List Byte) (h : newEmptyKind dt = .str) : WritesLeaf lib dt (.str s) (.str s)
  | bytes (dt : Nat) (bs : List Byte) (h : dt = Gen.C.ByteArray) :
      WritesLeaf lib dt (.bytes bs) (.arr (bs.map fun b => .num { m := b.toNat, e := 0, plain := true }))
  | time (dt : Nat) (txt : List Byte) (s ns : Int) (h : dt = Gen.C.Timestamp) (hp : lib.parseTime txt = some (s, ns)) :
      WritesLeaf lib dt (.time s ns) (.str txt)

mutual
/-- `Writes lib objOnly m j`: `j` writes the request `m`; below an object only objects may be used (`objOnly`) -/
inductive Writes (lib : JsonLib) : Bool → Msg → J → Prop where
  /-- bare tag: data type inferred, no value -/
  | bare (t : Nat) (j : J) (ht : WritesTag t j) :
      Writes lib false (.mk t (tagDataType t) .nil) j
  /-- `[tag]` -/
  | tuple1 (t : Nat) (tj : J) (ht : WritesTag t tj) :
      Writes lib false (.mk t (tagDataType t) .nil) (.arr [tj])
  /-- `[tag, type]`: the data type given explicitly, no value -/
  | tuple2t (t d : Nat) (tj dj : J) (ht : WritesTag t tj) (hd : WritesType d dj) :
      Writes lib false (.mk t d .nil) (.arr [tj, dj])
  /-- `[tag, value]`: data type inferred from the tag; a string value must not itself be the name of a data type -/
  | tuple2v (t : Nat) (v : Val) (tj vj : J) (ht : WritesTag t tj) (hv : WritesValue lib false (tagDataType t) v vj)
      (hn : dataTypeOfJ vj = none) :
      Writes lib false (.mk t (tagDataType t) v) (.arr [tj, vj])
  /-- `[tag, type, value]` -/
  | tuple3 (t d : Nat) (v : Val) (tj dj vj : J) (ht : WritesTag t tj) (hd : WritesType d dj) (hv : WritesValue lib false d v vj) :
      Writes lib false (.mk t d v) (.arr [tj, dj, vj])
  /-- `{Tag, DataType?}` without a value (field names in any case) -/
  | objectNoValue (o : Bool) (t d : Nat) (kvs : List (List Byte × J)) (tj : J) (ht : WritesTag t tj)
      (hT : fieldOf (strBytes "tag") kvs = some tj)
      (hD : (fieldOf (strBytes "datatype") kvs = none ∧ d = tagDataType t) ∨ (∃ dj, fieldOf (strBytes "datatype") kvs = some dj ∧ WritesType d dj))
      (hV : fieldOf (strBytes "value") kvs = none) (hc : d ≠ Gen.C.Container) :
      Writes lib o (.mk t d .nil) (.obj kvs)
  /-- `{Tag, DataType?, Value}`; nested requests must be objects as well -/
  | objectValue (o : Bool) (t d : Nat) (v : Val) (kvs : List (List Byte × J)) (tj vj : J) (ht : WritesTag t tj)
      (hT : fieldOf (strBytes "tag") kvs = some tj)
      (hD : (fieldOf (strBytes "datatype") kvs = none ∧ d = tagDataType t) ∨ (∃ dj, fieldOf (strBytes "datatype") kvs = some dj ∧ WritesType d dj))
      (hV : fieldOf (strBytes "value") kvs = some vj) (hv : WritesValue lib true d v vj) :
      Writes lib o (.mk t d v) (.obj kvs)
/-- a value of data type `dt`: a leaf, or for a container the list of its requests -/
inductive WritesValue (lib : JsonLib) : Bool → Nat → Val → J → Prop where
  | leaf (o : Bool) (dt : Nat) (v : Val) (j : J) (hc : dt ≠ Gen.C.Container) (hn : dt ≠ Gen.C.None) (h : WritesLeaf lib dt v j) :
      WritesValue lib o dt v j
  | container (o : Bool) (dt : Nat) (ms : List Msg) (js : List J) (hc : dt = Gen.C.Container) (h : WritesList lib o ms js) :
      WritesValue lib o dt (.msgs ms) (.arr js)
inductive WritesList (lib : JsonLib) : Bool → List Msg → List J → Prop where
  | nil (o : Bool) : WritesList lib o [] []
  | cons (o : Bool) (m : Msg) (ms : List Msg) (j : J) (js : List J) (h : Writes lib o m j) (ht : WritesList lib o ms js) :
      WritesList lib o (m :: ms) (j :: js)
end

end Rscp.Spec
