/-
Specification of a well-formed RSCP frame, written from the protocol description (the comment
block and constants of rscp/constants.go, the data-type list of rscp/datatype.go) and from the
text of property C03 — independently of rscp/reader.go. It uses its own table of data types;
`Props/C14` proves that the generated tables of the implementation agree with it.

`specDecode plain` parses a decrypted, block-padded frame as a *region grammar*: every length
field delimits exactly the bytes that belong to it, and each region must be consumed
completely by the items inside it.
-/
import Rscp.Base
import Rscp.Model.Crc
namespace Rscp.Spec
open Rscp

/-- RSCP data types: code, representation of the value, payload length (`none` = variable). -/
def typeTable : List (Nat × Kind × Option Nat) := [
  (0x00, .nil,   some 0),   -- None
  (0x01, .bool,  some 1),   -- Bool
  (0x02, .i8,    some 1),   -- Char8
  (0x03, .u8,    some 1),   -- UChar8
  (0x04, .i16,   some 2),   -- Int16
  (0x05, .u16,   some 2),   -- UInt16
  (0x06, .i32,   some 4),   -- Int32
  (0x07, .u32,   some 4),   -- Uint32
  (0x08, .i64,   some 8),   -- Int64
  (0x09, .u64,   some 8),   -- Uint64
  (0x0A, .f32,   some 4),   -- Float32 (IEEE 754 bit pattern)
  (0x0B, .f64,   some 8),   -- Double64
  (0x0C, .u8,    some 1),   -- Bitfield
  (0x0D, .str,   none),     -- CString
  (0x0E, .msgs,  none),     -- Container
  (0x0F, .time,  some 12),  -- Timestamp: 64-bit seconds + 32-bit nanoseconds since 1970
  (0x10, .bytes, none),     -- ByteArray
  (0xFF, .rerr,  some 4)]   -- Error

def typeRow (dt : Nat) : Option (Kind × Option Nat) := lookup dt typeTable

/-- sizes of the format -/
def frameHeaderSize : Nat := 18      -- magic 2, control 2, time 12, length 2
def itemHeaderSize : Nat := 7        -- tag 4, type 1, length 2
def crcSize : Nat := 4
def blockSize : Nat := 32
def maxItemData : Nat := 65535 - 7   -- an item's data must fit a frame together with its header

/-- canonical form of a wire time stamp: `0 ≤ nsec < 10⁹`, seconds carried in wrapping int64 -/
def normTime (sec nsec : Int) : Int × Int :=
  (swrap 64 (sec + nsec / 1000000000), nsec % 1000000000)

/-- the value a leaf region encodes -/
def leafValue (k : Kind) (region : List Byte) : Option Val :=
  match k with
  | .nil => if region.isEmpty then some .nil else none
  | .bool => match region with
    | [b] => some (.bool (b != 0))
    | _ => none
  | .str => some (.str region)
  | .bytes => some (.bytes region)
  | .time =>
    if region.length = 12 then
      let (s, ns) := normTime (toSigned 8 (leNat (region.take 8))) (toSigned 4 (leNat (region.drop 8)))
      some (.time s ns)
    else none
  | .msgs => none   -- containers are handled by the grammar
  | .other => none
  | k => match k.width with
    | some w => if region.length = w then
        some (.num k (if k.signed then toSigned w (leNat region) else (leNat region : Int))) else none
    | none => none

mutual
/-- one item at the head of `bs`: the message and the bytes after it -/
def specItem : Nat → List Byte → Option (Msg × List Byte)
  | 0, _ => none
  | f+1, bs =>
    if bs.length < itemHeaderSize then none else
    let tag := leNat (bs.take 4)
    let dt := leNat ((bs.drop 4).take 1)
    let l := leNat ((bs.drop 5).take 2)
    let r := bs.drop itemHeaderSize
    match typeRow dt with
    | none => none                                   -- undefined data type
    | some (k, fixed) =>
      if l > maxItemData then none
      else if (match fixed with | some n => l != n | none => false) then none   -- length must agree with the type
      else if r.length < l then none                 -- region must be covered
      else
        let region := r.take l
        if k = .msgs then
          match specItems f region with
          | some ms => some (.mk tag dt (.msgs ms), r.drop l)
          | none => none
        else
          match leafValue k region with
          | some v => some (.mk tag dt v, r.drop l)
          | none => none
/-- a region consisting of items and nothing else -/
def specItems : Nat → List Byte → Option (List Msg)
  | 0, _ => none
  | f+1, bs =>
    match bs with
    | [] => some []
    | _ :: _ =>
      match specItem f bs with
      | some (m, r) => (specItems f r).map (m :: ·)
      | none => none
end

/-- A decrypted frame (header, data, optional CRC, zero padding): the messages it encodes, or
    `none` if it is not well-formed. -/
def specDecode (plain : List Byte) : Option (List Msg) :=
  if plain.length < frameHeaderSize then none else
  let magic := leNat (plain.take 2)
  let ctrl := leNat ((plain.drop 2).take 2)
  let len := leNat ((plain.drop 16).take 2)
  if magic ≠ 0xDCE3 then none                               -- bytes E3 DC
  else if ctrl &&& 0xE0FF ≠ 0 then none                      -- reserved bits must be 0
  else if (ctrl >>> 8) &&& 0xF ≠ 1 then none                 -- version 1
  else
    let crc := (ctrl >>> 12) &&& 1 = 1
    let frameSize := frameHeaderSize + len + (if crc then crcSize else 0)
    if plain.length < frameSize then none                    -- declared length must be covered
    else if ¬ (plain.drop frameSize).all (· == 0) then none  -- nothing but zero padding after the frame
    else
      match specItems (len + 1) ((plain.drop frameHeaderSize).take len) with
      | none => none
      | some ms =>
        if crc then
          if leNat ((plain.drop (frameHeaderSize + len)).take crcSize) = Crc.crc32 (plain.take (frameHeaderSize + len))
          then some ms else none
        else some ms

end Rscp.Spec
