/-
Lemmas for C18: the fuel-indexed builder `Model.build`/`Model.buildAll` against the grammar
`Spec.Builds`/`Spec.BuildsAll`. `tagDataType` is never unfolded; only the three cases
`= 0`, `= 14`, neither are distinguished.

Fuel accounting: every nesting level costs two units (`build → buildAll → build`), so
`build` needs `2 * args.length` and `buildAll` needs `2 * args.length + 1`.
-/
import Rscp.Model.Vocab
import Rscp.Model.Builder
import Rscp.Spec.Frame
import Rscp.Snapshot.Vocab
import Rscp.Spec.Builder
namespace Rscp.Lemmas.Builder
open Rscp Rscp.Model Rscp.Spec

theorem cNone : Gen.C.None = 0 := rfl
theorem cContainer : Gen.C.Container = 14 := rfl

/-- what `build` makes of the result of the container loop -/
def contWrap (t : Nat) : Res (List Msg) → Res (Msg × List Arg)
  | .ok ms => .ok (.mk t 14 (.msgs ms), [])
  | .err e => .err e
  | .panic => .panic

/-- how `buildAll` continues after one `build` -/
def allStep (f : Nat) (acc : List Msg) : Res (Msg × List Arg) → Res (List Msg)
  | .ok (m, r) => buildAll f r (acc ++ [m])
  | .err e => .err e
  | .panic => .panic

/-! ### equations of `build` on a leading tag, by the three classes of data type -/

theorem build_zero (args : List Arg) : build 0 args = .panic := by
  cases args <;> rfl

theorem build_nil (f : Nat) : build (f + 1) [] = .err .eos := rfl

theorem build_dt (f d : Nat) (rest : List Arg) : build (f + 1) (.dtConst d :: rest) = .err .validTag := rfl

theorem build_val (f : Nat) (v : Val) (rest : List Arg) : build (f + 1) (.val v :: rest) = .err .validTag := rfl

theorem build_none (f t : Nat) (rest : List Arg) (h : tagDataType t = 0) :
    build (f + 1) (.tag t :: rest) = .ok (.mk t 0 .nil, rest) := by
  simp [build, h, cNone]

theorem build_container (f t : Nat) (rest : List Arg) (h : tagDataType t = 14) :
    build (f + 1) (.tag t :: rest) = contWrap t (buildAll f rest []) := by
  simp only [build, h, cNone, cContainer, contWrap]
  cases buildAll f rest [] <;> simp

theorem build_leaf_nil (f t : Nat) (h0 : tagDataType t ≠ 0) (h14 : tagDataType t ≠ 14) :
    build (f + 1) [.tag t] = .err .missingValue := by
  simp [build, h0, h14, cNone, cContainer]

theorem build_leaf_tag (f t t' : Nat) (rest : List Arg) (h0 : tagDataType t ≠ 0) (h14 : tagDataType t ≠ 14) :
    build (f + 1) (.tag t :: .tag t' :: rest) = .err .typeMismatch := by
  simp [build, h0, h14, cNone, cContainer]

theorem build_leaf_dt (f t d : Nat) (rest : List Arg) (h0 : tagDataType t ≠ 0) (h14 : tagDataType t ≠ 14) :
    build (f + 1) (.tag t :: .dtConst d :: rest) = .err .typeMismatch := by
  simp [build, h0, h14, cNone, cContainer]

theorem build_leaf_val (f t : Nat) (v : Val) (rest : List Arg) (h0 : tagDataType t ≠ 0) (h14 : tagDataType t ≠ 14) :
    build (f + 1) (.tag t :: .val v :: rest) = .ok (.mk t (tagDataType t) v, rest) := by
  simp [build, h0, h14, cNone, cContainer]

theorem buildAll_zero (args : List Arg) (acc : List Msg) : buildAll 0 args acc = .panic := by
  cases args <;> rfl

theorem buildAll_nil (f : Nat) (acc : List Msg) : buildAll (f + 1) [] acc = .ok acc := rfl

theorem buildAll_cons (f : Nat) (a : Arg) (rest : List Arg) (acc : List Msg) :
    buildAll (f + 1) (a :: rest) acc = allStep f acc (build f (a :: rest)) := by
  simp only [buildAll, allStep]
  cases build f (a :: rest) <;> simp

/-! ### the grammar consumes at least one argument -/

theorem builds_length {args : List Arg} {m : Msg} {rest : List Arg} (h : Builds args m rest) :
    rest.length < args.length := by
  cases h <;> simp <;> omega

/-! ### soundness: whatever the builder returns (with any fuel) the grammar derives -/

theorem sound : ∀ f : Nat,
    (∀ args m r, build f args = .ok (m, r) → Builds args m r) ∧
    (∀ args acc ms, buildAll f args acc = .ok ms → ∃ ms', ms = acc ++ ms' ∧ BuildsAll args ms') := by
  intro f
  induction f with
  | zero =>
    refine ⟨?_, ?_⟩
    · intro args m r h; rw [build_zero] at h; cases h
    · intro args acc ms h; rw [buildAll_zero] at h; cases h
  | succ f ih =>
    obtain ⟨ihB, ihA⟩ := ih
    refine ⟨?_, ?_⟩
    · intro args m r h
      match args, h with
      | [], h => rw [build_nil] at h; cases h
      | .dtConst d :: rest, h => rw [build_dt] at h; cases h
      | .val v :: rest, h => rw [build_val] at h; cases h
      | .tag t :: rest, h =>
        by_cases h0 : tagDataType t = 0
        · rw [build_none f t rest h0] at h
          cases h
          exact Builds.none _ _ h0
        · by_cases h14 : tagDataType t = 14
          · rw [build_container f t rest h14] at h
            cases hA : buildAll f rest [] with
            | ok ms =>
              rw [hA] at h
              simp only [contWrap] at h
              cases h
              obtain ⟨ms', hms, hb⟩ := ihA _ [] ms hA
              simp at hms
              subst hms
              exact Builds.container _ _ _ h14 hb
            | err e => rw [hA] at h; cases h
            | panic => rw [hA] at h; cases h
          · match rest, h with
            | [], h => rw [build_leaf_nil f t h0 h14] at h; cases h
            | .tag t' :: rest', h => rw [build_leaf_tag f t t' rest' h0 h14] at h; cases h
            | .dtConst d :: rest', h => rw [build_leaf_dt f t d rest' h0 h14] at h; cases h
            | .val v :: rest', h =>
              rw [build_leaf_val f t v rest' h0 h14] at h
              cases h
              exact Builds.leaf _ _ _ h0 h14
    · intro args acc ms h
      match args, h with
      | [], h =>
        rw [buildAll_nil] at h
        cases h
        exact ⟨[], by simp, BuildsAll.nil⟩
      | a :: rest, h =>
        rw [buildAll_cons] at h
        cases hB : build f (a :: rest) with
        | ok p =>
          obtain ⟨m, r⟩ := p
          rw [hB] at h
          simp only [allStep] at h
          obtain ⟨ms', hms, hb⟩ := ihA r (acc ++ [m]) ms h
          refine ⟨m :: ms', by simp [hms], ?_⟩
          exact BuildsAll.cons (a :: rest) r m ms' (ihB _ _ _ hB) hb
        | err e => rw [hB] at h; cases h
        | panic => rw [hB] at h; cases h

theorem build_sound {f : Nat} {args : List Arg} {m : Msg} {r : List Arg} (h : build f args = .ok (m, r)) :
    Builds args m r := (sound f).1 args m r h

/-! ### completeness: with enough fuel the builder finds every derivation -/

theorem complete : ∀ f : Nat,
    (∀ args m r, Builds args m r → 2 * args.length ≤ f → build f args = .ok (m, r)) ∧
    (∀ args ms acc, BuildsAll args ms → 2 * args.length + 1 ≤ f → buildAll f args acc = .ok (acc ++ ms)) := by
  intro f
  induction f with
  | zero =>
    refine ⟨?_, ?_⟩
    · intro args m r h hf
      have := builds_length h
      omega
    · intro args ms acc h hf; omega
  | succ f ih =>
    obtain ⟨ihB, ihA⟩ := ih
    refine ⟨?_, ?_⟩
    · intro args m r h hf
      cases h with
      | none t rest h0 => exact build_none f _ _ h0
      | leaf t v rest h0 h14 => exact build_leaf_val f _ _ _ h0 h14
      | container t rest ms h14 hc =>
        rw [build_container f t rest h14]
        have := ihA rest ms [] hc (by simp at hf; omega)
        rw [this]
        simp [contWrap]
    · intro args ms acc h hf
      cases h with
      | nil => simp [buildAll_nil]
      | cons _ rest m ms' hb ht =>
        have hlen := builds_length hb
        match args, hb, hf, hlen with
        | [], _, _, hlen => simp at hlen
        | a :: tl, hb, hf, hlen =>
          rw [buildAll_cons]
          rw [ihB (a :: tl) m rest hb (by omega)]
          simp only [allStep]
          rw [ihA rest ms' (acc ++ [m]) ht (by simp at hlen; simp at hf; omega)]
          simp

theorem build_complete {f : Nat} {args : List Arg} {m : Msg} {r : List Arg} (h : Builds args m r)
    (hf : 2 * args.length ≤ f) : build f args = .ok (m, r) := (complete f).1 args m r h hf

/-! ### no panic with enough fuel -/

theorem nopanic : ∀ f : Nat,
    (∀ args, 2 * args.length ≤ f → 1 ≤ f → build f args ≠ .panic) ∧
    (∀ args acc, 2 * args.length + 1 ≤ f → buildAll f args acc ≠ .panic) := by
  intro f
  induction f with
  | zero =>
    refine ⟨?_, ?_⟩
    · intro args _ h; omega
    · intro args acc h; omega
  | succ f ih =>
    obtain ⟨ihB, ihA⟩ := ih
    refine ⟨?_, ?_⟩
    · intro args hf _
      match args, hf with
      | [], _ => rw [build_nil]; intro h; cases h
      | .dtConst d :: rest, _ => rw [build_dt]; intro h; cases h
      | .val v :: rest, _ => rw [build_val]; intro h; cases h
      | .tag t :: rest, hf =>
        by_cases h0 : tagDataType t = 0
        · rw [build_none f t rest h0]; intro h; cases h
        · by_cases h14 : tagDataType t = 14
          · rw [build_container f t rest h14]
            have := ihA rest [] (by simp at hf; omega)
            cases hA : buildAll f rest [] with
            | ok ms => simp [contWrap]
            | err e => simp [contWrap]
            | panic => exact absurd hA this
          · match rest with
            | [] => rw [build_leaf_nil f t h0 h14]; intro h; cases h
            | .tag t' :: rest' => rw [build_leaf_tag f t t' rest' h0 h14]; intro h; cases h
            | .dtConst d :: rest' => rw [build_leaf_dt f t d rest' h0 h14]; intro h; cases h
            | .val v :: rest' => rw [build_leaf_val f t v rest' h0 h14]; intro h; cases h
    · intro args acc hf
      match args, hf with
      | [], _ => rw [buildAll_nil]; intro h; cases h
      | a :: rest, hf =>
        rw [buildAll_cons]
        have hnB := ihB (a :: rest) (by omega) (by simp at hf; omega)
        cases hB : build f (a :: rest) with
        | ok p =>
          obtain ⟨m, r⟩ := p
          simp only [allStep]
          have hlen := builds_length (build_sound hB)
          exact ihA r (acc ++ [m]) (by simp at hlen; simp at hf; omega)
        | err e => simp [allStep]
        | panic => exact absurd hB hnB

/-! ### every error is a documented one, whatever the fuel -/

def Documented (e : ErrClass) : Prop := e = .eos ∨ e = .validTag ∨ e = .missingValue ∨ e = .typeMismatch

theorem errors : ∀ f : Nat,
    (∀ args e, build f args = .err e → Documented e) ∧
    (∀ args acc e, buildAll f args acc = .err e → Documented e) := by
  intro f
  induction f with
  | zero =>
    refine ⟨?_, ?_⟩
    · intro args e h; rw [build_zero] at h; cases h
    · intro args acc e h; rw [buildAll_zero] at h; cases h
  | succ f ih =>
    obtain ⟨ihB, ihA⟩ := ih
    refine ⟨?_, ?_⟩
    · intro args e h
      match args, h with
      | [], h => rw [build_nil] at h; cases h; exact Or.inl rfl
      | .dtConst d :: rest, h => rw [build_dt] at h; cases h; exact Or.inr (Or.inl rfl)
      | .val v :: rest, h => rw [build_val] at h; cases h; exact Or.inr (Or.inl rfl)
      | .tag t :: rest, h =>
        by_cases h0 : tagDataType t = 0
        · rw [build_none f t rest h0] at h; cases h
        · by_cases h14 : tagDataType t = 14
          · rw [build_container f t rest h14] at h
            cases hA : buildAll f rest [] with
            | ok ms => rw [hA] at h; cases h
            | err e' => rw [hA] at h; cases h; exact ihA rest [] _ hA
            | panic => rw [hA] at h; cases h
          · match rest, h with
            | [], h => rw [build_leaf_nil f t h0 h14] at h; cases h; exact Or.inr (Or.inr (Or.inl rfl))
            | .tag t' :: rest', h =>
              rw [build_leaf_tag f t t' rest' h0 h14] at h; cases h; exact Or.inr (Or.inr (Or.inr rfl))
            | .dtConst d :: rest', h =>
              rw [build_leaf_dt f t d rest' h0 h14] at h; cases h; exact Or.inr (Or.inr (Or.inr rfl))
            | .val v :: rest', h => rw [build_leaf_val f t v rest' h0 h14] at h; cases h
    · intro args acc e h
      match args, h with
      | [], h => rw [buildAll_nil] at h; cases h
      | a :: rest, h =>
        rw [buildAll_cons] at h
        cases hB : build f (a :: rest) with
        | ok p =>
          obtain ⟨m, r⟩ := p
          rw [hB] at h
          exact ihA r (acc ++ [m]) e h
        | err e' => rw [hB] at h; cases h; exact ihB _ _ hB
        | panic => rw [hB] at h; cases h

/-! ### more fuel never changes a result that is not a panic -/

theorem mono_step : ∀ f : Nat,
    (∀ args, build f args ≠ .panic → build (f + 1) args = build f args) ∧
    (∀ args acc, buildAll f args acc ≠ .panic → buildAll (f + 1) args acc = buildAll f args acc) := by
  intro f
  induction f with
  | zero =>
    refine ⟨?_, ?_⟩
    · intro args h; rw [build_zero] at h; exact absurd rfl h
    · intro args acc h; rw [buildAll_zero] at h; exact absurd rfl h
  | succ f ih =>
    obtain ⟨ihB, ihA⟩ := ih
    refine ⟨?_, ?_⟩
    · intro args h
      match args, h with
      | [], _ => rfl
      | .dtConst d :: rest, _ => rfl
      | .val v :: rest, _ => rfl
      | .tag t :: rest, h =>
        by_cases h0 : tagDataType t = 0
        · rw [build_none _ t rest h0, build_none _ t rest h0]
        · by_cases h14 : tagDataType t = 14
          · rw [build_container _ t rest h14] at h ⊢
            rw [build_container _ t rest h14]
            have : buildAll f rest [] ≠ .panic := by
              intro hp; rw [hp] at h; exact h rfl
            rw [ihA rest [] this]
          · match rest with
            | [] => rw [build_leaf_nil _ t h0 h14, build_leaf_nil _ t h0 h14]
            | .tag t' :: rest' => rw [build_leaf_tag _ t t' rest' h0 h14, build_leaf_tag _ t t' rest' h0 h14]
            | .dtConst d :: rest' => rw [build_leaf_dt _ t d rest' h0 h14, build_leaf_dt _ t d rest' h0 h14]
            | .val v :: rest' => rw [build_leaf_val _ t v rest' h0 h14, build_leaf_val _ t v rest' h0 h14]
    · intro args acc h
      match args, h with
      | [], _ => rfl
      | a :: rest, h =>
        rw [buildAll_cons] at h ⊢
        rw [buildAll_cons]
        have hB : build f (a :: rest) ≠ .panic := by
          intro hp; rw [hp] at h; exact h rfl
        rw [ihB _ hB]
        cases hB' : build f (a :: rest) with
        | ok p =>
          obtain ⟨m, r⟩ := p
          rw [hB'] at h
          exact ihA r (acc ++ [m]) h
        | err e => rfl
        | panic => rfl

theorem build_mono {f g : Nat} (hfg : f ≤ g) (args : List Arg) (h : build f args ≠ .panic) :
    build g args = build f args := by
  induction hfg with
  | refl => rfl
  | step _ ih => rw [(mono_step _).1 args (by rw [ih]; exact h), ih]

/-! ### `createRequests` -/

theorem go_ok : ∀ (lists : List (List Arg)) (ms : List Msg),
    createRequests.go lists = .ok ms ↔ lists.map createRequest = ms.map .ok := by
  intro lists
  induction lists with
  | nil =>
    intro ms
    cases ms <;> simp [createRequests.go]
  | cons l ls ih =>
    intro ms
    unfold createRequests.go
    rw [List.map_cons]
    cases hl : createRequest l with
    | ok m =>
      cases hg : createRequests.go ls with
      | ok ms' =>
        have h1 := (ih ms').1 hg
        cases ms with
        | nil => simp
        | cons m' ms'' =>
          simp only [List.map_cons, List.cons.injEq, Res.ok.injEq]
          constructor
          · rintro ⟨rfl, rfl⟩; exact ⟨rfl, h1⟩
          · rintro ⟨rfl, h2⟩
            refine ⟨rfl, ?_⟩
            have h3 := (ih ms'').2 h2
            rw [hg] at h3
            cases h3; rfl
      | err e =>
        cases ms with
        | nil => simp
        | cons m' ms'' =>
          simp only [List.map_cons, List.cons.injEq, Res.ok.injEq]
          constructor
          · intro h; cases h
          · rintro ⟨_, h2⟩
            have h3 := (ih ms'').2 h2
            rw [hg] at h3; cases h3
      | panic =>
        cases ms with
        | nil => simp
        | cons m' ms'' =>
          simp only [List.map_cons, List.cons.injEq, Res.ok.injEq]
          constructor
          · intro h; cases h
          · rintro ⟨_, h2⟩
            have h3 := (ih ms'').2 h2
            rw [hg] at h3; cases h3
    | err e =>
      cases ms with
      | nil => simp
      | cons m' ms'' => simp
    | panic =>
      cases ms with
      | nil => simp
      | cons m' ms'' => simp

theorem go_err : ∀ (lists : List (List Arg)) (e : ErrClass), createRequests.go lists = .err e →
    ∃ pre l post, lists = pre ++ l :: post ∧ createRequest l = .err e ∧ ∀ x ∈ pre, ∃ m, createRequest x = .ok m := by
  intro lists
  induction lists with
  | nil => intro e h; simp [createRequests.go] at h
  | cons l ls ih =>
    intro e h
    unfold createRequests.go at h
    cases hl : createRequest l with
    | ok m =>
      rw [hl] at h
      cases hg : createRequests.go ls with
      | ok ms' => rw [hg] at h; cases h
      | err e' =>
        rw [hg] at h
        cases h
        obtain ⟨pre, l', post, hls, hl', hpre⟩ := ih _ hg
        refine ⟨l :: pre, l', post, by simp [hls], hl', ?_⟩
        intro x hx
        rcases List.mem_cons.mp hx with rfl | hx
        · exact ⟨m, hl⟩
        · exact hpre x hx
      | panic => rw [hg] at h; cases h
    | err e' =>
      rw [hl] at h
      cases h
      exact ⟨[], l, ls, rfl, hl, by simp⟩
    | panic => rw [hl] at h; cases h

end Rscp.Lemmas.Builder
