import Rscp.Spec.Builder
