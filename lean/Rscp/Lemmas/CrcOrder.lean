/-
The period of x modulo the CRC-32 polynomial is exactly 2^32-1, and from it the detection of
all one- and two-bit errors in frames shorter than 2^32-1 bits.

Only this file imports Mathlib, and only for the arithmetic step: 2^32-1 = 3·5·17·257·65537 with
those factors prime, so a proper divisor of 2^32-1 divides (2^32-1)/p for one of them.
-/
import Mathlib.Data.Nat.Prime.Basic
import Mathlib.Tactic.NormNum.Prime
import Rscp.Lemmas.Crc
namespace Rscp.Crc

/-- every proper divisor of 2^32-1 divides (2^32-1)/p for a prime factor p -/
theorem proper_divisor (g : Nat) (hg : g ∣ 2^32 - 1) (hne : g ≠ 2^32 - 1) :
    ∃ p, (p = 3 ∨ p = 5 ∨ p = 17 ∨ p = 257 ∨ p = 65537) ∧ g ∣ (2^32 - 1) / p := by
  obtain ⟨q, hq⟩ := hg
  have hq1 : q ≠ 1 := by rintro rfl; exact hne (by omega)
  obtain ⟨p, hp, r, rfl⟩ := Nat.exists_prime_and_dvd hq1
  have hpN : p ∣ 3 * 5 * 17 * 257 * 65537 := ⟨g * r, by
    have : (3 * 5 * 17 * 257 * 65537 : Nat) = 2^32 - 1 := by decide
    rw [this, hq, Nat.mul_left_comm]⟩
  have hp0 : 0 < p := hp.pos
  refine ⟨p, ?_, ⟨r, ?_⟩⟩
  · rcases (Nat.Prime.dvd_mul hp).mp hpN with h | h
    · rcases (Nat.Prime.dvd_mul hp).mp h with h | h
      · rcases (Nat.Prime.dvd_mul hp).mp h with h | h
        · rcases (Nat.Prime.dvd_mul hp).mp h with h | h
          · exact Or.inl ((Nat.prime_dvd_prime_iff_eq hp (by norm_num)).mp h)
          · exact Or.inr (Or.inl ((Nat.prime_dvd_prime_iff_eq hp (by norm_num)).mp h))
        · exact Or.inr (Or.inr (Or.inl ((Nat.prime_dvd_prime_iff_eq hp (by norm_num)).mp h)))
      · exact Or.inr (Or.inr (Or.inr (Or.inl ((Nat.prime_dvd_prime_iff_eq hp (by norm_num)).mp h))))
    · exact Or.inr (Or.inr (Or.inr (Or.inr ((Nat.prime_dvd_prime_iff_eq hp (by norm_num)).mp h))))
  · rw [hq, Nat.mul_left_comm, Nat.mul_div_cancel_left _ hp0]

/-- every period of x is a multiple of 2^32-1 -/
theorem period_dvd (n : Nat) (hn : Per n) : 2^32 - 1 ∣ n := by
  have hg := Per_gcd n (2^32 - 1) hn Per_full
  by_cases hne : Nat.gcd n (2^32 - 1) = 2^32 - 1
  · rw [← hne]; exact Nat.gcd_dvd_left _ _
  · exfalso
    obtain ⟨p, hp, k, hk⟩ := proper_divisor _ (Nat.gcd_dvd_right _ _) hne
    have hper : Per ((2^32 - 1) / p) := hk ▸ Per_mul hg k
    rcases hp with rfl | rfl | rfl | rfl | rfl
    · exact not_Per_3 hper
    · exact not_Per_5 hper
    · exact not_Per_17 hper
    · exact not_Per_257 hper
    · exact not_Per_65537 hper

/-- the period of x modulo the CRC-32 polynomial is exactly 2^32-1 -/
theorem period_exact (n : Nat) : Spow n One = One ↔ 2^32 - 1 ∣ n := by
  constructor
  · exact period_dvd n
  · rintro ⟨k, rfl⟩; exact Per_mul Per_full k

theorem no_short_period (n : Nat) (h0 : 0 < n) (hlt : n < 2^32 - 1) : Spow n One ≠ One := by
  intro h
  have := Nat.le_of_dvd h0 (period_dvd n h)
  omega

theorem one_two_bits_detected (d t e : List Byte) (hv : Valid d t) (hl : e.length = d.length + 4)
    (hw : weight (bitsOf e) = 1 ∨ weight (bitsOf e) = 2) (hlen : 8 * (d.length + 4) < 2^32 - 1) :
    ¬ Valid ((xorBytes (d ++ t) e).take d.length) ((xorBytes (d ++ t) e).drop d.length) :=
  one_two_bits_of_period no_short_period d t e hv hl hw hlen

#print axioms period_exact
#print axioms one_two_bits_detected

end Rscp.Crc
