/-
Helper lemmas for the encode/decode round trip (property C01): little-endian and two's
complement arithmetic, agreement of the generated tables with the specification's type table,
the writer's sizes and output under `validate`, and the item grammar of the specification run
on the writer's output. Core Lean only.
-/
import Rscp.Model.Codec
import Rscp.Spec.Frame
import Rscp.Spec.WF
namespace Rscp.Lemmas
open Rscp

/-! ## little-endian numbers and two's complement -/

theorem length_leBytes (n x : Nat) : (leBytes n x).length = n := by
  induction n generalizing x with
  | zero => rfl
  | succ n ih => simp [leBytes, ih]

theorem leNat_leBytes (n x : Nat) : leNat (leBytes n x) = x % 256 ^ n := by
  induction n generalizing x with
  | zero => simp [leBytes, leNat, Nat.mod_one]
  | succ n ih =>
    simp only [leBytes, leNat, ih]
    rw [Nat.pow_succ, Nat.mul_comm (256 ^ n) 256, Nat.mod_mul]
    simp

theorem leNat_leBytes_of_lt (n x : Nat) (h : x < 256 ^ n) : leNat (leBytes n x) = x := by
  rw [leNat_leBytes, Nat.mod_eq_of_lt h]

theorem toUnsigned_lt (w : Nat) (n : Int) : toUnsigned w n < 2 ^ (8 * w) := by
  unfold toUnsigned
  have hpos : (0 : Int) < 2 ^ (8 * w) := Int.pow_pos (by decide)
  have h1 := Int.emod_nonneg n (Int.ne_of_gt hpos)
  have h2 := Int.emod_lt_of_pos n hpos
  have : ((2 ^ (8 * w) : Nat) : Int) = (2 : Int) ^ (8 * w) := by simp
  omega

theorem pow256 (w : Nat) : 256 ^ w = 2 ^ (8 * w) := by
  rw [Nat.pow_mul]

theorem leNat_leBytes_toUnsigned (w : Nat) (n : Int) :
    leNat (leBytes w (toUnsigned w n)) = toUnsigned w n :=
  leNat_leBytes_of_lt _ _ (by rw [pow256]; exact toUnsigned_lt w n)

theorem toUnsigned_of_nonneg (w : Nat) (n : Int) (h0 : 0 ≤ n) (h1 : n < 2 ^ (8 * w)) :
    (toUnsigned w n : Int) = n := by
  unfold toUnsigned
  rw [Int.emod_eq_of_lt h0 h1]
  omega

theorem toSigned_toUnsigned (w : Nat) (hw : 0 < w) (n : Int)
    (hlo : -(2 ^ (8 * w - 1) : Int) ≤ n) (hhi : n < (2 ^ (8 * w - 1) : Int)) :
    toSigned w (toUnsigned w n) = n := by
  have hM : (2 : Int) ^ (8 * w) = 2 * 2 ^ (8 * w - 1) := by
    have : 8 * w = (8 * w - 1) + 1 := by omega
    rw [this, Int.pow_succ]; simp; omega
  have hMn : (2 : Nat) ^ (8 * w) = 2 * 2 ^ (8 * w - 1) := by
    have : 8 * w = (8 * w - 1) + 1 := by omega
    rw [this, Nat.pow_succ]; simp; omega
  have hc : ((2 ^ (8 * w - 1) : Nat) : Int) = (2 : Int) ^ (8 * w - 1) := by simp
  have hpos : (0 : Int) < 2 ^ (8 * w - 1) := Int.pow_pos (by decide)
  unfold toSigned toUnsigned
  by_cases hn : 0 ≤ n
  · rw [Int.emod_eq_of_lt hn (by omega)]
    have : n.toNat < 2 ^ (8 * w - 1) := by omega
    simp [this]; omega
  · have : n % 2 ^ (8 * w) = n + 2 ^ (8 * w) := by
      rw [← Int.add_emod_right, Int.emod_eq_of_lt (by omega) (by omega)]
    rw [this]
    have : ¬ (n + 2 ^ (8 * w)).toNat < 2 ^ (8 * w - 1) := by omega
    simp [this]; omega

/-! ## the tables -/

/-- payload length the format prescribes for a value of the given Go type (`none` = variable) -/
def fixedOf : Kind → Option Nat
  | .nil => some 0
  | .bool => some 1
  | .time => some 12
  | .str | .bytes | .msgs | .other => none
  | k => k.width

def allKinds : List Kind :=
  [.nil, .bool, .i8, .u8, .i16, .u16, .i32, .u32, .i64, .u64, .f32, .f64,
   .str, .bytes, .time, .rerr, .msgs, .other]

theorem mem_allKinds (k : Kind) : k ∈ allKinds := by cases k <;> decide

theorem lookup_mem {β} (k : Nat) (l : List (Nat × β)) (b : β) (h : lookup k l = some b) :
    k ∈ l.map Prod.fst := by
  induction l with
  | nil => simp [lookup] at h
  | cons a r ih =>
    obtain ⟨a1, a2⟩ := a
    simp only [lookup] at h
    by_cases hk : a1 = k
    · simp [hk]
    · simp only [hk, if_false] at h
      simp [ih h]

theorem validateKind_lt (dt : Nat) (k : Kind) (h : lookup dt Gen.validateKind = some k) : dt < 256 := by
  have := lookup_mem _ _ _ h
  simp [Gen.validateKind] at this
  omega

/-- what the proofs need to know about one row of the tables -/
def DtOK (dt : Nat) (k : Kind) : Prop :=
  Spec.typeRow dt = some (k, fixedOf k) ∧ Model.dtLength dt = (fixedOf k).getD 0 ∧
    (dt = 0 ↔ k = .nil) ∧ (dt = Gen.C.Container ↔ k = .msgs) ∧ k ≠ .other

instance (dt : Nat) (k : Kind) : Decidable (DtOK dt k) := by unfold DtOK; infer_instance

theorem table_facts_aux : ∀ dt, dt < 256 → ∀ k ∈ allKinds,
    lookup dt Gen.validateKind = some k → DtOK dt k := by
  decide +kernel

theorem table_facts (dt : Nat) (k : Kind) (h : lookup dt Gen.validateKind = some k) : DtOK dt k :=
  table_facts_aux dt (validateKind_lt dt k h) k (mem_allKinds k) h

/-! ## one step of the item grammar -/

theorem specItem_step (f : Nat) (tb db lb body rest : List Byte) (h4 : tb.length = 4)
    (h1 : db.length = 1) (h2 : lb.length = 2) (hb : body.length = leNat lb) :
    Spec.specItem (f+1) (tb ++ (db ++ (lb ++ (body ++ rest)))) =
      match Spec.typeRow (leNat db) with
      | none => none
      | some (k, fixed) =>
        if leNat lb > Spec.maxItemData then none
        else if (match fixed with | some n => leNat lb != n | none => false) then none
        else if k = .msgs then
          match Spec.specItems f body with
          | some ms => some (.mk (leNat tb) (leNat db) (.msgs ms), rest)
          | none => none
        else
          match Spec.leafValue k body with
          | some v => some (.mk (leNat tb) (leNat db) v, rest)
          | none => none := by
  have e1 : (tb ++ (db ++ (lb ++ (body ++ rest)))).take 4 = tb := List.take_left' h4
  have e2 : (tb ++ (db ++ (lb ++ (body ++ rest)))).drop 4 = db ++ (lb ++ (body ++ rest)) :=
    List.drop_left' h4
  have e3 : (db ++ (lb ++ (body ++ rest))).take 1 = db := List.take_left' h1
  have e4 : (tb ++ (db ++ (lb ++ (body ++ rest)))).drop 5 = lb ++ (body ++ rest) := by
    rw [← List.append_assoc]; exact List.drop_left' (by simp [h4, h1])
  have e5 : (lb ++ (body ++ rest)).take 2 = lb := List.take_left' h2
  have e6 : (tb ++ (db ++ (lb ++ (body ++ rest)))).drop Spec.itemHeaderSize = body ++ rest := by
    rw [← List.append_assoc, ← List.append_assoc]
    exact List.drop_left' (by simp [h4, h1, h2, Spec.itemHeaderSize])
  have e7 : (body ++ rest).take (leNat lb) = body := List.take_left' hb
  have e8 : (body ++ rest).drop (leNat lb) = rest := List.drop_left' hb
  have e9 : ¬ (tb ++ (db ++ (lb ++ (body ++ rest)))).length < Spec.itemHeaderSize := by
    simp [h4, h1, h2, Spec.itemHeaderSize]; omega
  have e10 : ¬ (body ++ rest).length < leNat lb := by simp [hb]
  rw [Spec.specItem]
  simp only [e9, if_false, e1, e2, e3, e4, e5, e6, e7, e8, e10]
  rcases Spec.typeRow (leNat db) with _ | ⟨k, fixed⟩ <;> rfl

/-! ## induction over message trees -/

theorem msg_induction {P : Msg → Prop} {Q : List Msg → Prop}
    (leaf : ∀ tag dt v, (∀ ms, v ≠ .msgs ms) → P (.mk tag dt v))
    (node : ∀ tag dt ms, Q ms → P (.mk tag dt (.msgs ms)))
    (nil : Q []) (cons : ∀ m ms, P m → Q ms → Q (m :: ms)) : (∀ m, P m) ∧ (∀ ms, Q ms) := by
  refine ⟨fun m => ?_, fun ms => ?_⟩
  · exact Msg.rec (motive_1 := fun v => ∀ tag dt, P (.mk tag dt v)) (motive_2 := P) (motive_3 := Q)
      (fun tag dt => leaf tag dt _ (by intro ms h; cases h))
      (fun b tag dt => leaf tag dt _ (by intro ms h; cases h))
      (fun k n tag dt => leaf tag dt _ (by intro ms h; cases h))
      (fun bs tag dt => leaf tag dt _ (by intro ms h; cases h))
      (fun bs tag dt => leaf tag dt _ (by intro ms h; cases h))
      (fun s ns tag dt => leaf tag dt _ (by intro ms h; cases h))
      (fun ms ih tag dt => node tag dt ms ih)
      (fun k tag dt => leaf tag dt _ (by intro ms h; cases h))
      (fun tag dt v ih => ih tag dt) nil (fun m ms => cons m ms) m
  · exact Val.rec_1 (motive_1 := fun v => ∀ tag dt, P (.mk tag dt v)) (motive_2 := P) (motive_3 := Q)
      (fun tag dt => leaf tag dt _ (by intro ms h; cases h))
      (fun b tag dt => leaf tag dt _ (by intro ms h; cases h))
      (fun k n tag dt => leaf tag dt _ (by intro ms h; cases h))
      (fun bs tag dt => leaf tag dt _ (by intro ms h; cases h))
      (fun bs tag dt => leaf tag dt _ (by intro ms h; cases h))
      (fun s ns tag dt => leaf tag dt _ (by intro ms h; cases h))
      (fun ms ih tag dt => node tag dt ms ih)
      (fun k tag dt => leaf tag dt _ (by intro ms h; cases h))
      (fun tag dt v ih => ih tag dt) nil (fun m ms => cons m ms) ms

/-! ## `validate` read backwards -/

theorem isValidValue_eq (dt : Nat) (v : Val) (h : Model.isValidValue dt v = true) :
    lookup dt Gen.validateKind = some v.kind := by
  unfold Model.isValidValue at h
  split at h
  · cases h
  · next k hk => rw [hk]; simp at h; rw [h]

theorem validateMsg_inv (tag dt : Nat) (v : Val) (h : Model.validateMsg (.mk tag dt v) = .ok ()) :
    lookup dt Gen.validateKind = some v.kind ∧ Model.valueSizeWide dt v ≤ 65528 ∧
      (∀ ms, v = .msgs ms → Model.validateMsgs ms = .ok ()) := by
  have key : Model.isValidValue dt v = true ∧ Model.valueSizeWide dt v ≤ 65528 ∧
      (∀ ms, v = .msgs ms → dt = Gen.C.Container → Model.validateMsgs ms = .ok ()) := by
    cases v <;> simp only [Model.validateMsg] at h <;> split at h <;> try (cases h; done)
    all_goals split at h <;> try (cases h; done)
    all_goals split at h <;> try (cases h; done)
    all_goals
      rename_i h1 h2 h3
      simp at h1
      simp [Gen.Leaf.validate_tooLong] at h2
      refine ⟨h1, h2, ?_⟩
      intro ms hms hc
      first
        | (cases hms; done)
        | (cases hms; first | exact h | exact absurd hc h3)
  obtain ⟨h1, h2, h3⟩ := key
  have hl := isValidValue_eq _ _ h1
  refine ⟨hl, h2, fun ms hms => h3 ms hms ?_⟩
  subst hms
  exact (table_facts _ _ hl).2.2.2.1.2 rfl

theorem validateMsgs_cons (m : Msg) (ms : List Msg) (h : Model.validateMsgs (m :: ms) = .ok ()) :
    Model.validateMsg m = .ok () ∧ Model.validateMsgs ms = .ok () := by
  simp only [Model.validateMsgs] at h
  split at h
  · next h1 => exact ⟨h1, h⟩
  · cases h
  · cases h

/-! ## values -/

theorem num_facts (k : Kind) (w : Nat) (hw : k.width = some w) :
    fixedOf k = some w ∧ k ≠ .nil ∧ k ≠ .msgs ∧ 0 < w ∧
    ∀ region, Spec.leafValue k region =
      if region.length = w then
        some (.num k (if k.signed then toSigned w (leNat region) else (leNat region : Int)))
      else none := by
  cases k <;> simp [Kind.width] at hw <;> subst hw <;> simp [fixedOf, Kind.width, Spec.leafValue]

/-- a number in the range of its kind survives encoding to `w` bytes and decoding -/
theorem num_roundtrip (k : Kind) (w : Nat) (hw : k.width = some w) (n : Int) (hr : k.inRange n) :
    (if k.signed then toSigned w (leNat (leBytes w (toUnsigned w n)))
      else (leNat (leBytes w (toUnsigned w n)) : Int)) = n := by
  have hpos := (num_facts k w hw).2.2.2.1
  rw [leNat_leBytes_toUnsigned]
  unfold Kind.inRange at hr
  rw [hw] at hr
  simp only at hr
  split
  · next hs => rw [if_pos hs] at hr; exact toSigned_toUnsigned w hpos n hr.1 hr.2
  · next hs => rw [if_neg hs] at hr; exact toUnsigned_of_nonneg w n hr.1 hr.2

theorem normTime_canonical (s ns : Int) (hs : -(2 ^ 63 : Int) ≤ s ∧ s < (2 ^ 63 : Int))
    (hn : 0 ≤ ns ∧ ns < 1000000000) : Spec.normTime s ns = (s, ns) := by
  unfold Spec.normTime swrap
  have h1 : ns / 1000000000 = 0 := Int.ediv_eq_zero_of_lt hn.1 hn.2
  have h2 : ns % 1000000000 = ns := Int.emod_eq_of_lt hn.1 hn.2
  rw [h1, h2]
  simp only [Int.add_zero]
  have hs1 := hs.1
  have hs2 := hs.2
  simp only [Int.reducePow, Nat.reduceSub, Int.reduceNeg] at hs1 hs2 ⊢
  split <;> (congr 1; omega)

theorem uwrap16 (n : Nat) (h : n ≤ 65535) : uwrap 16 n = n := by
  unfold uwrap; exact Nat.mod_eq_of_lt (by omega)

/-- everything the round trip needs to know about a message whose value is not a container -/
theorem leaf_facts (tag dt : Nat) (v : Val) (hv : ∀ ms, v ≠ .msgs ms) (hok : Spec.ValOK v)
    (hval : Model.validateMsg (.mk tag dt v) = .ok ()) :
    ∃ body, Model.encVal v = .ok body ∧ body.length = Model.valueSizeWide dt v ∧
      Model.valueSize16 dt v = .ok (Model.valueSizeWide dt v) ∧
      v.kind ≠ .msgs ∧
      (match fixedOf v.kind with
        | some n => (Model.valueSizeWide dt v != n)
        | none => false) = false ∧
      Spec.leafValue v.kind body = some v := by
  obtain ⟨hl, hsz, -⟩ := validateMsg_inv tag dt v hval
  obtain ⟨-, hlen, h0, -, hno⟩ := table_facts _ _ hl
  cases v with
  | msgs ms => exact absurd rfl (hv ms)
  | other k => exact absurd rfl hno
  | nil =>
    have hd : dt = 0 := h0.2 rfl
    simp [Val.kind, fixedOf] at hlen
    subst hd
    refine ⟨[], rfl, ?_⟩
    simp [Model.valueSizeWide, Model.valueSize16, hlen, Gen.Leaf.size_isVariable,
      Gen.Leaf.valueSize_isVariable, Val.kind, fixedOf, Spec.leafValue]
  | bool b =>
    have hd : dt ≠ 0 := fun h => by have := h0.1 h; simp [Val.kind] at this
    simp [Val.kind, fixedOf] at hlen
    refine ⟨[if b then 1 else 0], rfl, ?_⟩
    simp [Model.valueSizeWide, Model.valueSize16, hlen, Gen.Leaf.size_isVariable,
      Gen.Leaf.valueSize_isVariable, Val.kind, fixedOf, Spec.leafValue]
    cases b <;> decide
  | str bs =>
    have hd : dt ≠ 0 := fun h => by have := h0.1 h; simp [Val.kind] at this
    simp [Val.kind, fixedOf] at hlen
    simp [Model.valueSizeWide, hlen, hd, Gen.Leaf.size_isVariable] at hsz
    refine ⟨bs, rfl, ?_⟩
    simp [Model.valueSizeWide, Model.valueSize16, hlen, hd, Gen.Leaf.size_isVariable,
      Gen.Leaf.valueSize_isVariable, Val.kind, fixedOf, Spec.leafValue, uwrap16 _ (by omega : bs.length ≤ 65535)]
  | bytes bs =>
    have hd : dt ≠ 0 := fun h => by have := h0.1 h; simp [Val.kind] at this
    simp [Val.kind, fixedOf] at hlen
    simp [Model.valueSizeWide, hlen, hd, Gen.Leaf.size_isVariable] at hsz
    refine ⟨bs, rfl, ?_⟩
    simp [Model.valueSizeWide, Model.valueSize16, hlen, hd, Gen.Leaf.size_isVariable,
      Gen.Leaf.valueSize_isVariable, Val.kind, fixedOf, Spec.leafValue, uwrap16 _ (by omega : bs.length ≤ 65535)]
  | time s ns =>
    have hd : dt ≠ 0 := fun h => by have := h0.1 h; simp [Val.kind] at this
    simp [Val.kind, fixedOf] at hlen
    simp only [Spec.ValOK] at hok
    refine ⟨_, rfl, ?_⟩
    have e1 : (leBytes 8 (toUnsigned 8 s) ++ leBytes 4 (toUnsigned 4 ns)).take 8 = leBytes 8 (toUnsigned 8 s) :=
      List.take_left' (length_leBytes _ _)
    have e2 : (leBytes 8 (toUnsigned 8 s) ++ leBytes 4 (toUnsigned 4 ns)).drop 8 = leBytes 4 (toUnsigned 4 ns) :=
      List.drop_left' (length_leBytes _ _)
    have e3 : toSigned 8 (toUnsigned 8 s) = s := toSigned_toUnsigned 8 (by decide) s hok.1 hok.2.1
    have e4 : toSigned 4 (toUnsigned 4 ns) = ns :=
      toSigned_toUnsigned 4 (by decide) ns (by simp only [Int.reducePow, Nat.reduceSub, Nat.reduceMul]; omega) (by simp only [Int.reducePow, Nat.reduceSub, Nat.reduceMul]; omega)
    simp [Model.valueSizeWide, Model.valueSize16, hlen, Gen.Leaf.size_isVariable,
      Gen.Leaf.valueSize_isVariable, Val.kind, fixedOf, Spec.leafValue, length_leBytes, e1, e2,
      leNat_leBytes_toUnsigned, e3, e4, normTime_canonical s ns ⟨hok.1, hok.2.1⟩ hok.2.2]
  | num k n =>
    simp only [Spec.ValOK] at hok
    have hw : ∃ w, k.width = some w := by
      unfold Kind.inRange at hok
      split at hok
      · exact hok.elim
      · next w hw => exact ⟨w, hw⟩
    obtain ⟨w, hw⟩ := hw
    obtain ⟨hf, hnil, hnm, hpos, hleaf⟩ := num_facts k w hw
    have hd : dt ≠ 0 := fun h => hnil (h0.1 h)
    simp [Val.kind, hf] at hlen
    refine ⟨leBytes w (toUnsigned w n), by simp [Model.encVal, hw], ?_⟩
    have hw0 : w ≠ 0 := by omega
    simp [Model.valueSizeWide, Model.valueSize16, hlen, hd, hw0, Gen.Leaf.size_isVariable,
      Gen.Leaf.valueSize_isVariable, Val.kind, hf, hnm, hleaf, length_leBytes]
    exact num_roundtrip k w hw n hok

/-! ## the item grammar on the writer's output -/

theorem specItem_enc_step (f tag dt l : Nat) (body rest : List Byte) (ht : tag < 2 ^ 32)
    (hd : dt < 256) (hl : l ≤ 65528) (hb : body.length = l) (k : Kind) (fixed : Option Nat)
    (hrow : Spec.typeRow dt = some (k, fixed)) (hfix : ∀ n, fixed = some n → l = n) (v : Val)
    (hv : (k = .msgs ∧ ∃ ms, v = .msgs ms ∧ Spec.specItems f body = some ms) ∨
      (k ≠ .msgs ∧ Spec.leafValue k body = some v)) :
    Spec.specItem (f+1) (leBytes 4 tag ++ (leBytes 1 dt ++ (leBytes 2 l ++ (body ++ rest)))) =
      some (.mk tag dt v, rest) := by
  have e1 : leNat (leBytes 4 tag) = tag := leNat_leBytes_of_lt _ _ (by omega)
  have e2 : leNat (leBytes 1 dt) = dt := leNat_leBytes_of_lt _ _ (by omega)
  have e3 : leNat (leBytes 2 l) = l := leNat_leBytes_of_lt _ _ (by omega)
  rw [specItem_step f _ _ _ body rest (length_leBytes _ _) (length_leBytes _ _) (length_leBytes _ _)
    (by rw [e3]; exact hb), e1, e2, e3, hrow]
  have : ¬ l > Spec.maxItemData := by simp [Spec.maxItemData]; omega
  have hfix' : ∀ n, fixed = some n → n = l := fun n h => (hfix n h).symm
  cases fixed with
  | none =>
    rcases hv with ⟨hk, ms, rfl, hs⟩ | ⟨hk, hs⟩ <;> simp [this, hk, hs]
  | some n =>
    have := hfix' n rfl
    subst this
    rcases hv with ⟨hk, ms, rfl, hs⟩ | ⟨hk, hs⟩ <;> simp [this, hk, hs]

theorem specItems_nil (f : Nat) : Spec.specItems (f+1) [] = some [] := by
  simp [Spec.specItems]

theorem specItems_cons (f : Nat) (bs r : List Byte) (m : Msg) (ms : List Msg) (h : bs ≠ [])
    (h1 : Spec.specItem f bs = some (m, r)) (h2 : Spec.specItems f r = some ms) :
    Spec.specItems (f+1) bs = some (m :: ms) := by
  cases bs with
  | nil => exact absurd rfl h
  | cons b bs => simp [Spec.specItems, h1, h2]

/- The grammar statements below hold for *every* fuel `f` above the wide size of what is read
   (`msgSizeWide m ≤ f`, `msgsSizeWide ms + 1 ≤ f`), so fuel monotonicity of `specItem` /
   `specItems` is not needed and is not proved here. -/

/-- one message: the writer's pieces and the grammar's reading of them -/
def EncItem (m : Msg) : Prop :=
  ∃ body, Model.encVal m.val = .ok body ∧ body.length = Model.valueSizeWide m.dt m.val ∧
    Model.valueSize16 m.dt m.val = .ok (Model.valueSizeWide m.dt m.val) ∧
    Model.valueSizeWide m.dt m.val ≤ 65528 ∧
    ∀ rest f, Model.msgSizeWide m ≤ f →
      Spec.specItem f (leBytes 4 m.tag ++ (leBytes 1 m.dt ++
        (leBytes 2 (Model.valueSizeWide m.dt m.val) ++ (body ++ rest)))) = some (m, rest)

def EncItems (ms : List Msg) : Prop :=
  ∃ bytes, Model.encMsgs ms = .ok bytes ∧ bytes.length = Model.msgsSizeWide ms ∧
    Model.msgsSize16 ms = .ok (Model.msgsSizeWide ms) ∧
    ∀ f, Model.msgsSizeWide ms + 1 ≤ f → Spec.specItems f bytes = some ms

theorem msgSizeWide_mk (tag dt : Nat) (v : Val) :
    Model.msgSizeWide (.mk tag dt v) = 7 + Model.valueSizeWide dt v := by
  simp [Model.msgSizeWide, Gen.C.RSCP_DATA_HEADER_SIZE]

theorem enc_leaf (tag dt : Nat) (v : Val) (hv : ∀ ms, v ≠ .msgs ms) (hok : Spec.MsgOK (.mk tag dt v))
    (hval : Model.validateMsg (.mk tag dt v) = .ok ()) : EncItem (.mk tag dt v) := by
  simp only [Spec.MsgOK] at hok
  obtain ⟨ht, hd, hvok⟩ := hok
  obtain ⟨hl, hsz, -⟩ := validateMsg_inv tag dt v hval
  obtain ⟨hrow, -⟩ := table_facts _ _ hl
  obtain ⟨body, henc, hlen, h16, hnm, hfix, hleaf⟩ := leaf_facts tag dt v hv hvok hval
  have hfix' : ∀ n, fixedOf v.kind = some n → Model.valueSizeWide dt v = n := by
    intro n hn; rw [hn] at hfix; simpa using hfix
  refine ⟨body, henc, hlen, h16, hsz, ?_⟩
  intro rest f hf
  simp only [Msg.tag, Msg.dt, Msg.val]
  rw [msgSizeWide_mk] at hf
  obtain ⟨f, rfl⟩ : ∃ g, f = g + 1 := ⟨f - 1, by omega⟩
  exact specItem_enc_step f tag dt _ body rest ht hd hsz hlen _ _ hrow hfix' v (.inr ⟨hnm, hleaf⟩)

theorem enc_node (tag dt : Nat) (ms : List Msg) (ih : Spec.MsgsOK ms → Model.validateMsgs ms = .ok () →
      Model.msgsSizeWide ms ≤ 65535 → EncItems ms)
    (hok : Spec.MsgOK (.mk tag dt (.msgs ms)))
    (hval : Model.validateMsg (.mk tag dt (.msgs ms)) = .ok ()) :
    EncItem (.mk tag dt (.msgs ms)) := by
  simp only [Spec.MsgOK, Spec.ValOK] at hok
  obtain ⟨ht, hd, hvok⟩ := hok
  obtain ⟨hl, hsz, hsub⟩ := validateMsg_inv tag dt _ hval
  obtain ⟨hrow, hlen, h0, -, -⟩ := table_facts _ _ hl
  have hd0 : dt ≠ 0 := fun h => by have := h0.1 h; simp [Val.kind] at this
  simp [Val.kind, fixedOf] at hlen hrow
  have hw : Model.valueSizeWide dt (.msgs ms) = Model.msgsSizeWide ms := by
    simp [Model.valueSizeWide, hlen, hd0, Gen.Leaf.size_isVariable]
  rw [hw] at hsz
  obtain ⟨body, henc, hblen, h16, hspec⟩ := ih hvok (hsub ms rfl) (by omega)
  refine ⟨body, ?_, ?_, ?_, ?_, ?_⟩
  · simpa [Model.encVal, Msg.val] using henc
  · simpa [hw, Msg.val, Msg.dt] using hblen
  · simp only [Msg.dt, Msg.val, hw]
    simpa [Model.valueSize16, hlen, hd0, Gen.Leaf.valueSize_isVariable] using h16
  · simpa [hw, Msg.val, Msg.dt] using hsz
  · intro rest f hf
    simp only [Msg.tag, Msg.dt, Msg.val, hw]
    rw [msgSizeWide_mk, hw] at hf
    obtain ⟨f, rfl⟩ : ∃ g, f = g + 1 := ⟨f - 1, by omega⟩
    exact specItem_enc_step f tag dt _ body rest ht hd hsz hblen _ _ hrow (by intro n hn; cases hn) _
      (.inl ⟨rfl, ms, rfl, hspec f (by omega)⟩)

theorem enc_nil : EncItems [] :=
  ⟨[], rfl, rfl, rfl, fun f hf => by
    obtain ⟨f, rfl⟩ : ∃ g, f = g + 1 := ⟨f - 1, by omega⟩
    exact specItems_nil f⟩

/-- the writer's output for one message, from its pieces -/
theorem encMsg_of_item (m : Msg) (h : EncItem m) :
    ∃ body, Model.encVal m.val = .ok body ∧ body.length = Model.valueSizeWide m.dt m.val ∧
      Model.encMsg m = .ok (leBytes 4 m.tag ++ leBytes 1 m.dt ++
        leBytes 2 (Model.valueSizeWide m.dt m.val) ++ body) ∧
      Model.msgSize16 m = .ok (Model.msgSizeWide m) ∧
      ∀ rest f, Model.msgSizeWide m ≤ f →
        Spec.specItem f (leBytes 4 m.tag ++ leBytes 1 m.dt ++
          leBytes 2 (Model.valueSizeWide m.dt m.val) ++ body ++ rest) = some (m, rest) := by
  obtain ⟨body, henc, hlen, h16, hsz, hspec⟩ := h
  obtain ⟨tag, dt, v⟩ := m
  simp only [Msg.tag, Msg.dt, Msg.val] at *
  refine ⟨body, henc, hlen, ?_, ?_, ?_⟩
  · simp [Model.encMsg, h16, henc]
  · simp [Model.msgSize16, h16, Model.msgSizeWide, Gen.C.RSCP_DATA_HEADER_SIZE]
    exact uwrap16 _ (by omega)
  · intro rest f hf
    simpa [List.append_assoc] using hspec rest f hf

theorem enc_cons (m : Msg) (ms : List Msg) (hm : EncItem m) (hms : EncItems ms)
    (hsz : Model.msgsSizeWide (m :: ms) ≤ 65535) : EncItems (m :: ms) := by
  obtain ⟨body, -, hlen, henc, h16, hspec⟩ := encMsg_of_item m hm
  obtain ⟨bytes, hencs, hblen, hs16, hspecs⟩ := hms
  have h7 : Model.msgSizeWide m = 7 + Model.valueSizeWide m.dt m.val := by
    obtain ⟨tag, dt, v⟩ := m; exact msgSizeWide_mk tag dt v
  simp only [Model.msgsSizeWide] at hsz
  refine ⟨_, by simp [Model.encMsgs, henc, hencs]; rfl, ?_, ?_, ?_⟩
  · simp [length_leBytes, hlen, hblen, Model.msgsSizeWide, h7]; omega
  · simp [Model.msgsSize16, h16, hs16, Model.msgsSizeWide]
    exact uwrap16 _ hsz
  · intro f hf
    simp only [Model.msgsSizeWide] at hf
    obtain ⟨f, rfl⟩ : ∃ g, f = g + 1 := ⟨f - 1, by omega⟩
    refine specItems_cons f _ bytes m ms ?_ (hspec bytes f (by omega)) (hspecs f (by omega))
    intro h
    have := congrArg List.length h
    simp [length_leBytes] at this

/-- Main induction: for a well-formed tree the writer succeeds without truncation, writes as many
    bytes as the wide size says, and the item grammar reads the same tree back. -/
theorem enc_all :
    (∀ m, Spec.MsgOK m → Model.validateMsg m = .ok () → EncItem m) ∧
    (∀ ms, Spec.MsgsOK ms → Model.validateMsgs ms = .ok () → Model.msgsSizeWide ms ≤ 65535 →
      EncItems ms) := by
  apply msg_induction
  · intro tag dt v hv hok hval; exact enc_leaf tag dt v hv hok hval
  · intro tag dt ms ih hok hval; exact enc_node tag dt ms ih hok hval
  · intro _ _ _; exact enc_nil
  · intro m ms ihm ihms hok hval hsz
    simp only [Spec.MsgsOK] at hok
    obtain ⟨hv1, hv2⟩ := validateMsgs_cons m ms hval
    have : Model.msgsSizeWide ms ≤ 65535 := by simp only [Model.msgsSizeWide] at hsz; omega
    exact enc_cons m ms (ihm hok.1 hv1) (ihms hok.2 hv2 this) hsz

/-! ## padding -/

theorem all_zero_replicate (k : Nat) : (List.replicate k (0 : Byte)).all (· == 0) = true := by
  simp

theorem pad_spec (d : List Byte) :
    ∃ k, Model.pad d = d ++ List.replicate k 0 ∧ (d.length + k) % 32 = 0 ∧
      (d ≠ [] → 32 ≤ d.length + k) := by
  unfold Model.pad Gen.Leaf.Write_needsPadding
  have hmod : Int.tmod (d.length : Int) 32 = ((d.length % 32 : Nat) : Int) := (Int.ofNat_tmod _ _).symm
  rw [hmod]
  by_cases h : d.length % 32 = 0
  · refine ⟨0, by simp [h], by simpa using h, ?_⟩
    intro hne
    have : 0 < d.length := List.length_pos_iff.mpr hne
    omega
  · refine ⟨32 - d.length % 32, ?_, ?_, ?_⟩
    · have : ¬ ((d.length : Int) % 32 = 0) := by omega
      simp [this, Gen.C.RSCP_CRYPT_BLOCK_SIZE]
    · omega
    · intro _; omega

theorem pad_length_mod (d : List Byte) : (Model.pad d).length % 32 = 0 := by
  obtain ⟨k, h, hm, -⟩ := pad_spec d
  simp [h, hm]

theorem pad_length_ge (d : List Byte) (hne : d ≠ []) : 32 ≤ (Model.pad d).length := by
  obtain ⟨k, h, -, hg⟩ := pad_spec d
  simpa [h] using hg hne

/-! ## the frame -/

theorem crc32_lt (bs : List Byte) : Crc.crc32 bs < 2 ^ 32 := by
  unfold Crc.crc32; exact BitVec.isLt _

theorem specDecode_build (mb cb tb lb body cs z : List Byte) (ms : List Msg) (crc : Bool)
    (hm : mb.length = 2) (hc : cb.length = 2) (ht : tb.length = 12) (hl : lb.length = 2)
    (hb : body.length = leNat lb)
    (hmagic : leNat mb = 0xDCE3) (hres : leNat cb &&& 0xE0FF = 0)
    (hver : (leNat cb >>> 8) &&& 0xF = 1)
    (hflag : ((leNat cb >>> 12) &&& 1 = 1) ↔ crc = true)
    (hcs : cs = if crc then leBytes 4 (Crc.crc32 (mb ++ (cb ++ (tb ++ (lb ++ body))))) else [])
    (hz : z.all (· == 0) = true)
    (hitems : Spec.specItems (leNat lb + 1) body = some ms) :
    Spec.specDecode (mb ++ (cb ++ (tb ++ (lb ++ (body ++ (cs ++ z)))))) = some ms := by
  have hcslen : cs.length = if crc then 4 else 0 := by
    rw [hcs]; cases crc <;> simp [length_leBytes]
  have e1 : (mb ++ (cb ++ (tb ++ (lb ++ (body ++ (cs ++ z)))))).take 2 = mb := List.take_left' hm
  have e2 : (mb ++ (cb ++ (tb ++ (lb ++ (body ++ (cs ++ z)))))).drop 2 =
      cb ++ (tb ++ (lb ++ (body ++ (cs ++ z)))) := List.drop_left' hm
  have e3 : (cb ++ (tb ++ (lb ++ (body ++ (cs ++ z))))).take 2 = cb := List.take_left' hc
  have e4 : (mb ++ (cb ++ (tb ++ (lb ++ (body ++ (cs ++ z)))))).drop 16 =
      lb ++ (body ++ (cs ++ z)) := by
    rw [← List.append_assoc, ← List.append_assoc]
    exact List.drop_left' (by simp [hm, hc, ht])
  have e5 : (lb ++ (body ++ (cs ++ z))).take 2 = lb := List.take_left' hl
  have e6 : (mb ++ (cb ++ (tb ++ (lb ++ (body ++ (cs ++ z)))))).drop Spec.frameHeaderSize =
      body ++ (cs ++ z) := by
    rw [← List.append_assoc, ← List.append_assoc, ← List.append_assoc]
    exact List.drop_left' (by simp [hm, hc, ht, hl, Spec.frameHeaderSize])
  have e7 : (body ++ (cs ++ z)).take (leNat lb) = body := List.take_left' hb
  have e8 : (mb ++ (cb ++ (tb ++ (lb ++ (body ++ (cs ++ z)))))).drop (Spec.frameHeaderSize + leNat lb) =
      cs ++ z := by
    rw [← List.append_assoc, ← List.append_assoc, ← List.append_assoc, ← List.append_assoc]
    exact List.drop_left' (by simp [hm, hc, ht, hl, hb, Spec.frameHeaderSize] <;> omega)
  have e9 : (mb ++ (cb ++ (tb ++ (lb ++ (body ++ (cs ++ z)))))).take (Spec.frameHeaderSize + leNat lb) =
      mb ++ (cb ++ (tb ++ (lb ++ body))) := by
    have : mb ++ (cb ++ (tb ++ (lb ++ (body ++ (cs ++ z))))) =
        (mb ++ (cb ++ (tb ++ (lb ++ body)))) ++ (cs ++ z) := by simp
    rw [this]
    exact List.take_left' (by simp [hm, hc, ht, hl, hb, Spec.frameHeaderSize] <;> omega)
  have e10 : (mb ++ (cb ++ (tb ++ (lb ++ (body ++ (cs ++ z)))))).drop
      (Spec.frameHeaderSize + leNat lb + cs.length) = z := by
    rw [← List.append_assoc, ← List.append_assoc, ← List.append_assoc, ← List.append_assoc,
      ← List.append_assoc]
    exact List.drop_left' (by simp [hm, hc, ht, hl, hb, Spec.frameHeaderSize] <;> omega)
  have elen : (mb ++ (cb ++ (tb ++ (lb ++ (body ++ (cs ++ z)))))).length =
      Spec.frameHeaderSize + leNat lb + cs.length + z.length := by
    simp [hm, hc, ht, hl, hb, Spec.frameHeaderSize]; omega
  unfold Spec.specDecode
  simp only [e1, e2, e3, e4, e5, e6, e7]
  rw [if_neg (by rw [elen]; simp [Spec.frameHeaderSize]; omega)]
  rw [if_neg (by simp [hmagic]), if_neg (by simp [hres]), if_neg (by simp [hver])]
  cases crc with
  | false =>
    have hf : ¬ ((leNat cb >>> 12) &&& 1 = 1) := by rw [hflag]; simp
    have hcs' : cs = [] := by simpa using hcs
    subst hcs'
    simp only [hf, if_false, Nat.add_zero]
    simp only [List.length_nil, Nat.add_zero] at elen
    rw [if_neg (by rw [elen]; omega), e8]
    simp [hz, hitems]
  | true =>
    have hf : ((leNat cb >>> 12) &&& 1 = 1) := hflag.2 rfl
    simp at hcslen hcs
    have hc4 : Spec.crcSize = 4 := rfl
    rw [hcslen, ← hc4] at e10 elen
    simp only [hf, if_true]
    rw [if_neg (by rw [elen]; omega), e10, e8, e9]
    have : (cs ++ z).take Spec.crcSize = cs := List.take_left' (by rw [hcslen, hc4])
    have hcrc : leNat cs = Crc.crc32 (mb ++ (cb ++ (tb ++ (lb ++ body)))) := by
      rw [hcs, leNat_leBytes_of_lt _ _ (crc32_lt _)]
    simp [this, hcrc, hz, hitems]

/-! ## the statements about single messages, spelled out -/

/-- the tables agree: a validated value has the kind the specification's type table lists -/
theorem validateMsg_kind (tag dt : Nat) (v : Val)
    (hval : Model.validateMsg (.mk tag dt v) = .ok ()) :
    ∃ fixed, Spec.typeRow dt = some (v.kind, fixed) :=
  ⟨_, (table_facts _ _ (validateMsg_inv tag dt v hval).1).1⟩

/-- no truncation and no panic in `valueSize` -/
theorem valueSize16_ok (tag dt : Nat) (v : Val) (hok : Spec.MsgOK (.mk tag dt v))
    (hval : Model.validateMsg (.mk tag dt v) = .ok ()) :
    Model.valueSize16 dt v = .ok (Model.valueSizeWide dt v) := by
  obtain ⟨_, _, _, h, _⟩ := enc_all.1 _ hok hval
  exact h

/-- the value writer succeeds and writes as many bytes as the wide size says -/
theorem encVal_ok (tag dt : Nat) (v : Val) (hok : Spec.MsgOK (.mk tag dt v))
    (hval : Model.validateMsg (.mk tag dt v) = .ok ()) :
    ∃ bytes, Model.encVal v = .ok bytes ∧ bytes.length = Model.valueSizeWide dt v := by
  obtain ⟨body, h1, h2, _⟩ := enc_all.1 _ hok hval
  exact ⟨body, h1, h2⟩

theorem msgsSize16_ok (ms : List Msg) (hok : Spec.MsgsOK ms)
    (hval : Model.validateMsgs ms = .ok ()) (hsz : Model.msgsSizeWide ms ≤ 65535) :
    Model.msgsSize16 ms = .ok (Model.msgsSizeWide ms) := by
  obtain ⟨_, _, _, h, _⟩ := enc_all.2 ms hok hval hsz
  exact h

theorem encMsgs_ok (ms : List Msg) (hok : Spec.MsgsOK ms)
    (hval : Model.validateMsgs ms = .ok ()) (hsz : Model.msgsSizeWide ms ≤ 65535) :
    ∃ bytes, Model.encMsgs ms = .ok bytes ∧ bytes.length = Model.msgsSizeWide ms := by
  obtain ⟨b, h1, h2, _⟩ := enc_all.2 ms hok hval hsz
  exact ⟨b, h1, h2⟩

/-- the item grammar reads a written message back, whatever follows it -/
theorem specItem_encMsg (m : Msg) (hok : Spec.MsgOK m) (hval : Model.validateMsg m = .ok ()) :
    ∃ bytes, Model.encMsg m = .ok bytes ∧ bytes.length = Model.msgSizeWide m ∧
      ∀ rest f, Model.msgSizeWide m ≤ f → Spec.specItem f (bytes ++ rest) = some (m, rest) := by
  obtain ⟨body, -, hlen, henc, -, hspec⟩ := encMsg_of_item m (enc_all.1 m hok hval)
  refine ⟨_, henc, ?_, hspec⟩
  obtain ⟨tag, dt, v⟩ := m
  simp [length_leBytes, hlen, msgSizeWide_mk, Msg.dt, Msg.val]
  omega

/-- the item grammar reads a written list back -/
theorem specItems_encMsgs (ms : List Msg) (hok : Spec.MsgsOK ms)
    (hval : Model.validateMsgs ms = .ok ()) (hsz : Model.msgsSizeWide ms ≤ 65535) :
    ∃ bytes, Model.encMsgs ms = .ok bytes ∧
      ∀ f, Model.msgsSizeWide ms + 1 ≤ f → Spec.specItems f bytes = some ms := by
  obtain ⟨b, h1, _, _, h4⟩ := enc_all.2 ms hok hval hsz
  exact ⟨b, h1, h4⟩

/-! ## the frame writer -/

theorem ctrlWord_facts (crc : Bool) :
    Model.ctrlWord crc < 256 ^ 2 ∧ Model.ctrlWord crc &&& 0xE0FF = 0 ∧
      (Model.ctrlWord crc >>> 8) &&& 0xF = 1 ∧
      (((Model.ctrlWord crc >>> 12) &&& 1 = 1) ↔ crc = true) := by
  cases crc <;> decide

/-- the frame up to the checksum, as `writeFrame` assembles it -/
def framePre (crc : Bool) (sec nsec : Int) (l : Nat) (body : List Byte) : List Byte :=
  leBytes 2 Gen.C.RSCP_MAGIC ++ leBytes 2 (Model.ctrlWord crc) ++
    leBytes 8 (toUnsigned 8 sec) ++ leBytes 4 (toUnsigned 4 nsec) ++ leBytes 2 l ++ body

theorem framePre_eq (crc : Bool) (sec nsec : Int) (l : Nat) (body : List Byte) :
    framePre crc sec nsec l body =
      leBytes 2 Gen.C.RSCP_MAGIC ++ (leBytes 2 (Model.ctrlWord crc) ++
        ((leBytes 8 (toUnsigned 8 sec) ++ leBytes 4 (toUnsigned 4 nsec)) ++ (leBytes 2 l ++ body))) := by
  simp [framePre, List.append_assoc]

/-- the whole frame -/
def frameBytes (crc : Bool) (sec nsec : Int) (l : Nat) (body : List Byte) : List Byte :=
  framePre crc sec nsec l body ++
    (if crc then leBytes 4 (Crc.crc32 (framePre crc sec nsec l body)) else [])

/-- `writeFrame` on a well-formed list: header, items, optional checksum -/
theorem writeFrame_ok (ms : List Msg) (crc : Bool) (sec nsec : Int) (h : Spec.WFList ms) :
    ∃ body, Model.encMsgs ms = .ok body ∧ body.length = Model.msgsSizeWide ms ∧
      (∀ f, Model.msgsSizeWide ms + 1 ≤ f → Spec.specItems f body = some ms) ∧
      Model.writeFrame ms crc sec nsec =
        .ok (frameBytes crc sec nsec (Model.msgsSizeWide ms) body) := by
  obtain ⟨hok, hval, hsz⟩ := h
  obtain ⟨body, henc, hlen, h16, hspec⟩ := enc_all.2 ms hok hval hsz
  refine ⟨body, henc, hlen, hspec, ?_⟩
  cases crc <;> simp [Model.writeFrame, h16, henc, framePre, frameBytes]

/-- The round trip on the plaintext: `writePlain` succeeds on a well-formed list, its output is
    block-aligned, and the frame grammar of the specification reads the list back. -/
theorem writePlain_spec (ms : List Msg) (crc : Bool) (sec nsec : Int) (h : Spec.WFList ms) :
    ∃ p, Model.writePlain ms crc sec nsec = .ok p ∧ 32 ≤ p.length ∧ p.length % 32 = 0 ∧
      Spec.specDecode p = some ms := by
  obtain ⟨body, -, hlen, hspec, hframe⟩ := writeFrame_ok ms crc sec nsec h
  have hsz : Model.msgsSizeWide ms ≤ 65535 := h.2.2
  obtain ⟨hc1, hc2, hc3, hc4⟩ := ctrlWord_facts crc
  refine ⟨Model.pad (frameBytes crc sec nsec (Model.msgsSizeWide ms) body),
    by simp only [Model.writePlain, hframe], ?_, pad_length_mod _, ?_⟩
  · apply pad_length_ge
    intro hnil
    have := congrArg List.length hnil
    simp [frameBytes, framePre, length_leBytes] at this
  · obtain ⟨k, hpad, -, -⟩ := pad_spec (frameBytes crc sec nsec (Model.msgsSizeWide ms) body)
    rw [hpad, frameBytes]
    have el : leNat (leBytes 2 (Model.msgsSizeWide ms)) = Model.msgsSizeWide ms :=
      leNat_leBytes_of_lt _ _ (by omega)
    have ec : leNat (leBytes 2 (Model.ctrlWord crc)) = Model.ctrlWord crc :=
      leNat_leBytes_of_lt _ _ hc1
    have := specDecode_build (leBytes 2 Gen.C.RSCP_MAGIC) (leBytes 2 (Model.ctrlWord crc))
      (leBytes 8 (toUnsigned 8 sec) ++ leBytes 4 (toUnsigned 4 nsec))
      (leBytes 2 (Model.msgsSizeWide ms)) body _ (List.replicate k 0) ms crc
      (length_leBytes _ _) (length_leBytes _ _) (by simp [length_leBytes]) (length_leBytes _ _)
      (by rw [el]; exact hlen) (by decide) (by rw [ec]; exact hc2) (by rw [ec]; exact hc3)
      (by rw [ec]; exact hc4) rfl (all_zero_replicate k) (by rw [el]; exact hspec _ (Nat.le_refl _))
    simp only [framePre_eq]
    simpa only [List.append_assoc] using this

end Rscp.Lemmas
