/-
Lemmas about the receive loop that also returns the decrypter state (`Model/SessionRecv.lean`): it shows the
caller what `recvLoopEnc` shows; the state it ends in is the state after decrypting exactly the ciphertext it
handed to `Read`; the frame size a written frame announces leaves less than one block of padding, so a reply is
returned only when all of its ciphertext has been decrypted. Used by `Props/C06b.lean`.
-/
import Rscp.Model.SessionRecv
import Rscp.Lemmas.ReceiveEnc
import Rscp.Lemmas.Encode
import Rscp.Props.C07b
namespace Rscp.Lemmas.SessionRecv
open Rscp Rscp.Model Rscp.Lemmas Rscp.Lemmas.Receive Rscp.Lemmas.ReceiveEnc Rscp.Lemmas.Crypt Rscp.Lemmas.Decode

/-! ## the state-returning loop, one step unfolded -/

theorem recvLoopEncSt_nil (c : BlockCipher) (iv : List Byte) (st : RState) (pending fed : List Byte) :
    recvLoopEncSt c iv st pending fed [] = ({ result := .err .io, disconnected := true, fed := fed }, iv) := rfl

theorem recvLoopEncSt_cons (c : BlockCipher) (iv : List Byte) (st : RState) (pending fed piece : List Byte)
    (rest : List (List Byte)) :
    recvLoopEncSt c iv st pending fed (piece :: rest) =
    if piece.isEmpty then ({ result := .err .invalidFrameLength, disconnected := true, fed := fed }, iv) else
    let pend := pending ++ piece
    let n := pend.length - pend.length % Gen.C.RSCP_CRYPT_BLOCK_SIZE
    if n = 0 then recvLoopEncSt c iv st pend fed rest else
    let (plain, iv') := decryptBlocks c iv (pend.take n)
    let (st', r) := readPlain st plain
    let fed' := fed ++ plain
    match r with
    | .err .invalidFrameLength => recvLoopEncSt c iv' st' (pend.drop n) fed' rest
    | .err e => ({ result := .err e, disconnected := true, fed := fed' }, iv')
    | .panic => ({ result := .panic, disconnected := false, fed := fed' }, iv')
    | .ok [] => recvLoopEncSt c iv' st' (pend.drop n) fed' rest
    | .ok (m :: ms) => ({ result := .ok (m :: ms), disconnected := false, fed := fed' }, iv') := by
  rfl

theorem recvLoopEncSt_empty (c : BlockCipher) (iv : List Byte) (st : RState) (pending fed : List Byte)
    (rest : List (List Byte)) :
    recvLoopEncSt c iv st pending fed ([] :: rest) =
      ({ result := .err .invalidFrameLength, disconnected := true, fed := fed }, iv) := rfl

theorem recvLoopEnc_empty (c : BlockCipher) (iv : List Byte) (st : RState) (pending fed : List Byte)
    (rest : List (List Byte)) :
    recvLoopEnc c iv st pending fed ([] :: rest) =
      { result := .err .invalidFrameLength, disconnected := true, fed := fed } := rfl

theorem recvLoopEncSt_short (c : BlockCipher) (iv : List Byte) (st : RState) (pending fed piece : List Byte)
    (rest : List (List Byte)) (hp : piece ≠ []) (hn : (pending ++ piece).length < 32) :
    recvLoopEncSt c iv st pending fed (piece :: rest) = recvLoopEncSt c iv st (pending ++ piece) fed rest := by
  rw [recvLoopEncSt_cons]
  have he : piece.isEmpty = false := by cases piece <;> simp at hp ⊢
  have h0 : (pending ++ piece).length - (pending ++ piece).length % Gen.C.RSCP_CRYPT_BLOCK_SIZE = 0 := by
    show (pending ++ piece).length - (pending ++ piece).length % 32 = 0
    omega
  simp only [he, Bool.false_eq_true, if_false, h0, if_true]

theorem recvLoopEncSt_call (c : BlockCipher) (iv : List Byte) (st : RState) (pending fed piece : List Byte)
    (rest : List (List Byte)) (hp : piece ≠ []) (hn : 32 ≤ (pending ++ piece).length) :
    recvLoopEncSt c iv st pending fed (piece :: rest) =
      if cont (readPlain st (decryptBlocks c iv ((pending ++ piece).take (whole (pending ++ piece)))).1).2 then
        recvLoopEncSt c (decryptBlocks c iv ((pending ++ piece).take (whole (pending ++ piece)))).2
          (readPlain st (decryptBlocks c iv ((pending ++ piece).take (whole (pending ++ piece)))).1).1
          ((pending ++ piece).drop (whole (pending ++ piece)))
          (fed ++ (decryptBlocks c iv ((pending ++ piece).take (whole (pending ++ piece)))).1) rest
      else
        ({ result := (readPlain st (decryptBlocks c iv ((pending ++ piece).take (whole (pending ++ piece)))).1).2
           disconnected :=
             disc (readPlain st (decryptBlocks c iv ((pending ++ piece).take (whole (pending ++ piece)))).1).2
           fed := fed ++ (decryptBlocks c iv ((pending ++ piece).take (whole (pending ++ piece)))).1 },
         (decryptBlocks c iv ((pending ++ piece).take (whole (pending ++ piece)))).2) := by
  rw [recvLoopEncSt_cons]
  have he : piece.isEmpty = false := by cases piece <;> simp at hp ⊢
  have hw : (pending ++ piece).length - (pending ++ piece).length % Gen.C.RSCP_CRYPT_BLOCK_SIZE
      = whole (pending ++ piece) := rfl
  have h0 : whole (pending ++ piece) ≠ 0 := by unfold whole; omega
  simp only [he, Bool.false_eq_true, if_false, hw, h0]
  generalize decryptBlocks c iv ((pending ++ piece).take (whole (pending ++ piece))) = d
  obtain ⟨plain, iv'⟩ := d
  simp only
  generalize readPlain st plain = q
  obtain ⟨st', r⟩ := q
  cases r with
  | ok l => cases l <;> simp [cont, disc]
  | err e => cases e <;> simp [cont, disc]
  | panic => simp [cont, disc]

/-! ## what the caller sees -/

theorem recvLoopEncSt_fst (c : BlockCipher) :
    ∀ (pieces : List (List Byte)) (iv : List Byte) (st : RState) (pending fed : List Byte),
      (recvLoopEncSt c iv st pending fed pieces).1 = recvLoopEnc c iv st pending fed pieces
  | [], _, _, _, _ => rfl
  | piece :: rest, iv, st, pending, fed => by
    by_cases hpe : piece = []
    · subst hpe; rfl
    · by_cases hshort : (pending ++ piece).length < 32
      · rw [recvLoopEncSt_short c iv st pending fed piece rest hpe hshort,
          recvLoopEnc_short c iv st pending fed piece rest hpe hshort]
        exact recvLoopEncSt_fst c rest iv st _ fed
      · have hlong : 32 ≤ (pending ++ piece).length := Nat.le_of_not_lt hshort
        rw [recvLoopEncSt_call c iv st pending fed piece rest hpe hlong,
          recvLoopEnc_call c iv st pending fed piece rest hpe hlong]
        split
        · exact recvLoopEncSt_fst c rest _ _ _ _
        · rfl

/-! ## the state the decrypter is left in -/

theorem decryptBlocks_nil (c : BlockCipher) (iv : List Byte) : decryptBlocks c iv [] = ([], iv) := rfl

/-- The call ends with the decrypter in the state reached by decrypting the first `n` bytes (whole blocks) of
    the ciphertext that was still to come; the plaintext of exactly these bytes is what was handed to `Read`. -/
theorem recvLoopEncSt_state (c : BlockCipher) :
    ∀ (pieces : List (List Byte)) (iv : List Byte) (st : RState) (pending fed : List Byte),
      ∃ n, n % 32 = 0 ∧ n ≤ (pending ++ pieces.flatten).length ∧
        (recvLoopEncSt c iv st pending fed pieces).2 =
          (decryptBlocks c iv ((pending ++ pieces.flatten).take n)).2 ∧
        (recvLoopEncSt c iv st pending fed pieces).1.fed =
          fed ++ (decryptBlocks c iv ((pending ++ pieces.flatten).take n)).1
  | [], iv, st, pending, fed => by
    refine ⟨0, rfl, Nat.zero_le _, ?_, ?_⟩
    · rw [List.take_zero, decryptBlocks_nil]; rfl
    · rw [List.take_zero, decryptBlocks_nil, List.append_nil]; rfl
  | piece :: rest, iv, st, pending, fed => by
    have hR : pending ++ (piece :: rest).flatten = (pending ++ piece) ++ rest.flatten := by
      rw [List.flatten_cons, List.append_assoc]
    rw [hR]
    by_cases hpe : piece = []
    · subst hpe
      refine ⟨0, rfl, Nat.zero_le _, ?_, ?_⟩
      · rw [List.take_zero, decryptBlocks_nil]; rfl
      · rw [List.take_zero, decryptBlocks_nil, List.append_nil]; rfl
    · by_cases hshort : (pending ++ piece).length < 32
      · rw [recvLoopEncSt_short c iv st pending fed piece rest hpe hshort]
        exact recvLoopEncSt_state c rest iv st (pending ++ piece) fed
      · have hlong : 32 ≤ (pending ++ piece).length := Nat.le_of_not_lt hshort
        rw [recvLoopEncSt_call c iv st pending fed piece rest hpe hlong]
        generalize pending ++ piece = pend at *
        have hwl := whole_le pend
        have hwm := whole_mod pend
        have htw : (pend ++ rest.flatten).take (whole pend) = pend.take (whole pend) :=
          List.take_append_of_le_length hwl
        split
        · obtain ⟨n, hn1, hn2, hn3, hn4⟩ := recvLoopEncSt_state c rest
            (decryptBlocks c iv (pend.take (whole pend))).2
            (readPlain st (decryptBlocks c iv (pend.take (whole pend))).1).1
            (pend.drop (whole pend)) (fed ++ (decryptBlocks c iv (pend.take (whole pend))).1)
          have hlen : (pend.drop (whole pend) ++ rest.flatten).length
              = (pend ++ rest.flatten).length - whole pend := by
            rw [List.length_append, List.length_append, List.length_drop]; omega
          have hle : whole pend ≤ (pend ++ rest.flatten).length := by
            rw [List.length_append]; omega
          have htake : (pend ++ rest.flatten).take (whole pend + n) =
              pend.take (whole pend) ++ (pend.drop (whole pend) ++ rest.flatten).take n := by
            rw [List.take_add, htw, List.drop_append_of_le_length hwl]
          have l1 : (pend.take (whole pend)).length % 32 = 0 := by rw [length_take_whole]; exact hwm
          have l2 : ((pend.drop (whole pend) ++ rest.flatten).take n).length % 32 = 0 := by
            rw [List.length_take, Nat.min_eq_left hn2]; exact hn1
          refine ⟨whole pend + n, by omega, by omega, ?_, ?_⟩
          · rw [hn3, htake, decryptBlocks_append c iv _ _ l1 l2]
          · rw [hn4, htake, decryptBlocks_append c iv _ _ l1 l2, List.append_assoc]
        · refine ⟨whole pend, hwm, by rw [List.length_append]; omega, ?_, ?_⟩
          · rw [htw]
          · rw [htw]

/-! ## a reply is returned only when the frame is covered -/

theorem frameResult_ok_le {cf : Bool} {fs ds : Nat} {q : List Byte} {l : List Msg}
    (h : frameResult cf fs ds q = .ok l) : fs ≤ q.length := by
  unfold frameResult at h
  by_cases hlt : q.length < fs
  · rw [if_pos hlt] at h; cases h
  · exact Nat.le_of_not_lt hlt

/-- once the header has been read: if the plaintext loop returns messages, what it handed to `Read` covers
    the frame size the header announced -/
theorem running_ok_covers (cf : Bool) (fs ds : Nat) (m : Msg) (ms : List Msg) :
    ∀ (rest : List (List Byte)) (st : RState) (pending fed : List Byte), (∀ p ∈ rest, p ≠ []) →
      ChunkInv cf fs ds st fed → (recvLoop st pending fed rest).result = .ok (m :: ms) →
      fs ≤ (recvLoop st pending fed rest).fed.length
  | [], st, pending, fed, _, _, h => by
    rw [recvLoop_nil] at h; cases h
  | piece :: rest, st, pending, fed, hne, hinv, h => by
    have hpn : piece ≠ [] := hne piece (List.mem_cons_self ..)
    have hne' : ∀ p ∈ rest, p ≠ [] := fun p h => hne p (List.mem_cons_of_mem _ h)
    by_cases hlen : (pending ++ piece).length < 32
    · rw [recvLoop_short st pending fed piece rest hpn hlen] at h ⊢
      exact running_ok_covers cf fs ds m ms rest st _ fed hne' hinv h
    · have hlen' : 32 ≤ (pending ++ piece).length := Nat.le_of_not_lt hlen
      rw [recvLoop_call st pending fed piece rest hpn hlen'] at h ⊢
      generalize pending ++ piece = pend at *
      have hgb := goodChunk_whole pend hlen'
      obtain ⟨r1, r2⟩ := chunkInv_step (pend.take (whole pend)) hinv hgb
      by_cases hc : cont (readPlain st (pend.take (whole pend))).2 = true
      · rw [if_pos hc] at h ⊢
        exact running_ok_covers cf fs ds m ms rest _ _ _ hne' r2 h
      · rw [if_neg hc] at h ⊢
        obtain ⟨_, _, _, hg, hh, _⟩ := id r2
        have h' : (readPlain st (pend.take (whole pend))).2 = .ok (m :: ms) := h
        rw [r1, decodeFrame_eq_frameResult hg hh] at h'
        exact frameResult_ok_le h'

/-- from a fresh `Read` state: if the plaintext loop returns messages, what it handed to `Read` covers the
    frame size the first block of the stream announces -/
theorem start_ok_covers (S : List Byte) (cf : Bool) (fs ds : Nat)
    (hhdr : readHeader (S.take 32) = .ok (cf, fs, ds)) (m : Msg) (ms : List Msg) :
    ∀ (rest : List (List Byte)) (pending : List Byte), (∀ p ∈ rest, p ≠ []) →
      S = pending ++ rest.flatten →
      (recvLoop ({} : RState) pending [] rest).result = .ok (m :: ms) →
      fs ≤ (recvLoop ({} : RState) pending [] rest).fed.length
  | [], pending, _, _, h => by
    rw [recvLoop_nil] at h; cases h
  | piece :: rest, pending, hne, hS, h => by
    have hpn : piece ≠ [] := hne piece (List.mem_cons_self ..)
    have hne' : ∀ p ∈ rest, p ≠ [] := fun p h => hne p (List.mem_cons_of_mem _ h)
    rw [List.flatten_cons, ← List.append_assoc pending] at hS
    by_cases hlen : (pending ++ piece).length < 32
    · rw [recvLoop_short _ pending [] piece rest hpn hlen] at h ⊢
      exact start_ok_covers S cf fs ds hhdr m ms rest _ hne' hS h
    · have hlen' : 32 ≤ (pending ++ piece).length := Nat.le_of_not_lt hlen
      rw [recvLoop_call _ pending [] piece rest hpn hlen'] at h ⊢
      generalize pending ++ piece = pend at *
      have hgb := goodChunk_whole pend hlen'
      have hwl := length_take_whole pend
      have hwg := whole_ge pend hlen'
      have hS' : S = pend.take (whole pend) ++ (pend.drop (whole pend) ++ rest.flatten) := by
        rw [hS, ← List.append_assoc, List.take_append_drop]
      have hhead : readHeader (S.take 32) = readHeader (pend.take (whole pend)) := by
        rw [hS', List.take_append_of_le_length (by omega), readHeader_take32 _ (by omega)]
      have hh : readHeader (pend.take (whole pend)) = .ok (cf, fs, ds) := hhead ▸ hhdr
      have hinv := chunkInv_first hgb hh
      rw [List.nil_append] at h ⊢
      by_cases hc : cont (readPlain ({} : RState) (pend.take (whole pend))).2 = true
      · rw [if_pos hc] at h ⊢
        exact running_ok_covers cf fs ds m ms rest _ _ _ hne' hinv h
      · rw [if_neg hc] at h ⊢
        have h' : decodeFrame (pend.take (whole pend)) = .ok (m :: ms) := h
        rw [decodeFrame_eq_frameResult hgb hh] at h'
        exact frameResult_ok_le h'

/-- `receive()` on a plaintext stream: a reply is returned only after the whole announced frame was fed -/
theorem receiveBytes_ok_covers (b : Nat) (hb : 0 < b ∧ b ≤ 2049) (segs : List (List Byte)) (cf : Bool) (fs ds : Nat)
    (hhdr : readHeader (segs.flatten.take 32) = .ok (cf, fs, ds)) (m : Msg) (ms : List Msg)
    (h : (receiveBytes b segs).result = .ok (m :: ms)) : fs ≤ (receiveBytes b segs).fed.length := by
  obtain ⟨h1, h2⟩ := reads_spec _ (cap_pos b hb) segs
  unfold receiveBytes at h ⊢
  exact start_ok_covers _ cf fs ds hhdr m ms _ [] h2 (by rw [h1]; rfl) h

/-! ## a written frame has less than one block of padding -/

theorem pad_length_lt (d : List Byte) : (Model.pad d).length < d.length + 32 := by
  unfold Model.pad Gen.Leaf.Write_needsPadding
  have hmod : Int.tmod (d.length : Int) 32 = ((d.length % 32 : Nat) : Int) := (Int.ofNat_tmod _ _).symm
  rw [hmod]
  by_cases h : d.length % 32 = 0
  · simp [h]
  · have : ¬ ((d.length : Int) % 32 = 0) := by omega
    simp [this, Gen.C.RSCP_CRYPT_BLOCK_SIZE]
    omega

theorem header_fields (a b t d rest : List Byte) (ha : a.length = 2) (hb : b.length = 2)
    (ht : t.length = 12) (hd : d.length = 2) :
    (a ++ (b ++ (t ++ (d ++ rest)))).take 2 = a ∧
    ((a ++ (b ++ (t ++ (d ++ rest)))).drop 2).take 2 = b ∧
    ((a ++ (b ++ (t ++ (d ++ rest)))).drop 16).take 2 = d := by
  refine ⟨?_, ?_, ?_⟩
  · rw [List.take_left' ha]
  · rw [List.drop_left' ha, List.take_left' hb]
  · rw [← List.append_assoc, ← List.append_assoc,
      List.drop_left' (by rw [List.length_append, List.length_append, ha, hb, ht]), List.take_left' hd]

/-- the header of a written frame announces a frame size that ends in the last block of the plaintext -/
theorem writePlain_tight (ms : List Msg) (crc : Bool) (sec nsec : Int) (h : Spec.WFList ms) (p : List Byte)
    (hp : writePlain ms crc sec nsec = .ok p) :
    ∃ cf fs ds, readHeader (p.take 32) = .ok (cf, fs, ds) ∧ p.length < fs + 32 := by
  obtain ⟨body, -, hlen, -, hframe⟩ := writeFrame_ok ms crc sec nsec h
  have hsz : Model.msgsSizeWide ms ≤ 65535 := h.2.2
  obtain ⟨hc1, hc2, hc3, hc4⟩ := ctrlWord_facts crc
  have hpe : p = Model.pad (frameBytes crc sec nsec (Model.msgsSizeWide ms) body) := by
    simp only [Model.writePlain, hframe] at hp
    injection hp with hp
    exact hp.symm
  have hlt := pad_length_lt (frameBytes crc sec nsec (Model.msgsSizeWide ms) body)
  obtain ⟨k, hpad, -, hge⟩ := pad_spec (frameBytes crc sec nsec (Model.msgsSizeWide ms) body)
  have hdl : (frameBytes crc sec nsec (Model.msgsSizeWide ms) body).length =
      18 + Model.msgsSizeWide ms + (if crc = true then 4 else 0) := by
    cases crc <;> simp [frameBytes, framePre, length_leBytes, hlen] <;> omega
  rw [← hpe] at hlt hpad
  have h32 : 32 ≤ p.length := by
    have := congrArg List.length hpad
    rw [List.length_append, List.length_replicate] at this
    rw [this]
    apply hge
    intro h0
    rw [h0, List.length_nil] at hdl
    omega
  obtain ⟨rest, hlay⟩ : ∃ rest, p = leBytes 2 Gen.C.RSCP_MAGIC ++ (leBytes 2 (Model.ctrlWord crc) ++
      ((leBytes 8 (toUnsigned 8 sec) ++ leBytes 4 (toUnsigned 4 nsec)) ++
        (leBytes 2 (Model.msgsSizeWide ms) ++ rest))) := by
    rw [hpad, frameBytes, framePre_eq]
    simp only [List.append_assoc]
    exact ⟨_, rfl⟩
  obtain ⟨f1, f2, f3⟩ := header_fields (leBytes 2 Gen.C.RSCP_MAGIC) (leBytes 2 (Model.ctrlWord crc))
    (leBytes 8 (toUnsigned 8 sec) ++ leBytes 4 (toUnsigned 4 nsec)) (leBytes 2 (Model.msgsSizeWide ms)) rest
    (length_leBytes _ _) (length_leBytes _ _) (by rw [List.length_append, length_leBytes, length_leBytes])
    (length_leBytes _ _)
  rw [← hlay] at f1 f2 f3
  have el : leNat (leBytes 2 (Model.msgsSizeWide ms)) = Model.msgsSizeWide ms :=
    leNat_leBytes_of_lt _ _ (by omega)
  have ec : leNat (leBytes 2 (Model.ctrlWord crc)) = Model.ctrlWord crc :=
    leNat_leBytes_of_lt _ _ hc1
  have em : leNat (leBytes 2 Gen.C.RSCP_MAGIC) = 0xDCE3 := by decide
  have hhdr := readHeader_eq p (by omega)
  rw [f1, f2, f3, em, ec, el, if_neg (by intro h; exact h rfl), if_neg (by intro h; exact h hc2),
    if_neg (by intro h; exact h hc3)] at hhdr
  refine ⟨_, _, _, (readHeader_take32 p h32).trans hhdr, ?_⟩
  rw [hdl] at hlt
  cases crc with
  | false =>
    have : ¬ ((Model.ctrlWord false >>> 12) &&& 1 = 1) := fun h => by cases hc4.mp h
    rw [if_neg this]
    simpa using hlt
  | true =>
    rw [if_pos (hc4.mpr rfl)]
    simpa using hlt

/-! ## one reply of a peer that follows the scheme -/

theorem receiveEncSt_fst' (c : BlockCipher) (iv : List Byte) (b : Nat) (segs : List (List Byte)) :
    (receiveEncSt c iv b segs).1 = receiveBytesEnc c iv b segs := by
  unfold receiveEncSt receiveBytesEnc
  exact recvLoopEncSt_fst c _ iv _ _ _

/-- decrypting, from the state the encrypter started from, all the ciphertext of a block-aligned plaintext:
    the plaintext, and the state the encrypter ended in -/
theorem decryptBlocks_cbcEnc (c : BlockCipher) (hok : c.OK) (iv : List Byte) (hiv : iv.length = 32) (p : List Byte)
    (hp : p.length % 32 = 0) :
    decryptBlocks c iv (cbcEnc c iv (toBlocks p)).1.flatten = (p, (cbcEnc c iv (toBlocks p)).2) ∧
    (cbcEnc c iv (toBlocks p)).2.length = 32 := by
  obtain ⟨pf, pl⟩ := toBlocks_spec p hp
  have hX := cbcEnc_blocks c hok (toBlocks p) iv hiv pl
  have hrt := cbc_roundtrip c hok iv hiv (toBlocks p) pl
  refine ⟨?_, hrt.2⟩
  generalize hXe : (cbcEnc c iv (toBlocks p)).1 = X at hX
  have hmod : X.flatten.length % 32 = 0 := by
    clear hXe
    induction X with
    | nil => rfl
    | cons x xs ih =>
      have h1 := hX x (List.mem_cons_self ..)
      have h2 := ih (fun z hz => hX z (List.mem_cons_of_mem _ hz))
      rw [List.flatten_cons, List.length_append]; omega
  obtain ⟨xf, xl⟩ := toBlocks_spec X.flatten hmod
  have htb : toBlocks X.flatten = X := blocks_unique _ _ xl hX xf
  rw [decryptBlocks_eq, htb, ← hXe, hrt.1, pf]

/-- One call of `receive()` against a peer that follows the scheme: the reply is returned, the client stays
    connected, and the decrypter is left in the state the peer's encrypter is in after the frame. -/
theorem receiveEncSt_reply (c : BlockCipher) (hok : c.OK) (hc : Props.C07.BlockSized c) (iv : List Byte)
    (hiv : iv.length = 32) (b : Nat) (hb : 0 < b ∧ b ≤ 2049) (m : Msg) (ms : List Msg) (crc : Bool) (sec nsec : Int)
    (hwf : Spec.WFList (m :: ms)) (hs : -(2^63 : Int) ≤ sec ∧ sec < (2^63 : Int)) (hn : 0 ≤ nsec ∧ nsec < 1000000000)
    (p : List Byte) (hp : writePlain (m :: ms) crc sec nsec = .ok p)
    (segs : List (List Byte)) (hne : ∀ s ∈ segs, s ≠ [])
    (hsegs : segs.flatten = (cbcEnc c iv (toBlocks p)).1.flatten) :
    (receiveEncSt c iv b segs).1.result = .ok (m :: ms) ∧ (receiveEncSt c iv b segs).1.disconnected = false ∧
    (receiveEncSt c iv b segs).2 = (cbcEnc c iv (toBlocks p)).2 ∧ (cbcEnc c iv (toBlocks p)).2.length = 32 := by
  obtain ⟨hres, hdis⟩ := Props.C07.encrypted_reply_returned c hok hc iv hiv b hb m ms crc sec nsec hwf hs hn p hp
    segs hne hsegs
  obtain ⟨p', hp', hmod, -⟩ := Props.C01.roundtrip_plain (m :: ms) crc sec nsec hwf hs hn
  rw [hp] at hp'
  cases hp'
  obtain ⟨cf, fs, ds, hhdr, htight⟩ := writePlain_tight (m :: ms) crc sec nsec hwf p hp
  obtain ⟨hdec, hst⟩ := decryptBlocks_cbcEnc c hok iv hiv p hmod
  have hplain : plainOf c iv segs.flatten = p := by
    rw [hsegs]; exact plainOf_cbcEnc c hok iv hiv p hmod
  have hl : p.length = segs.flatten.length := by
    rw [← hplain]; exact plainOf_length c hc iv hiv segs.flatten
  have hflat : (cutLike segs p).flatten = p := cutLike_flatten segs p hl
  have hfst := receiveEncSt_fst' c iv b segs
  refine ⟨by rw [hfst]; exact hres, by rw [hfst]; exact hdis, ?_, hst⟩
  -- what was handed to `Read` covers the frame
  have hcov : fs ≤ (receiveEncSt c iv b segs).1.fed.length := by
    rw [hfst, receiveBytesEnc_eq c hc iv hiv b segs, hplain]
    apply receiveBytes_ok_covers b hb (cutLike segs p) cf fs ds (by rw [hflat]; exact hhdr) m ms
    rw [← hplain, ← receiveBytesEnc_eq c hc iv hiv b segs]
    exact hres
  -- the state is that after decrypting the first `n` bytes of the ciphertext, and `n` bytes were handed to `Read`
  obtain ⟨h1, -⟩ := reads_spec _ (cap_pos b hb) segs
  obtain ⟨n, hn1, hn2, hn3, hn4⟩ := recvLoopEncSt_state c
    (reads (uwrap 32 (Gen.C.RSCP_CRYPT_BLOCK_SIZE * b)) segs) iv ({} : RState) [] []
  rw [List.nil_append, h1] at hn2 hn3 hn4
  rw [List.nil_append] at hn4
  have hn3' : (receiveEncSt c iv b segs).2 = (decryptBlocks c iv (segs.flatten.take n)).2 := hn3
  have hn4' : (receiveEncSt c iv b segs).1.fed = (decryptBlocks c iv (segs.flatten.take n)).1 := hn4
  have hdl := decryptBlocks_length c hc iv hiv (segs.flatten.take n) (by
    rw [List.length_take, Nat.min_eq_left hn2]; exact hn1)
  rw [List.length_take, Nat.min_eq_left hn2] at hdl
  rw [hn4', hdl.1] at hcov
  have hnn : n = segs.flatten.length := by omega
  rw [hn3', hnn, List.take_length, hsegs, hdec]

end Rscp.Lemmas.SessionRecv
