/-
Lemmas relating the ciphertext receive loop (`Model/ReceiveEnc.lean`) to the plaintext loop
(`Model/Receive.lean`): lengths under CBC decryption, block-aligned chunking on byte strings, cutting a
stream like another one, and the loop invariant. Used by `Props/C07b.lean`.
-/
import Rscp.Model.ReceiveEnc
import Rscp.Lemmas.Receive
import Rscp.Lemmas.Crypt
namespace Rscp.Lemmas.ReceiveEnc
open Rscp Rscp.Model Rscp.Lemmas.Receive Rscp.Lemmas.Crypt

/-! ## blocks -/

/-- a block-aligned byte string is cut into 32-byte blocks in exactly one way -/
theorem blocks_unique : ∀ (xs ys : List (List Byte)), (∀ x ∈ xs, x.length = 32) → (∀ y ∈ ys, y.length = 32) →
    xs.flatten = ys.flatten → xs = ys
  | [], [], _, _, _ => rfl
  | [], y :: ys, _, hy, h => by
    have h1 := congrArg List.length h
    have h2 := hy y (List.mem_cons_self ..)
    rw [List.flatten_nil, List.flatten_cons, List.length_append, List.length_nil] at h1
    omega
  | x :: xs, [], hx, _, h => by
    have h1 := congrArg List.length h
    have h2 := hx x (List.mem_cons_self ..)
    rw [List.flatten_nil, List.flatten_cons, List.length_append, List.length_nil] at h1
    omega
  | x :: xs, y :: ys, hx, hy, h => by
    have h2 := hx x (List.mem_cons_self ..)
    have h3 := hy y (List.mem_cons_self ..)
    rw [List.flatten_cons, List.flatten_cons] at h
    obtain ⟨e1, e2⟩ := List.append_inj h (by omega)
    rw [e1, blocks_unique xs ys (fun z hz => hx z (List.mem_cons_of_mem _ hz))
      (fun z hz => hy z (List.mem_cons_of_mem _ hz)) e2]

theorem toBlocks_append (a b : List Byte) (ha : a.length % 32 = 0) (hb : b.length % 32 = 0) :
    toBlocks (a ++ b) = toBlocks a ++ toBlocks b := by
  have hab : (a ++ b).length % 32 = 0 := by rw [List.length_append]; omega
  obtain ⟨f1, l1⟩ := toBlocks_spec a ha
  obtain ⟨f2, l2⟩ := toBlocks_spec b hb
  obtain ⟨f3, l3⟩ := toBlocks_spec (a ++ b) hab
  apply blocks_unique _ _ l3
  · intro y hy
    rcases List.mem_append.mp hy with hy | hy
    · exact l1 y hy
    · exact l2 y hy
  · rw [f3, List.flatten_append, f1, f2]

/-! ## lengths under CBC decryption -/

theorem cbcDec_length (c : BlockCipher) (hc : ∀ x : List Byte, x.length = 32 → (c.D x).length = 32) :
    ∀ (xs : List (List Byte)) (iv : List Byte), iv.length = 32 → (∀ x ∈ xs, x.length = 32) →
      (cbcDec c iv xs).1.flatten.length = xs.flatten.length ∧ (cbcDec c iv xs).2.length = 32
  | [], iv, hiv, _ => ⟨rfl, hiv⟩
  | x :: xs, iv, hiv, hx => by
    have h1 := hx x (List.mem_cons_self ..)
    have ih := cbcDec_length c hc xs x h1 (fun z hz => hx z (List.mem_cons_of_mem _ hz))
    have e : cbcDec c iv (x :: xs) = (xorBlock (c.D x) iv :: (cbcDec c x xs).1, (cbcDec c x xs).2) := rfl
    rw [e]
    refine ⟨?_, ih.2⟩
    show (xorBlock (c.D x) iv :: (cbcDec c x xs).1).flatten.length = (x :: xs).flatten.length
    rw [List.flatten_cons, List.flatten_cons, List.length_append, List.length_append, ih.1,
      xorBlock_length _ _ (by rw [hc x h1, hiv]), hc x h1, h1]

theorem decryptBlocks_eq (c : BlockCipher) (iv ct : List Byte) :
    decryptBlocks c iv ct = ((cbcDec c iv (toBlocks ct)).1.flatten, (cbcDec c iv (toBlocks ct)).2) := rfl

theorem decryptBlocks_length (c : BlockCipher) (hc : ∀ x : List Byte, x.length = 32 → (c.D x).length = 32)
    (iv : List Byte) (hiv : iv.length = 32) (ct : List Byte) (hct : ct.length % 32 = 0) :
    (decryptBlocks c iv ct).1.length = ct.length ∧ (decryptBlocks c iv ct).2.length = 32 := by
  obtain ⟨f, l⟩ := toBlocks_spec ct hct
  have h := cbcDec_length c hc (toBlocks ct) iv hiv l
  rw [decryptBlocks_eq]
  refine ⟨?_, h.2⟩
  show (cbcDec c iv (toBlocks ct)).1.flatten.length = ct.length
  rw [h.1, f]

/-- C06 `cbc_chunking` on byte strings -/
theorem decryptBlocks_append (c : BlockCipher) (iv a b : List Byte) (ha : a.length % 32 = 0)
    (hb : b.length % 32 = 0) :
    decryptBlocks c iv (a ++ b) =
      ((decryptBlocks c iv a).1 ++ (decryptBlocks c (decryptBlocks c iv a).2 b).1,
       (decryptBlocks c (decryptBlocks c iv a).2 b).2) := by
  rw [decryptBlocks_eq, toBlocks_append a b ha hb, cbcDec_append, List.flatten_append]
  rfl

/-! ## `plainOf` -/

theorem plainOf_eq (c : BlockCipher) (iv C : List Byte) :
    plainOf c iv C = (decryptBlocks c iv (C.take (whole C))).1 ++ C.drop (whole C) := rfl

theorem plainOf_length (c : BlockCipher) (hc : ∀ x : List Byte, x.length = 32 → (c.D x).length = 32)
    (iv : List Byte) (hiv : iv.length = 32) (C : List Byte) : (plainOf c iv C).length = C.length := by
  have h := decryptBlocks_length c hc iv hiv (C.take (whole C)) (by rw [length_take_whole]; exact whole_mod C)
  rw [plainOf_eq, List.length_append, h.1, length_take_whole, List.length_drop]
  have := whole_le C
  omega

/-- decrypting the first `n` bytes (whole blocks) and then the rest from the state reached is decrypting all -/
theorem plainOf_split (c : BlockCipher) (iv C : List Byte) (n : Nat) (hn : n % 32 = 0) (hle : n ≤ C.length) :
    plainOf c iv C =
      (decryptBlocks c iv (C.take n)).1 ++ plainOf c (decryptBlocks c iv (C.take n)).2 (C.drop n) := by
  have hw : whole (C.drop n) = whole C - n := by
    unfold whole; rw [List.length_drop]; omega
  have hwn : n ≤ whole C := by unfold whole; omega
  have hwl := whole_le C
  have e1 : C.take (whole C) = C.take n ++ (C.drop n).take (whole C - n) := by
    have : whole C = n + (whole C - n) := by omega
    rw [this, List.take_add]
    congr 2
    omega
  have e2 : C.drop (whole C) = (C.drop n).drop (whole C - n) := by
    rw [List.drop_drop]; congr 1; omega
  have l1 : (C.take n).length % 32 = 0 := by rw [List.length_take, Nat.min_eq_left hle]; exact hn
  have l2 : ((C.drop n).take (whole C - n)).length % 32 = 0 := by
    rw [List.length_take, List.length_drop, Nat.min_eq_left (by omega)]
    have := whole_mod C
    omega
  rw [plainOf_eq, plainOf_eq, hw, e1, decryptBlocks_append c iv _ _ l1 l2, e2]
  exact List.append_assoc ..

/-! ## cutting a stream like another one -/

theorem cutLike_append : ∀ (a b : List (List Byte)) (P : List Byte),
    cutLike (a ++ b) P = cutLike a P ++ cutLike b (P.drop a.flatten.length)
  | [], b, P => by simp [cutLike]
  | s :: a, b, P => by
    rw [List.cons_append, cutLike, cutLike, cutLike_append a b, List.flatten_cons, List.length_append,
      List.drop_drop, List.cons_append]

theorem cutLike_flatten : ∀ (segs : List (List Byte)) (P : List Byte), P.length = segs.flatten.length →
    (cutLike segs P).flatten = P
  | [], P, h => by
    have : P = [] := List.eq_nil_of_length_eq_zero (by simpa using h)
    rw [this]; rfl
  | s :: r, P, h => by
    rw [cutLike, List.flatten_cons, cutLike_flatten r (P.drop s.length) (by
      rw [List.length_drop, h, List.flatten_cons, List.length_append]; omega), List.take_append_drop]

theorem cutLike_ne : ∀ (segs : List (List Byte)) (P : List Byte), P.length = segs.flatten.length →
    (∀ s ∈ segs, s ≠ []) → ∀ s ∈ cutLike segs P, s ≠ []
  | [], P, _, _ => by intro s hs; cases hs
  | t :: r, P, h, hne => by
    intro s hs
    rw [cutLike] at hs
    rw [List.flatten_cons, List.length_append] at h
    rcases List.mem_cons.mp hs with rfl | hs
    · have ht : t ≠ [] := hne t (List.mem_cons_self ..)
      have : 0 < t.length := List.length_pos_iff.mpr ht
      intro h0
      have := congrArg List.length h0
      rw [List.length_take, List.length_nil] at this
      omega
    · exact cutLike_ne r (P.drop t.length) (by rw [List.length_drop]; omega)
        (fun z hz => hne z (List.mem_cons_of_mem _ hz)) s hs

theorem cutLike_splitSeg (cap : Nat) : ∀ (f : Nat) (s P : List Byte), s.length ≤ P.length →
    cutLike (splitSeg cap f s) P = splitSeg cap f (P.take s.length)
  | 0, _, _, _ => rfl
  | f+1, s, P, h => by
    unfold splitSeg
    cases s with
    | nil => rfl
    | cons a l =>
      have hP : (P.take (a :: l).length).isEmpty = false := by
        cases P with
        | nil => simp at h
        | cons p P => rfl
      rw [hP]
      simp only [List.isEmpty_cons, Bool.false_eq_true, if_false]
      by_cases hc : cap = 0
      · rw [if_pos hc, if_pos hc]; rfl
      · rw [if_neg hc, if_neg hc, cutLike]
        have ih := cutLike_splitSeg cap f ((a :: l).drop cap) (P.drop ((a :: l).take cap).length) (by
          rw [List.length_drop, List.length_drop, List.length_take]; omega)
        rw [ih]
        congr 1
        · rw [List.length_take, List.take_take, Nat.min_comm]
        · congr 1
          rw [List.length_take, List.length_drop, List.drop_take]
          by_cases hcl : cap ≤ (a :: l).length
          · rw [Nat.min_eq_left hcl]
          · have hcl' : (a :: l).length ≤ cap := by omega
            rw [Nat.min_eq_right hcl', Nat.sub_eq_zero_of_le hcl', List.take_zero, List.take_zero]

theorem reads_cutLike (cap : Nat) : ∀ (segs : List (List Byte)) (P : List Byte), segs.flatten.length ≤ P.length →
    reads cap (cutLike segs P) = cutLike (reads cap segs) P
  | [], _, _ => rfl
  | s :: r, P, h => by
    rw [List.flatten_cons, List.length_append] at h
    have e1 : ∀ (x : List Byte) (xs : List (List Byte)),
        reads cap (x :: xs) = splitSeg cap (x.length + 1) x ++ reads cap xs := by
      intro x xs; simp [reads]
    rw [cutLike, e1, e1, cutLike_append, reads_cutLike cap r (P.drop s.length) (by rw [List.length_drop]; omega),
      cutLike_splitSeg cap _ s P (by omega), List.length_take, Nat.min_eq_left (by omega)]
    by_cases hcap : 0 < cap
    · rw [(splitSeg_spec cap hcap (s.length + 1) s (by omega)).1]
    · have h0 : cap = 0 := by omega
      subst h0
      rw [splitSeg_zero, splitSeg_zero, reads_zero]
      rfl

/-! ## a peer that follows the scheme -/

theorem cbcEnc_blocks (c : BlockCipher) (hok : c.OK) :
    ∀ (bs : List (List Byte)) (iv : List Byte), iv.length = 32 → (∀ b ∈ bs, b.length = 32) →
      ∀ x ∈ (cbcEnc c iv bs).1, x.length = 32
  | [], _, _, _ => by intro x hx; cases hx
  | b :: bs, iv, hiv, hbs => by
    have hb : b.length = 32 := hbs b (List.mem_cons_self ..)
    have hx : (xorBlock b iv).length = 32 := by rw [xorBlock_length _ _ (by omega)]; exact hb
    have hE := (hok _ hx).1
    have e : cbcEnc c iv (b :: bs) =
        (c.E (xorBlock b iv) :: (cbcEnc c (c.E (xorBlock b iv)) bs).1, (cbcEnc c (c.E (xorBlock b iv)) bs).2) := rfl
    rw [e]
    intro x hx'
    rcases List.mem_cons.mp hx' with rfl | hx'
    · exact hE
    · exact cbcEnc_blocks c hok bs _ hE (fun z hz => hbs z (List.mem_cons_of_mem _ hz)) x hx'

/-- the decrypter in the state the encrypter started from turns the ciphertext of a block-aligned plaintext
    back into that plaintext -/
theorem plainOf_cbcEnc (c : BlockCipher) (hok : c.OK) (iv : List Byte) (hiv : iv.length = 32) (p : List Byte)
    (hp : p.length % 32 = 0) : plainOf c iv (cbcEnc c iv (toBlocks p)).1.flatten = p := by
  obtain ⟨pf, pl⟩ := toBlocks_spec p hp
  have hX := cbcEnc_blocks c hok (toBlocks p) iv hiv pl
  generalize hXe : (cbcEnc c iv (toBlocks p)).1 = X at hX
  have hmod : X.flatten.length % 32 = 0 := by
    clear hXe
    induction X with
    | nil => rfl
    | cons x xs ih =>
      have h1 := hX x (List.mem_cons_self ..)
      have h2 := ih (fun z hz => hX z (List.mem_cons_of_mem _ hz))
      rw [List.flatten_cons, List.length_append]; omega
  have hw : whole X.flatten = X.flatten.length := by unfold whole; omega
  obtain ⟨xf, xl⟩ := toBlocks_spec X.flatten hmod
  have htb : toBlocks X.flatten = X := blocks_unique _ _ xl hX xf
  rw [plainOf_eq, hw, List.take_length, List.drop_length, List.append_nil, decryptBlocks_eq, htb, ← hXe,
    (cbc_roundtrip c hok iv hiv (toBlocks p) pl).1]
  exact pf

/-! ## the ciphertext loop, one step unfolded -/

theorem recvLoopEnc_nil (c : BlockCipher) (iv : List Byte) (st : RState) (pending fed : List Byte) :
    recvLoopEnc c iv st pending fed [] = { result := .err .io, disconnected := true, fed := fed } := rfl

theorem recvLoopEnc_cons (c : BlockCipher) (iv : List Byte) (st : RState) (pending fed piece : List Byte)
    (rest : List (List Byte)) :
    recvLoopEnc c iv st pending fed (piece :: rest) =
    if piece.isEmpty then { result := .err .invalidFrameLength, disconnected := true, fed := fed } else
    let pend := pending ++ piece
    let n := pend.length - pend.length % Gen.C.RSCP_CRYPT_BLOCK_SIZE
    if n = 0 then recvLoopEnc c iv st pend fed rest else
    let (plain, iv') := decryptBlocks c iv (pend.take n)
    let (st', r) := readPlain st plain
    let fed' := fed ++ plain
    match r with
    | .err .invalidFrameLength => recvLoopEnc c iv' st' (pend.drop n) fed' rest
    | .err e => { result := .err e, disconnected := true, fed := fed' }
    | .panic => { result := .panic, disconnected := false, fed := fed' }
    | .ok [] => recvLoopEnc c iv' st' (pend.drop n) fed' rest
    | .ok (m :: ms) => { result := .ok (m :: ms), disconnected := false, fed := fed' } := by
  rfl

theorem recvLoopEnc_short (c : BlockCipher) (iv : List Byte) (st : RState) (pending fed piece : List Byte)
    (rest : List (List Byte)) (hp : piece ≠ []) (hn : (pending ++ piece).length < 32) :
    recvLoopEnc c iv st pending fed (piece :: rest) = recvLoopEnc c iv st (pending ++ piece) fed rest := by
  rw [recvLoopEnc_cons]
  have he : piece.isEmpty = false := by cases piece <;> simp at hp ⊢
  have h0 : (pending ++ piece).length - (pending ++ piece).length % Gen.C.RSCP_CRYPT_BLOCK_SIZE = 0 := by
    show (pending ++ piece).length - (pending ++ piece).length % 32 = 0
    omega
  simp only [he, Bool.false_eq_true, if_false, h0, if_true]

theorem recvLoopEnc_call (c : BlockCipher) (iv : List Byte) (st : RState) (pending fed piece : List Byte)
    (rest : List (List Byte)) (hp : piece ≠ []) (hn : 32 ≤ (pending ++ piece).length) :
    recvLoopEnc c iv st pending fed (piece :: rest) =
      if cont (readPlain st (decryptBlocks c iv ((pending ++ piece).take (whole (pending ++ piece)))).1).2 then
        recvLoopEnc c (decryptBlocks c iv ((pending ++ piece).take (whole (pending ++ piece)))).2
          (readPlain st (decryptBlocks c iv ((pending ++ piece).take (whole (pending ++ piece)))).1).1
          ((pending ++ piece).drop (whole (pending ++ piece)))
          (fed ++ (decryptBlocks c iv ((pending ++ piece).take (whole (pending ++ piece)))).1) rest
      else
        { result := (readPlain st (decryptBlocks c iv ((pending ++ piece).take (whole (pending ++ piece)))).1).2
          disconnected :=
            disc (readPlain st (decryptBlocks c iv ((pending ++ piece).take (whole (pending ++ piece)))).1).2
          fed := fed ++ (decryptBlocks c iv ((pending ++ piece).take (whole (pending ++ piece)))).1 } := by
  rw [recvLoopEnc_cons]
  have he : piece.isEmpty = false := by cases piece <;> simp at hp ⊢
  have hw : (pending ++ piece).length - (pending ++ piece).length % Gen.C.RSCP_CRYPT_BLOCK_SIZE
      = whole (pending ++ piece) := rfl
  have h0 : whole (pending ++ piece) ≠ 0 := by unfold whole; omega
  simp only [he, Bool.false_eq_true, if_false, hw, h0]
  generalize decryptBlocks c iv ((pending ++ piece).take (whole (pending ++ piece))) = d
  obtain ⟨plain, iv'⟩ := d
  simp only
  generalize readPlain st plain = q
  obtain ⟨st', r⟩ := q
  cases r with
  | ok l => cases l <;> simp [cont, disc]
  | err e => cases e <;> simp [cont, disc]
  | panic => simp [cont, disc]

/-! ## the invariant -/

/-- The ciphertext loop is the plaintext loop on the decryption `Q` of everything that is still to come
    (`pending` and the pieces not read yet), cut at the same places. -/
theorem loop_eq (c : BlockCipher) (hc : ∀ x : List Byte, x.length = 32 → (c.D x).length = 32) :
    ∀ (pieces : List (List Byte)) (iv : List Byte) (st : RState) (pendC fed Q : List Byte),
      iv.length = 32 → Q = plainOf c iv (pendC ++ pieces.flatten) →
      recvLoopEnc c iv st pendC fed pieces =
        recvLoop st (Q.take pendC.length) fed (cutLike pieces (Q.drop pendC.length))
  | [], iv, st, pendC, fed, Q, _, _ => rfl
  | piece :: rest, iv, st, pendC, fed, Q, hiv, hQ => by
    have hR : pendC ++ (piece :: rest).flatten = (pendC ++ piece) ++ rest.flatten := by
      rw [List.flatten_cons, List.append_assoc]
    rw [hR] at hQ
    have hQl : Q.length = (pendC ++ piece).length + rest.flatten.length := by
      rw [hQ, plainOf_length c hc iv hiv, List.length_append]
    have hpl : (pendC ++ piece).length = pendC.length + piece.length := List.length_append
    -- the plaintext loop's pending and piece together are the first bytes of `Q`
    have hpp : Q.take pendC.length ++ (Q.drop pendC.length).take piece.length = Q.take (pendC ++ piece).length := by
      rw [hpl, List.take_add]
    have hdd : (Q.drop pendC.length).drop piece.length = Q.drop (pendC ++ piece).length := by
      rw [List.drop_drop, hpl]
    rw [cutLike, hdd]
    by_cases hpe : piece = []
    · subst hpe
      rw [recvLoopEnc_cons, recvLoop_cons]
      rfl
    · have hpos : 0 < piece.length := List.length_pos_iff.mpr hpe
      have hpe' : (Q.drop pendC.length).take piece.length ≠ [] := by
        intro h0
        have := congrArg List.length h0
        rw [List.length_take, List.length_drop, List.length_nil] at this
        omega
      have hlen : (Q.take (pendC ++ piece).length).length = (pendC ++ piece).length := by
        rw [List.length_take]; omega
      by_cases hshort : (pendC ++ piece).length < 32
      · rw [recvLoopEnc_short c iv st pendC fed piece rest hpe hshort,
          recvLoop_short st _ fed _ _ hpe' (by rw [hpp, hlen]; exact hshort), hpp]
        exact loop_eq c hc rest iv st (pendC ++ piece) fed Q hiv hQ
      · have hlong : 32 ≤ (pendC ++ piece).length := Nat.le_of_not_lt hshort
        rw [recvLoopEnc_call c iv st pendC fed piece rest hpe hlong,
          recvLoop_call st _ fed _ _ hpe' (by rw [hpp, hlen]; exact hlong), hpp]
        generalize pendC ++ piece = pend at *
        have hww : whole (Q.take pend.length) = whole pend := by unfold whole; rw [hlen]
        have hwl := whole_le pend
        have hwm := whole_mod pend
        rw [hww]
        have hsplit := plainOf_split c iv (pend ++ rest.flatten) (whole pend) hwm (by
          rw [List.length_append]; omega)
        rw [List.take_append_of_le_length hwl, List.drop_append_of_le_length hwl, ← hQ] at hsplit
        have hd := decryptBlocks_length c hc iv hiv (pend.take (whole pend)) (by
          rw [length_take_whole]; exact hwm)
        rw [length_take_whole] at hd
        generalize decryptBlocks c iv (pend.take (whole pend)) = d at hsplit hd ⊢
        -- the blocks handed to `Read` are the same
        have hblocks : (Q.take pend.length).take (whole pend) = d.1 := by
          rw [List.take_take, Nat.min_eq_left hwl, hsplit, List.take_left' hd.1]
        rw [hblocks]
        have ih := loop_eq c hc rest d.2 (readPlain st d.1).1 (pend.drop (whole pend)) (fed ++ d.1)
          (Q.drop (whole pend)) hd.2 (by rw [hsplit, List.drop_left' hd.1])
        have ea : (Q.drop (whole pend)).take (pend.drop (whole pend)).length = (Q.take pend.length).drop (whole pend) := by
          rw [List.length_drop, List.drop_take]
        have eb : (Q.drop (whole pend)).drop (pend.drop (whole pend)).length = Q.drop pend.length := by
          rw [List.length_drop, List.drop_drop]; congr 1; omega
        rw [ea, eb] at ih
        rw [ih]

theorem receiveBytesEnc_eq (c : BlockCipher) (hc : ∀ x : List Byte, x.length = 32 → (c.D x).length = 32)
    (iv : List Byte) (hiv : iv.length = 32) (b : Nat) (segs : List (List Byte)) :
    receiveBytesEnc c iv b segs = receiveBytes b (cutLike segs (plainOf c iv segs.flatten)) := by
  unfold receiveBytesEnc receiveBytes
  generalize uwrap 32 (Gen.C.RSCP_CRYPT_BLOCK_SIZE * b) = cap
  rw [reads_cutLike cap segs _ (by rw [plainOf_length c hc iv hiv]; exact Nat.le_refl _)]
  by_cases hcap : 0 < cap
  · have h := loop_eq c hc (reads cap segs) iv ({} : RState) [] [] (plainOf c iv segs.flatten) hiv (by
      rw [List.nil_append, (reads_spec cap hcap segs).1])
    exact h
  · have h0 : cap = 0 := by omega
    subst h0
    rw [reads_zero]
    rfl

end Rscp.Lemmas.ReceiveEnc
