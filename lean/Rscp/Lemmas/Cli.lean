import Rscp.Model.Cli
import Rscp.Lemmas.Client
/-
Helper lemmas for the command model (`Model/Cli.lean`), used by `Props/C15.lean`.
-/
namespace Rscp.Model
open Rscp

/-! ## the values the request parser builds are Go values -/

/-- the library's number→bool/string coercion returns plain Go values (`Props.C15.CoerceOK`) -/
def CoerceGo (lib : JsonLib) : Prop :=
  ∀ k d v, lib.coerce k d = some v → (∃ b, v = .bool b) ∨ (∃ s, v = .str s) ∨ (∃ s, v = .bytes s)

theorem coerce_go {lib : JsonLib} (hc : CoerceGo lib) {k d v} (h : lib.coerce k d = some v) : GoVal v := by
  rcases hc k d v h with ⟨b, rfl⟩ | ⟨s, rfl⟩ | ⟨s, rfl⟩ <;> simp [GoVal]

theorem genericVal_go (j : J) : GoVal (genericVal j) := by
  cases j <;> simp [genericVal, GoVal]

theorem int_go {k : Kind} {d : Dec} {v : Val}
    (h : (match d.toInt? with
      | some n => if k.inRange n then some (Val.num k n) else none
      | none => none) = some v) : GoVal v := by
  split at h
  · split at h
    · next hr => simp at h; subst h; exact kind_inRange_width hr
    · simp at h
  · simp at h

theorem newNumber_go {lib : JsonLib} (hc : CoerceGo lib) {dt d v} (h : newNumber lib dt d = some v) : GoVal v := by
  unfold newNumber at h
  split at h
  · rw [Option.map_eq_some_iff] at h; obtain ⟨b, _, rfl⟩ := h; simp [GoVal, Kind.width]
  · rw [Option.map_eq_some_iff] at h; obtain ⟨b, _, rfl⟩ := h; simp [GoVal, Kind.width]
  · exact coerce_go hc h
  · exact coerce_go hc h
  · exact coerce_go hc h
  · simp at h
  · simp at h
  · simp at h
  · simp at h
  · exact int_go h

theorem leafValueOfJ_go {lib : JsonLib} (hc : CoerceGo lib) {dt j v} (h : leafValueOfJ lib dt j = some v) : GoVal v := by
  unfold leafValueOfJ at h
  split at h
  · simp at h; subst h; simp [GoVal]
  split at h
  · split at h
    · rw [Option.map_eq_some_iff] at h; obtain ⟨a, _, rfl⟩ := h; simp [GoVal]
    · simp at h
  split at h
  · split at h
    · rw [Option.map_eq_some_iff] at h; obtain ⟨a, _, rfl⟩ := h; simp [GoVal]
    · simp at h
  split at h
  · exact newNumber_go hc h
  · simp at h; subst h; exact genericVal_go _

theorem outcomeOfOpt_ok {α} {o : Option α} {a : α} (h : outcomeOfOpt o = .ok a) : o = some a := by
  cases o <;> simp_all [outcomeOfOpt]

theorem objects_go {lib : JsonLib} (hc : CoerceGo lib) : ∀ f,
    (∀ j m, msgOfObject lib f j = .ok m → GoMsg m) ∧
    (∀ js ms, msgsOfObjects lib f js = .ok ms → GoMsgs ms) := by
  intro f
  induction f with
  | zero => constructor <;> intro _ _ h <;> simp [msgOfObject, msgsOfObjects] at h
  | succ f ih =>
    constructor
    · intro j m h
      simp only [msgOfObject] at h
      split at h
      · split at h
        · simp at h
        · simp at h
        · split at h
          · simp at h
          · next tag _ =>
            split at h
            · simp at h
            · simp at h
            · next dt _ =>
              split at h
              · simp at h
              · simp at h
              · next v hv =>
                have hgo : GoVal v := by
                  split at hv
                  · split at hv
                    · simp at hv
                    · simp at hv; subst hv; simp [GoVal, GoMsgs]
                    · split at hv
                      · next ms hms => simp at hv; subst hv; exact ih.2 _ _ hms
                      · simp at hv
                      · simp at hv
                    · simp at hv
                  · split at hv
                    · simp at hv; subst hv; simp [GoVal]
                    · exact leafValueOfJ_go hc (outcomeOfOpt_ok hv)
                split at h
                · simp at h; subst h; exact hgo
                · simp at h
                · simp at h
      · simp at h
    · intro js ms h
      cases js with
      | nil => simp [msgsOfObjects] at h; subst h; trivial
      | cons j js =>
        simp only [msgsOfObjects] at h
        split at h
        · next m hm =>
          split at h
          · next ms' hms => simp at h; subst h; exact ⟨ih.1 _ _ hm, ih.2 _ _ hms⟩
          · simp at h
          · simp at h
        · simp at h
        · simp at h

theorem requests_go {lib : JsonLib} (hc : CoerceGo lib) : ∀ f,
    (∀ dt j v, valueOfJ lib f dt j = .ok v → GoVal v) ∧
    (∀ j m, requestOfJ lib f j = .ok m → GoMsg m) ∧
    (∀ j ms, requestsOfJ lib f j = .ok ms → GoMsgs ms) ∧
    (∀ js ms, requestListOfJ lib f js = .ok ms → GoMsgs ms) := by
  intro f
  induction f with
  | zero =>
    refine ⟨?_, ?_, ?_, ?_⟩
    · intro _ _ _ h; simp [valueOfJ] at h
    · intro _ _ h; simp [requestOfJ] at h
    · intro _ _ h; simp [requestsOfJ] at h
    · intro _ _ h; simp [requestListOfJ] at h
  | succ f ih =>
    obtain ⟨ihV, ihQ, ihR, ihL⟩ := ih
    refine ⟨?_, ?_, ?_, ?_⟩
    · intro dt j v h
      simp only [valueOfJ] at h
      split at h
      · split at h
        · next ms hms => simp at h; subst h; exact ihR _ _ hms
        · simp at h
        · simp at h
      · exact leafValueOfJ_go hc (outcomeOfOpt_ok h)
    · intro j m h
      simp only [requestOfJ] at h
      split at h
      · split at h
        · simp at h
        · split at h
          · simp at h; subst h; simp [GoMsg, GoVal]
          · simp at h
        · split at h
          · simp at h
          · split at h
            · simp at h; subst h; simp [GoMsg, GoVal]
            · split at h
              · next v hv => simp at h; subst h; exact ihV _ _ _ hv
              · simp at h
              · simp at h
        · split at h
          · simp at h
          · split at h
            · split at h
              · next v hv => simp at h; subst h; exact ihV _ _ _ hv
              · simp at h
              · simp at h
            · simp at h
        · simp at h
      · split at h
        · simp at h; subst h; simp [GoMsg, GoVal]
        · simp at h
      · split at h
        · simp at h
        · split at h
          · simp at h; subst h; simp [GoMsg, GoVal]
          · simp at h
      · exact (objects_go hc f).1 _ _ h
    · intro j ms h
      simp only [requestsOfJ] at h
      split at h
      · exact ihL _ _ h
      · simp at h
    · intro js ms h
      cases js with
      | nil => simp [requestListOfJ] at h; subst h; trivial
      | cons j js =>
        simp only [requestListOfJ] at h
        split at h
        · next m hm =>
          split at h
          · next ms' hms => simp at h; subst h; exact ⟨ihQ _ _ hm, ihL _ _ hms⟩
          · simp at h
          · simp at h
        · simp at h
        · simp at h

/-! ## the parsers never run out of fuel and never panic -/

theorem J.size_pos (j : J) : 1 ≤ j.size := by
  cases j <;> simp [J.size] <;> omega

theorem J.size_le_sizeFields : ∀ (kvs : List (List Byte × J)) (kv : List Byte × J), kv ∈ kvs →
    kv.2.size ≤ J.sizeFields kvs
  | [], _, h => by simp at h
  | (k, v) :: r, kv, h => by
    simp only [J.sizeFields]
    rcases List.mem_cons.1 h with rfl | h
    · simp
    · have := J.size_le_sizeFields r kv h; omega

theorem fieldOf_size {name : List Byte} {kvs : List (List Byte × J)} {v : J} (h : fieldOf name kvs = some v) :
    v.size ≤ J.sizeFields kvs := by
  unfold fieldOf at h
  rw [Option.map_eq_some_iff] at h
  obtain ⟨kv, hkv, rfl⟩ := h
  exact J.size_le_sizeFields kvs kv (by simpa using List.mem_of_find?_eq_some hkv)

theorem objects_total {lib : JsonLib} (hc : CoerceGo lib) : ∀ f,
    (∀ j, 2 * j.size ≤ f → msgOfObject lib f j = .panic → False) ∧
    (∀ js, 2 * J.sizeList js + 1 ≤ f → msgsOfObjects lib f js = .panic → False) := by
  intro f
  induction f with
  | zero =>
    constructor
    · intro j hf; have := J.size_pos j; omega
    · intro js hf; omega
  | succ f ih =>
    constructor
    · intro j hf h
      simp only [msgOfObject] at h
      split at h
      · next kvs =>
        split at h
        · simp at h
        · simp at h
        · split at h
          · simp at h
          · next tag _ =>
            split at h
            · simp at h
            · next hdt =>
              split at hdt
              · simp at hdt
              · split at hdt
                · split at hdt
                  · next str _ => cases hd : dataTypeString? str <;> simp [hd, outcomeOfOpt] at hdt
                  · simp at hdt
                · simp at hdt
            · next dt _ =>
              split at h
              · simp at h
              · next hv =>
                split at hv
                · split at hv
                  · simp at hv
                  · simp at hv
                  · next xs hxs =>
                    split at hv
                    · simp at hv
                    · simp at hv
                    · next hp =>
                      have h1 := fieldOf_size hxs
                      simp only [J.size] at h1 hf
                      exact ih.2 xs (by omega) hp
                  · simp at hv
                · split at hv
                  · simp at hv
                  · next x _ => cases hl : leafValueOfJ lib dt x <;> simp [hl, outcomeOfOpt] at hv
              · next v hv =>
                have hgo : GoVal v := by
                  split at hv
                  · split at hv
                    · simp at hv
                    · simp at hv; subst hv; simp [GoVal, GoMsgs]
                    · split at hv
                      · next ms hms => simp at hv; subst hv; exact (objects_go hc f).2 _ _ hms
                      · simp at hv
                      · simp at hv
                    · simp at hv
                  · split at hv
                    · simp at hv; subst hv; simp [GoVal]
                    · exact leafValueOfJ_go hc (outcomeOfOpt_ok hv)
                split at h
                · simp at h
                · simp at h
                · next hp => exact validateMsg_ne_panic (.mk tag dt v) hgo hp
      · simp at h
    · intro js hf h
      cases js with
      | nil => simp [msgsOfObjects] at h
      | cons j js =>
        simp only [msgsOfObjects] at h
        simp only [J.sizeList] at hf
        have := J.size_pos j
        split at h
        · split at h
          · simp at h
          · simp at h
          · next hp => exact ih.2 js (by omega) hp
        · simp at h
        · next hp => exact ih.1 j (by omega) hp

theorem requests_total {lib : JsonLib} (hc : CoerceGo lib) : ∀ f,
    (∀ dt j, 3 * j.size + 1 ≤ f → valueOfJ lib f dt j = .panic → False) ∧
    (∀ j, 3 * j.size ≤ f → requestOfJ lib f j = .panic → False) ∧
    (∀ j, 3 * j.size ≤ f → requestsOfJ lib f j = .panic → False) ∧
    (∀ js, 3 * J.sizeList js + 1 ≤ f → requestListOfJ lib f js = .panic → False) := by
  intro f
  induction f with
  | zero =>
    refine ⟨?_, ?_, ?_, ?_⟩
    · intro _ j hf; omega
    · intro j hf; have := J.size_pos j; omega
    · intro j hf; have := J.size_pos j; omega
    · intro js hf; omega
  | succ f ih =>
    obtain ⟨ihV, ihQ, ihR, ihL⟩ := ih
    refine ⟨?_, ?_, ?_, ?_⟩
    · intro dt j hf h
      simp only [valueOfJ] at h
      split at h
      · split at h
        · simp at h
        · simp at h
        · next hp => exact ihR j (by omega) hp
      · cases hl : leafValueOfJ lib dt j <;> simp [hl, outcomeOfOpt] at h
    · intro j hf h
      simp only [requestOfJ] at h
      split at h
      · split at h
        · simp at h
        · split at h <;> simp at h
        · next tj x =>
          split at h
          · simp at h
          · split at h
            · simp at h
            · split at h
              · simp at h
              · simp at h
              · next hp =>
                have := J.size_pos tj
                simp only [J.size, J.sizeList] at hf
                exact ihV _ x (by omega) hp
        · next tj x y =>
          split at h
          · simp at h
          · split at h
            · split at h
              · simp at h
              · simp at h
              · next hp =>
                have := J.size_pos tj
                have := J.size_pos x
                simp only [J.size, J.sizeList] at hf
                exact ihV _ y (by omega) hp
            · simp at h
        · simp at h
      · split at h <;> simp at h
      · split at h
        · simp at h
        · split at h <;> simp at h
      · have := J.size_pos j
        exact (objects_total hc f).1 j (by omega) h
    · intro j hf h
      simp only [requestsOfJ] at h
      split at h
      · next xs =>
        simp only [J.size] at hf
        exact ihL xs (by omega) h
      · simp at h
    · intro js hf h
      cases js with
      | nil => simp [requestListOfJ] at h
      | cons j js =>
        simp only [requestListOfJ] at h
        simp only [J.sizeList] at hf
        have := J.size_pos j
        split at h
        · split at h
          · simp at h
          · simp at h
          · next hp => exact ihL js (by omega) hp
        · simp at h
        · next hp => exact ihQ j (by omega) hp

/-- parse totality: with the fuel `run()` gives it, the request parser never panics -/
theorem requestsOfJ_total {lib : JsonLib} (hc : CoerceGo lib) (j : J) :
    requestsOfJ lib (4 * j.size + 4) j = .panic → False :=
  (requests_total hc _).2.2.1 j (by omega)

theorem requestsOfJ_go {lib : JsonLib} (hc : CoerceGo lib) {f j ms} (h : requestsOfJ lib f j = .ok ms) : GoMsgs ms :=
  (requests_go hc f).2.2.1 j ms h

/-! ## `cliRun` in two stages -/

/-- the client calls of `run()` -/
def cliExec (env : CliEnv) (ms : List Msg) : Res (List Msg) × List (List Msg) :=
  if env.split then splitLoop env.cred env.authReply env.dialOk {} ms env.replies [] []
  else
    ((sendMultiple env.cred {} ms { dialOk := env.dialOk, auth := env.authReply, user := env.replies.headD .ioFail }).2.1,
     cliSentFrames (sendMultiple env.cred {} ms { dialOk := env.dialOk, auth := env.authReply, user := env.replies.headD .ioFail }).2.2)

/-- the choice of the output format -/
def cliDoc (format : String) (rs : List Msg) : Option (Option JO) :=
  if format = "json" then some (fmtJson rs)
  else if format = "jsonsimple" then some (fmtSimple rs)
  else if format = "jsonmerged" then some (fmtMerged rs)
  else none

/-- the end of `run()`/`main()` -/
def cliFinish (format : String) (res : Res (List Msg)) (frames : List (List Msg)) : CliOut :=
  match res with
  | .err _ => cliFail frames
  | .panic => cliPanic frames
  | .ok rs =>
    match cliDoc format rs with
    | none => cliFail frames
    | some none => cliFail frames
    | some (some d) => { status := 0, stdout := some d, stderrNonEmpty := false, panicked := false, frames := frames }

theorem cliRun_eq (lib : JsonLib) (env : CliEnv) :
    cliRun lib env =
      match env.request with
      | none => cliFail []
      | some j =>
        match requestsOfJ lib (4 * j.size + 4) j with
        | .err _ => cliFail []
        | .panic => cliPanic []
        | .ok ms => cliFinish env.format (cliExec env ms).1 (cliExec env ms).2 := by
  unfold cliRun
  cases env.request with
  | none => rfl
  | some j =>
    simp only []
    cases requestsOfJ lib (4 * j.size + 4) j with
    | err e => rfl
    | panic => rfl
    | ok ms => rfl

theorem cliFinish_frames (format : String) (res : Res (List Msg)) (frames : List (List Msg)) :
    (cliFinish format res frames).frames = frames := by
  unfold cliFinish
  split
  · rfl
  · rfl
  · split <;> rfl

theorem cliFinish_contract (format : String) (res : Res (List Msg)) (frames : List (List Msg)) :
    ((cliFinish format res frames).status = 0 ∧ (cliFinish format res frames).stdout.isSome ∧
      (cliFinish format res frames).panicked = false) ∨
    ((cliFinish format res frames).status ≠ 0 ∧ (cliFinish format res frames).stdout = none ∧
      (cliFinish format res frames).stderrNonEmpty = true) := by
  unfold cliFinish
  split
  · right; simp [cliFail]
  · right; simp [cliPanic]
  · split
    · right; simp [cliFail]
    · right; simp [cliFail]
    · left; simp

theorem cliFinish_panicked (format : String) (res : Res (List Msg)) (frames : List (List Msg))
    (h : res = .panic → False) : (cliFinish format res frames).panicked = false := by
  unfold cliFinish
  split
  · rfl
  · exact absurd rfl h
  · split <;> rfl

theorem cliFinish_status (format : String) (res : Res (List Msg)) (frames : List (List Msg))
    (h : (cliFinish format res frames).status = 0) : ∃ rs, res = .ok rs := by
  unfold cliFinish at h
  split at h
  · simp [cliFail] at h
  · simp [cliPanic] at h
  · exact ⟨_, rfl⟩

theorem cliFinish_stdout (format : String) (rs : List Msg) (fr fr' : List (List Msg)) :
    (cliFinish format (.ok rs) fr).stdout = (cliFinish format (.ok rs) fr').stdout := by
  simp only [cliFinish]
  split <;> rfl

/-! ## successful client calls -/

/-- the state invariant at a call boundary: nothing pending, authenticated only if connected -/
def Tidy (st : CState) : Prop :=
  (∀ n q, st.conn = some (n, q) → q = []) ∧ (st.conn = none → st.authed = false)

theorem tidy_init : Tidy {} := by simp [Tidy]

theorem connected_ok (cred : Cred) (n : Nat) (a : Bool) (c : Nat) (reqs rs : List Msg) (sc : Script)
    (hok : (connected cred ⟨some (n, []), a, c⟩ reqs sc).2.1 = .ok rs) :
    (connected cred ⟨some (n, []), a, c⟩ reqs sc).1 = ⟨some (n, []), true, c⟩ ∧
    cliSentFrames (connected cred ⟨some (n, []), a, c⟩ reqs sc).2.2 =
      (if a then [] else [authRequest cred.user cred.password]) ++ [reqs] ∧
    sc.user = .frame rs := by
  rcases connected_cases cred n [] a c reqs sc with
    ⟨_, ⟨e, he, hR⟩ | hR | ⟨e, hR⟩ | ⟨m, ms, rest, hq, hR⟩⟩ |
    ⟨pre, q1, hpre, hu⟩
  · simp [hR] at hok
  · simp [hR] at hok
  · simp [hR] at hok
  · simp [hR] at hok
  · have hq1 : q1 = [] := by
      rcases hpre with ⟨_, _, rfl⟩ | ⟨_, _, m', ms', hq'⟩
      · rfl
      · exact (tokens_frame (by simpa using hq')).2
    subst hq1
    rcases hu with ⟨e, he, hR⟩ | ⟨hp, hR⟩ | hR | ⟨e, hR⟩ | ⟨m, ms', rest, hq, hR⟩
    · simp [hR] at hok
    · simp [hR] at hok
    · simp [hR] at hok
    · simp [hR] at hok
    · obtain ⟨hu1, hu2⟩ := tokens_frame (by simpa using hq)
      subst hu2
      simp [hR] at hok
      subst hok
      refine ⟨by simp [hR], ?_, hu1⟩
      rcases hpre with ⟨rfl, rfl, _⟩ | ⟨rfl, rfl, _⟩ <;> simp [hR, cliSentFrames]

theorem sendMultiple_ok (cred : Cred) (st : CState) (reqs rs : List Msg) (sc : Script) (ht : Tidy st)
    (hok : (sendMultiple cred st reqs sc).2.1 = .ok rs) :
    (∃ n c, (sendMultiple cred st reqs sc).1 = ⟨some (n, []), true, c⟩) ∧
    cliSentFrames (sendMultiple cred st reqs sc).2.2 =
      (if st.authed then [] else [authRequest cred.user cred.password]) ++ [reqs] ∧
    sc.user = .frame rs := by
  rcases sendMultiple_cases cred st reqs sc with ⟨hc, _, hR⟩ | ⟨n, q, c', pre, hpre, hR⟩
  · simp [hR] at hok
  · have hq : q = [] := by
      rcases hpre with ⟨hc, _, _⟩ | ⟨_, _, _, hq, _, _⟩
      · exact ht.1 n q hc
      · exact hq
    subst hq
    have hpre' : cliSentFrames pre = [] := by
      rcases hpre with ⟨_, rfl, _⟩ | ⟨_, _, _, _, rfl, _⟩ <;> simp [cliSentFrames]
    rw [hR] at hok
    obtain ⟨h1, h2, h3⟩ := connected_ok cred n st.authed c' reqs rs sc hok
    rw [hR]
    refine ⟨⟨n, c', h1⟩, ?_, h3⟩
    show cliSentFrames (pre ++ _) = _
    unfold cliSentFrames at *
    rw [List.filterMap_append, hpre', h2]
    rfl

theorem send_ok (cred : Cred) (st : CState) (req r : Msg) (sc : Script) (ht : Tidy st)
    (hok : (send cred st req sc).2.1 = .ok r) :
    (∃ n c, (send cred st req sc).1 = ⟨some (n, []), true, c⟩) ∧
    cliSentFrames (send cred st req sc).2.2 =
      (if st.authed then [] else [authRequest cred.user cred.password]) ++ [[req]] ∧
    ∃ rest, sc.user = .frame (r :: rest) := by
  obtain ⟨e1, e2⟩ := send_state_events cred st req sc
  rw [e1, e2]
  rcases hs : sendMultiple cred st [req] sc with ⟨st', res, ev⟩
  cases res with
  | ok l =>
    cases l with
    | nil => simp [send, hs] at hok
    | cons m rest =>
      simp [send, hs] at hok
      subst hok
      have := sendMultiple_ok cred st [req] (m :: rest) sc ht (by rw [hs])
      rw [hs] at this
      exact ⟨this.1, this.2.1, rest, this.2.2⟩
  | err e => simp [send, hs] at hok
  | panic => simp [send, hs] at hok

theorem tidy_authed (n c : Nat) : Tidy ⟨some (n, []), true, c⟩ := by
  simp [Tidy]

theorem send_ne_panic (cred : Cred) (st : CState) (req : Msg) (sc : Script) (hgo : GoMsg req) :
    (send cred st req sc).2.1 = .panic → False := by
  intro h
  have hgo' : GoMsgs [req] := ⟨hgo, trivial⟩
  rcases hs : sendMultiple cred st [req] sc with ⟨st', r, ev⟩
  rcases sendMultiple_result cred st [req] sc with ⟨e, h'⟩ | ⟨m, ms, h'⟩ | ⟨hp, _⟩
  · rw [hs] at h'; simp at h'; subst h'; simp [send, hs] at h
  · rw [hs] at h'; simp at h'; subst h'; simp [send, hs] at h
  · exact validateRequests_ne_panic hgo' hp

theorem sendMultiple_ne_panic (cred : Cred) (st : CState) (reqs : List Msg) (sc : Script) (hgo : GoMsgs reqs) :
    (sendMultiple cred st reqs sc).2.1 = .panic → False := by
  intro h
  rcases sendMultiple_result cred st reqs sc with ⟨e, h'⟩ | ⟨m, ms, h'⟩ | ⟨hp, _⟩
  · rw [h] at h'; simp at h'
  · rw [h] at h'; simp at h'
  · exact validateRequests_ne_panic hgo hp

/-! ## the `-splitrequests` loop -/

theorem splitLoop_cons (cred : Cred) (auth : Reply) (d : Bool) (st : CState) (m : Msg) (ms : List Msg)
    (replies : List Reply) (acc : List Msg) (fr : List (List Msg)) :
    splitLoop cred auth d st (m :: ms) replies acc fr =
      match send cred st m { dialOk := d, auth := auth, user := replies.headD .ioFail } with
      | (st', .ok r, ev) => splitLoop cred auth d st' ms replies.tail (acc ++ [r]) (fr ++ cliSentFrames ev)
      | (_, .err e, ev) => (.err e, fr ++ cliSentFrames ev)
      | (_, .panic, ev) => (.panic, fr ++ cliSentFrames ev) := by
  rfl

theorem splitLoop_ne_panic (cred : Cred) (auth : Reply) (d : Bool) : ∀ (ms : List Msg) (st : CState)
    (replies : List Reply) (acc : List Msg) (fr : List (List Msg)), GoMsgs ms →
    (splitLoop cred auth d st ms replies acc fr).1 = .panic → False
  | [], st, replies, acc, fr, _, h => by simp [splitLoop] at h
  | m :: ms, st, replies, acc, fr, hgo, h => by
    rw [splitLoop_cons] at h
    have hnp := send_ne_panic cred st m { dialOk := d, auth := auth, user := replies.headD .ioFail } hgo.1
    rcases hs : send cred st m { dialOk := d, auth := auth, user := replies.headD .ioFail } with ⟨st', r, ev⟩
    rw [hs] at h hnp
    cases r with
    | ok r => exact splitLoop_ne_panic cred auth d ms st' _ _ _ hgo.2 h
    | err e => simp at h
    | panic => exact hnp rfl

theorem splitLoop_ok (cred : Cred) (auth : Reply) (d : Bool) : ∀ (ms : List Msg) (st : CState)
    (replies : List Reply) (acc : List Msg) (fr : List (List Msg)) (out : List Msg) (frames : List (List Msg)),
    Tidy st → (ms ≠ [] ∨ st.authed = true) →
    splitLoop cred auth d st ms replies acc fr = (.ok out, frames) →
    frames = fr ++ (if st.authed then [] else [authRequest cred.user cred.password]) ++ ms.map (fun m => [m]) ∧
    (∀ rs : List Msg, replies = rs.map (fun r => Reply.frame [r]) → rs.length = ms.length → out = acc ++ rs)
  | [], st, replies, acc, fr, out, frames, _, hne, h => by
    have ha : st.authed = true := by
      rcases hne with h | h
      · exact absurd rfl h
      · exact h
    simp [splitLoop] at h
    obtain ⟨rfl, rfl⟩ := h
    refine ⟨by simp [ha], ?_⟩
    intro rs _ hl
    have : rs = [] := List.eq_nil_of_length_eq_zero (by simpa using hl)
    simp [this]
  | m :: ms, st, replies, acc, fr, out, frames, ht, _, h => by
    rw [splitLoop_cons] at h
    have hso := fun r => send_ok cred st m r { dialOk := d, auth := auth, user := replies.headD .ioFail } ht
    rcases hs : send cred st m { dialOk := d, auth := auth, user := replies.headD .ioFail } with ⟨st', r, ev⟩
    rw [hs] at h hso
    cases r with
    | err e => simp at h
    | panic => simp at h
    | ok r =>
      obtain ⟨⟨n, c, hst⟩, hfr, rest, hu⟩ := hso r rfl
      simp only at hst hfr hu h
      subst hst
      obtain ⟨ih1, ih2⟩ := splitLoop_ok cred auth d ms _ _ _ _ out frames (tidy_authed n c) (.inr rfl) h
      constructor
      · rw [ih1, hfr]; simp
      · intro rs hr hl
        cases rs with
        | nil => simp at hl
        | cons r0 rs' =>
          subst hr
          simp at hu
          have := ih2 rs' (by simp) (by simpa using hl)
          rw [this, hu.1]; simp

/-! ## the client calls of `run()` -/

theorem cliExec_ne_panic (env : CliEnv) (ms : List Msg) (hgo : GoMsgs ms) : (cliExec env ms).1 = .panic → False := by
  unfold cliExec
  cases env.split with
  | true => exact splitLoop_ne_panic _ _ _ ms _ _ _ _ hgo
  | false => exact sendMultiple_ne_panic _ _ ms _ hgo

theorem cliExec_split_ok (env : CliEnv) (ms out : List Msg) (hs : env.split = true) (hne : ms ≠ [])
    (hok : (cliExec env ms).1 = .ok out) :
    (cliExec env ms).2 = authRequest env.cred.user env.cred.password :: ms.map (fun m => [m]) ∧
    (∀ rs : List Msg, env.replies = rs.map (fun r => Reply.frame [r]) → rs.length = ms.length → out = rs) := by
  unfold cliExec at hok ⊢
  simp only [hs, if_true] at hok ⊢
  have := splitLoop_ok env.cred env.authReply env.dialOk ms ({} : CState) env.replies [] [] out
    (splitLoop env.cred env.authReply env.dialOk ({} : CState) ms env.replies [] []).2 tidy_init (.inl hne)
    (by rw [← hok])
  simpa using this

theorem cliExec_unsplit_ok (env : CliEnv) (ms out rs : List Msg) (hs : env.split = false)
    (hr : env.replies = [.frame rs]) (hok : (cliExec env ms).1 = .ok out) : out = rs := by
  unfold cliExec at hok
  simp only [hs, Bool.false_eq_true, if_false] at hok
  have := (sendMultiple_ok env.cred ({} : CState) ms out _ tidy_init hok).2.2
  simp [hr] at this
  exact this.symm

/-- `cliRun` when the request text parses -/
theorem cliRun_parsed (lib : JsonLib) (env : CliEnv) (j : J) (ms : List Msg) (hj : env.request = some j)
    (hp : requestsOfJ lib (4 * j.size + 4) j = .ok ms) :
    cliRun lib env = cliFinish env.format (cliExec env ms).1 (cliExec env ms).2 := by
  rw [cliRun_eq, hj]
  simp only [hp]

end Rscp.Model

