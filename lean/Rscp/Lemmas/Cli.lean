import Rscp.Model.Cli
import Rscp.Lemmas.Client
