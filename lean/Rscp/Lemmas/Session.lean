import Rscp.Lemmas.Crypt
import Rscp.Model.Session
namespace Rscp.Lemmas.Session
open Rscp Rscp.Model Rscp.Lemmas.Crypt

theorem iv0_eq : iv0 = List.replicate 32 0xFF := rfl

theorem iv0_length : iv0.length = 32 := by rw [iv0_eq, List.length_replicate]

/-- the two ends are in step: each decrypter is in the state of the opposite encrypter -/
def InStep (cl pe : Chains) : Prop :=
  cl.enc = pe.dec ∧ cl.dec = pe.enc ∧ cl.enc.length = 32 ∧ cl.dec.length = 32

theorem inStep_init : InStep { enc := iv0, dec := iv0 } { enc := iv0, dec := iv0 } :=
  ⟨rfl, rfl, iv0_length, iv0_length⟩

/-- from states in step every frame is delivered unchanged -/
theorem wireRun_inStep (c : BlockCipher) (hc : c.OK) (ops : List WireOp) :
    ∀ (cl pe : Chains), InStep cl pe →
    (∀ op ∈ ops, ∀ f, (op = .toPeer f ∨ op = .toClient f) → ∀ b ∈ f, b.length = 32) →
    ∀ d ∈ wireRun c cl pe ops, d.received = d.sent := by
  induction ops with
  | nil => intro cl pe _ _ d hd; simp [wireRun] at hd
  | cons op ops ih =>
    intro cl pe hinv hblocks d hd
    have hrest : ∀ op ∈ ops, ∀ f, (op = .toPeer f ∨ op = .toClient f) → ∀ b ∈ f, b.length = 32 :=
      fun o ho => hblocks o (List.mem_cons_of_mem _ ho)
    obtain ⟨h1, h2, h3, h4⟩ := hinv
    cases op with
    | connect =>
      simp only [wireRun, wireStep] at hd
      exact ih _ _ inStep_init hrest d hd
    | toPeer plain =>
      have hb : ∀ b ∈ plain, b.length = 32 := hblocks _ (List.mem_cons_self ..) plain (Or.inl rfl)
      have hr := cbc_roundtrip c hc cl.enc h3 plain hb
      simp only [wireRun, wireStep] at hd
      rw [← h1, hr.1] at hd
      simp only [List.mem_cons] at hd
      rcases hd with rfl | hd
      · rfl
      · refine ih _ _ ?_ hrest d hd
        exact ⟨rfl, h2, hr.2, h4⟩
    | toClient plain =>
      have hb : ∀ b ∈ plain, b.length = 32 := hblocks _ (List.mem_cons_self ..) plain (Or.inr rfl)
      have hr := cbc_roundtrip c hc pe.enc (h2 ▸ h4) plain hb
      simp only [wireRun, wireStep] at hd
      rw [h2, hr.1] at hd
      simp only [List.mem_cons] at hd
      rcases hd with rfl | hd
      · rfl
      · refine ih _ _ ?_ hrest d hd
        exact ⟨h1, rfl, h3, hr.2⟩

end Rscp.Lemmas.Session
