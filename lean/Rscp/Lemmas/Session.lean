import Rscp.Lemmas.Crypt
import Rscp.Model.Session
