import Rscp.Model.Timing
import Rscp.Props.C16
import Rscp.Lemmas.Client
