import Rscp.Model.Timing
import Rscp.Props.C16
import Rscp.Lemmas.Client
namespace Rscp.Model
open Rscp

/-! ## the instrumented machine -/

theorem sendMultipleIO_fst (cred : Cred) (st : CState) (reqs : List Msg) (sc : Script) :
    (sendMultipleIO cred st reqs sc).1 = sendMultiple cred st reqs sc := by
  unfold sendMultipleIO
  simp only []
  split
  · rfl
  · split
    · split <;> rfl
    · rfl

theorem sendFrameIO_snd (st : CState) (ms : List Msg) (w : Bool) (r : Reply) :
    List.Sublist (sendFrameIO st ms w r).2 [Blk.write] := by
  unfold sendFrameIO
  simp only []
  split
  · exact List.Sublist.refl _
  · exact List.nil_sublist _

theorem receiveIO_snd (st : CState) : List.Sublist (receiveIO st).2 [Blk.recv] := by
  unfold receiveIO
  simp only []
  split
  · exact List.Sublist.refl _
  · exact List.nil_sublist _

/-- a `write` log followed by nothing or by a `recv` log -/
theorem write_then_sublist {w r : List Blk} (hw : List.Sublist w [Blk.write]) (hr : List.Sublist r [Blk.recv]) :
    List.Sublist (w ++ r) [Blk.write, Blk.recv] := List.Sublist.append hw hr

theorem write_only_sublist {w : List Blk} (hw : List.Sublist w [Blk.write]) :
    List.Sublist w [Blk.write, Blk.recv] := by
  have := List.Sublist.append hw (List.nil_sublist [Blk.recv])
  simpa using this

theorem authenticateIO_snd (cred : Cred) (st : CState) (sc : Script) :
    List.Sublist (authenticateIO cred st sc).2 [Blk.write, Blk.recv] := by
  unfold authenticateIO
  have hw := sendFrameIO_snd st (authRequest cred.user cred.password) sc.writeOk sc.auth
  generalize sendFrameIO st (authRequest cred.user cred.password) sc.writeOk sc.auth = p at hw ⊢
  obtain ⟨⟨st1, r, ev⟩, io1⟩ := p
  cases r with
  | ok u => exact write_then_sublist hw (receiveIO_snd st1)
  | err e => exact write_only_sublist hw
  | panic => exact write_only_sublist hw

/-- the part of a call after the connection is there: authentication and request -/
theorem connectedIO_shape {ρ : Type} (r : ρ) (d : List Blk) (hd : d.Sublist [Blk.dial]) (cred : Cred) (st0 : CState)
    (reqs : List Msg) (sc : Script) :
    ∃ d' a u : List Blk,
      (match (if st0.authed then ((st0, Res.ok (), ([] : List Ev)), ([] : List Blk))
              else authenticateIO cred st0 sc).1 with
        | (st1, .ok (), _) =>
          match sendFrameIO st1 reqs sc.writeOk sc.user with
          | ((st2, .ok (), _), io2) =>
            (r, d ++ (if st0.authed then ((st0, Res.ok (), ([] : List Ev)), ([] : List Blk))
                      else authenticateIO cred st0 sc).2 ++ io2 ++ (receiveIO st2).2)
          | (_, io2) =>
            (r, d ++ (if st0.authed then ((st0, Res.ok (), ([] : List Ev)), ([] : List Blk))
                      else authenticateIO cred st0 sc).2 ++ io2)
        | _ => (r, d ++ (if st0.authed then ((st0, Res.ok (), ([] : List Ev)), ([] : List Blk))
                         else authenticateIO cred st0 sc).2)).2 = d' ++ a ++ u ∧
      d'.Sublist [Blk.dial] ∧ a.Sublist [Blk.write, Blk.recv] ∧ u.Sublist [Blk.write, Blk.recv] := by
  have ha : List.Sublist (if st0.authed then ((st0, Res.ok (), ([] : List Ev)), ([] : List Blk))
      else authenticateIO cred st0 sc).2 [Blk.write, Blk.recv] := by
    split
    · exact List.nil_sublist _
    · exact authenticateIO_snd cred st0 sc
  generalize (if st0.authed then ((st0, Res.ok (), ([] : List Ev)), ([] : List Blk))
      else authenticateIO cred st0 sc) = A at ha ⊢
  obtain ⟨⟨st1, r1, ev1⟩, aio⟩ := A
  cases r1 with
  | err e => exact ⟨d, aio, [], (List.append_nil _).symm, hd, ha, List.nil_sublist _⟩
  | panic => exact ⟨d, aio, [], (List.append_nil _).symm, hd, ha, List.nil_sublist _⟩
  | ok u =>
    obtain ⟨⟩ := u
    dsimp only
    have hw := sendFrameIO_snd st1 reqs sc.writeOk sc.user
    generalize sendFrameIO st1 reqs sc.writeOk sc.user = p at hw ⊢
    obtain ⟨⟨st2, r2, ev2⟩, io2⟩ := p
    cases r2 with
    | ok u2 => exact ⟨d, aio, io2 ++ (receiveIO st2).2, (List.append_assoc _ _ _), hd, ha, write_then_sublist hw (receiveIO_snd st2)⟩
    | err e => exact ⟨d, aio, io2, rfl, hd, ha, write_only_sublist hw⟩
    | panic => exact ⟨d, aio, io2, rfl, hd, ha, write_only_sublist hw⟩

theorem sendMultipleIO_snd (cred : Cred) (st : CState) (reqs : List Msg) (sc : Script) :
    ∃ d a u : List Blk, (sendMultipleIO cred st reqs sc).2 = d ++ a ++ u ∧
      List.Sublist d [Blk.dial] ∧ List.Sublist a [Blk.write, Blk.recv] ∧ List.Sublist u [Blk.write, Blk.recv] := by
  rcases st with ⟨_ | p, authed, conns⟩
  · unfold sendMultipleIO
    simp only [Option.isNone_none, Bool.true_and]
    by_cases hdl : (!sc.dialOk) = true
    · rw [if_pos hdl]
      exact ⟨[Blk.dial], [], [], rfl, List.Sublist.refl _, List.nil_sublist _, List.nil_sublist _⟩
    · rw [if_neg hdl]
      exact connectedIO_shape (sendMultiple cred ⟨none, authed, conns⟩ reqs sc) [Blk.dial] (List.Sublist.refl _) cred
        ⟨some (conns, []), authed, conns + 1⟩ reqs sc
  · unfold sendMultipleIO
    simp only [Option.isNone_some, Bool.false_and]
    rw [if_neg (by decide)]
    exact connectedIO_shape (sendMultiple cred ⟨some p, authed, conns⟩ reqs sc) [] (List.nil_sublist _) cred
      ⟨some p, authed, conns⟩ reqs sc

theorem sendMultipleIO_sublist (cred : Cred) (st : CState) (reqs : List Msg) (sc : Script) :
    List.Sublist (sendMultipleIO cred st reqs sc).2 [Blk.dial, Blk.write, Blk.recv, Blk.write, Blk.recv] := by
  obtain ⟨d, a, u, h, hd, ha, hu⟩ := sendMultipleIO_snd cred st reqs sc
  rw [h]
  exact List.Sublist.append (List.Sublist.append hd ha) hu

/-! ## sums of durations and budgets -/

theorem sum_le_map_sum {β : Type} (b : β → Int) : ∀ (dur : List Int) (l : List β) (hlen : dur.length = l.length),
    (∀ i (h : i < dur.length), dur[i] ≤ b (l[i]'(hlen ▸ h))) → dur.sum ≤ (l.map b).sum
  | [], [], _, _ => by simp
  | [], _ :: _, hlen, _ => by simp at hlen
  | _ :: _, [], hlen, _ => by simp at hlen
  | d :: ds, x :: xs, hlen, h => by
    have h0 : d ≤ b x := h 0 (by simp)
    have ih := sum_le_map_sum b ds xs (by simpa using hlen) (fun i hi => by
      have := h (i + 1) (by simpa using hi)
      simpa using this)
    simp only [List.sum_cons, List.map_cons]
    omega

theorem map_sum_le_of_sublist {β : Type} (b : β → Int) (hb : ∀ x, 0 ≤ b x) {l L : List β} (h : List.Sublist l L) :
    (l.map b).sum ≤ (L.map b).sum := by
  induction h with
  | slnil => simp
  | cons a _ ih => have := hb a; simp only [List.map_cons, List.sum_cons]; omega
  | cons_cons a _ ih => simp only [List.map_cons, List.sum_cons]; omega

theorem budget_nonneg (c : Config) (h : 0 ≤ c.connTimeout ∧ 0 ≤ c.sendTimeout ∧ 0 ≤ c.recvTimeout) :
    ∀ x, 0 ≤ budget c x
  | .dial => h.1
  | .write => h.2.1
  | .recv => h.2.2

theorem full_budget (c : Config) : ([Blk.dial, Blk.write, Blk.recv, Blk.write, Blk.recv].map (budget c)).sum =
    c.connTimeout + 2 * c.sendTimeout + 2 * c.recvTimeout := by
  simp only [List.map_cons, List.map_nil, List.sum_cons, List.sum_nil, budget]
  omega

/-! ## one absolute deadline against a re-armed one -/

theorem recvReturnsAt_le (R t0 : Int) : ∀ (arrivals : List Int) (k : Nat), recvReturnsAt R t0 arrivals k ≤ t0 + R
  | [], _ => by simp [recvReturnsAt]
  | a :: rest, k => by
    unfold recvReturnsAt
    split
    · exact Int.le_refl _
    · split
      · omega
      · exact recvReturnsAt_le R t0 rest _

/-- a trickling peer: one read completes every time unit, starting one unit after `t` -/
def trickle : Int → Nat → List Int
  | _, 0 => []
  | t, n+1 => (t + 1) :: trickle (t + 1) n

/-- with a re-armed deadline of at least 2 units, `n+1` trickled reads hold the call until `t + (n+1)` -/
theorem rearmed_trickle (R : Int) (hR : 2 ≤ R) : ∀ (n : Nat) (t : Int),
    recvReturnsAtRearmed R t (trickle t (n + 1)) n = t + (n + 1)
  | 0, t => by
    simp only [trickle, recvReturnsAtRearmed]
    rw [if_neg (by omega)]
    omega
  | n+1, t => by
    have ih := rearmed_trickle R hR n (t + 1)
    rw [trickle, recvReturnsAtRearmed, if_neg (by omega)]
    rw [ih]
    omega

end Rscp.Model
