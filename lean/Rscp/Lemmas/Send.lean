import Rscp.Props.C01
import Rscp.Spec.Send
import Rscp.Lemmas.Client
