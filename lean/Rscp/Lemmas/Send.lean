/-
Lemmas for C05: `validateRequests` spelled out, the bridge between `Message.validate` and the specification's
`ItemOK`/`Sendable` (tables and sizes agree), and the layout of the frame header `writeFrame` produces.
-/
import Rscp.Props.C01
import Rscp.Spec.Send
import Rscp.Lemmas.Client
namespace Rscp.Lemmas.Send
open Rscp Rscp.Model

/-! ## the tables of the implementation and of the specification -/

theorem lookup_map {β γ} (f : β → γ) (k : Nat) (l : List (Nat × β)) :
    lookup k (l.map fun x => (x.1, f x.2)) = (lookup k l).map f := by
  induction l with
  | nil => rfl
  | cons a r ih =>
    obtain ⟨a1, a2⟩ := a
    simp only [List.map, lookup]
    split <;> simp [ih]

theorem validateKind_typeRow (dt : Nat) : lookup dt Gen.validateKind = (Spec.typeRow dt).map Prod.fst := by
  have : Gen.validateKind = Spec.typeTable.map fun x => (x.1, Prod.fst x.2) := by decide
  rw [this, lookup_map]; rfl

theorem validateKind_iff (dt : Nat) (k : Kind) :
    lookup dt Gen.validateKind = some k ↔ ∃ fixed, Spec.typeRow dt = some (k, fixed) := by
  rw [validateKind_typeRow, Option.map_eq_some_iff]
  constructor
  · rintro ⟨⟨k', f⟩, h, rfl⟩; exact ⟨f, h⟩
  · rintro ⟨f, h⟩; exact ⟨(k, f), h, rfl⟩

theorem isRequest_iff (t : Nat) : Gen.Leaf.isRequest t = true ↔ t.testBit 23 = false := by
  simp [Gen.Leaf.isRequest, Nat.testBit, Nat.and_comm]

/-! ## `validateRequests` spelled out -/

theorem go_ok_iff : ∀ ms : List Msg, validateRequests.go ms = .ok () ↔
    (∀ m ∈ ms, Gen.Leaf.isRequest m.tag = true) ∧ validateMsgs ms = .ok ()
  | [] => by simp [validateRequests.go, validateMsgs]
  | m :: r => by
    have ih := go_ok_iff r
    simp only [validateRequests.go, validateMsgs, List.mem_cons, forall_eq_or_imp]
    cases hreq : Gen.Leaf.isRequest m.tag
    · simp
    · cases hm : validateMsg m with
      | ok u => cases u; simpa using ih
      | err e => simp
      | panic => simp

theorem validateRequests_ok_iff (ms : List Msg) : validateRequests ms = .ok () ↔
    (∀ m ∈ ms, Gen.Leaf.isRequest m.tag = true) ∧ validateMsgs ms = .ok () ∧ msgsSizeWide ms ≤ 65535 := by
  rw [← and_assoc, ← go_ok_iff]
  simp only [validateRequests]
  cases hgo : validateRequests.go ms with
  | ok u =>
    cases u
    simp only [Gen.Leaf.validateRequests_tooLong]
    by_cases h : msgsSizeWide ms > 65535
    · simp [h]
    · simp [h]; omega
  | err e => simp
  | panic => simp

/-! ## sizes -/

/-- for a value of the kind the table requires, the model's size is the specification's wire size -/
theorem valueSizeWide_eq (dt : Nat) (v : Val) (hok : Spec.ValOK v)
    (hk : lookup dt Gen.validateKind = some v.kind) :
    valueSizeWide dt v = match v with | .msgs ms => msgsSizeWide ms | v => Spec.wireValSize v := by
  obtain ⟨-, h2, h3, -, h5⟩ := table_facts dt _ hk
  cases v with
  | num k n =>
    have hw : k.width ≠ none := Model.kind_inRange_width hok
    cases k <;> simp_all [valueSizeWide, Gen.Leaf.size_isVariable, Spec.wireValSize, Val.kind, fixedOf, Kind.width]
  | _ => simp_all [valueSizeWide, Gen.Leaf.size_isVariable, Spec.wireValSize, Val.kind, fixedOf]

/-! ## `validate` ⇔ `ItemOK` -/

theorem kind_ne_msgs (v : Val) (hok : Spec.ValOK v) (hv : ∀ ms, v ≠ .msgs ms) : v.kind ≠ .msgs := by
  cases v with
  | msgs ms => exact absurd rfl (hv ms)
  | num k n =>
    intro h
    simp only [Val.kind] at h
    subst h
    exact Model.kind_inRange_width (k := .msgs) (n := n) hok rfl
  | _ => simp [Val.kind]

theorem validateMsg_leaf (tag dt : Nat) (v : Val) (hv : ∀ ms, v ≠ .msgs ms) :
    validateMsg (.mk tag dt v) =
      if !isValidValue dt v then .err .typeMismatch
      else if Gen.Leaf.validate_tooLong (valueSizeWide dt v) then .err .dataLimit
      else if dt = Gen.C.Container then .panic else .ok () := by
  cases v with
  | msgs ms => exact absurd rfl (hv ms)
  | _ => simp only [validateMsg]

theorem ex_kind {R : Option (Kind × Option Nat)} {K : Kind} :
    (∃ k fixed, R = some (k, fixed) ∧ K = k) ↔ ∃ fixed, R = some (K, fixed) := by
  constructor
  · rintro ⟨k, f, h, rfl⟩; exact ⟨f, h⟩
  · rintro ⟨f, h⟩; exact ⟨K, f, h, rfl⟩

theorem maxItemData_eq : Spec.maxItemData = 65528 := by decide

theorem itemOK_leaf (tag dt : Nat) (v : Val) (hv : ∀ ms, v ≠ .msgs ms) :
    Spec.ItemOK (.mk tag dt v) ↔
      (∃ fixed, Spec.typeRow dt = some (v.kind, fixed)) ∧ Spec.wireValSize v ≤ 65528 := by
  cases v with
  | msgs ms => exact absurd rfl (hv ms)
  | _ => simp only [Spec.ItemOK, ex_kind, maxItemData_eq, and_true]

theorem isValidValue_iff (dt : Nat) (v : Val) :
    isValidValue dt v = true ↔ lookup dt Gen.validateKind = some v.kind := by
  unfold isValidValue
  cases lookup dt Gen.validateKind with
  | none => simp
  | some k => simp only [beq_iff_eq, Option.some.injEq]; exact eq_comm

def P (m : Msg) : Prop := Spec.MsgOK m →
  (validateMsg m = .ok () ↔ Spec.ItemOK m) ∧ (Spec.ItemOK m → msgSizeWide m = 7 + Spec.wireValSize m.val)
def Q (ms : List Msg) : Prop := Spec.MsgsOK ms →
  (validateMsgs ms = .ok () ↔ Spec.ItemsOK ms) ∧ (Spec.ItemsOK ms → msgsSizeWide ms = Spec.wireSize ms)

theorem bridge_leaf (tag dt : Nat) (v : Val) (hv : ∀ ms, v ≠ .msgs ms) : P (.mk tag dt v) := by
  intro hok
  have hvok : Spec.ValOK v := hok.2.2
  have hsz : lookup dt Gen.validateKind = some v.kind → valueSizeWide dt v = Spec.wireValSize v := by
    intro hk
    rw [valueSizeWide_eq dt v hvok hk]
    cases v with
    | msgs ms => exact absurd rfl (hv ms)
    | _ => rfl
  rw [itemOK_leaf tag dt v hv, ← validateKind_iff]
  refine ⟨?_, ?_⟩
  · constructor
    · intro h
      obtain ⟨h1, h2, -⟩ := validateMsg_inv tag dt v h
      exact ⟨h1, by rw [← hsz h1]; exact h2⟩
    · rintro ⟨h1, h2⟩
      have hc : dt ≠ Gen.C.Container := fun hc =>
        kind_ne_msgs v hvok hv ((table_facts dt _ h1).2.2.2.1.1 hc)
      rw [validateMsg_leaf tag dt v hv, (isValidValue_iff dt v).mpr h1, hsz h1]
      have : ¬ Spec.wireValSize v > 65528 := by omega
      simp [Gen.Leaf.validate_tooLong, this, hc]
  · rintro ⟨h1, -⟩
    simp only [msgSizeWide, Msg.val, hsz h1]; rfl

theorem bridge_node (tag dt : Nat) (ms : List Msg) (ih : Q ms) : P (.mk tag dt (.msgs ms)) := by
  intro hok
  have hmsok : Spec.MsgsOK ms := by simpa [Spec.MsgOK, Spec.ValOK] using hok.2.2
  obtain ⟨ih1, ih2⟩ := ih hmsok
  have hsz : lookup dt Gen.validateKind = some .msgs → valueSizeWide dt (.msgs ms) = msgsSizeWide ms :=
    fun hk => valueSizeWide_eq dt (.msgs ms) hok.2.2 hk
  have hitem : Spec.ItemOK (.mk tag dt (.msgs ms)) ↔
      (∃ fixed, Spec.typeRow dt = some (.msgs, fixed)) ∧ Spec.wireSize ms ≤ 65528 ∧ Spec.ItemsOK ms := by
    simp only [Spec.ItemOK, ex_kind, maxItemData_eq, Spec.wireValSize, Val.kind]
  rw [hitem, ← validateKind_iff]
  refine ⟨?_, ?_⟩
  · constructor
    · intro h
      obtain ⟨h1, h2, h3⟩ := validateMsg_inv tag dt _ h
      have hi := ih1.mp (h3 ms rfl)
      exact ⟨h1, by rw [← ih2 hi, ← hsz h1]; exact h2, hi⟩
    · rintro ⟨h1, h2, h3⟩
      have hc : dt = Gen.C.Container := (table_facts dt _ h1).2.2.2.1.2 rfl
      have : ¬ msgsSizeWide ms > 65528 := by rw [ih2 h3]; omega
      simp only [validateMsg, (isValidValue_iff dt (.msgs ms)).mpr h1, hsz h1]
      simp [Gen.Leaf.validate_tooLong, this, hc, ih1.mpr h3]
  · rintro ⟨h1, -, h3⟩
    simp only [msgSizeWide, Msg.val, hsz h1, ih2 h3, Spec.wireValSize]; rfl

theorem bridge : (∀ m, P m) ∧ (∀ ms, Q ms) := by
  apply msg_induction bridge_leaf bridge_node
  · intro _; simp [validateMsgs, Spec.ItemsOK, msgsSizeWide, Spec.wireSize]
  · intro m ms pm qms hok
    obtain ⟨p1, p2⟩ := pm hok.1
    obtain ⟨q1, q2⟩ := qms hok.2
    refine ⟨?_, ?_⟩
    · simp only [Spec.ItemsOK, ← p1, ← q1, validateMsgs]
      cases hm : validateMsg m with
      | ok u => cases u; simp
      | err e => simp
      | panic => simp
    · rintro ⟨i1, i2⟩
      obtain ⟨tag, dt, v⟩ := m
      simp only [msgsSizeWide, Spec.wireSize, p2 i1, q2 i2, Msg.val]

/-- under the Go-value assumption, request validation accepts exactly the sendable lists -/
theorem validateRequests_iff_sendable (reqs : List Msg) (hok : Spec.MsgsOK reqs) :
    validateRequests reqs = .ok () ↔ Spec.Sendable reqs := by
  obtain ⟨q1, q2⟩ := bridge.2 reqs hok
  rw [validateRequests_ok_iff, Spec.Sendable]
  constructor
  · rintro ⟨h1, h2, h3⟩
    have hi := q1.mp h2
    exact ⟨fun m hm => (isRequest_iff _).mp (h1 m hm), hi, by rw [← q2 hi]; exact h3⟩
  · rintro ⟨h1, h2, h3⟩
    exact ⟨fun m hm => (isRequest_iff _).mpr (h1 m hm), q1.mpr h2, by rw [q2 h2]; exact h3⟩

/-- what passed request validation is a well-formed list in the sense of C01 -/
theorem wf_of_validated (reqs : List Msg) (hok : Spec.MsgsOK reqs) (h : validateRequests reqs = .ok ()) :
    Spec.WFList reqs := by
  obtain ⟨-, h2, h3⟩ := (validateRequests_ok_iff reqs).mp h
  exact ⟨hok, h2, h3⟩

/-! ## the layout of the frame header -/

theorem writePlain_layout (ms : List Msg) (crc : Bool) (sec nsec : Int) (h : Spec.WFList ms) :
    ∃ rest, writePlain ms crc sec nsec = .ok (leBytes 2 Gen.C.RSCP_MAGIC ++ (leBytes 2 (ctrlWord crc) ++
      (leBytes 8 (toUnsigned 8 sec) ++ (leBytes 4 (toUnsigned 4 nsec) ++ rest)))) := by
  obtain ⟨body, -, -, -, hframe⟩ := writeFrame_ok ms crc sec nsec h
  obtain ⟨k, hpad, -, -⟩ := pad_spec (frameBytes crc sec nsec (msgsSizeWide ms) body)
  simp only [writePlain, hframe]
  rw [hpad]
  simp only [frameBytes, framePre, List.append_assoc]
  exact ⟨_, rfl⟩

theorem layout_fields (a b c d rest : List Byte) (ha : a.length = 2) (hb : b.length = 2)
    (hc : c.length = 8) (hd : d.length = 4) :
    ((a ++ (b ++ (c ++ (d ++ rest)))).drop 2).take 2 = b ∧
    ((a ++ (b ++ (c ++ (d ++ rest)))).drop 4).take 8 = c ∧
    ((a ++ (b ++ (c ++ (d ++ rest)))).drop 12).take 4 = d := by
  refine ⟨?_, ?_, ?_⟩
  · rw [List.drop_left' ha, List.take_left' hb]
  · rw [← List.append_assoc, List.drop_left' (by rw [List.length_append, ha, hb]), List.take_left' hc]
  · rw [← List.append_assoc, ← List.append_assoc,
      List.drop_left' (by rw [List.length_append, List.length_append, ha, hb, hc]), List.take_left' hd]

/-- everything C05 says about the frame the client hands over -/
theorem send_frame (crc : Bool) (sec nsec : Int) (reqs : List Msg) (hok : Spec.MsgsOK reqs)
    (hs : -(2^63 : Int) ≤ sec ∧ sec < (2^63 : Int)) (hn : 0 ≤ nsec ∧ nsec < 1000000000)
    (hv : validateRequests reqs = .ok ()) :
    ∃ p, writePlain reqs crc sec nsec = .ok p ∧ 32 ≤ p.length ∧ p.length % 32 = 0 ∧
      Spec.specDecode p = some reqs ∧ decodeFrame p = .ok reqs ∧
      toSigned 8 (leNat ((p.drop 4).take 8)) = sec ∧ toSigned 4 (leNat ((p.drop 12).take 4)) = nsec ∧
      ((leNat ((p.drop 2).take 2) >>> 12) &&& 1 = 1 ↔ crc = true) := by
  have hwf := wf_of_validated reqs hok hv
  obtain ⟨p, hp, hlen, hmod, hspec⟩ := Props.C01.spec_roundtrip reqs crc sec nsec hwf hs hn
  obtain ⟨rest, hlay⟩ := writePlain_layout reqs crc sec nsec hwf
  have hpe := hp.symm.trans hlay
  injection hpe with hpe
  obtain ⟨f1, f2, f3⟩ := layout_fields (leBytes 2 Gen.C.RSCP_MAGIC) (leBytes 2 (ctrlWord crc))
    (leBytes 8 (toUnsigned 8 sec)) (leBytes 4 (toUnsigned 4 nsec)) rest
    (length_leBytes _ _) (length_leBytes _ _) (length_leBytes _ _) (length_leBytes _ _)
  obtain ⟨hc1, -, -, hc4⟩ := ctrlWord_facts crc
  refine ⟨p, hp, hlen, hmod, hspec, (Props.C03.accept_iff_wf p hlen hmod reqs).mpr hspec, ?_, ?_, ?_⟩
  · rw [hpe, f2, leNat_leBytes_toUnsigned]
    exact toSigned_toUnsigned 8 (by decide) sec hs.1 hs.2
  · rw [hpe, f3, leNat_leBytes_toUnsigned]
    apply toSigned_toUnsigned 4 (by decide) nsec
    · simp only [Nat.reduceMul, Nat.reduceSub]; omega
    · simp only [Nat.reduceMul, Nat.reduceSub]; omega
  · rw [hpe, f1, leNat_leBytes_of_lt _ _ hc1]
    exact hc4
end Rscp.Lemmas.Send
