/-
Frame-level CRC lemmas for C04: the grammar's CRC equation for accepted frames, the behaviour of an
error pattern (`xorBytes`) on the frame header, and byte-aligned bursts. Core Lean only in this file.
-/
import Rscp.Props.C03
import Rscp.Lemmas.CrcOrder
namespace Rscp.Lemmas.CrcFrame
open Rscp Rscp.Model Rscp.Crc

/-- what the grammar guarantees about an accepted frame that announces a checksum -/
theorem spec_crc (p : List Byte) (ms : List Msg) (h : Spec.specDecode p = some ms)
    (hc : (leNat ((p.drop 2).take 2) >>> 12) &&& 1 = 1) :
    18 + leNat ((p.drop 16).take 2) + 4 ≤ p.length ∧
    leNat ((p.drop (18 + leNat ((p.drop 16).take 2))).take 4) =
      crc32 (p.take (18 + leNat ((p.drop 16).take 2))) := by
  unfold Spec.specDecode at h
  simp only [hc, if_true] at h
  split at h
  · cases h
  split at h
  · cases h
  split at h
  · cases h
  split at h
  · cases h
  split at h
  · cases h
  split at h
  · cases h
  split at h
  · cases h
  split at h
  · rename_i h2 _ _ _ _ h7
    simp only [Spec.frameHeaderSize, Spec.crcSize] at h2 h7
    exact ⟨by omega, h7⟩
  · cases h

/-- the decoder-level form: C03 turns acceptance into the grammar's CRC equation -/
theorem crc_gate (p : List Byte) (hlen : 32 ≤ p.length) (hmod : p.length % 32 = 0) (ms : List Msg)
    (h : decodeFrame p = .ok ms) (hc : (leNat ((p.drop 2).take 2) >>> 12) &&& 1 = 1) :
    18 + leNat ((p.drop 16).take 2) + 4 ≤ p.length ∧
    Valid (p.take (18 + leNat ((p.drop 16).take 2))) ((p.drop (18 + leNat ((p.drop 16).take 2))).take 4) := by
  obtain ⟨h1, h2⟩ := spec_crc p ms ((Props.C03.accept_iff_wf p hlen hmod ms).mp h) hc
  refine ⟨h1, ?_, h2⟩
  rw [List.length_take, List.length_drop]; omega

theorem getD_getElem (l : List Byte) (i : Nat) (h : i < l.length) : l.getD i 0 = l[i] :=
  (List.getElem_eq_getD 0).symm

theorem xorBytes_length (p e : List Byte) (h : e.length = p.length) : (xorBytes p e).length = p.length := by
  simp [xorBytes, h]

/-- where the error pattern is zero the bytes are unchanged -/
theorem xorBytes_window (p e : List Byte) (j k : Nat) (hl : e.length = p.length)
    (hz : ∀ i, j ≤ i → i < j + k → e.getD i 0 = 0) :
    ((xorBytes p e).drop j).take k = (p.drop j).take k := by
  apply List.ext_getElem
  · simp [xorBytes, hl]
  · intro i h1 h2
    have h3 : i < k ∧ j + i < p.length := by
      rw [List.length_take, List.length_drop] at h2; omega
    have h4 : j + i < e.length := by omega
    have h5 : e[j + i] = 0 := by
      have := hz (j + i) (by omega) (by omega)
      rwa [getD_getElem _ _ h4] at this
    simp only [List.getElem_take, List.getElem_drop, xorBytes, List.getElem_zipWith, h5, UInt8.xor_zero]

/-- An accepted checksummed frame, altered by an error pattern that leaves magic, control word, length field
    and the padding alone, is rejected with an error whenever the CRC detects the pattern. -/
theorem altered_rejected (p e : List Byte) (hlen : 32 ≤ p.length) (hmod : p.length % 32 = 0) (ms : List Msg)
    (h : decodeFrame p = .ok ms) (hc : (leNat ((p.drop 2).take 2) >>> 12) &&& 1 = 1)
    (hel : e.length = p.length)
    (hz : ∀ i, (i < 4 ∨ i = 16 ∨ i = 17 ∨ 18 + leNat ((p.drop 16).take 2) + 4 ≤ i) → e.getD i 0 = 0)
    (hdet : Valid (p.take (18 + leNat ((p.drop 16).take 2))) ((p.drop (18 + leNat ((p.drop 16).take 2))).take 4) →
      ¬ Valid
        ((xorBytes (p.take (18 + leNat ((p.drop 16).take 2)) ++ (p.drop (18 + leNat ((p.drop 16).take 2))).take 4)
            (e.take (18 + leNat ((p.drop 16).take 2) + 4))).take (p.take (18 + leNat ((p.drop 16).take 2))).length)
        ((xorBytes (p.take (18 + leNat ((p.drop 16).take 2)) ++ (p.drop (18 + leNat ((p.drop 16).take 2))).take 4)
            (e.take (18 + leNat ((p.drop 16).take 2) + 4))).drop (p.take (18 + leNat ((p.drop 16).take 2))).length)) :
    ∃ err, decodeFrame (xorBytes p e) = .err err := by
  obtain ⟨hfs, hv⟩ := crc_gate p hlen hmod ms h hc
  have hl' : (xorBytes p e).length = p.length := xorBytes_length p e hel
  have hctrl : ((xorBytes p e).drop 2).take 2 = (p.drop 2).take 2 :=
    xorBytes_window p e 2 2 hel (by intro i h1 h2; apply hz; omega)
  have hL : ((xorBytes p e).drop 16).take 2 = (p.drop 16).take 2 :=
    xorBytes_window p e 16 2 hel (by intro i h1 h2; apply hz; omega)
  cases hd : decodeFrame (xorBytes p e) with
  | err x => exact ⟨x, rfl⟩
  | panic => exact absurd hd (Props.C03.decode_total ({} : Model.RState) Model.Reachable.init (xorBytes p e))
  | ok ms' =>
    exfalso
    obtain ⟨_, hv'⟩ := crc_gate (xorBytes p e) (by rw [hl']; exact hlen) (by rw [hl']; exact hmod) ms' hd
      (by rw [hctrl]; exact hc)
    rw [hL] at hv'
    apply hdet hv
    generalize leNat ((p.drop 16).take 2) = L at *
    have e1 : xorBytes (p.take (18 + L) ++ (p.drop (18 + L)).take 4) (e.take (18 + L + 4)) =
        (xorBytes p e).take (18 + L + 4) := by
      rw [← List.take_add, xorBytes, xorBytes, List.take_zipWith]
    have e2 : (p.take (18 + L)).length = 18 + L := by rw [List.length_take]; omega
    rw [e1, e2, List.take_take, List.drop_take, Nat.min_eq_left (by omega), Nat.add_sub_cancel_left]
    exact hv'

/-! ### byte-aligned bursts -/

theorem byteBits_zero : byteBits 0 = List.replicate 8 false := by decide

theorem bitsOf_replicate_zero (n : Nat) : bitsOf (List.replicate n 0) = List.replicate (8 * n) false := by
  induction n with
  | zero => rfl
  | succ n ih =>
    rw [List.replicate_succ, bitsOf, ih, byteBits_zero, List.replicate_append_replicate]
    congr 1; omega

theorem byteBits_ne_zero (b : Byte) (h : b ≠ 0) : true ∈ byteBits b := by
  apply Classical.byContradiction
  intro hn
  apply h
  apply UInt8.toNat_inj.mp
  apply Nat.eq_of_testBit_eq
  intro i
  rw [UInt8.toNat_zero, Nat.zero_testBit]
  by_cases hi : i < 8
  · cases hb : b.toNat.testBit i with
    | false => rfl
    | true =>
      exfalso; apply hn
      rw [byteBits, List.mem_map]
      exact ⟨i, List.mem_range.mpr hi, hb⟩
  · exact Nat.testBit_lt_two_pow (Nat.lt_of_lt_of_le b.toNat_lt (Nat.pow_le_pow_right (by decide) (Nat.le_of_not_lt hi)))

theorem bitsOf_mem_true (l : List Byte) (b : Byte) (hb : b ∈ l) (h : b ≠ 0) : true ∈ bitsOf l := by
  induction l with
  | nil => cases hb
  | cons a r ih =>
    rw [bitsOf, List.mem_append]
    rcases List.mem_cons.mp hb with rfl | hb
    · exact Or.inl (byteBits_ne_zero _ h)
    · exact Or.inr (ih hb)

theorem all_zero (l : List Byte) (h : ∀ i, l.getD i 0 = 0) : l = List.replicate l.length 0 := by
  apply List.ext_getElem
  · simp
  · intro i h1 h2
    have := h i
    rw [getD_getElem _ _ h1] at this
    simp [this]

/-- a non-zero byte pattern confined to 4 consecutive bytes is a burst of at most 32 bits -/
theorem bytes_burst (e : List Byte) (k : Nat) (hk : ∀ i, (i < k ∨ k + 4 ≤ i) → e.getD i 0 = 0)
    (hne : ∃ i, e.getD i 0 ≠ 0) : IsBurst (bitsOf e) := by
  obtain ⟨i, hi⟩ := hne
  have hik : k ≤ i ∧ i < k + 4 := by
    refine ⟨Nat.le_of_not_lt fun h => hi (hk i (Or.inl h)), Nat.lt_of_not_le fun h => hi (hk i (Or.inr h))⟩
  have hil : i < e.length := by
    apply Nat.lt_of_not_le
    intro h
    apply hi
    rw [List.getD_eq_getElem?_getD, List.getElem?_eq_none h]; rfl
  have hsplit : e = e.take k ++ ((e.drop k).take 4 ++ e.drop (k + 4)) := by
    rw [← List.drop_drop, List.take_append_drop, List.take_append_drop]
  have h1 : e.take k = List.replicate k 0 := by
    have := all_zero (e.take k) (by
      intro j
      rw [List.getD_eq_getElem?_getD, List.getElem?_take]
      split
      · rw [← List.getD_eq_getElem?_getD]; exact hk j (Or.inl ‹_›)
      · rfl)
    rw [this, List.length_take, Nat.min_eq_left (by omega)]
  have h3 : e.drop (k + 4) = List.replicate (e.length - (k + 4)) 0 := by
    have := all_zero (e.drop (k + 4)) (by
      intro j
      rw [List.getD_eq_getElem?_getD, List.getElem?_drop, ← List.getD_eq_getElem?_getD]
      exact hk _ (Or.inr (by omega)))
    rw [this, List.length_drop]
  refine ⟨8 * k, bitsOf ((e.drop k).take 4), 8 * (e.length - (k + 4)), ?_, ?_, ?_⟩
  · conv => lhs; rw [hsplit]
    rw [bitsOf_append, bitsOf_append, h1, h3, bitsOf_replicate_zero, bitsOf_replicate_zero, List.append_assoc]
  · rw [bitsOf_length, List.length_take]; omega
  · apply bitsOf_mem_true _ e[i] _ (by rwa [getD_getElem _ _ hil] at hi)
    rw [List.mem_iff_getElem]
    refine ⟨i - k, by rw [List.length_take, List.length_drop]; omega, ?_⟩
    rw [List.getElem_take, List.getElem_drop]
    congr 1; omega

/-- the restriction of such a pattern to the checksummed part of the frame -/
theorem bytes_burst_take (e : List Byte) (n k : Nat) (hz : ∀ i, n ≤ i → e.getD i 0 = 0)
    (hk : ∀ i, (i < k ∨ k + 4 ≤ i) → e.getD i 0 = 0) (hne : ∃ i, e.getD i 0 ≠ 0) :
    IsBurst (bitsOf (e.take n)) := by
  have hget : ∀ i, (e.take n).getD i 0 = if i < n then e.getD i 0 else 0 := by
    intro i
    rw [List.getD_eq_getElem?_getD, List.getElem?_take]
    split
    · rw [← List.getD_eq_getElem?_getD]
    · rfl
  apply bytes_burst (e.take n) k
  · intro i hi
    rw [hget]; split
    · exact hk i hi
    · rfl
  · obtain ⟨i, hi⟩ := hne
    refine ⟨i, ?_⟩
    rw [hget, if_pos (Nat.lt_of_not_le fun h => hi (hz i h))]
    exact hi

end Rscp.Lemmas.CrcFrame
