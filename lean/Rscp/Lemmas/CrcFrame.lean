import Rscp.Props.C03
import Rscp.Lemmas.CrcOrder
