import Rscp.Model.Crypt
namespace Rscp.Lemmas.Crypt
open Rscp Rscp.Model

theorem xorBlock_length (a b : List Byte) (h : a.length = b.length) : (xorBlock a b).length = a.length := by
  simp [xorBlock, h]

theorem xorBlock_cancel (a b : List Byte) (h : a.length = b.length) : xorBlock (xorBlock a b) b = a := by
  induction a generalizing b with
  | nil => simp [xorBlock]
  | cons x xs ih =>
    cases b with
    | nil => simp at h
    | cons y ys =>
      simp only [List.length_cons, Nat.add_right_cancel_iff] at h
      have := ih ys h
      simp only [xorBlock, List.zipWith_cons_cons] at this ⊢
      rw [this]
      congr 1
      rw [UInt8.xor_assoc, UInt8.xor_self, UInt8.xor_zero]

/-- decrypting with the state the encrypter started from returns the plaintext blocks and leaves both
    sides in the same state (the last ciphertext block) -/
theorem cbc_roundtrip (c : BlockCipher) (hc : c.OK) (iv : List Byte) (hiv : iv.length = 32)
    (bs : List (List Byte)) (hbs : ∀ b ∈ bs, b.length = 32) :
    cbcDec c iv (cbcEnc c iv bs).1 = (bs, (cbcEnc c iv bs).2) ∧ (cbcEnc c iv bs).2.length = 32 := by
  induction bs generalizing iv with
  | nil => simp [cbcEnc, cbcDec, hiv]
  | cons b bs ih =>
    have hb : b.length = 32 := hbs b (by simp)
    have hx : (xorBlock b iv).length = 32 := by rw [xorBlock_length _ _ (by omega)]; exact hb
    obtain ⟨hE, hD⟩ := hc _ hx
    have := ih (c.E (xorBlock b iv)) hE (fun y hy => hbs y (by simp [hy]))
    simp only [cbcEnc, cbcDec]
    rw [this.1, hD, xorBlock_cancel _ _ (by omega)]
    exact ⟨rfl, this.2⟩

/-- every frame of a stream written on one encrypter is recovered by a decrypter that started from the same
    state; afterwards both are in the same state again -/
theorem stream_roundtrip (c : BlockCipher) (hc : c.OK) (iv : List Byte) (hiv : iv.length = 32)
    (fs : List (List (List Byte))) (hfs : ∀ f ∈ fs, ∀ b ∈ f, b.length = 32) :
    decFrames c iv (encFrames c iv fs).1 = (fs, (encFrames c iv fs).2) := by
  induction fs generalizing iv with
  | nil => simp [encFrames, decFrames]
  | cons f fs ih =>
    have h1 := cbc_roundtrip c hc iv hiv f (hfs f (by simp))
    have h2 := ih (cbcEnc c iv f).2 h1.2 (fun g hg => hfs g (by simp [hg]))
    simp only [encFrames, decFrames]
    rw [h1.1, h2]

/-- decrypting a block-aligned stream does not depend on how it is cut into block-aligned pieces -/
theorem cbcDec_append (c : BlockCipher) (iv : List Byte) (a b : List (List Byte)) :
    cbcDec c iv (a ++ b) = ((cbcDec c iv a).1 ++ (cbcDec c (cbcDec c iv a).2 b).1, (cbcDec c (cbcDec c iv a).2 b).2) := by
  induction a generalizing iv with
  | nil => simp [cbcDec]
  | cons x xs ih => simp only [List.cons_append, cbcDec]; rw [ih]

theorem blocksOf_spec (f : Nat) (bs : List Byte) (hf : bs.length < f) (hm : bs.length % 32 = 0) :
    (blocksOf f bs).flatten = bs ∧ ∀ b ∈ blocksOf f bs, b.length = 32 := by
  induction f generalizing bs with
  | zero => omega
  | succ f ih =>
    unfold blocksOf
    by_cases he : bs.isEmpty
    · simp [he]; simpa using he
    · have hne : bs ≠ [] := by simpa using he
      have hl : 32 ≤ bs.length := by
        have : 0 < bs.length := List.length_pos_iff.mpr hne
        omega
      have := ih (bs.drop 32) (by simp; omega) (by simp; omega)
      simp only [he]
      constructor
      · simp [this.1]
      · intro b hb
        simp at hb
        rcases hb with rfl | hb
        · simp; omega
        · exact this.2 b hb

theorem toBlocks_spec (bs : List Byte) (hm : bs.length % 32 = 0) :
    (toBlocks bs).flatten = bs ∧ ∀ b ∈ toBlocks bs, b.length = 32 :=
  blocksOf_spec _ bs (by omega) hm

theorem mkKey_length (k : List Byte) : (mkKey k).length = 32 := by
  simp [mkKey, Gen.C.keySize]; omega

end Rscp.Lemmas.Crypt
