import Rscp.Model.Receive
import Rscp.Props.C03
