import Rscp.Model.Receive
import Rscp.Props.C03
namespace Rscp.Lemmas.Receive
open Rscp Rscp.Model Rscp.Lemmas.Decode

/-! ## the pieces `conn.Read` returns -/

theorem splitSeg_spec (cap : Nat) (hcap : 0 < cap) :
    ∀ (f : Nat) (seg : List Byte), seg.length < f →
      (splitSeg cap f seg).flatten = seg ∧ ∀ p ∈ splitSeg cap f seg, p ≠ []
  | 0, seg, h => by omega
  | f+1, seg, h => by
    unfold splitSeg
    cases seg with
    | nil => simp
    | cons a l =>
      have hc : cap ≠ 0 := by omega
      simp only [List.isEmpty_cons, Bool.false_eq_true, if_false, hc]
      have ih := splitSeg_spec cap hcap f ((a :: l).drop cap) (by
        rw [List.length_drop]; simp only [List.length_cons] at h ⊢; omega)
      constructor
      · rw [List.flatten_cons, ih.1, List.take_append_drop]
      · intro p hp
        rcases List.mem_cons.mp hp with rfl | hp
        · intro h0
          have := congrArg List.length h0
          rw [List.length_take] at this
          simp only [List.length_cons, List.length_nil] at this
          omega
        · exact ih.2 p hp

theorem reads_spec (cap : Nat) (hcap : 0 < cap) (segs : List (List Byte)) :
    (reads cap segs).flatten = segs.flatten ∧ ∀ p ∈ reads cap segs, p ≠ [] := by
  induction segs with
  | nil => simp [reads]
  | cons s segs ih =>
    have hs := splitSeg_spec cap hcap (s.length + 1) s (by omega)
    have e : reads cap (s :: segs) = splitSeg cap (s.length + 1) s ++ reads cap segs := by
      simp [reads]
    rw [e]
    constructor
    · rw [List.flatten_append, hs.1, ih.1, List.flatten_cons]
    · intro p hp
      rcases List.mem_append.mp hp with hp | hp
      · exact hs.2 p hp
      · exact ih.2 p hp

theorem splitSeg_zero : ∀ (f : Nat) (seg : List Byte), splitSeg 0 f seg = []
  | 0, _ => rfl
  | f+1, seg => by unfold splitSeg; cases seg <;> simp

theorem reads_zero (segs : List (List Byte)) : reads 0 segs = [] := by
  induction segs with
  | nil => simp [reads]
  | cons s segs ih =>
    have e : reads 0 (s :: segs) = splitSeg 0 (s.length + 1) s ++ reads 0 segs := by simp [reads]
    rw [e, ih, splitSeg_zero]; rfl

theorem cap_pos (b : Nat) (hb : 0 < b ∧ b ≤ 2049) : 0 < uwrap 32 (Gen.C.RSCP_CRYPT_BLOCK_SIZE * b) := by
  have e : uwrap 32 (Gen.C.RSCP_CRYPT_BLOCK_SIZE * b) = 32 * b % 4294967296 := rfl
  rw [e]; omega

/-! ## the loop, one step unfolded -/

/-- the results after which the loop reads on -/
def cont : Res (List Msg) → Bool
  | .err .invalidFrameLength => true
  | .ok [] => true
  | _ => false

/-- whether the loop disconnects when it stops with this result -/
def disc : Res (List Msg) → Bool
  | .err _ => true
  | _ => false

/-- the number of bytes of `l` that make whole blocks -/
def whole (l : List Byte) : Nat := l.length - l.length % 32

theorem recvLoop_nil (st : RState) (pending fed : List Byte) :
    recvLoop st pending fed [] = { result := .err .io, disconnected := true, fed := fed } := rfl

theorem recvLoop_cons (st : RState) (pending fed piece : List Byte) (rest : List (List Byte)) :
    recvLoop st pending fed (piece :: rest) =
    if piece.isEmpty then { result := .err .invalidFrameLength, disconnected := true, fed := fed } else
    let pend := pending ++ piece
    let n := pend.length - pend.length % Gen.C.RSCP_CRYPT_BLOCK_SIZE
    if n = 0 then recvLoop st pend fed rest else
    let blocks := pend.take n
    let (st', r) := readPlain st blocks
    let fed' := fed ++ blocks
    match r with
    | .err .invalidFrameLength => recvLoop st' (pend.drop n) fed' rest
    | .err e => { result := .err e, disconnected := true, fed := fed' }
    | .panic => { result := .panic, disconnected := false, fed := fed' }
    | .ok [] => recvLoop st' (pend.drop n) fed' rest
    | .ok (m :: ms) => { result := .ok (m :: ms), disconnected := false, fed := fed' } := by
  rfl

theorem recvLoop_short (st : RState) (pending fed piece : List Byte) (rest : List (List Byte))
    (hp : piece ≠ []) (hn : (pending ++ piece).length < 32) :
    recvLoop st pending fed (piece :: rest) = recvLoop st (pending ++ piece) fed rest := by
  rw [recvLoop_cons]
  have he : piece.isEmpty = false := by cases piece <;> simp at hp ⊢
  have h0 : (pending ++ piece).length - (pending ++ piece).length % Gen.C.RSCP_CRYPT_BLOCK_SIZE = 0 := by
    show (pending ++ piece).length - (pending ++ piece).length % 32 = 0
    omega
  simp only [he, Bool.false_eq_true, if_false, h0, if_true]

theorem recvLoop_call (st : RState) (pending fed piece : List Byte) (rest : List (List Byte))
    (hp : piece ≠ []) (hn : 32 ≤ (pending ++ piece).length) :
    recvLoop st pending fed (piece :: rest) =
      if cont (readPlain st ((pending ++ piece).take (whole (pending ++ piece)))).2 then
        recvLoop (readPlain st ((pending ++ piece).take (whole (pending ++ piece)))).1
          ((pending ++ piece).drop (whole (pending ++ piece)))
          (fed ++ (pending ++ piece).take (whole (pending ++ piece))) rest
      else
        { result := (readPlain st ((pending ++ piece).take (whole (pending ++ piece)))).2
          disconnected := disc (readPlain st ((pending ++ piece).take (whole (pending ++ piece)))).2
          fed := fed ++ (pending ++ piece).take (whole (pending ++ piece)) } := by
  rw [recvLoop_cons]
  have he : piece.isEmpty = false := by cases piece <;> simp at hp ⊢
  have hw : (pending ++ piece).length - (pending ++ piece).length % Gen.C.RSCP_CRYPT_BLOCK_SIZE
      = whole (pending ++ piece) := rfl
  have h0 : whole (pending ++ piece) ≠ 0 := by unfold whole; omega
  simp only [he, Bool.false_eq_true, if_false, hw, h0]
  generalize readPlain st ((pending ++ piece).take (whole (pending ++ piece))) = q
  obtain ⟨st', r⟩ := q
  cases r with
  | ok l => cases l <;> simp [cont, disc]
  | err e => cases e <;> simp [cont, disc]
  | panic => simp [cont, disc]

/-! ## `whole` -/

theorem whole_le (l : List Byte) : whole l ≤ l.length := by unfold whole; omega
theorem whole_mod (l : List Byte) : whole l % 32 = 0 := by unfold whole; omega
theorem whole_ge (l : List Byte) (h : 32 ≤ l.length) : 32 ≤ whole l := by unfold whole; omega
theorem whole_rest (l : List Byte) : l.length - whole l < 32 := by unfold whole; omega

theorem length_take_whole (l : List Byte) : (l.take (whole l)).length = whole l := by
  rw [List.length_take]; exact Nat.min_eq_left (whole_le l)

theorem goodChunk_whole (l : List Byte) (h : 32 ≤ l.length) : GoodChunk (l.take (whole l)) := by
  unfold GoodChunk; rw [length_take_whole]; exact ⟨whole_ge l h, whole_mod l⟩

/-! ## no byte is lost; no panic -/

theorem recvLoop_fed : ∀ (rest : List (List Byte)) (st : RState) (pending fed : List Byte),
    (∀ p ∈ rest, p ≠ []) → fed.length % 32 = 0 →
    ∃ k, (recvLoop st pending fed rest).fed = (fed ++ (pending ++ rest.flatten)).take (32 * k)
  | [], st, pending, fed, _, hf => by
    refine ⟨fed.length / 32, ?_⟩
    rw [recvLoop_nil]
    have e : 32 * (fed.length / 32) = fed.length := by omega
    rw [e, List.take_left']
    rfl
  | piece :: rest, st, pending, fed, hne, hf => by
    have hp : piece ≠ [] := hne piece (List.mem_cons_self ..)
    have hne' : ∀ p ∈ rest, p ≠ [] := fun p h => hne p (List.mem_cons_of_mem _ h)
    have hS : fed ++ (pending ++ (piece :: rest).flatten) = fed ++ ((pending ++ piece) ++ rest.flatten) := by
      rw [List.flatten_cons, List.append_assoc]
    rw [hS]
    by_cases hlen : (pending ++ piece).length < 32
    · rw [recvLoop_short st pending fed piece rest hp hlen]
      exact recvLoop_fed rest st (pending ++ piece) fed hne' hf
    · have hlen' : 32 ≤ (pending ++ piece).length := Nat.le_of_not_lt hlen
      rw [recvLoop_call st pending fed piece rest hp hlen']
      generalize pending ++ piece = pend at *
      have hw := length_take_whole pend
      have hwm := whole_mod pend
      have hS' : fed ++ (pend ++ rest.flatten) =
          (fed ++ pend.take (whole pend)) ++ (pend.drop (whole pend) ++ rest.flatten) := by
        rw [List.append_assoc, ← List.append_assoc (pend.take _), List.take_append_drop]
      have hf' : (fed ++ pend.take (whole pend)).length % 32 = 0 := by
        rw [List.length_append, hw]; omega
      rw [hS']
      split
      · exact recvLoop_fed rest _ _ _ hne' hf'
      · refine ⟨(fed ++ pend.take (whole pend)).length / 32, ?_⟩
        have e : 32 * ((fed ++ pend.take (whole pend)).length / 32) = (fed ++ pend.take (whole pend)).length := by
          omega
        rw [e, List.take_left']
        rfl

theorem recvLoop_no_panic : ∀ (rest : List (List Byte)) (st : RState) (pending fed : List Byte),
    (∀ p ∈ rest, p ≠ []) → Reachable st → (recvLoop st pending fed rest).result ≠ .panic
  | [], st, pending, fed, _, _ => by
    rw [recvLoop_nil]; intro h; cases h
  | piece :: rest, st, pending, fed, hne, hr => by
    have hp : piece ≠ [] := hne piece (List.mem_cons_self ..)
    have hne' : ∀ p ∈ rest, p ≠ [] := fun p h => hne p (List.mem_cons_of_mem _ h)
    by_cases hlen : (pending ++ piece).length < 32
    · rw [recvLoop_short st pending fed piece rest hp hlen]
      exact recvLoop_no_panic rest st _ fed hne' hr
    · rw [recvLoop_call st pending fed piece rest hp (Nat.le_of_not_lt hlen)]
      split
      · exact recvLoop_no_panic rest _ _ _ hne' (Reachable.step _ hr)
      · exact Props.C03.decode_total st hr _

/-! ## what the loop returns depends on the stream only -/

/-- the observable part of what the loop did -/
def out (o : RecvOut) : Res (List Msg) × Bool := (o.result, o.disconnected)

/-- what the caller sees when `Read` answered `r` on a buffer that covers the frame and the rest of the
    stream is padding: a final answer ends the loop, otherwise it reads until the connection fails -/
def classify (r : Res (List Msg)) : Res (List Msg) × Bool :=
  if cont r then (.err .io, true) else (r, disc r)

/-- the outcome once the header `(cf, fs, ds)` has been read -/
def verdict (cf : Bool) (fs ds : Nat) (S : List Byte) : Res (List Msg) × Bool :=
  if 32 * (S.length / 32) < fs then (.err .io, true)
  else classify (decodeComplete (S.take fs) cf fs ds)

/-- the outcome of `receive` as a function of the reply stream alone -/
def outcome (S : List Byte) : Res (List Msg) × Bool :=
  if S.length < 32 then (.err .io, true) else
  match readHeader (S.take 32) with
  | .ok (cf, fs, ds) => verdict cf fs ds S
  | .err e => (.err e, true)
  | .panic => (.panic, false)

/-- one-shot decoding of a block-aligned prefix of a stream whose tail is padding -/
theorem decodeFrame_prefix {q t : List Byte} {cf : Bool} {fs ds : Nat} (hg : GoodChunk q)
    (hh : readHeader q = .ok (cf, fs, ds)) (hz : ((q ++ t).drop fs).all (· == 0) = true) :
    decodeFrame q =
      if q.length < fs then .err .invalidFrameLength else decodeComplete ((q ++ t).take fs) cf fs ds := by
  rw [decodeFrame_eq_frameResult hg hh]
  unfold frameResult
  by_cases hlt : q.length < fs
  · rw [if_pos hlt, if_pos hlt]
  · have hle : fs ≤ q.length := Nat.le_of_not_lt hlt
    rw [if_neg hlt, if_neg hlt]
    rw [List.drop_append_of_le_length hle, List.all_append, Bool.and_eq_true] at hz
    rw [if_pos hz.1, List.take_append_of_le_length hle]

/-- the step after a call of `Read` that answered for the prefix `q` -/
theorem after_call (cf : Bool) (fs ds : Nat) (S : List Byte) (hz : (S.drop fs).all (· == 0) = true)
    (rest : List (List Byte))
    (hrec : ∀ (st : RState) (pending fed : List Byte), ChunkInv cf fs ds st fed → pending.length < 32 →
      S = fed ++ (pending ++ rest.flatten) →
      (fs ≤ fed.length → cont (decodeComplete (S.take fs) cf fs ds) = true) →
      out (recvLoop st pending fed rest) = verdict cf fs ds S)
    (st' : RState) (q pending' : List Byte) (r : Res (List Msg))
    (hinv : ChunkInv cf fs ds st' q) (hp : pending'.length < 32)
    (hS : S = q ++ (pending' ++ rest.flatten)) (hr : r = decodeFrame q) :
    out (if cont r then recvLoop st' pending' q rest
         else { result := r, disconnected := disc r, fed := q }) = verdict cf fs ds S := by
  obtain ⟨_, _, _, hg, hh, _⟩ := id hinv
  have hdf := decodeFrame_prefix (t := pending' ++ rest.flatten) hg hh (hS ▸ hz)
  rw [← hS] at hdf
  rw [hr, hdf]
  by_cases hlt : q.length < fs
  · rw [if_pos hlt]
    have hc : cont (Res.err ErrClass.invalidFrameLength : Res (List Msg)) = true := rfl
    rw [if_pos hc]
    exact hrec st' pending' q hinv hp hS (fun h => absurd hlt (Nat.not_lt.mpr h))
  · rw [if_neg hlt]
    by_cases hc : cont (decodeComplete (S.take fs) cf fs ds) = true
    · rw [if_pos hc]
      exact hrec st' pending' q hinv hp hS (fun _ => hc)
    · rw [if_neg hc]
      have hlen : S.length = q.length + (pending'.length + rest.flatten.length) := by
        rw [hS, List.length_append, List.length_append]
      have hq := hg.2
      have hnl : ¬ 32 * (S.length / 32) < fs := by omega
      unfold verdict classify
      rw [if_neg hnl, if_neg hc]
      rfl

theorem loop_running (cf : Bool) (fs ds : Nat) (S : List Byte) (hz : (S.drop fs).all (· == 0) = true) :
    ∀ (rest : List (List Byte)) (st : RState) (pending fed : List Byte), (∀ p ∈ rest, p ≠ []) →
      ChunkInv cf fs ds st fed → pending.length < 32 →
      S = fed ++ (pending ++ rest.flatten) →
      (fs ≤ fed.length → cont (decodeComplete (S.take fs) cf fs ds) = true) →
      out (recvLoop st pending fed rest) = verdict cf fs ds S
  | [], st, pending, fed, _, hinv, hp, hS, hc => by
    rw [recvLoop_nil]
    have hlen : S.length = fed.length + pending.length := by
      rw [hS, List.flatten_nil, List.append_nil, List.length_append]
    have hq := hinv.2.2.2.1.2
    unfold verdict
    by_cases hlt : 32 * (S.length / 32) < fs
    · rw [if_pos hlt]; rfl
    · rw [if_neg hlt]
      unfold classify
      rw [if_pos (hc (by omega))]; rfl
  | piece :: rest, st, pending, fed, hne, hinv, hp, hS, hc => by
    have hpn : piece ≠ [] := hne piece (List.mem_cons_self ..)
    have hne' : ∀ p ∈ rest, p ≠ [] := fun p h => hne p (List.mem_cons_of_mem _ h)
    have ih := fun st pending fed => loop_running cf fs ds S hz rest st pending fed hne'
    rw [List.flatten_cons, ← List.append_assoc pending] at hS
    by_cases hlen : (pending ++ piece).length < 32
    · rw [recvLoop_short st pending fed piece rest hpn hlen]
      exact ih st _ fed hinv hlen hS hc
    · have hlen' : 32 ≤ (pending ++ piece).length := Nat.le_of_not_lt hlen
      rw [recvLoop_call st pending fed piece rest hpn hlen']
      generalize pending ++ piece = pend at *
      have hgb := goodChunk_whole pend hlen'
      obtain ⟨r1, r2⟩ := chunkInv_step (pend.take (whole pend)) hinv hgb
      have hS' : S = (fed ++ pend.take (whole pend)) ++ (pend.drop (whole pend) ++ rest.flatten) := by
        rw [hS, List.append_assoc, ← List.append_assoc (pend.take _), List.take_append_drop]
      have hp' : (pend.drop (whole pend)).length < 32 := by
        rw [List.length_drop]; exact whole_rest pend
      exact after_call cf fs ds S hz rest ih _ _ _ _ r2 hp' hS' r1

theorem readHeader_take32 (l : List Byte) (h : 32 ≤ l.length) : readHeader (l.take 32) = readHeader l := by
  have := readHeader_append (l.take 32) (l.drop 32) (by rw [List.length_take]; omega)
  rw [List.take_append_drop] at this
  exact this.symm

theorem cont_err_false {e : ErrClass} (h : e ≠ .invalidFrameLength) :
    cont (Res.err e : Res (List Msg)) = false := by
  cases e <;> first | rfl | exact absurd rfl h

theorem loop_start (S : List Byte)
    (hclean : ∀ cf fs ds, readHeader (S.take 32) = .ok (cf, fs, ds) → (S.drop fs).all (· == 0) = true) :
    ∀ (rest : List (List Byte)) (pending : List Byte), (∀ p ∈ rest, p ≠ []) → pending.length < 32 →
      S = pending ++ rest.flatten →
      out (recvLoop ({} : RState) pending [] rest) = outcome S
  | [], pending, _, hp, hS => by
    rw [recvLoop_nil]
    have hlen : S.length < 32 := by rw [hS, List.flatten_nil, List.append_nil]; exact hp
    unfold outcome
    rw [if_pos hlen]; rfl
  | piece :: rest, pending, hne, hp, hS => by
    have hpn : piece ≠ [] := hne piece (List.mem_cons_self ..)
    have hne' : ∀ p ∈ rest, p ≠ [] := fun p h => hne p (List.mem_cons_of_mem _ h)
    rw [List.flatten_cons, ← List.append_assoc pending] at hS
    by_cases hlen : (pending ++ piece).length < 32
    · rw [recvLoop_short _ pending [] piece rest hpn hlen]
      exact loop_start S hclean rest _ hne' hlen hS
    · have hlen' : 32 ≤ (pending ++ piece).length := Nat.le_of_not_lt hlen
      rw [recvLoop_call _ pending [] piece rest hpn hlen']
      generalize pending ++ piece = pend at *
      have hgb := goodChunk_whole pend hlen'
      have hwl := length_take_whole pend
      have hwg := whole_ge pend hlen'
      have hS' : S = pend.take (whole pend) ++ (pend.drop (whole pend) ++ rest.flatten) := by
        rw [hS, ← List.append_assoc, List.take_append_drop]
      have hp' : (pend.drop (whole pend)).length < 32 := by
        rw [List.length_drop]; exact whole_rest pend
      have hSlen : ¬ S.length < 32 := by
        rw [hS, List.length_append]; omega
      have hhead : readHeader (S.take 32) = readHeader (pend.take (whole pend)) := by
        rw [hS', List.take_append_of_le_length (by omega), readHeader_take32 _ (by omega)]
      have h18 : 18 ≤ (pend.take (whole pend)).length := by omega
      rw [List.nil_append]
      cases hh : readHeader (pend.take (whole pend)) with
      | ok p =>
        obtain ⟨cf, fs, ds⟩ := p
        have hz := hclean cf fs ds (hhead.trans hh)
        have hinv := chunkInv_first hgb hh
        have hv : outcome S = verdict cf fs ds S := by
          unfold outcome
          rw [if_neg hSlen, hhead, hh]
        rw [hv]
        exact after_call cf fs ds S hz rest
          (fun st pending fed => loop_running cf fs ds S hz rest st pending fed hne') _ _ _ _ hinv hp' hS' rfl
      | err e =>
        have hne := readHeader_err_ne h18 hh
        rw [readPlain_empty _ _ rfl hgb, hh]
        simp only
        rw [cont_err_false hne, if_neg (by intro h; cases h)]
        unfold outcome
        rw [if_neg hSlen, hhead, hh]
        rfl
      | panic => exact absurd hh (readHeader_ne_panic h18)

/-- `receive` returns what the stream determines, however it is delivered and buffered -/
theorem receive_outcome (b : Nat) (hb : 0 < b ∧ b ≤ 2049) (segs : List (List Byte))
    (hclean : ∀ cf fs ds, readHeader (segs.flatten.take 32) = .ok (cf, fs, ds) →
      (segs.flatten.drop fs).all (· == 0) = true) :
    out (receiveBytes b segs) = outcome segs.flatten := by
  obtain ⟨h1, h2⟩ := reads_spec _ (cap_pos b hb) segs
  unfold receiveBytes
  exact loop_start _ hclean _ [] h2 (by simp) (by rw [h1]; rfl)

/-- "every byte from `fs` on is zero", in the form the decoder lemmas use -/
theorem all_zero_of_getD (S : List Byte) (fs : Nat) (h : ∀ i, fs ≤ i → S.getD i 0 = 0) :
    (S.drop fs).all (· == 0) = true := by
  cases hz : (S.drop fs).all (· == 0) with
  | true => rfl
  | false =>
    obtain ⟨i, hi, hle, hne⟩ := (not_all_zero_iff S fs).mp hz
    have := h i hle
    rw [List.getD_eq_getElem?_getD, List.getElem?_eq_getElem hi, Option.getD_some] at this
    exact absurd this hne

/-- a stream that is one accepted frame: its tail is padding and the outcome is the frame's messages -/
theorem complete_outcome (S : List Byte) (hg : GoodChunk S) (m : Msg) (ms : List Msg)
    (hdec : decodeFrame S = .ok (m :: ms)) :
    (∀ cf fs ds, readHeader (S.take 32) = .ok (cf, fs, ds) → (S.drop fs).all (· == 0) = true) ∧
    outcome S = (.ok (m :: ms), false) := by
  have h32 : 32 ≤ S.length := hg.1
  have h18 : 18 ≤ S.length := by omega
  cases hh : readHeader S with
  | ok p =>
    obtain ⟨cf, fs, ds⟩ := p
    rw [decodeFrame_eq_frameResult hg hh] at hdec
    unfold frameResult at hdec
    by_cases hlt : S.length < fs
    · rw [if_pos hlt] at hdec; cases hdec
    · rw [if_neg hlt] at hdec
      cases hz : (S.drop fs).all (· == 0) with
      | false => rw [hz] at hdec; cases hdec
      | true =>
        rw [hz, if_pos rfl] at hdec
        constructor
        · intro cf' fs' ds' h
          rw [readHeader_take32 S h32, hh] at h
          cases h
          exact hz
        · have hm := hg.2
          have hnl : ¬ 32 * (S.length / 32) < fs := by omega
          unfold outcome verdict
          rw [if_neg (Nat.not_lt.mpr h32), readHeader_take32 S h32, hh]
          simp only
          rw [if_neg hnl, hdec]
          rfl
  | err e =>
    unfold decodeFrame at hdec
    rw [readPlain_empty _ _ rfl hg, hh] at hdec
    cases hdec
  | panic => exact absurd hh (readHeader_ne_panic h18)

end Rscp.Lemmas.Receive
