/-
Lemmas for `Props/C08b.lean` (layer soundness): a strengthening of `Lemmas.Receive.receive_outcome` that
asks for a zero tail only inside the whole blocks of the stream (the bytes of a trailing partial block are
never handed to the decoder), and the value of `outcome` for the byte strings a token stands for.
-/
import Rscp.Lemmas.Receive
namespace Rscp.Lemmas.Layers
open Rscp Rscp.Model Rscp.Lemmas.Decode Rscp.Lemmas.Receive

/-! ## the trailing partial block is irrelevant -/

/-- `decodeFrame_prefix`, asking for zeros only up to the last whole block of the stream -/
theorem decodeFrame_prefix_whole {q t : List Byte} {cf : Bool} {fs ds : Nat} (hg : GoodChunk q)
    (hh : readHeader q = .ok (cf, fs, ds))
    (hz : (((q ++ t).take (whole (q ++ t))).drop fs).all (· == 0) = true) :
    decodeFrame q =
      if q.length < fs then .err .invalidFrameLength else decodeComplete ((q ++ t).take fs) cf fs ds := by
  have hq := hg.2
  have hw : q.length ≤ whole (q ++ t) := by
    unfold whole; rw [List.length_append]; omega
  have hwl : whole (q ++ t) ≤ (q ++ t).length := whole_le _
  -- the whole blocks of the stream are `q` and something behind it
  have hsplit : (q ++ t).take (whole (q ++ t)) = q ++ t.take (whole (q ++ t) - q.length) := by
    rw [List.take_append]
    rw [List.take_of_length_le hw]
  rw [hsplit] at hz
  have h := decodeFrame_prefix (t := t.take (whole (q ++ t) - q.length)) hg hh hz
  rw [h]
  by_cases hlt : q.length < fs
  · rw [if_pos hlt, if_pos hlt]
  · have hle : fs ≤ q.length := Nat.le_of_not_lt hlt
    rw [if_neg hlt, if_neg hlt, List.take_append_of_le_length hle, List.take_append_of_le_length hle]

/-- `after_call` with the weaker tail hypothesis -/
theorem after_call_whole (cf : Bool) (fs ds : Nat) (S : List Byte)
    (hz : ((S.take (whole S)).drop fs).all (· == 0) = true)
    (rest : List (List Byte))
    (hrec : ∀ (st : RState) (pending fed : List Byte), ChunkInv cf fs ds st fed → pending.length < 32 →
      S = fed ++ (pending ++ rest.flatten) →
      (fs ≤ fed.length → cont (decodeComplete (S.take fs) cf fs ds) = true) →
      out (recvLoop st pending fed rest) = verdict cf fs ds S)
    (st' : RState) (q pending' : List Byte) (r : Res (List Msg))
    (hinv : ChunkInv cf fs ds st' q) (hp : pending'.length < 32)
    (hS : S = q ++ (pending' ++ rest.flatten)) (hr : r = decodeFrame q) :
    out (if cont r then recvLoop st' pending' q rest
         else { result := r, disconnected := disc r, fed := q }) = verdict cf fs ds S := by
  obtain ⟨_, _, _, hg, hh, _⟩ := id hinv
  have hdf := decodeFrame_prefix_whole (t := pending' ++ rest.flatten) hg hh (hS ▸ hz)
  rw [← hS] at hdf
  rw [hr, hdf]
  by_cases hlt : q.length < fs
  · rw [if_pos hlt]
    have hc : cont (Res.err ErrClass.invalidFrameLength : Res (List Msg)) = true := rfl
    rw [if_pos hc]
    exact hrec st' pending' q hinv hp hS (fun h => absurd hlt (Nat.not_lt.mpr h))
  · rw [if_neg hlt]
    by_cases hc : cont (decodeComplete (S.take fs) cf fs ds) = true
    · rw [if_pos hc]
      exact hrec st' pending' q hinv hp hS (fun _ => hc)
    · rw [if_neg hc]
      have hlen : S.length = q.length + (pending'.length + rest.flatten.length) := by
        rw [hS, List.length_append, List.length_append]
      have hq := hg.2
      have hnl : ¬ 32 * (S.length / 32) < fs := by omega
      unfold verdict classify
      rw [if_neg hnl, if_neg hc]
      rfl

theorem loop_running_whole (cf : Bool) (fs ds : Nat) (S : List Byte)
    (hz : ((S.take (whole S)).drop fs).all (· == 0) = true) :
    ∀ (rest : List (List Byte)) (st : RState) (pending fed : List Byte), (∀ p ∈ rest, p ≠ []) →
      ChunkInv cf fs ds st fed → pending.length < 32 →
      S = fed ++ (pending ++ rest.flatten) →
      (fs ≤ fed.length → cont (decodeComplete (S.take fs) cf fs ds) = true) →
      out (recvLoop st pending fed rest) = verdict cf fs ds S
  | [], st, pending, fed, _, hinv, hp, hS, hc => by
    rw [recvLoop_nil]
    have hlen : S.length = fed.length + pending.length := by
      rw [hS, List.flatten_nil, List.append_nil, List.length_append]
    have hq := hinv.2.2.2.1.2
    unfold verdict
    by_cases hlt : 32 * (S.length / 32) < fs
    · rw [if_pos hlt]; rfl
    · rw [if_neg hlt]
      unfold classify
      rw [if_pos (hc (by omega))]; rfl
  | piece :: rest, st, pending, fed, hne, hinv, hp, hS, hc => by
    have hpn : piece ≠ [] := hne piece (List.mem_cons_self ..)
    have hne' : ∀ p ∈ rest, p ≠ [] := fun p h => hne p (List.mem_cons_of_mem _ h)
    have ih := fun st pending fed => loop_running_whole cf fs ds S hz rest st pending fed hne'
    rw [List.flatten_cons, ← List.append_assoc pending] at hS
    by_cases hlen : (pending ++ piece).length < 32
    · rw [recvLoop_short st pending fed piece rest hpn hlen]
      exact ih st _ fed hinv hlen hS hc
    · have hlen' : 32 ≤ (pending ++ piece).length := Nat.le_of_not_lt hlen
      rw [recvLoop_call st pending fed piece rest hpn hlen']
      generalize pending ++ piece = pend at *
      have hgb := goodChunk_whole pend hlen'
      obtain ⟨r1, r2⟩ := chunkInv_step (pend.take (whole pend)) hinv hgb
      have hS' : S = (fed ++ pend.take (whole pend)) ++ (pend.drop (whole pend) ++ rest.flatten) := by
        rw [hS, List.append_assoc, ← List.append_assoc (pend.take _), List.take_append_drop]
      have hp' : (pend.drop (whole pend)).length < 32 := by
        rw [List.length_drop]; exact whole_rest pend
      exact after_call_whole cf fs ds S hz rest ih _ _ _ _ r2 hp' hS' r1

theorem loop_start_whole (S : List Byte)
    (hclean : ∀ cf fs ds, readHeader (S.take 32) = .ok (cf, fs, ds) →
      ((S.take (whole S)).drop fs).all (· == 0) = true) :
    ∀ (rest : List (List Byte)) (pending : List Byte), (∀ p ∈ rest, p ≠ []) → pending.length < 32 →
      S = pending ++ rest.flatten →
      out (recvLoop ({} : RState) pending [] rest) = outcome S
  | [], pending, _, hp, hS => by
    rw [recvLoop_nil]
    have hlen : S.length < 32 := by rw [hS, List.flatten_nil, List.append_nil]; exact hp
    unfold outcome
    rw [if_pos hlen]; rfl
  | piece :: rest, pending, hne, hp, hS => by
    have hpn : piece ≠ [] := hne piece (List.mem_cons_self ..)
    have hne' : ∀ p ∈ rest, p ≠ [] := fun p h => hne p (List.mem_cons_of_mem _ h)
    rw [List.flatten_cons, ← List.append_assoc pending] at hS
    by_cases hlen : (pending ++ piece).length < 32
    · rw [recvLoop_short _ pending [] piece rest hpn hlen]
      exact loop_start_whole S hclean rest _ hne' hlen hS
    · have hlen' : 32 ≤ (pending ++ piece).length := Nat.le_of_not_lt hlen
      rw [recvLoop_call _ pending [] piece rest hpn hlen']
      generalize pending ++ piece = pend at *
      have hgb := goodChunk_whole pend hlen'
      have hwl := length_take_whole pend
      have hwg := whole_ge pend hlen'
      have hS' : S = pend.take (whole pend) ++ (pend.drop (whole pend) ++ rest.flatten) := by
        rw [hS, ← List.append_assoc, List.take_append_drop]
      have hp' : (pend.drop (whole pend)).length < 32 := by
        rw [List.length_drop]; exact whole_rest pend
      have hSlen : ¬ S.length < 32 := by
        rw [hS, List.length_append]; omega
      have hhead : readHeader (S.take 32) = readHeader (pend.take (whole pend)) := by
        rw [hS', List.take_append_of_le_length (by omega), readHeader_take32 _ (by omega)]
      have h18 : 18 ≤ (pend.take (whole pend)).length := by omega
      rw [List.nil_append]
      cases hh : readHeader (pend.take (whole pend)) with
      | ok p =>
        obtain ⟨cf, fs, ds⟩ := p
        have hz := hclean cf fs ds (hhead.trans hh)
        have hinv := chunkInv_first hgb hh
        have hv : outcome S = verdict cf fs ds S := by
          unfold outcome
          rw [if_neg hSlen, hhead, hh]
        rw [hv]
        exact after_call_whole cf fs ds S hz rest
          (fun st pending fed => loop_running_whole cf fs ds S hz rest st pending fed hne') _ _ _ _ hinv hp' hS' rfl
      | err e =>
        have hne := readHeader_err_ne h18 hh
        rw [readPlain_empty _ _ rfl hgb, hh]
        simp only
        rw [cont_err_false hne, if_neg (by intro h; cases h)]
        unfold outcome
        rw [if_neg hSlen, hhead, hh]
        rfl
      | panic => exact absurd hh (readHeader_ne_panic h18)

/-- **`receive_outcome`, strengthened**: the stream only has to be zero behind the announced frame *within its
    whole blocks*; what a trailing partial block holds does not matter, because the loop never hands it to the
    decoder. -/
theorem receive_outcome_whole (b : Nat) (hb : 0 < b ∧ b ≤ 2049) (segs : List (List Byte))
    (hclean : ∀ cf fs ds, readHeader (segs.flatten.take 32) = .ok (cf, fs, ds) →
      ((segs.flatten.take (whole segs.flatten)).drop fs).all (· == 0) = true) :
    out (receiveBytes b segs) = outcome segs.flatten := by
  obtain ⟨h1, h2⟩ := reads_spec _ (cap_pos b hb) segs
  unfold receiveBytes
  exact loop_start_whole _ hclean _ [] h2 (by simp) (by rw [h1]; rfl)

/-- `outcome` does not look at a trailing partial block -/
theorem outcome_take_whole (S : List Byte) : outcome (S.take (whole S)) = outcome S := by
  have hl := length_take_whole S
  have hw : whole S = 32 * (S.length / 32) := by unfold whole; omega
  unfold outcome
  by_cases h32 : S.length < 32
  · have h0 : whole S = 0 := by unfold whole; omega
    rw [if_pos h32, if_pos (by rw [hl, h0]; omega)]
  · have hge : 32 ≤ whole S := whole_ge S (Nat.le_of_not_lt h32)
    rw [if_neg h32, if_neg (by rw [hl]; omega), List.take_take, Nat.min_eq_left hge]
    cases readHeader (S.take 32) with
    | ok p =>
      obtain ⟨cf, fs, ds⟩ := p
      simp only
      unfold verdict
      rw [hl, ← hw]
      have e : 32 * (whole S / 32) = whole S := by have := whole_mod S; omega
      rw [e]
      by_cases hlt : whole S < fs
      · rw [if_pos hlt, if_pos hlt]
      · rw [if_neg hlt, if_neg hlt, List.take_take, Nat.min_eq_left (Nat.le_of_not_lt hlt)]
    | err e => rfl
    | panic => rfl

/-- **the trailing partial block is ignored**: what the caller sees is what the stream cut back to its whole
    blocks determines -/
theorem receive_ignores_partial_tail (b : Nat) (hb : 0 < b ∧ b ≤ 2049) (segs : List (List Byte))
    (hclean : ∀ cf fs ds, readHeader (segs.flatten.take 32) = .ok (cf, fs, ds) →
      ((segs.flatten.take (whole segs.flatten)).drop fs).all (· == 0) = true) :
    out (receiveBytes b segs) = outcome (segs.flatten.take (whole segs.flatten)) := by
  rw [outcome_take_whole]; exact receive_outcome_whole b hb segs hclean

/-- a clean tail on the whole stream gives one on its whole blocks -/
theorem all_zero_take (S : List Byte) (fs n : Nat) (h : (S.drop fs).all (· == 0) = true) :
    ((S.take n).drop fs).all (· == 0) = true := by
  rw [List.all_eq_true] at h ⊢
  intro x hx
  rw [List.drop_take] at hx
  exact h x (List.mem_of_mem_take hx)

/-! ## the outcome of the streams a token stands for -/

/-- a stream too short for the frame its header announces: the call ends when the connection fails -/
theorem outcome_cut_off (S : List Byte) (cf : Bool) (fs ds : Nat) (hlen : 32 ≤ S.length)
    (hh : readHeader (S.take 32) = .ok (cf, fs, ds)) (hshort : S.length - S.length % 32 < fs) :
    outcome S = (.err .io, true) := by
  unfold outcome
  rw [if_neg (Nat.not_lt.mpr hlen), hh]
  simp only
  unfold verdict
  rw [if_pos (by omega)]

/-- a whole-block stream the decoder accepts or rejects with a final answer: header read, frame complete, the
    tail is padding and the answer is that of `decodeComplete` -/
theorem decodeFrame_final (S : List Byte) (hg : GoodChunk S) (r : Res (List Msg))
    (hdec : decodeFrame S = r) (hr : r ≠ .err .invalidFrameLength) :
    (∃ e, readHeader S = .err e ∧ r = .err e) ∨
    (∃ cf fs ds, readHeader S = .ok (cf, fs, ds) ∧ fs ≤ S.length ∧ (S.drop fs).all (· == 0) = true ∧
      decodeComplete (S.take fs) cf fs ds = r) := by
  have h18 : 18 ≤ S.length := by have := hg.1; omega
  cases hh : readHeader S with
  | ok p =>
    obtain ⟨cf, fs, ds⟩ := p
    right
    rw [decodeFrame_eq_frameResult hg hh] at hdec
    unfold frameResult at hdec
    by_cases hlt : S.length < fs
    · rw [if_pos hlt] at hdec; exact absurd hdec.symm hr
    · rw [if_neg hlt] at hdec
      cases hz : (S.drop fs).all (· == 0) with
      | false =>
        rw [hz, if_neg (by intro h; cases h)] at hdec
        exact absurd hdec.symm hr
      | true =>
        rw [hz, if_pos rfl] at hdec
        exact ⟨cf, fs, ds, rfl, Nat.le_of_not_lt hlt, hz, hdec⟩
  | err e =>
    left
    unfold decodeFrame at hdec
    rw [readPlain_empty _ _ rfl hg, hh] at hdec
    exact ⟨e, rfl, hdec.symm⟩
  | panic => exact absurd hh (readHeader_ne_panic h18)

/-- the outcome of a whole-block stream on which one-shot decoding gives a final answer `r` -/
theorem outcome_final (S : List Byte) (hg : GoodChunk S) (r : Res (List Msg))
    (hdec : decodeFrame S = r) (hr : r ≠ .err .invalidFrameLength) :
    (∀ cf fs ds, readHeader (S.take 32) = .ok (cf, fs, ds) → (S.drop fs).all (· == 0) = true) ∧
    outcome S = classify r := by
  have h32 : 32 ≤ S.length := hg.1
  have hm := hg.2
  rcases decodeFrame_final S hg r hdec hr with ⟨e, hh, rfl⟩ | ⟨cf, fs, ds, hh, hle, hz, hdc⟩
  · constructor
    · intro cf fs ds h
      rw [readHeader_take32 S h32, hh] at h
      cases h
    · have hne : e ≠ .invalidFrameLength := fun h => hr (h ▸ rfl)
      unfold outcome classify
      rw [if_neg (Nat.not_lt.mpr h32), readHeader_take32 S h32, hh, cont_err_false hne,
        if_neg (by intro h; cases h)]
      rfl
  · constructor
    · intro cf' fs' ds' h
      rw [readHeader_take32 S h32, hh] at h
      cases h
      exact hz
    · have hnl : ¬ 32 * (S.length / 32) < fs := by omega
      unfold outcome verdict
      rw [if_neg (Nat.not_lt.mpr h32), readHeader_take32 S h32, hh]
      simp only
      rw [if_neg hnl, hdc]

#print axioms receive_outcome_whole
#print axioms receive_ignores_partial_tail
end Rscp.Lemmas.Layers
