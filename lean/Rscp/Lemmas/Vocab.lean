import Rscp.Model.Vocab
import Rscp.Model.Builder
import Rscp.Spec.Frame
import Rscp.Snapshot.Vocab
import Rscp.Spec.Builder
/-
Lemmas for C14. The tag tables have 3 564 entries, so every closed check handed to the kernel is a
linear (or n·log n) Boolean function over lists of `Nat`s, lifted to the `Prop` statement by a generic
soundness lemma proved once:

  * `sinc`      strictly increasing      ⇒ `Pairwise (· < ·)` ⇒ `Nodup`
  * `Nodup.go`  search-tree insertion    ⇒ `Nodup`               (for the unsorted name codes)
  * `subseq`    merge walk               ⇒ `∀ e ∈ a, e ∈ b`
  * `lookup` in an association list with `Nodup` keys is membership
-/
namespace Rscp.Lemmas.Vocab
open Rscp Rscp.Model

/-! ### association lists -/

theorem mem_of_lookup {β} {k : Nat} {v : β} : ∀ {l : List (Nat × β)}, lookup k l = some v → (k, v) ∈ l
  | [], h => by simp [lookup] at h
  | (a, b) :: r, h => by
    unfold lookup at h
    by_cases hak : a = k
    · simp [hak] at h
      subst hak; subst h
      exact List.mem_cons_self
    · simp [hak] at h
      exact List.mem_cons_of_mem _ (mem_of_lookup h)

theorem lookup_of_mem {β} {k : Nat} {v : β} : ∀ {l : List (Nat × β)}, (l.map (·.1)).Nodup → (k, v) ∈ l →
    lookup k l = some v
  | [], _, h => by simp at h
  | (a, b) :: r, hnd, h => by
    simp only [List.map_cons, List.nodup_cons] at hnd
    unfold lookup
    rcases List.mem_cons.mp h with heq | hmem
    · cases heq; simp
    · have hne : a ≠ k := by
        intro e
        apply hnd.1
        rw [e]
        exact List.mem_map.mpr ⟨(k, v), hmem, rfl⟩
      simp [hne]
      exact lookup_of_mem hnd.2 hmem

theorem lookup_iff_mem {β} {k : Nat} {v : β} {l : List (Nat × β)} (hnd : (l.map (·.1)).Nodup) :
    lookup k l = some v ↔ (k, v) ∈ l := ⟨mem_of_lookup, lookup_of_mem hnd⟩

theorem key_of_lookup_isSome {β} {k : Nat} {l : List (Nat × β)} (h : (lookup k l).isSome = true) :
    k ∈ l.map (·.1) := by
  cases hv : lookup k l with
  | none => rw [hv] at h; cases h
  | some v => exact List.mem_map.mpr ⟨(k, v), mem_of_lookup hv, rfl⟩

theorem lookup_none_of_not_key {β} {k : Nat} {l : List (Nat × β)} (h : k ∉ l.map (·.1)) : lookup k l = none := by
  cases hv : lookup k l with
  | none => rfl
  | some v => exact absurd (key_of_lookup_isSome (by rw [hv]; rfl)) h

/-- the swapped table -/
def swap (p : Nat × Nat) : Nat × Nat := (p.2, p.1)

theorem mem_swap {l l' : List (Nat × Nat)} (h : l.map swap = l') {a b : Nat} : (a, b) ∈ l ↔ (b, a) ∈ l' := by
  subst h
  constructor
  · intro hm; exact List.mem_map.mpr ⟨(a, b), hm, rfl⟩
  · intro hm
    obtain ⟨⟨x, y⟩, hxy, he⟩ := List.mem_map.mp hm
    simp only [swap, Prod.mk.injEq] at he
    obtain ⟨rfl, rfl⟩ := he
    exact hxy

theorem keys_swap {l l' : List (Nat × Nat)} (h : l.map swap = l') : l.map (·.1) = l'.map (·.2) := by
  subst h
  simp [List.map_map, Function.comp_def, swap]

/-! ### strictly increasing lists -/

/-- strictly increasing, checked in one pass -/
def sinc : List Nat → Bool
  | [] => true
  | [_] => true
  | a :: b :: r => a < b && sinc (b :: r)

theorem sinc_pairwise : ∀ (l : List Nat), sinc l = true → l.Pairwise (· < ·)
  | [], _ => List.Pairwise.nil
  | [a], _ => by simp
  | a :: b :: r, h => by
    simp only [sinc, Bool.and_eq_true, decide_eq_true_eq] at h
    have ih := sinc_pairwise (b :: r) h.2
    refine List.Pairwise.cons ?_ ih
    intro x hx
    rcases List.mem_cons.mp hx with rfl | hx
    · exact h.1
    · exact Nat.lt_trans h.1 ((List.pairwise_cons.mp ih).1 x hx)

theorem sinc_nodup (l : List Nat) (h : sinc l = true) : l.Nodup :=
  (sinc_pairwise l h).imp (fun hab => Nat.ne_of_lt hab)

/-! ### duplicate detection in n·depth steps -/

namespace Nodup
/-- duplicate detection by insertion into an (unbalanced) search tree: n·depth kernel steps
    instead of n² -/
inductive T | leaf | node (l : T) (k : Nat) (r : T)
def T.mem (x : Nat) : T → Bool
  | .leaf => false
  | .node l k r => if x < k then l.mem x else if k < x then r.mem x else true
def T.ins (x : Nat) : T → T
  | .leaf => .node .leaf x .leaf
  | .node l k r => if x < k then .node (l.ins x) k r else if k < x then .node l k (r.ins x) else .node l k r
def go : List Nat → T → Bool
  | [], _ => true
  | x :: xs, t => !t.mem x && go xs (t.ins x)

theorem mem_ins_self (x : Nat) : ∀ t : T, (t.ins x).mem x = true
  | .leaf => by simp [T.ins, T.mem]
  | .node l k r => by
    unfold T.ins
    by_cases h1 : x < k
    · simp [h1, T.mem, mem_ins_self x l]
    · by_cases h2 : k < x
      · simp [h1, h2, T.mem, mem_ins_self x r]
      · simp [h1, h2, T.mem]

theorem mem_ins_other (x y : Nat) (hxy : y ≠ x) : ∀ t : T, (t.ins x).mem y = t.mem y
  | .leaf => by
    simp only [T.ins, T.mem]
    by_cases h1 : y < x
    · simp [h1]
    · have : x < y := by omega
      simp [h1, this]
  | .node l k r => by
    unfold T.ins
    by_cases h1 : x < k
    · simp only [h1, if_true, T.mem]
      rw [mem_ins_other x y hxy l]
    · by_cases h2 : k < x
      · simp only [h1, h2, if_true, if_false, T.mem]
        rw [mem_ins_other x y hxy r]
      · simp [h1, h2]

theorem go_sound : ∀ (l : List Nat) (t : T), go l t = true → l.Nodup ∧ ∀ x ∈ l, t.mem x = false
  | [], _, _ => by simp
  | x :: xs, t, h => by
    simp only [go, Bool.and_eq_true, Bool.not_eq_true'] at h
    obtain ⟨hx, hrest⟩ := h
    obtain ⟨hnd, hmem⟩ := go_sound xs (t.ins x) hrest
    have hxnot : x ∉ xs := by
      intro hin
      have := hmem x hin
      rw [mem_ins_self] at this
      cases this
    refine ⟨List.nodup_cons.mpr ⟨hxnot, hnd⟩, ?_⟩
    intro y hy
    rcases List.mem_cons.mp hy with rfl | hy'
    · exact hx
    · have hne : y ≠ x := fun e => hxnot (e ▸ hy')
      rw [← mem_ins_other x y hne t]
      exact hmem y hy'

theorem nodup_of_go (l : List Nat) (h : go l .leaf = true) : l.Nodup := (go_sound l .leaf h).1
end Nodup

/-! ### sub-list check by one merge walk -/

/-- every element of the first list occurs in the second, in the same order -/
def subseq {α} [DecidableEq α] : List α → List α → Bool
  | [], _ => true
  | _ :: _, [] => false
  | a :: as, b :: bs => if a = b then subseq as bs else subseq (a :: as) bs

theorem subseq_sound {α} [DecidableEq α] : ∀ (a b : List α), subseq a b = true → ∀ e ∈ a, e ∈ b
  | [], _, _ => by simp
  | _ :: _, [], h => by simp [subseq] at h
  | a :: as, b :: bs, h => by
    unfold subseq at h
    by_cases hab : a = b
    · simp only [hab, if_true] at h
      intro e he
      rcases List.mem_cons.mp he with rfl | he
      · rw [hab]; exact List.mem_cons_self
      · exact List.mem_cons_of_mem _ (subseq_sound as bs h e he)
    · simp only [hab, if_false] at h
      intro e he
      exact List.mem_cons_of_mem _ (subseq_sound (a :: as) bs h e he)


theorem lookup_isSome_of_key {β} {k : Nat} : ∀ {l : List (Nat × β)}, k ∈ l.map (·.1) → (lookup k l).isSome = true
  | [], h => by simp at h
  | (a, b) :: r, h => by
    unfold lookup
    by_cases hak : a = k
    · simp [hak]
    · simp only [hak, if_false]
      simp only [List.map_cons, List.mem_cons] at h
      rcases h with h | h
      · exact absurd h.symm hak
      · exact lookup_isSome_of_key h

/-- two association lists with the same entries, one of them with unique keys, look up the same -/
theorem same_lookup {β} {l s : List (Nat × β)} (hmem : ∀ x, x ∈ l ↔ x ∈ s) (hnd : (s.map (·.1)).Nodup) (k : Nat) :
    lookup k l = lookup k s := by
  have hfun : ∀ v v', (k, v) ∈ l → (k, v') ∈ l → v = v' := by
    intro v v' h1 h2
    have e1 := lookup_of_mem hnd ((hmem _).1 h1)
    have e2 := lookup_of_mem hnd ((hmem _).1 h2)
    rw [e1] at e2
    exact Option.some.inj e2
  cases hs : lookup k s with
  | some v =>
    have hin : (k, v) ∈ l := (hmem _).2 (mem_of_lookup hs)
    cases hl : lookup k l with
    | some v' => rw [hfun v' v (mem_of_lookup hl) hin]
    | none =>
      have := lookup_isSome_of_key (List.mem_map.mpr ⟨(k, v), hin, rfl⟩)
      rw [hl] at this; cases this
  | none =>
    cases hl : lookup k l with
    | none => rfl
    | some v' =>
      have := lookup_of_mem hnd ((hmem _).1 (mem_of_lookup hl))
      rw [hs] at this; cases this

/-! ### sorting an association list by insertion (only membership is proved; the order is checked) -/

/-- insertion from the front; the tables are nearly sorted, so that `tsort` is close to linear on them -/
def insKey (p : Nat × Nat) : List (Nat × Nat) → List (Nat × Nat)
  | [] => [p]
  | q :: r => if p.1 < q.1 then p :: q :: r else q :: insKey p r
/-- insertion sort by key, from the right -/
def tsort (l : List (Nat × Nat)) : List (Nat × Nat) := l.foldr insKey []

theorem mem_insKey (p x : Nat × Nat) : ∀ l : List (Nat × Nat), x ∈ insKey p l ↔ x = p ∨ x ∈ l
  | [] => by simp [insKey]
  | q :: r => by
    unfold insKey
    by_cases h : p.1 < q.1
    · simp [h]
    · simp only [h, if_false, List.mem_cons, mem_insKey p x r]
      constructor
      · rintro (h | h | h) <;> simp [h]
      · rintro (h | h | h) <;> simp [h]

theorem mem_tsort : ∀ (l : List (Nat × Nat)) (x : Nat × Nat), x ∈ l ↔ x ∈ tsort l
  | [], x => by simp [tsort]
  | p :: l, x => by
    have ih := mem_tsort l x
    unfold tsort at ih ⊢
    rw [List.foldr_cons, mem_insKey, ← ih, List.mem_cons]

/-- if the sorted list has strictly increasing keys, it looks up exactly like the original -/
theorem lookup_tsort (l : List (Nat × Nat)) (h : sinc ((tsort l).map (·.1)) = true) (k : Nat) :
    lookup k l = lookup k (tsort l) :=
  same_lookup (mem_tsort l) (sinc_nodup _ h) k

/-! ### declared data types against a sorted vocabulary: one merge walk -/

/-- `es`: (number, name, data type) sorted by number; `ps`: (number, data type) sorted by number.
    Every entry of `es` carries the data type `ps` declares for it, `0` if none. -/
def dtWalk : List (Nat × Nat × Nat) → List (Nat × Nat) → Bool
  | [], _ => true
  | e :: es, [] => e.2.2 == 0 && dtWalk es []
  | e :: es, p :: ps =>
    if p.1 = e.1 then e.2.2 == p.2 && dtWalk es ps
    else if e.1 < p.1 then e.2.2 == 0 && dtWalk es (p :: ps)
    else false

theorem lookup_none_of_lt {k : Nat} {ps : List (Nat × Nat)} (h : ∀ q ∈ ps, k < q.1) : lookup k ps = none := by
  apply lookup_none_of_not_key
  intro hk
  obtain ⟨q, hq, he⟩ := List.mem_map.mp hk
  have := h q hq
  omega

theorem dtWalk_sound : ∀ (es : List (Nat × Nat × Nat)) (ps : List (Nat × Nat)), dtWalk es ps = true →
    (es.map (·.1)).Pairwise (· < ·) → (ps.map (·.1)).Pairwise (· < ·) →
    ∀ e ∈ es, (lookup e.1 ps).getD 0 = e.2.2
  | [], _, _, _, _ => by simp
  | e :: es, [], h, hes, hps => by
    simp only [dtWalk, Bool.and_eq_true, beq_iff_eq] at h
    simp only [List.map_cons, List.pairwise_cons] at hes
    intro e' he'
    rcases List.mem_cons.mp he' with rfl | he'
    · simp [lookup, h.1]
    · exact dtWalk_sound es [] h.2 hes.2 hps e' he'
  | e :: es, p :: ps, h, hes, hps => by
    unfold dtWalk at h
    simp only [List.map_cons, List.pairwise_cons] at hes hps
    by_cases h1 : p.1 = e.1
    · simp only [h1, if_true, Bool.and_eq_true, beq_iff_eq] at h
      intro e' he'
      rcases List.mem_cons.mp he' with rfl | he'
      · obtain ⟨p1, p2⟩ := p
        simp only at h1
        simp [lookup, h1, h.1]
      · have hlt : e.1 < e'.1 := hes.1 _ (List.mem_map.mpr ⟨e', he', rfl⟩)
        obtain ⟨p1, p2⟩ := p
        simp only at h1
        have hne : ¬ p1 = e'.1 := by omega
        unfold lookup
        simp only [hne, if_false]
        exact dtWalk_sound es ps h.2 hes.2 hps.2 e' he'
    · by_cases h2 : e.1 < p.1
      · simp only [h1, h2, if_true, if_false, Bool.and_eq_true, beq_iff_eq] at h
        intro e' he'
        rcases List.mem_cons.mp he' with rfl | he'
        · rw [lookup_none_of_lt, h.1]
          · rfl
          · intro q hq
            rcases List.mem_cons.mp hq with rfl | hq
            · exact h2
            · exact Nat.lt_trans h2 (hps.1 _ (List.mem_map.mpr ⟨q, hq, rfl⟩))
        · exact dtWalk_sound es (p :: ps) h.2 hes.2
            (by simp only [List.map_cons, List.pairwise_cons]; exact hps) e' he'
      · simp [h1, h2] at h


/-! ### the closed checks on the generated tables (each one linear or n·log n on `Nat`s) -/

theorem tagValues_sinc : sinc Gen.tagValues = true := by decide +kernel
theorem tagMapC_keys : Gen.tagMapC.map (·.1) = Gen.tagValues := by decide +kernel
theorem nameToValueC_swap : Gen.tagNameToValueC.map swap = Gen.tagMapC := by decide +kernel
/-- only the number column of the `String` tables is evaluated -/
theorem tagMap_keys : Gen.tagMap.map (·.1) = Gen.tagValues := by decide +kernel
theorem tagNameToValue_vals : Gen.tagNameToValue.map (·.2) = Gen.tagValues := by decide +kernel
theorem codes_go : Nodup.go (Gen.tagMapC.map (·.2)) .leaf = true := by decide +kernel
theorem vocab_tagMapC : Gen.vocabC.map (fun e => (e.1, e.2.1)) = Gen.tagMapC := by decide +kernel
theorem snapshot_subseq : subseq Snapshot.vocabC Gen.vocabC = true := by decide +kernel
theorem dtm_sorted : sinc ((tsort Gen.dataTypeMap).map (·.1)) = true := by decide +kernel
theorem dtm_walk : dtWalk Gen.vocabC (tsort Gen.dataTypeMap) = true := by decide +kernel
theorem dtm_keys_tags : subseq ((tsort Gen.dataTypeMap).map (·.1)) Gen.tagValues = true := by decide +kernel
theorem dtm_types : Gen.dataTypeMap.all (fun p => isDataType p.2) = true := by decide +kernel

/-! ### what they mean -/

theorem tagValues_pairwise : Gen.tagValues.Pairwise (· < ·) := sinc_pairwise _ tagValues_sinc
theorem tagValues_nodup : Gen.tagValues.Nodup := sinc_nodup _ tagValues_sinc
theorem tagMapC_keys_nodup : (Gen.tagMapC.map (·.1)).Nodup := by rw [tagMapC_keys]; exact tagValues_nodup
theorem codes_nodup : (Gen.tagMapC.map (·.2)).Nodup := Nodup.nodup_of_go _ codes_go
theorem nameToValueC_keys_nodup : (Gen.tagNameToValueC.map (·.1)).Nodup := by
  rw [keys_swap nameToValueC_swap]; exact codes_nodup

theorem name_roundtrip (t c : Nat) (h : tagName? t = some c) : tagStringC? c = some t := by
  unfold tagName? at h
  unfold tagStringC?
  exact lookup_of_mem nameToValueC_keys_nodup ((mem_swap nameToValueC_swap).2 (mem_of_lookup h))

theorem number_roundtrip (t c : Nat) (h : tagStringC? c = some t) : tagName? t = some c := by
  unfold tagStringC? at h
  unfold tagName?
  exact lookup_of_mem tagMapC_keys_nodup ((mem_swap nameToValueC_swap).1 (mem_of_lookup h))

theorem vocab_keys : Gen.vocabC.map (·.1) = Gen.tagValues := by
  rw [← tagMapC_keys, ← vocab_tagMapC, List.map_map]
  rfl

theorem tagDataType_sorted (t : Nat) : tagDataType t = (lookup t (tsort Gen.dataTypeMap)).getD 0 := by
  unfold tagDataType
  rw [lookup_tsort _ dtm_sorted]

theorem vocab_types : ∀ e ∈ Gen.vocabC, tagDataType e.1 = e.2.2 := by
  intro e he
  rw [tagDataType_sorted]
  exact dtWalk_sound _ _ dtm_walk (by rw [vocab_keys]; exact tagValues_pairwise)
    (sinc_pairwise _ dtm_sorted) e he

theorem isATag_of_mem {t : Nat} (h : t ∈ Gen.tagValues) : isATag t = true := by
  unfold isATag tagName?
  apply lookup_isSome_of_key
  rw [tagMapC_keys]; exact h

theorem declared (p : Nat × Nat) (hp : p ∈ Gen.dataTypeMap) : isDataType p.2 = true ∧ isATag p.1 = true := by
  refine ⟨List.all_eq_true.mp dtm_types p hp, isATag_of_mem ?_⟩
  apply subseq_sound _ _ dtm_keys_tags
  exact List.mem_map.mpr ⟨p, (mem_tsort _ _).1 hp, rfl⟩


/-! ### the 18 data types -/

theorem mem_dataTypeValues {d : Nat} (h : isDataType d = true) : d ∈ Gen.dataTypeValues := by
  unfold isDataType at h
  exact List.contains_iff_mem.mp h

/-- the four implementation tables and the specification's table agree on `d` -/
def agreeB (d : Nat) : Bool :=
  match Spec.typeRow d with
  | some (k, fixed) =>
    decide (lookup d Gen.validateKind = some k) && decide (lookup d Gen.newEmptyKind = some k) &&
      decide (lookup d Gen.newConvKind = some k) && decide (lookup d Gen.lengthMap = some (fixed.getD 0))
  | none => false

theorem agree_all : Gen.dataTypeValues.all agreeB = true := by decide

theorem tables_agree (d : Nat) (h : isDataType d = true) :
    ∃ k fixed, Spec.typeRow d = some (k, fixed) ∧ lookup d Gen.validateKind = some k ∧
      lookup d Gen.newEmptyKind = some k ∧ lookup d Gen.newConvKind = some k ∧
      lookup d Gen.lengthMap = some (fixed.getD 0) := by
  have hb := List.all_eq_true.mp agree_all d (mem_dataTypeValues h)
  unfold agreeB at hb
  split at hb
  · next k fixed hrow =>
    simp only [Bool.and_eq_true, decide_eq_true_eq] at hb
    exact ⟨k, fixed, hrow, hb.1.1.1, hb.1.1.2, hb.1.2, hb.2⟩
  · cases hb

theorem keys_defined :
    (Gen.validateKind.map (·.1) ++ Gen.newEmptyKind.map (·.1) ++ Gen.newConvKind.map (·.1) ++
      Gen.lengthMap.map (·.1) ++ Spec.typeTable.map (·.1)).all isDataType = true := by decide

theorem tables_only_defined (d : Nat)
    (h : (lookup d Gen.validateKind).isSome ∨ (lookup d Gen.newEmptyKind).isSome ∨ (lookup d Gen.newConvKind).isSome ∨
      (lookup d Gen.lengthMap).isSome ∨ (Spec.typeRow d).isSome) : isDataType d = true := by
  apply List.all_eq_true.mp keys_defined d
  simp only [List.mem_append]
  rcases h with h | h | h | h | h
  · exact Or.inl (Or.inl (Or.inl (Or.inl (key_of_lookup_isSome h))))
  · exact Or.inl (Or.inl (Or.inl (Or.inr (key_of_lookup_isSome h))))
  · exact Or.inl (Or.inl (Or.inr (key_of_lookup_isSome h)))
  · exact Or.inl (Or.inr (key_of_lookup_isSome h))
  · exact Or.inr (key_of_lookup_isSome h)

theorem mem_of_lookupStr {β} {k : String} {v : β} : ∀ {l : List (String × β)}, lookupStr k l = some v → (k, v) ∈ l
  | [], h => by simp [lookupStr] at h
  | (a, b) :: r, h => by
    unfold lookupStr at h
    by_cases hak : a = k
    · simp [hak] at h
      subst hak; subst h
      exact List.mem_cons_self
    · simp [hak] at h
      exact List.mem_cons_of_mem _ (mem_of_lookupStr h)

theorem json_dt_roundtrip (d : Nat) (h : isDataType d = true) :
    ∃ s, dataTypeName? d = some s ∧ dataTypeString? s = some d ∧ ∀ s', dataTypeString? s' = some d → s' = s := by
  have hm := mem_dataTypeValues h
  simp only [Gen.dataTypeValues, List.mem_cons, List.mem_nil_iff, or_false] at hm
  rcases hm with rfl | rfl | rfl | rfl | rfl | rfl | rfl | rfl | rfl | rfl | rfl | rfl | rfl | rfl | rfl | rfl | rfl | rfl
  all_goals
    refine ⟨_, rfl, by simp [dataTypeString?, lookupStr, Gen.dataTypeNameToValue], ?_⟩
    intro s' hs'
    have := mem_of_lookupStr hs'
    simpa [Gen.dataTypeNameToValue] using this

theorem request_bit (t : Nat) : Gen.Leaf.isRequest t = !t.testBit 23 ∧ Gen.Leaf.isResponse t = t.testBit 23 := by
  unfold Gen.Leaf.isRequest Gen.Leaf.isResponse Nat.testBit
  rw [Nat.and_comm 1, Nat.and_one_is_mod]
  rcases Nat.mod_two_eq_zero_or_one (t >>> 23) with h | h <;> simp [h]


/-! ### `nameCode` is injective -/

/-- the code of a byte list given least significant byte first -/
def codeLE : List UInt8 → Nat
  | [] => 1
  | b :: r => codeLE r * 256 + b.toNat

theorem codeLE_pos : ∀ l, 1 ≤ codeLE l
  | [] => Nat.le_refl 1
  | b :: r => by have := codeLE_pos r; simp only [codeLE]; omega

theorem codeLE_inj : ∀ l₁ l₂ : List UInt8, codeLE l₁ = codeLE l₂ → l₁ = l₂
  | [], [], _ => rfl
  | [], b :: r, h => by
    have := codeLE_pos r
    simp only [codeLE] at h; omega
  | b :: r, [], h => by
    have := codeLE_pos r
    simp only [codeLE] at h; omega
  | b₁ :: r₁, b₂ :: r₂, h => by
    simp only [codeLE] at h
    have h1 := b₁.toNat_lt
    have h2 := b₂.toNat_lt
    have hr : codeLE r₁ = codeLE r₂ := by omega
    have hb : b₁.toNat = b₂.toNat := by omega
    rw [codeLE_inj r₁ r₂ hr, UInt8.toNat_inj.mp hb]

theorem foldl_codeLE (l : List UInt8) : l.foldl (fun a b => a * 256 + b.toNat) 1 = codeLE l.reverse := by
  rw [← List.foldr_reverse]
  generalize l.reverse = r
  induction r with
  | nil => rfl
  | cons b r ih => simp only [List.foldr_cons, codeLE, ih]

theorem toList_loop (bs : ByteArray) : ∀ (n i : Nat) (r : List UInt8), bs.size - i = n →
    ByteArray.toList.loop bs i r = r.reverse ++ bs.data.toList.drop i := by
  intro n
  induction n with
  | zero =>
    intro i r h
    unfold ByteArray.toList.loop
    have : ¬ i < bs.size := by omega
    simp only [this, if_false]
    have : bs.data.toList.length ≤ i := by
      have : bs.size = bs.data.toList.length := by cases bs; rfl
      omega
    rw [List.drop_eq_nil_of_le this]; simp
  | succ n ih =>
    intro i r h
    unfold ByteArray.toList.loop
    have hi : i < bs.size := by omega
    simp only [hi, if_true]
    rw [ih (i + 1) _ (by omega)]
    have hlen : i < bs.data.toList.length := by
      have : bs.size = bs.data.toList.length := by cases bs; rfl
      omega
    have hget : bs.get! i = bs.data.toList[i] := by
      cases bs with
      | mk d =>
        simp only [ByteArray.get!]
        have : i < d.size := by simpa using hlen
        simp [this]
    rw [List.reverse_cons, List.append_assoc, hget, List.drop_eq_getElem_cons hlen]
    rfl

theorem byteArray_toList (bs : ByteArray) : bs.toList = bs.data.toList := by
  unfold ByteArray.toList
  rw [toList_loop bs _ 0 [] rfl]
  simp

theorem nameCode_injective (s₁ s₂ : String) (h : nameCode s₁ = nameCode s₂) : s₁ = s₂ := by
  unfold nameCode at h
  rw [foldl_codeLE, foldl_codeLE] at h
  have h1 := List.reverse_inj.mp (codeLE_inj _ _ h)
  rw [byteArray_toList, byteArray_toList] at h1
  apply String.toByteArray_inj.mp
  apply ByteArray.ext
  exact Array.toList_inj.mp h1

/-! ### decimal numerals are not tag names, and parse back -/

/-- strip trailing bytes until only the leading `1` and the first byte are left (`256 + first byte`);
    running out of fuel answers `304` ("starts with the digit 0") so that the check below fails safe -/
def top : Nat → Nat → Nat
  | 0, _ => 304
  | f + 1, c => if c < 65536 then c else top f (c / 256)

/-- a code whose first byte is a decimal digit -/
def isLead (x : Nat) : Bool := 304 ≤ x && x ≤ 313
def digitLead (c : Nat) : Bool := isLead (top 128 c)

theorem codeLE_snoc_ge (b0 : UInt8) : ∀ r : List UInt8, 256 ≤ codeLE (r ++ [b0])
  | [] => by simp [codeLE]
  | b :: r => by
    have := codeLE_snoc_ge b0 r
    simp only [List.cons_append, codeLE]; omega

theorem top_digit (b0 : UInt8) (h1 : 48 ≤ b0.toNat) (h2 : b0.toNat ≤ 57) :
    ∀ (f : Nat) (r : List UInt8), 304 ≤ top f (codeLE (r ++ [b0])) ∧ top f (codeLE (r ++ [b0])) ≤ 313
  | 0, _ => by simp [top]
  | f + 1, [] => by
    have : codeLE ([] ++ [b0]) = 256 + b0.toNat := by simp [codeLE]
    rw [this]
    unfold top
    have : 256 + b0.toNat < 65536 := by omega
    simp only [this, if_true]
    omega
  | f + 1, b :: r => by
    have hge := codeLE_snoc_ge b0 r
    have hb := b.toNat_lt
    unfold top
    simp only [List.cons_append, codeLE]
    have h : ¬ codeLE (r ++ [b0]) * 256 + b.toNat < 65536 := by omega
    simp only [h, if_false]
    have : (codeLE (r ++ [b0]) * 256 + b.toNat) / 256 = codeLE (r ++ [b0]) := by omega
    rw [this]
    exact top_digit b0 h1 h2 f r

theorem isDigit_bounds {c : Char} (h : c.isDigit = true) : 48 ≤ c.val.toNat ∧ c.val.toNat ≤ 57 := by
  simp only [Char.isDigit, Bool.and_eq_true, decide_eq_true_eq, ge_iff_le, UInt32.le_iff_toNat_le] at h
  exact h

theorem nameCode_toString_digitLead (t : Nat) : digitLead (nameCode (toString t)) = true := by
  have hne : Nat.toDigits 10 t ≠ [] := Nat.toDigits_ne_nil
  have hdig : ∀ c ∈ Nat.toDigits 10 t, c.isDigit = true :=
    fun c hc => Nat.isDigit_of_mem_toDigits (by decide) (by decide) hc
  unfold nameCode
  rw [foldl_codeLE, byteArray_toList, String.toUTF8_eq_toByteArray, Nat.toString_eq_ofList_toDigits,
    String.toByteArray_ofList]
  cases hd : Nat.toDigits 10 t with
  | nil => exact absurd hd hne
  | cons c0 cs =>
    have hc0 := isDigit_bounds (hdig c0 (by rw [hd]; exact List.mem_cons_self))
    have hsz : c0.utf8Size = 1 := Char.utf8Size_eq_one_iff.mpr (by
      rw [UInt32.le_iff_toNat_le]; have := hc0.2; exact Nat.le_trans this (by decide))
    rw [List.utf8Encode_cons, List.utf8Encode_singleton, String.utf8EncodeChar_eq_singleton hsz,
      ByteArray.toList_data_append, List.toList_data_toByteArray, List.reverse_append, List.reverse_singleton]
    have hb : c0.val.toUInt8.toNat = c0.val.toNat := by
      rw [UInt32.toNat_toUInt8]; omega
    have := top_digit c0.val.toUInt8 (by omega) (by omega) 128 cs.utf8Encode.data.toList.reverse
    unfold digitLead isLead
    rw [Bool.and_eq_true, decide_eq_true_eq, decide_eq_true_eq]
    exact this

theorem parseDec_toString (t : Nat) (h : t < 2 ^ 32) : parseDec 32 (toString t) = some t := by
  have hne : Nat.toDigits 10 t ≠ [] := Nat.toDigits_ne_nil
  have hdig : ∀ c ∈ Nat.toDigits 10 t, c.isDigit = true :=
    fun c hc => Nat.isDigit_of_mem_toDigits (by decide) (by decide) hc
  have hval : (Nat.toDigits 10 t).foldl (fun a c => 10 * a + (c.toNat - 48)) 0 = t :=
    Nat.ofDigitChars_toDigits (b := 10) (n := t) (by decide) (by decide)
  unfold parseDec
  simp only [Nat.toString_eq_repr, Nat.toList_repr]
  have h1 : (Nat.toDigits 10 t).isEmpty = false := by
    cases hd : Nat.toDigits 10 t with
    | nil => exact absurd hd hne
    | cons _ _ => rfl
  have h2 : (Nat.toDigits 10 t).all Char.isDigit = true := List.all_eq_true.mpr hdig
  simp [h1, h2, hval, h]


theorem names_not_numerals : Gen.tagNameToValueC.all (fun p => !digitLead p.1) = true := by decide +kernel

theorem tagString_toString (t : Nat) : tagString? (toString t) = none := by
  unfold tagString? tagStringC?
  apply lookup_none_of_not_key
  intro hk
  obtain ⟨p, hp, he⟩ := List.mem_map.mp hk
  have h1 := List.all_eq_true.mp names_not_numerals p hp
  have h2 := nameCode_toString_digitLead t
  have he' : p.1 = nameCode (toString t) := he
  rw [he', h2] at h1
  cases h1

theorem json_tag_roundtrip_unknown (t : Nat) (h : t < 2 ^ 32) :
    tagUnmarshalStr (toString t) = some t := by
  unfold tagUnmarshalStr
  rw [tagString_toString, parseDec_toString t h]

end Rscp.Lemmas.Vocab
