import Rscp.Model.Vocab
import Rscp.Model.Builder
import Rscp.Spec.Frame
import Rscp.Snapshot.Vocab
