/-
Helper lemmas for property C03 (decoder model ≡ frame grammar, totality, chunked feeding).

Contents, in order:
* `Agree`: a model outcome agrees with a specification outcome (ok/same value, or error/none;
  never a panic);
* leaf facts of `readHeader` (control word, CRC flag, frame size) and agreement of the generated
  tables with `Spec.typeTable`;
* little-endian bounds, `Model.normTime = Spec.normTime`, list bookkeeping;
* the characterisation of `truncatePadding`;
* the item grammar one level unfolded, its two locality lemmas (`specItem_append`,
  `specItem_suffix`) and its independence of fuel;
* `readMsg`/`readMsgs` against `specItem`/`specItems` (`eqv`, by induction on fuel);
* `readHeader`, `readPlain`, `decodeComplete`, `decodeFrame` against `specDecode`;
* totality (`Model.Reachable`, `StateOK`) and feeding a frame in pieces (`ChunkInv`).

Core Lean only.
-/
import Rscp.Model.Codec
import Rscp.Spec.Frame

namespace Rscp.Lemmas.Decode
open Rscp

/-! ## agreement of a model outcome with a specification outcome -/

/-- the model answers `ok` with the value the specification gives, and an error (never a panic)
    where the specification rejects -/
def Agree {α : Type} : Res α → Option α → Prop
  | .ok a, some b => a = b
  | .err _, none => True
  | _, _ => False

@[simp] theorem agree_ok_some {α} (a b : α) : Agree (.ok a) (some b) ↔ a = b := Iff.rfl
@[simp] theorem agree_err_none {α} (e : ErrClass) : Agree (α := α) (.err e) none ↔ True := Iff.rfl
@[simp] theorem agree_ok_none {α} (a : α) : Agree (.ok a) none ↔ False := Iff.rfl
@[simp] theorem agree_err_some {α} (e : ErrClass) (b : α) : Agree (.err e) (some b) ↔ False := Iff.rfl
@[simp] theorem agree_panic {α} (o : Option α) : Agree .panic o ↔ False := by
  cases o <;> exact Iff.rfl

theorem Agree.ne_panic {α} {r : Res α} {o : Option α} (h : Agree r o) : r ≠ .panic := by
  intro e; subst e; simp at h

theorem Agree.ok_iff {α} {r : Res α} {o : Option α} (h : Agree r o) (a : α) :
    r = .ok a ↔ o = some a := by
  cases r <;> cases o <;> simp_all

theorem Agree.err_of_none {α} {r : Res α} (h : Agree r none) : ∃ e, r = .err e := by
  cases r <;> simp_all

/-! ## bit-level leaf facts of `readHeader` -/

theorem and_split (c m : Nat) : c &&& m = (c % 256 &&& m % 256) + 256 * (c / 256 &&& m / 256) := by
  have h := (Nat.mod_add_div (c &&& m) 256).symm
  have e : (256 : Nat) = 2 ^ 8 := by decide
  rw [e] at h ⊢
  rwa [Nat.and_mod_two_pow, Nat.and_div_two_pow] at h

theorem or_split (c m : Nat) : c ||| m = (c % 256 ||| m % 256) + 256 * (c / 256 ||| m / 256) := by
  have h := (Nat.mod_add_div (c ||| m) 256).symm
  have e : (256 : Nat) = 2 ^ 8 := by decide
  rw [e] at h ⊢
  rwa [Nat.or_mod_two_pow, Nat.or_div_two_pow] at h

/-- the facts about one byte of the control word the header checks come down to -/
theorem byte_facts : ∀ h, h < 256 →
    (h &&& 255 = h) ∧ (h ||| 0 = h) ∧
    ((h ||| 31 = 31) ↔ (h &&& 224 = 0)) ∧
    ((h &&& 16 = 16) ↔ ((h >>> 4) &&& 1 = 1)) ∧
    ((h &&& 16) >>> 4 = (if (h >>> 4) &&& 1 = 1 then 1 else 0)) := by
  decide +kernel

theorem leaf_badCtrl (c : Nat) (hc : c < 65536) :
    Gen.Leaf.readHeader_badCtrl c = true ↔ c &&& 0xE0FF ≠ 0 := by
  have hf := byte_facts (c / 256) (by omega)
  have hl := byte_facts (c % 256) (by omega)
  simp only [Gen.Leaf.readHeader_badCtrl, bne_iff_ne, ne_eq]
  rw [or_split c 7936, and_split c 0xE0FF]
  simp only [Nat.reduceMod, Nat.reduceDiv, hl.1, hl.2.1]
  have := hf.2.2.1
  omega

theorem leaf_badVersion (c : Nat) :
    Gen.Leaf.readHeader_badVersion c = true ↔ (c >>> 8) &&& 0xF ≠ 1 := by
  simp only [Gen.Leaf.readHeader_badVersion, bne_iff_ne, ne_eq]
  rw [and_split c 3840, Nat.shiftRight_eq_div_pow]
  simp only [Nat.reduceMod, Nat.reduceDiv, Nat.reducePow, Nat.and_zero]
  omega

theorem shift12 (c : Nat) : c >>> 12 = (c / 256) >>> 4 := by
  rw [Nat.shiftRight_eq_div_pow, Nat.shiftRight_eq_div_pow, Nat.div_div_eq_div_mul]

theorem leaf_crcFlag (c : Nat) (hc : c < 65536) :
    Gen.Leaf.readHeader_crcFlag c = true ↔ (c >>> 12) &&& 1 = 1 := by
  have hf := byte_facts (c / 256) (by omega)
  simp only [Gen.Leaf.readHeader_crcFlag, beq_iff_eq]
  rw [and_split c 4096]
  simp only [Nat.reduceMod, Nat.reduceDiv, Nat.and_zero, shift12 c]
  have := hf.2.2.2.1
  omega

theorem leaf_frameSize (ds c : Nat) (hds : ds < 65536) (hc : c < 65536) :
    Gen.Leaf.readHeader_frameSize ds c = 18 + ds + (if (c >>> 12) &&& 1 = 1 then 4 else 0) := by
  have hf := byte_facts (c / 256) (by omega)
  have e2 : (c &&& 4096) >>> 12 = ((c / 256) &&& 16) >>> 4 := by
    rw [Nat.shiftRight_eq_div_pow, Nat.shiftRight_eq_div_pow, and_split c 4096]
    simp only [Nat.reduceMod, Nat.reduceDiv, Nat.and_zero, Nat.reducePow]
    omega
  simp only [Gen.Leaf.readHeader_frameSize, uwrap, e2, hf.2.2.2.2, shift12 c]
  split <;> simp only [Nat.reducePow] <;> omega

/-- the control-word checks of `readHeader` are the reserved-bit and version conditions of the
    frame grammar -/
theorem leaf_ctrl_ok (c : Nat) (hc : c < 65536) :
    (Gen.Leaf.readHeader_badCtrl c = false ∧ Gen.Leaf.readHeader_badVersion c = false) ↔
      (c &&& 0xE0FF = 0 ∧ (c >>> 8) &&& 0xF = 1) := by
  have h1 := leaf_badCtrl c hc
  have h2 := leaf_badVersion c
  cases hb : Gen.Leaf.readHeader_badCtrl c <;> cases hv : Gen.Leaf.readHeader_badVersion c <;>
    simp_all

/-! ## table agreement -/

/-- the payload length the implementation's tables fix for a data type (`none` = variable) -/
def fixedOf (dt : Nat) : Option Nat :=
  if Model.dtLength dt = 0 ∧ dt ≠ 0 then none else some (Model.dtLength dt)

/-- the generated tables agree with the specification's type table, row by row -/
theorem table_agree : ∀ dt, dt < 256 →
    (Model.isADataType dt = true → Spec.typeRow dt = some (Model.newEmptyKind dt, fixedOf dt)) ∧
    (Model.isADataType dt = false → Spec.typeRow dt = none) := by
  decide +kernel

/-- what the tables say about the value representation of each defined data type -/
theorem table_kinds : ∀ dt, dt < 256 → Model.isADataType dt = true →
    (Model.newEmptyKind dt = .nil → fixedOf dt = some 0) ∧
    (Model.newEmptyKind dt = .bool → fixedOf dt = some 1) ∧
    (Model.newEmptyKind dt = .time → fixedOf dt = some 12) ∧
    (Model.newEmptyKind dt = .str → fixedOf dt = none) := by
  decide +kernel

theorem table_kinds2 : ∀ dt, dt < 256 → Model.isADataType dt = true →
    (Model.newEmptyKind dt = .bytes → fixedOf dt = none) ∧
    (Model.newEmptyKind dt = .msgs → fixedOf dt = none) ∧
    (Model.newEmptyKind dt ≠ .other) ∧
    ((Model.newEmptyKind dt).width = none ∨
      (Model.newEmptyKind dt).width = fixedOf dt) := by
  decide +kernel

theorem lenMismatch_eq (dt l : Nat) :
    Gen.Leaf.readMessage_lenMismatch (Model.dtLength dt) dt l =
      (match fixedOf dt with | some n => l != n | none => false) := by
  unfold fixedOf Gen.Leaf.readMessage_lenMismatch
  by_cases h0 : Model.dtLength dt = 0 <;> by_cases h1 : dt = 0 <;> simp [h0, h1, bne_comm] <;> omega

/-! ## little-endian numbers -/

theorem leNat_lt : ∀ bs : List Byte, leNat bs < 256 ^ bs.length
  | [] => by simp [leNat]
  | b :: r => by
    have := leNat_lt r
    have hb := b.toNat_lt
    simp only [leNat, List.length_cons, Nat.pow_succ]
    omega

theorem leNat_lt_of_length {bs : List Byte} {n : Nat} (h : bs.length = n) : leNat bs < 256 ^ n := by
  rw [← h]; exact leNat_lt bs

theorem toSigned8_range (u : Nat) (h : u < 256 ^ 8) :
    -(2 ^ 63 : Int) ≤ toSigned 8 u ∧ toSigned 8 u < (2 ^ 63 : Int) := by
  unfold toSigned
  simp only [Nat.reduceMul, Nat.reduceSub, Nat.reducePow] at h ⊢
  split <;> omega

theorem toSigned4_range (u : Nat) (h : u < 256 ^ 4) :
    -(2 ^ 31 : Int) ≤ toSigned 4 u ∧ toSigned 4 u < (2 ^ 31 : Int) := by
  unfold toSigned
  simp only [Nat.reduceMul, Nat.reduceSub, Nat.reducePow] at h ⊢
  split <;> omega

/-! ## time normalisation -/

/-- Go's `time.Unix` normalisation (truncated division and a correction step) is the canonical
    form the specification asks for (floor division), for an int64 second and an int32
    nanosecond field -/
theorem normTime_eq (sec nsec : Int)
    (hs : -(2 ^ 63 : Int) ≤ sec ∧ sec < (2 ^ 63 : Int))
    (hn : -(2 ^ 31 : Int) ≤ nsec ∧ nsec < (2 ^ 31 : Int)) :
    Model.normTime sec nsec = Spec.normTime sec nsec := by
  have h1 := Int.tmod_add_tdiv_mul nsec 1000000000
  have h2 := Int.tmod_lt_of_pos nsec (b := 1000000000) (by decide)
  have h3 := Int.lt_tmod_of_pos nsec (b := 1000000000) (by decide)
  have h4 : 0 ≤ nsec → 0 ≤ Int.tmod nsec 1000000000 := fun h => Int.tmod_nonneg _ h
  have h5 : nsec < 0 → Int.tmod nsec 1000000000 ≤ 0 := by
    intro h
    have := Int.tmod_nonneg 1000000000 (a := -nsec) (by omega)
    rw [Int.neg_tmod] at this
    omega
  generalize Int.tmod nsec 1000000000 = m at h1 h2 h3 h4 h5
  unfold Model.normTime Spec.normTime
  generalize Int.tdiv nsec 1000000000 = n at h1 ⊢
  simp only [swrap, Nat.reduceSub, Int.reducePow] at hs hn ⊢
  split
  · split
    · split <;> split <;> (try split) <;> simp only [Prod.mk.injEq] <;> omega
    · split <;> split <;> simp only [Prod.mk.injEq] <;> omega
  · split <;> simp only [Prod.mk.injEq] <;> omega

/-! ## list bookkeeping -/

theorem takeN_ok {n : Nat} {bs : List Byte} (h : n ≤ bs.length) :
    Model.takeN n bs = .ok (bs.take n, bs.drop n) := by
  simp [Model.takeN, Nat.not_lt.mpr h]

theorem takeN_err {n : Nat} {bs : List Byte} (h : bs.length < n) :
    Model.takeN n bs = .err .eof := by
  simp [Model.takeN, h]

theorem take_drop_append {α} (a b : List α) (n k : Nat) (h : n + k ≤ a.length) :
    ((a ++ b).drop n).take k = (a.drop n).take k := by
  rw [List.drop_append_of_le_length (by omega), List.take_append_of_le_length (by simp; omega)]

/-! ## `truncatePadding` -/

/-- the buffer `truncatePadding` leaves behind -/
def strip (buf : List Byte) (fs : Nat) : List Byte :=
  (Model.stripRev buf.reverse buf.length fs).reverse

theorem truncatePadding_eq (buf : List Byte) (fs : Nat) :
    Model.truncatePadding buf fs = (strip buf fs, decide (fs < (strip buf fs).length)) := by
  simp [Model.truncatePadding, strip, Gen.Leaf.truncatePadding_trailing]

theorem strip_nil (fs : Nat) : strip [] fs = [] := by
  simp [strip, Model.stripRev]

theorem strip_snoc (init : List Byte) (b : Byte) (fs : Nat) :
    strip (init ++ [b]) fs = if fs < init.length + 1 ∧ b = 0 then strip init fs else init ++ [b] := by
  simp only [strip, List.reverse_append, List.reverse_cons, List.reverse_nil, List.nil_append,
    List.singleton_append, Model.stripRev, List.length_append, List.length_cons, List.length_nil,
    Gen.Leaf.truncatePadding_loop]
  have e : (b.toNat == 0) = decide (b = 0) := by
    by_cases h : b = 0
    · subst h; simp
    · have : b.toNat ≠ 0 := fun h' => h (UInt8.toNat_inj.mp (by simpa using h'))
      simp [h, this]
  by_cases h1 : fs < init.length + 1 <;> by_cases h2 : b = 0 <;> simp [h1, h2, e]
  all_goals omega

theorem all_zero_snoc (l : List Byte) (b : Byte) :
    (l ++ [b]).all (· == 0) = (l.all (· == 0) && (b == 0)) := by
  simp [List.all_append]

theorem strip_char : ∀ (l : List Byte) (fs : Nat),
    ((l.reverse.drop fs).all (· == 0) = true → fs ≤ l.length → strip l.reverse fs = l.reverse.take fs) ∧
    ((l.reverse.drop fs).all (· == 0) = false → ((strip l.reverse fs).drop fs).all (· == 0) = false)
  | [], fs => by simp [strip_nil]
  | b :: l, fs => by
    have ih := strip_char l fs
    simp only [List.reverse_cons, strip_snoc, List.length_reverse, List.length_cons]
    by_cases hlt : fs < l.length + 1
    · have hd : (l.reverse ++ [b]).drop fs = l.reverse.drop fs ++ [b] := by
        rw [List.drop_append_of_le_length (by simp; omega)]
      have ht : (l.reverse ++ [b]).take fs = l.reverse.take fs := by
        rw [List.take_append_of_le_length (by simp; omega)]
      rw [hd, ht, all_zero_snoc]
      by_cases hb : b = 0
      · subst hb
        simp only [hlt, and_self, if_true, beq_self_eq_true, Bool.and_true]
        exact ⟨fun h _ => ih.1 h (by omega), ih.2⟩
      · have hb' : (b == 0) = false := by simpa using hb
        simp only [hlt, hb, and_false, if_false, hb', Bool.and_false, hd, all_zero_snoc]
        simp
    · have hd : (l.reverse ++ [b]).drop fs = [] := by
        apply List.drop_eq_nil_of_le; simp; omega
      simp only [hlt, false_and, if_false, hd]
      refine ⟨fun _ hle => ?_, by simp⟩
      rw [List.take_of_length_le (by simp; omega)]

/-- if everything after the frame is zero, exactly the frame is left -/
theorem strip_of_all_zero (buf : List Byte) (fs : Nat) (hle : fs ≤ buf.length)
    (hz : (buf.drop fs).all (· == 0) = true) : strip buf fs = buf.take fs := by
  have := (strip_char buf.reverse fs).1
  simp only [List.reverse_reverse, List.length_reverse] at this
  exact this hz hle

/-- a non-zero byte after the frame survives the stripping -/
theorem strip_of_not_all_zero (buf : List Byte) (fs : Nat)
    (hz : (buf.drop fs).all (· == 0) = false) : ((strip buf fs).drop fs).all (· == 0) = false := by
  have := (strip_char buf.reverse fs).2
  simp only [List.reverse_reverse] at this
  exact this hz

theorem length_of_not_all_zero (buf : List Byte) (fs : Nat)
    (hz : (buf.drop fs).all (· == 0) = false) : fs < buf.length := by
  apply Nat.lt_of_not_le
  intro h
  rw [List.drop_eq_nil_of_le h] at hz
  simp at hz

/-- `truncatePadding` on a buffer that covers the frame: it reports trailing data iff some
    byte after the frame is non-zero, and otherwise leaves exactly the frame -/
theorem truncatePadding_char (buf : List Byte) (fs : Nat) (hle : fs ≤ buf.length) :
    Model.truncatePadding buf fs =
      if (buf.drop fs).all (· == 0) then (buf.take fs, false) else (strip buf fs, true) := by
  rw [truncatePadding_eq]
  cases hz : (buf.drop fs).all (· == 0)
  · have := length_of_not_all_zero _ _ (strip_of_not_all_zero buf fs hz)
    simp [this]
  · rw [strip_of_all_zero buf fs hle hz]
    simp [List.length_take, Nat.min_eq_left hle]

/-- "some byte at an index ≥ fs is non-zero", spelled out -/
theorem not_all_zero_iff (buf : List Byte) (fs : Nat) :
    (buf.drop fs).all (· == 0) = false ↔ ∃ i, ∃ h : i < buf.length, fs ≤ i ∧ buf[i] ≠ 0 := by
  rw [List.all_eq_false]
  constructor
  · rintro ⟨x, hx, hne⟩
    obtain ⟨i, hi, rfl⟩ := List.mem_iff_getElem.mp hx
    rw [List.length_drop] at hi
    refine ⟨fs + i, by omega, by omega, ?_⟩
    rw [List.getElem_drop] at hne
    simpa using hne
  · rintro ⟨i, hi, hle, hne⟩
    refine ⟨buf[i], ?_, by simpa using hne⟩
    apply List.mem_iff_getElem.mpr
    refine ⟨i - fs, by rw [List.length_drop]; omega, ?_⟩
    rw [List.getElem_drop]
    congr 1
    omega

/-- `truncatePadding` reports trailing data iff some byte at an index ≥ fs is non-zero -/
theorem truncatePadding_trailing_iff (buf : List Byte) (fs : Nat) (hle : fs ≤ buf.length) :
    (Model.truncatePadding buf fs).2 = true ↔ ∃ i, ∃ h : i < buf.length, fs ≤ i ∧ buf[i] ≠ 0 := by
  rw [truncatePadding_char buf fs hle, ← not_all_zero_iff]
  cases (buf.drop fs).all (· == 0) <;> simp

/-! ## the item grammar, one level unfolded -/

/-- header fields of an item -/
def hTag (bs : List Byte) : Nat := leNat (bs.take 4)
def hDt (bs : List Byte) : Nat := leNat ((bs.drop 4).take 1)
def hLen (bs : List Byte) : Nat := leNat ((bs.drop 5).take 2)

/-- the value the grammar assigns to the region of an item with data type `dt` and length `l` -/
def specVal (f : Nat) (dt l : Nat) (region : List Byte) : Option Val :=
  match Spec.typeRow dt with
  | none => none
  | some (k, fixed) =>
    if l > Spec.maxItemData then none
    else if (match fixed with | some n => l != n | none => false) then none
    else if k = .msgs then (Spec.specItems f region).map .msgs
    else Spec.leafValue k region

theorem specItem_succ (f : Nat) (bs : List Byte) :
    Spec.specItem (f+1) bs =
      if bs.length < 7 then none
      else if (bs.drop 7).length < hLen bs then none
      else (specVal f (hDt bs) (hLen bs) ((bs.drop 7).take (hLen bs))).map
        (fun v => (Msg.mk (hTag bs) (hDt bs) v, (bs.drop 7).drop (hLen bs))) := by
  rw [Spec.specItem]
  simp only [Spec.itemHeaderSize, hTag, hDt, hLen, specVal]
  by_cases h7 : bs.length < 7
  · simp [h7]
  · simp only [h7, if_false]
    cases Spec.typeRow (leNat ((bs.drop 4).take 1)) with
    | none => simp
    | some p =>
      obtain ⟨k, fixed⟩ := p
      simp only
      by_cases h1 : leNat ((bs.drop 5).take 2) > Spec.maxItemData
      · simp [h1]
      · simp only [h1, if_false]
        rcases fixed with _ | n
        · simp only [Bool.false_eq_true, if_false]
          by_cases h3 : (bs.drop 7).length < leNat ((bs.drop 5).take 2)
          · simp only [h3, if_true]
          · simp only [h3, if_false]
            by_cases hk : k = .msgs
            · simp only [hk, if_true]
              cases Spec.specItems f _ <;> rfl
            · simp only [hk, if_false]
              cases Spec.leafValue k _ <;> rfl
        · by_cases hn : (leNat ((bs.drop 5).take 2) != n) = true
          · simp [hn]
          · simp only [hn, Bool.false_eq_true, if_false]
            by_cases h3 : (bs.drop 7).length < leNat ((bs.drop 5).take 2)
            · simp only [h3, if_true]
            · simp only [h3, if_false]
              by_cases hk : k = .msgs
              · simp only [hk, if_true]
                cases Spec.specItems f _ <;> rfl
              · simp only [hk, if_false]
                cases Spec.leafValue k _ <;> rfl

theorem specItem_zero (bs : List Byte) : Spec.specItem 0 bs = none := by
  rw [Spec.specItem]

theorem specItem_char (f : Nat) (bs : List Byte) (m : Msg) (r : List Byte) :
    Spec.specItem (f+1) bs = some (m, r) ↔
      7 ≤ bs.length ∧ hLen bs ≤ (bs.drop 7).length ∧
      ∃ v, specVal f (hDt bs) (hLen bs) ((bs.drop 7).take (hLen bs)) = some v ∧
        m = .mk (hTag bs) (hDt bs) v ∧ r = (bs.drop 7).drop (hLen bs) := by
  rw [specItem_succ]
  by_cases h7 : bs.length < 7
  · simp [h7]; omega
  · by_cases hl : (bs.drop 7).length < hLen bs
    · simp only [h7, hl, if_false, if_true]
      constructor
      · intro h; cases h
      · rintro ⟨_, h, _⟩; omega
    · simp only [h7, hl, if_false]
      cases specVal f (hDt bs) (hLen bs) ((bs.drop 7).take (hLen bs)) with
      | none => simp
      | some v =>
        simp only [Option.map_some, Option.some.injEq, Prod.mk.injEq]
        constructor
        · rintro ⟨h1, h2⟩
          exact ⟨by omega, by omega, v, rfl, h1.symm, h2.symm⟩
        · rintro ⟨_, _, v', hv, hm, hr⟩
          cases hv
          exact ⟨hm.symm, hr.symm⟩

/-- a parsed item is at least its 7 header bytes long -/
theorem specItem_rest_len {f : Nat} {bs : List Byte} {m : Msg} {r : List Byte}
    (h : Spec.specItem f bs = some (m, r)) : r.length + 7 ≤ bs.length := by
  cases f with
  | zero => rw [specItem_zero] at h; cases h
  | succ f =>
    obtain ⟨h7, hl, v, _, _, hr⟩ := (specItem_char f bs m r).mp h
    subst hr
    simp only [List.length_drop] at hl ⊢
    omega

theorem hdr_append (a b : List Byte) (h : 7 ≤ a.length) :
    hTag (a ++ b) = hTag a ∧ hDt (a ++ b) = hDt a ∧ hLen (a ++ b) = hLen a := by
  refine ⟨?_, ?_, ?_⟩
  · unfold hTag; rw [List.take_append_of_le_length (by omega)]
  · unfold hDt; rw [take_drop_append _ _ _ _ (by omega)]
  · unfold hLen; rw [take_drop_append _ _ _ _ (by omega)]

/-- locality: a successful item parse is stable under appending bytes -/
theorem specItem_append (f : Nat) (a b : List Byte) (m : Msg) (r : List Byte)
    (h : Spec.specItem f a = some (m, r)) : Spec.specItem f (a ++ b) = some (m, r ++ b) := by
  cases f with
  | zero => rw [specItem_zero] at h; cases h
  | succ f =>
    obtain ⟨h7, hl, v, hv, hm, hr⟩ := (specItem_char f a m r).mp h
    obtain ⟨e1, e2, e3⟩ := hdr_append a b h7
    rw [specItem_char, e1, e2, e3]
    have hd : (a ++ b).drop 7 = a.drop 7 ++ b := List.drop_append_of_le_length h7
    rw [hd]
    refine ⟨by simp; omega, by simp at hl ⊢; omega, v, ?_, hm, ?_⟩
    · rw [List.take_append_of_le_length hl]; exact hv
    · rw [List.drop_append_of_le_length hl, hr]

/-- locality: a successful item parse consumed a prefix of at least 7 bytes, which parses on its
    own, and returns the matching suffix -/
theorem specItem_suffix (f : Nat) (bs : List Byte) (m : Msg) (r : List Byte)
    (h : Spec.specItem f bs = some (m, r)) :
    ∃ pre, bs = pre ++ r ∧ 7 ≤ pre.length ∧ Spec.specItem f pre = some (m, []) := by
  cases f with
  | zero => rw [specItem_zero] at h; cases h
  | succ f =>
    obtain ⟨h7, hl, v, hv, hm, hr⟩ := (specItem_char f bs m r).mp h
    have hl' : 7 + hLen bs ≤ bs.length := by simp at hl; omega
    have hr' : r = bs.drop (7 + hLen bs) := by rw [hr, List.drop_drop]
    have hsplit : bs = bs.take (7 + hLen bs) ++ r := by rw [hr', List.take_append_drop]
    have hplen : (bs.take (7 + hLen bs)).length = 7 + hLen bs := by
      rw [List.length_take]; omega
    refine ⟨bs.take (7 + hLen bs), hsplit, by omega, ?_⟩
    generalize bs.take (7 + hLen bs) = pre at hsplit hplen
    subst hsplit
    obtain ⟨e1, e2, e3⟩ := hdr_append pre r (by omega)
    simp only [e1, e2, e3] at hv hm hl hplen
    have hd : (pre ++ r).drop 7 = pre.drop 7 ++ r := List.drop_append_of_le_length (by omega)
    have hdl : (pre.drop 7).length = hLen pre := by simp; omega
    rw [hd, List.take_append_of_le_length (by omega), List.take_of_length_le (by omega)] at hv
    rw [specItem_char]
    refine ⟨by omega, by omega, v, ?_, hm, ?_⟩
    · rw [List.take_of_length_le (by omega)]; exact hv
    · rw [List.drop_of_length_le (by omega)]

/-! ## the grammar does not depend on its fuel once there is enough of it -/

theorem specVal_congr {f g : Nat} {region : List Byte} (dt l : Nat)
    (h : Spec.specItems f region = Spec.specItems g region) :
    specVal f dt l region = specVal g dt l region := by
  unfold specVal; rw [h]

theorem spec_fuel : ∀ f g : Nat,
    (∀ bs : List Byte, bs.length ≤ f → bs.length ≤ g → Spec.specItem f bs = Spec.specItem g bs) ∧
    (∀ bs : List Byte, bs.length < f → bs.length < g → Spec.specItems f bs = Spec.specItems g bs)
  | 0, 0 => ⟨fun _ _ _ => rfl, fun _ _ _ => rfl⟩
  | 0, g+1 => by
    refine ⟨fun bs h _ => ?_, fun bs h _ => by omega⟩
    rw [specItem_zero, specItem_succ]; simp; omega
  | f+1, 0 => by
    refine ⟨fun bs _ h => ?_, fun bs _ h => by omega⟩
    rw [specItem_zero, specItem_succ]; simp; omega
  | f+1, g+1 => by
    have ih := spec_fuel f g
    constructor
    · intro bs hf hg
      rw [specItem_succ, specItem_succ]
      by_cases h7 : bs.length < 7
      · simp [h7]
      · rw [specVal_congr _ _ (ih.2 _ (by simp; omega) (by simp; omega))]
    · intro bs hf hg
      match bs with
      | [] => simp [Spec.specItems]
      | b :: bs' =>
        simp only [Spec.specItems]
        rw [ih.1 _ (by omega) (by omega)]
        cases hsi : Spec.specItem g (b :: bs') with
        | none => rfl
        | some p =>
          obtain ⟨m, r⟩ := p
          have := specItem_rest_len hsi
          simp only
          rw [ih.2 r (by omega) (by omega)]

theorem leNat_single_bne (b : Byte) : (leNat [b] != 0) = (b != 0) := by
  by_cases h : b = 0
  · subst h; simp [leNat]
  · have : b.toNat ≠ 0 := fun h' => h (UInt8.toNat_inj.mp (by simpa using h'))
    have e1 : (leNat [b] != 0) = true := by simpa [leNat] using this
    have e2 : (b != 0) = true := by simpa using h
    rw [e1, e2]

/-- what the recursive call for a container has to deliver -/
def ContHyp (f : Nat) (r3 : List Byte) (l : Nat) : Prop :=
  (r3.length < l → ∃ e, Model.readMsgs f r3 ((r3.length : Int) - (l : Int)) [] = .err e) ∧
  (l ≤ r3.length → Agree (Model.readMsgs f r3 ((r3.length : Int) - (l : Int)) [])
      ((Spec.specItems f (r3.take l)).map fun ms => (ms, r3.drop l)))

theorem readMsg_agree_step (f : Nat) (bs : List Byte) (h7 : 7 ≤ bs.length)
    (ih : ContHyp f (bs.drop 7) (hLen bs)) :
    Agree (Model.readMsg (f+1) bs) (Spec.specItem (f+1) bs) := by
  have t1 : Model.takeN 4 bs = .ok (bs.take 4, bs.drop 4) := takeN_ok (by omega)
  have t2 : Model.takeN 1 (bs.drop 4) = .ok ((bs.drop 4).take 1, bs.drop 5) := by
    rw [takeN_ok (by simp; omega), List.drop_drop]
  have t3 : Model.takeN 2 (bs.drop 5) = .ok ((bs.drop 5).take 2, bs.drop 7) := by
    rw [takeN_ok (by simp; omega), List.drop_drop]
  have hdt : hDt bs < 256 := by
    have := leNat_lt ((bs.drop 4).take 1)
    have hl : ((bs.drop 4).take 1).length = 1 := by simp; omega
    rw [hl] at this; exact this
  rw [Model.readMsg, specItem_succ]
  simp only [Gen.C.RSCP_DATA_TAG_SIZE, Gen.C.RSCP_DATA_DATATYPE_SIZE, Gen.C.RSCP_DATA_LENGTH_SIZE, t1, t2, t3]
  simp only [Nat.not_lt.mpr h7, if_false]
  unfold ContHyp at ih
  simp only [hTag, hDt, hLen] at hdt ih ⊢
  generalize leNat (bs.take 4) = tag
  generalize leNat ((bs.drop 4).take 1) = dt at hdt ih ⊢
  generalize bs.drop 7 = r3 at ih ⊢
  obtain ⟨l, hl⟩ : ∃ l, l = leNat ((bs.drop 5).take 2) := ⟨_, rfl⟩
  simp only [← hl] at ih ⊢
  clear hl t1 t2 t3 h7
  obtain ⟨ta1, ta2⟩ := table_agree dt hdt
  cases hA : Model.isADataType dt
  · simp only [Bool.not_false, if_true, specVal, ta2 hA]
    split <;> simp
  · have tk1 := table_kinds dt hdt hA
    have tk2 := table_kinds2 dt hdt hA
    simp only [Bool.not_true, Bool.false_eq_true, if_false, specVal, ta1 hA, lenMismatch_eq]
    by_cases hlong : l > Spec.maxItemData
    · have : Gen.Leaf.readMessage_tooLong l = true := by
        have hmax : Spec.maxItemData = 65528 := rfl
        rw [hmax] at hlong
        simp [Gen.Leaf.readMessage_tooLong, hlong]
      simp only [this, if_true, hlong]
      split <;> simp
    · have : Gen.Leaf.readMessage_tooLong l = false := by
        have hmax : Spec.maxItemData = 65528 := rfl
        rw [hmax] at hlong
        simp [Gen.Leaf.readMessage_tooLong, hlong]
      simp only [this, Bool.false_eq_true, if_false, hlong]
      obtain ⟨kNil, kBool, kTime, kStr⟩ := tk1
      obtain ⟨kBytes, kMsgs, kOther, kNum⟩ := tk2
      cases hk : Model.newEmptyKind dt
      case nil =>
        simp only [kNil hk]
        by_cases hn : (l != 0) = true
        · simp only [hn, if_true]; split <;> simp
        · have hl : l = 0 := by simpa using hn
          subst hl
          simp [Spec.leafValue]
      case bool =>
        simp only [kBool hk]
        by_cases hn : (l != 1) = true
        · simp only [hn, if_true]; split <;> simp
        · have hl : l = 1 := by simpa using hn
          subst hl
          match r3 with
          | [] => simp [Model.takeN]
          | b :: r' => simp [Model.takeN, Spec.leafValue, leNat_single_bne]
      case str =>
        simp only [kStr hk, Bool.false_eq_true, if_false]
        by_cases hlen : r3.length < l
        · simp [takeN_err hlen, hlen]
        · simp [takeN_ok (Nat.le_of_not_lt hlen), hlen, Spec.leafValue]
      case bytes =>
        simp only [kBytes hk, Bool.false_eq_true, if_false]
        by_cases hlen : r3.length < l
        · simp [takeN_err hlen, hlen]
        · simp [takeN_ok (Nat.le_of_not_lt hlen), hlen, Spec.leafValue]
      case other => exact absurd hk kOther
      case msgs =>
        simp only [kMsgs hk, Bool.false_eq_true, if_false, if_true]
        by_cases hlen : r3.length < l
        · obtain ⟨e, he⟩ := ih.1 hlen
          simp [he, hlen]
        · have := ih.2 (Nat.le_of_not_lt hlen)
          simp only [hlen, if_false]
          cases hm : Model.readMsgs f r3 ((r3.length : Int) - (l : Int)) [] <;>
            cases hs : Spec.specItems f (r3.take l) <;> simp_all
      case time =>
        simp only [kTime hk]
        by_cases hn : (l != 12) = true
        · simp only [hn, if_true]; split <;> simp
        · have hl : l = 12 := by simpa using hn
          subst hl
          by_cases hlen : r3.length < 12
          · by_cases h8 : r3.length < 8
            · simp [takeN_err h8, hlen]
            · have h4 : (r3.drop 8).length < 4 := by simp; omega
              simp [takeN_ok (Nat.le_of_not_lt h8), takeN_err h4, hlen]
          · have h4 : 4 ≤ (r3.drop 8).length := by simp; omega
            have hr : (r3.take 12).length = 12 := by simp; omega
            have e1 : (r3.take 12).take 8 = r3.take 8 := by rw [List.take_take]; simp
            have e2 : (r3.take 12).drop 8 = (r3.drop 8).take 4 := by rw [List.drop_take]
            have hs := toSigned8_range (leNat (r3.take 8)) (leNat_lt_of_length (by simp; omega))
            have hns := toSigned4_range (leNat ((r3.drop 8).take 4)) (leNat_lt_of_length (by simp; omega))
            simp [takeN_ok (show 8 ≤ r3.length by omega), takeN_ok h4, hlen, Spec.leafValue, hr, e1, e2,
              normTime_eq _ _ hs hns, List.drop_drop]
      all_goals
        obtain ⟨w, hw⟩ : ∃ w, (Model.newEmptyKind dt).width = some w := by rw [hk]; exact ⟨_, rfl⟩
        have hfo : fixedOf dt = some w := by
          rcases kNum with h | h
          · rw [hw] at h; cases h
          · rw [← h, hw]
        rw [hk] at hw
        simp only [hfo, hw]
        by_cases hn : (l != w) = true
        · simp only [hn, if_true]; split <;> simp
        · have hl : l = w := by simpa using hn
          subst hl
          by_cases hlen : r3.length < l
          · simp [takeN_err hlen, hlen]
          · have hr : (r3.take l).length = l := List.length_take_of_le (Nat.le_of_not_lt hlen)
            simp [takeN_ok (Nat.le_of_not_lt hlen), hlen, Spec.leafValue, hw, Model.decNum, hr]

theorem readMsg_short (f : Nat) (bs : List Byte) (h7 : bs.length < 7) :
    ∃ e, Model.readMsg (f+1) bs = .err e := by
  rw [Model.readMsg]
  simp only [Gen.C.RSCP_DATA_TAG_SIZE, Gen.C.RSCP_DATA_DATATYPE_SIZE, Gen.C.RSCP_DATA_LENGTH_SIZE]
  by_cases h4 : bs.length < 4
  · simp [takeN_err h4]
  · rw [takeN_ok (Nat.le_of_not_lt h4)]
    simp only
    by_cases h5 : (bs.drop 4).length < 1
    · simp [takeN_err h5]
    · rw [takeN_ok (Nat.le_of_not_lt h5)]
      simp only
      split
      · exact ⟨_, rfl⟩
      · have h6 : (bs.drop 5).length < 2 := by simp; omega
        simp [takeN_err h6]

def P1 (f : Nat) : Prop :=
  ∀ bs : List Byte, bs.length < f → Agree (Model.readMsg f bs) (Spec.specItem f bs)

def P2 (f : Nat) : Prop :=
  ∀ (bs : List Byte) (s : Int) (acc : List Msg), bs.length + 1 < f →
    (s < 0 → ∃ e, Model.readMsgs f bs s acc = .err e) ∧
    (∀ n : Nat, s = (n : Int) → n ≤ bs.length →
      Agree (Model.readMsgs f bs s acc)
        ((Spec.specItems f (bs.take (bs.length - n))).map
          fun ms => (acc ++ ms, bs.drop (bs.length - n))))

theorem step1 (f : Nat) (ih2 : P2 f) : P1 (f+1) := by
  intro bs hf
  by_cases h7 : bs.length < 7
  · obtain ⟨e, he⟩ := readMsg_short f bs h7
    rw [he, specItem_succ]; simp [h7]
  · apply readMsg_agree_step f bs (Nat.le_of_not_lt h7)
    have hlen : (bs.drop 7).length = bs.length - 7 := List.length_drop
    obtain ⟨i1, i2⟩ := ih2 (bs.drop 7) (((bs.drop 7).length : Int) - (hLen bs : Int)) [] (by omega)
    refine ⟨fun h => i1 (by omega), fun h => ?_⟩
    have := i2 ((bs.drop 7).length - hLen bs) (by omega) (by omega)
    have e : (bs.drop 7).length - ((bs.drop 7).length - hLen bs) = hLen bs := by omega
    simpa only [e, List.nil_append] using this

theorem step2 (f : Nat) (ih1 : P1 f) (ih2 : P2 f) : P2 (f+1) := by
  intro bs s acc hf
  constructor
  · -- the container end lies before the start of the stream: the loop runs into an error
    intro hs
    rw [Model.readMsgs]
    have hgt : (bs.length : Int) > s := by omega
    simp only [hgt, if_true]
    have h1 := ih1 bs (by omega)
    cases hsi : Spec.specItem f bs with
    | none =>
      rw [hsi] at h1
      obtain ⟨e, he⟩ := h1.err_of_none
      exact ⟨e, by rw [he]⟩
    | some p =>
      obtain ⟨m, r⟩ := p
      rw [hsi] at h1
      have hm : Model.readMsg f bs = .ok (m, r) := (h1.ok_iff (m, r)).mpr rfl
      have hlen := specItem_rest_len hsi
      rw [hm]
      exact (ih2 r s (acc ++ [m]) (by omega)).1 hs
  · intro n hn hle
    subst hn
    rw [Model.readMsgs]
    by_cases hgt : (bs.length : Int) > (n : Int)
    · simp only [hgt, if_true]
      have hgt' : n < bs.length := by omega
      have hsplit : bs = bs.take (bs.length - n) ++ bs.drop (bs.length - n) :=
        (List.take_append_drop _ _).symm
      have hne : bs.take (bs.length - n) ≠ [] := by
        intro h; have := congrArg List.length h; simp at this; omega
      have h1 := ih1 bs (by omega)
      cases hreg : bs.take (bs.length - n) with
      | nil => exact absurd hreg hne
      | cons a as =>
        rw [Spec.specItems]
        rw [← hreg]
        cases hsi : Spec.specItem f bs with
        | none =>
          rw [hsi] at h1
          obtain ⟨e, he⟩ := h1.err_of_none
          rw [he]
          cases hr : Spec.specItem f (bs.take (bs.length - n)) with
          | none => simp
          | some p =>
            have := specItem_append f _ (bs.drop (bs.length - n)) p.1 p.2 hr
            rw [← hsplit, hsi] at this; cases this
        | some p =>
          obtain ⟨m, r⟩ := p
          rw [hsi] at h1
          have hm : Model.readMsg f bs = .ok (m, r) := (h1.ok_iff (m, r)).mpr rfl
          rw [hm]
          simp only
          obtain ⟨pre, hbs, hpre7, hpre⟩ := specItem_suffix f bs m r hsi
          have hlen : bs.length = pre.length + r.length := by rw [hbs]; simp
          by_cases hfit : n ≤ r.length
          · -- the item fits into the region
            have hr2 := (ih2 r (n : Int) (acc ++ [m]) (by omega)).2 n rfl hfit
            have hregion : bs.take (bs.length - n) = pre ++ r.take (r.length - n) := by
              rw [hbs, List.take_append]
              have e : pre.length + r.length - n - pre.length = r.length - n := by omega
              simp only [List.length_append, e]
              rw [List.take_of_length_le (by omega)]
            have hdrop : bs.drop (bs.length - n) = r.drop (r.length - n) := by
              rw [hbs, List.drop_append]
              have e : pre.length + r.length - n - pre.length = r.length - n := by omega
              simp only [List.length_append, e]
              rw [List.drop_of_length_le (by omega)]; simp
            have hspec := specItem_append f pre (r.take (r.length - n)) m [] hpre
            rw [hregion, hspec, hdrop]
            simp only [List.nil_append]
            cases hx : Spec.specItems f (r.take (r.length - n)) with
            | none => rw [hx] at hr2; simpa using hr2
            | some ms =>
              rw [hx] at hr2
              simpa [List.append_assoc] using hr2
          · -- the item overruns the region
            have hfpos : ∃ f', f = f' + 1 := ⟨f - 1, by omega⟩
            obtain ⟨f', rfl⟩ := hfpos
            have herr : Model.readMsgs (f'+1) r (n : Int) (acc ++ [m]) = .err .dataLimit := by
              rw [Model.readMsgs]
              have h1 : ¬ ((r.length : Int) > (n : Int)) := by omega
              have h2 : (r.length : Int) ≠ (n : Int) := by omega
              simp [h1, h2]
            rw [herr]
            cases hr : Spec.specItem (f'+1) (bs.take (bs.length - n)) with
            | none => simp
            | some p =>
              have := specItem_append (f'+1) _ (bs.drop (bs.length - n)) p.1 p.2 hr
              rw [← hsplit, hsi] at this
              simp only [Option.some.injEq, Prod.mk.injEq] at this
              have := congrArg List.length this.2
              simp at this; omega
    · have he : bs.length = n := by omega
      have h2 : ¬ ((bs.length : Int) ≠ (n : Int)) := by omega
      simp only [hgt, h2, if_false]
      subst he
      simp [Spec.specItems]

/-- the stream reader of the implementation and the region grammar agree -/
theorem eqv : ∀ f, P1 f ∧ P2 f
  | 0 => ⟨fun bs h => by omega, fun bs s acc h => by omega⟩
  | f+1 => by
    have ⟨i1, i2⟩ := eqv f
    exact ⟨step1 f i2, step2 f i1 i2⟩

/-! ## the frame header -/

/-- `readHeader` in the vocabulary of the frame grammar -/
theorem readHeader_eq (data : List Byte) (h : 18 ≤ data.length) :
    Model.readHeader data =
      if leNat (data.take 2) ≠ 0xDCE3 then .err .invalidMagic
      else if leNat ((data.drop 2).take 2) &&& 0xE0FF ≠ 0 then .err .invalidControl
      else if (leNat ((data.drop 2).take 2) >>> 8) &&& 0xF ≠ 1 then .err .versionMismatch
      else .ok (decide ((leNat ((data.drop 2).take 2) >>> 12) &&& 1 = 1),
        18 + leNat ((data.drop 16).take 2) +
          (if (leNat ((data.drop 2).take 2) >>> 12) &&& 1 = 1 then 4 else 0),
        leNat ((data.drop 16).take 2)) := by
  have hc : leNat ((data.drop 2).take 2) < 65536 :=
    leNat_lt_of_length (n := 2) (by simp; omega)
  have hd : leNat ((data.drop 16).take 2) < 65536 :=
    leNat_lt_of_length (n := 2) (by simp; omega)
  unfold Model.readHeader
  simp only [Gen.C.RSCP_FRAME_HEADER_SIZE, Gen.C.RSCP_FRAME_MAGIC_POS, Gen.C.RSCP_FRAME_CTRL_POS,
    Gen.C.RSCP_FRAME_LENGTH_POS, Nat.not_lt.mpr h, if_false, List.drop_zero]
  obtain ⟨c, hcdef⟩ : ∃ c, c = leNat ((data.drop 2).take 2) := ⟨_, rfl⟩
  obtain ⟨ds, hdsdef⟩ : ∃ ds, ds = leNat ((data.drop 16).take 2) := ⟨_, rfl⟩
  simp only [← hcdef, ← hdsdef] at hc hd ⊢
  clear hcdef hdsdef
  have e1 := leaf_badCtrl c hc
  have e2 := leaf_badVersion c
  have e3 := leaf_crcFlag c hc
  have e4 := leaf_frameSize ds c hd hc
  have bm : ∀ m, Gen.Leaf.readHeader_badMagic m = true ↔ m ≠ 0xDCE3 := by
    intro m; simp [Gen.Leaf.readHeader_badMagic]
  have e3' : Gen.Leaf.readHeader_crcFlag c = decide ((c >>> 12) &&& 1 = 1) := by
    cases hb : Gen.Leaf.readHeader_crcFlag c
    · have : ¬ ((c >>> 12) &&& 1 = 1) := fun h => by rw [e3.mpr h] at hb; cases hb
      exact (decide_eq_false this).symm
    · exact (decide_eq_true (e3.mp hb)).symm
  simp only [bm, e1, e2, e3', e4]

/-! ## `Read` on one chunk -/

/-- the chunks `Read` accepts: whole cipher blocks, at least one -/
def GoodChunk (c : List Byte) : Prop := 32 ≤ c.length ∧ c.length % 32 = 0

theorem badChunk_false {c : List Byte} (h : GoodChunk c) :
    Gen.Leaf.Read_badChunk (c.length : Int) = false := by
  obtain ⟨h1, h2⟩ := h
  have e : Int.tmod (c.length : Int) 32 = ((c.length % 32 : Nat) : Int) := by
    rw [Int.tmod_eq_emod_of_nonneg (by omega)]; omega
  simp only [Gen.Leaf.Read_badChunk, e, h2]
  simp; omega

/-- what `Read` answers once the header is known and `buf` is the plaintext collected so far -/
def frameResult (cf : Bool) (fs ds : Nat) (buf : List Byte) : Res (List Msg) :=
  if buf.length < fs then .err .invalidFrameLength
  else if (buf.drop fs).all (· == 0) then Model.decodeComplete (buf.take fs) cf fs ds
  else .err .invalidFrameLength

/-- the buffer `Read` keeps -/
def nextBuf (fs : Nat) (buf : List Byte) : List Byte :=
  if buf.length < fs then buf
  else if (buf.drop fs).all (· == 0) then buf.take fs else strip buf fs

theorem readPlain_tail (st1 : Model.RState) (buf : List Byte) :
    (if Gen.Leaf.Read_complete (buf.length : Int) st1.frameSize then
      let (buf', trailing) := Model.truncatePadding buf st1.frameSize
      let st2 := { st1 with buf := buf' }
      if trailing then (st2, Res.err ErrClass.invalidFrameLength)
      else (st2, Model.decodeComplete buf' st1.crcFlag st1.frameSize st1.dataSize)
    else ({ st1 with buf := buf }, Res.err ErrClass.invalidFrameLength)) =
    ({ st1 with buf := nextBuf st1.frameSize buf },
      frameResult st1.crcFlag st1.frameSize st1.dataSize buf) := by
  unfold nextBuf frameResult
  by_cases hlt : buf.length < st1.frameSize
  · have : Gen.Leaf.Read_complete (buf.length : Int) st1.frameSize = false := by
      simp [Gen.Leaf.Read_complete]; omega
    simp [this, hlt]
  · have : Gen.Leaf.Read_complete (buf.length : Int) st1.frameSize = true := by
      simp [Gen.Leaf.Read_complete]; omega
    simp only [this, if_true, hlt, if_false]
    rw [truncatePadding_char buf _ (Nat.le_of_not_lt hlt)]
    cases hz : (buf.drop st1.frameSize).all (· == 0) <;> simp

theorem readPlain_nonempty (st : Model.RState) (data : List Byte) (hb : st.buf ≠ [])
    (hg : GoodChunk data) :
    Model.readPlain st data =
      ({ st with buf := nextBuf st.frameSize (st.buf ++ data) },
        frameResult st.crcFlag st.frameSize st.dataSize (st.buf ++ data)) := by
  unfold Model.readPlain
  have he : st.buf.isEmpty = false := by simpa using hb
  simp only [badChunk_false hg, Bool.false_eq_true, if_false, he]
  exact readPlain_tail st (st.buf ++ data)

theorem readPlain_empty (st : Model.RState) (data : List Byte) (hb : st.buf = [])
    (hg : GoodChunk data) :
    Model.readPlain st data =
      match Model.readHeader data with
      | .ok (cf, fs, ds) =>
        ({ buf := nextBuf fs data, crcFlag := cf, frameSize := fs, dataSize := ds },
          frameResult cf fs ds data)
      | .err e => ({ buf := [], crcFlag := false, frameSize := 0, dataSize := 0 }, .err e)
      | .panic => (st, .panic) := by
  unfold Model.readPlain
  have he : st.buf.isEmpty = true := by simp [hb]
  simp only [badChunk_false hg, Bool.false_eq_true, if_false, he, if_true]
  cases hh : Model.readHeader data with
  | ok p =>
    obtain ⟨cf, fs, ds⟩ := p
    simp only
    have := readPlain_tail { buf := [], crcFlag := cf, frameSize := fs, dataSize := ds } ([] ++ data)
    simpa using this
  | err e => simp [hb]
  | panic => rfl

/-! ## the complete frame -/

/-- the message loop neither panics nor runs out of fuel, wherever the caller puts the end mark -/
theorem readMsgs_ne_panic (f : Nat) (bs : List Byte) (s : Int) (acc : List Msg)
    (hf : bs.length + 1 < f) (hs : s ≤ (bs.length : Int)) : Model.readMsgs f bs s acc ≠ .panic := by
  obtain ⟨i1, i2⟩ := (eqv f).2 bs s acc hf
  by_cases hneg : s < 0
  · obtain ⟨e, he⟩ := i1 hneg
    rw [he]; intro h; cases h
  · exact (i2 s.toNat (by omega) (by omega)).ne_panic

theorem ite_err_ok_ne_panic {α : Type} (b : Bool) (e : ErrClass) (x : α) :
    (if b = true then Res.err e else Res.ok x) ≠ Res.panic := by
  cases b <;> simp

theorem decodeComplete_ne_panic (buf : List Byte) (cf : Bool) (fs ds : Nat)
    (hlen : buf.length = fs) (hcf : cf = true → 4 ≤ fs) :
    Model.decodeComplete buf cf fs ds ≠ .panic := by
  unfold Model.decodeComplete
  simp only [Gen.C.RSCP_FRAME_HEADER_SIZE, Gen.C.RSCP_FRAME_CRC_SIZE]
  have := readMsgs_ne_panic ((buf.drop 18).length + 2) (buf.drop 18)
    (((buf.drop 18).length : Int) - (ds : Int)) [] (by omega) (by omega)
  cases hr : Model.readMsgs ((buf.drop 18).length + 2) (buf.drop 18)
      (((buf.drop 18).length : Int) - (ds : Int)) [] with
  | panic => exact absurd hr this
  | err e => simp
  | ok p =>
    obtain ⟨ms, rest⟩ := p
    simp only
    cases cf with
    | false => simp
    | true =>
      have h4 := hcf rfl
      have hn : ¬ (fs < 4 ∨ buf.length < fs - 4) := by omega
      simp only [if_true, hn, if_false]
      exact ite_err_ok_ne_panic _ _ _

theorem decodeComplete_agree (plain : List Byte) (cf : Bool) (fs ds : Nat)
    (hfs : fs = 18 + ds + (if cf then 4 else 0)) (hle : fs ≤ plain.length) :
    Agree (Model.decodeComplete (plain.take fs) cf fs ds)
      ((Spec.specItems (ds + 1) ((plain.drop 18).take ds)).bind fun ms =>
          if cf then
            if leNat ((plain.drop (18 + ds)).take 4) = Crc.crc32 (plain.take (18 + ds))
            then some ms else none
          else some ms) := by
  unfold Model.decodeComplete
  simp only [Gen.C.RSCP_FRAME_HEADER_SIZE, Gen.C.RSCP_FRAME_CRC_SIZE]
  have hr : (plain.take fs).drop 18 = (plain.drop 18).take (fs - 18) := List.drop_take
  rw [hr]
  generalize hrdef : (plain.drop 18).take (fs - 18) = r
  have hrlen : r.length = fs - 18 := by rw [← hrdef]; simp; omega
  obtain ⟨c4, hc4⟩ : ∃ c4 : Nat, c4 = if cf then 4 else 0 := ⟨_, rfl⟩
  rw [← hc4] at hfs
  have hs : ((r.length : Int) - (ds : Int)) = (c4 : Int) := by omega
  rw [hs]
  have key := ((eqv (r.length + 2)).2 r (c4 : Int) [] (by omega)).2 c4 rfl (by omega)
  have e1 : r.length - c4 = ds := by omega
  have hreg : r.take ds = (plain.drop 18).take ds := by
    rw [← hrdef, List.take_take, Nat.min_eq_left (by omega)]
  rw [e1, hreg, (spec_fuel (r.length + 2) (ds + 1)).2 _ (by simp; omega) (by simp; omega)] at key
  cases hsp : Spec.specItems (ds + 1) ((plain.drop 18).take ds) with
  | none =>
    rw [hsp] at key
    obtain ⟨e, he⟩ := key.err_of_none
    rw [he]; simp
  | some ms =>
    rw [hsp] at key
    have hm := (key.ok_iff _).mpr rfl
    rw [hm]
    simp only [List.nil_append]
    cases cf with
    | false => simp
    | true =>
      simp only [if_true] at hc4
      subst hc4
      have hn : ¬ (fs < 4 ∨ (plain.take fs).length < fs - 4) := by simp; omega
      have hrest : r.drop ds = (plain.drop (18 + ds)).take 4 := by
        rw [← hrdef, List.drop_take, List.drop_drop]
        congr 1; omega
      have htk : Model.takeN 4 (r.drop ds) = .ok ((plain.drop (18 + ds)).take 4, []) := by
        rw [takeN_ok (by simp; omega), hrest, List.take_take]
        simp
      have hpre : (plain.take fs).take (fs - 4) = plain.take (18 + ds) := by
        rw [List.take_take]; congr 1; omega
      simp only [if_true, hn, if_false, htk, hpre, Gen.Leaf.Read_badCrc]
      by_cases hcrc : leNat ((plain.drop (18 + ds)).take 4) = Crc.crc32 (plain.take (18 + ds))
      · simp [hcrc]
      · simp [hcrc]

/-- one-shot decoding of a block-aligned plaintext agrees with the frame grammar -/
theorem decodeFrame_agree (plain : List Byte) (hg : GoodChunk plain) :
    Agree (Model.decodeFrame plain) (Spec.specDecode plain) := by
  have h18 : 18 ≤ plain.length := by have := hg.1; omega
  unfold Model.decodeFrame
  rw [readPlain_empty {} plain rfl hg, readHeader_eq plain h18]
  unfold Spec.specDecode
  simp only [Spec.frameHeaderSize, Spec.crcSize, Nat.not_lt.mpr h18, if_false]
  by_cases hm : leNat (plain.take 2) = 0xDCE3
  · by_cases hc : leNat ((plain.drop 2).take 2) &&& 0xE0FF = 0
    · by_cases hv : (leNat ((plain.drop 2).take 2) >>> 8) &&& 0xF = 1
      · simp only [ne_eq, hm, hc, hv, not_true_eq_false, if_false]
        obtain ⟨ds, hds⟩ : ∃ ds, ds = leNat ((plain.drop 16).take 2) := ⟨_, rfl⟩
        simp only [← hds]
        unfold frameResult
        by_cases hcrc : (leNat ((plain.drop 2).take 2) >>> 12) &&& 1 = 1
        · simp only [hcrc, if_true, decide_true]
          by_cases hlt : plain.length < 18 + ds + 4
          · simp [hlt]
          · simp only [hlt, if_false]
            cases hz : (plain.drop (18 + ds + 4)).all (· == 0)
            · simp
            · have := decodeComplete_agree plain true (18 + ds + 4) ds (by simp) (by omega)
              cases hsp : Spec.specItems (ds + 1) ((plain.drop 18).take ds) <;>
                simpa [hsp] using this
        · simp only [hcrc, if_false, decide_false, Nat.add_zero]
          by_cases hlt : plain.length < 18 + ds
          · simp [hlt]
          · simp only [hlt, if_false]
            cases hz : (plain.drop (18 + ds)).all (· == 0)
            · simp
            · have := decodeComplete_agree plain false (18 + ds) ds (by simp) (by omega)
              cases hsp : Spec.specItems (ds + 1) ((plain.drop 18).take ds) <;>
                simpa [hsp] using this
      · simp [hm, hc, hv]
    · simp [hm, hc]
  · simp [hm]

/-! ## totality -/

/-- the invariant of the variables `Read` keeps between calls that rules out the slice-bounds
    panic: a CRC is only expected in a frame that has room for it -/
def StateOK (st : Model.RState) : Prop := st.crcFlag = true → 4 ≤ st.frameSize

end Rscp.Lemmas.Decode

namespace Rscp.Model
/-- the states `Read` can be in: the initial one and whatever a call (on any data at all)
    leaves behind -/
inductive Reachable : RState → Prop
  | init : Reachable {}
  | step {st : RState} (data : List Byte) : Reachable st → Reachable (readPlain st data).1
end Rscp.Model

namespace Rscp.Lemmas.Decode
open Rscp

theorem goodChunk_of_not_bad {c : List Byte} (h : Gen.Leaf.Read_badChunk (c.length : Int) = false) :
    GoodChunk c := by
  have e : Int.tmod (c.length : Int) 32 = ((c.length % 32 : Nat) : Int) := by
    rw [Int.tmod_eq_emod_of_nonneg (by omega)]; omega
  simp only [Gen.Leaf.Read_badChunk, e, Bool.or_eq_false_iff, decide_eq_false_iff_not,
    bne_eq_false_iff_eq] at h
  constructor <;> omega

theorem readPlain_bad (st : Model.RState) (data : List Byte)
    (h : Gen.Leaf.Read_badChunk (data.length : Int) = true) :
    Model.readPlain st data = (st, .err .invalidFrameLength) := by
  unfold Model.readPlain; simp [h]

theorem readHeader_ok_inv {data : List Byte} {cf : Bool} {fs ds : Nat} (h18 : 18 ≤ data.length)
    (h : Model.readHeader data = .ok (cf, fs, ds)) : fs = 18 + ds + (if cf then 4 else 0) := by
  rw [readHeader_eq data h18] at h
  split at h
  · cases h
  · split at h
    · cases h
    · split at h
      · cases h
      · simp only [Res.ok.injEq, Prod.mk.injEq] at h
        obtain ⟨h1, h2, h3⟩ := h
        subst h1 h3
        rw [← h2]
        simp only [decide_eq_true_eq]

theorem readHeader_ne_panic {data : List Byte} (h18 : 18 ≤ data.length) :
    Model.readHeader data ≠ .panic := by
  rw [readHeader_eq data h18]
  split
  · simp
  · split
    · simp
    · split <;> simp

theorem frameResult_ne_panic (cf : Bool) (fs ds : Nat) (buf : List Byte) (h : cf = true → 4 ≤ fs) :
    frameResult cf fs ds buf ≠ .panic := by
  unfold frameResult
  by_cases hlt : buf.length < fs
  · simp [hlt]
  · simp only [hlt, if_false]
    split
    · exact decodeComplete_ne_panic _ _ _ _ (by simp; omega) h
    · simp

theorem readPlain_ne_panic (st : Model.RState) (data : List Byte) (h : StateOK st) :
    (Model.readPlain st data).2 ≠ .panic := by
  cases hb : Gen.Leaf.Read_badChunk (data.length : Int)
  · have hg := goodChunk_of_not_bad hb
    by_cases he : st.buf = []
    · rw [readPlain_empty st data he hg]
      have h18 : 18 ≤ data.length := by have := hg.1; omega
      cases hh : Model.readHeader data with
      | ok p =>
        obtain ⟨cf, fs, ds⟩ := p
        have := readHeader_ok_inv h18 hh
        exact frameResult_ne_panic _ _ _ _ (fun hcf => by subst hcf; simp at this; omega)
      | err e => simp
      | panic => exact absurd hh (readHeader_ne_panic h18)
    · rw [readPlain_nonempty st data he hg]
      exact frameResult_ne_panic _ _ _ _ h
  · rw [readPlain_bad st data hb]; simp

theorem readPlain_stateOK (st : Model.RState) (data : List Byte) (h : StateOK st) :
    StateOK (Model.readPlain st data).1 := by
  cases hb : Gen.Leaf.Read_badChunk (data.length : Int)
  · have hg := goodChunk_of_not_bad hb
    by_cases he : st.buf = []
    · rw [readPlain_empty st data he hg]
      have h18 : 18 ≤ data.length := by have := hg.1; omega
      cases hh : Model.readHeader data with
      | ok p =>
        obtain ⟨cf, fs, ds⟩ := p
        have := readHeader_ok_inv h18 hh
        intro hcf
        simp only at hcf ⊢
        subst hcf; simp at this; omega
      | err e => intro hcf; simp at hcf
      | panic => exact h
    · rw [readPlain_nonempty st data he hg]
      exact h
  · rw [readPlain_bad st data hb]; exact h

theorem stateOK_of_reachable {st : Model.RState} (h : Model.Reachable st) : StateOK st := by
  induction h with
  | init => intro h; simp at h
  | step data _ ih => exact readPlain_stateOK _ data ih

/-! ## feeding a frame in pieces -/

/-- how the buffer `Read` keeps relates to the plaintext `pre` it has been fed so far:
    (A) the frame is still incomplete and the buffer is the plaintext, or
    (B) both carry a non-zero byte behind the frame, or
    (C) the frame was complete, followed by zeros only, and the buffer is the frame -/
def BufRel (fs : Nat) (buf pre : List Byte) : Prop :=
  (buf = pre ∧ pre.length < fs) ∨
  ((buf.drop fs).all (· == 0) = false ∧ (pre.drop fs).all (· == 0) = false) ∨
  (buf = pre.take fs ∧ fs ≤ pre.length ∧ (pre.drop fs).all (· == 0) = true)

theorem bufRel_self (fs : Nat) (x : List Byte) : BufRel fs (nextBuf fs x) x := by
  unfold nextBuf
  by_cases hlt : x.length < fs
  · simp only [hlt, if_true]; exact Or.inl ⟨rfl, hlt⟩
  · simp only [hlt, if_false]
    cases hz : (x.drop fs).all (· == 0)
    · simp only [Bool.false_eq_true, if_false]
      exact Or.inr (Or.inl ⟨strip_of_not_all_zero x fs hz, hz⟩)
    · simp only [if_true]
      exact Or.inr (Or.inr ⟨rfl, Nat.le_of_not_lt hlt, hz⟩)

theorem all_append_false {l : List Byte} (c : List Byte) (fs : Nat)
    (h : (l.drop fs).all (· == 0) = false) : ((l ++ c).drop fs).all (· == 0) = false := by
  have hl := length_of_not_all_zero l fs h
  rw [List.drop_append_of_le_length (by omega), List.all_append, h]; rfl

theorem frameResult_of_trailing (cf : Bool) (fs ds : Nat) (x : List Byte)
    (h : (x.drop fs).all (· == 0) = false) : frameResult cf fs ds x = .err .invalidFrameLength := by
  unfold frameResult; simp [h]

theorem nextBuf_of_trailing (fs : Nat) (x : List Byte)
    (h : (x.drop fs).all (· == 0) = false) : nextBuf fs x = strip x fs := by
  have := length_of_not_all_zero x fs h
  unfold nextBuf; simp [h]; omega

/-- one more piece: the answer is that of one-shot decoding of everything fed so far, and the
    relation between buffer and plaintext is kept -/
theorem bufRel_step (cf : Bool) (fs ds : Nat) (buf pre c : List Byte) (h : BufRel fs buf pre) :
    frameResult cf fs ds (buf ++ c) = frameResult cf fs ds (pre ++ c) ∧
    BufRel fs (nextBuf fs (buf ++ c)) (pre ++ c) := by
  rcases h with ⟨rfl, _⟩ | ⟨hb, hp⟩ | ⟨rfl, hle, hz⟩
  · exact ⟨rfl, bufRel_self fs _⟩
  · have hb' := all_append_false c fs hb
    have hp' := all_append_false c fs hp
    refine ⟨by rw [frameResult_of_trailing _ _ _ _ hb', frameResult_of_trailing _ _ _ _ hp'], ?_⟩
    rw [nextBuf_of_trailing _ _ hb']
    exact Or.inr (Or.inl ⟨strip_of_not_all_zero _ fs hb', hp'⟩)
  · have hlen : (pre.take fs).length = fs := List.length_take_of_le hle
    have d1 : (pre.take fs ++ c).drop fs = c := by
      rw [List.drop_append_of_le_length (by omega), List.drop_of_length_le (by omega)]; rfl
    have d2 : ((pre ++ c).drop fs).all (· == 0) = c.all (· == 0) := by
      rw [List.drop_append_of_le_length hle, List.all_append, hz]; rfl
    have t1 : (pre.take fs ++ c).take fs = pre.take fs := by
      rw [List.take_append_of_le_length (by omega), List.take_of_length_le (by omega)]
    have t2 : (pre ++ c).take fs = pre.take fs := List.take_append_of_le_length hle
    have l1 : ¬ (pre.take fs ++ c).length < fs := by simp; omega
    have l2 : ¬ (pre ++ c).length < fs := by simp; omega
    constructor
    · unfold frameResult
      simp only [l1, l2, if_false, d1, d2, t1, t2]
    · unfold nextBuf
      simp only [l1, if_false, d1, t1]
      cases hc : c.all (· == 0)
      · simp only [Bool.false_eq_true, if_false]
        have hb' : ((pre.take fs ++ c).drop fs).all (· == 0) = false := by rw [d1, hc]
        exact Or.inr (Or.inl ⟨strip_of_not_all_zero _ fs hb', by rw [d2, hc]⟩)
      · simp only [if_true]
        exact Or.inr (Or.inr ⟨t2.symm, by simp; omega, by rw [d2, hc]⟩)

theorem readHeader_append (a b : List Byte) (h : 18 ≤ a.length) :
    Model.readHeader (a ++ b) = Model.readHeader a := by
  rw [readHeader_eq a h, readHeader_eq (a ++ b) (by simp; omega),
    List.take_append_of_le_length (by omega), take_drop_append _ _ _ _ (by omega),
    take_drop_append _ _ _ _ (by omega)]

theorem goodChunk_append {a b : List Byte} (ha : GoodChunk a) (hb : GoodChunk b) :
    GoodChunk (a ++ b) := by
  unfold GoodChunk at *; simp only [List.length_append]; omega

theorem decodeFrame_eq_frameResult {x : List Byte} {cf : Bool} {fs ds : Nat} (hg : GoodChunk x)
    (hh : Model.readHeader x = .ok (cf, fs, ds)) : Model.decodeFrame x = frameResult cf fs ds x := by
  unfold Model.decodeFrame
  rw [readPlain_empty {} x rfl hg, hh]

/-- the invariant of `Read` while a frame is fed in pieces; `pre` is the plaintext so far -/
def ChunkInv (cf : Bool) (fs ds : Nat) (st : Model.RState) (pre : List Byte) : Prop :=
  st.crcFlag = cf ∧ st.frameSize = fs ∧ st.dataSize = ds ∧ GoodChunk pre ∧
  Model.readHeader pre = .ok (cf, fs, ds) ∧ BufRel fs st.buf pre

theorem bufRel_nonempty {fs : Nat} {buf pre : List Byte} (h : BufRel fs buf pre) (hfs : 0 < fs)
    (hp : pre ≠ []) : buf ≠ [] := by
  rcases h with ⟨rfl, _⟩ | ⟨hb, _⟩ | ⟨rfl, hle, _⟩
  · exact hp
  · have := length_of_not_all_zero _ _ hb
    intro h; subst h; simp at this
  · intro h
    have := congrArg List.length h
    rw [List.length_take_of_le hle] at this
    simp at this; omega

theorem chunkInv_step {cf : Bool} {fs ds : Nat} {st : Model.RState} {pre : List Byte} (c : List Byte)
    (h : ChunkInv cf fs ds st pre) (hc : GoodChunk c) :
    (Model.readPlain st c).2 = Model.decodeFrame (pre ++ c) ∧
    ChunkInv cf fs ds (Model.readPlain st c).1 (pre ++ c) := by
  obtain ⟨h1, h2, h3, hg, hh, hr⟩ := h
  have h18 : 18 ≤ pre.length := by have := hg.1; omega
  have hfs := readHeader_ok_inv h18 hh
  have hne : st.buf ≠ [] := bufRel_nonempty hr (by omega) (by intro h; subst h; simp at h18)
  have hg' := goodChunk_append hg hc
  have hh' : Model.readHeader (pre ++ c) = .ok (cf, fs, ds) := by rw [readHeader_append _ _ h18, hh]
  obtain ⟨s1, s2⟩ := bufRel_step cf fs ds st.buf pre c hr
  rw [readPlain_nonempty st c hne hc, decodeFrame_eq_frameResult hg' hh', h1, h2, h3]
  exact ⟨s1, rfl, rfl, rfl, hg', hh', s2⟩

theorem chunkInv_first {cf : Bool} {fs ds : Nat} {c : List Byte} (hc : GoodChunk c)
    (hh : Model.readHeader c = .ok (cf, fs, ds)) : ChunkInv cf fs ds (Model.readPlain {} c).1 c := by
  rw [readPlain_empty {} c rfl hc, hh]
  exact ⟨rfl, rfl, rfl, hc, hh, bufRel_self fs c⟩

theorem readChunks_cons (st : Model.RState) (c : List Byte) (cs : List (List Byte)) :
    Model.readChunks st (c :: cs) =
      (Model.readPlain st c).2 :: Model.readChunks (Model.readPlain st c).1 cs := by
  rfl

theorem chunks_from (cf : Bool) (fs ds : Nat) :
    ∀ (cs : List (List Byte)) (st : Model.RState) (pre : List Byte),
      ChunkInv cf fs ds st pre → (∀ c ∈ cs, GoodChunk c) → ∀ j, j < cs.length →
      (Model.readChunks st cs)[j]? = some (Model.decodeFrame (pre ++ (cs.take (j+1)).flatten))
  | [], _, _, _, _, j, hj => by simp at hj
  | c :: cs, st, pre, hinv, hgood, j, hj => by
    obtain ⟨r1, r2⟩ := chunkInv_step c hinv (hgood c (by simp))
    rw [readChunks_cons]
    cases j with
    | zero => simp [r1]
    | succ j =>
      have := chunks_from cf fs ds cs _ _ r2 (fun c' hc' => hgood c' (by simp [hc'])) j
        (by simpa using hj)
      simpa [List.append_assoc] using this

theorem readHeader_err_ne {data : List Byte} {e : ErrClass} (h18 : 18 ≤ data.length)
    (h : Model.readHeader data = .err e) : e ≠ .invalidFrameLength := by
  rw [readHeader_eq data h18] at h
  split at h
  · cases h; simp
  · split at h
    · cases h; simp
    · split at h
      · cases h; simp
      · cases h

/-- feeding block-aligned pieces: see `Props.C03.chunking` -/
theorem chunking_aux (chunks : List (List Byte)) (hc : ∀ c ∈ chunks, GoodChunk c)
    (j : Nat) (hj : j < chunks.length)
    (hprev : ∀ i, i < j → (Model.readChunks {} chunks)[i]? = some (.err .invalidFrameLength)) :
    (Model.readChunks {} chunks)[j]? = some (Model.decodeFrame (chunks.take (j+1)).flatten) := by
  match chunks, hc, hj, hprev with
  | [], _, hj, _ => simp at hj
  | c0 :: cs, hc, hj, hprev =>
    have hg0 := hc c0 (by simp)
    have h18 : 18 ≤ c0.length := by have := hg0.1; omega
    rw [readChunks_cons] at hprev ⊢
    cases j with
    | zero => simp [Model.decodeFrame]
    | succ j =>
      have h0 := hprev 0 (by omega)
      simp only [List.getElem?_cons_zero, Option.some.injEq] at h0
      cases hh : Model.readHeader c0 with
      | ok p =>
        obtain ⟨cf, fs, ds⟩ := p
        have hinv := chunkInv_first hg0 hh
        have := chunks_from cf fs ds cs _ _ hinv (fun c' hc' => hc c' (by simp [hc'])) j
          (by simpa using hj)
        simpa using this
      | err e =>
        rw [readPlain_empty {} c0 rfl hg0, hh] at h0
        simp only [Res.err.injEq] at h0
        exact absurd h0 (readHeader_err_ne h18 hh)
      | panic => exact absurd hh (readHeader_ne_panic h18)

end Rscp.Lemmas.Decode
