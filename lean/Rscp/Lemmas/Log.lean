import Rscp.Model.Log
namespace Rscp.Model
/-- tag number by name, from the regenerated table -/
def tagNamedL (n : String) : Nat := (lookupStr n Gen.tagNameToValue).getD 0
end Rscp.Model
