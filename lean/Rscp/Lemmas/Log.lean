import Rscp.Model.Log
namespace Rscp.Model
/-- tag number by name, from the regenerated table -/
def tagNamedL (n : String) : Nat := (lookupStr n Gen.tagNameToValue).getD 0

mutual
/-- the text of a message is the text of the message with every secret value removed -/
theorem render_maskSecrets (tagS dtS : Nat → String) (leaf : Val → String) :
    ∀ m : Msg, render tagS dtS leaf m = render tagS dtS leaf (maskSecrets m)
  | .mk t d v => by
    by_cases hs : isSecret t = true
    · simp only [maskSecrets, hs, if_true, render]
    · have ih := renderVal_maskVal tagS dtS leaf v
      simp only [maskSecrets, hs, if_false, render, Bool.false_eq_true]
      rw [ih]
theorem renderVal_maskVal (tagS dtS : Nat → String) (leaf : Val → String) :
    ∀ v : Val, renderVal tagS dtS leaf v = renderVal tagS dtS leaf (maskVal v)
  | .msgs ms => by
    have ih := renderList_maskList tagS dtS leaf ms
    simp only [maskVal, renderVal]
    rw [ih]
  | .nil => by simp only [maskVal]
  | .bool _ => by simp only [maskVal]
  | .num _ _ => by simp only [maskVal]
  | .str _ => by simp only [maskVal]
  | .bytes _ => by simp only [maskVal]
  | .time _ _ => by simp only [maskVal]
  | .other _ => by simp only [maskVal]
theorem renderList_maskList (tagS dtS : Nat → String) (leaf : Val → String) :
    ∀ ms : List Msg, renderList tagS dtS leaf ms = renderList tagS dtS leaf (maskList ms)
  | [] => by simp only [maskList]
  | [m] => by
    have ih := render_maskSecrets tagS dtS leaf m
    simp only [maskList, renderList]
    exact ih
  | m :: m' :: ms => by
    have ih1 := render_maskSecrets tagS dtS leaf m
    have ih2 := renderList_maskList tagS dtS leaf (m' :: ms)
    simp only [maskList, renderList] at ih2 ⊢
    rw [← ih1, ← ih2]
end

end Rscp.Model
