import Rscp.Model.JsonOut
/-!
Helper lemmas for C13 (`Props/C13.lean`): the merged structure key by key, its keys, the sorted output,
the shapes of the two list formats, and printability.
-/
namespace Rscp.Lemmas.JsonOut
open Rscp Rscp.Model

/-- induction over a message forest: the children of a container and the rest of the level -/
theorem msgs_induction {P : List Msg → Prop} (nil : P [])
    (cont : ∀ t d c r, P c → P r → P (.mk t d (.msgs c) :: r))
    (leaf : ∀ t d v r, (∀ c, v = .msgs c → False) → P r → P (.mk t d v :: r)) : ∀ ms, P ms := by
  intro ms
  refine Val.rec_1 (motive_1 := fun v => ∀ c, v = .msgs c → P c)
    (motive_2 := fun m => ∀ r, P r → P (m :: r)) (motive_3 := P)
    ?_ ?_ ?_ ?_ ?_ ?_ ?_ ?_ ?_ ?_ ?_ ms
  · intro c h; cases h
  · intro _ c h; cases h
  · intro _ _ c h; cases h
  · intro _ c h; cases h
  · intro _ c h; cases h
  · intro _ _ c h; cases h
  · intro ms h c hc; cases hc; exact h
  · intro _ c h; cases h
  · intro t d v hv r hr
    cases v with
    | msgs c => exact cont t d c r (hv c rfl) hr
    | _ => exact leaf _ _ _ _ (by intro c h; cases h) hr
  · exact nil
  · intro m r hm hr; exact hm r hr

/-! ### `mget` / `mset` -/

theorem mget_mset_self (t : Nat) (v : MVal) (l : List (Nat × MVal)) : mget t (mset t v l) = some v := by
  induction l with
  | nil => simp [mset, mget]
  | cons p r ih =>
    obtain ⟨k, w⟩ := p
    by_cases h : k = t <;> simp [mset, mget, h, ih]

theorem mget_mset_other {t t' : Nat} (h : t' ≠ t) (v : MVal) (l : List (Nat × MVal)) :
    mget t (mset t' v l) = mget t l := by
  induction l with
  | nil => simp [mset, mget, h]
  | cons p r ih =>
    obtain ⟨k, w⟩ := p
    by_cases h1 : k = t'
    · subst h1; simp [mset, mget, h]
    · by_cases h2 : k = t
      · subst h2; simp [mset, mget, h1]
      · simp [mset, mget, h1, h2, ih]

theorem mem_keys_of_mget {t : Nat} {v : MVal} {l : List (Nat × MVal)} (h : mget t l = some v) :
    (t, v) ∈ l := by
  induction l with
  | nil => simp [mget] at h
  | cons p r ih =>
    obtain ⟨k, w⟩ := p
    by_cases h1 : k = t
    · simp [mget, h1] at h; simp [h1, h]
    · simp [mget, h1] at h; simp [ih h]

theorem mem_mset {t : Nat} {v : MVal} {l : List (Nat × MVal)} {p : Nat × MVal} (h : p ∈ mset t v l) :
    p = (t, v) ∨ p ∈ l := by
  induction l with
  | nil => simp [mset] at h; simp [h]
  | cons q r ih =>
    obtain ⟨k, w⟩ := q
    by_cases h1 : k = t
    · simp [mset, h1] at h; rcases h with h | h <;> simp [h]
    · simp [mset, h1] at h
      rcases h with h | h
      · simp [h]
      · rcases ih h with h | h <;> simp [h]

theorem keys_mset (t : Nat) (v : MVal) (l : List (Nat × MVal)) :
    (mset t v l).map (·.1) = if t ∈ l.map (·.1) then l.map (·.1) else l.map (·.1) ++ [t] := by
  induction l with
  | nil => simp [mset]
  | cons q r ih =>
    obtain ⟨k, w⟩ := q
    by_cases h1 : k = t
    · simp [mset, h1]
    · have h2 : ¬ t = k := fun h => h1 h.symm
      simp only [mset, h1, if_false, List.map_cons, ih, List.mem_cons, h2, false_or]
      split <;> simp

theorem nodup_keys_mset {t : Nat} {v : MVal} {l : List (Nat × MVal)} (h : (l.map (·.1)).Nodup) :
    ((mset t v l).map (·.1)).Nodup := by
  rw [keys_mset]
  split
  · exact h
  · rename_i hn
    rw [List.nodup_append]
    refine ⟨h, by simp, ?_⟩
    intro a ha b hb
    simp at hb
    subst hb
    intro hab; subst hab; exact hn ha

theorem mem_keys_mset {t t' : Nat} {v : MVal} {l : List (Nat × MVal)} :
    t' ∈ (mset t v l).map (·.1) ↔ t' = t ∨ t' ∈ l.map (·.1) := by
  rw [keys_mset]
  split
  · rename_i h
    constructor
    · exact Or.inr
    · rintro (h1 | h1)
      · subst h1; exact h
      · exact h1
  · simp [or_comm]


/-! ### what `mergedOf` does to one key -/

/-- a container arrives under a key in state `s` -/
def stepCont (s : Option MVal) (o : MObj) : Option MVal :=
  match s with
  | some (.one p) => some (.many [p, o])
  | some (.many os) => some (.many (os ++ [o]))
  | _ => some (.one o)

/-- a scalar arrives under a key in state `s` -/
def stepScal (s : Option MVal) (v : Val) : Option MVal :=
  match s with
  | some (.one _) => s
  | some (.many _) => s
  | _ => some (.scalar v)

/-- the state of key `t` after the messages `ms` -/
def tagState (t : Nat) : List Msg → Option MVal → Option MVal
  | [], s => s
  | .mk t' _ (.msgs c) :: r, s => if t' = t then tagState t r (stepCont s (merged c)) else tagState t r s
  | .mk t' _ v :: r, s => if t' = t then tagState t r (stepScal s v) else tagState t r s

theorem mget_mergedOf (t : Nat) (ms : List Msg) : ∀ jm, mget t (mergedOf ms jm) = tagState t ms (mget t jm) := by
  induction ms with
  | nil => intro jm; simp [mergedOf, tagState]
  | cons m r ih =>
    intro jm
    obtain ⟨t', d, v⟩ := m
    by_cases hv : ∃ c, v = .msgs c
    · obtain ⟨c, rfl⟩ := hv
      rw [mergedOf.eq_2]
      by_cases ht : t' = t
      · subst ht
        simp only [tagState, if_true]
        split <;> rename_i h <;> simp [ih, mget_mset_self, h, stepCont, merged]
      · simp only [tagState, ht, if_false]
        split <;> simp [ih, mget_mset_other ht]
    · have hv' : ∀ c, v = .msgs c → False := fun c h => hv ⟨c, h⟩
      rw [mergedOf.eq_3 _ _ _ _ _ hv']
      have hts : tagState t (.mk t' d v :: r) (mget t jm) =
          if t' = t then tagState t r (stepScal (mget t jm) v) else tagState t r (mget t jm) := by
        cases v <;> first | rfl | exact absurd rfl (hv' _)
      rw [hts]
      by_cases ht : t' = t
      · subst ht
        simp only [if_true]
        split <;> rename_i h <;> simp [ih, mget_mset_self, h, stepScal]
      · simp only [ht, if_false]
        split <;> simp [ih, mget_mset_other ht]


/-- the containers that arrived under tag `t` on this level, in order -/
def containers (t : Nat) : List Msg → List (List Msg)
  | [] => []
  | .mk t' _ (.msgs c) :: r => if t' = t then c :: containers t r else containers t r
  | _ :: r => containers t r

/-- the scalar values that arrived under tag `t` on this level, in order -/
def scalars (t : Nat) : List Msg → List Val
  | [] => []
  | .mk _ _ (.msgs _) :: r => scalars t r
  | .mk t' _ v :: r => if t' = t then v :: scalars t r else scalars t r

theorem containers_leaf {t t' d : Nat} {v : Val} (hv : ∀ c, v = .msgs c → False) (r : List Msg) :
    containers t (.mk t' d v :: r) = containers t r := by
  cases v <;> first | rfl | exact absurd rfl (hv _)

theorem scalars_leaf {t t' d : Nat} {v : Val} (hv : ∀ c, v = .msgs c → False) (r : List Msg) :
    scalars t (.mk t' d v :: r) = if t' = t then v :: scalars t r else scalars t r := by
  cases v <;> first | rfl | exact absurd rfl (hv _)

theorem tagState_leaf {t t' d : Nat} {v : Val} (hv : ∀ c, v = .msgs c → False) (r : List Msg) (s : Option MVal) :
    tagState t (.mk t' d v :: r) s = if t' = t then tagState t r (stepScal s v) else tagState t r s := by
  cases v <;> first | rfl | exact absurd rfl (hv _)

theorem tagState_many (t : Nat) (ms : List Msg) : ∀ os,
    tagState t ms (some (.many os)) = some (.many (os ++ (containers t ms).map merged)) := by
  induction ms with
  | nil => intro os; simp [tagState, containers]
  | cons m r ih =>
    intro os
    obtain ⟨t', d, v⟩ := m
    by_cases hv : ∃ c, v = .msgs c
    · obtain ⟨c, rfl⟩ := hv
      by_cases ht : t' = t <;> simp [tagState, containers, ht, stepCont, ih]
    · have hv' : ∀ c, v = .msgs c → False := fun c h => hv ⟨c, h⟩
      rw [tagState_leaf hv', containers_leaf hv']
      by_cases ht : t' = t <;> simp [ht, stepScal, ih]

theorem tagState_one (t : Nat) (ms : List Msg) : ∀ p,
    tagState t ms (some (.one p)) =
      match containers t ms with
      | [] => some (.one p)
      | cs => some (.many (p :: cs.map merged)) := by
  induction ms with
  | nil => intro p; simp [tagState, containers]
  | cons m r ih =>
    intro p
    obtain ⟨t', d, v⟩ := m
    by_cases hv : ∃ c, v = .msgs c
    · obtain ⟨c, rfl⟩ := hv
      by_cases ht : t' = t <;> simp [tagState, containers, ht, stepCont, ih, tagState_many]
    · have hv' : ∀ c, v = .msgs c → False := fun c h => hv ⟨c, h⟩
      rw [tagState_leaf hv', containers_leaf hv']
      by_cases ht : t' = t <;> simp [ht, stepScal, ih]

theorem tagState_low (t : Nat) (ms : List Msg) : ∀ s, (s = none ∨ ∃ w, s = some (.scalar w)) →
    tagState t ms s =
      match containers t ms, (scalars t ms).getLast? with
      | [], none => s
      | [], some v => some (.scalar v)
      | [c], _ => some (.one (merged c))
      | cs, _ => some (.many (cs.map merged)) := by
  induction ms with
  | nil => intro s _; simp [tagState, containers, scalars]
  | cons m r ih =>
    intro s hs
    obtain ⟨t', d, v⟩ := m
    by_cases hv : ∃ c, v = .msgs c
    · obtain ⟨c, rfl⟩ := hv
      by_cases ht : t' = t
      · have h1 : stepCont s (merged c) = some (.one (merged c)) := by
          rcases hs with rfl | ⟨w, rfl⟩ <;> rfl
        simp only [tagState, containers, scalars, ht, if_true, h1, tagState_one]
        cases containers t r <;> simp
      · simp [tagState, containers, scalars, ht, ih s hs]
    · have hv' : ∀ c, v = .msgs c → False := fun c h => hv ⟨c, h⟩
      rw [tagState_leaf hv', containers_leaf hv', scalars_leaf hv']
      by_cases ht : t' = t
      · have h1 : stepScal s v = some (.scalar v) := by
          rcases hs with rfl | ⟨w, rfl⟩ <;> rfl
        simp only [ht, if_true, h1]
        rw [ih _ (Or.inr ⟨v, rfl⟩), List.getLast?_cons]
        rcases containers t r with _ | ⟨c1, _ | ⟨c2, cs⟩⟩ <;> cases (scalars t r).getLast? <;> simp
      · simp [ht, ih s hs]

/-- `merged_key_owns_its_data`, over the local copies of `containersOf` / `scalarsOf` -/
theorem mget_merged (ms : List Msg) (t : Nat) :
    mget t (merged ms).entries =
      match containers t ms, (scalars t ms).getLast? with
      | [], none => none
      | [], some v => some (.scalar v)
      | [c], _ => some (.one (merged c))
      | cs, _ => some (.many (cs.map merged)) := by
  have h := mget_mergedOf t ms []
  have h0 : mget t [] = none := rfl
  rw [h0, tagState_low t ms _ (Or.inl rfl)] at h
  exact h


/-! ### the keys of the merged object -/

theorem key_mem_of_mget {t : Nat} {v : MVal} {l : List (Nat × MVal)} (h : mget t l = some v) :
    t ∈ l.map (·.1) :=
  List.mem_map.2 ⟨(t, v), mem_keys_of_mget h, rfl⟩

theorem keys_mergedOf (ms : List Msg) : ∀ jm, (jm.map (·.1)).Nodup →
    ((mergedOf ms jm).map (·.1)).Nodup ∧
      ∀ t, t ∈ (mergedOf ms jm).map (·.1) ↔ (t ∈ jm.map (·.1) ∨ ∃ m ∈ ms, m.tag = t) := by
  induction ms with
  | nil => intro jm h; simp [mergedOf, h]
  | cons m r ih =>
    intro jm hjm
    obtain ⟨t', d, v⟩ := m
    have key : ∀ w, ((mergedOf r (mset t' w jm)).map (·.1)).Nodup ∧
        ∀ t, t ∈ (mergedOf r (mset t' w jm)).map (·.1) ↔
          (t ∈ jm.map (·.1) ∨ ∃ m ∈ Msg.mk t' d v :: r, m.tag = t) := by
      intro w
      obtain ⟨h1, h2⟩ := ih (mset t' w jm) (nodup_keys_mset hjm)
      refine ⟨h1, fun t => ?_⟩
      rw [h2, mem_keys_mset]
      simp only [List.mem_cons, exists_eq_or_imp, Msg.tag]
      constructor
      · rintro ((h | h) | h)
        · exact Or.inr (Or.inl h.symm)
        · exact Or.inl h
        · exact Or.inr (Or.inr h)
      · rintro (h | h | h)
        · exact Or.inl (Or.inr h)
        · exact Or.inl (Or.inl h.symm)
        · exact Or.inr h
    have keep : ∀ w, mget t' jm = some w → ((mergedOf r jm).map (·.1)).Nodup ∧
        ∀ t, t ∈ (mergedOf r jm).map (·.1) ↔
          (t ∈ jm.map (·.1) ∨ ∃ m ∈ Msg.mk t' d v :: r, m.tag = t) := by
      intro w hw
      obtain ⟨h1, h2⟩ := ih jm hjm
      refine ⟨h1, fun t => ?_⟩
      rw [h2]
      simp only [List.mem_cons, exists_eq_or_imp, Msg.tag]
      constructor
      · rintro (h | h)
        · exact Or.inl h
        · exact Or.inr (Or.inr h)
      · rintro (h | h | h)
        · exact Or.inl h
        · subst h; exact Or.inl (key_mem_of_mget hw)
        · exact Or.inr h
    by_cases hv : ∃ c, v = .msgs c
    · obtain ⟨c, rfl⟩ := hv
      rw [mergedOf.eq_2]
      split <;> exact key _
    · have hv' : ∀ c, v = .msgs c → False := fun c h => hv ⟨c, h⟩
      rw [mergedOf.eq_3 _ _ _ _ _ hv']
      split
      · rename_i h; exact keep _ h
      · rename_i h; exact keep _ h
      · exact key _

theorem keys_merged (ms : List Msg) :
    ((merged ms).entries.map (·.1)).Nodup ∧ ∀ t, t ∈ (merged ms).entries.map (·.1) ↔ ∃ m ∈ ms, m.tag = t := by
  have h := keys_mergedOf ms [] (by simp)
  simpa [merged, MObj.entries] using h

/-! ### sorted output -/

theorem keys_insertSorted (k : Nat) (v : JO) (l : List (Nat × JO)) (a : Nat) :
    a ∈ (insertSorted k v l).map (·.1) ↔ a = k ∨ a ∈ l.map (·.1) := by
  induction l with
  | nil => simp [insertSorted]
  | cons p r ih =>
    obtain ⟨b, w⟩ := p
    by_cases h : k ≤ b
    · simp [insertSorted, h]
    · simp only [insertSorted, h, if_false, List.map_cons, List.mem_cons, ih]
      constructor
      · rintro (h | h | h) <;> simp [h]
      · rintro (h | h | h) <;> simp [h]

theorem sorted_insertSorted (k : Nat) (v : JO) (l : List (Nat × JO)) (h : (l.map (·.1)).Pairwise (· ≤ ·)) :
    ((insertSorted k v l).map (·.1)).Pairwise (· ≤ ·) := by
  induction l with
  | nil => simp [insertSorted]
  | cons p r ih =>
    obtain ⟨b, w⟩ := p
    simp only [List.map_cons, List.pairwise_cons] at h
    by_cases hk : k ≤ b
    · simp only [insertSorted, hk, if_true, List.map_cons, List.pairwise_cons]
      refine ⟨?_, h⟩
      intro a ha
      simp only [List.mem_cons] at ha
      rcases ha with rfl | ha
      · exact hk
      · exact Nat.le_trans hk (h.1 a ha)
    · simp only [insertSorted, hk, if_false, List.map_cons, List.pairwise_cons]
      refine ⟨?_, ih h.2⟩
      intro a ha
      rw [keys_insertSorted] at ha
      rcases ha with rfl | ha
      · omega
      · exact h.1 a ha

theorem sorted_marshalEntries (es : List (Nat × MVal)) : ∀ kvs, marshalEntries es = some kvs →
    (kvs.map (·.1)).Pairwise (· ≤ ·) := by
  induction es with
  | nil => intro kvs h; simp [marshalEntries] at h; subst h; simp
  | cons p r ih =>
    intro kvs h
    obtain ⟨t, v⟩ := p
    rw [marshalEntries.eq_2] at h
    split at h
    · rename_i j rest hj hr
      cases h
      exact sorted_insertSorted _ _ _ (ih _ hr)
    · cases h


/-! ### the shapes of `jsonsimple` and `json` -/

theorem fmtSimpleMsg_shape (m : Msg) (x : JO) (h : fmtSimpleMsg m = some x) :
    ∃ j, x = .obj [(tagKey m.tag, j)] ∧ (∀ c, m.val = .msgs c → ∃ ys, j = .arr ys ∧ fmtSimpleList c = some ys) := by
  obtain ⟨t, d, v⟩ := m
  by_cases hv : ∃ c, v = .msgs c
  · obtain ⟨c, rfl⟩ := hv
    rw [fmtSimpleMsg.eq_1] at h
    cases hc : fmtSimpleList c with
    | none => simp [hc] at h
    | some ys =>
      simp [hc] at h
      refine ⟨.arr ys, h.symm, ?_⟩
      intro c' hc'
      simp only [Msg.val, Val.msgs.injEq] at hc'
      subst hc'
      exact ⟨ys, rfl, hc⟩
  · have hv' : ∀ c, v = .msgs c → False := fun c h => hv ⟨c, h⟩
    rw [fmtSimpleMsg.eq_2 _ _ _ hv'] at h
    cases hl : leafJO true v with
    | none => simp [hl] at h
    | some j =>
      simp [hl] at h
      exact ⟨j, h.symm, fun c hc => (hv' c hc).elim⟩

theorem simple_shape (ms : List Msg) : ∀ (xs : List JO), fmtSimpleList ms = some xs →
    xs.length = ms.length ∧ ∀ i (hi : i < ms.length) (hx : i < xs.length),
      ∃ j, xs[i] = .obj [(tagKey (ms[i]).tag, j)] ∧
        (∀ c, (ms[i]).val = .msgs c → ∃ ys, j = .arr ys ∧ fmtSimpleList c = some ys) := by
  induction ms with
  | nil => intro xs h; simp [fmtSimpleList] at h; subst h; simp
  | cons m r ih =>
    intro xs h
    rw [fmtSimpleList.eq_2] at h
    split at h
    · rename_i j rest hj hr
      cases h
      obtain ⟨h1, h2⟩ := ih rest hr
      refine ⟨by simp [h1], ?_⟩
      intro i hi hx
      cases i with
      | zero => simpa using fmtSimpleMsg_shape m j hj
      | succ i =>
        simp only [List.getElem_cons_succ]
        exact h2 i (by simpa using hi) (by simpa using hx)
    · cases h

theorem fmtJsonMsg_shape (m : Msg) (x : JO) (h : fmtJsonMsg m = some x) :
    ∃ j, x = .obj [("Tag", .str (tagKey m.tag).toUTF8.toList),
                    ("DataType", .str (dataTypeKey m.dt).toUTF8.toList), ("Value", j)] := by
  obtain ⟨t, d, v⟩ := m
  by_cases hv : ∃ c, v = .msgs c
  · obtain ⟨c, rfl⟩ := hv
    rw [fmtJsonMsg.eq_1] at h
    cases hc : fmtJsonList c with
    | none => simp [hc] at h
    | some ys =>
      simp [hc] at h
      exact ⟨_, h.symm⟩
  · have hv' : ∀ c, v = .msgs c → False := fun c h => hv ⟨c, h⟩
    rw [fmtJsonMsg.eq_2 _ _ _ hv'] at h
    cases hl : leafJO false v with
    | none => simp [hl] at h
    | some j =>
      simp [hl] at h
      exact ⟨j, h.symm⟩

theorem json_shape (ms : List Msg) : ∀ (xs : List JO), fmtJsonList ms = some xs →
    xs.length = ms.length ∧ ∀ i (hi : i < ms.length) (hx : i < xs.length),
      ∃ j, xs[i] = .obj [("Tag", .str (tagKey (ms[i]).tag).toUTF8.toList),
                          ("DataType", .str (dataTypeKey (ms[i]).dt).toUTF8.toList), ("Value", j)] := by
  induction ms with
  | nil => intro xs h; simp [fmtJsonList] at h; subst h; simp
  | cons m r ih =>
    intro xs h
    rw [fmtJsonList.eq_2] at h
    split at h
    · rename_i j rest hj hr
      cases h
      obtain ⟨h1, h2⟩ := ih rest hr
      refine ⟨by simp [h1], ?_⟩
      intro i hi hx
      cases i with
      | zero => simpa using fmtJsonMsg_shape m j hj
      | succ i =>
        simp only [List.getElem_cons_succ]
        exact h2 i (by simpa using hi) (by simpa using hx)
    · cases h


/-! ### every printable response gives one document -/

/-- what the lemmas below need from a predicate "no unprintable leaf in the forest" -/
structure PrintableForest (b : Bool) (P : List Msg → Prop) : Prop where
  cont : ∀ t d c r, P (.mk t d (.msgs c) :: r) → P c ∧ P r
  leaf : ∀ t d v r, (∀ c, v = .msgs c → False) → P (.mk t d v :: r) → (leafJO b v).isSome ∧ P r

theorem fmtSimpleList_isSome {P : List Msg → Prop} (hP : PrintableForest true P) :
    ∀ ms, P ms → (fmtSimpleList ms).isSome := by
  refine msgs_induction ?_ ?_ ?_
  · intro _; simp [fmtSimpleList]
  · intro t d c r ihc ihr h
    obtain ⟨hc, hr⟩ := hP.cont _ _ _ _ h
    obtain ⟨ys, hys⟩ := Option.isSome_iff_exists.1 (ihc hc)
    obtain ⟨zs, hzs⟩ := Option.isSome_iff_exists.1 (ihr hr)
    simp [fmtSimpleList.eq_2, fmtSimpleMsg.eq_1, hys, hzs]
  · intro t d v r hv ihr h
    obtain ⟨hl, hr⟩ := hP.leaf _ _ _ _ hv h
    obtain ⟨j, hj⟩ := Option.isSome_iff_exists.1 hl
    obtain ⟨zs, hzs⟩ := Option.isSome_iff_exists.1 (ihr hr)
    simp [fmtSimpleList.eq_2, fmtSimpleMsg.eq_2 _ _ _ hv, hj, hzs]

theorem fmtJsonList_isSome {P : List Msg → Prop} (hP : PrintableForest false P) :
    ∀ ms, P ms → (fmtJsonList ms).isSome := by
  refine msgs_induction ?_ ?_ ?_
  · intro _; simp [fmtJsonList]
  · intro t d c r ihc ihr h
    obtain ⟨hc, hr⟩ := hP.cont _ _ _ _ h
    obtain ⟨ys, hys⟩ := Option.isSome_iff_exists.1 (ihc hc)
    obtain ⟨zs, hzs⟩ := Option.isSome_iff_exists.1 (ihr hr)
    simp [fmtJsonList.eq_2, fmtJsonMsg.eq_1, hys, hzs]
  · intro t d v r hv ihr h
    obtain ⟨hl, hr⟩ := hP.leaf _ _ _ _ hv h
    obtain ⟨j, hj⟩ := Option.isSome_iff_exists.1 hl
    obtain ⟨zs, hzs⟩ := Option.isSome_iff_exists.1 (ihr hr)
    simp [fmtJsonList.eq_2, fmtJsonMsg.eq_2 _ _ _ hv, hj, hzs]

/-- every value stored in the object can be marshalled -/
def EntriesOK (l : List (Nat × MVal)) : Prop := ∀ p ∈ l, (marshalMVal p.2).isSome

theorem entriesOK_mset {t : Nat} {v : MVal} {l : List (Nat × MVal)} (hv : (marshalMVal v).isSome)
    (hl : EntriesOK l) : EntriesOK (mset t v l) := by
  intro p hp
  rcases mem_mset hp with rfl | h
  · exact hv
  · exact hl p h

theorem marshalEntries_isSome (es : List (Nat × MVal)) (h : EntriesOK es) : (marshalEntries es).isSome := by
  induction es with
  | nil => simp [marshalEntries]
  | cons p r ih =>
    obtain ⟨t, v⟩ := p
    obtain ⟨j, hj⟩ := Option.isSome_iff_exists.1 (h (t, v) (by simp))
    obtain ⟨zs, hzs⟩ := Option.isSome_iff_exists.1 (ih (fun q hq => h q (by simp [hq])))
    simp at hj
    simp [marshalEntries.eq_2, hj, hzs]

theorem marshalMObj_isSome (es : List (Nat × MVal)) (h : EntriesOK es) : (marshalMObj (.mk es)).isSome := by
  obtain ⟨zs, hzs⟩ := Option.isSome_iff_exists.1 (marshalEntries_isSome es h)
  simp [marshalMObj, hzs]

theorem marshalMObjs_append (os : List MObj) (o : MObj) (h1 : (marshalMObjs os).isSome)
    (h2 : (marshalMObj o).isSome) : (marshalMObjs (os ++ [o])).isSome := by
  obtain ⟨j, hj⟩ := Option.isSome_iff_exists.1 h2
  induction os with
  | nil => simp [marshalMObjs, hj]
  | cons a r ih =>
    rw [marshalMObjs] at h1
    split at h1
    · rename_i x xs hx hxs
      obtain ⟨ys, hys⟩ := Option.isSome_iff_exists.1 (ih (by simp [hxs]))
      simp [marshalMObjs, hx, hys]
    · simp at h1

theorem entriesOK_mergedOf {P : List Msg → Prop} (hP : PrintableForest true P) :
    ∀ ms, P ms → ∀ jm, EntriesOK jm → EntriesOK (mergedOf ms jm) := by
  refine msgs_induction ?_ ?_ ?_
  · intro _ jm h; simpa [mergedOf] using h
  · intro t d c r ihc ihr h jm hjm
    obtain ⟨hc, hr⟩ := hP.cont _ _ _ _ h
    have ho : (marshalMObj (.mk (mergedOf c []))).isSome :=
      marshalMObj_isSome _ (ihc hc [] (by intro p hp; cases hp))
    obtain ⟨j, hj⟩ := Option.isSome_iff_exists.1 ho
    rw [mergedOf.eq_2]
    split
    · rename_i prev hprev
      have := hjm _ (mem_keys_of_mget hprev)
      simp only [marshalMVal] at this
      obtain ⟨j', hj'⟩ := Option.isSome_iff_exists.1 this
      exact ihr hr _ (entriesOK_mset (by simp [marshalMVal, marshalMObjs, hj, hj']) hjm)
    · rename_i os hos
      have := hjm _ (mem_keys_of_mget hos)
      simp only [marshalMVal, Option.isSome_map] at this
      have h3 := marshalMObjs_append os _ this ho
      exact ihr hr _ (entriesOK_mset (by simpa [marshalMVal] using h3) hjm)
    · exact ihr hr _ (entriesOK_mset (by simpa [marshalMVal] using ho) hjm)
  · intro t d v r hv ihr h jm hjm
    obtain ⟨hl, hr⟩ := hP.leaf _ _ _ _ hv h
    rw [mergedOf.eq_3 _ _ _ _ _ hv]
    split
    · exact ihr hr _ hjm
    · exact ihr hr _ hjm
    · exact ihr hr _ (entriesOK_mset (by simpa [marshalMVal] using hl) hjm)

theorem one_document_map {P : List Msg → Prop} (hP : PrintableForest true P) (ms : List Msg) (h : P ms) :
    (fmtMerged ms).isSome ∧ (fmtSimple ms).isSome := by
  constructor
  · exact marshalMObj_isSome _ (entriesOK_mergedOf hP ms h [] (by intro p hp; cases hp))
  · simpa [fmtSimple] using fmtSimpleList_isSome hP ms h

theorem one_document_json {P : List Msg → Prop} (hP : PrintableForest false P) (ms : List Msg) (h : P ms) :
    (fmtJson ms).isSome := by
  simpa [fmtJson] using fmtJsonList_isSome hP ms h


/-! ### the unprintable leaves of the known finding -/

theorem floatClass_nan : floatClass 11 52 9221120237041090560 = none := by decide
theorem goYear_10000 : goYear 253402300800 = 10000 := by decide
theorem goYear_neg : goYear (-62167219201) = -1 := by decide

theorem leaf_nan (b : Bool) : leafJO b (.num .f64 9221120237041090560) = none := by
  simp [leafJO, floatClass_nan]
theorem leaf_year_10000 (b : Bool) : leafJO b (.time 253402300800 0) = none := by
  simp [leafJO, goYear_10000]
theorem leaf_year_neg_struct : leafJO false (.time (-62167219201) 0) = none := by
  simp [leafJO, goYear_neg]
theorem leaf_year_neg_map : leafJO true (.time (-62167219201) 0) = some (.tim 0 0) := by
  simp [leafJO, goYear_neg]

end Rscp.Lemmas.JsonOut
