/-
Helper lemmas for C04c: the receive loop of the client (`Model/Receive.lean`) on a stream none of whose
block-aligned prefixes is answered with messages by one-shot decoding; and the altered checksummed frame is
such a stream. Core Lean only in this file.
-/
import Rscp.Lemmas.Receive
import Rscp.Lemmas.CrcPieces
namespace Rscp.Lemmas.CrcClient
open Rscp Rscp.Model Rscp.Lemmas.Decode Rscp.Lemmas.Receive

/-- one-shot decoding answers no block-aligned prefix of the stream with messages -/
def NoPrefixOk (S : List Byte) : Prop :=
  ∀ n, 32 ≤ n → n % 32 = 0 → n ≤ S.length → ∀ ms', decodeFrame (S.take n) ≠ .ok ms'

/-- what has been fed so far plus the next whole blocks is a block-aligned prefix of the stream -/
theorem fed_prefix (S fed pend tail : List Byte) (hf : fed.length % 32 = 0) (hlen : 32 ≤ pend.length)
    (hS : S = fed ++ (pend ++ tail)) :
    ∃ n, 32 ≤ n ∧ n % 32 = 0 ∧ n ≤ S.length ∧ fed ++ pend.take (whole pend) = S.take n := by
  have hw := length_take_whole pend
  have hS' : S = (fed ++ pend.take (whole pend)) ++ (pend.drop (whole pend) ++ tail) := by
    rw [hS, List.append_assoc, ← List.append_assoc (pend.take _), List.take_append_drop]
  have hge := whole_ge pend hlen
  have hm := whole_mod pend
  refine ⟨(fed ++ pend.take (whole pend)).length, ?_, ?_, ?_, ?_⟩
  · rw [List.length_append, hw]; omega
  · rw [List.length_append, hw]; omega
  · conv => rhs; rw [hS', List.length_append]
    exact Nat.le_add_right _ _
  · conv => rhs; rw [hS']
    rw [List.take_left']
    rfl

/-- once the header has been read: the loop does not return messages -/
theorem loop_running_not_ok (cf : Bool) (fs ds : Nat) (S : List Byte) (hno : NoPrefixOk S) :
    ∀ (rest : List (List Byte)) (st : RState) (pending fed : List Byte), (∀ p ∈ rest, p ≠ []) →
      ChunkInv cf fs ds st fed → S = fed ++ (pending ++ rest.flatten) →
      ∀ ms', (recvLoop st pending fed rest).result ≠ .ok ms'
  | [], st, pending, fed, _, _, _, ms' => by
    rw [recvLoop_nil]; intro h; cases h
  | piece :: rest, st, pending, fed, hne, hinv, hS, ms' => by
    have hpn : piece ≠ [] := hne piece (List.mem_cons_self ..)
    have hne' : ∀ p ∈ rest, p ≠ [] := fun p h => hne p (List.mem_cons_of_mem _ h)
    have ih := fun st pending fed => loop_running_not_ok cf fs ds S hno rest st pending fed hne'
    rw [List.flatten_cons, ← List.append_assoc pending] at hS
    by_cases hlen : (pending ++ piece).length < 32
    · rw [recvLoop_short st pending fed piece rest hpn hlen]
      exact ih st _ fed hinv hS ms'
    · have hlen' : 32 ≤ (pending ++ piece).length := Nat.le_of_not_lt hlen
      rw [recvLoop_call st pending fed piece rest hpn hlen']
      generalize pending ++ piece = pend at *
      have hgb := goodChunk_whole pend hlen'
      obtain ⟨r1, r2⟩ := chunkInv_step (pend.take (whole pend)) hinv hgb
      have hS' : S = (fed ++ pend.take (whole pend)) ++ (pend.drop (whole pend) ++ rest.flatten) := by
        rw [hS, List.append_assoc, ← List.append_assoc (pend.take _), List.take_append_drop]
      split
      · exact ih _ _ _ r2 hS' ms'
      · obtain ⟨n, h32, hmod, hle, hpre⟩ := fed_prefix S fed pend rest.flatten hinv.2.2.2.1.2 hlen' hS
        show (readPlain st (pend.take (whole pend))).2 ≠ .ok ms'
        rw [r1, hpre]
        exact hno n h32 hmod hle ms'

/-- from the start of a reply: the loop does not return messages -/
theorem loop_start_not_ok (S : List Byte) (hno : NoPrefixOk S) :
    ∀ (rest : List (List Byte)) (pending : List Byte), (∀ p ∈ rest, p ≠ []) →
      S = pending ++ rest.flatten →
      ∀ ms', (recvLoop ({} : RState) pending [] rest).result ≠ .ok ms'
  | [], pending, _, _, ms' => by
    rw [recvLoop_nil]; intro h; cases h
  | piece :: rest, pending, hne, hS, ms' => by
    have hpn : piece ≠ [] := hne piece (List.mem_cons_self ..)
    have hne' : ∀ p ∈ rest, p ≠ [] := fun p h => hne p (List.mem_cons_of_mem _ h)
    rw [List.flatten_cons, ← List.append_assoc pending] at hS
    by_cases hlen : (pending ++ piece).length < 32
    · rw [recvLoop_short _ pending [] piece rest hpn hlen]
      exact loop_start_not_ok S hno rest _ hne' hS ms'
    · have hlen' : 32 ≤ (pending ++ piece).length := Nat.le_of_not_lt hlen
      rw [recvLoop_call _ pending [] piece rest hpn hlen']
      generalize pending ++ piece = pend at *
      have hgb := goodChunk_whole pend hlen'
      have h18 : 18 ≤ (pend.take (whole pend)).length := by have := hgb.1; omega
      have hS' : S = pend.take (whole pend) ++ (pend.drop (whole pend) ++ rest.flatten) := by
        rw [hS, ← List.append_assoc, List.take_append_drop]
      obtain ⟨n, h32, hmod, hle, hpre⟩ := fed_prefix S [] pend rest.flatten rfl hlen' (by rw [List.nil_append]; exact hS)
      rw [List.nil_append] at hpre ⊢
      have hr : (readPlain ({} : RState) (pend.take (whole pend))).2 = decodeFrame (S.take n) := by
        rw [← hpre]; rfl
      split
      · rename_i hc
        cases hh : readHeader (pend.take (whole pend)) with
        | ok q =>
          obtain ⟨cf, fs, ds⟩ := q
          exact loop_running_not_ok cf fs ds S hno rest _ _ _ hne' (chunkInv_first hgb hh) hS' ms'
        | err e =>
          rw [readPlain_empty _ _ rfl hgb, hh] at hc
          simp only at hc
          rw [cont_err_false (readHeader_err_ne h18 hh)] at hc
          cases hc
        | panic => exact absurd hh (readHeader_ne_panic h18)
      · show (readPlain ({} : RState) (pend.take (whole pend))).2 ≠ .ok ms'
        rw [hr]
        exact hno n h32 hmod hle ms'

/-- `receive` does not return messages for such a stream, however it is delivered and buffered -/
theorem receive_not_ok (S : List Byte) (hno : NoPrefixOk S) (bufBlocks : Nat) (segs : List (List Byte))
    (hflat : segs.flatten = S) : ∀ ms', (receiveBytes bufBlocks segs).result ≠ .ok ms' := by
  intro ms'
  unfold receiveBytes
  by_cases hcap : 0 < uwrap 32 (Gen.C.RSCP_CRYPT_BLOCK_SIZE * bufBlocks)
  · obtain ⟨h1, h2⟩ := reads_spec _ hcap segs
    exact loop_start_not_ok S hno _ [] h2 (by rw [h1, hflat]; rfl) ms'
  · have h0 : uwrap 32 (Gen.C.RSCP_CRYPT_BLOCK_SIZE * bufBlocks) = 0 := Nat.eq_zero_of_not_pos hcap
    rw [h0, reads_zero]
    intro h; cases h

open Rscp.Crc Rscp.Props.C04 Rscp.Lemmas.CrcPieces in
/-- the altered checksummed frame is such a stream, for any class of error patterns that one-shot decoding
    rejects on every block-aligned prefix covering the frame -/
theorem altered_noPrefixOk (p e : List Byte) (hc : hasCrc p) (ht : TouchesOnlyTimePayloadCrc p e)
    (hrej : ∀ n, 32 ≤ n → n % 32 = 0 → n ≤ p.length → 18 + frameLen p + 4 ≤ n →
      ∃ err, decodeFrame (xorBytes (p.take n) (e.take n)) = .err err) :
    NoPrefixOk (xorBytes p e) := by
  intro n h32 hnmod hnq ms' hk
  rw [CrcFrame.xorBytes_length p e ht.1] at hnq
  by_cases hs : n < 18 + frameLen p + 4
  · exact short_prefix_not_ok p e hc ht n h32 hnmod hnq hs ms' hk
  · obtain ⟨err, herr⟩ := hrej n h32 hnmod hnq (by omega)
    rw [xorBytes_take, herr] at hk
    cases hk

end Rscp.Lemmas.CrcClient
