/-
Lemmas for the outbound direction of one connection over its lifetime (`Props/C06c.lean`): the ciphertext of a
block-aligned frame, cut into blocks again and decrypted from the state the encrypter started from, gives the
frame's blocks back and leaves the decrypter in the state the encrypter ended in.
-/
import Rscp.Model.SessionRecv
import Rscp.Lemmas.ReceiveEnc
namespace Rscp.Lemmas.SessionSend
open Rscp Rscp.Model Rscp.Lemmas.Crypt Rscp.Lemmas.ReceiveEnc

/-- a list of 32-byte blocks flattens to a block-aligned byte string -/
theorem flatten_blocks_mod : ∀ (X : List (List Byte)), (∀ x ∈ X, x.length = 32) → X.flatten.length % 32 = 0
  | [], _ => rfl
  | x :: xs, hX => by
    have h1 := hX x (List.mem_cons_self ..)
    have h2 := flatten_blocks_mod xs (fun z hz => hX z (List.mem_cons_of_mem _ hz))
    rw [List.flatten_cons, List.length_append]; omega

/-- cutting the flattened list of 32-byte blocks into blocks gives the blocks back -/
theorem toBlocks_flatten (X : List (List Byte)) (hX : ∀ x ∈ X, x.length = 32) : toBlocks X.flatten = X := by
  obtain ⟨xf, xl⟩ := toBlocks_spec X.flatten (flatten_blocks_mod X hX)
  exact blocks_unique _ _ xl hX xf

/-- the ciphertext of a block-aligned plaintext is cut into the ciphertext blocks the encrypter produced -/
theorem toBlocks_cbcEnc (c : BlockCipher) (hok : c.OK) (iv : List Byte) (hiv : iv.length = 32) (p : List Byte)
    (hp : p.length % 32 = 0) :
    toBlocks (cbcEnc c iv (toBlocks p)).1.flatten = (cbcEnc c iv (toBlocks p)).1 :=
  toBlocks_flatten _ (cbcEnc_blocks c hok (toBlocks p) iv hiv (toBlocks_spec p hp).2)

/-- decrypting, from the state the encrypter started from, the ciphertext of a block-aligned plaintext: the
    plaintext's blocks (which flatten to the plaintext), and the state the encrypter ended in, again a block -/
theorem cbcDec_cbcEnc (c : BlockCipher) (hok : c.OK) (iv : List Byte) (hiv : iv.length = 32) (p : List Byte)
    (hp : p.length % 32 = 0) :
    cbcDec c iv (toBlocks (cbcEnc c iv (toBlocks p)).1.flatten) = (toBlocks p, (cbcEnc c iv (toBlocks p)).2) ∧
    (toBlocks p).flatten = p ∧ (cbcEnc c iv (toBlocks p)).2.length = 32 := by
  obtain ⟨pf, pl⟩ := toBlocks_spec p hp
  have hrt := cbc_roundtrip c hok iv hiv (toBlocks p) pl
  rw [toBlocks_cbcEnc c hok iv hiv p hp]
  exact ⟨hrt.1, pf, hrt.2⟩

end Rscp.Lemmas.SessionSend
