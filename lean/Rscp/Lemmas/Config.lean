import Rscp.Model.Config
import Rscp.Lemmas.Crypt
