import Rscp.Model.Config
import Rscp.Lemmas.Crypt
namespace Rscp.Lemmas.Config
open Rscp Rscp.Model

theorem dflt_port : (dflt "Port").toNat = 5033 := by decide
theorem dflt_heartbeat : dflt "HeartbeatInterval" = 10000000000 := by decide
theorem dflt_conn : dflt "ConnectionTimeout" = 3000000000 := by decide
theorem dflt_send : dflt "SendTimeout" = 3000000000 := by decide
theorem dflt_recv : dflt "ReceiveTimeout" = 3000000000 := by decide
theorem dflt_buf : (dflt "ReceiveBufferBlockSize").toNat = 1 := by decide
theorem dflt_cs : (dflt "UseChecksum" != 0) = true := by decide

/-- the names of the missing required fields -/
def missingOf (c : Config) : List String :=
  (if c.address = [] then ["address"] else []) ++ (if c.username = [] then ["username"] else []) ++
  (if c.password = [] then ["password"] else []) ++ (if c.key = [] then ["key"] else [])

/-- the configuration with the defaults filled in (all but the checksum option) -/
def eff (c : Config) : Config :=
  { address := c.address
    port := if c.port = 0 then 5033 else c.port
    username := c.username
    password := c.password
    key := c.key
    heartbeat := if c.heartbeat ≤ 1000000000 then 10000000000 else c.heartbeat
    connTimeout := if c.connTimeout ≤ 0 then 3000000000 else c.connTimeout
    sendTimeout := if c.sendTimeout ≤ 0 then 3000000000 else c.sendTimeout
    recvTimeout := if c.recvTimeout ≤ 0 then 3000000000 else c.recvTimeout
    useChecksum := c.useChecksum
    bufBlocks := if c.bufBlocks = 0 ∨ c.bufBlocks > 2049 then 1 else c.bufBlocks }

theorem len_zero_iff (l : List Byte) : ((l.length : Int) == 0) = true ↔ l = [] := by
  cases l <;> simp <;> omega

theorem missingOf_eq_nil (c : Config) :
    missingOf c = [] ↔ (c.address ≠ [] ∧ c.username ≠ [] ∧ c.password ≠ [] ∧ c.key ≠ []) := by
  unfold missingOf
  by_cases h1 : c.address = [] <;> by_cases h2 : c.username = [] <;> by_cases h3 : c.password = [] <;>
    by_cases h4 : c.key = [] <;> simp [h1, h2, h3, h4]

/-- the defaults chain of `check` -/
def chain (c : Config) : Config :=
  let c := if Gen.Leaf.check_portUnset c.port then { c with port := (dflt "Port").toNat } else c
  let c := if Gen.Leaf.check_heartbeatUnset c.heartbeat then { c with heartbeat := dflt "HeartbeatInterval" } else c
  let c := if Gen.Leaf.check_connTimeoutUnset c.connTimeout then { c with connTimeout := dflt "ConnectionTimeout" } else c
  let c := if Gen.Leaf.check_sendTimeoutUnset c.sendTimeout then { c with sendTimeout := dflt "SendTimeout" } else c
  let c := if Gen.Leaf.check_recvTimeoutUnset c.recvTimeout then { c with recvTimeout := dflt "ReceiveTimeout" } else c
  let c := if Gen.Leaf.check_bufBlocksUnset c.bufBlocks then { c with bufBlocks := (dflt "ReceiveBufferBlockSize").toNat } else c
  c

/-- the defaults chain as one record -/
theorem chain_eq (c : Config) : chain c = eff c := by
  simp only [chain, Gen.Leaf.check_portUnset, Gen.Leaf.check_heartbeatUnset, Gen.Leaf.check_connTimeoutUnset,
    Gen.Leaf.check_sendTimeoutUnset, Gen.Leaf.check_recvTimeoutUnset, Gen.Leaf.check_bufBlocksUnset,
    dflt_port, dflt_heartbeat, dflt_conn, dflt_send, dflt_recv, dflt_buf, eff]
  by_cases h1 : c.port = 0 <;> by_cases h2 : c.heartbeat ≤ 1000000000 <;> by_cases h3 : c.connTimeout ≤ 0 <;>
    by_cases h4 : c.sendTimeout ≤ 0 <;> by_cases h5 : c.recvTimeout ≤ 0 <;>
    by_cases h6 : (c.bufBlocks = 0 ∨ c.bufBlocks > 2049) <;>
    simp [h1, h2, h3, h4, h5, h6]

/-- the list `check` collects -/
def rawMissing (c : Config) : List String :=
  (if Gen.Leaf.check_noAddress c.address.length then ["address"] else []) ++
  (if Gen.Leaf.check_noUsername c.username.length then ["username"] else []) ++
  (if Gen.Leaf.check_noPassword c.password.length then ["password"] else []) ++
  (if Gen.Leaf.check_noKey c.key.length then ["key"] else [])

theorem rawMissing_eq (c : Config) : rawMissing c = missingOf c := by
  simp only [rawMissing, Gen.Leaf.check_noAddress, Gen.Leaf.check_noUsername, Gen.Leaf.check_noPassword,
    Gen.Leaf.check_noKey, len_zero_iff, missingOf]

theorem anyMissing_iff (l : List String) : Gen.Leaf.check_anyMissing l.length = true ↔ l ≠ [] := by
  cases l <;> simp [Gen.Leaf.check_anyMissing] <;> omega

theorem checkConfig_unfold (c : Config) :
    checkConfig c =
      if Gen.Leaf.check_anyMissing (rawMissing c).length then .missing (rawMissing c) else
      match (chain c).useChecksum with
      | .otherType => .badChecksumType
      | .unset => .ok { chain c with useChecksum := .bool (dflt "UseChecksum" != 0) }
      | .bool _ => .ok (chain c) := by
  unfold checkConfig chain rawMissing
  rfl

/-- `check` in closed form -/
theorem checkConfig_eq (c : Config) :
    checkConfig c =
      if missingOf c ≠ [] then .missing (missingOf c) else
      match c.useChecksum with
      | .otherType => .badChecksumType
      | .unset => .ok { eff c with useChecksum := .bool true }
      | .bool _ => .ok (eff c) := by
  rw [checkConfig_unfold, rawMissing_eq, chain_eq, dflt_cs]
  have hu : (eff c).useChecksum = c.useChecksum := rfl
  rw [hu]
  by_cases hm : missingOf c = []
  · rw [if_neg (by rw [anyMissing_iff]; exact fun h => h hm), if_neg (fun h => h hm)]
  · rw [if_pos ((anyMissing_iff _).2 hm), if_pos hm]

/-- the four ways `check` can end -/
theorem checkConfig_cases (c : Config) :
    (missingOf c ≠ [] ∧ checkConfig c = .missing (missingOf c)) ∨
    (missingOf c = [] ∧ c.useChecksum = .otherType ∧ checkConfig c = .badChecksumType) ∨
    (missingOf c = [] ∧ c.useChecksum = .unset ∧ checkConfig c = .ok { eff c with useChecksum := .bool true }) ∨
    (missingOf c = [] ∧ (∃ b, c.useChecksum = .bool b) ∧ checkConfig c = .ok (eff c)) := by
  rw [checkConfig_eq]
  by_cases hm : missingOf c = []
  · rw [if_neg (fun h => h hm)]
    cases hc : c.useChecksum with
    | unset => exact Or.inr (Or.inr (Or.inl ⟨hm, rfl, rfl⟩))
    | bool b => exact Or.inr (Or.inr (Or.inr ⟨hm, ⟨b, rfl⟩, rfl⟩))
    | otherType => exact Or.inr (Or.inl ⟨hm, rfl, rfl⟩)
  · rw [if_pos hm]; exact Or.inl ⟨hm, rfl⟩

end Rscp.Lemmas.Config
