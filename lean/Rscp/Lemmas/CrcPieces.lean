/-
Helper lemmas for C04b: block-aligned prefixes of a frame (what the decoder sees when a frame arrives in
pieces), the grammar on such prefixes, and the restriction of an error pattern to a prefix.
Core Lean only in this file.
-/
import Rscp.Props.C04
namespace Rscp.Lemmas.CrcPieces
open Rscp Rscp.Model Rscp.Crc

/-- a window that lies inside a prefix is the same window of the whole list -/
theorem window_take (p : List Byte) (n j k : Nat) (h : j + k ≤ n) :
    ((p.take n).drop j).take k = (p.drop j).take k := by
  rw [List.drop_take, List.take_take, Nat.min_eq_left (by omega)]

theorem take_take_le (p : List Byte) (n k : Nat) (h : k ≤ n) : (p.take n).take k = p.take k := by
  rw [List.take_take, Nat.min_eq_left h]

/-- the error pattern acts pointwise: prefixes commute with it -/
theorem xorBytes_take (p e : List Byte) (n : Nat) : (xorBytes p e).take n = xorBytes (p.take n) (e.take n) := by
  rw [xorBytes, xorBytes, List.take_zipWith]

theorem getD_take (e : List Byte) (n i : Nat) : (e.take n).getD i 0 = if i < n then e.getD i 0 else 0 := by
  rw [List.getD_eq_getElem?_getD, List.getElem?_take]
  split
  · rw [← List.getD_eq_getElem?_getD]
  · rfl

/-! ### the grammar on prefixes -/

/-- everything the grammar guarantees about an accepted frame that announces a checksum -/
theorem spec_crc_full (p : List Byte) (ms : List Msg) (h : Spec.specDecode p = some ms)
    (hc : (leNat ((p.drop 2).take 2) >>> 12) &&& 1 = 1) :
    18 ≤ p.length ∧ leNat (p.take 2) = 0xDCE3 ∧ leNat ((p.drop 2).take 2) &&& 0xE0FF = 0 ∧
    (leNat ((p.drop 2).take 2) >>> 8) &&& 0xF = 1 ∧
    18 + leNat ((p.drop 16).take 2) + 4 ≤ p.length ∧
    (p.drop (18 + leNat ((p.drop 16).take 2) + 4)).all (· == 0) = true ∧
    Spec.specItems (leNat ((p.drop 16).take 2) + 1) ((p.drop 18).take (leNat ((p.drop 16).take 2))) = some ms ∧
    leNat ((p.drop (18 + leNat ((p.drop 16).take 2))).take 4) =
      crc32 (p.take (18 + leNat ((p.drop 16).take 2))) := by
  unfold Spec.specDecode at h
  simp only [hc, if_true] at h
  split at h
  · cases h
  split at h
  · cases h
  split at h
  · cases h
  split at h
  · cases h
  split at h
  · cases h
  split at h
  · cases h
  split at h
  · cases h
  split at h
  · rename_i h0 h1 h2 h3 h4 h5 _ _ hi h7
    simp only [Spec.frameHeaderSize, Spec.crcSize] at h0 h1 h2 h3 h4 h5 hi h7 h
    cases h
    refine ⟨by omega, ?_, ?_, ?_, by omega, ?_, hi, h7⟩
    · exact Classical.not_not.mp h1
    · exact Classical.not_not.mp h2
    · exact Classical.not_not.mp h3
    · exact Classical.not_not.mp h5
  · cases h

/-- the converse: these facts make the grammar accept -/
theorem spec_of_facts (p : List Byte) (ms : List Msg)
    (hc : (leNat ((p.drop 2).take 2) >>> 12) &&& 1 = 1)
    (h18 : 18 ≤ p.length) (hm : leNat (p.take 2) = 0xDCE3) (hr : leNat ((p.drop 2).take 2) &&& 0xE0FF = 0)
    (hv : (leNat ((p.drop 2).take 2) >>> 8) &&& 0xF = 1)
    (hfs : 18 + leNat ((p.drop 16).take 2) + 4 ≤ p.length)
    (hz : (p.drop (18 + leNat ((p.drop 16).take 2) + 4)).all (· == 0) = true)
    (hi : Spec.specItems (leNat ((p.drop 16).take 2) + 1) ((p.drop 18).take (leNat ((p.drop 16).take 2))) = some ms)
    (hcrc : leNat ((p.drop (18 + leNat ((p.drop 16).take 2))).take 4) =
      crc32 (p.take (18 + leNat ((p.drop 16).take 2)))) :
    Spec.specDecode p = some ms := by
  unfold Spec.specDecode
  simp only [hc, if_true, Spec.frameHeaderSize, Spec.crcSize]
  rw [if_neg (by omega), if_neg (by simp [hm]), if_neg (by simp [hr]), if_neg (by simp [hv]),
    if_neg (by omega), if_neg (by simp [hz])]
  simp only [hi, hcrc, if_true]

/-- a prefix that still covers the whole frame (header, data, CRC) is accepted with the same messages -/
theorem specDecode_take (p : List Byte) (ms : List Msg) (h : Spec.specDecode p = some ms)
    (hc : (leNat ((p.drop 2).take 2) >>> 12) &&& 1 = 1) (n : Nat)
    (hn : 18 + leNat ((p.drop 16).take 2) + 4 ≤ n) (hnp : n ≤ p.length) :
    Spec.specDecode (p.take n) = some ms := by
  obtain ⟨h18, hm, hr, hv, hfs, hz, hi, hcrc⟩ := spec_crc_full p ms h hc
  have eC : ((p.take n).drop 2).take 2 = (p.drop 2).take 2 := window_take p n 2 2 (by omega)
  have eL : ((p.take n).drop 16).take 2 = (p.drop 16).take 2 := window_take p n 16 2 (by omega)
  have eN : (p.take n).length = n := by rw [List.length_take]; omega
  apply spec_of_facts
  · rw [eC]; exact hc
  · omega
  · rw [take_take_le p n 2 (by omega)]; exact hm
  · rw [eC]; exact hr
  · rw [eC]; exact hv
  · rw [eL, eN]; exact hn
  · rw [eL, List.drop_take]
    rw [List.all_eq_true] at hz ⊢
    exact fun x hx => hz x (List.mem_of_mem_take hx)
  · rw [eL, window_take p n 18 _ (by omega)]; exact hi
  · rw [eL, window_take p n _ 4 (by omega), take_take_le p n _ (by omega)]; exact hcrc

/-- a checksummed frame whose declared length is not covered is not well-formed -/
theorem specDecode_short (q : List Byte) (hc : (leNat ((q.drop 2).take 2) >>> 12) &&& 1 = 1)
    (hs : q.length < 18 + leNat ((q.drop 16).take 2) + 4) : Spec.specDecode q = none := by
  unfold Spec.specDecode
  simp only [hc, if_true, Spec.frameHeaderSize, Spec.crcSize]
  split
  · rfl
  split
  · rfl
  split
  · rfl
  split
  · rfl
  rfl

/-! ### block-aligned pieces -/

/-- the concatenation of the first `j+1` block-aligned pieces is a block-aligned prefix of the whole -/
theorem flatten_aligned (cs : List (List Byte)) (h : ∀ c ∈ cs, 32 ≤ c.length ∧ c.length % 32 = 0) :
    cs.flatten.length % 32 = 0 ∧ (cs ≠ [] → 32 ≤ cs.flatten.length) := by
  induction cs with
  | nil => simp
  | cons c r ih =>
    have h1 := h c (by simp)
    have h2 := (ih fun c' hc' => h c' (by simp [hc'])).1
    rw [List.flatten_cons, List.length_append]
    exact ⟨by omega, fun _ => by omega⟩

theorem chunks_prefix (chunks : List (List Byte)) (hch : ∀ c ∈ chunks, 32 ≤ c.length ∧ c.length % 32 = 0)
    (q : List Byte) (hflat : chunks.flatten = q) (j : Nat) (hj : j < chunks.length) :
    ∃ n, 32 ≤ n ∧ n % 32 = 0 ∧ n ≤ q.length ∧ (chunks.take (j+1)).flatten = q.take n := by
  have ha := flatten_aligned (chunks.take (j+1)) fun c hc => hch c (List.mem_of_mem_take hc)
  have hne : chunks.take (j+1) ≠ [] := by
    intro h0
    have := congrArg List.length h0
    rw [List.length_take, List.length_nil] at this; omega
  have hsplit : q = (chunks.take (j+1)).flatten ++ (chunks.drop (j+1)).flatten := by
    rw [← List.flatten_append, List.take_append_drop, hflat]
  refine ⟨(chunks.take (j+1)).flatten.length, ha.2 hne, ha.1, ?_, ?_⟩
  · conv => rhs; rw [hsplit]
    rw [List.length_append]; omega
  · conv => rhs; rw [hsplit]
    rw [List.take_left']
    rfl

/-! ### the altered frame seen through a block-aligned prefix -/

open Rscp.Props.C04 in
/-- a prefix that does not cover the declared length is never answered with messages -/
theorem short_prefix_not_ok (p e : List Byte) (hc : hasCrc p) (ht : TouchesOnlyTimePayloadCrc p e)
    (n : Nat) (h32 : 32 ≤ n) (hmod : n % 32 = 0) (hnp : n ≤ p.length) (hs : n < 18 + frameLen p + 4)
    (ms' : List Msg) : decodeFrame ((xorBytes p e).take n) ≠ .ok ms' := by
  intro hd
  have hel := ht.1
  have hl : ((xorBytes p e).take n).length = n := by
    rw [List.length_take, CrcFrame.xorBytes_length p e hel]; omega
  have hctrl : (((xorBytes p e).take n).drop 2).take 2 = (p.drop 2).take 2 := by
    rw [window_take _ n 2 2 (by omega)]
    exact CrcFrame.xorBytes_window p e 2 2 hel (by intro i h1 h2; apply ht.2; omega)
  have hL : (((xorBytes p e).take n).drop 16).take 2 = (p.drop 16).take 2 := by
    rw [window_take _ n 16 2 (by omega)]
    exact CrcFrame.xorBytes_window p e 16 2 hel (by intro i h1 h2; apply ht.2; omega)
  have hsp := (Props.C03.accept_iff_wf _ (by rw [hl]; exact h32) (by rw [hl]; exact hmod) ms').mp hd
  rw [specDecode_short _ (by rw [hctrl]; exact hc) (by rw [hL, hl]; exact hs)] at hsp
  cases hsp

open Rscp.Props.C04 in
/-- a prefix that covers the frame is itself an accepted checksummed frame, and the error pattern
    restricted to it still touches time stamp, payload and CRC field only -/
theorem long_prefix_hyps (p e : List Byte) (hlen : 32 ≤ p.length) (hmod : p.length % 32 = 0) (ms : List Msg)
    (h : decodeFrame p = .ok ms) (hc : hasCrc p) (ht : TouchesOnlyTimePayloadCrc p e)
    (n : Nat) (h32 : 32 ≤ n) (hnmod : n % 32 = 0) (hnp : n ≤ p.length) (hs : 18 + frameLen p + 4 ≤ n) :
    (p.take n).length = n ∧ decodeFrame (p.take n) = .ok ms ∧ hasCrc (p.take n) ∧
    frameLen (p.take n) = frameLen p ∧ TouchesOnlyTimePayloadCrc (p.take n) (e.take n) ∧
    (e.take n).take (18 + frameLen p + 4) = e.take (18 + frameLen p + 4) := by
  have hel := ht.1
  have eN : (p.take n).length = n := by rw [List.length_take]; omega
  have eC : ((p.take n).drop 2).take 2 = (p.drop 2).take 2 := window_take p n 2 2 (by omega)
  have eL : frameLen (p.take n) = frameLen p := by
    unfold frameLen; rw [window_take p n 16 2 (by omega)]
  have hsp := (Props.C03.accept_iff_wf p hlen hmod ms).mp h
  refine ⟨eN, ?_, ?_, eL, ⟨?_, ?_⟩, take_take_le e n _ hs⟩
  · exact (Props.C03.accept_iff_wf _ (by rw [eN]; exact h32) (by rw [eN]; exact hnmod) ms).mpr
      (specDecode_take p ms hsp hc n hs hnp)
  · unfold hasCrc; rw [eC]; exact hc
  · rw [List.length_take, List.length_take, hel]
  · intro i hi
    rw [getD_take]
    split
    · rw [eL] at hi; exact ht.2 i hi
    · rfl

open Rscp.Props.C04 in
/-- Delivery in block-aligned pieces, for any class of error patterns that one-shot decoding rejects on
    every block-aligned prefix covering the frame: up to and including the first call that answers anything
    but "incomplete", no call returns messages. -/
theorem rejected_in_pieces (p e : List Byte) (hc : hasCrc p) (ht : TouchesOnlyTimePayloadCrc p e)
    (hrej : ∀ n, 32 ≤ n → n % 32 = 0 → n ≤ p.length → 18 + frameLen p + 4 ≤ n →
      ∃ err, decodeFrame (xorBytes (p.take n) (e.take n)) = .err err)
    (chunks : List (List Byte)) (hch : ∀ c ∈ chunks, 32 ≤ c.length ∧ c.length % 32 = 0)
    (hflat : chunks.flatten = xorBytes p e)
    (j : Nat) (hj : j < chunks.length)
    (hprev : ∀ i, i < j → (Model.readChunks {} chunks)[i]? = some (.err .invalidFrameLength)) :
    ∀ ms', (Model.readChunks {} chunks)[j]? ≠ some (.ok ms') := by
  intro ms' hk
  rw [Props.C03.chunking chunks hch j hj hprev] at hk
  obtain ⟨n, h32, hnmod, hnq, hpre⟩ := chunks_prefix chunks hch _ hflat j hj
  rw [CrcFrame.xorBytes_length p e ht.1] at hnq
  rw [hpre] at hk
  have hk := Option.some.inj hk
  by_cases hs : n < 18 + frameLen p + 4
  · exact short_prefix_not_ok p e hc ht n h32 hnmod hnq hs ms' hk
  · obtain ⟨err, herr⟩ := hrej n h32 hnmod hnq (by omega)
    rw [xorBytes_take, herr] at hk
    cases hk

end Rscp.Lemmas.CrcPieces
