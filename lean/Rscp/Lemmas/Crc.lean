/-
Register algebra of the CRC-32 model and the burst-error theorem (core Lean only).
-/
import Rscp.Lemmas.CrcStmt
namespace Rscp.Crc

/-! ### the zero-input step `S` -/

theorem S_zero : S 0#32 = 0#32 := by decide

theorem ite_xor (a b : Bool) :
    (if (a ^^ b) then P else 0#32) = (if a then P else 0#32) ^^^ (if b then P else 0#32) := by
  cases a <;> cases b <;> simp

theorem S_xor (a b : W) : S (a ^^^ b) = S a ^^^ S b := by
  unfold S
  rw [BitVec.getLsbD_xor, ite_xor]
  ext i
  simp only [BitVec.getElem_xor, BitVec.getElem_ushiftRight, BitVec.getLsbD_xor]
  cases a.getLsbD (1+i) <;> cases b.getLsbD (1+i) <;>
    cases (if a.getLsbD 0 = true then P else 0#32)[i] <;>
    cases (if b.getLsbD 0 = true then P else 0#32)[i] <;> rfl

theorem S_eq_zero (c : W) (h : S c = 0#32) : c = 0#32 := by
  unfold S at h
  by_cases h0 : c.getLsbD 0
  · simp only [h0, if_true] at h
    have : ((c >>> 1) ^^^ P).getLsbD 31 = false := by rw [h]; simp
    simp [P] at this
  · simp only [h0] at h
    simp at h
    have h0' : c.getLsbD 0 = false := by simpa using h0
    ext i hi
    simp
    cases i with
    | zero => simpa using h0'
    | succ j =>
      have := congrArg (fun v => v.getLsbD j) h
      simp at this
      simp [Nat.add_comm] at this ⊢
      exact this

theorem S_inj (a b : W) (h : S a = S b) : a = b := by
  have : S (a ^^^ b) = 0#32 := by rw [S_xor, h]; simp
  have := S_eq_zero _ this
  have h2 : a ^^^ b ^^^ b = 0#32 ^^^ b := by rw [this]
  simpa [BitVec.xor_assoc] using h2

/-- S moves bit (j+1) to bit j -/
theorem S_bit (j : Nat) (hj : j + 1 < 32) : S (1#32 <<< (j+1)) = 1#32 <<< j := by
  have : ∀ j : Fin 31, S (1#32 <<< (j.val+1)) = 1#32 <<< j.val := by decide
  exact this ⟨j, by omega⟩

/-! ### powers of `S` -/

theorem Spow_succ' (n : Nat) (w : W) : Spow (n+1) w = S (Spow n w) := by
  induction n generalizing w with
  | zero => rfl
  | succ n ih => simp only [Spow] at ih ⊢; rw [ih]

theorem Spow_add (a b : Nat) (w : W) : Spow (a + b) w = Spow a (Spow b w) := by
  induction b generalizing w with
  | zero => rfl
  | succ b ih => rw [← Nat.add_assoc]; simp only [Spow]; exact ih (S w)

theorem Spow_zero (n : Nat) : Spow n 0#32 = 0#32 := by
  induction n with
  | zero => rfl
  | succ n ih => simp only [Spow, S_zero]; exact ih

theorem Spow_xor (n : Nat) (a b : W) : Spow n (a ^^^ b) = Spow n a ^^^ Spow n b := by
  induction n generalizing a b with
  | zero => rfl
  | succ n ih => simp only [Spow]; rw [S_xor, ih]

theorem Spow_inj (n : Nat) (a b : W) (h : Spow n a = Spow n b) : a = b := by
  induction n generalizing a b with
  | zero => exact h
  | succ n ih => simp only [Spow] at h; exact S_inj _ _ (ih _ _ h)

theorem Spow_eq_zero (n : Nat) (a : W) (h : Spow n a = 0#32) : a = 0#32 :=
  Spow_inj n a 0#32 (by rw [h, Spow_zero])

/-! ### feeding bits -/

theorem feedBits_nil (c : W) : feedBits c [] = c := rfl
theorem feedBits_cons (c : W) (d : Bool) (ds : List Bool) :
    feedBits c (d :: ds) = feedBits (feedBit c d) ds := rfl
theorem feedBits_append (c : W) (x y : List Bool) :
    feedBits c (x ++ y) = feedBits (feedBits c x) y := by
  simp [feedBits, List.foldl_append]

theorem feedBit_xor (a b : W) (x y : Bool) :
    feedBit (a ^^^ b) (x ^^ y) = feedBit a x ^^^ feedBit b y := by
  unfold feedBit
  rw [← S_xor]
  congr 1
  have hb : (if (x ^^ y) = true then 1#32 else 0#32)
      = (if x = true then 1#32 else 0#32) ^^^ (if y = true then 1#32 else 0#32) := by
    cases x <;> cases y <;> simp
  rw [hb]
  ac_rfl

theorem feedBits_xor (x y : List Bool) (h : x.length = y.length) (a b : W) :
    feedBits (a ^^^ b) (List.zipWith (· ^^ ·) x y) = feedBits a x ^^^ feedBits b y := by
  induction x generalizing y a b with
  | nil => cases y with
    | nil => rfl
    | cons _ _ => simp at h
  | cons d ds ih => cases y with
    | nil => simp at h
    | cons e es =>
      simp only [List.zipWith_cons_cons, feedBits_cons]
      rw [feedBit_xor]
      exact ih es (by simpa using h) _ _

theorem feedBit_false (c : W) : feedBit c false = S c := by
  simp [feedBit]

theorem feedBits_replicate_false (n : Nat) (c : W) :
    feedBits c (List.replicate n false) = Spow n c := by
  induction n generalizing c with
  | zero => rfl
  | succ n ih => simp only [List.replicate_succ, feedBits_cons, feedBit_false, Spow]; exact ih _

/-! ### packing at most 32 bits into a word -/

def pack : List Bool → W
  | [] => 0#32
  | d :: ds => (if d then 1#32 else 0#32) ^^^ (pack ds <<< 1)

theorem pack_getLsbD (ds : List Bool) (i : Nat) :
    (pack ds).getLsbD i = (decide (i < 32) && ds.getD i false) := by
  induction ds generalizing i with
  | nil => simp [pack]
  | cons d ds ih =>
    simp only [pack, BitVec.getLsbD_xor, BitVec.getLsbD_shiftLeft]
    cases i with
    | zero => cases d <;> simp
    | succ j =>
      rw [ih]
      have h1 : (if d = true then 1#32 else 0#32).getLsbD (j+1) = false := by
        cases d <;> simp
      rw [h1]
      by_cases hj : j + 1 < 32
      · have : j < 32 := by omega
        simp [hj, this]
      · simp [hj]

theorem S_shl (w : W) (h : w.getLsbD 31 = false) : S (w <<< 1) = w := by
  unfold S
  have h0 : (w <<< 1).getLsbD 0 = false := by simp
  rw [h0]
  ext i hi
  simp
  by_cases h31 : i = 31
  · subst h31; simpa using h
  · have : i + 1 < 32 := by omega
    simp [this, Nat.add_comm, BitVec.getLsbD_eq_getElem hi]

theorem feedBits_pack (ds : List Bool) (h : ds.length ≤ 32) (c : W) :
    feedBits c ds = Spow ds.length (c ^^^ pack ds) := by
  induction ds generalizing c with
  | nil => simp [feedBits_nil, pack, Spow]
  | cons d ds ih =>
    have hl : ds.length ≤ 31 := by simpa using h
    rw [feedBits_cons, ih (by omega)]
    simp only [List.length_cons, Spow, pack, feedBit]
    rw [← BitVec.xor_assoc, S_xor (c ^^^ _), S_shl]
    rw [pack_getLsbD]
    have : ds[31]? = none := by simp; omega
    simp [this]

/-! ### bytes as bit strings -/

theorem byteBits_length (b : Byte) : (byteBits b).length = 8 := by simp [byteBits]

theorem bitsOf_length (t : List Byte) : (bitsOf t).length = 8 * t.length := by
  induction t with
  | nil => rfl
  | cons b r ih => simp [bitsOf, byteBits_length, ih]; omega

theorem bitsOf_append (a b : List Byte) : bitsOf (a ++ b) = bitsOf a ++ bitsOf b := by
  induction a with
  | nil => rfl
  | cons x r ih => simp [bitsOf, ih]

theorem byteBits_getD (b : Byte) (i : Nat) (hi : i < 8) :
    (byteBits b)[i]?.getD false = b.toNat.testBit i := by
  simp [byteBits, List.getElem?_range hi]

theorem bitsOf_getD (t : List Byte) (i : Nat) :
    (bitsOf t)[i]?.getD false = (leNat t).testBit i := by
  induction t generalizing i with
  | nil => simp [bitsOf, leNat]
  | cons b r ih =>
    have hb : b.toNat < 2 ^ 8 := b.toNat_lt
    have h := Nat.testBit_two_pow_mul_add (leNat r) hb i
    have e : leNat (b :: r) = 2 ^ 8 * leNat r + b.toNat := by simp [leNat]; omega
    rw [e, h]
    simp only [bitsOf, List.getElem?_append, byteBits_length]
    by_cases hi : i < 8
    · simp only [hi, if_true]; exact byteBits_getD b i hi
    · simp only [hi, if_false]; exact ih _

theorem byteBits_xor (a b : Byte) :
    byteBits (a ^^^ b) = List.zipWith (· ^^ ·) (byteBits a) (byteBits b) := by
  simp [byteBits, UInt8.toNat_xor, Nat.testBit_xor, List.range_succ]

theorem bitsOf_xorBytes (a e : List Byte) :
    bitsOf (xorBytes a e) = List.zipWith (· ^^ ·) (bitsOf a) (bitsOf e) := by
  unfold xorBytes
  induction a generalizing e with
  | nil => simp [bitsOf]
  | cons x r ih => cases e with
    | nil => simp [bitsOf]
    | cons y s =>
      simp only [List.zipWith_cons_cons, bitsOf]
      rw [List.zipWith_append (by simp [byteBits_length]), ih, byteBits_xor]

/-! ### byte-wise feeding is bit-wise feeding -/

theorem pack_bitsOf (t : List Byte) : pack (bitsOf t) = BitVec.ofNat 32 (leNat t) := by
  apply BitVec.eq_of_getLsbD_eq
  intro i _
  rw [pack_getLsbD, BitVec.getLsbD_ofNat, List.getD_eq_getElem?_getD, bitsOf_getD]

theorem feedBits_bitsOf_short (t : List Byte) (h : t.length ≤ 4) (c : W) :
    feedBits c (bitsOf t) = Spow (8 * t.length) (c ^^^ BitVec.ofNat 32 (leNat t)) := by
  rw [feedBits_pack _ (by rw [bitsOf_length]; omega), bitsOf_length, pack_bitsOf]

theorem feedByte_eq (c : W) (b : Byte) : feedByte c b = feedBits c (byteBits b) := by
  have := feedBits_bitsOf_short [b] (by simp) c
  simp [bitsOf, leNat] at this
  rw [this]; rfl

theorem reg_eq_feedBits (bs : List Byte) (c : W) : reg c bs = feedBits c (bitsOf bs) := by
  induction bs generalizing c with
  | nil => rfl
  | cons b r ih =>
    simp only [bitsOf, feedBits_append]
    rw [← feedByte_eq]
    exact ih _

/-! ### the residue form of validity -/

theorem xor_not (x : W) : x ^^^ ~~~ x = 0xFFFFFFFF#32 := by
  have h : ∀ i : Fin 32, (4294967295#32 : BitVec 32)[i.val] = true := by decide
  ext i hi
  simp
  exact h ⟨i, hi⟩

/-- the constant register content after a valid data‖trailer string -/
def Residue : W := Spow 32 0xFFFFFFFF#32

theorem valid_residue (d t : List Byte) (hv : Valid d t) :
    feedBits 0xFFFFFFFF#32 (bitsOf (d ++ t)) = Residue := by
  obtain ⟨hl, hc⟩ := hv
  rw [bitsOf_append, feedBits_append, feedBits_bitsOf_short t (by omega), hl, hc]
  unfold crc32
  rw [← reg_eq_feedBits, BitVec.ofNat_toNat, BitVec.setWidth_eq]
  rw [xor_not, Residue]

/-- two valid frames differing by the error pattern `e`: the zero-init register of `e` is 0 -/
theorem syndrome_zero (d t e : List Byte) (hv : Valid d t) (hl : e.length = d.length + 4)
    (hv' : Valid ((xorBytes (d ++ t) e).take d.length) ((xorBytes (d ++ t) e).drop d.length)) :
    feedBits 0#32 (bitsOf e) = 0#32 := by
  have h1 := valid_residue _ _ hv
  have h2 := valid_residue _ _ hv'
  rw [List.take_append_drop, bitsOf_xorBytes] at h2
  have hlen : (bitsOf (d ++ t)).length = (bitsOf e).length := by
    rw [bitsOf_length, bitsOf_length, List.length_append, hv.1, hl]
  have h3 := feedBits_xor _ _ hlen 0xFFFFFFFF#32 0#32
  rw [BitVec.xor_zero, h2, h1] at h3
  have h4 : Residue ^^^ Residue = Residue ^^^ (Residue ^^^ feedBits 0#32 (bitsOf e)) := by
    rw [← h3, BitVec.xor_self]
  rw [← BitVec.xor_assoc, BitVec.xor_self, BitVec.zero_xor] at h4
  exact h4.symm

/-! ### bursts -/

theorem feedBits_zero_replicate (k : Nat) (r : List Bool) :
    feedBits 0#32 (List.replicate k false ++ r) = feedBits 0#32 r := by
  rw [feedBits_append, feedBits_replicate_false, Spow_zero]

theorem pack_ne_zero (ds : List Bool) (hm : true ∈ ds) (hl : ds.length ≤ 32) : pack ds ≠ 0#32 := by
  intro h
  obtain ⟨i, hi, hget⟩ := List.mem_iff_getElem.mp hm
  have := pack_getLsbD ds i
  rw [h] at this
  have hi32 : i < 32 := by omega
  simp [hi32, hi, hget] at this

theorem burst_syndrome (eb : List Bool) (hb : IsBurst eb) : feedBits 0#32 eb ≠ 0#32 := by
  obtain ⟨k, burst, m, rfl, hl, hm⟩ := hb
  intro h
  rw [List.append_assoc, feedBits_zero_replicate, feedBits_append, feedBits_replicate_false,
    feedBits_pack _ hl, BitVec.zero_xor] at h
  exact pack_ne_zero burst hm hl (Spow_eq_zero _ _ (Spow_eq_zero _ _ h))

theorem burst_detected (d t e : List Byte) (hv : Valid d t) (hl : e.length = d.length + 4)
    (hb : IsBurst (bitsOf e)) :
    ¬ Valid ((xorBytes (d ++ t) e).take d.length) ((xorBytes (d ++ t) e).drop d.length) :=
  fun hv' => burst_syndrome _ hb (syndrome_zero d t e hv hl hv')

/-! ### one and two bit errors: reduction to the period of `x` -/

/-- the class of 1 in GF(2)[x]/(G) (register bit 31) -/
def One : W := 1#32 <<< 31

theorem one_eq : (1#32 : W) = Spow 31 One := by decide
theorem S_one : S 1#32 = Spow 32 One := by decide

theorem feedBit_true (c : W) : feedBit c true = S c ^^^ Spow 32 One := by
  simp only [feedBit, if_true]; rw [S_xor, S_one]

theorem count_zero_replicate (l : List Bool) (h : l.count true = 0) :
    l = List.replicate l.length false := by
  induction l with
  | nil => rfl
  | cons b r ih => cases b with
    | true => simp at h
    | false =>
      simp only [List.length_cons, List.replicate_succ]
      rw [← ih (by simpa using h)]

theorem count_succ_split (l : List Bool) (n : Nat) (h : l.count true = n + 1) :
    ∃ k r, l = List.replicate k false ++ true :: r ∧ r.count true = n := by
  induction l with
  | nil => simp at h
  | cons b r ih => cases b with
    | true => exact ⟨0, r, by simp, by simpa using h⟩
    | false =>
      obtain ⟨k, r', e, hc⟩ := ih (by simpa using h)
      exact ⟨k + 1, r', by rw [e]; simp [List.replicate_succ], hc⟩

theorem weight_one_burst (eb : List Bool) (h : weight eb = 1) : IsBurst eb := by
  obtain ⟨k, r, e, hc⟩ := count_succ_split eb 0 h
  refine ⟨k, [true], r.length, ?_, by simp, by simp⟩
  rw [e, count_zero_replicate r hc]; simp

theorem weight_two_split (eb : List Bool) (h : weight eb = 2) :
    ∃ k j m, eb = List.replicate k false ++ true :: (List.replicate j false ++
      true :: List.replicate m false) := by
  obtain ⟨k, r, e, hc⟩ := count_succ_split eb 1 h
  obtain ⟨j, r', e', hc'⟩ := count_succ_split r 0 hc
  exact ⟨k, j, r'.length, by rw [e, e', ← count_zero_replicate r' hc']⟩

theorem two_bit_syndrome (k j m : Nat)
    (h : feedBits 0#32 (List.replicate k false ++ true :: (List.replicate j false ++
      true :: List.replicate m false)) = 0#32) : Spow (j + 1) One = One := by
  rw [feedBits_zero_replicate, feedBits_cons, feedBits_append, feedBits_replicate_false,
    feedBits_cons, feedBits_replicate_false, feedBit_true, feedBit_true, S_zero,
    BitVec.zero_xor, ← Spow_succ', ← Spow_add] at h
  have h1 := Spow_eq_zero _ _ h
  have h2 : Spow 32 (Spow (j + 1) One ^^^ One) = 0#32 := by
    rw [Spow_xor, ← Spow_add, Nat.add_comm 32]; exact h1
  have h3 := Spow_eq_zero _ _ h2
  have h4 : Spow (j + 1) One ^^^ One ^^^ One = 0#32 ^^^ One := by rw [h3]
  rwa [BitVec.xor_assoc, BitVec.xor_self, BitVec.xor_zero, BitVec.zero_xor] at h4

/-- The two theorems follow from: `x` has no period shorter than 2^32-1 (proved in
    `CrcOrder.lean`). -/
theorem one_two_bits_of_period
    (hper : ∀ n, 0 < n → n < 2^32 - 1 → Spow n One ≠ One)
    (d t e : List Byte) (hv : Valid d t) (hl : e.length = d.length + 4)
    (hw : weight (bitsOf e) = 1 ∨ weight (bitsOf e) = 2) (hlen : 8 * (d.length + 4) < 2^32 - 1) :
    ¬ Valid ((xorBytes (d ++ t) e).take d.length) ((xorBytes (d ++ t) e).drop d.length) := by
  rcases hw with hw | hw
  · exact burst_detected d t e hv hl (weight_one_burst _ hw)
  · intro hv'
    have h0 := syndrome_zero d t e hv hl hv'
    obtain ⟨k, j, m, e'⟩ := weight_two_split _ hw
    have hlen' := bitsOf_length e
    rw [e'] at h0 hlen'
    simp only [List.length_append, List.length_cons, List.length_replicate] at hlen'
    exact hper (j + 1) (by omega) (by omega) (two_bit_syndrome k j m h0)

/-! ### periods -/

/-- `n` is a period of `x` -/
def Per (n : Nat) : Prop := Spow n One = One

theorem Per_zero : Per 0 := rfl

theorem Per_add {a b : Nat} (ha : Per a) (hb : Per b) : Per (a + b) := by
  unfold Per at *; rw [Spow_add, hb, ha]

theorem Per_sub {a b : Nat} (hab : Per (a + b)) (hb : Per b) : Per a := by
  unfold Per at *; rwa [Spow_add, hb] at hab

theorem Per_mul {a : Nat} (ha : Per a) (k : Nat) : Per (a * k) := by
  induction k with
  | zero => exact Per_zero
  | succ k ih => rw [Nat.mul_succ]; exact Per_add ih ha

theorem Per_mod {n m : Nat} (hn : Per n) (hm : Per m) : Per (n % m) := by
  have e : n % m + m * (n / m) = n := Nat.mod_add_div n m
  rw [← e] at hn
  exact Per_sub hn (Per_mul hm _)

theorem Per_gcd (m n : Nat) : Per m → Per n → Per (Nat.gcd m n) := by
  induction m, n using Nat.gcd.induction with
  | H0 n => intro _ hn; simpa using hn
  | H1 m n _ ih =>
    intro hm hn
    rw [Nat.gcd_rec]
    exact ih (Per_mod hn hm) hm

/-! ### multiplication in GF(2)[x]/(G) as an operator polynomial in `S`, square-and-multiply -/

/-- recursive form of the operator polynomial: Σ_{j<k} v[31-(i+j)] S^j cur -/
def mulFrom : Nat → Nat → W → W → W
  | _, 0, _, _ => 0#32
  | i, k+1, v, cur => (if v.getLsbD (31 - i) then cur else 0#32) ^^^ mulFrom (i+1) k v (S cur)

theorem ite_S (c : Bool) (w : W) : S (if c then w else 0#32) = if c then S w else 0#32 := by
  cases c <;> simp [S_zero]

/-- S commutes with the operator polynomial -/
theorem mulFrom_S (i k : Nat) (v w : W) : mulFrom i k v (S w) = S (mulFrom i k v w) := by
  induction k generalizing i w with
  | zero => simp [mulFrom, S_zero]
  | succ k ih => simp only [mulFrom]; rw [S_xor, ih, ite_S]

theorem mulFrom_Spow (i k n : Nat) (v w : W) : mulFrom i k v (Spow n w) = Spow n (mulFrom i k v w) := by
  induction n generalizing w with
  | zero => rfl
  | succ n ih => simp only [Spow]; rw [ih, mulFrom_S]

theorem bit_get (p n : Nat) (hp : p < 32) (hn : n < 32) :
    (1#32 <<< p).getLsbD n = decide (n = p) := by
  have : ∀ p n : Fin 32, (1#32 <<< p.val).getLsbD n.val = decide (n.val = p.val) := by decide
  exact this ⟨p, hp⟩ ⟨n, hn⟩

theorem ite_get (c : Bool) (w : W) (n : Nat) : (if c then w else 0#32).getLsbD n = (c && w.getLsbD n) := by
  cases c <;> simp

/-- evaluating the operator polynomial of v at the basis vector bit (31-i) returns
    the bits of v in positions n with n+i ≤ 31 < n+i+k -/
theorem mulFrom_basis (k i : Nat) (v : W) (hik : i + k ≤ 32) (n : Nat) (hn : n < 32) :
    (mulFrom i k v (1#32 <<< (31 - i))).getLsbD n =
      (v.getLsbD n && decide (n + i ≤ 31) && decide (31 < n + i + k)) := by
  induction k generalizing i with
  | zero =>
    simp only [mulFrom, BitVec.getLsbD_zero]
    by_cases h1 : n + i ≤ 31 <;> by_cases h2 : 31 < n + i + 0 <;> simp [h1] <;> omega
  | succ k ih =>
    simp only [mulFrom]
    rw [BitVec.getLsbD_xor, ite_get, bit_get _ _ (by omega) hn]
    cases k with
    | zero =>
      simp only [mulFrom, BitVec.getLsbD_zero, Bool.xor_false]
      by_cases h : n = 31 - i
      · have h1 : n + i ≤ 31 := by omega
        have h2 : 31 < n + i + (0+1) := by omega
        subst h; simp [h1, h2]
      · have : ¬ (n + i ≤ 31 ∧ 31 < n + i + (0+1)) := by omega
        by_cases h1 : n + i ≤ 31 <;> by_cases h2 : 31 < n + i + (0+1) <;> simp [h, h1, h2] <;> omega
    | succ k =>
      have hS : S (1#32 <<< (31 - i)) = 1#32 <<< (31 - (i+1)) := by
        have : 31 - i = (31 - (i+1)) + 1 := by omega
        rw [this]; exact S_bit _ (by omega)
      rw [hS, ih (i+1) (by omega)]
      by_cases h : n = 31 - i
      · have h1 : n + i ≤ 31 := by omega
        have h2 : 31 < n + i + (k+1+1) := by omega
        have h3 : ¬ (n + (i+1) ≤ 31) := by omega
        subst h; simp [h1, h2, h3]
      · by_cases h1 : n + i ≤ 31 <;> by_cases h2 : 31 < n + i + (k+1+1) <;>
        by_cases h3 : n + (i+1) ≤ 31 <;> by_cases h4 : 31 < n + (i+1) + (k+1) <;>
        simp [h, h1, h2, h3, h4] <;> omega

def mulOp (v w : W) : W := mulFrom 0 32 v w

theorem mulOp_One (v : W) : mulOp v One = v := by
  ext n hn
  have := mulFrom_basis 32 0 v (by omega) n hn
  have h1 : 31 < n + 0 + 32 := by omega
  have h2 : n + 0 ≤ 31 := by omega
  simp only [h1, h2, decide_true, Bool.and_true] at this
  simp only [One, mulOp]
  rw [← BitVec.getLsbD_eq_getElem, ← BitVec.getLsbD_eq_getElem]
  exact this

/-- the key composition law: powers of S applied to 1 multiply through mulOp -/
theorem pow_mul (a b : Nat) : mulOp (Spow a One) (Spow b One) = Spow (a + b) One := by
  unfold mulOp
  rw [mulFrom_Spow]
  have := mulOp_One (Spow a One)
  unfold mulOp at this
  rw [this, Nat.add_comm, Spow_add]

/-- square-and-multiply; exponent bits least significant first, `r` the accumulator, `b` the
    current power of the base -/
def powBits : List Bool → W → W → W
  | [], r, _ => r
  | d :: ds, r, b => powBits ds (if d then mulOp r b else r) (mulOp b b)

/-- value of a little-endian bit list -/
def bitsVal : List Bool → Nat
  | [] => 0
  | d :: ds => (if d then 1 else 0) + 2 * bitsVal ds

theorem powBits_spec (ds : List Bool) (r b : Nat) :
    powBits ds (Spow r One) (Spow b One) = Spow (r + b * bitsVal ds) One := by
  induction ds generalizing r b with
  | nil => simp [powBits, bitsVal]
  | cons d ds ih =>
    simp only [powBits, bitsVal]
    rw [pow_mul b b]
    cases d with
    | true =>
      simp only [if_true]
      rw [pow_mul, ih]
      congr 1
      rw [Nat.mul_add, Nat.add_mul, Nat.mul_left_comm b 2]; omega
    | false =>
      simp only [Bool.false_eq_true, if_false]
      rw [ih]
      congr 1
      rw [Nat.mul_add, Nat.add_mul, Nat.mul_left_comm b 2]; omega

def natBits (n : Nat) : List Bool := (List.range 32).map (fun i => n.testBit i)
def powN (n : Nat) : W := powBits (natBits n) One (Spow 1 One)

theorem powN_eq (n : Nat) : powN n = Spow (bitsVal (natBits n)) One := by
  have := powBits_spec (natBits n) 0 1
  simpa [powN, Spow] using this

theorem Per_full : Per (2^32 - 1) := by
  have h : powN (2^32-1) = One := by decide +kernel
  have e : bitsVal (natBits (2^32-1)) = 2^32-1 := by decide +kernel
  rw [powN_eq, e] at h; exact h

theorem not_Per_3 : ¬ Per ((2^32 - 1) / 3) := by
  have h : powN ((2^32-1)/3) ≠ One := by decide +kernel
  have e : bitsVal (natBits ((2^32-1)/3)) = (2^32-1)/3 := by decide +kernel
  rw [powN_eq, e] at h; exact h

theorem not_Per_5 : ¬ Per ((2^32 - 1) / 5) := by
  have h : powN ((2^32-1)/5) ≠ One := by decide +kernel
  have e : bitsVal (natBits ((2^32-1)/5)) = (2^32-1)/5 := by decide +kernel
  rw [powN_eq, e] at h; exact h

theorem not_Per_17 : ¬ Per ((2^32 - 1) / 17) := by
  have h : powN ((2^32-1)/17) ≠ One := by decide +kernel
  have e : bitsVal (natBits ((2^32-1)/17)) = (2^32-1)/17 := by decide +kernel
  rw [powN_eq, e] at h; exact h

theorem not_Per_257 : ¬ Per ((2^32 - 1) / 257) := by
  have h : powN ((2^32-1)/257) ≠ One := by decide +kernel
  have e : bitsVal (natBits ((2^32-1)/257)) = (2^32-1)/257 := by decide +kernel
  rw [powN_eq, e] at h; exact h

theorem not_Per_65537 : ¬ Per ((2^32 - 1) / 65537) := by
  have h : powN ((2^32-1)/65537) ≠ One := by decide +kernel
  have e : bitsVal (natBits ((2^32-1)/65537)) = (2^32-1)/65537 := by decide +kernel
  rw [powN_eq, e] at h; exact h

#print axioms burst_detected
#print axioms one_two_bits_of_period
#print axioms Per_gcd
#print axioms Per_full
#print axioms not_Per_65537

end Rscp.Crc
