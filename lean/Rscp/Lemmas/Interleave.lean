import Rscp.Model.Interleave
import Rscp.Gen.Shapes
namespace Rscp.Model

/-- what agent `i` sees in a global run is its solo run on its own actions -/
theorem Agent.global_filter_eq_solo {σ α ω : Type} (a : Agent σ α ω) (sched : List (Nat × α)) (i : Nat) :
    ∀ g : Nat → σ, ((a.global g sched).filter (fun p => p.1 == i)).map (·.2) =
      a.solo (g i) ((sched.filter (fun p => p.1 == i)).map (·.2)) := by
  induction sched with
  | nil => intro g; simp [Agent.global, Agent.solo]
  | cons hd rest ih =>
    intro g
    obtain ⟨j, x⟩ := hd
    by_cases hji : j = i
    · subst hji
      have := ih (fun k => if k = j then (a.step (g j) x).1 else g k)
      simp [Agent.global, Agent.solo] at this ⊢
      exact this
    · have := ih (fun k => if k = j then (a.step (g j) x).1 else g k)
      have hij : ¬ i = j := fun h => hji h.symm
      simp [Agent.global, hji, hij] at this ⊢
      exact this

end Rscp.Model
