import Rscp.Model.Interleave
import Rscp.Gen.Shapes
