import Rscp.Model.Client
