/-
Helper lemmas for the client model (`Model/Client.lean`), used by `Props/C08.lean` and `Props/C09.lean`.
-/
import Rscp.Model.Client
import Rscp.Spec.WF
namespace Rscp.Model
open Rscp

/-! ## request validation -/

theorem lookup_container : lookup 14 Gen.validateKind = some Kind.msgs := by decide

mutual
/-- The value is a Go value as far as its dynamic type goes: `Val.num k _` is used for the fixed-width
    numeric kinds only (as `Base.lean` says), at every depth. `Val.num .msgs 0`, say, is a term of the
    model to which no Go value corresponds: its `kind` is `.msgs`, so it passes `isValidValue` for
    `Container` and then hits the unchecked type assertion of `validateMsg`. Implied by `Spec.ValOK`
    (`goMsgs_of_ok` below). -/
def GoVal : Val → Prop
  | .num k _ => k.width ≠ none
  | .msgs ms => GoMsgs ms
  | _ => True
def GoMsg : Msg → Prop
  | .mk _ _ v => GoVal v
def GoMsgs : List Msg → Prop
  | [] => True
  | m :: ms => GoMsg m ∧ GoMsgs ms
end

theorem isValidValue_container {v : Val} (hv : GoVal v) (h : isValidValue Gen.C.Container v = true) :
    ∃ ms, v = .msgs ms := by
  simp only [isValidValue, show Gen.C.Container = 14 from rfl, lookup_container] at h
  cases v <;> simp_all [Val.kind, GoVal]
  next k n => subst h; simp [Kind.width] at hv

mutual
theorem validateMsg_ne_panic : ∀ m, GoMsg m → validateMsg m ≠ .panic
  | .mk t dt v, h => by
    cases v with
    | msgs ms =>
      have ih := validateMsgs_ne_panic ms (by simpa [GoMsg, GoVal] using h)
      simp only [validateMsg]
      split; · simp
      split; · simp
      split; · exact ih
      simp
    | _ =>
      simp only [validateMsg]
      split; · simp
      split; · simp
      split
      · next h1 _ h3 =>
        subst h3
        obtain ⟨ms, hms⟩ := isValidValue_container h (by simpa using h1)
        simp at hms
      · simp
theorem validateMsgs_ne_panic : ∀ ms, GoMsgs ms → validateMsgs ms ≠ .panic
  | [], _ => by simp [validateMsgs]
  | m :: ms, h => by
    have h1 := validateMsg_ne_panic m h.1
    have h2 := validateMsgs_ne_panic ms h.2
    simp only [validateMsgs]
    split <;> simp_all
end

/-- the error classes request validation can return -/
def ValidationErr (e : ErrClass) : Prop := e = .typeMismatch ∨ e = .dataLimit ∨ e = .notARequest

mutual
theorem validateMsg_err : ∀ m e, validateMsg m = .err e → ValidationErr e
  | .mk t dt v, e, h => by
    cases v with
    | msgs ms =>
      simp only [validateMsg] at h
      split at h; · simp at h; simp [ValidationErr, ← h]
      split at h; · simp at h; simp [ValidationErr, ← h]
      split at h; · exact validateMsgs_err ms e h
      simp at h
    | _ =>
      simp only [validateMsg] at h
      split at h; · simp at h; simp [ValidationErr, ← h]
      split at h; · simp at h; simp [ValidationErr, ← h]
      split at h <;> simp at h
theorem validateMsgs_err : ∀ ms e, validateMsgs ms = .err e → ValidationErr e
  | [], e, h => by simp [validateMsgs] at h
  | m :: ms, e, h => by
    simp only [validateMsgs] at h
    split at h
    · exact validateMsgs_err ms e h
    · next e' h' => simp at h; subst h; exact validateMsg_err m _ h'
    · simp at h
end

theorem validateRequests_go_err : ∀ ms e, validateRequests.go ms = .err e → ValidationErr e
  | [], e, h => by simp [validateRequests.go] at h
  | m :: ms, e, h => by
    simp only [validateRequests.go] at h
    split at h
    · simp at h; simp [ValidationErr, ← h]
    · split at h
      · exact validateRequests_go_err ms e h
      · next e' h' => simp at h; subst h; exact validateMsg_err m _ h'
      · simp at h

theorem validateRequests_err {ms e} (h : validateRequests ms = .err e) : ValidationErr e := by
  simp only [validateRequests] at h
  split at h
  · split at h
    · simp at h; simp [ValidationErr, ← h]
    · simp at h
  · next r hr => exact validateRequests_go_err ms e h

theorem tagReqAuth_eq : tagReqAuth = 1 := by decide +kernel
theorem tagAuthUser_eq : tagAuthUser = 2 := by decide +kernel
theorem tagAuthPassword_eq : tagAuthPassword = 3 := by decide +kernel
theorem tagAuth_eq : tagAuth = 8388609 := by decide +kernel

theorem lookup_cstring : lookup 13 Gen.validateKind = some Kind.str := by decide
theorem dtLength_container : dtLength 14 = 0 := by decide
theorem dtLength_cstring : dtLength 13 = 0 := by decide

/-- the authentication request is valid exactly when the credentials fit the item size limit -/
theorem validateRequests_authRequest (u p : List Byte) :
    validateRequests (authRequest u p) =
      if u.length + p.length + 14 > 65528 then .err .dataLimit else .ok () := by
  have h1 : Gen.Leaf.isRequest 1 = true := by decide
  have hc : Gen.C.Container = 14 := rfl
  have hs : Gen.C.CString = 13 := rfl
  have hne : (13 : Nat) ≠ 14 := by decide
  simp only [validateRequests, validateRequests.go, authRequest, tagReqAuth_eq, Msg.tag, h1,
    validateMsg, validateMsgs, isValidValue, lookup_container, lookup_cstring, Val.kind,
    valueSizeWide, msgsSizeWide, msgSizeWide, dtLength_container, dtLength_cstring,
    Gen.Leaf.size_isVariable, Gen.Leaf.validate_tooLong, Gen.Leaf.validateRequests_tooLong,
    Gen.C.RSCP_DATA_HEADER_SIZE, hc, hs]
  simp
  by_cases h : 65528 < u.length + p.length + 14
  · have h' : 65528 < 7 + u.length + (7 + p.length) := by omega
    simp [h, h']
  · have a1 : ¬ 65528 < 7 + u.length + (7 + p.length) := by omega
    have a2 : ¬ 65528 < u.length := by omega
    have a3 : ¬ 65528 < p.length := by omega
    have a4 : ¬ 65535 < 7 + (7 + u.length + (7 + p.length)) := by omega
    simp [h, a1, a2, a3, a4]

theorem validateRequests_go_ne_panic : ∀ ms, GoMsgs ms → validateRequests.go ms ≠ .panic
  | [], _ => by simp [validateRequests.go]
  | m :: ms, h => by
    have h1 := validateMsg_ne_panic m h.1
    have h2 := validateRequests_go_ne_panic ms h.2
    simp only [validateRequests.go]
    split; · simp
    split <;> simp_all

theorem validateRequests_ne_panic {ms : List Msg} (h : GoMsgs ms) : validateRequests ms ≠ .panic := by
  have h1 := validateRequests_go_ne_panic ms h
  simp only [validateRequests]
  split
  · split <;> simp
  · exact h1

theorem validateRequests_authRequest_ne_panic (u p : List Byte) :
    validateRequests (authRequest u p) ≠ .panic := by
  rw [validateRequests_authRequest]; split <;> simp

/-- values a Go program can hold (`Spec.ValOK`) are in particular `GoVal` -/
theorem kind_inRange_width {k : Kind} {n : Int} (h : k.inRange n) : k.width ≠ none := by
  intro hw; simp [Kind.inRange, hw] at h

mutual
theorem goMsg_of_ok : ∀ m, Spec.MsgOK m → GoMsg m
  | .mk t dt v, h => by
    cases v with
    | msgs ms => exact goMsgs_of_ok ms (by simpa [Spec.MsgOK, Spec.ValOK] using h.2.2)
    | num k n => exact kind_inRange_width (by simpa [Spec.MsgOK, Spec.ValOK] using h.2.2)
    | _ => simp [GoMsg, GoVal]
theorem goMsgs_of_ok : ∀ ms, Spec.MsgsOK ms → GoMsgs ms
  | [], _ => trivial
  | m :: ms, h => ⟨goMsg_of_ok m h.1, goMsgs_of_ok ms h.2⟩
end

/-! ## the client's primitives -/

theorem disconnect_some (n : Nat) (q : List Tok) (a : Bool) (c : Nat) :
    disconnect ⟨some (n, q), a, c⟩ = (⟨none, false, c⟩, [.closed n]) := rfl

theorem disconnect_none (a : Bool) (c : Nat) :
    disconnect ⟨none, a, c⟩ = (⟨none, false, c⟩, []) := rfl

/-- a reply that starts with a frame token is a frame reply and nothing follows it -/
theorem tokens_frame {r : Reply} {ms : List Msg} {rest : List Tok} (h : r.tokens = .frame ms :: rest) :
    r = .frame ms ∧ rest = [] := by
  cases r <;> simp_all [Reply.tokens]

theorem receive_cases (n : Nat) (q : List Tok) (a : Bool) (c : Nat) :
    (∃ m ms rest, q = .frame (m :: ms) :: rest ∧
        receive ⟨some (n, q), a, c⟩ = (⟨some (n, rest), a, c⟩, .ok (m :: ms), [])) ∨
    (∃ e, (∀ m ms rest, q ≠ .frame (m :: ms) :: rest) ∧
        receive ⟨some (n, q), a, c⟩ = (⟨none, false, c⟩, .err e, [.closed n])) := by
  match q with
  | .frame (m :: ms) :: rest => exact .inl ⟨m, ms, rest, rfl, rfl⟩
  | .frame [] :: _ => exact .inr ⟨.io, by simp, rfl⟩
  | .junk e :: _ => exact .inr ⟨e, by simp, rfl⟩
  | [] => exact .inr ⟨.io, by simp, rfl⟩

theorem receive_none (a : Bool) (c : Nat) : receive ⟨none, a, c⟩ = (⟨none, a, c⟩, .panic, []) := rfl

theorem sendFrame_cases (n : Nat) (q : List Tok) (a : Bool) (c : Nat) (ms : List Msg) (w : Bool) (reply : Reply) :
    (validateRequests ms = .ok () ∧ w = true ∧
        sendFrame ⟨some (n, q), a, c⟩ ms w reply = (⟨some (n, q ++ reply.tokens), a, c⟩, .ok (), [.sent n ms])) ∨
    (validateRequests ms = .ok () ∧ w = false ∧
        sendFrame ⟨some (n, q), a, c⟩ ms w reply = (⟨none, false, c⟩, .err .io, [.closed n])) ∨
    (∃ e, validateRequests ms = .err e ∧
        sendFrame ⟨some (n, q), a, c⟩ ms w reply = (⟨some (n, q), a, c⟩, .err e, [])) ∨
    (validateRequests ms = .panic ∧
        sendFrame ⟨some (n, q), a, c⟩ ms w reply = (⟨some (n, q), a, c⟩, .panic, [])) := by
  simp only [sendFrame]
  cases hv : validateRequests ms with
  | ok u => cases w <;> simp [disconnect]
  | err e => simp
  | panic => simp

/-! ## the authentication verdict -/

theorem authVerdict_total (m : Msg) (rest : List Msg) :
    authVerdict (m :: rest) = .ok .grant ∨ authVerdict (m :: rest) = .ok .refuse := by
  simp only [authVerdict]
  split; · simp
  split <;> (try split) <;> simp

theorem authVerdict_grant_iff (m : Msg) (rest : List Msg) :
    authVerdict (m :: rest) = .ok .grant ↔
      m.tag = tagAuth ∧ ∃ v, v ≠ 0 ∧ (m.val = .num .u8 v ∨ m.val = .num .i32 v) := by
  simp only [authVerdict, show Gen.C.AUTH_LEVEL_NO_AUTH = 0 from rfl]
  by_cases ht : m.tag = tagAuth
  · simp only [ht, ne_eq, not_true_eq_false, if_false, true_and]
    split
    · next v hv => simp [hv]
    · next v hv => simp [hv]
    · next h1 h2 =>
      constructor
      · simp
      · rintro ⟨v, _, hv | hv⟩
        · exact absurd hv (h2 v)
        · exact absurd hv (h1 v)
  · simp [ht]

/-! ## `authenticate` -/

/-- all outcomes of `authenticate` on an open connection -/
theorem authenticate_cases (cred : Cred) (sc : Script) (n : Nat) (q : List Tok) (a : Bool) (c : Nat) :
    (∃ e, ValidationErr e ∧ validateRequests (authRequest cred.user cred.password) = .err e ∧
        authenticate cred ⟨some (n, q), a, c⟩ sc = (⟨some (n, q), a, c⟩, .err e, [])) ∨
    (sc.writeOk = false ∧
        authenticate cred ⟨some (n, q), a, c⟩ sc = (⟨none, false, c⟩, .err .io, [.closed n])) ∨
    (∃ e, (∀ m ms rest, q ++ sc.auth.tokens ≠ .frame (m :: ms) :: rest) ∧
        authenticate cred ⟨some (n, q), a, c⟩ sc =
          (⟨none, false, c⟩, .err e, [.sent n (authRequest cred.user cred.password), .closed n])) ∨
    (∃ m ms rest, q ++ sc.auth.tokens = .frame (m :: ms) :: rest ∧ authVerdict (m :: ms) = .ok .refuse ∧
        authenticate cred ⟨some (n, q), a, c⟩ sc =
          (⟨some (n, rest), false, c⟩, .err .auth, [.sent n (authRequest cred.user cred.password)])) ∨
    (∃ m ms rest, q ++ sc.auth.tokens = .frame (m :: ms) :: rest ∧ authVerdict (m :: ms) = .ok .grant ∧
        validateRequests (authRequest cred.user cred.password) = .ok () ∧ sc.writeOk = true ∧
        authenticate cred ⟨some (n, q), a, c⟩ sc =
          (⟨some (n, rest), true, c⟩, .ok (),
            [.sent n (authRequest cred.user cred.password), .granted n])) := by
  rcases sendFrame_cases n q a c (authRequest cred.user cred.password) sc.writeOk sc.auth with
    ⟨hv, hw, hs⟩ | ⟨hv, hw, hs⟩ | ⟨e, hv, hs⟩ | ⟨hv, hs⟩
  · rcases receive_cases n (q ++ sc.auth.tokens) a c with ⟨m, ms, rest, hq, hr⟩ | ⟨e, hq, hr⟩
    · rcases authVerdict_total m ms with hg | hg
      · refine .inr (.inr (.inr (.inr ⟨m, ms, rest, hq, hg, hv, hw, ?_⟩)))
        simp [authenticate, hs, hr, hg]
      · refine .inr (.inr (.inr (.inl ⟨m, ms, rest, hq, hg, ?_⟩)))
        simp [authenticate, hs, hr, hg]
    · refine .inr (.inr (.inl ⟨e, hq, ?_⟩))
      simp [authenticate, hs, hr]
  · exact .inr (.inl ⟨hw, by simp [authenticate, hs]⟩)
  · exact .inl ⟨e, validateRequests_err hv, hv, by simp [authenticate, hs]⟩
  · exact absurd hv (validateRequests_authRequest_ne_panic _ _)

/-! ## `sendMultiple` -/

/-- the last phase of `sendMultiple`: user request out, reply in -/
def userPhase (st1 : CState) (reqs : List Msg) (sc : Script) : CState × Res (List Msg) × List Ev :=
  match sendFrame st1 reqs sc.writeOk sc.user with
  | (st2, .ok (), ev2) => ((receive st2).1, (receive st2).2.1, ev2 ++ (receive st2).2.2)
  | (st2, .err e, ev2) => (st2, .err e, ev2)
  | (st2, .panic, ev2) => (st2, .panic, ev2)

/-- `sendMultiple` once the connection is there -/
def connected (cred : Cred) (st0 : CState) (reqs : List Msg) (sc : Script) : CState × Res (List Msg) × List Ev :=
  if st0.authed then userPhase st0 reqs sc
  else match authenticate cred st0 sc with
    | (st1, .ok (), ev1) =>
      ((userPhase st1 reqs sc).1, (userPhase st1 reqs sc).2.1, ev1 ++ (userPhase st1 reqs sc).2.2)
    | (st1, .err e, ev1) => (st1, .err e, ev1)
    | (st1, .panic, ev1) => (st1, .panic, ev1)

theorem sendMultiple_dial_fail (cred : Cred) (a : Bool) (c : Nat) (reqs : List Msg) (sc : Script)
    (hd : sc.dialOk = false) :
    sendMultiple cred ⟨none, a, c⟩ reqs sc = (⟨none, a, c⟩, .err .io, [.dial false]) := by
  simp [sendMultiple, hd]

theorem sendMultiple_aux (cred : Cred) (st0 : CState) (ev0 : List Ev) (reqs : List Msg) (sc : Script) :
    (let (st1, r1, ev1) := if st0.authed then (st0, Res.ok (), []) else authenticate cred st0 sc
     match r1 with
     | .err e => (st1, .err e, ev0 ++ ev1)
     | .panic => (st1, .panic, ev0 ++ ev1)
     | .ok () =>
       match sendFrame st1 reqs sc.writeOk sc.user with
       | (st2, .ok (), ev2) =>
         let (st3, r3, ev3) := receive st2
         (st3, r3, ev0 ++ ev1 ++ ev2 ++ ev3)
       | (st2, .err e, ev2) => (st2, .err e, ev0 ++ ev1 ++ ev2)
       | (st2, .panic, ev2) => (st2, .panic, ev0 ++ ev1 ++ ev2)) =
    ((connected cred st0 reqs sc).1, (connected cred st0 reqs sc).2.1, ev0 ++ (connected cred st0 reqs sc).2.2) := by
  unfold connected userPhase
  cases st0.authed
  · simp only [Bool.false_eq_true, if_false]
    rcases ha : authenticate cred st0 sc with ⟨st1, r1, ev1⟩
    cases r1 with
    | ok u =>
      simp only []
      rcases hs : sendFrame st1 reqs sc.writeOk sc.user with ⟨st2, r2, ev2⟩
      cases r2 <;> simp
    | err e => simp
    | panic => simp
  · simp only [if_true]
    rcases hs : sendFrame st0 reqs sc.writeOk sc.user with ⟨st2, r2, ev2⟩
    cases r2 <;> simp

theorem sendMultiple_conn (cred : Cred) (p : Nat × List Tok) (a : Bool) (c : Nat) (reqs : List Msg) (sc : Script) :
    sendMultiple cred ⟨some p, a, c⟩ reqs sc = connected cred ⟨some p, a, c⟩ reqs sc := by
  have := sendMultiple_aux cred ⟨some p, a, c⟩ [] reqs sc
  simp only [List.nil_append] at this
  simp only [sendMultiple]
  exact this

theorem sendMultiple_dial_ok (cred : Cred) (a : Bool) (c : Nat) (reqs : List Msg) (sc : Script)
    (hd : sc.dialOk = true) :
    sendMultiple cred ⟨none, a, c⟩ reqs sc =
      ((connected cred ⟨some (c, []), a, c + 1⟩ reqs sc).1,
       (connected cred ⟨some (c, []), a, c + 1⟩ reqs sc).2.1,
       .dial true :: (connected cred ⟨some (c, []), a, c + 1⟩ reqs sc).2.2) := by
  have := sendMultiple_aux cred ⟨some (c, []), a, c + 1⟩ [.dial true] reqs sc
  simp only [sendMultiple, hd]
  exact this

/-- all outcomes of the user phase on an open connection -/
theorem userPhase_cases (n : Nat) (q : List Tok) (a : Bool) (c : Nat) (reqs : List Msg) (sc : Script) :
    (∃ e, ValidationErr e ∧ validateRequests reqs = .err e ∧
        userPhase ⟨some (n, q), a, c⟩ reqs sc = (⟨some (n, q), a, c⟩, .err e, [])) ∨
    (validateRequests reqs = .panic ∧
        userPhase ⟨some (n, q), a, c⟩ reqs sc = (⟨some (n, q), a, c⟩, .panic, [])) ∨
    (sc.writeOk = false ∧
        userPhase ⟨some (n, q), a, c⟩ reqs sc = (⟨none, false, c⟩, .err .io, [.closed n])) ∨
    (∃ e, (∀ m ms rest, q ++ sc.user.tokens ≠ .frame (m :: ms) :: rest) ∧
        userPhase ⟨some (n, q), a, c⟩ reqs sc = (⟨none, false, c⟩, .err e, [.sent n reqs, .closed n])) ∨
    (∃ m ms rest, q ++ sc.user.tokens = .frame (m :: ms) :: rest ∧
        validateRequests reqs = .ok () ∧ sc.writeOk = true ∧
        userPhase ⟨some (n, q), a, c⟩ reqs sc = (⟨some (n, rest), a, c⟩, .ok (m :: ms), [.sent n reqs])) := by
  rcases sendFrame_cases n q a c reqs sc.writeOk sc.user with
    ⟨hv, hw, hs⟩ | ⟨hv, hw, hs⟩ | ⟨e, hv, hs⟩ | ⟨hv, hs⟩
  · rcases receive_cases n (q ++ sc.user.tokens) a c with ⟨m, ms, rest, hq, hr⟩ | ⟨e, hq, hr⟩
    · exact .inr (.inr (.inr (.inr ⟨m, ms, rest, hq, hv, hw, by simp [userPhase, hs, hr]⟩)))
    · exact .inr (.inr (.inr (.inl ⟨e, hq, by simp [userPhase, hs, hr]⟩)))
  · exact .inr (.inr (.inl ⟨hw, by simp [userPhase, hs]⟩))
  · exact .inl ⟨e, validateRequests_err hv, hv, by simp [userPhase, hs]⟩
  · exact .inr (.inl ⟨hv, by simp [userPhase, hs]⟩)

/-- all outcomes of `sendMultiple` on an open connection `n` with pending tokens `q` -/
theorem connected_cases (cred : Cred) (n : Nat) (q : List Tok) (a : Bool) (c : Nat) (reqs : List Msg) (sc : Script) :
    -- authentication was needed and did not succeed
    (a = false ∧ (
      (∃ e, ValidationErr e ∧
        connected cred ⟨some (n, q), a, c⟩ reqs sc = (⟨some (n, q), false, c⟩, .err e, [])) ∨
      (connected cred ⟨some (n, q), a, c⟩ reqs sc = (⟨none, false, c⟩, .err .io, [.closed n])) ∨
      (∃ e, connected cred ⟨some (n, q), a, c⟩ reqs sc =
        (⟨none, false, c⟩, .err e, [.sent n (authRequest cred.user cred.password), .closed n])) ∨
      (∃ m ms rest, q ++ sc.auth.tokens = .frame (m :: ms) :: rest ∧
        connected cred ⟨some (n, q), a, c⟩ reqs sc =
          (⟨some (n, rest), false, c⟩, .err .auth, [.sent n (authRequest cred.user cred.password)])))) ∨
    -- authenticated before (`pre = []`) or now; the user phase runs on the queue `q1`
    (∃ pre q1,
      ((a = true ∧ pre = [] ∧ q1 = q) ∨
       (a = false ∧ pre = [.sent n (authRequest cred.user cred.password), .granted n] ∧
          ∃ m ms, q ++ sc.auth.tokens = .frame (m :: ms) :: q1)) ∧
      ((∃ e, ValidationErr e ∧
          connected cred ⟨some (n, q), a, c⟩ reqs sc = (⟨some (n, q1), true, c⟩, .err e, pre)) ∨
       (validateRequests reqs = .panic ∧
          connected cred ⟨some (n, q), a, c⟩ reqs sc = (⟨some (n, q1), true, c⟩, .panic, pre)) ∨
       (connected cred ⟨some (n, q), a, c⟩ reqs sc = (⟨none, false, c⟩, .err .io, pre ++ [.closed n])) ∨
       (∃ e, connected cred ⟨some (n, q), a, c⟩ reqs sc =
          (⟨none, false, c⟩, .err e, pre ++ [.sent n reqs, .closed n])) ∨
       (∃ m ms rest, q1 ++ sc.user.tokens = .frame (m :: ms) :: rest ∧
          connected cred ⟨some (n, q), a, c⟩ reqs sc =
            (⟨some (n, rest), true, c⟩, .ok (m :: ms), pre ++ [.sent n reqs])))) := by
  cases a with
  | true =>
    refine .inr ⟨[], q, .inl ⟨rfl, rfl, rfl⟩, ?_⟩
    simp only [connected, if_true, List.nil_append]
    rcases userPhase_cases n q true c reqs sc with
      ⟨e, he, _, hu⟩ | ⟨hp, hu⟩ | ⟨_, hu⟩ | ⟨e, _, hu⟩ | ⟨m, ms, rest, hq, _, _, hu⟩
    · exact .inl ⟨e, he, hu⟩
    · exact .inr (.inl ⟨hp, hu⟩)
    · exact .inr (.inr (.inl hu))
    · exact .inr (.inr (.inr (.inl ⟨e, hu⟩)))
    · exact .inr (.inr (.inr (.inr ⟨m, ms, rest, hq, hu⟩)))
  | false =>
    rcases authenticate_cases cred sc n q false c with
      ⟨e, he, _, ha⟩ | ⟨_, ha⟩ | ⟨e, _, ha⟩ | ⟨m, ms, rest, hq, _, ha⟩ | ⟨m, ms, q1, hq, _, _, _, ha⟩
    · exact .inl ⟨rfl, .inl ⟨e, he, by simp [connected, ha]⟩⟩
    · exact .inl ⟨rfl, .inr (.inl (by simp [connected, ha]))⟩
    · exact .inl ⟨rfl, .inr (.inr (.inl ⟨e, by simp [connected, ha]⟩))⟩
    · exact .inl ⟨rfl, .inr (.inr (.inr ⟨m, ms, rest, hq, by simp [connected, ha]⟩))⟩
    · refine .inr ⟨_, q1, .inr ⟨rfl, rfl, m, ms, hq⟩, ?_⟩
      simp only [connected, Bool.false_eq_true, if_false, ha]
      rcases userPhase_cases n q1 true c reqs sc with
        ⟨e, he, _, hu⟩ | ⟨hp, hu⟩ | ⟨_, hu⟩ | ⟨e, _, hu⟩ | ⟨m, ms, rest, hq, _, _, hu⟩
      · exact .inl ⟨e, he, by simp [hu]⟩
      · exact .inr (.inl ⟨hp, by simp [hu]⟩)
      · exact .inr (.inr (.inl (by simp [hu])))
      · exact .inr (.inr (.inr (.inl ⟨e, by simp [hu]⟩)))
      · exact .inr (.inr (.inr (.inr ⟨m, ms, rest, hq, by simp [hu]⟩)))

/-- `sendMultiple` from any state: the dial fails, or the rest runs on a connection `n` (the open one, or
    a fresh one numbered `st.conns`) -/
theorem sendMultiple_cases (cred : Cred) (st : CState) (reqs : List Msg) (sc : Script) :
    (st.conn = none ∧ sc.dialOk = false ∧ sendMultiple cred st reqs sc = (st, .err .io, [.dial false])) ∨
    (∃ n q c' pre,
      ((st.conn = some (n, q) ∧ pre = [] ∧ c' = st.conns) ∨
       (st.conn = none ∧ sc.dialOk = true ∧ n = st.conns ∧ q = [] ∧ pre = [.dial true] ∧ c' = st.conns + 1)) ∧
      sendMultiple cred st reqs sc =
        ((connected cred ⟨some (n, q), st.authed, c'⟩ reqs sc).1,
         (connected cred ⟨some (n, q), st.authed, c'⟩ reqs sc).2.1,
         pre ++ (connected cred ⟨some (n, q), st.authed, c'⟩ reqs sc).2.2)) := by
  obtain ⟨conn, a, c⟩ := st
  cases conn with
  | some p =>
    obtain ⟨n, q⟩ := p
    exact .inr ⟨n, q, c, [], .inl ⟨rfl, rfl, rfl⟩, by simp [sendMultiple_conn]⟩
  | none =>
    cases hd : sc.dialOk with
    | false => exact .inl ⟨rfl, rfl, sendMultiple_dial_fail cred a c reqs sc hd⟩
    | true =>
      exact .inr ⟨c, [], c + 1, [.dial true], .inr ⟨rfl, rfl, rfl, rfl, rfl, rfl⟩,
        by simp [sendMultiple_dial_ok cred a c reqs sc hd]⟩

theorem connected_clean (cred : Cred) (n : Nat) (a : Bool) (c : Nat) (reqs : List Msg) (sc : Script)
    (n' : Nat) (q' : List Tok)
    (h : (connected cred ⟨some (n, []), a, c⟩ reqs sc).1.conn = some (n', q')) : q' = [] := by
  rcases connected_cases cred n [] a c reqs sc with
    ⟨_, ⟨e, he, hR⟩ | hR | ⟨e, hR⟩ | ⟨m, ms, rest, hq, hR⟩⟩ |
    ⟨pre, q1, hpre, hu⟩
  · simp [hR] at h; exact h.2
  · simp [hR] at h
  · simp [hR] at h
  · simp [hR] at h; rw [← h.2]; exact (tokens_frame (by simpa using hq)).2
  · have hq1 : q1 = [] := by
      rcases hpre with ⟨_, _, rfl⟩ | ⟨_, _, m', ms', hq'⟩
      · rfl
      · exact (tokens_frame (by simpa using hq')).2
    subst hq1
    rcases hu with ⟨e, he, hR⟩ | ⟨hp, hR⟩ | hR | ⟨e, hR⟩ | ⟨m, ms, rest, hq, hR⟩
    · simp [hR] at h; exact h.2
    · simp [hR] at h; exact h.2
    · simp [hR] at h
    · simp [hR] at h
    · simp [hR] at h; rw [← h.2]; exact (tokens_frame (by simpa using hq)).2

theorem sendMultiple_clean (cred : Cred) (st : CState) (reqs : List Msg) (sc : Script)
    (h : ∀ n q, st.conn = some (n, q) → q = []) (n' : Nat) (q' : List Tok)
    (h' : (sendMultiple cred st reqs sc).1.conn = some (n', q')) : q' = [] := by
  rcases sendMultiple_cases cred st reqs sc with ⟨hc, _, hR⟩ | ⟨n, q, c', pre, hpre, hR⟩
  · rw [hR] at h'; simp [hc] at h'
  · have hq : q = [] := by
      rcases hpre with ⟨hc, _, _⟩ | ⟨_, _, _, hq, _, _⟩
      · exact h n q hc
      · exact hq
    subst hq
    rw [hR] at h'
    exact connected_clean cred n st.authed c' reqs sc n' q' h'

/-! ## C08: pairing, order, failure, recovery -/

theorem connected_pairing (cred : Cred) (n : Nat) (a : Bool) (c : Nat) (reqs ms : List Msg) (sc : Script)
    (hok : (connected cred ⟨some (n, []), a, c⟩ reqs sc).2.1 = .ok ms) : sc.user = .frame ms := by
  rcases connected_cases cred n [] a c reqs sc with
    ⟨_, ⟨e, he, hR⟩ | hR | ⟨e, hR⟩ | ⟨m, ms, rest, hq, hR⟩⟩ |
    ⟨pre, q1, hpre, hu⟩
  · simp [hR] at hok
  · simp [hR] at hok
  · simp [hR] at hok
  · simp [hR] at hok
  · have hq1 : q1 = [] := by
      rcases hpre with ⟨_, _, rfl⟩ | ⟨_, _, m', ms', hq'⟩
      · rfl
      · exact (tokens_frame (by simpa using hq')).2
    subst hq1
    rcases hu with ⟨e, he, hR⟩ | ⟨hp, hR⟩ | hR | ⟨e, hR⟩ | ⟨m, ms', rest, hq, hR⟩
    · simp [hR] at hok
    · simp [hR] at hok
    · simp [hR] at hok
    · simp [hR] at hok
    · simp [hR] at hok; rw [← hok]; exact (tokens_frame (by simpa using hq)).1

theorem sendMultiple_pairing (cred : Cred) (st : CState) (reqs ms : List Msg) (sc : Script)
    (h : ∀ n q, st.conn = some (n, q) → q = [])
    (hok : (sendMultiple cred st reqs sc).2.1 = .ok ms) : sc.user = .frame ms := by
  rcases sendMultiple_cases cred st reqs sc with ⟨hc, _, hR⟩ | ⟨n, q, c', pre, hpre, hR⟩
  · simp [hR] at hok
  · have hq : q = [] := by
      rcases hpre with ⟨hc, _, _⟩ | ⟨_, _, _, hq, _, _⟩
      · exact h n q hc
      · exact hq
    subst hq
    rw [hR] at hok
    exact connected_pairing cred n st.authed c' reqs ms sc hok

/-- the frames among a list of events -/
def sentFrames (evs : List Ev) : List (List Msg) :=
  evs.filterMap (fun e => match e with | .sent _ ms => some ms | _ => none)

theorem connected_sent (cred : Cred) (n : Nat) (q : List Tok) (a : Bool) (c : Nat) (reqs : List Msg) (sc : Script) :
    let sent := sentFrames (connected cred ⟨some (n, q), a, c⟩ reqs sc).2.2
    sent = [] ∨ sent = [authRequest cred.user cred.password] ∨ sent = [reqs] ∨
      sent = [authRequest cred.user cred.password, reqs] := by
  rcases connected_cases cred n q a c reqs sc with
    ⟨_, ⟨e, he, hR⟩ | hR | ⟨e, hR⟩ | ⟨m, ms, rest, hq, hR⟩⟩ |
    ⟨pre, q1, hpre, hu⟩
  · simp [hR, sentFrames]
  · simp [hR, sentFrames]
  · simp [hR, sentFrames]
  · simp [hR, sentFrames]
  · rcases hpre with ⟨_, rfl, _⟩ | ⟨_, rfl, _⟩ <;>
    rcases hu with ⟨e, he, hR⟩ | ⟨hp, hR⟩ | hR | ⟨e, hR⟩ | ⟨m, ms', rest, hq, hR⟩ <;>
    simp [hR, sentFrames]

theorem sendMultiple_sent (cred : Cred) (st : CState) (reqs : List Msg) (sc : Script) :
    let sent := sentFrames (sendMultiple cred st reqs sc).2.2
    sent = [] ∨ sent = [authRequest cred.user cred.password] ∨ sent = [reqs] ∨
      sent = [authRequest cred.user cred.password, reqs] := by
  rcases sendMultiple_cases cred st reqs sc with ⟨hc, _, hR⟩ | ⟨n, q, c', pre, hpre, hR⟩
  · simp [hR, sentFrames]
  · have hpre' : sentFrames pre = [] := by
      rcases hpre with ⟨_, rfl, _⟩ | ⟨_, _, _, _, rfl, _⟩ <;> simp [sentFrames]
    have := connected_sent cred n q st.authed c' reqs sc
    simp only [hR]
    unfold sentFrames at *
    simpa [List.filterMap_append, hpre'] using this

theorem connected_failure (cred : Cred) (n : Nat) (q : List Tok) (a : Bool) (c : Nat) (reqs : List Msg) (sc : Script)
    (e : ErrClass) (hres : (connected cred ⟨some (n, q), a, c⟩ reqs sc).2.1 = .err e)
    (hnot : e ≠ .auth ∧ ¬ ValidationErr e) :
    (connected cred ⟨some (n, q), a, c⟩ reqs sc).1.conn = none ∧
      (connected cred ⟨some (n, q), a, c⟩ reqs sc).1.authed = false := by
  rcases connected_cases cred n q a c reqs sc with
    ⟨_, ⟨e', he, hR⟩ | hR | ⟨e', hR⟩ | ⟨m, ms, rest, hq, hR⟩⟩ |
    ⟨pre, q1, hpre, ⟨e', he, hR⟩ | ⟨hp, hR⟩ | hR | ⟨e', hR⟩ | ⟨m, ms', rest, hq, hR⟩⟩
  · simp [hR] at hres; subst hres; exact absurd he hnot.2
  · simp [hR]
  · simp [hR]
  · simp [hR] at hres; exact absurd hres.symm hnot.1
  · simp [hR] at hres; subst hres; exact absurd he hnot.2
  · simp [hR] at hres
  · simp [hR]
  · simp [hR]
  · simp [hR] at hres

theorem sendMultiple_failure (cred : Cred) (st : CState) (reqs : List Msg) (sc : Script) (e : ErrClass)
    (hinv : st.conn = none → st.authed = false)
    (hres : (sendMultiple cred st reqs sc).2.1 = .err e)
    (hnot : e ≠ .auth ∧ ¬ ValidationErr e) :
    (sendMultiple cred st reqs sc).1.conn = none ∧ (sendMultiple cred st reqs sc).1.authed = false := by
  rcases sendMultiple_cases cred st reqs sc with ⟨hc, _, hR⟩ | ⟨n, q, c', pre, hpre, hR⟩
  · rw [hR]; exact ⟨hc, hinv hc⟩
  · rw [hR] at hres ⊢
    exact connected_failure cred n q st.authed c' reqs sc e hres hnot

theorem userPhase_ok (n : Nat) (a : Bool) (c : Nat) (reqs : List Msg) (sc : Script) (m : Msg) (ms : List Msg)
    (hv : validateRequests reqs = .ok ()) (hw : sc.writeOk = true) (hu : sc.user = .frame (m :: ms)) :
    userPhase ⟨some (n, []), a, c⟩ reqs sc = (⟨some (n, []), a, c⟩, .ok (m :: ms), [.sent n reqs]) := by
  simp [userPhase, sendFrame, hv, hw, hu, Reply.tokens, receive]

theorem authenticate_ok (cred : Cred) (n : Nat) (a : Bool) (c : Nat) (sc : Script) (lvl : Int)
    (hcred : validateRequests (authRequest cred.user cred.password) = .ok ())
    (hw : sc.writeOk = true) (hl : lvl ≠ 0)
    (ha : sc.auth = .frame [.mk tagAuth Gen.C.UChar8 (.num .u8 lvl)]) :
    authenticate cred ⟨some (n, []), a, c⟩ sc =
      (⟨some (n, []), true, c⟩, .ok (), [.sent n (authRequest cred.user cred.password), .granted n]) := by
  have hg : authVerdict [.mk tagAuth Gen.C.UChar8 (.num .u8 lvl)] = .ok .grant :=
    (authVerdict_grant_iff _ _).2 ⟨rfl, lvl, hl, .inl rfl⟩
  simp [authenticate, sendFrame, hcred, hw, ha, Reply.tokens, receive, hg]

theorem sendMultiple_recovery (cred : Cred) (st : CState) (reqs : List Msg) (sc : Script) (m : Msg) (ms : List Msg)
    (lvl : Int)
    (h : ∀ n q, st.conn = some (n, q) → q = [])
    (hcred : validateRequests (authRequest cred.user cred.password) = .ok ())
    (hv : validateRequests reqs = .ok ())
    (hd : sc.dialOk = true) (hw : sc.writeOk = true) (hu : sc.user = .frame (m :: ms)) (hl : lvl ≠ 0)
    (ha : sc.auth = .frame [.mk tagAuth Gen.C.UChar8 (.num .u8 lvl)]) :
    (sendMultiple cred st reqs sc).2.1 = .ok (m :: ms) := by
  rcases sendMultiple_cases cred st reqs sc with ⟨_, hd', _⟩ | ⟨n, q, c', pre, hpre, hR⟩
  · simp [hd] at hd'
  · have hq : q = [] := by
      rcases hpre with ⟨hc, _, _⟩ | ⟨_, _, _, hq, _, _⟩
      · exact h n q hc
      · exact hq
    subst hq
    rw [hR]
    cases hA : st.authed with
    | true => simp [connected, userPhase_ok n true c' reqs sc m ms hv hw hu]
    | false =>
      simp [connected, authenticate_ok cred n false c' sc lvl hcred hw hl ha,
        userPhase_ok n true c' reqs sc m ms hv hw hu]

/-! ## C09: calls never panic -/

theorem receive_ok_ne_nil (st : CState) (ms : List Msg) (h : (receive st).2.1 = .ok ms) : ms ≠ [] := by
  obtain ⟨conn, a, c⟩ := st
  cases conn with
  | none => simp [receive_none] at h
  | some p =>
    obtain ⟨n, q⟩ := p
    rcases receive_cases n q a c with ⟨m, ms', rest, _, hr⟩ | ⟨e, _, hr⟩
    · simp [hr] at h; simp [← h]
    · simp [hr] at h

/-- the requests of a call are Go values as far as the validator looks at them -/
def Call.GoVals : Call → Prop
  | .sendMultiple reqs _ => GoMsgs reqs
  | .send req _ => GoMsg req
  | .disconnect => True

theorem connected_result (cred : Cred) (n : Nat) (q : List Tok) (a : Bool) (c : Nat) (reqs : List Msg) (sc : Script) :
    (∃ e, (connected cred ⟨some (n, q), a, c⟩ reqs sc).2.1 = .err e) ∨
    (∃ m ms, (connected cred ⟨some (n, q), a, c⟩ reqs sc).2.1 = .ok (m :: ms)) ∨
    (validateRequests reqs = .panic ∧ (connected cred ⟨some (n, q), a, c⟩ reqs sc).2.1 = .panic) := by
  rcases connected_cases cred n q a c reqs sc with
    ⟨_, ⟨e', he, hR⟩ | hR | ⟨e', hR⟩ | ⟨m, ms, rest, hq, hR⟩⟩ |
    ⟨pre, q1, hpre, ⟨e', he, hR⟩ | ⟨hp, hR⟩ | hR | ⟨e', hR⟩ | ⟨m, ms', rest, hq, hR⟩⟩ <;>
  simp [hR]
  exact hp

theorem sendMultiple_result (cred : Cred) (st : CState) (reqs : List Msg) (sc : Script) :
    (∃ e, (sendMultiple cred st reqs sc).2.1 = .err e) ∨
    (∃ m ms, (sendMultiple cred st reqs sc).2.1 = .ok (m :: ms)) ∨
    (validateRequests reqs = .panic ∧ (sendMultiple cred st reqs sc).2.1 = .panic) := by
  rcases sendMultiple_cases cred st reqs sc with ⟨hc, _, hR⟩ | ⟨n, q, c', pre, hpre, hR⟩
  · simp [hR]
  · rw [hR]; exact connected_result cred n q st.authed c' reqs sc

theorem step_ne_panic (cred : Cred) (st : CState) (c : Call) (hgo : c.GoVals) :
    (step cred st c).2.1 ≠ .panic := by
  cases c with
  | sendMultiple reqs sc =>
    rcases sendMultiple_result cred st reqs sc with ⟨e, h⟩ | ⟨m, ms, h⟩ | ⟨hp, _⟩
    · simp [step, h]
    · simp [step, h]
    · exact absurd hp (validateRequests_ne_panic hgo)
  | send req sc =>
    have hgo' : GoMsgs [req] := ⟨hgo, trivial⟩
    rcases hs : sendMultiple cred st [req] sc with ⟨st', r, ev⟩
    rcases sendMultiple_result cred st [req] sc with ⟨e, h⟩ | ⟨m, ms, h⟩ | ⟨hp, _⟩
    · rw [hs] at h; simp at h; subst h; simp [step, send, hs]
    · rw [hs] at h; simp at h; subst h; simp [step, send, hs]
    · exact absurd hp (validateRequests_ne_panic hgo')
  | disconnect => simp [step]

/-! ## C09: traces -/

/-- a frame `ms` may go out on connection `n` after the events `seen`: it is the authentication request
    `A`, or `A` was sent and its reply accepted on `n` before -/
def SentOK (A : List Msg) (seen : List Ev) : Ev → Prop
  | .sent n ms => ms = A ∨ (.sent n A ∈ seen ∧ .granted n ∈ seen)
  | _ => True

/-- every event of `l` is `SentOK` after `seen` and the events of `l` before it -/
def GoodFrom (A : List Msg) : List Ev → List Ev → Prop
  | _, [] => True
  | seen, e :: l => SentOK A seen e ∧ GoodFrom A (seen ++ [e]) l

theorem goodFrom_append (A : List Msg) : ∀ (l1 l2 seen : List Ev),
    GoodFrom A seen (l1 ++ l2) ↔ GoodFrom A seen l1 ∧ GoodFrom A (seen ++ l1) l2
  | [], l2, seen => by simp [GoodFrom]
  | e :: l1, l2, seen => by
    simp only [List.cons_append, GoodFrom, goodFrom_append A l1 l2 (seen ++ [e]), and_assoc,
      List.append_assoc, List.nil_append]

/-- the state part of the trace invariant: no connection, no authentication; and an authenticated
    connection has seen the authentication request and its acceptance -/
def AuthInv (A : List Msg) (st : CState) (l : List Ev) : Prop :=
  (st.conn = none → st.authed = false) ∧
  (∀ n q, st.conn = some (n, q) → st.authed = true → .sent n A ∈ l ∧ .granted n ∈ l)

theorem connected_trace (cred : Cred) (n : Nat) (q : List Tok) (a : Bool) (c : Nat) (reqs : List Msg) (sc : Script)
    (l : List Ev)
    (ha : a = true → .sent n (authRequest cred.user cred.password) ∈ l ∧ .granted n ∈ l) :
    GoodFrom (authRequest cred.user cred.password) l (connected cred ⟨some (n, q), a, c⟩ reqs sc).2.2 ∧
    AuthInv (authRequest cred.user cred.password) (connected cred ⟨some (n, q), a, c⟩ reqs sc).1
      (l ++ (connected cred ⟨some (n, q), a, c⟩ reqs sc).2.2) := by
  rcases connected_cases cred n q a c reqs sc with
    ⟨_, ⟨e', he, hR⟩ | hR | ⟨e', hR⟩ | ⟨m, ms, rest, hq, hR⟩⟩ |
    ⟨pre, q1, hpre, hu⟩
  · simp [hR, GoodFrom, AuthInv]
  · simp [hR, GoodFrom, AuthInv, SentOK]
  · simp [hR, GoodFrom, AuthInv, SentOK]
  · simp [hR, GoodFrom, AuthInv, SentOK]
  · rcases hpre with ⟨ha', rfl, _⟩ | ⟨_, rfl, _⟩
    · obtain ⟨h1, h2⟩ := ha ha'
      rcases hu with ⟨e', he, hR⟩ | ⟨hp, hR⟩ | hR | ⟨e', hR⟩ | ⟨m, ms', rest, hq, hR⟩ <;>
      simp [hR, GoodFrom, AuthInv, SentOK, h1, h2]
    · rcases hu with ⟨e', he, hR⟩ | ⟨hp, hR⟩ | hR | ⟨e', hR⟩ | ⟨m, ms', rest, hq, hR⟩ <;>
      simp [hR, GoodFrom, AuthInv, SentOK]

theorem authInv_mono {A : List Msg} {st : CState} {l : List Ev} (h : AuthInv A st l) (ev : List Ev) :
    AuthInv A st (l ++ ev) :=
  ⟨h.1, fun n q hc ha => ⟨List.mem_append_left _ (h.2 n q hc ha).1, List.mem_append_left _ (h.2 n q hc ha).2⟩⟩

theorem sendMultiple_trace (cred : Cred) (st : CState) (reqs : List Msg) (sc : Script) (l : List Ev)
    (h : AuthInv (authRequest cred.user cred.password) st l) :
    GoodFrom (authRequest cred.user cred.password) l (sendMultiple cred st reqs sc).2.2 ∧
    AuthInv (authRequest cred.user cred.password) (sendMultiple cred st reqs sc).1
      (l ++ (sendMultiple cred st reqs sc).2.2) := by
  rcases sendMultiple_cases cred st reqs sc with ⟨hc, _, hR⟩ | ⟨n, q, c', pre, hpre, hR⟩
  · rw [hR]; exact ⟨by simp [GoodFrom, SentOK], authInv_mono h _⟩
  · rw [hR]
    rcases hpre with ⟨hc, rfl, _⟩ | ⟨hc, _, _, _, rfl, _⟩
    · have := connected_trace cred n q st.authed c' reqs sc l (h.2 n q hc)
      simpa using this
    · have := connected_trace cred n q st.authed c' reqs sc (l ++ [.dial true])
        (fun ha => by simp [h.1 hc] at ha)
      simpa [goodFrom_append, GoodFrom, SentOK] using this

theorem send_state_events (cred : Cred) (st : CState) (req : Msg) (sc : Script) :
    (send cred st req sc).1 = (sendMultiple cred st [req] sc).1 ∧
    (send cred st req sc).2.2 = (sendMultiple cred st [req] sc).2.2 := by
  rcases hs : sendMultiple cred st [req] sc with ⟨st', r, ev⟩
  cases r with
  | ok l => cases l <;> simp [send, hs]
  | err e => simp [send, hs]
  | panic => simp [send, hs]

theorem step_send_state_events (cred : Cred) (st : CState) (req : Msg) (sc : Script) :
    (step cred st (.send req sc)).1 = (sendMultiple cred st [req] sc).1 ∧
    (step cred st (.send req sc)).2.2 = (sendMultiple cred st [req] sc).2.2 := by
  rw [← (send_state_events cred st req sc).1, ← (send_state_events cred st req sc).2]
  rcases hs : send cred st req sc with ⟨st', r, ev⟩
  cases r <;> simp [step, hs]

theorem step_trace (cred : Cred) (st : CState) (c : Call) (l : List Ev)
    (h : AuthInv (authRequest cred.user cred.password) st l) :
    GoodFrom (authRequest cred.user cred.password) l (step cred st c).2.2 ∧
    AuthInv (authRequest cred.user cred.password) (step cred st c).1 (l ++ (step cred st c).2.2) := by
  cases c with
  | sendMultiple reqs sc => exact sendMultiple_trace cred st reqs sc l h
  | send req sc =>
    rw [(step_send_state_events cred st req sc).1, (step_send_state_events cred st req sc).2]
    exact sendMultiple_trace cred st [req] sc l h
  | disconnect =>
    obtain ⟨conn, a, c⟩ := st
    cases conn with
    | none => simp [step, disconnect_none, GoodFrom, AuthInv]
    | some p =>
      obtain ⟨n, q⟩ := p
      simp [step, disconnect_some, GoodFrom, AuthInv, SentOK]

theorem runCalls_trace (cred : Cred) : ∀ (cs : List Call) (st : CState) (l : List Ev),
    AuthInv (authRequest cred.user cred.password) st l →
    GoodFrom (authRequest cred.user cred.password) l (((runCalls cred st cs).map (·.2)).flatten)
  | [], _, _, _ => by simp [runCalls, GoodFrom]
  | c :: cs, st, l, h => by
    obtain ⟨h1, h2⟩ := step_trace cred st c l h
    have ih := runCalls_trace cred cs (step cred st c).1 _ h2
    simp only [runCalls, List.map_cons, List.flatten_cons, goodFrom_append]
    exact ⟨h1, ih⟩

theorem authInv_init (A : List Msg) : AuthInv A {} [] := by simp [AuthInv]

/-- reading the trace property off at one position -/
theorem goodFrom_at {A : List Msg} {pre post : List Ev} {n : Nat} {ms : List Msg}
    (h : GoodFrom A [] (pre ++ .sent n ms :: post)) :
    ms = A ∨ (.sent n A ∈ pre ∧ .granted n ∈ pre) := by
  rw [goodFrom_append] at h
  simpa [GoodFrom, SentOK] using h.2.1

/-! ## C08: cleanliness of every call -/

theorem step_clean (cred : Cred) (st : CState) (c : Call) (h : ∀ n q, st.conn = some (n, q) → q = [])
    (n' : Nat) (q' : List Tok) (h' : (step cred st c).1.conn = some (n', q')) : q' = [] := by
  cases c with
  | sendMultiple reqs sc => exact sendMultiple_clean cred st reqs sc h n' q' h'
  | send req sc =>
    rw [(step_send_state_events cred st req sc).1] at h'
    exact sendMultiple_clean cred st [req] sc h n' q' h'
  | disconnect =>
    obtain ⟨conn, a, c⟩ := st
    cases conn with
    | none => simp [step, disconnect_none] at h'
    | some p => obtain ⟨n, q⟩ := p; simp [step, disconnect_some] at h'

theorem disconnect_conn_authed (st : CState) : (disconnect st).1.conn = none ∧ (disconnect st).1.authed = false := by
  obtain ⟨conn, a, c⟩ := st
  cases conn with
  | none => simp [disconnect_none]
  | some p => obtain ⟨n, q⟩ := p; simp [disconnect_some]

/-! ## non-vacuity of the hypotheses the property theorems add -/

-- `hcred` of `C08.recovery`: short credentials give a valid authentication request
example : validateRequests (authRequest [1, 2, 3] [4, 5]) = .ok () := by
  rw [validateRequests_authRequest]; simp

-- `hgo` of `C09.no_panic`: an ordinary request is a Go value
example : Call.GoVals (.sendMultiple [.mk 1 14 (.msgs [.mk 2 13 (.str []), .mk 3 3 (.num .u8 1)])] {}) := by
  simp [Call.GoVals, GoMsgs, GoMsg, GoVal, Kind.width]

-- the junk value that makes the unguarded `no_panic` false
example : validateRequests [.mk 1 14 (.num .msgs 0)] = .panic := by rfl

end Rscp.Model
