import Rscp.Spec.JsonReq
import Rscp.Props.C14
import Rscp.Lemmas.Client
