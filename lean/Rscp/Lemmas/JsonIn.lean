import Rscp.Spec.JsonReq
import Rscp.Props.C14
import Rscp.Lemmas.Client
import Rscp.Lemmas.Encode
/-
Helper lemmas for C12 (`Props/C12.lean`): the JSON request parsers of `Model/JsonIn.lean` against the writing
relation `Spec/JsonReq.lean`.
-/
namespace Rscp.Lemmas.JsonIn
open Rscp Rscp.Model Rscp.Spec

theorem fromUTF8_strBytes (s : String) : String.fromUTF8? (ByteArray.mk (strBytes s).toArray) = some s := by
  have h : ByteArray.mk (strBytes s).toArray = s.toByteArray := by
    unfold strBytes
    rw [Lemmas.Vocab.byteArray_toList, String.toUTF8_eq_toByteArray, Array.toArray_toList]
  rw [h, String.fromUTF8?, dif_pos s.isValidUTF8]
  rfl

theorem tagOfJ_of_writes (t : Nat) (j : J) (h : WritesTag t j) : tagOfJ j = some t ∧ j ≠ .null := by
  cases h with
  | name s h =>
    refine ⟨?_, by intro h; cases h⟩
    simp only [tagOfJ, fromUTF8_strBytes, tagUnmarshalStr, h]
  | number h =>
    refine ⟨?_, by intro h; cases h⟩
    have h' : (t : Int) < 4294967296 := by omega
    simp [tagOfJ, h']
  | decimal h hu =>
    refine ⟨?_, by intro h; cases h⟩
    simp only [tagOfJ, fromUTF8_strBytes, Lemmas.Vocab.json_tag_roundtrip_unknown t h]

theorem dataTypeOfJ_of_writes (d : Nat) (j : J) (h : WritesType d j) : dataTypeOfJ j = some d := by
  obtain ⟨s, h1, h2, rfl⟩ := h
  simp only [dataTypeOfJ, fromUTF8_strBytes, h1, h2, if_true]


theorem nek_none : newEmptyKind Gen.C.None = .nil := by decide
theorem nek_time : newEmptyKind Gen.C.Timestamp = .time := by decide
theorem nek_bytes : newEmptyKind Gen.C.ByteArray = .bytes := by decide
theorem nek_msgs : newEmptyKind Gen.C.Container = .msgs := by decide

theorem newNumber_int (lib : JsonLib) (dt : Nat) (k : Kind) (d : Dec)
    (hk : newEmptyKind dt = k) (hw : k.width.isSome) (hf : k ≠ .f32 ∧ k ≠ .f64) :
    newNumber lib dt d = match d.toInt? with
      | some n => if k.inRange n then some (.num k n) else none
      | none => none := by
  unfold newNumber
  rw [hk]
  cases k <;> first | rfl | (simp [Kind.width] at hw; done) | (simp at hf; done)

theorem byteArrayOfJ_map (bs : List Byte) :
    byteArrayOfJ (bs.map fun b => J.num { m := b.toNat, e := 0, plain := true }) = some bs := by
  induction bs with
  | nil => rfl
  | cons b bs ih =>
    have hb := b.toNat_lt
    have h1 : (b.toNat : Int) < 256 := by omega
    simp [byteArrayOfJ, Dec.toInt?, ih, h1]

theorem leaf_read (lib : JsonLib) (dt : Nat) (v : Val) (j : J) (h : WritesLeaf lib dt v j)
    (hn : dt ≠ Gen.C.None) : leafValueOfJ lib dt j = some v := by
  cases h with
  | bool b h =>
    have h1 : dt ≠ Gen.C.Timestamp := by intro e; subst e; rw [nek_time] at h; cases h
    have h2 : dt ≠ Gen.C.ByteArray := by intro e; subst e; rw [nek_bytes] at h; cases h
    simp [leafValueOfJ, hn, h1, h2, genericVal]
  | int k n d hk hw hf hr hd =>
    have h1 : dt ≠ Gen.C.Timestamp := by intro e; subst e; rw [nek_time] at hk; subst hk; simp [Kind.width] at hw
    have h2 : dt ≠ Gen.C.ByteArray := by intro e; subst e; rw [nek_bytes] at hk; subst hk; simp [Kind.width] at hw
    simp only [leafValueOfJ, hn, h1, h2, if_false]
    rw [newNumber_int lib dt k d hk hw hf, show d.toInt? = some n from hd]
    simp [hr]
  | f32 d bits hk h =>
    have h1 : dt ≠ Gen.C.Timestamp := by intro e; subst e; rw [nek_time] at hk; cases hk
    have h2 : dt ≠ Gen.C.ByteArray := by intro e; subst e; rw [nek_bytes] at hk; cases hk
    simp [leafValueOfJ, hn, h1, h2, newNumber, hk, h]
  | f64 d bits hk h =>
    have h1 : dt ≠ Gen.C.Timestamp := by intro e; subst e; rw [nek_time] at hk; cases hk
    have h2 : dt ≠ Gen.C.ByteArray := by intro e; subst e; rw [nek_bytes] at hk; cases hk
    simp [leafValueOfJ, hn, h1, h2, newNumber, hk, h]
  | str s h =>
    have h1 : dt ≠ Gen.C.Timestamp := by intro e; subst e; rw [nek_time] at h; cases h
    have h2 : dt ≠ Gen.C.ByteArray := by intro e; subst e; rw [nek_bytes] at h; cases h
    simp [leafValueOfJ, hn, h1, h2, genericVal]
  | bytes bs h =>
    subst h
    have h1 : Gen.C.ByteArray ≠ Gen.C.Timestamp := by decide
    simp only [leafValueOfJ, hn, h1, if_false, if_true, byteArrayOfJ_map]
    rfl
  | time txt s ns h hp =>
    subst h
    simp [leafValueOfJ, hn, hp]


theorem mem_sizeFields (kv : List Byte × J) (kvs : List (List Byte × J)) (h : kv ∈ kvs) :
    kv.2.size ≤ J.sizeFields kvs := by
  induction kvs with
  | nil => cases h
  | cons a r ih =>
    obtain ⟨a1, a2⟩ := a
    simp only [J.sizeFields]
    cases h with
    | head => simp
    | tail _ h => have := ih h; omega

theorem fieldOf_size (n : List Byte) (kvs : List (List Byte × J)) (v : J) (h : fieldOf n kvs = some v) :
    v.size ≤ J.sizeFields kvs := by
  unfold fieldOf at h
  cases hf : kvs.reverse.find? (fun kv => kv.1.map lowerByte = n.map lowerByte) with
  | none => rw [hf] at h; cases h
  | some kv =>
    rw [hf] at h
    have hm := List.mem_of_find?_eq_some hf
    have hm' : kv ∈ kvs := by simpa using hm
    have := mem_sizeFields kv kvs hm'
    cases h
    exact this

theorem msgOfObject_step (lib : JsonLib) (f : Nat) (kvs : List (List Byte × J)) (tj : J) (t d : Nat) (v : Val)
    (hT : fieldOf (strBytes "tag") kvs = some tj) (hnull : tj ≠ .null) (ht : tagOfJ tj = some t)
    (hD : (fieldOf (strBytes "datatype") kvs = none ∧ d = tagDataType t) ∨
      (∃ dj, fieldOf (strBytes "datatype") kvs = some dj ∧ WritesType d dj))
    (hV : (d ≠ Gen.C.Container ∧ ((fieldOf (strBytes "value") kvs = none ∧ v = .nil) ∨
        (∃ vj, fieldOf (strBytes "value") kvs = some vj ∧ leafValueOfJ lib d vj = some v))) ∨
      (d = Gen.C.Container ∧ ∃ xs ms, fieldOf (strBytes "value") kvs = some (.arr xs) ∧
        msgsOfObjects lib f xs = .ok ms ∧ v = .msgs ms))
    (hval : validateMsg (.mk t d v) = .ok ()) :
    msgOfObject lib (f+1) (.obj kvs) = .ok (.mk t d v) := by
  unfold strBytes at hT hD hV
  rw [msgOfObject]
  simp only [hT]
  cases tj with
  | null => exact absurd rfl hnull
  | _ =>
    simp only [ht]
    rcases hD with ⟨h1, h2⟩ | ⟨dj, h1, s, h2, h3, rfl⟩
    · subst h2
      simp only [h1]
      rcases hV with ⟨hc, ⟨h1, h2⟩ | ⟨vj, h1, h2⟩⟩ | ⟨hc, xs, ms, h1, h2, h3⟩
      · subst h2; simp only [hc, if_false, h1, hval]
      · simp only [hc, if_false, h1, h2, outcomeOfOpt, hval]
      · subst h3; simp only [hc, if_true, h1, h2]; rw [← hc, hval]
    · simp only [h1, fromUTF8_strBytes, h2, outcomeOfOpt]
      rcases hV with ⟨hc, ⟨h1, h2⟩ | ⟨vj, h1, h2⟩⟩ | ⟨hc, xs, ms, h1, h2, h3⟩
      · subst h2; simp only [hc, if_false, h1, hval]
      · simp only [hc, if_false, h1, h2, hval]
      · subst h3; simp only [hc, if_true, h1, h2]; rw [← hc, hval]


theorem writes_true_obj (lib : JsonLib) (m : Msg) (j : J) (h : Writes lib true m j) : ∃ kvs, j = .obj kvs := by
  cases h with
  | objectNoValue => exact ⟨_, rfl⟩
  | objectValue => exact ⟨_, rfl⟩

/-- the object notation, at every depth: fuel `4·size` for one object, `4·size + 1` for a list -/
theorem object_read (lib : JsonLib) : ∀ f : Nat,
    (∀ o m kvs, Writes lib o m (.obj kvs) → validateMsg m = .ok () → 4 * (J.obj kvs).size ≤ f →
      msgOfObject lib f (.obj kvs) = .ok m) ∧
    (∀ ms js, WritesList lib true ms js → validateMsgs ms = .ok () → 4 * J.sizeList js + 1 ≤ f →
      msgsOfObjects lib f js = .ok ms) := by
  intro f
  induction f with
  | zero =>
    constructor
    · intro o m kvs _ _ hf; simp only [J.size] at hf; omega
    · intro ms js _ _ hf; omega
  | succ f ih =>
    obtain ⟨ih1, ih2⟩ := ih
    constructor
    · intro o m kvs h hv hf
      simp only [J.size] at hf
      match h with
      | .bare t _ ht => cases ht
      | .objectNoValue _ t d _ tj ht hT hD hV hc =>
        obtain ⟨ht1, ht2⟩ := tagOfJ_of_writes t tj ht
        exact msgOfObject_step lib f kvs tj t d .nil hT ht2 ht1 hD (Or.inl ⟨hc, Or.inl ⟨hV, rfl⟩⟩) hv
      | .objectValue _ t d v _ tj vj ht hT hD hV hw =>
        obtain ⟨ht1, ht2⟩ := tagOfJ_of_writes t tj ht
        refine msgOfObject_step lib f kvs tj t d v hT ht2 ht1 hD ?_ hv
        match hw with
        | .leaf _ _ _ _ hc hn hl =>
          exact Or.inl ⟨hc, Or.inr ⟨vj, hV, leaf_read lib d v vj hl hn⟩⟩
        | .container _ _ ms js hc hl =>
          refine Or.inr ⟨hc, js, ms, hV, ?_, rfl⟩
          have hsz := fieldOf_size _ _ _ hV
          simp only [J.size] at hsz
          exact ih2 ms js hl ((validateMsg_inv t d _ hv).2.2 ms rfl) (by omega)
    · intro ms js h hv hf
      match h with
      | .nil _ => rfl
      | .cons _ m ms j js h ht =>
        obtain ⟨kvs, rfl⟩ := writes_true_obj lib m j h
        obtain ⟨hv1, hv2⟩ := validateMsgs_cons m ms hv
        simp only [J.sizeList] at hf
        have hj : 1 ≤ (J.obj kvs).size := by simp only [J.size]; omega
        rw [msgsOfObjects, ih1 true m kvs h hv1 (by omega), ih2 ms js ht hv2 (by omega)]

theorem J.size_pos (j : J) : 1 ≤ j.size := by
  cases j <;> simp only [J.size] <;> omega

theorem requestOfJ_bare (lib : JsonLib) (f : Nat) (t : Nat) (j : J) (h : WritesTag t j) :
    requestOfJ lib (f+1) j = .ok (.mk t (tagDataType t) .nil) := by
  have ht := (tagOfJ_of_writes t j h).1
  cases h with
  | name s h => rw [requestOfJ]; simp only [ht]
  | number h =>
    rw [requestOfJ]
    have : ¬ ((t : Int) < 0) := by omega
    simp only [ht, this, if_false]
  | decimal h hu => rw [requestOfJ]; simp only [ht]

theorem request_read (lib : JsonLib) : ∀ f : Nat,
    (∀ o m j, Writes lib o m j → validateMsg m = .ok () → 4 * j.size + 1 ≤ f → requestOfJ lib f j = .ok m) ∧
    (∀ o ms js, WritesList lib o ms js → validateMsgs ms = .ok () → 4 * J.sizeList js + 2 ≤ f →
      requestListOfJ lib f js = .ok ms) := by
  intro f
  induction f using Nat.strongRecOn with
  | ind f ih =>
    have hval : ∀ g, g < f → ∀ o dt v vj t, WritesValue lib o dt v vj → validateMsg (.mk t dt v) = .ok () →
        4 * vj.size + 3 ≤ g → valueOfJ lib g dt vj = .ok v := by
      intro g hg o dt v vj t hw hv hsz
      obtain ⟨g, rfl⟩ : ∃ g', g = g' + 1 := ⟨g - 1, by omega⟩
      match hw with
      | .leaf _ _ _ _ hc hn hl =>
        rw [valueOfJ]; simp only [hc, if_false, leaf_read lib dt v vj hl hn, outcomeOfOpt]
      | .container _ _ ms js hc hl =>
        simp only [J.size] at hsz
        obtain ⟨g, rfl⟩ : ∃ g', g = g' + 1 := ⟨g - 1, by omega⟩
        rw [valueOfJ]; simp only [hc, if_true]
        rw [requestsOfJ]
        rw [(ih g (by omega)).2 _ ms js hl ((validateMsg_inv t dt _ hv).2.2 ms rfl) (by omega)]
    constructor
    · intro o m j h hv hf
      have hp := J.size_pos j
      obtain ⟨g, rfl⟩ : ∃ g', f = g' + 1 := ⟨f - 1, by omega⟩
      match h with
      | .bare t _ ht => exact requestOfJ_bare lib g t j ht
      | .tuple1 t tj ht =>
        rw [requestOfJ]; simp only [(tagOfJ_of_writes t tj ht).1]
      | .tuple2t t d tj dj ht hd =>
        rw [requestOfJ]; simp only [(tagOfJ_of_writes t tj ht).1, dataTypeOfJ_of_writes d dj hd]
      | .tuple2v t v tj vj ht hw hn =>
        have h1 := J.size_pos tj
        simp only [J.size, J.sizeList] at hf
        rw [requestOfJ]; simp only [(tagOfJ_of_writes t tj ht).1, hn]
        rw [hval g (by omega) _ _ _ _ t hw hv (by omega)]
      | .tuple3 t d v tj dj vj ht hd hw =>
        have h1 := J.size_pos tj
        simp only [J.size, J.sizeList] at hf
        rw [requestOfJ]; simp only [(tagOfJ_of_writes t tj ht).1, dataTypeOfJ_of_writes d dj hd]
        rw [hval g (by omega) _ _ _ _ t hw hv (by omega)]
      | .objectNoValue _ t d kvs tj ht hT hD hV hc =>
        simp only [requestOfJ]
        exact (object_read lib g).1 o _ kvs (.objectNoValue o t d kvs tj ht hT hD hV hc) hv (by omega)
      | .objectValue _ t d v kvs tj vj ht hT hD hV hw =>
        simp only [requestOfJ]
        exact (object_read lib g).1 o _ kvs (.objectValue o t d v kvs tj vj ht hT hD hV hw) hv (by omega)
    · intro o ms js h hv hf
      obtain ⟨g, rfl⟩ : ∃ g', f = g' + 1 := ⟨f - 1, by omega⟩
      match h with
      | .nil _ => rfl
      | .cons _ m ms j js h ht =>
        obtain ⟨hv1, hv2⟩ := validateMsgs_cons m ms hv
        simp only [J.sizeList] at hf
        have hj := J.size_pos j
        rw [requestListOfJ, (ih g (by omega)).1 o m j h hv1 (by omega), (ih g (by omega)).2 o ms js ht hv2 (by omega)]

/-! ## totality -/

theorem validateMsg_leaf_ne_panic (t dt : Nat) (v : Val) (hc : dt ≠ Gen.C.Container) :
    validateMsg (.mk t dt v) ≠ .panic := by
  intro h
  cases v <;> simp only [validateMsg, hc, if_false] at h <;> (repeat' split at h) <;> cases h

theorem validateMsg_msgs_ne_panic (t dt : Nat) (ms : List Msg) (hv : validateMsgs ms = .ok ()) :
    validateMsg (.mk t dt (.msgs ms)) ≠ .panic := by
  intro h
  simp only [validateMsg, hv] at h
  (repeat' split at h) <;> cases h

theorem msgOfObject_valid (lib : JsonLib) (f : Nat) (j : J) (m : Msg) (h : msgOfObject lib f j = .ok m) :
    validateMsg m = .ok () := by
  cases f with
  | zero => rw [msgOfObject] at h; cases h
  | succ f =>
    cases j with
    | obj kvs =>
      simp only [msgOfObject] at h
      repeat' split at h
      all_goals first | (cases h; done) | skip
      next h1 _ _ h2 => cases h; exact h2
    | _ => simp only [msgOfObject] at h; cases h


theorem msgsOfObjects_valid (lib : JsonLib) : ∀ (f : Nat) (js : List J) (ms : List Msg),
    msgsOfObjects lib f js = .ok ms → validateMsgs ms = .ok ()
  | 0, _, _, h => by rw [msgsOfObjects] at h; cases h
  | f+1, [], ms, h => by rw [msgsOfObjects] at h; cases h; rfl
  | f+1, j :: js, ms, h => by
    rw [msgsOfObjects] at h
    cases h1 : msgOfObject lib f j with
    | ok m =>
      cases h2 : msgsOfObjects lib f js with
      | ok ms' =>
        simp only [h1, h2] at h
        cases h
        simp only [validateMsgs, msgOfObject_valid lib f j m h1]
        exact msgsOfObjects_valid lib f js ms' h2
      | err e => simp only [h1, h2] at h; cases h
      | panic => simp only [h1, h2] at h; cases h
    | err e => simp only [h1] at h; cases h
    | panic => simp only [h1] at h; cases h

theorem outcomeOfOpt_ne_panic {α} (x : Option α) : outcomeOfOpt x ≠ .panic := by
  cases x <;> (intro h; cases h)

theorem object_total (lib : JsonLib) : ∀ f : Nat,
    (∀ j, 4 * j.size ≤ f → msgOfObject lib f j ≠ .panic) ∧
    (∀ js, 4 * J.sizeList js + 1 ≤ f → msgsOfObjects lib f js ≠ .panic) := by
  intro f
  induction f with
  | zero =>
    exact ⟨fun j hf => by have := J.size_pos j; omega, fun js hf => by omega⟩
  | succ f ih =>
    obtain ⟨ih1, ih2⟩ := ih
    constructor
    · intro j hf h
      cases j with
      | obj kvs =>
        simp only [msgOfObject] at h
        repeat' split at h
        all_goals first | (cases h; done) | skip
        · next hd =>
          repeat' split at hd
          all_goals first | (cases hd; done) | exact outcomeOfOpt_ne_panic _ hd
        · next hvR =>
          split at hvR
          · cases hvj : fieldOf "value".toUTF8.toList kvs with
            | none => simp only [hvj] at hvR; cases hvR
            | some vj =>
              cases vj with
              | arr xs =>
                have hsz := fieldOf_size _ _ _ hvj
                simp only [J.size] at hsz hf
                have := ih2 xs (by omega)
                cases hm : msgsOfObjects lib f xs with
                | panic => exact this hm
                | ok ms => simp only [hvj, hm] at hvR; cases hvR
                | err e => simp only [hvj, hm] at hvR; cases hvR
              | _ => simp only [hvj] at hvR; cases hvR
          · repeat' split at hvR
            all_goals first | (cases hvR; done) | exact outcomeOfOpt_ne_panic _ hvR
        · next hvR _ hval =>
          split at hvR
          · next hc =>
            subst hc
            cases hvj : fieldOf "value".toUTF8.toList kvs with
            | none => simp only [hvj] at hvR; cases hvR
            | some vj =>
              cases vj with
              | arr xs =>
                cases hm : msgsOfObjects lib f xs with
                | ok ms =>
                  simp only [hvj, hm] at hvR; cases hvR
                  exact validateMsg_msgs_ne_panic _ _ ms (msgsOfObjects_valid lib f xs ms hm) hval
                | panic => simp only [hvj, hm] at hvR; cases hvR
                | err e => simp only [hvj, hm] at hvR; cases hvR
              | null =>
                simp only [hvj] at hvR; cases hvR
                exact validateMsg_msgs_ne_panic _ _ [] rfl hval
              | _ => simp only [hvj] at hvR; cases hvR
          · next hc => exact validateMsg_leaf_ne_panic _ _ _ hc hval
      | _ => simp only [msgOfObject] at h; cases h
    · intro js hf h
      cases js with
      | nil => rw [msgsOfObjects] at h; cases h
      | cons j js =>
        simp only [J.sizeList] at hf
        have hj := J.size_pos j
        have h1 := ih1 j (by omega)
        have h2 := ih2 js (by omega)
        rw [msgsOfObjects] at h
        cases hm : msgOfObject lib f j with
        | panic => exact h1 hm
        | err e => simp only [hm] at h; cases h
        | ok m =>
          cases hms : msgsOfObjects lib f js with
          | panic => exact h2 hms
          | err e => simp only [hm, hms] at h; cases h
          | ok ms => simp only [hm, hms] at h; cases h


theorem request_total (lib : JsonLib) : ∀ f : Nat,
    (∀ j, 4 * j.size + 1 ≤ f → requestOfJ lib f j ≠ .panic) ∧
    (∀ js, 4 * J.sizeList js + 2 ≤ f → requestListOfJ lib f js ≠ .panic) := by
  intro f
  induction f using Nat.strongRecOn with
  | ind f ih =>
    have hV : ∀ g, g < f → ∀ dt j, 4 * j.size + 3 ≤ g → valueOfJ lib g dt j ≠ .panic := by
      intro g hg dt j hsz h
      obtain ⟨g, rfl⟩ : ∃ g', g = g' + 1 := ⟨g - 1, by omega⟩
      rw [valueOfJ] at h
      split at h
      · obtain ⟨g, rfl⟩ : ∃ g', g = g' + 1 := ⟨g - 1, by omega⟩
        cases j with
        | arr xs =>
          simp only [J.size] at hsz
          have := (ih g (by omega)).2 xs (by omega)
          rw [requestsOfJ] at h
          cases hm : requestListOfJ lib g xs with
          | panic => exact this hm
          | ok ms => simp only [hm] at h; cases h
          | err e => simp only [hm] at h; cases h
        | _ => simp only [requestsOfJ] at h; cases h
      · exact outcomeOfOpt_ne_panic _ h
    constructor
    · intro j hf h
      have hp := J.size_pos j
      obtain ⟨g, rfl⟩ : ∃ g', f = g' + 1 := ⟨f - 1, by omega⟩
      cases j with
      | arr t =>
        match t with
        | [] => rw [requestOfJ] at h; cases h
        | [tj] => rw [requestOfJ] at h; split at h <;> cases h
        | [tj, x] =>
          have h1 := J.size_pos tj
          simp only [J.size, J.sizeList] at hf
          rw [requestOfJ] at h
          repeat' split at h
          all_goals first | (cases h; done) | (rename_i hm; exact hV g (by omega) _ _ (by omega) hm)
        | [tj, x, y] =>
          have h1 := J.size_pos tj
          have h2 := J.size_pos x
          simp only [J.size, J.sizeList] at hf
          rw [requestOfJ] at h
          repeat' split at h
          all_goals first | (cases h; done) | (rename_i hm; exact hV g (by omega) _ _ (by omega) hm)
        | a :: b :: c :: d :: r => simp only [requestOfJ] at h; cases h
      | str s => rw [requestOfJ] at h; split at h <;> cases h
      | num d => rw [requestOfJ] at h; split at h; (cases h); split at h <;> cases h
      | obj kvs =>
        simp only [requestOfJ] at h
        exact (object_total lib g).1 _ (by omega) h
      | null =>
        simp only [requestOfJ] at h
        exact (object_total lib g).1 _ (by omega) h
      | bool b =>
        simp only [requestOfJ] at h
        exact (object_total lib g).1 _ (by omega) h
    · intro js hf h
      obtain ⟨g, rfl⟩ : ∃ g', f = g' + 1 := ⟨f - 1, by omega⟩
      cases js with
      | nil => rw [requestListOfJ] at h; cases h
      | cons j js =>
        simp only [J.sizeList] at hf
        have hj := J.size_pos j
        have h1 := (ih g (by omega)).1 j (by omega)
        have h2 := (ih g (by omega)).2 js (by omega)
        rw [requestListOfJ] at h
        cases hm : requestOfJ lib g j with
        | panic => exact h1 hm
        | err e => simp only [hm] at h; cases h
        | ok m =>
          cases hms : requestListOfJ lib g js with
          | panic => exact h2 hms
          | err e => simp only [hm, hms] at h; cases h
          | ok ms => simp only [hm, hms] at h; cases h

theorem requests_total (lib : JsonLib) (j : J) (f : Nat) (hf : 4 * j.size + 2 ≤ f) : requestsOfJ lib f j ≠ .panic := by
  intro h
  obtain ⟨g, rfl⟩ : ∃ g', f = g' + 1 := ⟨f - 1, by omega⟩
  cases j with
  | arr xs =>
    rw [requestsOfJ] at h
    simp only [J.size] at hf
    exact (request_total lib g).2 xs (by omega) h
  | _ => simp only [requestsOfJ] at h; cases h

end Rscp.Lemmas.JsonIn
