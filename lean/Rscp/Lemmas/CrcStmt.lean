/-
Statement-level vocabulary for the CRC theorems of C04 (definitions only, core Lean).
-/
import Rscp.Model.Crc
namespace Rscp.Crc

/-- byte-wise xor of two byte strings (the error pattern `e` applied to `a`) -/
def xorBytes (a e : List Byte) : List Byte := List.zipWith (· ^^^ ·) a e

/-- All set bits of the bit string lie inside a window of at most 32 consecutive positions,
    and there is at least one set bit. Positions are wire order: byte index, then
    least-significant bit first — the order in which CRC-32 consumes the bits. -/
def IsBurst (eb : List Bool) : Prop :=
  ∃ (k : Nat) (burst : List Bool) (m : Nat),
    eb = List.replicate k false ++ burst ++ List.replicate m false ∧ burst.length ≤ 32 ∧ true ∈ burst

/-- number of set bits -/
def weight (eb : List Bool) : Nat := eb.count true

/-- A data‖trailer pair passes the CRC gate: the 4-byte little-endian trailer equals the
    CRC-32 of the data. -/
def Valid (d t : List Byte) : Prop := t.length = 4 ∧ leNat t = crc32 d

end Rscp.Crc
