/-
Helper lemmas for C01c and C03b: `Read` with an emptied buffer (the caller's other variables do not matter),
and one-shot decoding of the block-aligned prefixes of an accepted frame (what the decoder answers while a
well-formed frame arrives in pieces). Core Lean only in this file.
-/
import Rscp.Lemmas.Decode
import Rscp.Lemmas.CrcPieces
namespace Rscp.Lemmas.Pieces
open Rscp Rscp.Model Rscp.Lemmas.Decode

/-! ### `Read` with an empty buffer -/

/-- two decoder states answer alike from here on: they are the same, or both have an empty buffer -/
def Alike (s t : RState) : Prop := s = t ∨ (s.buf = [] ∧ t.buf = [])

/-- One call, on any data at all (also data `Read` refuses, also data too short for a header): with an empty
    buffer the answer does not depend on the other variables, and the states left behind are alike again. -/
theorem readPlain_emptied (s t : RState) (hs : s.buf = []) (ht : t.buf = []) (data : List Byte) :
    (readPlain s data).2 = (readPlain t data).2 ∧ Alike (readPlain s data).1 (readPlain t data).1 := by
  cases hb : Gen.Leaf.Read_badChunk (data.length : Int)
  · unfold readPlain
    simp only [hb, Bool.false_eq_true, if_false, hs, ht, List.isEmpty_nil, if_true]
    cases hh : readHeader data with
    | ok p =>
      obtain ⟨cf, fs, ds⟩ := p
      exact ⟨rfl, Or.inl rfl⟩
    | err e => exact ⟨rfl, Or.inl rfl⟩
    | panic => exact ⟨rfl, Or.inr ⟨hs, ht⟩⟩
  · rw [readPlain_bad s data hb, readPlain_bad t data hb]
    exact ⟨rfl, Or.inr ⟨hs, ht⟩⟩

theorem readPlain_alike (s t : RState) (h : Alike s t) (data : List Byte) :
    (readPlain s data).2 = (readPlain t data).2 ∧ Alike (readPlain s data).1 (readPlain t data).1 := by
  rcases h with rfl | ⟨hs, ht⟩
  · exact ⟨rfl, Or.inl rfl⟩
  · exact readPlain_emptied s t hs ht data

theorem readChunks_alike : ∀ (chunks : List (List Byte)) (s t : RState), Alike s t →
    readChunks s chunks = readChunks t chunks
  | [], _, _, _ => rfl
  | c :: cs, s, t, h => by
    obtain ⟨h1, h2⟩ := readPlain_alike s t h c
    rw [readChunks_cons, readChunks_cons, h1, readChunks_alike cs _ _ h2]

/-! ### block-aligned prefixes of an accepted frame -/

/-- an accepted frame has a header `readHeader` accepts, it covers the size that header announces, only zeros
    follow, and the frame proper decodes to the messages -/
theorem ok_facts {p : List Byte} (hg : GoodChunk p) {ms : List Msg} (h : decodeFrame p = .ok ms) :
    ∃ cf fs ds, readHeader p = .ok (cf, fs, ds) ∧ fs ≤ p.length ∧ (p.drop fs).all (· == 0) = true ∧
      decodeComplete (p.take fs) cf fs ds = .ok ms := by
  have h18 : 18 ≤ p.length := by have := hg.1; omega
  cases hh : readHeader p with
  | ok t =>
    obtain ⟨cf, fs, ds⟩ := t
    refine ⟨cf, fs, ds, rfl, ?_⟩
    rw [decodeFrame_eq_frameResult hg hh] at h
    unfold frameResult at h
    by_cases hlt : p.length < fs
    · rw [if_pos hlt] at h; cases h
    · rw [if_neg hlt] at h
      cases hz : (p.drop fs).all (· == 0)
      · rw [hz] at h; simp at h
      · rw [hz, if_pos rfl] at h
        exact ⟨Nat.le_of_not_lt hlt, rfl, h⟩
  | err e =>
    unfold decodeFrame at h
    rw [readPlain_empty {} p rfl hg, hh] at h
    cases h
  | panic => exact absurd hh (readHeader_ne_panic h18)

/-- a block-aligned prefix has the header of the whole -/
theorem readHeader_take (p : List Byte) (n : Nat) (h18 : 18 ≤ n) (hnp : n ≤ p.length) :
    readHeader (p.take n) = readHeader p := by
  have hl : (p.take n).length = n := List.length_take_of_le hnp
  conv => rhs; rw [← List.take_append_drop n p]
  rw [readHeader_append _ _ (by omega)]

/-- One-shot decoding of a block-aligned prefix of an accepted frame, by the frame size `fs` its header
    announces: short of it the answer is "incomplete", from it on the answer is the messages. -/
theorem decodeFrame_take {p : List Byte} (hg : GoodChunk p) {ms : List Msg} (h : decodeFrame p = .ok ms)
    (n : Nat) (h32 : 32 ≤ n) (hmod : n % 32 = 0) (hnp : n ≤ p.length) :
    ∃ cf fs ds, readHeader p = .ok (cf, fs, ds) ∧
      decodeFrame (p.take n) = if n < fs then .err .invalidFrameLength else .ok ms := by
  obtain ⟨cf, fs, ds, hh, hle, hz, hd⟩ := ok_facts hg h
  refine ⟨cf, fs, ds, hh, ?_⟩
  have hl : (p.take n).length = n := List.length_take_of_le hnp
  have hgq : GoodChunk (p.take n) := by unfold GoodChunk; rw [hl]; exact ⟨h32, hmod⟩
  have hhq : readHeader (p.take n) = .ok (cf, fs, ds) := by rw [readHeader_take p n (by omega) hnp, hh]
  rw [decodeFrame_eq_frameResult hgq hhq]
  unfold frameResult
  rw [hl]
  by_cases hlt : n < fs
  · rw [if_pos hlt, if_pos hlt]
  · rw [if_neg hlt, if_neg hlt]
    have hzq : ((p.take n).drop fs).all (· == 0) = true := by
      rw [List.drop_take, List.all_eq_true]
      rw [List.all_eq_true] at hz
      exact fun x hx => hz x (List.mem_of_mem_take hx)
    rw [hzq, if_pos rfl, CrcPieces.take_take_le p n fs (by omega), hd]

/-- the frame size `readHeader` hands back, in the vocabulary of the frame grammar -/
theorem readHeader_ok_size {data : List Byte} {cf : Bool} {fs ds : Nat} (h18 : 18 ≤ data.length)
    (h : readHeader data = .ok (cf, fs, ds)) :
    fs = 18 + leNat ((data.drop 16).take 2) +
      (if (leNat ((data.drop 2).take 2) >>> 12) &&& 1 = 1 then 4 else 0) := by
  rw [readHeader_eq data h18] at h
  split at h
  · cases h
  · split at h
    · cases h
    · split at h
      · cases h
      · simp only [Res.ok.injEq, Prod.mk.injEq] at h
        exact h.2.1.symm

/-! ### a well-formed frame in block-aligned pieces -/

/-- the answer of the `j`-th call while all earlier ones said "incomplete": by the announced frame size -/
theorem piece_answer (p : List Byte) (hg : GoodChunk p) (ms : List Msg) (h : decodeFrame p = .ok ms)
    (chunks : List (List Byte)) (hch : ∀ c ∈ chunks, 32 ≤ c.length ∧ c.length % 32 = 0)
    (hflat : chunks.flatten = p)
    (j : Nat) (hj : j < chunks.length)
    (hprev : ∀ i, i < j → (readChunks {} chunks)[i]? = some (.err .invalidFrameLength)) :
    ∃ cf fs ds, readHeader p = .ok (cf, fs, ds) ∧
      (readChunks {} chunks)[j]? =
        some (if (chunks.take (j+1)).flatten.length < fs then .err .invalidFrameLength else .ok ms) := by
  obtain ⟨n, h32, hnmod, hnq, hpre⟩ := CrcPieces.chunks_prefix chunks hch p hflat j hj
  obtain ⟨cf, fs, ds, hh, hd⟩ := decodeFrame_take hg h n h32 hnmod hnq
  refine ⟨cf, fs, ds, hh, ?_⟩
  rw [chunking_aux chunks hch j hj hprev, hpre, hd, List.length_take_of_le hnq]

theorem last_piece (p : List Byte) (ms : List Msg) (h : decodeFrame p = .ok ms)
    (chunks : List (List Byte)) (hch : ∀ c ∈ chunks, 32 ≤ c.length ∧ c.length % 32 = 0)
    (hflat : chunks.flatten = p) (hne : chunks ≠ [])
    (hprev : ∀ i, i < chunks.length - 1 →
      (readChunks {} chunks)[i]? = some (.err .invalidFrameLength)) :
    (readChunks {} chunks)[chunks.length - 1]? = some (.ok ms) := by
  have hpos : 0 < chunks.length := List.length_pos_iff.mpr hne
  rw [chunking_aux chunks hch (chunks.length - 1) (by omega) hprev]
  have : chunks.length - 1 + 1 = chunks.length := by omega
  rw [this, List.take_length, hflat, h]

/-- up to any position: either all answers so far were "incomplete", or the first other answer was the messages -/
theorem first_answer (p : List Byte) (hg : GoodChunk p) (ms : List Msg) (h : decodeFrame p = .ok ms)
    (chunks : List (List Byte)) (hch : ∀ c ∈ chunks, 32 ≤ c.length ∧ c.length % 32 = 0)
    (hflat : chunks.flatten = p) :
    ∀ k, k ≤ chunks.length →
      (∀ i, i < k → (readChunks {} chunks)[i]? = some (.err .invalidFrameLength)) ∨
      ∃ j, j < k ∧ (∀ i, i < j → (readChunks {} chunks)[i]? = some (.err .invalidFrameLength)) ∧
        (readChunks {} chunks)[j]? = some (.ok ms)
  | 0, _ => Or.inl fun i hi => absurd hi (Nat.not_lt_zero i)
  | k+1, hk => by
    rcases first_answer p hg ms h chunks hch hflat k (by omega) with hall | ⟨j, hjk, hpre, hok⟩
    · obtain ⟨cf, fs, ds, _, hans⟩ := piece_answer p hg ms h chunks hch hflat k (by omega) hall
      by_cases hlt : (chunks.take (k+1)).flatten.length < fs
      · rw [if_pos hlt] at hans
        left
        intro i hi
        by_cases hik : i < k
        · exact hall i hik
        · have : i = k := by omega
          subst this; exact hans
      · rw [if_neg hlt] at hans
        exact Or.inr ⟨k, by omega, hall, hans⟩
    · exact Or.inr ⟨j, by omega, hpre, hok⟩

end Rscp.Lemmas.Pieces
