/-
Driver side of the JSON streams: token form of JSON trees, the concrete library parameters
(correctly rounded decimal→binary conversion, RFC 3339 time stamps) and the ops `jin`/`jout`.
-/
import Rscp.Wire
import Rscp.Model.JsonIn
import Rscp.Model.JsonOut
open Rscp Rscp.Wire Rscp.Model
namespace Driver

/-! ### JSON tree tokens: `null` `true` `false` `n:<m>:<e>:<p>` `s:<hex>` `[` … `]` `{` `k:<hex>` value … `}` -/

mutual
def parseJ : Nat → List String → Option (J × List String)
  | 0, _ => none
  | f+1, toks =>
    match toks with
    | "null" :: r => some (.null, r)
    | "true" :: r => some (.bool true, r)
    | "false" :: r => some (.bool false, r)
    | "[" :: r => do
      let (xs, r') ← parseJList f r
      pure (.arr xs, r')
    | "{" :: r => do
      let (kvs, r') ← parseJFields f r
      pure (.obj kvs, r')
    | t :: r =>
      if t.startsWith "s:" then do pure (.str (← bytesOfHex (t.drop 2).toString), r)
      else if t.startsWith "n:" then
        match (t.drop 2).toString.splitOn ":" with
        | [m, e, p] => do pure (.num { m := ← m.toInt?, e := ← e.toInt?, plain := p == "1" }, r)
        | _ => none
      else none
    | [] => none
def parseJList : Nat → List String → Option (List J × List String)
  | 0, _ => none
  | f+1, toks =>
    match toks with
    | "]" :: r => some ([], r)
    | _ => do
      let (x, r1) ← parseJ f toks
      let (xs, r2) ← parseJList f r1
      pure (x :: xs, r2)
def parseJFields : Nat → List String → Option (List (List Byte × J) × List String)
  | 0, _ => none
  | f+1, toks =>
    match toks with
    | "}" :: r => some ([], r)
    | k :: r =>
      if k.startsWith "k:" then do
        let kb ← bytesOfHex (k.drop 2).toString
        let (v, r1) ← parseJ f r
        let (kvs, r2) ← parseJFields f r1
        pure ((kb, v) :: kvs, r2)
      else none
    | [] => none
end

/-! ### correctly rounded decimal → binary floating point (`strconv.ParseFloat`) -/

/-- round-half-even of `n / d` -/
def divRoundEven (n d : Nat) : Nat :=
  let q := n / d
  let r := n % d
  if 2 * r < d then q else if 2 * r > d then q + 1 else if q % 2 = 0 then q else q + 1

/-- `p` = precision in bits incl. the hidden bit, `ebits` = width of the exponent field -/
def toFloatBits (p ebits : Nat) (d : Dec) : Option Nat :=
  let total := p + ebits          -- 32 or 64
  let signBit := if d.m < 0 then 2 ^ (total - 1) else 0
  let a := d.m.natAbs
  if a = 0 then some signBit else
  let (n, den) := if d.e ≥ 0 then (a * 10 ^ d.e.toNat, 1) else (a, 10 ^ (-d.e).toNat)
  let bias : Int := 2 ^ (ebits - 1) - 1
  let emin : Int := 1 - bias
  -- k with 2^k ≤ n/den < 2^(k+1)
  let k0 : Int := (Nat.log2 n : Int) - (Nat.log2 den : Int)
  let ge (k : Int) : Bool := if k ≥ 0 then n ≥ den * 2 ^ k.toNat else n * 2 ^ (-k).toNat ≥ den
  let k : Int := if ge k0 then (if ge (k0 + 1) then k0 + 1 else k0) else k0 - 1
  let kk : Int := if k < emin then emin else k
  let shift : Int := kk - (p - 1 : Nat)
  let q := if shift ≥ 0 then divRoundEven n (den * 2 ^ shift.toNat) else divRoundEven (n * 2 ^ (-shift).toNat) den
  let (q, kk) := if q = 2 ^ p then (2 ^ (p - 1), kk + 1) else (q, kk)
  if kk > bias then none else
  if q < 2 ^ (p - 1) then some (signBit + q)      -- subnormal (or zero)
  else some (signBit + ((kk + bias).toNat) * 2 ^ (p - 1) + (q - 2 ^ (p - 1)))

/-! ### RFC 3339 -/

def digitsVal (cs : List Char) : Option Nat :=
  if cs.isEmpty || !cs.all Char.isDigit then none else some (cs.foldl (fun a c => 10 * a + (c.toNat - 48)) 0)

/-- days since 1970-01-01 of a proleptic Gregorian date -/
def daysFromCivil (y m d : Int) : Int :=
  let y := if m ≤ 2 then y - 1 else y
  let era := (if y ≥ 0 then y else y - 399) / 400
  let yoe := y - era * 400
  let mp := (m + 9) % 12
  let doy := (153 * mp + 2) / 5 + d - 1
  let doe := yoe * 365 + yoe / 4 - yoe / 100 + doy
  era * 146097 + doe - 719468

def isLeap (y : Nat) : Bool := (y % 4 = 0 && y % 100 ≠ 0) || y % 400 = 0
def daysIn (y m : Nat) : Nat :=
  if m = 2 then (if isLeap y then 29 else 28) else if m = 4 || m = 6 || m = 9 || m = 11 then 30 else 31

def parseRfc3339 (bs : List Byte) : Option (Int × Int) :=
  match String.fromUTF8? (ByteArray.mk bs.toArray) with
  | none => none
  | some s =>
    let cs := s.toList
    if cs.length < 20 then none else
    let num (a b : Nat) := digitsVal ((cs.drop a).take (b - a))
    let ch (i : Nat) := cs.getD i ' '
    if ch 4 != '-' || ch 7 != '-' || ch 10 != 'T' || ch 13 != ':' || ch 16 != ':' then none else
    match num 0 4, num 5 7, num 8 10, num 11 13, num 14 16, num 17 19 with
    | some y, some mo, some d, some h, some mi, some sec =>
      if mo < 1 || mo > 12 || d < 1 || d > daysIn y mo || h > 23 || mi > 59 || sec > 59 then none else
      let rest := cs.drop 19
      let (fracDigits, rest) := match rest with
        | '.' :: r => (r.takeWhile Char.isDigit, r.dropWhile Char.isDigit)
        | r => ([], r)
      if (rest.take 1 != ['.'] ) && (cs.getD 19 ' ' == '.') && fracDigits.isEmpty then none else
      let nsec := ((fracDigits.take 9 ++ List.replicate (9 - min 9 fracDigits.length) '0').foldl (fun a c => 10 * a + (c.toNat - 48)) 0)
      let off : Option Int := match rest with
        | ['Z'] => some 0
        | [sg, a, b, ':', c, e] =>
          match digitsVal [a, b], digitsVal [c, e] with
          | some oh, some om =>
            if oh > 23 || om > 59 then none
            else if sg == '+' then some ((oh * 3600 + om * 60 : Nat) : Int)
            else if sg == '-' then some (-((oh * 3600 + om * 60 : Nat) : Int)) else none
          | _, _ => none
        | _ => none
      match off with
      | none => none
      | some o =>
        some (daysFromCivil y mo d * 86400 + (h * 3600 + mi * 60 + sec : Nat) - o, nsec)
    | _, _, _, _, _, _ => none

def driverLib : JsonLib where
  toFloat := fun bits d => if bits = 32 then toFloatBits 24 8 d else toFloatBits 53 11 d
  parseTime := parseRfc3339
  coerce := fun k d =>
    match k with
    | .bool => some (.bool (d.m != 0))
    | _ => none

def jinLine (toks : List String) : String :=
  match parseJ (toks.length + 1) toks with
  | some (j, []) =>
    match requestsOfJ driverLib (4 * j.size + 4) j with
    | .ok ms =>
      "ok " ++ msgsToString ms ++ " ; send=" ++ (match validateRequests ms with | .ok () => "ok" | .err e => "err " ++ errName e | .panic => "panic")
    | .err _ => "err"
    | .panic => "panic"
  | _ => "bad-op"

end Driver

namespace Driver
open Rscp.Model

mutual
def showJO : JO → List String
  | .null => ["null"]
  | .bool b => [if b then "true" else "false"]
  | .int n => [s!"i:{n}"]
  | .flt => ["F"]
  | .str s => ["s:" ++ hexOfBytes s]
  | .tim s ns => [s!"T:{s}:{ns}"]
  | .arr xs => "[" :: showJOs xs
  | .obj kvs => "{" :: showJOFields kvs
def showJOs : List JO → List String
  | [] => ["]"]
  | x :: xs => showJO x ++ showJOs xs
def showJOFields : List (String × JO) → List String
  | [] => ["}"]
  | (k, v) :: r => ("k:" ++ hexOfBytes k.toUTF8.toList) :: showJO v ++ showJOFields r
end

def joutLine (fmt : String) (toks : List String) : String :=
  match parseMsgsAll toks with
  | some (ms, []) =>
    let r := match fmt with
      | "json" => fmtJson ms
      | "jsonsimple" => fmtSimple ms
      | _ => fmtMerged ms
    match r with
    | some j => "ok " ++ " ".intercalate (showJO j)
    | none => "err"
  | _ => "bad-op"

end Driver
