/-
Driver side of the `hist` stream: parse a history of client calls with their peer scripts, run the
token-level client model, print result and events of every call.
-/
import Rscp.Wire
import Rscp.Model.Client
open Rscp Rscp.Wire Rscp.Model

namespace Driver

def errOfName : String → Option ErrClass
  | "invalidMagic" => some .invalidMagic | "invalidControl" => some .invalidControl
  | "versionMismatch" => some .versionMismatch | "invalidFrameLength" => some .invalidFrameLength
  | "invalidCrc" => some .invalidCrc | "dataLimit" => some .dataLimit | "invalidDataType" => some .invalidDataType
  | "eof" => some .eof | "typeMismatch" => some .typeMismatch | "notARequest" => some .notARequest
  | "io" => some .io | "auth" => some .auth | "other" => some .other
  | _ => none

def parseExtras : Nat → List String → Option (List (List Msg) × List String)
  | 0, toks => some ([], toks)
  | k+1, toks => do
    let (ms, r) ← parseMsgsAll toks
    let (rest, r') ← parseExtras k r
    pure (ms :: rest, r')

def parseReply : List String → Option (Reply × List String)
  | "X" :: r => some (.ioFail, r)
  | "F" :: r => do
    let (ms, r') ← parseMsgsAll r
    pure (.frame ms, r')
  | "P" :: e :: k :: r => do
    let ec ← errOfName e
    let kk ← k.toNat?
    let (ex, r') ← parseExtras kk r
    pure (.protoErr ec ex, r')
  | _ => none

def parseCall (toks : List String) : Option Call :=
  match toks with
  | ["D"] => some .disconnect
  | kind :: d :: w :: r => do
    let (a, r1) ← parseReply r
    let (u, r2) ← parseReply r1
    let (ms, r3) ← parseMsgsAll r2
    if !r3.isEmpty then none else
    let sc : Script := { dialOk := d == "1", writeOk := w == "1", auth := a, user := u }
    match kind, ms with
    | "S", _ => some (.sendMultiple ms sc)
    | "s", [m] => some (.send m sc)
    | _, _ => none
  | _ => none

def showEv : Ev → String
  | .dial ok => if ok then "dial1" else "dial0"
  | .sent c ms => s!"sent {c} {msgsToString ms}"
  | .closed c => s!"closed {c}"
  | .granted _ => ""

def showCallResult (r : Res (List Msg) × List Ev) : String :=
  resToString msgsToString r.1 ++ " @ " ++ " , ".intercalate ((r.2.map showEv).filter (· != ""))

def runHist (line : String) : String :=
  match line.splitOn " | " with
  | hd :: calls =>
    match hd.splitOn " " with
    | ["hist", u, p] =>
      match bytesOfHex u, bytesOfHex p, calls.mapM (fun c => parseCall (c.splitOn " ")) with
      | some ub, some pb, some cs =>
        " | ".intercalate ((runCalls { user := ub, password := pb } {} cs).map showCallResult)
      | _, _, _ => "bad-op"
    | _ => "bad-op"
  | _ => "bad-op"

end Driver
