import Rscp.Wire
import Rscp.Model.Builder
open Rscp Rscp.Wire Rscp.Model
namespace Driver

def parseArg (s : String) : Option Arg :=
  match s.splitOn " " with
  | ["T", n] => n.toNat?.map .tag
  | ["D", n] => n.toNat?.map .dtConst
  | "V" :: toks =>
    match parseVal (toks.length + 1) toks with
    | some (v, []) => some (.val v)
    | _ => none
  | _ => none

def parseArgs (s : String) : Option (List Arg) :=
  if s.isEmpty then some [] else (s.splitOn " , ").mapM parseArg

def errNameB : ErrClass → String
  | e => errName e

def runBuild (line : String) : String :=
  if line == "build" || line == "build " then resToString (fun m => msgsToString [m]) (createRequest []) else
  match parseArgs (line.drop 6).toString with
  | some args => resToString (fun m => msgsToString [m]) (createRequest args)
  | none => "bad-op"

def runBuilds (line : String) : String :=
  match line.splitOn " ; " with
  | hd :: lists =>
    let lists := if hd == "builds 0" then [] else lists
    match lists.mapM parseArgs with
    | some ls => resToString msgsToString (createRequests ls)
    | none => "bad-op"
  | _ => "bad-op"

end Driver
