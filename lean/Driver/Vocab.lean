import Rscp.Wire
import Rscp.Model.Vocab
import Rscp.Model.Codec
import Rscp.Model.Builder
open Rscp Rscp.Wire Rscp.Model
namespace Driver

def b01 (b : Bool) : String := if b then "1" else "0"

def tagLine (t : Nat) : String :=
  let nameS := lookup t Gen.tagMap
  let name := match nameS with | some s => hexOfBytes s.toUTF8.toList | none => "-"
  let js := match nameS with | some s => s | none => toString t
  let back := match tagUnmarshalStr js with | some n => toString n | none => "err"
  s!"known={b01 (isATag t)} name={name} dt={tagDataType t} req={b01 (Gen.Leaf.isRequest t)} resp={b01 (Gen.Leaf.isResponse t)} json={hexOfBytes ("\"" ++ js ++ "\"").toUTF8.toList} back={back}"

def optN : Option Nat → String
  | some n => s!"some {n}"
  | none => "none"

def tagStrLine (h : String) : String :=
  match bytesOfHex h with
  | none => "bad-op"
  | some bs =>
    match String.fromUTF8? (ByteArray.mk bs.toArray) with
    | none => "bad-op"
    | some s => s!"string={optN (tagString? s)} json={optN (tagUnmarshalStr s)}"

def allKinds : List Kind := [.nil, .bool, .i8, .u8, .i16, .u16, .i32, .u32, .i64, .u64, .f32, .f64, .str, .bytes, .time, .rerr, .msgs, .other]

def dtLine (d : Nat) : String :=
  let defined := isDataType d
  let name := match dataTypeName? d with | some s => if defined then hexOfBytes s.toUTF8.toList else "-" | none => "-"
  let empty := kindName (newEmptyKind d)
  let valid := match lookup d Gen.validateKind with
    | none => ""
    | some k => ",".intercalate ((allKinds.filter (fun x => x == k && x != Kind.other)).map kindName)
  let nw := match lookup d Gen.newConvKind with | some k => kindName k | none => "panic"
  let back := match dataTypeName? d with
    | some s => if defined then (match dataTypeString? s with | some n => toString n | none => "err") else "err"
    | none => "err"
  s!"defined={b01 defined} name={name} len={dtLength d} empty={empty} valid={valid} new={nw} back={back}"

def codesLine : String :=
  if Gen.tagMap.map (fun p => (p.1, nameCode p.2)) == Gen.tagMapC &&
     Gen.tagNameToValue.map (fun p => (nameCode p.1, p.2)) == Gen.tagNameToValueC then "codes-ok" else "codes-differ"

end Driver
