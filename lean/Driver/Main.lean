/-
Line-protocol driver: executes the Lean model and specification on the operations the Go
harness writes, one result line per input line. Imports no Mathlib (links as an executable).
-/
import Rscp.Wire
import Rscp.Model.Codec
import Rscp.Spec.Frame
import Driver.Hist
import Driver.Build
import Driver.Vocab
import Driver.Timing
import Driver.Log
import Driver.Json
import Driver.Cli
import Rscp.Model.JsonOut
import Rscp.Model.Receive
import Rscp.Model.Config
import Rscp.Props.C05Defs
open Rscp Rscp.Wire

def optMsgs : Option (List Msg) → String
  | some ms => "some " ++ msgsToString ms
  | none => "none"

def parseHexList : List String → Option (List (List Byte))
  | [] => some []
  | h :: r => do
    let a ← bytesOfHex h
    let b ← parseHexList r
    pure (a :: b)

/-- operands of `decsa` (`Model.readChunksAbandon`): `X` stands for an abandoned frame -/
def parseHexOrX : List String → Option (List (Option (List Byte)))
  | [] => some []
  | "X" :: r => do
    let b ← parseHexOrX r
    pure (none :: b)
  | h :: r => do
    let a ← bytesOfHex h
    let b ← parseHexOrX r
    pure (some a :: b)

def step (line : String) : String :=
  if line.startsWith "hist " then Driver.runHist line else
  if line.startsWith "cli " then Driver.cliLine line else
  if line.startsWith "dl " then Driver.runDl line else
  if line.startsWith "builds " then Driver.runBuilds line else
  if line.startsWith "build" then Driver.runBuild line else
  match line.splitOn " " with
  | ["dec", h] =>
    match bytesOfHex h with
    | some bs => resToString msgsToString (Model.decodeFrame bs)
    | none => "bad-op"
  | "decs" :: hs =>
    match parseHexList hs with
    | some cs => " | ".intercalate ((Model.readChunks {} cs).map (resToString msgsToString))
    | none => "bad-op"
  | "decsa" :: hs =>
    match parseHexOrX hs with
    | some cs => " | ".intercalate ((Model.readChunksAbandon {} cs).map (resToString msgsToString))
    | none => "bad-op"
  | ["spec", h] =>
    match bytesOfHex h with
    | some bs => optMsgs (Spec.specDecode bs)
    | none => "bad-op"
  | "enc" :: crc :: sec :: nsec :: toks =>
    match parseMsgsAll toks, sec.toInt?, nsec.toInt? with
    | some (ms, []), some s, some ns =>
      resToString hexOfBytes (Model.writePlain ms (crc == "1") s ns)
    | _, _, _ => "bad-op"
  | "val" :: toks =>
    match parseMsgsAll toks with
    | some (ms, []) => resToString (fun _ => "") (Model.validateRequests ms)
    | _ => "bad-op"
  | "recv" :: b :: hs =>
    match b.toNat?, parseHexList hs with
    | some bb, some segs =>
      let eff := if Gen.Leaf.check_bufBlocksUnset bb then (Model.dflt "ReceiveBufferBlockSize").toNat else bb
      let out := Model.receiveBytes eff segs
      resToString msgsToString out.result ++ " ; disc=" ++ (if out.disconnected then "1" else "0")
    | _, _ => "bad-op"
  | ["cfg", a, port, u, pw, k, hb, ct, st, rt, cs, buf] =>
    match bytesOfHex a, port.toNat?, bytesOfHex u, bytesOfHex pw, bytesOfHex k, hb.toInt?, ct.toInt?, st.toInt?, rt.toInt?, buf.toNat? with
    | some ab, some p, some ub, some pb, some kb, some h, some c, some sd, some r, some b =>
      let cso : Model.CsOpt := match cs with | "U" => .unset | "T" => .bool true | "F" => .bool false | _ => .otherType
      let cfg : Model.Config := Model.Config.mk ab p ub pb kb h c sd r cso b
      let res := match Model.checkConfig cfg with
        | .ok c' =>
          let csS := match c'.useChecksum with | .bool true => "T" | .bool false => "F" | .unset => "U" | .otherType => "O"
          " ".intercalate ["ok", toString c'.port, toString c'.heartbeat, toString c'.connTimeout, toString c'.sendTimeout,
            toString c'.recvTimeout, csS, toString c'.bufBlocks, hexOfBytes (Model.mkKey c'.key)]
        | .missing fs => "missing " ++ ",".intercalate fs
        | .badChecksumType => "badcs"
      let nc := match Model.newClient cfg with | .ok _ => "ok" | .err _ => "err" | .panic => "panic"
      res ++ " ; new=" ++ nc
    | _, _, _, _, _, _, _, _, _, _ => "bad-op"
  | "send" :: crc :: sec :: nsec :: toks =>
    match parseMsgsAll toks, sec.toInt?, nsec.toInt? with
    | some (ms, []), some s, some ns =>
      match Props.C05.clientSend (crc == "1") s ns ms with
      | .ok p => "ok " ++ hexOfBytes p
      | .err e => "err " ++ errName e
      | .panic => "panic"
    | _, _, _ => "bad-op"
  | ["tag", n] => match n.toNat? with | some t => Driver.tagLine t | none => "bad-op"
  | ["tagstr", h] => Driver.tagStrLine h
  | ["dt", n] => match n.toNat? with | some d => Driver.dtLine d | none => "bad-op"
  | ["codes"] => Driver.codesLine
  | ["skip"] => "skip"
  | "jin" :: toks => Driver.jinLine toks
  | "jout" :: fmt :: toks => Driver.joutLine fmt toks
  | "render" :: toks => Driver.renderLine toks
  | ["logwin", l] => Driver.logwinLine l
  | ["bound", ct, st, rt] => Driver.runBound ct st rt
  | ["crc", h] =>
    match bytesOfHex h with
    | some bs => toString (Crc.crc32 bs)
    | none => "bad-op"
  | _ => "bad-op"

partial def loop (hin : IO.FS.Stream) (hout : IO.FS.Stream) : IO Unit := do
  let line ← hin.getLine
  if line.isEmpty then return ()
  let l := if line.endsWith "\n" then (line.dropEnd 1).toString else line
  hout.putStrLn (step l)
  loop hin hout

def main : IO Unit := do
  let hin ← IO.getStdin
  let hout ← IO.getStdout
  loop hin hout
