/-
Line-protocol driver: executes the Lean model and specification on the operations the Go
harness writes, one result line per input line. Imports no Mathlib (links as an executable).
-/
import Rscp.Wire
import Rscp.Model.Codec
import Rscp.Spec.Frame
import Driver.Hist
open Rscp Rscp.Wire

def optMsgs : Option (List Msg) → String
  | some ms => "some " ++ msgsToString ms
  | none => "none"

def parseHexList : List String → Option (List (List Byte))
  | [] => some []
  | h :: r => do
    let a ← bytesOfHex h
    let b ← parseHexList r
    pure (a :: b)

def step (line : String) : String :=
  if line.startsWith "hist " then Driver.runHist line else
  match line.splitOn " " with
  | ["dec", h] =>
    match bytesOfHex h with
    | some bs => resToString msgsToString (Model.decodeFrame bs)
    | none => "bad-op"
  | "decs" :: hs =>
    match parseHexList hs with
    | some cs => " | ".intercalate ((Model.readChunks {} cs).map (resToString msgsToString))
    | none => "bad-op"
  | ["spec", h] =>
    match bytesOfHex h with
    | some bs => optMsgs (Spec.specDecode bs)
    | none => "bad-op"
  | "enc" :: crc :: sec :: nsec :: toks =>
    match parseMsgsAll toks, sec.toInt?, nsec.toInt? with
    | some (ms, []), some s, some ns =>
      resToString hexOfBytes (Model.writePlain ms (crc == "1") s ns)
    | _, _, _ => "bad-op"
  | "val" :: toks =>
    match parseMsgsAll toks with
    | some (ms, []) => resToString (fun _ => "") (Model.validateRequests ms)
    | _ => "bad-op"
  | ["crc", h] =>
    match bytesOfHex h with
    | some bs => toString (Crc.crc32 bs)
    | none => "bad-op"
  | _ => "bad-op"

partial def loop (hin : IO.FS.Stream) (hout : IO.FS.Stream) : IO Unit := do
  let line ← hin.getLine
  if line.isEmpty then return ()
  let l := if line.endsWith "\n" then (line.dropEnd 1).toString else line
  hout.putStrLn (step l)
  loop hin hout

def main : IO Unit := do
  let hin ← IO.getStdin
  let hout ← IO.getStdout
  loop hin hout
