import Rscp.Wire
import Rscp.Model.Timing
import Driver.Hist
open Rscp Rscp.Wire Rscp.Model
namespace Driver

def effTimeouts (ct st rt : Int) : Option Config :=
  let c : Config := Config.mk [97] 0 [117] [112] [107] 0 ct st rt .unset 0
  match checkConfig c with
  | .ok c' => some c'
  | _ => none

def ms (ns : Int) : String := toString (ns / 1000000)

def showBlk (c : Config) : Blk → String
  | .dial => "D" ++ ms c.connTimeout
  | .write => "W" ++ ms c.sendTimeout ++ " w"
  | .recv => "R" ++ ms c.recvTimeout ++ " r+"

/-- `dl <ct> <st> <rt> | <call>`: one SendMultiple on a connection that is already attached -/
def runDl (line : String) : String :=
  match line.splitOn " | " with
  | [hd, call] =>
    match hd.splitOn " " with
    | ["dl", ct, st, rt] =>
      match ct.toInt?, st.toInt?, rt.toInt?, parseCall (call.splitOn " ") with
      | some c, some s, some r, some (.sendMultiple reqs sc) =>
        match effTimeouts c s r with
        | some cfg =>
          let st0 : CState := { conn := some (0, []), authed := false, conns := 1 }
          let out := sendMultipleIO { user := [117], password := [112] } st0 reqs sc
          let res := match out.1.2.1 with | .ok _ => "ok" | .err _ => "err" | .panic => "panic"
          res ++ " : " ++ " ".intercalate (out.2.map (showBlk cfg))
        | none => "bad-config"
      | _, _, _, _ => "bad-op"
    | _ => "bad-op"
  | _ => "bad-op"

def runBound (ct st rt : String) : String :=
  match ct.toInt?, st.toInt?, rt.toInt? with
  | some c, some s, some r =>
    match effTimeouts c s r with
    | some cfg => "bound=" ++ toString (cfg.connTimeout + 2 * cfg.sendTimeout + 2 * cfg.recvTimeout)
    | none => "bad-config"
  | _, _, _ => "bad-op"

end Driver
