import Rscp.Model.Cli
import Driver.Hist
import Driver.Json
open Rscp Rscp.Wire Rscp.Model
namespace Driver

def parseReplies : Nat → List String → Option (List Reply × List String)
  | 0, toks => some ([], toks)
  | k+1, toks => do
    let (r, t1) ← parseReply toks
    let (rs, t2) ← parseReplies k t1
    pure (r :: rs, t2)

def cliLine (line : String) : String :=
  match line.splitOn " | " with
  | hd :: rest =>
    let jtoks := (" | ".intercalate rest).splitOn " "
    match hd.splitOn " " with
    | "cli" :: fl :: fmt :: sp :: u :: p :: "A" :: r =>
      match bytesOfHex fmt, bytesOfHex u, bytesOfHex p, parseReply r with
      | some fb, some ub, some pb, some (auth, r1) =>
        match r1 with
        | "R" :: k :: r2 =>
          match k.toNat? with
          | some kk =>
            match parseReplies kk r2 with
            | some (reps, _) =>
              let req : Option J := if jtoks == ["NOJSON"] then none else
                match parseJ (jtoks.length + 1) jtoks with | some (j, []) => some j | _ => none
              let flags : FlagOutcome := match fl with | "help" => .help | "version" => .version | "err" => .flagError | _ => .ok
              let env : CliEnv := { flags := flags, format := (String.fromUTF8? (ByteArray.mk fb.toArray)).getD "?", split := sp == "1",
                                    request := req, cred := { user := ub, password := pb }, authReply := auth, replies := reps, dialOk := fl != "ok-nodial" }
              let o := cliMain driverLib env
              let out := match o.stdout with | some j => " ".intercalate (showJO j) | none => "-"
              s!"status={o.status} stdout={out} stderr={if o.stderrNonEmpty then "1" else "0"} frames={o.frames.length} : " ++
                " , ".intercalate (o.frames.map msgsToString)
            | none => "bad-op"
          | none => "bad-op"
        | _ => "bad-op"
      | _, _, _, _ => "bad-op"
    | _ => "bad-op"
  | _ => "bad-op"

end Driver
