import Rscp.Wire
import Rscp.Model.Log
import Rscp.Model.Vocab
open Rscp Rscp.Wire Rscp.Model
namespace Driver

def tagS (t : Nat) : String := match lookup t Gen.tagMap with | some s => s | none => s!"Tag({t})"
def dtS (d : Nat) : String :=
  match (Gen.dataTypeNameToValue.find? (fun p => p.2 == d)) with | some p => p.1 | none => s!"DataType({d})"
def leafS : Val → String
  | .nil => "<nil>"
  | .bool b => if b then "true" else "false"
  | .num _ n => toString n
  | .str bs => (String.fromUTF8? (ByteArray.mk bs.toArray)).getD "?"
  | _ => "?"

def renderLine (toks : List String) : String :=
  match parseMsgsAll toks with
  | some (ms, []) => hexOfBytes ("[" ++ renderList tagS dtS leafS ms ++ "]").toUTF8.toList
  | _ => "bad-op"

def logwinLine (l : String) : String :=
  match l.toNat? with
  | some lv =>
    let w := authWindowLevel lv
    let n := (writeSites.filter (fun s => emitted w s.1)).length
    s!"window={w} write-records-before-auth={n}"
  | none => "bad-op"
end Driver
