//go:build verif

package rscp

// VerifErrInvalidDataType is the sentinel for items with an undefined data type. The check
// script selects this file when the package declares ErrRscpInvalidDataType and the `absent`
// variant otherwise, so that the harness still builds (and can exhibit the failing input)
// on a tree that lacks the sentinel.
var VerifErrInvalidDataType = ErrRscpInvalidDataType
