//go:build verif

package main

import (
	"crypto/cipher"

	"github.com/spali/go-rscp/rscp"
)

func verifDecode(plain []byte) ([]rscp.Message, error) {
	var mode cipher.BlockMode = verifIdentity{}
	var buf []byte
	var crcFlag bool
	var frameSize uint32
	var dataSize uint16
	return rscp.Read(&mode, &buf, &crcFlag, &frameSize, &dataSize, append([]byte{}, plain...))
}
