//go:build verif

// Verification hook for the e3dc command: injected at build time with `go build -tags verif -overlay …`
// (nothing of this is committed to the repository). When E3DC_VERIF_LOOP is set the process does not run the
// CLI but answers a line protocol on stdin/stdout that calls the JSON input and output functions of this
// package directly:
//
//	in <hex of request text>             → ok <messages> | err <class> | panic
//	out <format> <hex of plaintext frame> → ok <hex of JSON> | err | panic
package main

import (
	"bufio"
	"encoding/json"
	"errors"
	"fmt"
	"os"
	"strings"

	"github.com/spali/go-rscp/rscp"
)

type verifIdentity struct{}

func (verifIdentity) BlockSize() int              { return 32 }
func (verifIdentity) CryptBlocks(dst, src []byte) { copy(dst, src) }

func verifIn(h string) (res string) {
	defer func() {
		if r := recover(); r != nil {
			res = "panic"
		}
	}()
	b, err := unhex(h)
	if err != nil {
		return "bad-op"
	}
	ms, err := unmarshalJSONRequests(b)
	if err != nil {
		switch {
		case errors.Is(err, ErrInputNotAnArray):
			return "err notAnArray"
		case errors.Is(err, ErrInputInvalidTuple):
			return "err invalidTuple"
		}
		return "err " + errClass(err)
	}
	send := "ok"
	if err := rscp.VerifValidateRequests(ms); err != nil {
		send = "err " + errClass(err)
	}
	return "ok " + msgsString(ms) + " ; send=" + send
}

func verifOut(format, h string) (res string) {
	defer func() {
		if r := recover(); r != nil {
			res = "panic"
		}
	}()
	b, err := unhex(h)
	if err != nil {
		return "bad-op"
	}
	ms, err := verifDecode(b)
	if err != nil {
		return "bad-frame"
	}
	var out []byte
	switch format {
	case "json":
		out, err = json.Marshal(ms)
	case "jsonsimple":
		out, err = json.Marshal(NewJSONSimpleMessages(ms))
	case "jsonmerged":
		out, err = json.Marshal(NewJSONMergedMessages(ms))
	default:
		return "bad-op"
	}
	if err != nil {
		return "err"
	}
	return "ok " + hexOf(out)
}

func init() {
	if os.Getenv("E3DC_VERIF_LOOP") == "" {
		return
	}
	sc := bufio.NewScanner(os.Stdin)
	sc.Buffer(make([]byte, 1<<20), 1<<28)
	w := bufio.NewWriter(os.Stdout)
	for sc.Scan() {
		f := strings.Split(sc.Text(), " ")
		switch {
		case len(f) == 2 && f[0] == "in":
			fmt.Fprintln(w, verifIn(f[1]))
		case len(f) == 3 && f[0] == "out":
			fmt.Fprintln(w, verifOut(f[1], f[2]))
		default:
			fmt.Fprintln(w, "bad-op")
		}
		w.Flush()
	}
	os.Exit(0)
}
