//go:build verif

// Verification hooks: injected into package rscp at build time with
// `go build -tags verif -overlay …`; nothing of this is committed to the repository.
// They only expose unexported functions and let the harness attach an established
// connection to a client.
package rscp

import (
	"crypto/cipher"
	"net"

	"github.com/azihsoyn/rijndael256"
)

func VerifReadHeader(data []byte) (bool, uint32, uint16, error) { return readHeader(data) }
func VerifValidateRequests(ms []Message) error                  { return validateRequests(ms) }
func VerifValidate(m Message) error                             { return m.validate() }
func VerifCreateAESKey(k string) [32]byte                       { return createAESKey(k) }
func VerifNewIV() [32]byte                                      { return newIV() }
func VerifIsRequest(t Tag) bool                                 { return t.isRequest() }
func VerifIsResponse(t Tag) bool                                { return t.isResponse() }
func VerifIsSecret(t Tag) bool                                  { return t.isSecret() }
func VerifLength(d DataType) uint16                             { return d.length() }
func VerifNewEmpty(d DataType, s uint16) interface{}            { return d.newEmpty(s) }
func VerifIsValidValue(d DataType, v interface{}) bool          { return d.isValidValue(v) }
func VerifNew(d DataType, v interface{}) (interface{}, error)   { return d.new(v) }
func VerifWriteFrame(ms []Message, crc bool) ([]byte, error)    { return writeFrame(ms, crc) }
func VerifCheckConfig(c ClientConfig) (ClientConfig, error) {
	err := c.check()
	return c, err
}

// VerifAttachConn makes conn the client's connection, as connect() would after dialing.
func (c *Client) VerifAttachConn(conn net.Conn) {
	c.conn = conn
	key := createAESKey(c.config.Key)
	iv := newIV()
	cb, _ := rijndael256.NewCipher(key[:])
	c.encrypter = cipher.NewCBCEncrypter(cb, iv[:])
	c.decrypter = cipher.NewCBCDecrypter(cb, iv[:])
}

func (c *Client) VerifConfig() ClientConfig { return c.config }

// VerifConnString is the address the client dials
func (c *Client) VerifConnString() string { return c.connectionString }
