//go:build verif

package rscp

import "errors"

// see zz_verif_sentinel_present.go
var VerifErrInvalidDataType = errors.New("verif: package rscp declares no ErrRscpInvalidDataType")
