//go:build verif

package rscp

// VerifState on a tree whose Client has no isAuthenticated field (the check picks this file then, so that the
// harness still builds and can exhibit a failing history): such a tree equates "connected" with "authenticated".
func (c *Client) VerifState() (connected bool, authenticated bool) {
	return c.conn != nil, c.conn != nil
}
