//go:build verif

package rscp

// VerifState reports whether the client holds a connection and considers it authenticated.
func (c *Client) VerifState() (connected bool, authenticated bool) {
	return c.conn != nil, c.isAuthenticated
}
