package main

import (
	"fmt"
	"net"
	"os"
	"sync"
	"time"
)

// scriptConn is an in-memory net.Conn whose reads are scripted exactly: each Read returns the next piece
// (cut to the caller's buffer) of the current phase; the phase advances with every Write of the client.
// When the script of the current phase is used up, Read fails with a deadline error at once, so a call
// that would wait for the receive time-out returns immediately and deterministically.
type scriptConn struct {
	mu        sync.Mutex
	writes    [][]byte
	phases    [][][]byte // pieces delivered after the k-th write (k = 0 for the first)
	onWrite   func(k int, b []byte) [][]byte
	cur       [][]byte
	closed    bool
	reads     []int // sizes returned
	bufSizes  []int // len(p) of every Read call
	deadlines []deadlineCall
	now       func() time.Time
	log       []string // ordered: W<ms> / w / R<ms> / r
	failWrite bool
	// timeoutAt: the write with this index (0 = first) fails with a time-out after 0 bytes; later writes work again
	// (a full socket buffer that drains later). -1 = never.
	timeoutAt    int
	attempts     int
	timeoutBytes int // bytes the failing write accepts before it times out
	partial      []byte
	afterFault   [][]byte // what was written after the failed write
}

type deadlineCall struct {
	kind string // read | write
	d    time.Duration
	seq  int // number of I/O operations (reads+writes) before this call
}

func (c *scriptConn) Read(p []byte) (int, error) {
	c.mu.Lock()
	defer c.mu.Unlock()
	c.bufSizes = append(c.bufSizes, len(p))
	c.log = append(c.log, "r")
	if c.closed {
		return 0, net.ErrClosed
	}
	for len(c.cur) > 0 && len(c.cur[0]) == 0 {
		c.cur = c.cur[1:]
	}
	if len(c.cur) == 0 {
		return 0, os.ErrDeadlineExceeded
	}
	n := copy(p, c.cur[0])
	c.cur[0] = c.cur[0][n:]
	c.reads = append(c.reads, n)
	return n, nil
}

func (c *scriptConn) Write(p []byte) (int, error) {
	c.mu.Lock()
	defer c.mu.Unlock()
	c.log = append(c.log, "w")
	if c.closed || c.failWrite {
		return 0, net.ErrClosed
	}
	c.attempts++
	if c.timeoutAt > 0 && c.attempts == c.timeoutAt+1 {
		n := c.timeoutBytes
		if n > len(p) {
			n = len(p)
		}
		c.partial = append([]byte{}, p[:n]...)
		return n, os.ErrDeadlineExceeded
	}
	if c.timeoutAt > 0 && c.attempts > c.timeoutAt+1 {
		c.afterFault = append(c.afterFault, append([]byte{}, p...))
	}
	k := len(c.writes)
	c.writes = append(c.writes, append([]byte{}, p...))
	if c.onWrite != nil {
		c.cur = c.onWrite(k, p)
	} else if k < len(c.phases) {
		c.cur = c.phases[k]
	} else {
		c.cur = nil
	}
	return len(p), nil
}

func (c *scriptConn) Close() error {
	c.mu.Lock()
	defer c.mu.Unlock()
	c.closed = true
	return nil
}
func (c *scriptConn) LocalAddr() net.Addr  { return &net.TCPAddr{IP: net.IPv4(127, 0, 0, 1), Port: 1} }
func (c *scriptConn) RemoteAddr() net.Addr { return &net.TCPAddr{IP: net.IPv4(127, 0, 0, 1), Port: 2} }
func (c *scriptConn) SetDeadline(t time.Time) error {
	c.SetReadDeadline(t)
	return c.SetWriteDeadline(t)
}
func (c *scriptConn) SetReadDeadline(t time.Time) error {
	c.mu.Lock()
	defer c.mu.Unlock()
	c.deadlines = append(c.deadlines, deadlineCall{"read", time.Until(t), len(c.reads) + len(c.writes)})
	c.log = append(c.log, fmt.Sprintf("R%d", (time.Until(t)+5*time.Millisecond)/(10*time.Millisecond)*10))
	return nil
}
func (c *scriptConn) SetWriteDeadline(t time.Time) error {
	c.mu.Lock()
	defer c.mu.Unlock()
	c.deadlines = append(c.deadlines, deadlineCall{"write", time.Until(t), len(c.reads) + len(c.writes)})
	c.log = append(c.log, fmt.Sprintf("W%d", (time.Until(t)+5*time.Millisecond)/(10*time.Millisecond)*10))
	return nil
}
