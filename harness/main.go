// verifharness runs the real go-rscp code (built from /repo's working tree with the verif
// overlay) on generated cases and writes, line by line, the operation for the Lean driver
// (ops.txt), what the implementation did (impl.txt), a label describing the case
// (labels.txt) and the verdict of the property-level oracle computed in Go (prop.txt).
package main

import (
	"bufio"
	"flag"
	"fmt"
	"io"
	"os"
	"path/filepath"
	"strings"
	"sync/atomic"
	"time"

	"github.com/sirupsen/logrus"
	"github.com/spali/go-rscp/rscp"
)

type caseWriter struct {
	ops, impl, labels, prop *bufio.Writer
	files                   []*os.File
	n                       int
}

func newCaseWriter(dir string) *caseWriter {
	cw := &caseWriter{}
	mk := func(name string) *bufio.Writer {
		f, err := os.Create(filepath.Join(dir, name))
		if err != nil {
			fmt.Fprintln(os.Stderr, err)
			os.Exit(2)
		}
		cw.files = append(cw.files, f)
		return bufio.NewWriterSize(f, 1<<20)
	}
	cw.ops, cw.impl, cw.labels, cw.prop = mk("ops.txt"), mk("impl.txt"), mk("labels.txt"), mk("prop.txt")
	return cw
}

// add records one case. prop is "" when the Go-side oracle has nothing to say, "pass", or "FAIL …".
func oneLine(s string) string {
	return strings.NewReplacer("\n", "\\n", "\r", "\\r").Replace(s)
}

// lastProgress: when the last case was recorded (or announced); the watchdog in main ends a run that has been silent
// for twenty minutes - a client that blocks on itself where no bounded wait was foreseen - so that the check reports
// the announced operation instead of waiting for its own time-out
var lastProgress atomic.Int64

func (cw *caseWriter) add(op, impl, label, prop string) {
	lastProgress.Store(time.Now().Unix())
	op, impl, label, prop = oneLine(op), oneLine(impl), oneLine(label), oneLine(prop)
	cw.ops.WriteString(op)
	cw.ops.WriteByte('\n')
	cw.impl.WriteString(impl)
	cw.impl.WriteByte('\n')
	cw.labels.WriteString(label)
	cw.labels.WriteByte('\n')
	cw.prop.WriteString(prop)
	cw.prop.WriteByte('\n')
	cw.n++
}

func (cw *caseWriter) close() {
	for _, w := range []*bufio.Writer{cw.ops, cw.impl, cw.labels, cw.prop} {
		w.Flush()
	}
	for _, f := range cw.files {
		f.Close()
	}
}

var streams = map[string]func(g *gen, cw *caseWriter, n int, thorough bool){}

// about records the operation that is about to run: if the process dies on it (fatal error: stack overflow, concurrent
// map writes, out of memory — nothing `recover` can catch), the check finds the input here
var aboutPath string

func about(op string) {
	lastProgress.Store(time.Now().Unix())
	if aboutPath != "" {
		_ = os.WriteFile(aboutPath, []byte(oneLine(op)), 0o644)
	}
}

func main() {
	stream := flag.String("stream", "", "case stream")
	seed := flag.Int64("seed", 1, "PRNG seed")
	n := flag.Int("n", 1000, "number of generated cases")
	out := flag.String("out", ".", "output directory")
	thorough := flag.Bool("thorough", false, "include the bounded-exhaustive families")
	replay := flag.String("replay", "", "replay file: run the listed ops only")
	flag.Parse()
	rscp.Log.SetOutput(io.Discard)
	rscp.Log.SetLevel(logrus.PanicLevel)
	if *replay != "" {
		runReplay(*replay, *out)
		return
	}
	lastProgress.Store(time.Now().Unix())
	go func() {
		for {
			time.Sleep(10 * time.Second)
			if time.Now().Unix()-lastProgress.Load() > 1200 {
				fmt.Fprintln(os.Stderr, "watchdog: no case recorded for twenty minutes, the stream is blocked")
				os.Exit(4)
			}
		}
	}()
	f, ok := streams[*stream]
	if !ok {
		fmt.Fprintf(os.Stderr, "unknown stream %q\n", *stream)
		os.Exit(2)
	}
	if err := os.MkdirAll(*out, 0o755); err != nil {
		fmt.Fprintln(os.Stderr, err)
		os.Exit(2)
	}
	cw := newCaseWriter(*out)
	aboutPath = filepath.Join(*out, "current.txt")
	f(newGen(*seed), cw, *n, *thorough)
	os.Remove(aboutPath)
	cw.close()
	fmt.Printf("cases=%d\n", cw.n)
}
