package main

import (
	"fmt"
	"io"
	"net"
	"strings"
	"sync"
	"syscall"
	"time"

	"github.com/spali/go-rscp/rscp"
)

// stream deadline (C10): which deadlines the client sets, with which durations, relative to its reads and writes
// — recorded by the scripted connection and compared with the model's list of blocking operations.
// stream stall (C10): wall-clock of Client.Send against peers that stall, trickle or stream for ever.

func collapse(log []string) string {
	var out []string
	for _, e := range log {
		if e == "r" && len(out) > 0 && (out[len(out)-1] == "r+") {
			continue
		}
		if e == "r" {
			e = "r+"
		}
		out = append(out, e)
	}
	return strings.Join(out, " ")
}

func dlRun(ct, st, rt time.Duration, c *callSpec) string {
	key := "dlkey"
	cl, err := rscp.NewClient(rscp.ClientConfig{Address: "a", Username: "u", Password: "p", Key: key, ConnectionTimeout: ct, SendTimeout: st, ReceiveTimeout: rt})
	if err != nil {
		return "newclient-error"
	}
	pc := newPeerCipher(key)
	sc := &scriptConn{failWrite: !c.writeOk}
	mk := func(r replySpec) [][]byte {
		now := time.Now()
		enc := func(pl []byte) []byte {
			o := make([]byte, len(pl))
			pc.enc.CryptBlocks(o, pl)
			return o
		}
		switch r.beh.kind {
		case "ok":
			ct := enc(frameBytes(r.beh.items, true, now.Unix(), 0))
			return cutAt(ct, []int{7, 33, 40})
		case "garbled":
			g := make([]byte, 32)
			g[0] = 1
			return [][]byte{enc(g)}
		case "badCrc":
			pl := frameBytes(r.beh.items, true, now.Unix(), 0)
			pl[len(pl)-1-int(pl[16])%3] ^= 0 // keep layout
			l := int(pl[16]) | int(pl[17])<<8
			pl[18+l] ^= 0x40
			return [][]byte{enc(pl)}
		case "empty":
			return [][]byte{enc(frameBytes(nil, true, now.Unix(), 0))}
		}
		return nil // silent / closed: the next read fails at once with a deadline error
	}
	sc.onWrite = func(k int, b []byte) [][]byte {
		if k == 0 {
			return mk(c.auth)
		}
		return mk(c.user)
	}
	cl.VerifAttachConn(sc)
	done := make(chan string, 1)
	go func() {
		defer func() {
			if r := recover(); r != nil {
				done <- "panic"
			}
		}()
		_, err := cl.SendMultiple(c.reqs)
		if err != nil {
			done <- "err " + clientErrClass(err)
			return
		}
		done <- "ok"
	}()
	res := "hang"
	select {
	case res = <-done:
	case <-time.After(20 * time.Second): // the scripted connection never waits: a call that is still running blocks on itself
	}
	return strings.SplitN(res, " ", 2)[0] + " : " + collapse(sc.log)
}

func init() {
	streams["deadline"] = func(g *gen, cw *caseWriter, n int, thorough bool) {
		durs := []time.Duration{0, -1, 1, 70 * time.Millisecond, 3 * time.Second, time.Second, 250 * time.Millisecond, -time.Hour, 10 * time.Second}
		for i := 0; i < n; i++ {
			ct, st, rt := durs[g.pick(len(durs))], durs[g.pick(len(durs))], durs[g.pick(len(durs))]
			c := &callSpec{kind: "S", dialOk: true, writeOk: !g.chance(0.1), reqs: g.nonceRequest(i)}
			if c.writeOk && g.chance(0.1) {
				c.reqs[0].Value = 5 // refused by validation: no deadline, no write for it
			}
			grant := []rscp.Message{{Tag: rscp.RSCP_AUTHENTICATION, DataType: rscp.UChar8, Value: uint8(10)}}
			fail := func(ms []rscp.Message) replySpec {
				switch g.pick(4) {
				case 0:
					return replySpec{behaviour{kind: "silent"}, "X"}
				case 1:
					return replySpec{behaviour{kind: "garbled"}, "P invalidMagic 0"}
				case 2:
					return replySpec{behaviour{kind: "badCrc", items: encItems(ms)}, "P invalidCrc 0"}
				}
				return replySpec{behaviour{kind: "empty"}, "F [ ]"}
			}
			switch g.pick(6) {
			case 0:
				c.auth = frameReply([]rscp.Message{{Tag: rscp.RSCP_AUTHENTICATION, DataType: rscp.UChar8, Value: uint8(0)}})
			case 1:
				c.auth = fail(grant)
			default:
				c.auth = frameReply(grant)
			}
			rep := replyFor(c.reqs, i)
			if g.chance(0.3) {
				c.user = fail(rep)
			} else {
				c.user = frameReply(rep)
			}
			// every fifth case runs with the package's clock hook (rscp.Now, which stamps frames) far from real time:
			// deadlines are about real time and must not follow it
			label := "N deadline"
			if i%5 == 0 {
				skew := time.Hour
				if i%10 == 0 {
					skew = -time.Hour
				}
				rscp.Now = func() time.Time { return time.Now().Add(skew) }
				label = fmt.Sprintf("N deadline clock-hook=%v", skew)
			}
			about(fmt.Sprintf("dl %d %d %d | %s", int64(ct), int64(st), int64(rt), c.op()))
			got := dlRun(ct, st, rt, c)
			rscp.Now = time.Now
			prop := "pass"
			if strings.HasPrefix(got, "hang") {
				prop = "FAIL C10 a call on a connection that answers every read and write at once never returns"
			}
			if eff, err := rscp.VerifCheckConfig(rscp.ClientConfig{Address: "a", Username: "u", Password: "p", Key: "k", ConnectionTimeout: ct, SendTimeout: st, ReceiveTimeout: rt}); err == nil {
				if at := strings.Index(got, " : "); at >= 0 {
					for _, tok := range strings.Fields(got[at+3:]) {
						var ms int64
						if (tok[0] == 'R' || tok[0] == 'W') && len(tok) > 1 {
							if _, err := fmt.Sscan(tok[1:], &ms); err == nil {
								want := eff.ReceiveTimeout
								if tok[0] == 'W' {
									want = eff.SendTimeout
								}
								if d := time.Duration(ms)*time.Millisecond - want; d > 30*time.Millisecond || d < -30*time.Millisecond {
									prop = fmt.Sprintf("FAIL C10 a deadline is set %v ahead, the configured time-out is %v (%s)", time.Duration(ms)*time.Millisecond, want, label)
								}
							}
						}
					}
				}
			}
			cw.add(fmt.Sprintf("dl %d %d %d | %s", int64(ct), int64(st), int64(rt), c.op()), got, label, prop)
		}
	}

	streams["stall"] = func(g *gen, cw *caseWriter, n int, thorough bool) {
		type stallCase struct {
			name        string
			phase       int // 0 = authentication reply, 1 = user reply, 2 = request direction (peer stops reading)
			offset      int
			mode        string // stall | trickle | endless-zero | endless-random | oversize
			ct, st, rt  time.Duration
			buf         uint16
			took        time.Duration
			bound       time.Duration
			res         string
			mustSucceed bool
		}
		var cases []*stallCase
		cfgs := [][3]time.Duration{{300 * time.Millisecond, 150 * time.Millisecond, 150 * time.Millisecond}}
		replyLen := 64
		for _, cf := range cfgs {
			for phase := 0; phase < 2; phase++ {
				for off := 0; off <= replyLen; off++ {
					if !thorough && off%5 != 0 && off != 31 && off != 33 && off != 63 {
						continue
					}
					cases = append(cases, &stallCase{name: "stall", phase: phase, offset: off, mode: "stall", ct: cf[0], st: cf[1], rt: cf[2]})
				}
				for _, m := range []string{"trickle", "block-trickle", "empty-frames", "endless-zero", "endless-random", "oversize"} {
					cases = append(cases, &stallCase{name: m, phase: phase, mode: m, ct: cf[0], st: cf[1], rt: cf[2]})
				}
			}
			cases = append(cases, &stallCase{name: "peer-stops-reading", phase: 2, mode: "stall", ct: cf[0], st: cf[1], rt: cf[2]})
		}
		// every accepted receive-buffer size must keep the deadlines effective
		for _, bb := range []uint16{2, 64, 2047, 2048, 2049} {
			cases = append(cases, &stallCase{name: fmt.Sprintf("silent buf=%d", bb), phase: 1, offset: 0, mode: "stall", ct: cfgs[0][0], st: cfgs[0][1], rt: cfgs[0][2], buf: bb})
			cases = append(cases, &stallCase{name: fmt.Sprintf("answering buf=%d", bb), phase: 9, mode: "stall", ct: cfgs[0][0], st: cfgs[0][1], rt: cfgs[0][2], buf: bb})
		}
		// the two time-outs are independent: with a send time-out much shorter than the receive time-out, a reply that
		// arrives in pieces 250 ms apart (well inside the receive time-out) is returned
		for phase := 0; phase < 2; phase++ {
			cases = append(cases, &stallCase{name: "gaps-longer-than-send-timeout", phase: phase, mode: "gaps", ct: 300 * time.Millisecond, st: 100 * time.Millisecond, rt: 2 * time.Second, mustSucceed: true})
		}
		// two pieces of a reply 700 ms apart with a receive time-out of 2.5 s: the reply is returned
		cases = append(cases, &stallCase{name: "gap-of-700ms", phase: 1, mode: "longgap", ct: 300 * time.Millisecond, st: 300 * time.Millisecond, rt: 2500 * time.Millisecond, mustSucceed: true})
		// a device that is slow but inside the time-outs: it answers the authentication and the request 300 ms after each
		// arrives, the receive time-out is 500 ms — every exchange has its own time-out, the call succeeds
		cases = append(cases, &stallCase{name: "slow-inside-timeouts", phase: 9, mode: "slow", ct: 300 * time.Millisecond, st: 500 * time.Millisecond, rt: 500 * time.Millisecond, mustSucceed: true})
		// zero / negative timeouts must fall back to 3 s, not to "no timeout"
		cases = append(cases, &stallCase{name: "default-timeouts", phase: 1, offset: 10, mode: "stall", ct: 0, st: -1, rt: 0})
		runStall := func(c *stallCase) {
			key := "stallkey"
			cl, err := rscp.NewClient(rscp.ClientConfig{Address: "a", Username: "u", Password: "p", Key: key, ConnectionTimeout: c.ct, SendTimeout: c.st, ReceiveTimeout: c.rt, ReceiveBufferBlockSize: c.buf})
			if err != nil {
				c.res = "newclient-error"
				return
			}
			eff := cl.VerifConfig()
			c.bound = 2*eff.SendTimeout + 2*eff.ReceiveTimeout // the connection is attached: no dial
			a, b, err := tcpPair()
			if err != nil {
				c.res = "no-loopback"
				return
			}
			cl.VerifAttachConn(a)
			p := newPeer(key)
			reqNo := 0
			p.decide = func(conn int, f peerFrame) behaviour { return behaviour{} }
			go func() {
				defer b.Close()
				pc := newPeerCipher(key)
				rb := make([]byte, 32)
				for {
					if c.phase == 2 {
						// never read: the client's write must run into the send timeout
						time.Sleep(c.bound + 3*time.Second)
						return
					}
					// read one frame (the requests used here are one or two blocks)
					n := 0
					var plain []byte
					for {
						if _, err := readFullConn(b, rb); err != nil {
							return
						}
						d := make([]byte, 32)
						pc.dec.CryptBlocks(d, rb)
						plain = append(plain, d...)
						n++
						need := 18 + int(plain[16]) + int(plain[17])<<8 + 4
						if len(plain) >= need {
							break
						}
					}
					var reply []byte
					if reqNo == 0 {
						reply = frameBytes(itemBytes(uint32(rscp.RSCP_AUTHENTICATION), 3, []byte{10}), true, 1, 2)
					} else {
						reply = frameBytes(itemBytes(uint32(rscp.INFO_SERIAL_NUMBER), 13, []byte("0123456789012345678901234567890")), true, 1, 2)
					}
					// encrypt lazily: the chaining state must follow what is really sent
					var ct []byte
					encReply := func() {
						ct = make([]byte, len(reply))
						pc.enc.CryptBlocks(ct, reply)
					}
					if reqNo == c.phase {
						if c.mode == "stall" || c.mode == "trickle" {
							encReply()
						}
						switch c.mode {
						case "stall":
							if c.offset > 0 {
								b.Write(ct[:min(c.offset, len(ct))])
							}
							time.Sleep(c.bound + 3*time.Second)
							return
						case "trickle":
							for i := 0; ; i++ {
								if _, err := b.Write([]byte{ct[i%len(ct)]}); err != nil {
									return
								}
								time.Sleep(40 * time.Millisecond)
							}
						case "longgap":
							encReply()
							b.Write(ct[:40])
							time.Sleep(700 * time.Millisecond)
							b.Write(ct[40:])
							reqNo++
							continue
						case "gaps":
							encReply()
							for i := 0; i < len(ct); i += 24 {
								e := i + 24
								if e > len(ct) {
									e = len(ct)
								}
								if _, err := b.Write(ct[i:e]); err != nil {
									return
								}
								if e < len(ct) {
									time.Sleep(250 * time.Millisecond)
								}
							}
							reqNo++
							continue
						case "block-trickle":
							// whole cipher blocks of a frame that never completes (announces 60 000 bytes), one every third of the time-out
							big := frameBytes(make([]byte, 60000), true, 1, 2)
							ob := make([]byte, len(big))
							pc.enc.CryptBlocks(ob, big)
							for i := 0; i+32 <= len(ob); i += 32 {
								if _, err := b.Write(ob[i : i+32]); err != nil {
									return
								}
								time.Sleep(c.rt / 3)
							}
							return
						case "empty-frames":
							// well-formed, correctly chained frames without any item, one every third of the time-out
							for {
								ef := frameBytes(nil, true, 1, 2)
								ob := make([]byte, len(ef))
								pc.enc.CryptBlocks(ob, ef)
								if _, err := b.Write(ob); err != nil {
									return
								}
								time.Sleep(c.rt / 3)
							}
						case "endless-zero", "endless-random":
							blk := make([]byte, 32)
							for {
								if c.mode == "endless-random" {
									for j := range blk {
										blk[j] = byte(j*7 + 3)
									}
								}
								if _, err := b.Write(blk); err != nil {
									return
								}
							}
						case "oversize":
							big := frameBytes(make([]byte, 65000), true, 1, 2)
							ob := make([]byte, len(big))
							pc.enc.CryptBlocks(ob, big)
							for i := 0; i < len(ob); i += 32 {
								if _, err := b.Write(ob[i : i+32]); err != nil {
									return
								}
								time.Sleep(2 * time.Millisecond)
							}
							time.Sleep(c.bound + 3*time.Second)
							return
						}
					}
					encReply()
					if c.mode == "slow" {
						time.Sleep(300 * time.Millisecond)
					}
					b.Write(ct)
					reqNo++
				}
			}()
			t0 := time.Now()
			done := make(chan string, 1)
			go func() {
				defer func() {
					if r := recover(); r != nil {
						done <- "panic"
					}
				}()
				_, err := cl.Send(rscp.Message{Tag: rscp.INFO_REQ_SERIAL_NUMBER, DataType: rscp.None})
				if err != nil {
					done <- "err"
				} else {
					done <- "ok"
				}
			}()
			select {
			case c.res = <-done:
			case <-time.After(c.bound + 2500*time.Millisecond):
				c.res = "blocked"
			}
			c.took = time.Since(t0)
			a.Close()
		}
		// Disconnect() returns at once, whatever state the connection is in: after a call that was refused before anything
		// was sent (credentials too long for a frame — no deadline was ever armed) and on a fresh connection; the peer stays silent and keeps the connection open
		for _, kind := range []string{"refused-before-sending", "fresh"} {
			took, res := func() (time.Duration, string) {
				pw := "p"
				if kind == "refused-before-sending" {
					pw = strings.Repeat("p", 70000)
				}
				cl, err := rscp.NewClient(rscp.ClientConfig{Address: "a", Username: "u", Password: pw, Key: "k", ConnectionTimeout: 300 * time.Millisecond, SendTimeout: 150 * time.Millisecond, ReceiveTimeout: 150 * time.Millisecond})
				if err != nil {
					return 0, "newclient-error"
				}
				a, b, err := tcpPair()
				if err != nil {
					return 0, "no-loopback"
				}
				defer b.Close()
				go io.Copy(io.Discard, b) // the peer reads and never answers, never closes
				cl.VerifAttachConn(a)
				if kind != "fresh" {
					_, _ = cl.Send(rscp.Message{Tag: rscp.INFO_REQ_SERIAL_NUMBER, DataType: rscp.None})
				}
				done := make(chan struct{})
				t0 := time.Now()
				go func() { defer func() { recover() }(); cl.Disconnect(); close(done) }()
				select {
				case <-done:
					return time.Since(t0), "returned"
				case <-time.After(2500 * time.Millisecond):
					a.Close()
					return time.Since(t0), "blocked"
				}
			}()
			prop := "pass"
			if res == "blocked" || took > time.Second {
				prop = fmt.Sprintf("FAIL C10 Disconnect() (%s, silent peer) took %v (%s)", kind, took.Round(time.Millisecond), res)
			}
			cw.add("skip", "skip", fmt.Sprintf("N stall disconnect %s took=%dms", kind, took.Milliseconds()), prop)
		}
		// a deaf peer: it has written its replies in advance and never reads. Small requests fill the socket buffers; the
		// call whose write cannot proceed ends by the send time-out like any other
		{
			worst, res, calls := time.Duration(0), "ok", 0
			func() {
				key := "deafkey"
				cl, err := rscp.NewClient(rscp.ClientConfig{Address: "a", Username: "u", Password: "p", Key: key, ConnectionTimeout: 300 * time.Millisecond, SendTimeout: 200 * time.Millisecond, ReceiveTimeout: 200 * time.Millisecond})
				if err != nil {
					res = "newclient-error"
					return
				}
				a, b, err := tcpPair()
				if err != nil {
					res = "no-loopback"
					return
				}
				defer a.Close()
				defer b.Close()
				if ta, ok := a.(*net.TCPConn); ok {
					ta.SetWriteBuffer(2048)
				}
				if tb, ok := b.(*net.TCPConn); ok {
					tb.SetReadBuffer(2048)
				}
				pc := newPeerCipher(key)
				encf := func(pl []byte) []byte { o := make([]byte, len(pl)); pc.enc.CryptBlocks(o, pl); return o }
				go func() {
					b.Write(encf(frameBytes(itemBytes(uint32(rscp.RSCP_AUTHENTICATION), 3, []byte{10}), true, 1, 2)))
					for i := 0; i < 6000; i++ {
						if _, err := b.Write(encf(frameBytes(itemBytes(uint32(rscp.INFO_SERIAL_NUMBER), 13, []byte("x")), true, 1, 2))); err != nil {
							return
						}
					}
				}()
				cl.VerifAttachConn(a)
				req := rscp.Message{Tag: rscp.WB_REQ_DATA, DataType: rscp.Container, Value: []rscp.Message{{Tag: rscp.WB_EXTERN_DATA, DataType: rscp.ByteArray, Value: make([]byte, 2000)}}}
				for calls = 0; calls < 6000; calls++ {
					t0 := time.Now()
					done := make(chan error, 1)
					go func() { _, err := cl.Send(req); done <- err }()
					select {
					case err := <-done:
						if d := time.Since(t0); d > worst {
							worst = d
						}
						if err != nil {
							res = "err"
							return
						}
					case <-time.After(3 * time.Second):
						worst, res = 3*time.Second, "blocked"
						return
					}
				}
			}()
			prop := "pass"
			if res == "blocked" || worst > 1000*time.Millisecond {
				prop = fmt.Sprintf("FAIL C10 a call against a peer that does not read any more took %v (%s) after %d calls; send and receive time-outs are 200 ms", worst.Round(time.Millisecond), res, calls)
			} else if res == "ok" {
				prop = "pass" // the buffers never filled: nothing observed
			}
			cw.add("skip", "skip", fmt.Sprintf("N stall deaf-peer calls=%d worst=%dms res=%s", calls, worst.Milliseconds(), res), prop)
		}
		// a peer that answers the authentication and then stops reading, nothing waiting to be read on the client's side:
		// a large request runs into the send time-out and the call ends there (closing the connection does not wait)
		{
			took, res := func() (time.Duration, string) {
				key := "deaf2key"
				cl, err := rscp.NewClient(rscp.ClientConfig{Address: "a", Username: "u", Password: "p", Key: key, ConnectionTimeout: 300 * time.Millisecond, SendTimeout: 200 * time.Millisecond, ReceiveTimeout: 200 * time.Millisecond})
				if err != nil {
					return 0, "newclient-error"
				}
				a, b, err := tcpPair()
				if err != nil {
					return 0, "no-loopback"
				}
				defer b.Close()
				if ta, ok := a.(*net.TCPConn); ok {
					ta.SetWriteBuffer(2048)
				}
				if tb, ok := b.(*net.TCPConn); ok {
					tb.SetReadBuffer(2048)
				}
				pc := newPeerCipher(key)
				go func() {
					rb := make([]byte, 64)
					if _, err := readFullConn(b, rb); err != nil { // the authentication request (two blocks)
						return
					}
					pl := frameBytes(itemBytes(uint32(rscp.RSCP_AUTHENTICATION), 3, []byte{10}), true, 1, 2)
					ct := make([]byte, len(pl))
					pc.enc.CryptBlocks(ct, pl)
					b.Write(ct)
					time.Sleep(4 * time.Second) // reads nothing any more, keeps the connection open
				}()
				cl.VerifAttachConn(a)
				req := rscp.Message{Tag: rscp.WB_REQ_DATA, DataType: rscp.Container, Value: []rscp.Message{{Tag: rscp.WB_EXTERN_DATA, DataType: rscp.ByteArray, Value: make([]byte, 60000)}}}
				done := make(chan string, 1)
				t0 := time.Now()
				go func() {
					defer func() { recover() }()
					if _, err := cl.Send(req); err != nil {
						done <- "err"
					} else {
						done <- "ok"
					}
				}()
				select {
				case r := <-done:
					return time.Since(t0), r
				case <-time.After(3500 * time.Millisecond):
					a.Close()
					return time.Since(t0), "blocked"
				}
			}()
			prop := "pass"
			if res == "blocked" || took > 1100*time.Millisecond {
				prop = fmt.Sprintf("FAIL C10 a large request to a peer that stopped reading took %v (%s); send and receive time-outs are 200 ms", took.Round(time.Millisecond), res)
			}
			cw.add("skip", "skip", fmt.Sprintf("N stall deaf-peer-large-request took=%dms res=%s", took.Milliseconds(), res), prop)
		}
		// a device that does not complete the TCP handshake (its accept queue is full, a firewall drops the SYN): a listening
		// socket with backlog 0 whose queue is taken. The call fails after ConnectionTimeout, whatever form the address has
		for _, hv := range []struct {
			v6   bool
			host string
		}{{false, "127.0.0.1"}, {true, "[::1]"}, {true, "::1"}, {true, "0:0:0:0:0:0:0:1"}} {
			v6 := hv.v6
			port, release, ok := stalledListener(v6)
			if !ok {
				cw.add("skip", "skip", fmt.Sprintf("T stall handshake-never-completes v6=%v (not available here)", v6), "pass")
				continue
			}
			host := hv.host // a bare IPv6 literal is no usable address at present: such a call fails at once, which is in time too
			res, took := "blocked", 4*time.Second
			if cl, err := rscp.NewClient(rscp.ClientConfig{Address: host, Port: uint16(port), Username: "u", Password: "p", Key: "k",
				ConnectionTimeout: 300 * time.Millisecond, SendTimeout: 300 * time.Millisecond, ReceiveTimeout: 300 * time.Millisecond}); err == nil {
				done := make(chan string, 1)
				t0 := time.Now()
				go func() {
					defer func() {
						if r := recover(); r != nil {
							done <- "panic"
						}
					}()
					if _, err := cl.Send(rscp.Message{Tag: rscp.INFO_REQ_UTC_TIME, DataType: rscp.None}); err != nil {
						done <- "err"
					} else {
						done <- "ok"
					}
				}()
				select {
				case res = <-done:
					took = time.Since(t0)
				case <-time.After(4 * time.Second):
				}
			} else {
				res = "config-refused"
			}
			release()
			prop := "pass"
			if res == "blocked" || res == "ok" || res == "panic" || took > 2*time.Second {
				prop = fmt.Sprintf("FAIL C10 a call to a device (%s) that never completes the TCP handshake ends with %q after %v; the connection time-out is 300 ms", host, res, took.Round(time.Millisecond))
			}
			cw.add("skip", "skip", fmt.Sprintf("N stall handshake-never-completes host=%s res=%s", host, res), prop)
		}
		var wg sync.WaitGroup
		sem := make(chan struct{}, 16)
		for _, c := range cases {
			wg.Add(1)
			sem <- struct{}{}
			go func(c *stallCase) {
				defer wg.Done()
				defer func() { <-sem }()
				runStall(c)
			}(c)
		}
		wg.Wait()
		// a case that exceeded its bound while 16 ran in parallel is measured once more on its own before it counts
		for _, c := range cases {
			if c.res == "blocked" || c.took > c.bound+1200*time.Millisecond {
				runStall(c)
			}
		}
		for _, c := range cases {
			prop := "pass"
			slack := 1200 * time.Millisecond
			if c.res == "blocked" || c.took > c.bound+slack {
				prop = fmt.Sprintf("FAIL C10 call against a peer that does `%s` in phase %d at offset %d took %v (result %s), bound %v", c.mode, c.phase, c.offset, c.took.Round(time.Millisecond), c.res, c.bound)
				if c.res == "blocked" {
					prop += " ;; FAIL C02 the client hangs on what a peer sends: " + fmt.Sprintf("`%s` in phase %d at offset %d", c.mode, c.phase, c.offset)
				}
			} else if c.res == "panic" {
				prop = "FAIL C10 client panics"
			} else if c.mustSucceed && c.res != "ok" {
				prop = fmt.Sprintf("FAIL C07 a reply that arrives inside the receive time-out of %v (scenario %s) is not returned (result %s after %v; send time-out %v) ;; FAIL C10 the time-outs are not applied per blocking operation ;; FAIL C08 a call against a healthy but slow peer fails", c.rt, c.name, c.res, c.took.Round(time.Millisecond), c.st)
			}
			eff, _ := rscp.VerifCheckConfig(rscp.ClientConfig{Address: "a", Username: "u", Password: "p", Key: "k", ConnectionTimeout: c.ct, SendTimeout: c.st, ReceiveTimeout: c.rt})
			cw.add(fmt.Sprintf("bound %d %d %d", int64(c.ct), int64(c.st), int64(c.rt)),
				fmt.Sprintf("bound=%d", int64(eff.ConnectionTimeout)+2*int64(eff.SendTimeout)+2*int64(eff.ReceiveTimeout)),
				fmt.Sprintf("N stall %s phase=%d offset=%d took=%dms res=%s", c.name, c.phase, c.offset, c.took.Milliseconds(), c.res), prop)
		}
	}
}

func readFullConn(c net.Conn, b []byte) (int, error) {
	n := 0
	for n < len(b) {
		k, err := c.Read(b[n:])
		n += k
		if err != nil {
			return n, err
		}
	}
	return n, nil
}

// tcpPair returns the two ends of a loopback TCP connection
func tcpPair() (net.Conn, net.Conn, error) {
	ln, err := net.Listen("tcp", "127.0.0.1:0")
	if err != nil {
		return nil, nil, err
	}
	defer ln.Close()
	ch := make(chan net.Conn, 1)
	go func() {
		c, _ := ln.Accept()
		ch <- c
	}()
	a, err := net.Dial("tcp", ln.Addr().String())
	if err != nil {
		return nil, nil, err
	}
	b := <-ch
	if b == nil {
		a.Close()
		return nil, nil, fmt.Errorf("accept failed")
	}
	return a, b, nil
}

// stalledListener: a listening loopback socket with backlog 0 whose accept queue is occupied, so that the kernel drops
// further SYNs silently. ok=false if that state cannot be reached on this system
func stalledListener(v6 bool) (port int, release func(), ok bool) {
	family := syscall.AF_INET
	if v6 {
		family = syscall.AF_INET6
	}
	fd, err := syscall.Socket(family, syscall.SOCK_STREAM, 0)
	if err != nil {
		return 0, func() {}, false
	}
	var hold []net.Conn
	release = func() {
		for _, h := range hold {
			h.Close()
		}
		syscall.Close(fd)
	}
	var sa syscall.Sockaddr = &syscall.SockaddrInet4{Addr: [4]byte{127, 0, 0, 1}}
	if v6 {
		a := &syscall.SockaddrInet6{}
		a.Addr[15] = 1
		sa = a
	}
	if err := syscall.Bind(fd, sa); err != nil {
		release()
		return 0, func() {}, false
	}
	if err := syscall.Listen(fd, 0); err != nil {
		release()
		return 0, func() {}, false
	}
	got, err := syscall.Getsockname(fd)
	if err != nil {
		release()
		return 0, func() {}, false
	}
	addr := ""
	switch x := got.(type) {
	case *syscall.SockaddrInet4:
		port, addr = x.Port, fmt.Sprintf("127.0.0.1:%d", x.Port)
	case *syscall.SockaddrInet6:
		port, addr = x.Port, fmt.Sprintf("[::1]:%d", x.Port)
	}
	for i := 0; i < 8; i++ {
		h, err := net.DialTimeout("tcp", addr, 200*time.Millisecond)
		if err != nil {
			return port, release, true
		}
		hold = append(hold, h)
	}
	release()
	return 0, func() {}, false
}
