package main

import (
	"bufio"
	"fmt"
	"os"
	"path/filepath"
	"strings"
	"time"

	"github.com/spali/go-rscp/rscp"
)

// replayers: recompute the implementation's answer for one recorded operation line
var replayers = map[string]func(op string) string{}

func runReplay(path, out string) {
	f, err := os.Open(path)
	if err != nil {
		fmt.Fprintln(os.Stderr, err)
		os.Exit(2)
	}
	defer f.Close()
	w, _ := os.Create(filepath.Join(out, "impl.txt"))
	defer w.Close()
	sc := bufio.NewScanner(f)
	sc.Buffer(make([]byte, 1<<20), 1<<28)
	for sc.Scan() {
		op := sc.Text()
		kind := strings.SplitN(op, " ", 2)[0]
		if r, ok := replayers[kind]; ok {
			fmt.Fprintln(w, r(op))
		} else {
			fmt.Fprintln(w, "no-replayer-for-"+kind)
		}
	}
}

func init() {
	msgsOf := func(fields []string) ([]rscp.Message, bool) {
		ts := &tokStream{t: fields}
		ms, err := parseMsgs(ts)
		return ms, err == nil
	}
	replayers["val"] = func(op string) string {
		ms, ok := msgsOf(strings.Fields(op)[1:])
		if !ok {
			return "bad-op"
		}
		defer func() { recover() }()
		if err := rscp.VerifValidateRequests(ms); err != nil {
			return "err " + errClass(err)
		}
		return "ok "
	}
	replayers["send"] = func(op string) string {
		f := strings.Fields(op)
		if len(f) < 5 {
			return "bad-op"
		}
		ms, ok := msgsOf(f[4:])
		if !ok {
			return "bad-op"
		}
		var sec, ns int64
		fmt.Sscan(f[2], &sec)
		fmt.Sscan(f[3], &ns)
		impl, prop := sendRun(ms, f[1] == "1", time.Unix(sec, ns).UTC())
		return impl + "   [oracle: " + prop + "]"
	}
	replayers["enc"] = func(op string) string {
		f := strings.Fields(op)
		if len(f) < 5 {
			return "bad-op"
		}
		ms, ok := msgsOf(f[4:])
		if !ok {
			return "bad-op"
		}
		var sec, ns int64
		fmt.Sscan(f[2], &sec)
		fmt.Sscan(f[3], &ns)
		p := plainFrame(ms, f[1] == "1", time.Unix(sec, ns).UTC())
		if p == nil {
			return "err"
		}
		return "ok " + hexOf(p)
	}
	replayers["tag"] = func(op string) string {
		var n uint32
		fmt.Sscan(strings.Fields(op)[1], &n)
		return tagLine(rscp.Tag(n))
	}
	replayers["dt"] = func(op string) string {
		var n int
		fmt.Sscan(strings.Fields(op)[1], &n)
		return dtLine(rscp.DataType(n))
	}
	replayers["render"] = func(op string) string {
		ms, ok := msgsOf(strings.Fields(op)[1:])
		if !ok {
			return "bad-op"
		}
		return renderRun(ms)
	}
	replayers["jout"] = func(op string) string {
		f := strings.Fields(op)
		ms, ok := msgsOf(f[2:])
		if !ok {
			return "bad-op"
		}
		loop, err := startE3Loop()
		if err != nil {
			return "no-e3dc-binary"
		}
		defer loop.close()
		got := loop.ask("out " + f[1] + " " + hexOf(plainFrame(ms, false, time.Unix(1, 0).UTC())))
		if strings.HasPrefix(got, "ok ") {
			txt, _ := unhex(got[3:])
			if toks, ok := joTokens(txt); ok {
				return "ok " + toks + "   [text: " + trunc(string(txt), 200) + "]"
			}
			return "invalid-json " + trunc(string(txt), 200)
		}
		return got
	}
}

// ---- replayers for jin (JSON request tokens) and hist (client histories) ---------------------

func parseJTokens(s *tokStream) (*jnode, error) {
	t, ok := s.next()
	if !ok {
		return nil, fmt.Errorf("eof")
	}
	switch {
	case t == "null":
		return jnull(), nil
	case t == "true":
		return jbool(true), nil
	case t == "false":
		return jbool(false), nil
	case t == "[":
		n := jarr()
		for {
			if s.i < len(s.t) && s.t[s.i] == "]" {
				s.i++
				return n, nil
			}
			x, err := parseJTokens(s)
			if err != nil {
				return nil, err
			}
			n.arr = append(n.arr, x)
		}
	case t == "{":
		n := jobj()
		for {
			k, ok := s.next()
			if !ok {
				return nil, fmt.Errorf("eof")
			}
			if k == "}" {
				return n, nil
			}
			kb, err := unhex(strings.TrimPrefix(k, "k:"))
			if err != nil {
				return nil, err
			}
			v, err := parseJTokens(s)
			if err != nil {
				return nil, err
			}
			n.set(string(kb), v)
		}
	case strings.HasPrefix(t, "s:"):
		b, err := unhex(t[2:])
		return jstr(string(b)), err
	case strings.HasPrefix(t, "n:"):
		f := strings.Split(t[2:], ":")
		if len(f) != 3 {
			return nil, fmt.Errorf("number token")
		}
		lit := f[0]
		if f[1] != "0" {
			lit += "e" + f[1]
		}
		return jnum(lit), nil
	}
	return nil, fmt.Errorf("token %q", t)
}

func parseReplySpec(s *tokStream, items func([]rscp.Message) []byte) (replySpec, error) {
	t, _ := s.next()
	switch t {
	case "X":
		return replySpec{behaviour{kind: "closeBefore"}, "X"}, nil
	case "F":
		ms, err := parseMsgs(s)
		if err != nil {
			return replySpec{}, err
		}
		if len(ms) == 0 {
			return replySpec{behaviour{kind: "empty"}, "F [ ]"}, nil
		}
		return frameReply(ms), nil
	case "P":
		e, _ := s.next()
		k, _ := s.next()
		var extra []rscp.Message
		if k == "1" {
			ms, err := parseMsgs(s)
			if err != nil {
				return replySpec{}, err
			}
			extra = ms
		}
		model := "P " + e + " " + k
		if k == "1" {
			model += " " + msgsString(extra)
		}
		switch e {
		case "invalidMagic":
			kk := 0
			if k == "1" {
				kk = 1000
			}
			return replySpec{behaviour{kind: "garbled", k: kk, items: encItems(extra)}, model}, nil
		case "invalidCrc":
			return replySpec{behaviour{kind: "badCrc", items: encItems([]rscp.Message{{Tag: 0x00800001, DataType: rscp.UChar8, Value: uint8(1)}})}, model}, nil
		}
		return replySpec{behaviour{kind: "malformed", items: itemBytes(1, 0x11, nil)}, model}, nil
	}
	return replySpec{}, fmt.Errorf("reply token %q", t)
}

func init() {
	replayers["jin"] = func(op string) string {
		s := &tokStream{t: strings.Fields(op)[1:]}
		root, err := parseJTokens(s)
		if err != nil {
			return "bad-op"
		}
		loop, err := startE3Loop()
		if err != nil {
			return "no-e3dc-binary"
		}
		defer loop.close()
		var sb strings.Builder
		root.text(&sb, nil)
		got := loop.ask("in " + hexOf([]byte(sb.String())))
		if !strings.HasPrefix(got, "ok ") && got != "panic" {
			got = "err"
		}
		return got + "   [text: " + trunc(sb.String(), 200) + "]"
	}
	replayers["hist"] = func(op string) string {
		parts := strings.Split(op, " | ")
		hd := strings.Fields(parts[0])
		if len(hd) != 3 {
			return "bad-op"
		}
		u, _ := unhex(hd[1])
		p, _ := unhex(hd[2])
		s, err := newSession(string(u), string(p), "replaykey", 150*time.Millisecond, 1)
		if err != nil {
			return "newclient-error"
		}
		defer s.close()
		var res []string
		for _, cp := range parts[1:] {
			f := strings.Fields(cp)
			if len(f) == 1 && f[0] == "D" {
				res = append(res, s.call(&callSpec{kind: "D"}))
				continue
			}
			if len(f) < 4 {
				return "bad-op"
			}
			c := &callSpec{kind: f[0], dialOk: f[1] == "1", writeOk: f[2] == "1"}
			ts := &tokStream{t: f[3:]}
			var err error
			if c.auth, err = parseReplySpec(ts, encItems); err != nil {
				return "bad-op"
			}
			if c.user, err = parseReplySpec(ts, encItems); err != nil {
				return "bad-op"
			}
			if c.reqs, err = parseMsgs(ts); err != nil {
				return "bad-op"
			}
			res = append(res, s.call(c))
		}
		return strings.Join(res, " | ")
	}
}
