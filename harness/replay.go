package main

import (
	"bufio"
	"fmt"
	"os"
	"path/filepath"
	"strings"
	"time"

	"github.com/spali/go-rscp/rscp"
)

// replayers: recompute the implementation's answer for one recorded operation line
var replayers = map[string]func(op string) string{}

func runReplay(path, out string) {
	f, err := os.Open(path)
	if err != nil {
		fmt.Fprintln(os.Stderr, err)
		os.Exit(2)
	}
	defer f.Close()
	w, _ := os.Create(filepath.Join(out, "impl.txt"))
	defer w.Close()
	sc := bufio.NewScanner(f)
	sc.Buffer(make([]byte, 1<<20), 1<<28)
	for sc.Scan() {
		op := sc.Text()
		kind := strings.SplitN(op, " ", 2)[0]
		if r, ok := replayers[kind]; ok {
			fmt.Fprintln(w, r(op))
		} else {
			fmt.Fprintln(w, "no-replayer-for-"+kind)
		}
	}
}

func init() {
	msgsOf := func(fields []string) ([]rscp.Message, bool) {
		ts := &tokStream{t: fields}
		ms, err := parseMsgs(ts)
		return ms, err == nil
	}
	replayers["val"] = func(op string) string {
		ms, ok := msgsOf(strings.Fields(op)[1:])
		if !ok {
			return "bad-op"
		}
		defer func() { recover() }()
		if err := rscp.VerifValidateRequests(ms); err != nil {
			return "err " + errClass(err)
		}
		return "ok "
	}
	replayers["send"] = func(op string) string {
		f := strings.Fields(op)
		if len(f) < 5 {
			return "bad-op"
		}
		ms, ok := msgsOf(f[4:])
		if !ok {
			return "bad-op"
		}
		var sec, ns int64
		fmt.Sscan(f[2], &sec)
		fmt.Sscan(f[3], &ns)
		impl, prop := sendRun(ms, f[1] == "1", time.Unix(sec, ns).UTC())
		return impl + "   [oracle: " + prop + "]"
	}
	replayers["enc"] = func(op string) string {
		f := strings.Fields(op)
		if len(f) < 5 {
			return "bad-op"
		}
		ms, ok := msgsOf(f[4:])
		if !ok {
			return "bad-op"
		}
		var sec, ns int64
		fmt.Sscan(f[2], &sec)
		fmt.Sscan(f[3], &ns)
		p := plainFrame(ms, f[1] == "1", time.Unix(sec, ns).UTC())
		if p == nil {
			return "err"
		}
		return "ok " + hexOf(p)
	}
	replayers["tag"] = func(op string) string {
		var n uint32
		fmt.Sscan(strings.Fields(op)[1], &n)
		return tagLine(rscp.Tag(n))
	}
	replayers["dt"] = func(op string) string {
		var n int
		fmt.Sscan(strings.Fields(op)[1], &n)
		return dtLine(rscp.DataType(n))
	}
	replayers["render"] = func(op string) string {
		ms, ok := msgsOf(strings.Fields(op)[1:])
		if !ok {
			return "bad-op"
		}
		return renderRun(ms)
	}
	replayers["jout"] = func(op string) string {
		f := strings.Fields(op)
		ms, ok := msgsOf(f[2:])
		if !ok {
			return "bad-op"
		}
		loop, err := startE3Loop()
		if err != nil {
			return "no-e3dc-binary"
		}
		defer loop.close()
		got := loop.ask("out " + f[1] + " " + hexOf(plainFrame(ms, false, time.Unix(1, 0).UTC())))
		if strings.HasPrefix(got, "ok ") {
			txt, _ := unhex(got[3:])
			if toks, ok := joTokens(txt); ok {
				return "ok " + toks + "   [text: " + trunc(string(txt), 200) + "]"
			}
			return "invalid-json " + trunc(string(txt), 200)
		}
		return got
	}
}
