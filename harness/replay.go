package main

import (
	"bufio"
	"fmt"
	"os"
	"path/filepath"
	"strings"
)

// replayers: recompute the implementation's answer for one recorded operation line
var replayers = map[string]func(op string) string{}

func runReplay(path, out string) {
	f, err := os.Open(path)
	if err != nil {
		fmt.Fprintln(os.Stderr, err)
		os.Exit(2)
	}
	defer f.Close()
	w, _ := os.Create(filepath.Join(out, "impl.txt"))
	defer w.Close()
	sc := bufio.NewScanner(f)
	sc.Buffer(make([]byte, 1<<20), 1<<28)
	for sc.Scan() {
		op := sc.Text()
		kind := strings.SplitN(op, " ", 2)[0]
		if r, ok := replayers[kind]; ok {
			fmt.Fprintln(w, r(op))
		} else {
			fmt.Fprintln(w, "no-replayer-for-"+kind)
		}
	}
}
