package main

import (
	"bufio"
	"encoding/json"
	"fmt"
	"io"
	"math"
	"math/big"
	"os"
	"os/exec"
	"regexp"
	"strconv"
	"strings"
	"time"
	"unicode/utf8"

	"github.com/spali/go-rscp/rscp"
)

// ---- the e3dc binary in loop mode (verif overlay) -------------------------------------------

type e3loop struct {
	cmd *exec.Cmd
	in  io.WriteCloser
	out *bufio.Reader
}

func startE3Loop() (*e3loop, error) {
	bin := os.Getenv("VERIF_E3DC")
	if bin == "" {
		return nil, fmt.Errorf("VERIF_E3DC not set")
	}
	cmd := exec.Command(bin)
	cmd.Env = append(os.Environ(), "E3DC_VERIF_LOOP=1")
	in, _ := cmd.StdinPipe()
	out, _ := cmd.StdoutPipe()
	if err := cmd.Start(); err != nil {
		return nil, err
	}
	return &e3loop{cmd, in, bufio.NewReaderSize(out, 1<<20)}, nil
}

func (l *e3loop) ask(line string) string {
	if _, err := io.WriteString(l.in, line+"\n"); err != nil {
		return "loop-dead"
	}
	s, err := l.out.ReadString('\n')
	if err != nil {
		return "loop-dead"
	}
	return strings.TrimRight(s, "\n")
}

func (l *e3loop) close() { l.in.Close(); l.cmd.Wait() }

// ---- JSON trees ------------------------------------------------------------------------------

type jnode struct {
	kind string // null bool num str arr obj
	b    bool
	lit  string
	s    string
	arr  []*jnode
	keys []string
	vals []*jnode
}

func jnull() *jnode            { return &jnode{kind: "null"} }
func jbool(b bool) *jnode      { return &jnode{kind: "bool", b: b} }
func jnum(lit string) *jnode   { return &jnode{kind: "num", lit: lit} }
func jstr(s string) *jnode     { return &jnode{kind: "str", s: s} }
func jarr(xs ...*jnode) *jnode { return &jnode{kind: "arr", arr: xs} }
func jobj() *jnode             { return &jnode{kind: "obj"} }
func (o *jnode) set(k string, v *jnode) *jnode {
	o.keys = append(o.keys, k)
	o.vals = append(o.vals, v)
	return o
}

func (n *jnode) text(sb *strings.Builder, g *gen) {
	ws := func() {
		if g != nil && g.chance(0.15) {
			sb.WriteString([]string{" ", "\n", "\t", "  "}[g.pick(4)])
		}
	}
	switch n.kind {
	case "null":
		sb.WriteString("null")
	case "bool":
		fmt.Fprint(sb, n.b)
	case "num":
		sb.WriteString(n.lit)
	case "str":
		sb.WriteString(jsonStringText(n.s, g))
	case "arr":
		sb.WriteString("[")
		for i, x := range n.arr {
			if i > 0 {
				sb.WriteString(",")
			}
			ws()
			x.text(sb, g)
			ws()
		}
		sb.WriteString("]")
	case "obj":
		sb.WriteString("{")
		for i := range n.keys {
			if i > 0 {
				sb.WriteString(",")
			}
			ws()
			sb.WriteString(jsonStringText(n.keys[i], g))
			sb.WriteString(":")
			ws()
			n.vals[i].text(sb, g)
		}
		sb.WriteString("}")
	}
}

// jsonStringText writes a JSON string; now and then some of its characters as \uXXXX escapes (the same string for
// every JSON reader)
func jsonStringText(str string, g *gen) string {
	b, _ := json.Marshal(str)
	if g == nil || !utf8.ValidString(str) || !g.chance(0.2) {
		return string(b)
	}
	if _, err := time.Parse(time.RFC3339Nano, str); err == nil {
		return string(b) // time.Time.UnmarshalJSON reads the literal without unescaping it: such a text is refused, never mis-sent
	}
	var sb strings.Builder
	sb.WriteString(`"`)
	for _, r := range str {
		if r < 0x10000 && g.chance(0.4) {
			fmt.Fprintf(&sb, "\\u%04x", r)
			continue
		}
		one, _ := json.Marshal(string(r))
		sb.Write(one[1 : len(one)-1])
	}
	sb.WriteString(`"`)
	return sb.String()
}

var plainIntRe = regexp.MustCompile(`^-?(0|[1-9][0-9]*)$`)
var numRe = regexp.MustCompile(`^(-?)([0-9]+)(?:\.([0-9]+))?(?:[eE]([+-]?[0-9]+))?$`)

// decOf: the literal as m·10^e
func decOf(lit string) (m string, e int, plain bool) {
	g := numRe.FindStringSubmatch(lit)
	if g == nil {
		return "0", 0, false
	}
	digits := g[2] + g[3]
	exp := 0
	if g[4] != "" {
		exp, _ = strconv.Atoi(g[4])
	}
	exp -= len(g[3])
	n, _ := new(big.Int).SetString(digits, 10)
	if g[1] == "-" {
		n.Neg(n)
	}
	return n.String(), exp, plainIntRe.MatchString(lit)
}

func (n *jnode) tokens(out *[]string) {
	switch n.kind {
	case "null":
		*out = append(*out, "null")
	case "bool":
		*out = append(*out, fmt.Sprint(n.b))
	case "num":
		m, e, p := decOf(n.lit)
		pl := "0"
		if p {
			pl = "1"
		}
		*out = append(*out, fmt.Sprintf("n:%s:%d:%s", m, e, pl))
	case "str":
		*out = append(*out, "s:"+hexOf([]byte(n.s)))
	case "arr":
		*out = append(*out, "[")
		for _, x := range n.arr {
			x.tokens(out)
		}
		*out = append(*out, "]")
	case "obj":
		*out = append(*out, "{")
		for i := range n.keys {
			*out = append(*out, "k:"+hexOf([]byte(n.keys[i])))
			n.vals[i].tokens(out)
		}
		*out = append(*out, "}")
	}
}

// ---- request trees → JSON in a chosen notation ----------------------------------------------

func (g *gen) tagJ(t rscp.Tag, allowNumber bool) *jnode {
	if t.IsATag() && (!allowNumber || g.chance(0.7)) {
		return jstr(t.String())
	}
	if allowNumber && g.chance(0.7) {
		return jnum(strconv.FormatUint(uint64(t), 10))
	}
	return jstr(strconv.FormatUint(uint64(t), 10))
}

func intLit(g *gen, v *big.Int) string {
	s := v.String()
	switch g.pick(8) {
	case 0:
		return s + ".0"
	case 1:
		return s + "e0"
	case 2:
		if v.Sign() != 0 {
			return s + "0e-1"
		}
	case 3:
		if strings.HasSuffix(s, "0") && len(s) > 1 {
			return s[:len(s)-1] + "E1"
		}
	}
	return s
}

// valueJ: the JSON value for a well-typed message value
func (g *gen) valueJ(m rscp.Message, objectsOnly bool) *jnode {
	switch v := m.Value.(type) {
	case nil:
		return jnull()
	case bool:
		return jbool(v)
	case int8:
		return jnum(intLit(g, big.NewInt(int64(v))))
	case uint8:
		return jnum(intLit(g, big.NewInt(int64(v))))
	case int16:
		return jnum(intLit(g, big.NewInt(int64(v))))
	case uint16:
		return jnum(intLit(g, big.NewInt(int64(v))))
	case int32:
		return jnum(intLit(g, big.NewInt(int64(v))))
	case uint32:
		return jnum(intLit(g, big.NewInt(int64(v))))
	case int64:
		return jnum(intLit(g, big.NewInt(v)))
	case uint64:
		return jnum(intLit(g, new(big.Int).SetUint64(v)))
	case rscp.RscpError:
		return jnum(strconv.FormatUint(uint64(v), 10))
	case float32:
		return jnum(strconv.FormatFloat(float64(v), 'g', -1, 32))
	case float64:
		return jnum(strconv.FormatFloat(v, 'g', -1, 64))
	case string:
		return jstr(v)
	case []byte:
		n := jarr()
		for _, b := range v {
			n.arr = append(n.arr, jnum(strconv.Itoa(int(b))))
		}
		return n
	case time.Time:
		return jstr(v.Format(time.RFC3339Nano))
	case []rscp.Message:
		n := jarr()
		for _, c := range v {
			n.arr = append(n.arr, g.requestJ(c, objectsOnly))
		}
		return n
	}
	return jnull()
}

// requestJ writes one request in a notation chosen at random (object notation only below an object)
func (g *gen) requestJ(m rscp.Message, objectsOnly bool) *jnode {
	inferred := m.DataType == m.Tag.DataType()
	hasValue := m.Value != nil
	choice := g.pick(3)
	if objectsOnly {
		choice = 2
	}
	switch choice {
	case 0: // bare tag, when nothing else has to be said
		if inferred && !hasValue {
			return g.tagJ(m.Tag, true)
		}
		fallthrough
	case 1: // tuple
		t := jarr(g.tagJ(m.Tag, true))
		if !inferred || g.chance(0.3) {
			t.arr = append(t.arr, jstr(m.DataType.String()))
		}
		if hasValue {
			t.arr = append(t.arr, g.valueJ(m, false))
		} else if len(t.arr) == 2 && g.chance(0.3) {
			t.arr = append(t.arr, jnull())
		}
		return t
	}
	o := jobj()
	names := [][3]string{{"Tag", "DataType", "Value"}, {"tag", "datatype", "value"}, {"TAG", "DataType", "VALUE"}}[g.pick(3)]
	o.set(names[0], g.tagJ(m.Tag, true))
	if !inferred || g.chance(0.3) {
		o.set(names[1], jstr(m.DataType.String()))
	}
	if hasValue {
		o.set(names[2], g.valueJ(m, true))
	}
	return o
}

// a request tree the JSON notations can express exactly
func (g *gen) jsonRequest(depth int) rscp.Message {
	dt := g.dataType(depth)
	for dt == rscp.None && g.chance(0.5) {
		dt = g.dataType(depth)
	}
	var t rscp.Tag
	if g.chance(0.75) && len(g.byType[dt]) > 0 {
		t = g.byType[dt][g.pick(len(g.byType[dt]))] // data type inferred from the tag
	} else {
		t = g.tag()
	}
	t &^= 1 << 23
	m := rscp.Message{Tag: t, DataType: dt}
	b := 200
	switch dt {
	case rscp.Container:
		ch := []rscp.Message{}
		if depth > 0 {
			for i := 0; i < g.pick(4); i++ {
				ch = append(ch, g.jsonRequest(depth-1))
			}
		}
		m.Value = ch
	case rscp.CString:
		n := g.pick(12)
		bs := make([]byte, n)
		for i := range bs {
			bs[i] = byte(32 + g.pick(95))
		}
		s := string(bs)
		if g.chance(0.1) {
			s += "é€"
		}
		if rscp.DataType(0).IsADataType() { // never a string that names a data type (that is the type-override notation)
			if _, err := rscp.DataTypeString(s); err == nil {
				s += "_"
			}
		}
		m.Value = s
	case rscp.Timestamp:
		sec := g.r.Int63n(253402300799+62135596800) - 62135596800
		m.Value = time.Unix(sec, []int64{0, 123456789, 999999999, 500000000}[g.pick(4)]).UTC()
	case rscp.Float32:
		f := math.Float32frombits(g.r.Uint32())
		for math.IsNaN(float64(f)) || math.IsInf(float64(f), 0) || (f == 0 && math.Signbit(float64(f))) {
			f = math.Float32frombits(g.r.Uint32())
		}
		m.Value = f
	case rscp.Double64:
		f := math.Float64frombits(g.r.Uint64())
		for math.IsNaN(f) || math.IsInf(f, 0) || (f == 0 && math.Signbit(f)) {
			f = math.Float64frombits(g.r.Uint64())
		}
		m.Value = f
	default:
		m.Value = g.value(dt, 0, &b)
	}
	return m
}

func init() {
	streams["jsonin"] = func(g *gen, cw *caseWriter, n int, thorough bool) {
		loop, err := startE3Loop()
		if err != nil {
			fmt.Fprintln(os.Stderr, "cannot start e3dc loop:", err)
			os.Exit(3)
		}
		defer loop.close()
		run := func(root *jnode, label string, wantTree []rscp.Message, mustReject bool) {
			var sb strings.Builder
			root.text(&sb, g)
			got := loop.ask("in " + hexOf([]byte(sb.String())))
			var toks []string
			root.tokens(&toks)
			prop := "pass"
			switch {
			case got == "panic" || got == "loop-dead":
				prop = "FAIL * the JSON request parser panics on " + trunc(sb.String(), 120)
			case wantTree != nil:
				if got != "ok "+msgsString(wantTree)+" ; send=ok" {
					prop = "FAIL C12 the request is not transmitted as written: " + trunc(sb.String(), 160) + " gives " + trunc(got, 160)
					if strings.HasPrefix(label, "digit-string tag") {
						prop += " ;; FAIL C14 a tag written as its number in a string is not read as that tag by the command line tool"
					}
				}
			case mustReject:
				if strings.HasSuffix(got, "send=ok") {
					prop = "FAIL C12 input that must be rejected would be transmitted: " + trunc(sb.String(), 160) + " gives " + trunc(got, 120)
				}
			}
			if !strings.HasPrefix(got, "ok ") {
				got = "err"
			}
			cw.add("jin "+strings.Join(toks, " "), got, "N jsonin "+label, prop)
		}
		for i := 0; i < n; i++ {
			var tree []rscp.Message
			for k := 0; k <= g.pick(3); k++ {
				tree = append(tree, g.jsonRequest(2))
			}
			root := jarr()
			for _, m := range tree {
				root.arr = append(root.arr, g.requestJ(m, false))
			}
			// the same tree twice in independently chosen notations: both must give exactly the tree
			run(root, "valid "+treeLabel(tree), tree, false)
			root2 := jarr()
			for _, m := range tree {
				root2.arr = append(root2.arr, g.requestJ(m, false))
			}
			run(root2, "valid-other-notation", tree, false)
		}
		// numbers at and beyond the range of every numeric type, fractions, exponent forms
		type rng struct {
			dt       rscp.DataType
			min, max string
		}
		ranges := []rng{{rscp.Char8, "-128", "127"}, {rscp.UChar8, "0", "255"}, {rscp.Bitfield, "0", "255"}, {rscp.Int16, "-32768", "32767"},
			{rscp.UInt16, "0", "65535"}, {rscp.Int32, "-2147483648", "2147483647"}, {rscp.Uint32, "0", "4294967295"},
			{rscp.Int64, "-9223372036854775808", "9223372036854775807"}, {rscp.Uint64, "0", "18446744073709551615"}, {rscp.Error, "0", "4294967295"}}
		for _, r := range ranges {
			lo, _ := new(big.Int).SetString(r.min, 10)
			hi, _ := new(big.Int).SetString(r.max, 10)
			for _, c := range []struct {
				v  *big.Int
				ok bool
			}{{lo, true}, {hi, true}, {new(big.Int).Sub(lo, big.NewInt(1)), false}, {new(big.Int).Add(hi, big.NewInt(1)), false},
				{new(big.Int).Lsh(hi, 1), false}, {new(big.Int).Add(new(big.Int).Lsh(big.NewInt(1), 53), big.NewInt(1)), r.dt == rscp.Int64 || r.dt == rscp.Uint64}} {
				for notation := 0; notation < 2; notation++ {
					tag := jnum("12345")
					var root *jnode
					lit := c.v.String()
					if notation == 0 {
						root = jarr(jarr(tag, jstr(r.dt.String()), jnum(lit)))
					} else {
						root = jarr(jobj().set("Tag", tag).set("DataType", jstr(r.dt.String())).set("Value", jnum(lit)))
					}
					if c.ok {
						want := rscp.Message{Tag: 12345, DataType: r.dt}
						ok := true
						switch r.dt {
						case rscp.Char8:
							want.Value = int8(c.v.Int64())
						case rscp.UChar8, rscp.Bitfield:
							want.Value = uint8(c.v.Uint64())
						case rscp.Int16:
							want.Value = int16(c.v.Int64())
						case rscp.UInt16:
							want.Value = uint16(c.v.Uint64())
						case rscp.Int32:
							want.Value = int32(c.v.Int64())
						case rscp.Uint32:
							want.Value = uint32(c.v.Uint64())
						case rscp.Int64:
							want.Value = c.v.Int64()
						case rscp.Uint64:
							want.Value = c.v.Uint64()
						case rscp.Error:
							want.Value = rscp.RscpError(c.v.Uint64())
						default:
							ok = false
						}
						if ok {
							run(root, fmt.Sprintf("range-edge dt=%d in", r.dt), []rscp.Message{want}, false)
						}
					} else {
						run(root, fmt.Sprintf("range-edge dt=%d out", r.dt), nil, true)
					}
				}
			}
			for _, lit := range []string{"2.5", "0.1", "1e-1", "-0.5", "1.0000000000000000000001"} {
				run(jarr(jarr(jnum("12345"), jstr(r.dt.String()), jnum(lit))), fmt.Sprintf("fraction dt=%d", r.dt), nil, true)
			}
		}
		for _, lit := range []string{"1e39", "3.5e38", "-1e39", "1e400"} {
			run(jarr(jarr(jnum("12345"), jstr("Float32"), jnum(lit))), "float32-overflow", nil, true)
		}
		run(jarr(jarr(jnum("12345"), jstr("Double64"), jnum("1e400"))), "float64-overflow", nil, true)
		for _, el := range []string{"256", "-1", "2.5", "300", "1e3"} {
			run(jarr(jarr(jstr("WB_EXTERN_DATA"), jarr(jnum("1"), jnum(el)))), "bytearray-element-out-of-range", nil, true)
		}
		// a string value that merely resembles a data-type name (wrong case) is a value, in every notation
		strTag := g.byType[rscp.CString][0] &^ (1 << 23)
		for _, dt := range definedTypes {
			for _, v := range []string{strings.ToLower(dt.String()), strings.ToUpper(dt.String()), " " + dt.String(), dt.String() + " "} {
				if _, err := rscp.DataTypeString(v); err == nil {
					continue
				}
				want := []rscp.Message{{Tag: strTag, DataType: strTag.DataType(), Value: v}}
				run(jarr(jarr(g.tagJ(strTag, false), jstr(v))), "type-name-lookalike tuple2", want, false)
				run(jarr(jarr(g.tagJ(strTag, false), jstr("CString"), jstr(v))), "type-name-lookalike tuple3", want, false)
				run(jarr(jobj().set("Tag", g.tagJ(strTag, false)).set("Value", jstr(v))), "type-name-lookalike object", want, false)
				// and as a data type it is unknown
				run(jarr(jarr(jnum("12345"), jstr(v), jnum("1"))), "type-name-lookalike as type", nil, true)
			}
		}
		// floats next to the midpoint of two neighbouring representable values: rounded once, to the nearest
		for i := 0; i < 40+n/10; i++ {
			for _, bits := range []int{32, 64} {
				var lo, hi *big.Float
				var loV, hiV interface{}
				if bits == 32 {
					b := uint32(g.r.Uint32()) & 0x7f7fffff
					x, y := math.Float32frombits(b), math.Float32frombits(b+1)
					if math.IsInf(float64(y), 0) || x == 0 {
						continue
					}
					lo, hi, loV, hiV = new(big.Float).SetPrec(400).SetFloat64(float64(x)), new(big.Float).SetPrec(400).SetFloat64(float64(y)), x, y
				} else {
					b := g.r.Uint64() & 0x7fefffffffffffff
					x, y := math.Float64frombits(b), math.Float64frombits(b+1)
					if math.IsInf(y, 0) || x == 0 {
						continue
					}
					lo, hi, loV, hiV = new(big.Float).SetPrec(400).SetFloat64(x), new(big.Float).SetPrec(400).SetFloat64(y), x, y
				}
				mid := new(big.Float).SetPrec(2000).Add(lo, hi)
				mid.Quo(mid, big.NewFloat(2))
				txt := mid.Text('e', 1100)
				// exact decimal expansion of the midpoint: mantissa digits and exponent
				parts := strings.SplitN(txt, "e", 2)
				mant := strings.TrimRight(parts[0], "0")
				if strings.HasSuffix(mant, ".") {
					mant += "0"
				}
				dtName := map[int]string{32: "Float32", 64: "Double64"}[bits]
				dtc := map[int]rscp.DataType{32: rscp.Float32, 64: rscp.Double64}[bits]
				above := mant + "0000000001e" + parts[1]
				// just below: decrement the last non-zero digit and append 9s
				md := []byte(mant)
				k := len(md) - 1
				for md[k] == '0' || md[k] == '.' {
					k--
				}
				md[k]--
				below := string(md) + "9999999999e" + parts[1]
				run(jarr(jarr(jnum("12345"), jstr(dtName), jnum(above))), fmt.Sprintf("float%d just above a midpoint", bits), []rscp.Message{{Tag: 12345, DataType: dtc, Value: hiV}}, false)
				run(jarr(jarr(jnum("12345"), jstr(dtName), jnum(below))), fmt.Sprintf("float%d just below a midpoint", bits), []rscp.Message{{Tag: 12345, DataType: dtc, Value: loV}}, false)
			}
		}
		// unknown tags / types, wrong JSON kinds, malformed shapes
		bad := []*jnode{
			jarr(jstr("NO_SUCH_TAG")), jarr(jarr(jstr("NO_SUCH_TAG"))), jarr(jobj().set("Tag", jstr("NO_SUCH_TAG"))),
			jarr(jarr(jnum("1"), jstr("NoSuchType"), jnum("1"))), jarr(jobj().set("Tag", jnum("12345")).set("DataType", jstr("NoSuchType"))),
			jarr(jnum("4294967296")), jarr(jnum("-1")), jarr(jnum("1.5")), jarr(jarr(jnum("1.0"))), jarr(jbool(true)), jarr(jnull()), jarr(jobj()),
			jarr(jarr()), jarr(jarr(jnum("1"), jnum("2"), jnum("3"), jnum("4"))), jobj(), jstr("INFO_REQ_UTC_TIME"), jnum("1"), jnull(),
			jarr(jobj().set("Value", jnum("5"))), jarr(jobj().set("Tag", jnull())), jarr(jobj().set("Tag", jnum("12345")).set("DataType", jnull())),
			jarr(jarr(jstr("INFO_SET_TIME"), jnull())), jarr(jarr(jstr("INFO_SET_TIME"), jstr("not a time"))), jarr(jarr(jstr("INFO_SET_TIME"), jnum("5"))),
			jarr(jarr(jstr("INFO_SET_TIME"), jstr("2024-02-30T00:00:00Z"))),
			jarr(jarr(jnum("12345"), jstr("UInt16"), jstr("7"))), jarr(jarr(jnum("12345"), jstr("Bool"), jstr("true"))), jarr(jarr(jnum("12345"), jstr("UInt16"), jbool(true))),
			jarr(jarr(jnum("12345"), jstr("UInt16"), jarr(jnum("1")))), jarr(jarr(jnum("12345"), jstr("CString"), jarr())), jarr(jarr(jnum("12345"), jstr("UInt16"))),
			jarr(jarr(jnum("12345"), jstr("Container"), jnum("1"))), jarr(jarr(jnum("12345"), jstr("Container"), jarr(jnum("-5")))),
			jarr(jarr(jstr("EMS_POWER_PV"))), // a response tag
			jarr(jarr(jnum("12345"), jstr("Error"), jstr("ERR_FORMAT"))),
		}
		for _, el := range []*jnode{jnull(), jstr("1"), jbool(true), jarr(), jobj(), jnum("1.5"), jnum("256"), jnum("-1"), jnum("255.00000000000000001"), jnum("1e-1")} {
			bad = append(bad, jarr(jarr(jstr("WB_REQ_DATA"), jarr(jarr(jstr("WB_EXTERN_DATA"), jarr(jnum("1"), el, jnum("3")))))),
				jarr(jarr(jnum("12345"), jstr("ByteArray"), jarr(el))), jarr(jobj().set("Tag", jnum("12345")).set("DataType", jstr("ByteArray")).set("Value", jarr(jnum("0"), el))))
		}
		// null where a tag is expected; time stamps written in other layouts than RFC 3339
		bad = append(bad, jarr(jarr(jnull())), jarr(jarr(jnull(), jstr("CString"), jstr("abc"))), jarr(jarr(jnull(), jstr("x"))),
			jarr(jarr(jstr("EMS_REQ_SET_POWER"), jarr(jarr(jnull(), jstr("UChar8"), jnum("3"))))), jarr(jarr(jnull(), jnull())))
		for _, ts := range []string{"Thu, 01 Oct 2026 12:00:00 CEST", "Thu, 01 Oct 2026 12:00:00 +0200", "01 Oct 26 12:00 UTC", "Thursday, 01-Oct-26 12:00:00 UTC", "Thu Oct  1 12:00:00 UTC 2026",
			"2026-10-01 12:00:00", "2026-10-01", "12:00:00", "2026-10-01T12:00:00", "1790855000", "2026-10-01T12:00:00+02", "2026-10-01t12:00:00z"} {
			bad = append(bad, jarr(jarr(jnum("12345"), jstr("Timestamp"), jstr(ts))), jarr(jobj().set("Tag", jnum("12345")).set("DataType", jstr("Timestamp")).set("Value", jstr(ts))))
		}
		for i, b := range bad {
			run(b, fmt.Sprintf("must-reject #%d", i), nil, true)
		}
		// float literals the tree model does not carry (the sign of a zero, exponents of millions of digits): judged by the
		// Go-side oracle alone — the value on the wire is the correctly rounded one, sign included
		for _, lit := range []string{"-0", "-0.0", "-0e3", "-0.0e-5", "0", "0.0"} {
			for _, dtn := range []string{"Float32", "Double64"} {
				var want interface{}
				neg := strings.HasPrefix(lit, "-")
				if dtn == "Float32" {
					want = float32(0)
					if neg {
						want = float32(math.Copysign(0, -1))
					}
				} else {
					want = float64(0)
					if neg {
						want = math.Copysign(0, -1)
					}
				}
				dtc := map[string]rscp.DataType{"Float32": rscp.Float32, "Double64": rscp.Double64}[dtn]
				for _, txt := range []string{`[[12345,"` + dtn + `",` + lit + `]]`, `[{"Tag":12345,"DataType":"` + dtn + `","Value":` + lit + `}]`} {
					got := loop.ask("in " + hexOf([]byte(txt)))
					prop := "pass"
					if w := "ok " + msgsString([]rscp.Message{{Tag: 12345, DataType: dtc, Value: want}}) + " ; send=ok"; got != w {
						prop = "FAIL C12 the float literal " + lit + " is not transmitted as written: " + txt + " gives " + trunc(got, 120)
					}
					cw.add("skip", "skip", "N jsonin zero-literal", prop)
				}
			}
		}
		for _, lit := range []string{"1e-2000000", "0e99999999", "0.0e-99999999"} {
			txt := `[[12345,"Double64",` + lit + `]]`
			got := loop.ask("in " + hexOf([]byte(txt)))
			prop := "pass"
			if w := "ok " + msgsString([]rscp.Message{{Tag: 12345, DataType: rscp.Double64, Value: float64(0)}}) + " ; send=ok"; got != w {
				prop = "FAIL C12 the float literal " + lit + " (which rounds to 0) is not transmitted as 0: gives " + trunc(got, 120)
			}
			cw.add("skip", "skip", "N jsonin huge-exponent", prop)
		}
		// the exact name of a data type as second element of a pair is the type (whatever the tag's own type is)
		for _, tg := range []rscp.Tag{rscp.RSCP_REQ_SET_ENCRYPTION_PASSPHRASE, g.reqByType[rscp.CString][0], g.reqByType[rscp.None][0], g.reqByType[rscp.UChar8][0], 12345} {
			for _, d := range definedTypes {
				var want []rscp.Message
				if d == rscp.None {
					want = []rscp.Message{{Tag: tg, DataType: rscp.None}}
				}
				run(jarr(jarr(g.tagJ(tg, true), jstr(d.String()))), "exact type name as second element", want, false)
			}
		}
		// data type names are case sensitive: other spellings are no type names — as a type they are refused, as the
		// second element of a pair they are the string value
		for _, d := range definedTypes {
			for _, alt := range []string{strings.ToLower(d.String()), strings.ToUpper(d.String()), strings.Title(strings.ToLower(d.String())), " " + d.String(), d.String() + " "} {
				if alt == d.String() {
					continue
				}
				run(jarr(jarr(jnum("12345"), jstr(alt), jnum("1"))), "type name in another spelling, as type", nil, true)
				run(jarr(jobj().set("Tag", jnum("12345")).set("DataType", jstr(alt))), "type name in another spelling, object", nil, true)
				strTag := rscp.RSCP_REQ_SET_ENCRYPTION_PASSPHRASE
				run(jarr(jarr(jstr(strTag.String()), jstr(alt))), "type name in another spelling, as value", []rscp.Message{{Tag: strTag, DataType: rscp.CString, Value: alt}}, false)
			}
		}
		// a tag written as a string of digits is that decimal number (leading zeros included), in every notation; any other
		// spelling of a number (prefix, sign, separators, blanks, exponent) is no tag
		for k := 0; k < 6; k++ {
			t := g.reqByType[rscp.None][g.pick(len(g.reqByType[rscp.None]))]
			want := []rscp.Message{{Tag: t, DataType: rscp.None}}
			for _, pad := range []string{"", "0", "000"} {
				ds := pad + strconv.FormatUint(uint64(t), 10)
				run(jarr(jstr(ds)), "digit-string tag bare", want, false)
				run(jarr(jarr(jstr(ds))), "digit-string tag tuple", want, false)
				run(jarr(jobj().set("Tag", jstr(ds))), "digit-string tag object", want, false)
			}
			for _, alt := range []string{"0x" + strconv.FormatUint(uint64(t), 16), "0X" + strconv.FormatUint(uint64(t), 16), "0b" + strconv.FormatUint(uint64(t), 2),
				"0o" + strconv.FormatUint(uint64(t), 8), "+" + strconv.FormatUint(uint64(t), 10), strconv.FormatUint(uint64(t), 10) + " ", " " + strconv.FormatUint(uint64(t), 10),
				strconv.FormatUint(uint64(t)/1000, 10) + "_" + fmt.Sprintf("%03d", uint64(t)%1000), strconv.FormatUint(uint64(t), 10) + "e0", strconv.FormatUint(uint64(t), 10) + ".0"} {
				run(jarr(jstr(alt)), "number-like string that is no tag", nil, true)
				run(jarr(jarr(jstr(alt))), "number-like string that is no tag, tuple", nil, true)
				run(jarr(jobj().set("Tag", jstr(alt))), "number-like string that is no tag, object", nil, true)
			}
		}
		for _, alt := range []string{"010", "08", "09", "0x10", "0b11", "0o17", "1_000", "00"} {
			run(jarr(jstr(alt)), "short number-like tag string", nil, false) // whatever it is, model and code must agree
		}
		// text-level malformations: no JSON tree to give the model, judged by the Go-side oracle only
		for _, txt := range []string{"", " ", "[", "[[]", `["INFO_REQ_UTC_TIME"`, `["INFO_REQ_UTC_TIME",]`, `{"Tag":}`, `[x]`, `["INFO_REQ_UTC_TIME"] trailing`,
			`[01]`, `["BAT_REQ_DATA",[["BAT_INDEX",0]`, "\xff\xfe", `[1e]`, `nul`, `[{"Tag":"INFO_REQ_UTC_TIME",}]`} {
			got := loop.ask("in " + hexOf([]byte(txt)))
			prop := "pass"
			if got == "panic" || got == "loop-dead" {
				prop = "FAIL * the JSON request parser panics on malformed text"
			} else if strings.HasSuffix(got, "send=ok") {
				prop = "FAIL C12 malformed request text would be transmitted: " + trunc(txt, 60)
			}
			cw.add("skip", "skip", "N jsonin malformed-text", prop)
		}
	}
}
