package main

import (
	"encoding/binary"
	"fmt"
	"github.com/sirupsen/logrus"
	"hash/crc32"
	"io"
	"strings"
	"time"

	"github.com/spali/go-rscp/rscp"
)

// stream bits (C04): alterations of valid checksummed frames

func bitsCase(cw *caseWriter, p []byte, label string, mustReject bool) {
	// the same bytes delivered block by block must not be accepted either (the client reads one block per call by default)
	if mustReject && len(p) >= 64 && len(p) <= 256 {
		var chunks [][]byte
		for i := 0; i < len(p); i += 32 {
			chunks = append(chunks, p[i:i+32])
		}
		res := readChunks(identityMode{}, chunks)
		var hs []string
		for _, c := range chunks {
			hs = append(hs, hexOf(c))
		}
		prop := "pass"
		for _, r := range res {
			if strings.HasPrefix(r, "ok ") {
				prop = "FAIL C04 altered checksummed frame accepted when delivered block by block: " + trunc(r, 100)
			}
		}
		cw.add("decs "+strings.Join(hs, " "), strings.Join(res, " | "), "N "+label+" chunked", prop)
	}
	got := readOnce(identityMode{}, p)
	prop := "pass"
	// … and at trace level the verdict is the same
	oldLvl, oldOut := rscp.Log.GetLevel(), rscp.Log.Out
	rscp.Log.SetOutput(io.Discard)
	rscp.Log.SetLevel(logrus.TraceLevel)
	atTrace := readOnce(identityMode{}, p)
	rscp.Log.SetLevel(oldLvl)
	rscp.Log.SetOutput(oldOut)
	if got == "panic" || got == "hang" {
		prop = "FAIL C04 decoder " + got
	} else if mustReject && strings.HasPrefix(got, "ok ") {
		prop = "FAIL C04 altered checksummed frame accepted: " + trunc(got, 120)
	} else if mustReject && strings.HasPrefix(atTrace, "ok ") {
		prop = "FAIL C04 altered checksummed frame accepted when the log level is trace: " + trunc(atTrace, 120)
	} else if atTrace != got {
		prop = "FAIL * the decoder's result depends on the log level: " + trunc(got, 80) + " vs " + trunc(atTrace, 80) + " at trace level"
	}
	cw.add("dec "+hexOf(p), got, "N "+label, prop)
}

func init() {
	streams["bits"] = func(g *gen, cw *caseWriter, n int, thorough bool) {
		for i := 0; i < n; i++ {
			budget := 150
			ms := g.msgs([]int{0, 1, 2}[g.pick(3)], []int{0, 1, 1, 2, 3}[g.pick(5)], &budget)
			base := plainFrame(ms, true, g.time())
			if base == nil || len(base) > 512 {
				continue
			}
			l := int(binary.LittleEndian.Uint16(base[16:]))
			fs := 18 + l + 4
			bitsCase(cw, base, "valid "+treeLabel(ms), false)
			// positions an alteration may touch: time stamp, payload, CRC field
			var pos []int
			for b := 4; b < 16; b++ {
				pos = append(pos, b)
			}
			for b := 18; b < fs; b++ {
				pos = append(pos, b)
			}
			// the control word is covered by the checksum too: one flipped bit of it (reserved bits, version) never yields
			// an accepted frame. The checksum flag itself is different: with it cleared the frame no longer announces a
			// checksum, which C04 does not speak about (and when the frame without its trailer fills whole blocks, the first
			// blocks are a complete frame of their own) - that flip is compared with the model only.
			for b := 2; b < 4; b++ {
				for k := 0; k < 8; k++ {
					p := append([]byte{}, base...)
					p[b] ^= 1 << uint(k)
					bitsCase(cw, p, fmt.Sprintf("flip1 control byte=%d bit=%d fs=%d", b, k, fs), !(b == 3 && k == 4))
				}
			}
			// every single-bit flip
			for _, b := range pos {
				for k := 0; k < 8; k++ {
					if !thorough && i%8 != 0 && g.pick(4) != 0 {
						continue
					}
					p := append([]byte{}, base...)
					p[b] ^= 1 << uint(k)
					bitsCase(cw, p, fmt.Sprintf("flip1 byte=%d bit=%d fs=%d", b, k, fs), true)
				}
			}
			// bursts of at most 32 bits at every (or a sampled) bit offset; the window may cross the length field,
			// whose bits stay untouched
			nb := fs * 8
			for start := 32; start < nb; start++ {
				if !thorough && g.pick(6) != 0 {
					continue
				}
				w := 2 + g.pick(31)
				p := append([]byte{}, base...)
				changed := false
				for j := 0; j < w && start+j < nb; j++ {
					bit := start + j
					byteIx := bit / 8
					if byteIx < 4 || byteIx == 16 || byteIx == 17 {
						continue
					}
					if j == 0 || j == w-1 || g.chance(0.5) {
						p[byteIx] ^= 1 << uint(bit%8)
						changed = true
					}
				}
				if changed {
					bitsCase(cw, p, fmt.Sprintf("burst start=%d w=%d fs=%d", start, w, fs), true)
				}
			}
			// the checksum field replaced by near-misses of the right value: other byte orders, complements, rotations,
			// bit order reversed, the checksum without its final inversion
			{
				good := binary.LittleEndian.Uint32(base[18+l:])
				rev8 := func(x uint32) uint32 {
					var r uint32
					for k := 0; k < 32; k++ {
						r |= (x >> uint(k) & 1) << uint(31-k)
					}
					return r
				}
				swap := good<<24 | good>>24 | (good&0xff00)<<8 | (good>>8)&0xff00
				for _, nv := range []struct {
					name string
					v    uint32
				}{{"byte-reversed", swap}, {"complement", ^good}, {"zero", 0}, {"ones", 0xffffffff}, {"rot8", good<<8 | good>>24}, {"rot16", good<<16 | good>>16},
					{"bit-reversed", rev8(good)}, {"halves-swapped-bytes", (good&0x00ff00ff)<<8 | (good&0xff00ff00)>>8}, {"plus-one", good + 1},
					{"crc-of-data-only", crc32.ChecksumIEEE(base[18 : 18+l])}, {"crc-of-header-only", crc32.ChecksumIEEE(base[:18])}, {"crc-without-magic", crc32.ChecksumIEEE(base[2 : 18+l])},
					{"crc-without-control", crc32.ChecksumIEEE(base[4 : 18+l])}, {"crc-including-padding", crc32.ChecksumIEEE(base)}, {"crc-castagnoli", crc32.Checksum(base[:18+l], crc32.MakeTable(crc32.Castagnoli))},
					{"crc-init-zero", crc32.Update(0xffffffff, crc32.IEEETable, base[:18+l])},
					{"crc-with-flag-cleared", func() uint32 { q := append([]byte{}, base[:18+l]...); q[3] &^= 0x10; return crc32.ChecksumIEEE(q) }()},
					{"crc-with-zero-time", func() uint32 {
						q := append([]byte{}, base[:18+l]...)
						copy(q[4:16], make([]byte, 12))
						return crc32.ChecksumIEEE(q)
					}()},
					{"crc-with-zero-length", func() uint32 {
						q := append([]byte{}, base[:18+l]...)
						q[16], q[17] = 0, 0
						return crc32.ChecksumIEEE(q)
					}()}} {
					name, v := nv.name, nv.v
					if v == good {
						continue
					}
					p := append([]byte{}, base...)
					binary.LittleEndian.PutUint32(p[18+l:], v)
					bitsCase(cw, p, fmt.Sprintf("crc-field %s fs=%d", name, fs), true)
				}
			}
			// pairs of flips
			pairs := 40
			if thorough && len(base) <= 96 {
				pairs = 4000
			}
			for k := 0; k < pairs; k++ {
				p := append([]byte{}, base...)
				a, b := pos[g.pick(len(pos))]*8+g.pick(8), pos[g.pick(len(pos))]*8+g.pick(8)
				if a == b {
					continue
				}
				p[a/8] ^= 1 << uint(a%8)
				p[b/8] ^= 1 << uint(b%8)
				bitsCase(cw, p, fmt.Sprintf("flip2 a=%d b=%d fs=%d", a, b, fs), true)
			}
			// random multi-byte corruption of the plaintext: verdict against the specification
			for k := 0; k < 6; k++ {
				p := append([]byte{}, base...)
				for j := 0; j <= g.pick(6); j++ {
					p[g.pick(len(p))] ^= byte(1 + g.pick(255))
				}
				anyCase(cw, p, "multi-byte-plain")
			}
			// corruption of the ciphertext: decrypt independently, compare the verdict with the specification
			enc, dec := cbcPair("key")
			ct := append([]byte{}, base...)
			enc.CryptBlocks(ct, ct)
			for k := 0; k < 4; k++ {
				c := append([]byte{}, ct...)
				c[g.pick(len(c))] ^= byte(1 + g.pick(255))
				_, d2 := cbcPair("key")
				pl := append([]byte{}, c...)
				d2.CryptBlocks(pl, pl)
				_, d3 := cbcPair("key")
				got := readOnce(d3, c)
				sp := "none"
				if strings.HasPrefix(got, "ok ") {
					sp = "some " + got[3:]
				} else if got == "panic" || got == "hang" {
					sp = got
				}
				cw.add("spec "+hexOf(pl), sp, "N multi-byte-cipher", "")
			}
			_ = dec
		}
		// large checksummed frames, up to the largest data length the length field can announce: the checksum has to
		// cover all of it
		sizes := []int{65535, 65518, 65517, 40000}
		if thorough {
			sizes = nil
			for l := 65535; l >= 65500; l-- {
				sizes = append(sizes, l)
			}
			sizes = append(sizes, 65280, 65279, 49152, 40000, 32768, 32767, 16384, 4096)
		}
		for _, l := range sizes {
			body := g.bytes(l - 7)
			ms := []rscp.Message{{Tag: 0x00800001, DataType: rscp.ByteArray, Value: body}}
			if g.chance(0.5) {
				for j := range body {
					body[j] = 'a' + body[j]%26
				}
				ms = []rscp.Message{{Tag: 0x00800001, DataType: rscp.CString, Value: string(body)}}
			}
			base := plainFrame(ms, true, g.time())
			if base == nil {
				continue
			}
			fs := 18 + l + 4
			bitsCase(cw, base, fmt.Sprintf("valid large data=%d", l), false)
			for _, b := range []int{4 + g.pick(12), 18 + 7 + g.pick(16), 18 + 7 + 16 + g.pick(l-7-32), fs - 5 - g.pick(8), fs - 1 - g.pick(4)} {
				p := append([]byte{}, base...)
				p[b] ^= 1 << uint(g.pick(8))
				bitsCase(cw, p, fmt.Sprintf("flip1 byte=%d large data=%d", b, l), true)
			}
			p := append([]byte{}, base...)
			p[18+7+g.pick(l-7)] ^= byte(1 + g.pick(255))
			p[18+7+g.pick(l-7)] ^= byte(1 + g.pick(255))
			if string(p) != string(base) {
				anyCase(cw, p, fmt.Sprintf("two-bytes large data=%d", l))
			}
		}
		_ = time.Now
		_ = rscp.None
	}
}
